/-
  The three non-utility constructors of `betterThanOrSameAs` links:
    lib/logic/limited-rationality/heuristic-utils.go : PrepareSequentialRanking
    lib/logic/limited-rationality/majority/majority.go : prepareRanking
    lib/logic/preference-func/electreIII/ranking_evaluator.go : EvaluateRanking
  Entries are `(id, payload)`; the payload (the method's `evaluation`) is carried through untouched.
-/
import Rdm.Basic
namespace Rdm

/-- an entry of the final ranking: alternative id, evaluation payload, links -/
structure Linked (β : Type) where
  id : String
  ev : β
  links : List String

/-- `PrepareSequentialRanking`: entry i points at entry i+1 (if any) -/
def sequentialRanking {β} : List (String × β) → List (Linked β)
  | [] => []
  | [(i, e)] => [⟨i, e, []⟩]
  | (i, e) :: (j, f) :: rest => ⟨i, e, [j]⟩ :: sequentialRanking ((j, f) :: rest)

/-- ids of `l` except position `i` -/
def othersAt (l : List String) (i : Nat) : List String := l.eraseIdx i

/-- inner loop of `prepareRanking` for one tie group: every entry links to the previous group
    (`worse`) followed by its peers -/
def groupEntries {β} (worse : List String) (group : List (String × β)) : List (Linked β) :=
  let gids := group.map (·.1)
  (List.range group.length).zip group |>.map fun (i, (id, e)) => ⟨id, e, worse ++ othersAt gids i⟩

/-- `prepareRanking` before the final reversal: groups from worst to best -/
def majorityEntries {β} : List String → List (List (String × β)) → List (Linked β)
  | _, [] => []
  | worse, g :: gs => groupEntries worse g ++ majorityEntries (g.map (·.1)) gs

/-- `prepareRanking`: drop-out groups (worst first) → ranking (best first) -/
def majorityRanking {β} (groups : List (List (String × β))) : List (Linked β) :=
  (majorityEntries [] groups).reverse

/-- `EvaluateRanking`: a ≥ b iff a is not behind b in both distillations -/
def evaluateRanking (asc desc : List Int) (ids : List String) : List (Linked (Int × Int)) :=
  let rows := (List.range ids.length).zip (ids.zip (asc.zip desc))
  rows.map fun (ia, (id, (a1, d1))) =>
    ⟨id, (a1, d1), (rows.filter fun (ib, (_, (a2, d2))) => ia != ib && a1 ≤ a2 && d1 ≤ d2).map (·.2.1)⟩

end Rdm
