/-
  Model of the three utility methods:
    lib/logic/preference-func/weighted-sum/weighted-sum.go  (WeightedSum)
    lib/logic/preference-func/owa/owa.go                    (OWA, owa, sortWeights, ...)
    lib/logic/preference-func/choquet/*.go                  (parse, computeTotalWeight, PowerSet, ...)
  and of model.Rank (decision-maker-helpers.go).
-/
import Rdm.Model.Types
import Rdm.Model.Ranking
namespace Rdm
variable {α : Type} [Num α]

/-! ### weighted sum -/

/-- `WeightedSum`: accumulates the *signed value* of every weighted criterion.  (The weight is not
multiplied in — this mirrors the code; see `Props/C03` for the counterexample to the formula.) -/
def weightedSum (a : Alt α) (wc : List (WCrit α)) : R α :=
  wc.foldlM (fun total c => do pure (total + (← a.signed c.crit))) Num.zero

/-! ### OWA -/

/-- ascending sort of plain numbers (`sort.Float64s`) -/
def sortNums (l : List α) : List α := l.mergeSort (fun a b => decide (a ≤ b))

/-- `_sortWeightsMutate`: stable ascending by weight -/
def sortWCrits (l : List (WCrit α)) : List (WCrit α) :=
  l.mergeSort (fun a b => !decide (b.w < a.w))

/-- `calculateTotalAlternativeValue` over the zipped ascending lists -/
def owaTotal (vals ws : List α) : α :=
  (vals.zip ws).foldl (fun t p => t + p.1 * p.2) Num.zero

/-- `OWA`: needs as many criterion values in the alternative as weights -/
def owa (a : Alt α) (wc : List (WCrit α)) : R α :=
  if a.vals.length != wc.length then throw "owa-count-mismatch"
  else pure (owaTotal (sortNums (a.vals.map (·.2))) ((sortWCrits wc).map (·.w)))

/-! ### Choquet integral -/

def insertStr (x : String) : List String → List String
  | [] => [x]
  | y :: ys => if x ≤ y then x :: y :: ys else y :: insertStr x ys

/-- `sort.Strings` -/
def sortStrs (l : List String) : List String := l.foldr insertStr []

/-- `criterionKey`: sort the ids, join with "," -/
def criterionKey (l : List String) : String := ",".intercalate (sortStrs l)

/-- `PowerSet`: every non-empty subset of the ids, each listed in the order of `l`.  (The code
    enumerates them by bit index; the order of the subsets is never observable.) -/
def powerSet : List String → List (List String)
  | [] => []
  | x :: rest =>
    let ps := powerSet rest
    [x] :: ps ++ ps.map (x :: ·)

/-- split a capacity key on "," (`strings.Split`) -/
def splitKey (k : String) : List String := k.splitOn ","

/-- `getWeightForCriteriaUnion` -/
def unionWeight (w : KMap α) (crits : List String) : R α :=
  match w.get? (criterionKey crits) with
  | some v => pure v
  | none => throw s!"choquet-missing:{criterionKey crits}"

/-- `parse`: gain only, canonical keys unique, full power set present, every key made of declared
    criteria, every value in [0,1]; result keyed canonically -/
def choquetParse (crits : List (Crit α)) (w : KMap α) : R (KMap α) := do
  for c in crits do
    if c.type != "gain" then throw "choquet-not-gain"
  -- remapWeights
  let mut remapped : KMap α := []
  for (k, v) in w do
    let key := criterionKey (splitKey k)
    if remapped.has key then throw "choquet-redeclared"
    remapped := remapped ++ [(key, v)]
  -- validateAllWeightsAvailable
  let names := crits.map (·.id)
  for s in powerSet names do
    let _ ← unionWeight remapped s
  -- prepareWeights
  for (k, v) in remapped do
    let parts := splitKey k
    if !(parts.all fun p => names.contains p) then throw "choquet-unknown-criterion"
    if v < Num.zero || Num.one < v then throw "choquet-weight-range"
  pure remapped

/-- `prepareCriteriaInAscendingOrder`: the alternative's (criterion, value) pairs by ascending value -/
def ascendingVals (a : Alt α) : List (String × α) :=
  a.vals.mergeSort (fun x y => decide (x.2 ≤ y.2))

/-- `utils.FloatsAreEqual(a, b, eps)` -/
def floatsAreEqual (a b eps : α) : Bool := decide (Num.abs (a - b) ≤ eps)

/-- one step of `computeTotalWeight`: the tie group starting at the head of `l` (all following
    entries within `eps` of the head's value) and the rest -/
def dropGroup (eps : α) (cur : α) : List (String × α) → List (String × α)
  | [] => []
  | x :: xs => if floatsAreEqual cur x.2 eps then dropGroup eps cur xs else x :: xs

theorem dropGroup_length_le (eps cur : α) (l : List (String × α)) :
    (dropGroup eps cur l).length ≤ l.length := by
  induction l with
  | nil => simp [dropGroup]
  | cons x xs ih => unfold dropGroup; split <;> simp <;> omega

/-- `computeTotalWeight`: components `(criteria of the remaining set, valueAdded)` in order -/
def choquetComponents (eps : α) (w : KMap α) (l : List (String × α)) (prev : α) :
    R (List (List String × α)) :=
  match l with
  | [] => pure []
  | x :: xs => do
    let remaining := (x :: xs).map (·.1)
    let μ ← unionWeight w remaining
    let added := μ * (x.2 - prev)
    let rest ← choquetComponents eps w (dropGroup eps x.2 xs) x.2
    pure ((sortStrs remaining, added) :: rest)
termination_by l.length
decreasing_by
  have := dropGroup_length_le eps x.2 xs
  simp; omega

/-- `choquetIntegral` on parsed weights; `eps` is the tie tolerance of the code (1e-5) -/
def choquetValue (eps : α) (a : Alt α) (w : KMap α) : R α := do
  let comps ← choquetComponents eps w (ascendingVals a) Num.zero
  pure (comps.foldl (fun t c => t + c.2) Num.zero)

end Rdm
