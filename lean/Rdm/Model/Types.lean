/-
  Shared data types of the model: criteria, alternatives, method parameters, the working state
  (`DecisionMakingParams` in Go).  Go maps are association lists (`KMap`), printed sorted by key.
-/
import Rdm.Basic
namespace Rdm
variable {α : Type} [Num α]

/-- `model.Criterion` -/
structure Crit (α : Type) where
  id : String
  type : String                 -- "gain" | "cost" (anything that is not "cost" counts as gain)
  range : Option (α × α) := none -- declared `valuesRange` (min, max)

/-- `Criterion.Multiplier()` as a number -/
def Crit.mult (c : Crit α) : α := if c.type == "cost" then -Num.one else Num.one
def Crit.isCost (c : Crit α) : Bool := c.type == "cost"
def Crit.isGain (c : Crit α) : Bool := !(c.type == "cost")

/-- `model.AlternativeWithCriteria` -/
structure Alt (α : Type) where
  id : String
  vals : KMap α

/-- `CriterionRawValue` (panics when the value is missing) -/
def Alt.raw (a : Alt α) (c : Crit α) : R α :=
  match a.vals.get? c.id with
  | some v => pure v
  | none => throw s!"missing-value:{a.id}:{c.id}"

/-- `CriterionValue`: raw value times the multiplier -/
def Alt.signed (a : Alt α) (c : Crit α) : R α := do
  pure ((← a.raw c) * c.mult)

/-- `utils.LinearFunctionParameters`; `eval` returns `(value, ok)` with `ok = false` iff a = b = 0 -/
structure LinFun (α : Type) where
  a : α
  b : α

def LinFun.eval (f : LinFun α) (x : α) : α × Bool :=
  if f.a == Num.zero && f.b == Num.zero then (Num.zero, false) else (f.a * x + f.b, true)

/-- `model.WeightedCriterion` -/
structure WCrit (α : Type) where
  crit : Crit α
  w : α

/-- `electreIII.ElectreCriterion` -/
structure ECrit (α : Type) where
  k : α
  q : LinFun α
  p : LinFun α
  v : LinFun α

/-- parameters of a satisfaction-levels source: the three coefficient series share one shape,
    explicit thresholds are a list of per-criterion maps -/
inductive Levels (α : Type) where
  | coef (coefficient maxValue minValue : α)
  | thresholds (ts : List (KMap α))

/-- `DecisionMakingParams.MethodParameters` after `ParseParams`, one constructor per method -/
inductive MParams (α : Type) where
  | ws (wc : List (WCrit α))
  | owa (wc : List (WCrit α))
  | choquet (w : KMap α) (crit : List (Crit α))
  | electre (ec : KMap (ECrit α)) (dist : LinFun α)
  | majority (w : KMap α) (cur : String) (seed : Int) (rnd : Bool) (draw : String)
  | aspect (fn : String) (lv : Levels α) (seed : Int) (w : KMap α) (rnd : Bool)
  | satisf (fn : String) (lv : Levels α) (seed : Int) (cur : String) (rnd : Bool)

/-- `model.DecisionMakingParams` -/
structure DMP (α : Type) where
  nc : List (Alt α)       -- NotConsideredAlternatives
  co : List (Alt α)       -- ConsideredAlternatives
  crit : List (Crit α)
  mp : MParams α

/-- `AllAlternatives()`: considered first, then not considered -/
def DMP.all (d : DMP α) : List (Alt α) := d.co ++ d.nc

/-- `FetchAlternative` -/
def fetchAlt (l : List (Alt α)) (id : String) : R (Alt α) :=
  match l.find? (fun a => a.id == id) with
  | some a => pure a
  | none => throw s!"unknown-alternative:{id}"

/-- `UpdateAlternatives(old, new)`: the alternatives of `old`, taken from `new` by id -/
def updateAlts (old new : List (Alt α)) : R (List (Alt α)) :=
  old.mapM fun a => fetchAlt new a.id

/-- `CriteriaValuesRange`: declared range if present, else min/max over the alternatives
    (`(0,0)` for an empty list, as `utils.NewValueRange`) -/
def valuesRange (alts : List (Alt α)) (c : Crit α) : R (α × α) :=
  match c.range with
  | some r => pure r
  | none => do
    let vs ← alts.mapM (·.raw c)
    match vs with
    | [] => pure (Num.zero, Num.zero)
    | v :: rest =>
      pure (rest.foldl (fun (acc : α × α) x =>
        (if x < acc.1 then x else acc.1, if acc.2 < x then x else acc.2)) (v, v))

/-- `ValueRange.ScaleEqually` -/
def scaleEqually (r : α × α) (scale : α) : α × α :=
  let dif := (r.2 - r.1) / (Num.one + Num.one)
  (r.1 + dif - dif * scale, r.2 - dif + dif * scale)

/-- `criteria_bounding.CriteriaBounding` -/
structure Bounding (α : Type) where
  scaling : α       -- allowedValuesRangeScaling (default -1: off)
  nonNeg : Bool     -- disallowNegativeValues

/-- `WithRange` + `BoundValue` of `CriteriaInRangeBounding` -/
def Bounding.bound (b : Bounding α) (range : α × α) (x : α) : α :=
  let x := if b.nonNeg && decide (x < Num.zero) then Num.zero else x
  if Num.zero < b.scaling then
    let r := if b.scaling == Num.one then range else scaleEqually range b.scaling
    let x := if x < r.1 then r.1 else x
    if r.2 < x then r.2 else x
  else x

/-- first index of an element -/
def idxOf (l : List String) (s : String) : Nat := l.findIdx (· == s)

end Rdm
