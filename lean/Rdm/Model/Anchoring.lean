/-
  Model of lib/logic/biases/anchoring/*.go:
    anchoring.go                               (Apply, parseProps, checkAnchoringAlternatives,
                                                fetchAnchoringAlternativesWithCriteria, matchScalingWithBounding)
    ideal-reference-alternative-evaluator.go   (isBetter, canNewBeBetter, findBest, ideal / nadir)
    anchoring-scaling.go                       (evaluatePerCriterionNormalizationScaleRatio)
    anchoring-reference-points.go              (calculateDiffsPerReferencePoint, calculateReferencePointDiffs)
    linear-anchoring.go, exp-from-zero-anchoring.go
    inline-anchoring-applier.go                (ApplyAnchoring, arithmeticAverage)
    new-criterion-anchoring-applier.go         (ApplyAnchoring, newCriterion, addAnchoringCriteriaToAlternatives,
                                                normalizeCriteriaByTotalValue)
  `exp` (math.Exp) is external: a parameter of the model without assumed laws.
-/
import Rdm.Model.BiasesB
namespace Rdm
variable {α : Type} [Num α]

/-! ### props -/

/-- `FunctionDefinition`: function name and the flat part of its `params` -/
structure FunDef (α : Type) where
  fn : String
  params : Props α

/-- the decoded anchoring props.  `alts`: id and the `coefficient` key when present.
    `typed`: the `anchoringAlternatives` value is a Go `[]map[string]interface{}` (only possible for
    props built in Go; a JSON-decoded body gives `[]interface{}`) -/
structure AnchProps (α : Type) where
  alts : List (String × Option α)
  typed : Bool
  loss : FunDef α
  gain : FunDef α
  refFn : String
  applier : FunDef α

/-- `parseProps` + `checkAnchoringAlternatives`.  For a JSON-decoded list the type assertion to
    `[]map[string]interface{}` fails and the fallback loop assigns `p.Coefficient = 1` to a *copy*, so a
    missing coefficient stays 0; only for the typed form a missing coefficient becomes 1. -/
def anchoringAlternatives (p : AnchProps α) : R (List (String × α)) :=
  if p.alts.isEmpty then throw "no-anchoring-alternatives"
  else pure (p.alts.map fun (i, k) =>
    (i, match k with
        | some k => k
        | none => if p.typed then Num.one else Num.zero))

/-- gain / loss function with decoded parameters -/
inductive AFun (α : Type) where
  | linear (f : LinFun α)
  | expFromZero (alpha mult : α)

/-- `utils.LinearFunctionName` (not among the extracted facts) -/
def linearFunctionName : String := "linear"

/-- `getAnchoringEvaluatorFunction` -/
def parseAFun (d : FunDef α) : R (AFun α) :=
  if d.fn == linearFunctionName then
    pure (.linear ⟨d.params.num "a" Num.zero, d.params.num "b" Num.zero⟩)
  else if d.fn == Facts.fatigueExp then
    pure (.expFromZero (d.params.num "alpha" Num.zero) (d.params.num "multiplier" Num.zero))
  else throw s!"unknown-anchoring-function:{d.fn}"

/-- `AnchoringEvaluator.Evaluate` -/
def AFun.eval (exp : α → α) : AFun α → α → α
  | .linear f, x => (f.eval x).1
  | .expFromZero a m, x => m * exp (a * x) - m

/-! ### reference points -/

/-- `isBetter(criterion, a, b)` on (value, coefficient) pairs: "b is at least as good as a" -/
def isBetter (c : Crit α) (a b : α × α) : Bool :=
  if c.isGain then
    let av := a.1 * a.2
    let bv := b.1 * b.2
    if av == bv then decide (a.1 ≤ b.1) else decide (av < bv)
  else
    let av := a.1 * b.2
    let bv := b.1 * a.2
    if av == bv then decide (b.1 ≤ a.1) else decide (bv < av)

/-- `canNewBeBetter(a, b)` -/
def canNewBeBetter (a b : α × α) : Bool :=
  if b.2 == Num.zero && a.2 == Num.zero then true
  else if a.2 == Num.zero then true
  else if b.2 == Num.zero then false
  else true

def idealPred (c : Crit α) (a b : α × α) : Bool := canNewBeBetter a b && isBetter c a b
def nadirPred (c : Crit α) (a b : α × α) : Bool := canNewBeBetter a b && !isBetter c a b

/-- one alternative of `findBestCriteriaValues` -/
def findBestStep (pred : Crit α → α × α → α × α → Bool) (crits : List (Crit α))
    (best : KMap (α × α)) (a : Alt α × α) : R (KMap (α × α)) :=
  crits.foldlM (fun best c => do
    let v ← a.1.raw c
    match best.get? c.id with
    | none => throw s!"criterion-not-found:{c.id}"
    | some old => pure (if pred c old (v, a.2) then best.set c.id (v, a.2) else best)) best

/-- `findBest`: the first alternative initialises from its whole criteria map -/
def findBest (pred : Crit α → α × α → α × α → Bool) (name : String)
    (alts : List (Alt α × α)) (crits : List (Crit α)) : R (Alt α) :=
  match alts with
  | [] => throw "index-out-of-range"
  | (a0, k0) :: rest => do
    let best0 : KMap (α × α) := a0.vals.map fun p => (p.1, (p.2, k0))
    let best ← rest.foldlM (findBestStep pred crits) best0
    pure ⟨name, best.map fun p => (p.1, p.2.1)⟩

/-- `getReferencePointsFunction` + `Evaluate`: always a single reference point -/
def referencePoints (fn : String) (alts : List (Alt α × α)) (crits : List (Crit α)) : R (List (Alt α)) := do
  if fn == Facts.anchoringIdeal then pure [← findBest idealPred Facts.anchoringIdeal alts crits]
  else if fn == Facts.anchoringNadir then pure [← findBest nadirPred Facts.anchoringNadir alts crits]
  else throw s!"unknown-reference-points-function:{fn}"

/-- `fetchAnchoringAlternativesWithCriteria` -/
def fetchAnchoring (all : List (Alt α)) (l : List (String × α)) : R (List (Alt α × α)) :=
  l.mapM fun (i, k) => do pure (← fetchAlt all i, k)

/-! ### scaling and differences -/

/-- `ScaleWithValueRange` -/
abbrev Scale (α : Type) := α × (α × α)

/-- `evaluatePerCriterionNormalizationScaleRatio`: criterion ↦ (1/range or 0, range) -/
def anchScaling (crits : List (Crit α)) (all : List (Alt α)) : R (KMap (Scale α)) :=
  crits.foldlM (fun (m : KMap (Scale α)) c => do
    let r ← valuesRange all c
    pure (m.set c.id (getScaleRatio (Num.zero, Num.one) r, r))) []

/-- the mapped difference: gain of `d` when the alternative is better (`d > 0`), else minus the loss of `−d` -/
def mapDiff (ev : AFun α → α → α) (loss gain : AFun α) (d : α) : α :=
  if Num.zero < d then ev gain d else -(ev loss (-d))

/-- `calculateReferencePointDiffs`, with the evaluation of a gain/loss function as a parameter -/
def refPointDiffWith (ev : AFun α → α → α) (crits : List (Crit α)) (a r : Alt α) (sc : KMap (Scale α))
    (loss gain : AFun α) : R (String × KMap α) := do
  let m ← crits.foldlM (fun (m : KMap α) c => do
    let difference := (← a.signed c) - (← r.signed c)
    match sc.get? c.id with
    | none => throw s!"unknown-criterion:{c.id}"
    | some s =>
      pure (m.set c.id (mapDiff ev loss gain (difference * s.1)))) []
  pure (r.id, m)

/-- `ReferencePointsDifference`: the alternative and one coefficient map per reference point -/
abbrev AltDiffs (α : Type) := Alt α × List (String × KMap α)

/-- `calculateDiffsPerReferencePoint` -/
def calcDiffsWith (ev : AFun α → α → α) (all refs : List (Alt α)) (crits : List (Crit α))
    (sc : KMap (Scale α)) (loss gain : AFun α) : R (List (AltDiffs α)) :=
  all.mapM fun a => do
    pure (a, ← refs.mapM fun r => refPointDiffWith ev crits a r sc loss gain)

def refPointDiff (exp : α → α) := @refPointDiffWith α _ (AFun.eval exp)
def calcDiffs (exp : α → α) := @calcDiffsWith α _ (AFun.eval exp)

/-- magnitude of the intermediate results of `AFun.eval` (error scale for the `exp` tolerance) -/
def AFun.magnitude (exp : α → α) : AFun α → α → α
  | .linear f, x => Num.abs (f.a * x) + Num.abs f.b
  | .expFromZero a m, x => Num.abs (m * exp (a * x)) + Num.abs m

/-! ### inline applier -/

/-- `arithmeticAverage` -/
def arithmeticAverage (points : List (String × KMap α)) : R (KMap α) :=
  match points with
  | [] => throw "index-out-of-range"
  | p0 :: rest => do
    let sum ← rest.foldlM (fun (acc : KMap α) p =>
      p.2.foldlM (fun (acc : KMap α) (cv : String × α) => do
        pure (acc.set cv.1 ((← KMap.fetch acc cv.1) + cv.2))) acc) p0.2
    let n : α := Num.ofNat points.length
    pure (if Num.one < n then sum.map fun cv => (cv.1, cv.2 / n) else sum)

/-- new value of a criterion under the inline applier: `v + range·mean`, bounded -/
def inlineValue (b : Bounding α) (range : α × α) (value mean : α) : α :=
  b.bound range (value + (range.2 - range.1) * mean)

/-- one criterion of the inline applier: (new values, applied differences) updated for `cs` -/
def inlineStep (b : Bounding α) (avg old : KMap α) (st : KMap α × KMap α) (cs : String × Scale α) :
    R (KMap α × KMap α) := do
  let difference ← KMap.fetch avg cs.1
  let value ← KMap.fetch old cs.1
  let nv := inlineValue b cs.2.2 value difference
  pure (st.1.set cs.1 nv, st.2.set cs.1 (nv - value))

/-- the per-alternative loop body of `InlineAnchoringApplier.ApplyAnchoring`:
    (new criteria values, applied differences) -/
def inlineOne (b : Bounding α) (sc : KMap (Scale α)) (p : AltDiffs α) : R (Alt α × Alt α) := do
  let avg ← arithmeticAverage p.2
  let (nw, dif) ← sc.foldlM (inlineStep b avg p.1.vals) (avg, [])
  pure (⟨p.1.id, nw⟩, ⟨p.1.id, dif⟩)

/-- result of an applier -/
structure AddedAnch (α : Type) where
  id : String
  type : String
  range : α × α
  addition : Addition α
  values : KMap α

inductive ApplierResult (α : Type) where
  | inline (applied : List (Alt α))
  | newCriterion (ref : Crit α) (added : List (AddedAnch α))

/-- `InlineAnchoringApplier.ApplyAnchoring` -/
def inlineApply (d : DMP α) (diffs : List (AltDiffs α)) (b : Bounding α) (sc : KMap (Scale α))
    (params : Props α) : R (DMP α × ApplierResult α) := do
  let pairs ← diffs.mapM (inlineOne b sc)
  let newAlts := pairs.map (·.1)
  let applied := pairs.map (·.2)
  let co ← updateAlts d.co newAlts
  if params.bool "applyOnNotConsidered" false then
    let nc ← updateAlts d.nc newAlts
    pure (⟨nc, co, d.crit, d.mp⟩, .inline applied)
  else
    let rep ← updateAlts d.co applied
    pure (⟨d.nc, co, d.crit, d.mp⟩, .inline rep)

/-! ### newCriterion applier -/

/-- `normalizeCriteriaByTotalValue` on the ascending ranking -/
def normalizeWeights (minAllowed : α) (ranked : List (WCrit α)) : R (List (WCrit α)) :=
  match ranked with
  | [] => throw "index-out-of-range"
  | c0 :: _ =>
    let dif := if c0.w < minAllowed then minAllowed - c0.w else Num.zero
    let shifted := ranked.map fun c => ({ c with w := c.w + dif } : WCrit α)
    let total := shifted.foldl (fun t c => t + c.w) Num.zero
    pure (shifted.map fun c => ({ c with w := c.w / total } : WCrit α))

/-- value of an anchoring criterion: mid-range + half-range × weighted mapped difference, bounded -/
def ncValue (b : Bounding α) (range : α × α) (cv : α) : α :=
  let half := (range.2 - range.1) / (Num.one + Num.one)
  b.bound range (range.1 + half + half * cv)

/-- `__anchoring_criterion_` (not among the extracted facts) -/
def anchoringCriterionPrefix : String := "__anchoring_criterion_"

/-- Σ over the normalised ranking of mapped difference × weight -/
def weightedDiff (ranked : List (WCrit α)) (coefs : KMap α) : R α :=
  ranked.foldlM (fun t c => do pure (t + (← KMap.fetch coefs c.crit.id) * c.w)) Num.zero

/-- `additionalCriterionAnchoringState` -/
structure NCState (α : Type) where
  crits : List (Crit α)
  mp : MParams α
  added : List (AddedAnch α)

/-- `state.newCriterion(ri, r)`: creates the `ri`-th criterion when it does not exist yet.
    `gens[ri]` is the stream of `generator(randomSeed + ri)`. -/
def ncNewCriterion (ref : Crit α) (gens : List (Draws α)) (st : NCState α) (ri : Nat) (refPoint : String) :
    R (NCState α) :=
  if st.added.length == ri then
    match gens[ri]? with
    | none => throw "draws-exhausted"
    | some gen => do
      let c : Crit α := { id := notUsedName (st.crits.map (·.id)) (anchoringCriterionPrefix ++ refPoint),
                          type := ref.type, range := ref.range }
      let crits ← critsAdd st.crits c
      let add ← onAdded st.mp c ref gen
      let mp ← mergeParams st.mp add.1
      pure ⟨crits, mp, st.added ++ [⟨c.id, c.type, (Num.zero, Num.zero), add.1, []⟩]⟩
  else if ri < st.added.length then pure st
  else throw "index-out-of-range"

/-- the loop body of `addAnchoringCriteriaToAlternatives` for alternative number `i` -/
def ncOne (b : Bounding α) (range : α × α) (ref : Crit α) (gens : List (Draws α))
    (ranked : List (WCrit α)) (st : NCState α) (i : Nat) (p : AltDiffs α) : R (NCState α × Alt α) := do
  let mut st := st
  let mut alt := p.1
  let mut ri := 0
  for r in p.2 do
    st ← ncNewCriterion ref gens st ri r.1
    let ac ← match st.added[ri]? with
      | some a => pure a
      | none => throw "index-out-of-range"
    let cv ← weightedDiff ranked r.2
    let nv := ncValue b range cv
    alt ← alt.withCrit ac.id nv
    let rg := if i == 0 then (nv, nv)
      else (if nv ≤ ac.range.1 then nv else ac.range.1, if ac.range.2 ≤ nv then nv else ac.range.2)
    st := { st with added := st.added.set ri { ac with values := ac.values.set alt.id nv, range := rg } }
    ri := ri + 1
  pure (st, alt)

def ncLoop (b : Bounding α) (range : α × α) (ref : Crit α) (gens : List (Draws α))
    (ranked : List (WCrit α)) : NCState α → Nat → List (AltDiffs α) → R (NCState α × List (Alt α))
  | st, _, [] => pure (st, [])
  | st, i, p :: rest => do
    let (st, a) ← ncOne b range ref gens ranked st i p
    let (st, as') ← ncLoop b range ref gens ranked st (i + 1) rest
    pure (st, a :: as')

/-- `NewCriterionAnchoringApplier.ApplyAnchoring` -/
def newCriterionApply (eps : α) (d : DMP α) (diffs : List (AltDiffs α)) (b : Bounding α)
    (sc : KMap (Scale α)) (params : Props α) (refDraws : Draws α) (gens : List (Draws α)) :
    R (DMP α × ApplierResult α) := do
  let kind ← refForParams params
  let ranked ← rankAsc eps d
  let ref ← refProvide kind params ranked refDraws
  let normalized ← normalizeWeights (Num.ofConst Facts.minAllowedWeight) ranked
  match sc.get? ref.id with
  | none => throw s!"scaling-not-found:{ref.id}"
  | some s =>
    let (st, newAlts) ← ncLoop b s.2 ref gens normalized ⟨d.crit, d.mp, []⟩ 0 diffs
    let co ← updateAlts d.co newAlts
    let nc ← updateAlts d.nc newAlts
    pure (⟨nc, co, st.crits, st.mp⟩, .newCriterion ref st.added)

/-! ### Apply -/

/-- `AnchoringResult` -/
structure AnchReport (α : Type) where
  refPoints : List (Alt α)
  scaling : KMap (Scale α)
  diffs : List (AltDiffs α)
  applier : ApplierResult α

/-- the applier stage, dispatched on the applier's name (`getAnchoringApplier`) -/
def applierApply (eps : α) (d : DMP α) (diffs : List (AltDiffs α)) (b : Bounding α) (sc : KMap (Scale α))
    (applier : FunDef α) (refDraws : Draws α) (gens : List (Draws α)) : R (DMP α × ApplierResult α) :=
  if applier.fn == Facts.anchoringInline then inlineApply d diffs b sc applier.params
  else if applier.fn == Facts.anchoringNewCriterion then
    newCriterionApply eps d diffs b sc applier.params refDraws gens
  else throw s!"unknown-applier:{applier.fn}"

/-- everything of `Anchoring.Apply` before the applier: (reference points, scaling, differences, bounding) -/
def anchoringFront (exp : α → α) (cur : DMP α) (p : AnchProps α) :
    R (List (Alt α) × KMap (Scale α) × List (AltDiffs α) × Bounding α) := do
  let alts ← anchoringAlternatives p
  let loss ← parseAFun p.loss
  let gain ← parseAFun p.gain
  if !(p.applier.fn == Facts.anchoringInline || p.applier.fn == Facts.anchoringNewCriterion) then
    throw s!"unknown-applier:{p.applier.fn}"
  let all := cur.all
  let anch ← fetchAnchoring all alts
  let refs ← referencePoints p.refFn anch cur.crit
  let b ← boundingOfProps p.applier.params
  let sc ← anchScaling cur.crit all
  let diffs ← calcDiffs exp all refs cur.crit sc loss gain
  pure (refs, sc, diffs, b)

/-- `Anchoring.Apply` (`original` is ignored by the code).  `diffsOverride`: the mapped differences the
    implementation reported, used instead of the model's own when `exp` is involved (stage-wise tie). -/
def anchoringApply (exp : α → α) (eps : α) (cur : DMP α) (p : AnchProps α)
    (refDraws : Draws α) (gens : List (Draws α)) (diffsOverride : Option (List (AltDiffs α)) := none) :
    R (DMP α × AnchReport α) := do
  let (refs, sc, diffs, b) ← anchoringFront exp cur p
  let diffs := diffsOverride.getD diffs
  let (d, res) ← applierApply eps cur diffs b sc p.applier refDraws gens
  pure (d, ⟨refs, sc, diffs, res⟩)

end Rdm
