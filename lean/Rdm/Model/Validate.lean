/-
  Model of the request-level validation of DecisionMaker.MakeDecision:
    lib/model/criterion.go : Criteria.Validate (unique ids, min < max)
    lib/model/decision-maker.go : IsStringBlank check, validateAlternatives, FetchAlternatives
-/
import Rdm.Model.Types
namespace Rdm
variable {α : Type} [Num α]

/-- `Criteria.Validate`: scanning left to right, an id seen before or a range with max ≤ min panics -/
def validateCriteria : List (Crit α) → List String → R Unit
  | [], _ => pure ()
  | c :: rest, seen =>
    if seen.contains c.id then throw s!"criterion-not-unique:{c.id}"
    else match c.range with
      | some (lo, hi) => if hi ≤ lo then throw s!"invalid-range:{c.id}" else validateCriteria rest (c.id :: seen)
      | none => validateCriteria rest (c.id :: seen)

/-- `validateAlternatives`: every known alternative has a value for every criterion -/
def validateAlternatives (known : List (Alt α)) (crit : List (Crit α)) : R Unit :=
  known.forM fun a => crit.forM fun c => if a.vals.has c.id then pure () else throw s!"missing-value:{a.id}:{c.id}"

/-- blank = only white space (`strings.TrimSpace`); ASCII white space is what JSON requests carry -/
def isBlank (s : String) : Bool := s.toList.all fun c => c == ' ' || c == '\t' || c == '\n' || c == '\r'

/-- the checks `MakeDecision` performs before parsing method parameters, in the code's order:
    method name, criteria, alternatives; then every chosen alternative must be known -/
def validateRequest (method : String) (crit : List (Crit α)) (known : List (Alt α)) (chosen : List String) : R Unit := do
  if isBlank method then throw "empty-method"
  validateCriteria crit []
  validateAlternatives known crit
  chosen.forM fun id => do let _ ← fetchAlt known id; pure ()

end Rdm
