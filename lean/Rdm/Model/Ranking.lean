/-
  Model of lib/model/alternative.go: `rounded`, `AlternativeResults.Less`, `Ranking`,
  `positionInRanking` (the utility ranking used by weightedSum, owa and choquetIntegral).
-/
import Rdm.Basic
import Rdm.Generated.Facts
namespace Rdm
variable {α : Type} [Num α]

/-- an alternative id with its utility value -/
structure Scored (α : Type) where
  id : String
  v : α
  deriving Repr, BEq

/-- `math.Round(v*1e8)/1e8` — `rounded()` -/
def round8 (x : α) : α :=
  Num.round (x * Num.ofConst Facts.roundPrecision) / Num.ofConst Facts.roundPrecision

/-- `!Less(b, a)` for the comparator of `AlternativeResults`: value descending, id ascending.
    `List.mergeSort` with this relation yields the unique sorted order when ids are distinct. -/
def rankLe (a b : Scored α) : Bool :=
  if a.v == b.v then decide (a.id ≤ b.id) else decide (b.v < a.v)

/-- loop of `positionInRanking`: `found`/`next` are `wasLowerValueFound`/`nextLowerThanAltValue` -/
def positionLoop (a : Scored α) : List (Scored α) → Bool → α → List String
  | [], _, _ => []
  | r :: rest, found, next =>
    if r.v == a.v && r.id != a.id then r.id :: positionLoop a rest found next
    else if r.v < a.v then
      let next' := if found then next else r.v
      if r.v < next' then [] else r.id :: positionLoop a rest true next'
    else positionLoop a rest found next

def positionInRanking (a : Scored α) (all : List (Scored α)) : List String :=
  positionLoop a all false a.v

structure RankEntry (α : Type) where
  id : String
  v : α
  links : List String
  deriving Repr, BEq

/-- `AlternativeResults.Ranking()` -/
def ranking (l : List (Scored α)) : List (RankEntry α) :=
  let rounded := l.map fun s => { s with v := round8 s.v }
  let sorted := rounded.mergeSort rankLe
  sorted.map fun s => { id := s.id, v := s.v, links := positionInRanking s sorted }

end Rdm
