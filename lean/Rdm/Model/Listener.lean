/-
  Model of the seven bias listeners (OnCriterionAdded / Merge / OnCriteriaRemoved /
  RankCriteriaAscending) and their helpers:
    lib/model/bias-listener.go  (PrepareCumulatedWeightsMap, NewCriterionValue)
    lib/model/criterion.go      (SortByWeights, FindWeight, Add)
    lib/model/weights.go        (Fetch, PreserveOnly, Merge)
    lib/logic/**/…-bias-listener.go, satisfaction-levels/threshold-satisfaction-levels.go
  Go's dynamic types of `interface{}` parameters are constructors of `MParams` / `Addition`; a failed
  type assertion is an error, exactly as the Go panic.
-/
import Rdm.Model.Types
import Rdm.Model.Utility
namespace Rdm
variable {α : Type} [Num α]

/-! ### model.Weights helpers -/

/-- `Weights.Fetch` -/
def KMap.fetch (m : KMap α) (k : String) : R α :=
  match m.get? k with
  | some v => pure v
  | none => throw s!"missing-weight:{k}"

/-- `Weights.PreserveOnly` -/
def KMap.preserveOnly (m : KMap α) (crits : List (Crit α)) : R (KMap α) :=
  crits.mapM fun c => do pure (c.id, ← KMap.fetch m c.id)

/-- `Weights.Merge`: union, panics on a common key -/
def KMap.mergeDisjoint {β} (m other : KMap β) : R (KMap β) :=
  if other.any (fun p => m.has p.1) then throw "already-exists" else pure (m ++ other)

/-- `Criteria.Add` -/
def critsAdd (cs : List (Crit α)) (c : Crit α) : R (List (Crit α)) :=
  if cs.any (·.id == c.id) then throw "criterion-already-exists" else pure (cs ++ [c])

/-- `Criteria.SortByWeights`: zip every declared criterion with its weight (panic if missing), then
    stable ascending sort by weight -/
def sortByWeights (cs : List (Crit α)) (w : KMap α) : R (List (WCrit α)) := do
  let zipped ← cs.mapM fun c => do pure (⟨c, ← KMap.fetch w c.id⟩ : WCrit α)
  pure (sortWCrits zipped)

/-- `Criteria.ZipWithWeights` -/
def zipWithWeights (cs : List (Crit α)) (w : KMap α) : R (List (WCrit α)) :=
  cs.mapM fun c => do pure (⟨c, ← KMap.fetch w c.id⟩ : WCrit α)

/-- `PrepareCumulatedWeightsMap`: per criterion key, the sum over the considered alternatives (in
    order) of `mapper key value`; keys that only occur in alternatives are accumulated too. -/
def cumulated (cs : List (Crit α)) (co : List (Alt α)) (mapper : String → α → R α) : R (KMap α) := do
  let mut w : KMap α := cs.map fun c => (c.id, Num.zero)
  for a in co do
    for (k, v) in a.vals do
      let m ← mapper k v
      match w.get? k with
      | none => w := w.set k m
      | some old => w := w.set k (old + m)
  pure w

def findWCrit (wc : List (WCrit α)) (id : String) : R (WCrit α) :=
  match wc.find? (fun c => c.crit.id == id) with
  | some c => pure c
  | none => throw s!"criterion-not-in-weights:{id}"

/-! ### additions returned by OnCriterionAdded -/

inductive LvAdd (α : Type) where
  | none                                -- coefficient sources return nil
  | thresholds (ts : List (KMap α))     -- ThresholdsUpdate

inductive Addition (α : Type) where
  | ws (wc : List (WCrit α))            -- WeightedSumAddedCriterion
  | weightType (w : KMap α)             -- model.WeightType (owa, majority)
  | choquet (w : KMap α) (crit : List (Crit α))
  | electre (ec : KMap (ECrit α))
  | aspect (w : KMap α) (lv : LvAdd α)
  | satisf (lv : LvAdd α)

/-! ### satisfaction-levels update listeners -/

/-- the listener registry of `main.go`: which function names each heuristic knows -/
def aspectFns : List String := ["thresholds", "idealMultipliedCoefficient", "idealAdditiveCoefficient"]
def satisfFns : List String := ["thresholds", "idealMultipliedCoefficient", "idealSubtractiveCoefficient"]

/-- `ThresholdSatisfactionLevelsSource.OnCriterionAdded` (or `nil` for coefficient sources) -/
def levelsOnAdded (ascending : Bool) (lv : Levels α) (crit ref : Crit α) (d : Draws α) :
    R (LvAdd α × Draws α) :=
  match lv with
  | .coef _ _ _ => pure (.none, d)
  | .thresholds ts => do
    let mut d := d
    let mut vals : List α := []
    for t in ts do
      let base ← KMap.fetch t ref.id
      let (u, d') ← draw d
      d := d'
      vals := vals ++ [base * u]
    let sorted := if ascending then sortNums vals else (sortNums vals).reverse
    pure (.thresholds (sorted.map fun v => [(crit.id, v)]), d)

/-- `Merge` of the levels -/
def levelsMerge (lv : Levels α) (add : LvAdd α) : R (Levels α) :=
  match lv, add with
  | .coef c mx mn, _ => pure (.coef c mx mn)
  | .thresholds ts, .thresholds us =>
    if us.length < ts.length then throw "index-out-of-range"
    else do
      let merged ← (ts.zip us).mapM fun p => KMap.mergeDisjoint p.1 p.2
      pure (.thresholds merged)
  | .thresholds _, .none => throw "type-mismatch"

/-- `OnCriteriaRemoved` of the levels -/
def levelsOnRemoved (lv : Levels α) (left : List (Crit α)) : R (Levels α) :=
  match lv with
  | .coef c mx mn => pure (.coef c mx mn)
  | .thresholds ts => do pure (.thresholds (← ts.mapM fun t => KMap.preserveOnly t left))

/-! ### the four listener operations, dispatched on the method -/

/-- `OnCriterionAdded(criterion, referenceCriterion, params, generator)` -/
def onAdded (mp : MParams α) (crit ref : Crit α) (d : Draws α) : R (Addition α × Draws α) :=
  match mp with
  | .ws wc => do
    let r ← findWCrit wc ref.id
    let (u, d) ← draw d
    pure (.ws [⟨crit, u * r.w⟩], d)
  | .owa wc => do
    let r ← findWCrit wc ref.id
    let (u, d) ← draw d
    pure (.weightType [(crit.id, u * r.w)], d)
  | .choquet w cs => do
    let newCs ← critsAdd cs crit
    let mut d := d
    let mut nw : KMap α := []
    for k in powerSet (newCs.map (·.id)) do
      let key := criterionKey k
      match w.get? key with
      | some v => nw := nw.set key v
      | none =>
        let without := k.erase crit.id
        if without.isEmpty then
          let (u, d') ← draw d
          d := d'
          nw := nw.set crit.id u
        else
          nw := nw.set key (← unionWeight w without)
    pure (.choquet nw newCs, d)
  | .electre ec _ => do
    let z : LinFun α := ⟨Num.zero, Num.zero⟩
    let weakest := (ec.get? ref.id).getD ⟨Num.zero, z, z, z⟩   -- Go map lookup: zero value when absent
    let (u, d) ← draw d
    pure (.electre [(crit.id, { weakest with k := u * weakest.k })], d)
  | .majority w _ _ _ _ => do
    let (u, d) ← draw d
    pure (.weightType [(crit.id, u * (w.get? ref.id).getD Num.zero)], d)
  | .aspect fn lv _ w _ => do
    let (u, d) ← draw d
    let nv := u * (w.get? ref.id).getD Num.zero
    if !aspectFns.contains fn then throw "unknown-levels-listener"
    let (la, d) ← levelsOnAdded true lv crit ref d
    pure (.aspect [(crit.id, nv)] la, d)
  | .satisf fn lv _ _ _ => do
    if !satisfFns.contains fn then throw "unknown-levels-listener"
    let (la, d) ← levelsOnAdded false lv crit ref d
    pure (.satisf la, d)

/-- `Merge(params, addition)` -/
def mergeParams (mp : MParams α) (add : Addition α) : R (MParams α) :=
  match mp, add with
  | .ws wc, .ws added => pure (.ws (wc ++ added))
  | .owa wc, _ =>
    -- the code asserts `addition.(owaParams)`, but no OnCriterionAdded ever returns one
    let _ := wc; throw "type-mismatch:owa-merge"
  | .choquet w cs, .choquet w2 cs2 => do pure (.choquet (← KMap.mergeDisjoint w w2) (cs ++ cs2))
  | .electre ec dist, .electre ec2 => do pure (.electre (← KMap.mergeDisjoint ec ec2) dist)
  | .majority w cur seed rnd dr, .weightType w2 => do
    pure (.majority (← KMap.mergeDisjoint w w2) cur seed rnd dr)
  | .aspect fn lv seed w rnd, .aspect w2 la => do
    if !aspectFns.contains fn then throw "unknown-levels-listener"
    let lv' ← levelsMerge lv la
    pure (.aspect fn lv' seed (← KMap.mergeDisjoint w w2) rnd)
  | .satisf fn lv seed cur rnd, .satisf la => do
    if !satisfFns.contains fn then throw "unknown-levels-listener"
    pure (.satisf fn (← levelsMerge lv la) seed cur rnd)
  | _, _ => throw "type-mismatch:merge"

/-- `OnCriteriaRemoved(leftCriteria, params)` -/
def onRemoved (mp : MParams α) (left : List (Crit α)) : R (MParams α) :=
  match mp with
  | .ws wc => do pure (.ws (← left.mapM fun c => findWCrit wc c.id))
  | .owa wc => do pure (.owa (← left.mapM fun c => findWCrit wc c.id))
  | .choquet w _ => do
    let fw ← (powerSet (left.map (·.id))).mapM fun s => do
      let key := criterionKey s
      pure (key, ← KMap.fetch w key)
    pure (.choquet fw left)
  | .electre ec dist => do
    let r ← left.mapM fun c =>
      match ec.get? c.id with
      | some e => pure (c.id, e)
      | none => throw s!"electre-criterion-missing:{c.id}"
    pure (.electre r dist)
  | .majority w cur seed rnd dr => do pure (.majority (← KMap.preserveOnly w left) cur seed rnd dr)
  | .aspect fn lv seed w rnd => do
    if !aspectFns.contains fn then throw "unknown-levels-listener"
    let lv' ← levelsOnRemoved lv left
    pure (.aspect fn lv' seed (← KMap.preserveOnly w left) rnd)
  | .satisf fn lv seed cur rnd => do
    if !satisfFns.contains fn then throw "unknown-levels-listener"
    pure (.satisf fn (← levelsOnRemoved lv left) seed cur rnd)

/-- `decomposeWeights` of the Choquet listener -/
def choquetDecompose (eps : α) (cs : List (Crit α)) (co : List (Alt α)) (w : KMap α) : R (KMap α) := do
  let mut acc : KMap α := cs.map fun c => (c.id, Num.zero)
  for a in co do
    let comps ← choquetComponents eps w (ascendingVals a) Num.zero
    for (crits, added) in comps do
      for c in crits do
        match acc.get? c with
        | none => throw s!"criterion-not-found:{c}"
        | some old => acc := acc.set c (old + added)
  pure acc

/-- `RankCriteriaAscending(params)`: the method's importance of every current criterion, ascending -/
def rankAsc (eps : α) (d : DMP α) : R (List (WCrit α)) :=
  match d.mp with
  | .ws wc => do
    let w ← cumulated d.crit d.co fun k v => do pure ((← findWCrit wc k).w * v)
    sortByWeights d.crit w
  | .owa _ => do sortByWeights d.crit (← cumulated d.crit d.co fun _ v => pure v)
  | .choquet w _ => do sortByWeights d.crit (← choquetDecompose eps d.crit d.co w)
  | .electre ec _ => sortByWeights d.crit (ec.map fun p => (p.1, p.2.k))
  | .majority w _ _ _ _ => sortByWeights d.crit w
  | .aspect _ _ _ w _ => sortByWeights d.crit w
  | .satisf _ _ _ _ _ => do sortByWeights d.crit (← cumulated d.crit d.co fun _ v => pure v)

end Rdm
