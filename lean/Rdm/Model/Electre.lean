/-
  Model of lib/logic/preference-func/electreIII:
    electre_III.go   : calculateElectreResult, evaluatePair, calculateTotalC, calculateCredibility,
                       electreIIICredibility, evaluateCredibilityMatrix, ElectreIII
    matrix.go        : Matrix (At, Filter, FindBest, Max, MatchesInRow/Column, Slice, Without)
    distilation.go   : rank, distillate, updatePositions, getDistillateMatrix, computeQuality,
                       findBestMatch, writePositionsSequentially, RankAscending, RankDescending
    electre_III_parsing.go : validateParameters, requireBValueAtLeast, getDistillationFunc (guard)
  Generic in the number type; core Lean only.

  `slice` / `without` are modelled by their index-map meaning (`(slice M I)[i,j] = M[I i, I j]`);
  `sliceFlat` / `withoutFlat` mirror the Go flat-array arithmetic literally.  Both pairs are tied to the
  exported `Matrix.Slice` / `Matrix.Without` by an exhaustive correspondence stage (harness c05.go), and the
  literal models are proved equal to the index-map ones (`Props.C05.slice_flat_array_is_index_map`,
  `without_flat_array_is_index_map`).
-/
import Rdm.Model.Types
import Rdm.Model.Links
import Rdm.Generated.Facts
namespace Rdm
variable {α : Type} [Num α]

/-! ### per-criterion concordance / discordance -/

/-- `ElectreResult` -/
structure ERes (α : Type) where
  c : α
  d : α

/-- `calculateElectreResult(c1Val, c2Val, c, ths)`; `mult` is `Weight(c.Multiplier())`.
    The branch order is the one of the code. -/
def calcElectreResult (c1 c2 mult : α) (t : ECrit α) : ERes α :=
  if c2 ≤ c1 then ⟨Num.one, Num.zero⟩
  else
    let orig := c1 * mult
    let diff := c2 - c1
    let q := t.q.eval orig
    if q.2 && decide (diff ≤ q.1) then ⟨Num.one, Num.zero⟩
    else
      let p := t.p.eval orig
      if p.2 && decide (diff ≤ p.1) then ⟨Num.one - (diff - q.1) / (p.1 - q.1), Num.zero⟩
      else
        let v := t.v.eval orig
        if v.2 && decide (diff ≤ v.1) then ⟨Num.zero, (diff - p.1) / (v.1 - p.1)⟩
        else if v.2 && decide (v.1 < diff) then ⟨Num.zero, Num.one⟩
        else ⟨Num.zero, Num.zero⟩

/-- `electreIIISingleResult`: the criterion's weight `k` and the pair result -/
structure ESingle (α : Type) where
  k : α
  res : ERes α

/-- `evaluatePair` -/
def evaluatePair (a1 a2 : Alt α) (c : Crit α) (ec : KMap (ECrit α)) : R (ESingle α) := do
  let c1 ← a1.signed c
  let c2 ← a2.signed c
  match ec.get? c.id with
  | none => throw s!"electre-criterion-missing:{c.id}"
  | some t => pure ⟨t.k, calcElectreResult c1 c2 c.mult t⟩

/-- `weightSum` of `calculateTotalC` -/
def weightSum (rs : List (ESingle α)) : α := rs.foldl (fun acc r => acc + r.k) Num.zero
/-- `totalC` accumulator of `calculateTotalC` -/
def weightedC (rs : List (ESingle α)) : α := rs.foldl (fun acc r => acc + r.k * r.res.c) Num.zero

/-- `calculateTotalC` -/
def calculateTotalC (rs : List (ESingle α)) : α := weightedC rs / weightSum rs

/-- `calculateCredibility` -/
def calculateCredibility (C : α) (rs : List (ESingle α)) : α :=
  rs.foldl (fun cred r => if C < r.res.d then cred * ((Num.one - r.res.d) / (Num.one - C)) else cred) C

/-- `electreIIICredibility` (returns `(C, credibility)`) -/
def electreCredibility (a1 a2 : Alt α) (crits : List (Crit α)) (ec : KMap (ECrit α)) : R (ERes α) := do
  let rs ← crits.mapM fun c => evaluatePair a1 a2 c ec
  let c := calculateTotalC rs
  pure ⟨c, calculateCredibility c rs⟩

/-! ### Matrix -/

/-- `Matrix`: `Size` and row-major `Data` -/
structure Matrix (α : Type) where
  size : Nat
  data : List α

namespace Matrix

/-- `At(row, col)` (Go panics out of range; the model returns 0 there) -/
def «at» (m : Matrix α) (r c : Nat) : α := m.data.getD (r * m.size + c) Num.zero

/-- `Filter` -/
def filter (m : Matrix α) (f : Nat → Nat → α → Bool) : Matrix α :=
  ⟨m.size, m.data.mapIdx fun i v => if f (i / m.size) (i % m.size) v then v else Num.zero⟩

/-- the loop of `FindBest` -/
def bestFold (isBetter : α → α → Bool) (init : α) (l : List α) : α :=
  l.foldl (fun best v => if isBetter best v then v else best) init

/-- `FindBest` -/
def findBest (m : Matrix α) (isBetter : α → α → Bool) : R α :=
  if m.size == 0 then throw "matrix is empty"
  else match m.data with
    | [] => throw "index out of range"
    | d0 :: _ => pure (bestFold isBetter d0 m.data)

/-- `Max` -/
def max (m : Matrix α) : R α := m.findBest fun old new => decide (old < new)

/-- `Matches` with the row (`byRow = true`) or the column as group -/
def matchCount (m : Matrix α) (byRow : Bool) (pred : α → Bool) (g : Nat) : Nat :=
  (m.data.zipIdx.filter fun (v, i) => (if byRow then i / m.size else i % m.size) == g && pred v).length

/-- `MatchesInRow` -/
def matchesInRow (m : Matrix α) (pred : α → Bool) : List Nat :=
  (List.range m.size).map (m.matchCount true pred)
/-- `MatchesInColumn` -/
def matchesInColumn (m : Matrix α) (pred : α → Bool) : List Nat :=
  (List.range m.size).map (m.matchCount false pred)

/-- ascending sort of an index list (`sort.Ints`) -/
def sortIdx (l : List Nat) : List Nat := l.mergeSort (fun a b => decide (a ≤ b))

/-- the square sub-matrix on the (ordered) index list `I` -/
def sub (m : Matrix α) (I : List Nat) : Matrix α :=
  ⟨I.length, I.flatMap fun r => I.map fun c => m.at r c⟩

/-- `Slice(indices)`: sub-matrix on the sorted indices (index-map reading) -/
def slice (m : Matrix α) (idx : List Nat) : Matrix α :=
  if idx.length == m.size then m else m.sub (sortIdx idx)

/-- the indices that stay after `Without(indices)` -/
def keep (m : Matrix α) (idx : List Nat) : List Nat :=
  (List.range m.size).filter fun i => !idx.contains i

/-- `Without(indices)`: sub-matrix on the complement (index-map reading) -/
def without (m : Matrix α) (idx : List Nat) : Matrix α :=
  if idx.length == m.size then m else m.sub (m.keep idx)

/-- second loop of `Slice`/`Without`: keep the entries whose column (`i % Size`) passes, written
    sequentially into a zeroed `n*n` array (Go panics when more than `n*n` are written) -/
def keepColumns (size n : Nat) (data : List α) (colOk : Nat → Bool) : List α :=
  let kept := (data.zipIdx.filter fun (_, i) => colOk (i % size)).map (·.1)
  (kept ++ List.replicate (n * n - kept.length) Num.zero).take (n * n)

/-- `Slice`, literally -/
def sliceFlat (m : Matrix α) (idx : List Nat) : Matrix α :=
  if idx.length == m.size then m
  else
    let s := sortIdx idx
    let rows := s.flatMap fun v => (m.data.drop (v * m.size)).take m.size
    ⟨idx.length, keepColumns m.size idx.length rows fun c => s.contains c⟩

/-- `Without`, literally -/
def withoutFlat (m : Matrix α) (idx : List Nat) : Matrix α :=
  if idx.length == m.size then m
  else
    let sorted := (sortIdx idx).reverse
    let data := sorted.foldl (fun d v => d.take (v * m.size) ++ d.drop ((v + 1) * m.size)) m.data
    let n := m.size - idx.length
    ⟨n, keepColumns m.size n data fun c => !sorted.contains c⟩

end Matrix

/-! ### credibility matrix -/

/-- `evaluateAlternativesPair`: the diagonal is 1 without evaluating anything -/
def evaluateAlternativesPair (i j : Nat) (a1 a2 : Alt α) (crits : List (Crit α)) (ec : KMap (ECrit α)) : R α :=
  if i == j then pure Num.one
  else do pure (← electreCredibility a1 a2 crits ec).d

/-- `evaluateCredibilityMatrix` -/
def credibilityMatrix (alts : List (Alt α)) (crits : List (Crit α)) (ec : KMap (ECrit α)) : R (Matrix α) := do
  let rows ← alts.zipIdx.mapM fun (a1, i) =>
    alts.zipIdx.mapM fun (a2, j) => evaluateAlternativesPair i j a1 a2 crits ec
  pure ⟨alts.length, rows.flatten⟩

/-! ### distillation -/

/-- `removeDiagonal` -/
def removeDiagonal (m : Matrix α) : Matrix α := m.filter fun r c _ => r != c

/-- value of the distillation function (`Evaluate` yields 0 when a = b = 0) -/
def distVal (s : LinFun α) (x : α) : α := (s.eval x).1

/-- `getDistillateMatrix`: the next cut level and the outranking entries at that level -/
def getDistillateMatrix (s : LinFun α) (maxCred : α) (m : Matrix α) : R (α × Matrix α) := do
  let thr := maxCred - distVal s maxCred
  let minCred ← m.findBest fun old new => decide (new < thr) && decide (old < new)
  let vals := m.filter fun row col v =>
    if v ≤ minCred then false
    else decide (m.at col row + distVal s v < v)
  pure (minCred, vals)

/-- `utils.IsPositive` -/
def isPositive (v : α) : Bool := decide (Num.zero < v)

/-- `computeQuality` / `calcQuality`: strength − weakness -/
def computeQuality (m : Matrix α) : List Int :=
  List.zipWith (fun (s w : Nat) => (s : Int) - (w : Int)) (m.matchesInRow isPositive) (m.matchesInColumn isPositive)

/-- `greater` -/
def cmpGreater (old new : Int) : Bool := decide (old < new)
/-- `lower` -/
def cmpLower (old new : Int) : Bool := decide (new < old)

/-- loop of `findBestMatch` -/
def bestMatchStep (isBetter : Int → Int → Bool) (acc : Int × List Nat) (vi : Int × Nat) : Int × List Nat :=
  if isBetter acc.1 vi.1 then (vi.1, [vi.2])
  else if vi.1 == acc.1 then (acc.1, acc.2 ++ [vi.2])
  else acc

/-- `findBestMatch` -/
def findBestMatch (values : List Int) (isBetter : Int → Int → Bool) : R (Int × List Nat) :=
  match values with
  | [] => throw "index out of range"
  | v0 :: _ => pure (values.zipIdx.foldl (bestMatchStep isBetter) (v0, []))

/-- `samePositions` -/
def samePositions (size : Nat) (value : Int) : List Int := List.replicate size value

/-- `updateValues` -/
def updateValues (indices : List Nat) (original new : List Int) : List Int :=
  (indices.zip new).foldl (fun acc p => acc.set p.1 p.2) original

/-- `updatedPositions` -/
def updatedPositions (indices : List Nat) (positions : List Int) : List Nat :=
  indices.filter fun p => positions.getD p 0 != 0

/-- `writePositionsSequentially` -/
def writePositionsSequentially : List Int → List Int → R (List Int)
  | _, [] => pure []
  | toWrite, p :: rest =>
    if p == 0 then
      match toWrite with
      | [] => throw "position out of scope"
      | w :: ws => do pure (w :: (← writePositionsSequentially ws rest))
    else do pure (p :: (← writePositionsSequentially toWrite rest))

/-- `updatePositions`: the positions written at this level (0 = not classed here).  `recur` is the
    recursive call of `distillate` (one unit of fuel less). -/
def levelPositions (recur : α → Int → Matrix α → Bool → R (List Int))
    (m : Matrix α) (best : List Nat) (minCred : α) (position : Int) : R (List Int) :=
  let zeros := samePositions m.size 0
  if decide (best.length > 1) && decide (Num.zero < minCred) then do
    let sub ← recur minCred position (m.slice best) true
    pure (updateValues best zeros sub)
  else if best.length > 0 then pure (updateValues best zeros (samePositions best.length position))
  else pure zeros

/-- the tail of `distillate` after `updatePositions`: stop (everything classed, or inner call) or
    distillate the remaining alternatives and write their positions into the free slots -/
def finishLevel (recur : α → Int → Matrix α → Bool → R (List Int))
    (m : Matrix α) (best : List Nat) (position : Int) (isInner : Bool) (positions : List Int) : R (List Int) :=
  let left := updatedPositions best positions
  if left.length == m.size || isInner then pure positions
  else do
    let next := m.without left
    let further ← recur (← next.max) (position + 1) next false
    writePositionsSequentially further positions

/-- `distillate`, with fuel: every nested call costs one unit -/
def distillate (isBetter : Int → Int → Bool) (s : LinFun α) :
    Nat → α → Int → Matrix α → Bool → R (List Int)
  | 0, _, _, _, _ => throw "fuel-exhausted"
  | fuel + 1, maxCred, position, m, isInner =>
    if maxCred == Num.zero then pure (samePositions m.size position)
    else do
      let dm ← getDistillateMatrix s maxCred m
      let bm ← findBestMatch (computeQuality dm.2) isBetter
      let positions ← levelPositions (distillate isBetter s fuel) m bm.2 dm.1 position
      finishLevel (distillate isBetter s fuel) m bm.2 position isInner positions

/-- fuel that suffices when the distillation function is non-negative on the matrix entries:
    at most `n` outer levels plus a strictly decreasing chain of cut levels among the `n²` entries -/
def rankFuel (n : Nat) : Nat := n * n + n + 2

/-- `rank` -/
def rank (m : Matrix α) (s : LinFun α) (isBetter : Int → Int → Bool) : R (List Int) := do
  let wd := removeDiagonal m
  let maxCred ← wd.max
  distillate isBetter s (rankFuel m.size) maxCred 1 wd false

/-- `RankAscending` -/
def rankAscending (m : Matrix α) (s : LinFun α) : R (List Int) := rank m s cmpGreater

/-- `Max` of an int slice -/
def maxInt : List Int → R Int
  | [] => throw "slice is empty"
  | v :: rest => pure ((v :: rest).foldl (fun b x => if b < x then x else b) v)

/-- `RankDescending`: distillation picking the lowest qualification, class numbers reversed -/
def rankDescending (m : Matrix α) (s : LinFun α) : R (List Int) := do
  let ranking ← rank m s cmpLower
  let mx ← maxInt ranking
  pure (ranking.map fun v => mx + 1 - v)

/-- `DefaultDistillationFunc` -/
def defaultDistillation : LinFun α :=
  ⟨Num.ofConst Facts.defaultDistillationA, Num.ofConst Facts.defaultDistillationB⟩

/-- `ElectreIII` -/
def electreIII (alts : List (Alt α)) (crits : List (Crit α)) (ec : KMap (ECrit α)) (dist : LinFun α) :
    R (List (Linked (Int × Int))) := do
  let m ← credibilityMatrix alts crits ec
  let asc ← rankAscending m dist
  let desc ← rankDescending m dist
  pure (evaluateRanking asc desc (alts.map (·.id)))

/-! ### parameter validation (electre_III_parsing.go) -/

/-- `requireBValueAtLeast`: error or the new lower bound -/
def requireBValueAtLeast (f : LinFun α) (current : α) : R α :=
  if f.a == Num.zero && !(f.b == Num.zero) && decide (f.b ≤ current) then throw "threshold-not-increasing"
  else if Num.zero < f.b then pure f.b else pure current

/-- `validateParameters` -/
def validateParameters (t : ECrit α) : R Unit := do
  if t.k ≤ Num.zero then throw "weight-not-positive"
  let l ← requireBValueAtLeast t.q Num.zero
  let l ← requireBValueAtLeast t.p l
  let _ ← requireBValueAtLeast t.v l
  pure ()

/-- the guard of `getDistillationFunc` on a custom distillation function -/
def validDistillation (f : LinFun α) : Bool := !(decide (f.b < Num.zero) || decide (f.a + f.b < Num.zero))

end Rdm
