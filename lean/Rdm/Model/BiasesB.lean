/-
  Model of
    lib/logic/biases/criteria-concealment/{criteria-concealment,criterion-addition}.go
    lib/logic/biases/criteria-mixing/criteria-mixing.go
    lib/model/normalization.go        (ValuesRangeWithGroundZero, RescaleCriterion, GetScaleRatio)
    lib/model/criterion.go            (NotUsedName)
    lib/model/criteria-bounding       (FromParams)
  The model mirrors what the code reads from `original` and what from `current` (see the comments at
  `conceal` and `mixing`); these are the C07/C18 defects when the bias follows another bias.
-/
import Rdm.Model.RefCriterion
namespace Rdm
variable {α : Type} [Num α]

/-! ### helpers of lib/model -/

/-- `firstFreeName(name, count)`: the base name for count 0, else base ++ count -/
def firstFreeName (name : String) (count : Nat) : String :=
  if count == 0 then name else name ++ toString count

/-- the loop of `Criteria.NotUsedName`: `for c.hasId(candidate) { count++; candidate = firstFreeName(name, count) }`.
    `fuel` bounds the number of candidates that are tested; when it runs out the next (untested) candidate is
    returned — unreachable for `fuel > ids.length` (Lemmas/BiasBNames.lean, `notUsedName_fresh`). -/
def notUsedNameLoop (ids : List String) (name : String) : Nat → Nat → String
  | 0, count => firstFreeName name count
  | fuel + 1, count =>
    if ids.contains (firstFreeName name count) then notUsedNameLoop ids name fuel (count + 1)
    else firstFreeName name count

/-- `Criteria.NotUsedName`: start at the number of ids having the name as a prefix and keep counting until
    the candidate (`base`, `base1`, `base2`, …) is the id of no criterion.  The Go loop is unbounded; it
    terminates within `ids.length + 1` tests because the candidates are pairwise different. -/
def notUsedName (ids : List String) (name : String) : String :=
  notUsedNameLoop ids name (ids.length + 1) (ids.filter fun i => i.startsWith name).length

/-- `ValuesRangeWithGroundZero` -/
def groundZeroRange (alts : List (Alt α)) (c : Crit α) : R (α × α) := do
  let r ← valuesRange alts c
  pure (Num.zero, Num.max (Num.max (Num.abs r.1) (Num.abs r.2)) (r.2 - r.1))

/-- `GetScaleRatio(target, current)` -/
def getScaleRatio (target cur : α × α) : α :=
  let td := target.2 - target.1
  let cd := cur.2 - cur.1
  if !(cd == Num.zero) then td / cd else Num.zero

/-- `scaleCriterion` on a raw value -/
def scaleValue (c : Crit α) (cur : α × α) (scale : α) (target : α × α) (v : α) : α :=
  if c.isCost then (cur.2 - v) * scale + target.1 else (v - cur.1) * scale + target.1

/-- `RescaleCriterion`: alternative id ↦ rescaled value -/
def rescaleCriterion (c : Crit α) (alts : List (Alt α)) (target : α × α) : R (KMap α) := do
  let cur ← valuesRange alts c
  let scale := getScaleRatio target cur
  alts.foldlM (fun (m : KMap α) a => do pure (m.set a.id (scaleValue c cur scale target (← a.raw c)))) []

/-- `criteria_bounding.FromParams` -/
def boundingOfProps (p : Props α) : R (Bounding α) :=
  let s := p.num "allowedValuesRangeScaling" (Num.ofConst Facts.defaultBoundingScaling)
  if s == Num.zero then throw "allowedValuesRangeScaling-zero"
  else pure ⟨s, p.bool "disallowNegativeValues" false⟩

/-- `SortAlternativesByName` (ids are distinct, so the unstable `sort.Slice` is determined) -/
def sortAltsById (l : List (Alt α)) : List (Alt α) := l.mergeSort fun a b => decide (a.id ≤ b.id)

/-- `AlternativeWithCriteria.WithCriterion` -/
def Alt.withCrit (a : Alt α) (k : String) (v : α) : R (Alt α) :=
  if a.vals.has k then throw s!"criterion-already-in-alternative:{k}" else pure { a with vals := a.vals ++ [(k, v)] }

/-! ### criteria concealment -/

/-- one element of `CriteriaConcealmentResult.AddedCriteria` -/
structure ConcealReport (α : Type) where
  id : String
  type : String
  range : α × α
  values : KMap α
  addition : Addition α

/-- value of the concealed criterion for one alternative: `generator()·(max − min) + min`, bounded -/
def concealValue (b : Bounding α) (range : α × α) (u : α) : α :=
  b.bound range (u * (range.2 - range.1) + range.1)

/-- `assignNewCriterionToAlternatives`: one draw per alternative, in the given (sorted) order -/
def assignConcealed (b : Bounding α) (range : α × α) (cid : String) :
    List (Alt α) → Draws α → R (List (Alt α) × KMap α × Draws α)
  | [], d => pure ([], [], d)
  | a :: rest, d => do
    let (u, d) ← draw d
    let v := concealValue b range u
    let a' ← a.withCrit cid v
    let (as', vals, d) ← assignConcealed b range cid rest d
    pure (a' :: as', (a.id, v) :: vals, d)

/-- the concealed criterion: reference criterion ranked on `original`, range from `original`'s
    alternatives, name from `current`'s criteria -/
def concealBase (eps : α) (orig cur : DMP α) (p : Props α) (scaling : α) (refDraws : Draws α) :
    R (Crit α × Crit α) := do
  let ranked ← rankAsc eps orig
  let ref ← refCriterion p ranked refDraws
  let r ← valuesRange orig.all ref
  let newC : Crit α :=
    { id := notUsedName (cur.crit.map (·.id)) Facts.concealedBaseName, type := Facts.critGain,
      range := some (scaleEqually r scaling) }
  pure (ref, newC)

/-- `CriteriaConcealment.Apply`.  `gen` is the stream of `generator(randomSeed)`: first one value per
    known alternative of `current` (sorted by id), then the listener's draws.
    `OnCriterionAdded` gets `original`'s method parameters, `Merge` `current`'s. -/
def conceal (eps : α) (orig cur : DMP α) (p : Props α) (refDraws gen : Draws α) :
    R (DMP α × ConcealReport α) := do
  let scaling := p.num "newCriterionScaling" (Num.ofConst Facts.defaultConcealmentScaling)
  if scaling == Num.zero then throw "newCriterionScaling-zero"
  let b ← boundingOfProps p
  let (ref, newC) ← concealBase eps orig cur p scaling refDraws
  let range := newC.range.getD (Num.zero, Num.zero)
  let (alts, values, gen) ← assignConcealed b range newC.id (sortAltsById cur.all) gen
  let nc ← updateAlts cur.nc alts
  let co ← updateAlts cur.co alts
  let (add, _) ← onAdded orig.mp newC ref gen
  let mp ← mergeParams cur.mp add
  let crits ← critsAdd cur.crit newC
  pure (⟨nc, co, crits, mp⟩, ⟨newC.id, newC.type, range, values, add⟩)

/-! ### criteria mixing -/

structure MixComponent (α : Type) where
  id : String
  type : String
  values : KMap α

/-- `MixedCriterion` -/
structure MixReport (α : Type) where
  c1 : MixComponent α
  c2 : MixComponent α
  new : MixComponent α
  addition : Addition α

/-- the two indices of `selectCriteriaToMix` for `n` criteria and two draws -/
def mixIndices (n : Nat) (u1 u2 : α) : Int × Int :=
  let i1 := truncInt (u1 * Num.ofNat n)
  let offset := truncInt (u2 * Num.ofInt ((n : Int) - 2)) + 1
  (i1, (i1 + offset) % (n : Int))

def critAt (cs : List (Crit α)) (i : Int) : R (Crit α) :=
  if i < 0 then throw "index-out-of-range"
  else match cs[i.toNat]? with
    | some c => pure c
    | none => throw "index-out-of-range"

/-- the mixed value ρ·c1 + (1−ρ)·c2 -/
def mixValue (ρ x y : α) : α := x * ρ + y * (Num.one - ρ)

/-- `mix`: per alternative of the first map, ρ·c1 + (1−ρ)·c2 -/
def mixValues (ρ : α) (v1 v2 : KMap α) : R (KMap α) :=
  v1.mapM fun (a, x) => do
    match v2.get? a with
    | some y => pure (a, mixValue ρ x y)
    | none => throw s!"mix-missing:{a}"

/-- `CriteriaMixing.Apply` after the guards: `u1`, `u2` are the two draws of `selectCriteriaToMix`,
    `gen` the rest of the stream (for the listener).  Selection of the two criteria, the reference
    criterion, the target range and the alternatives that receive the new value all come from `original`;
    only the considered/not-considered split, the criteria list and the method parameters from `current`. -/
def mixingCore (eps : α) (orig cur : DMP α) (p : Props α) (ρ : α) (refDraws : Draws α) (u1 u2 : α)
    (gen : Draws α) : R (DMP α × Option (MixReport α)) := do
  let idx := mixIndices orig.crit.length u1 u2
  let c1 ← critAt orig.crit idx.1
  let c2 ← critAt orig.crit idx.2
  let all := orig.all
  let kind ← refForParams p
  let ranked ← rankAsc eps orig
  let ref ← refProvide kind p ranked refDraws
  let target ← groundZeroRange all ref
  let v1 ← rescaleCriterion c1 all target
  let v2 ← rescaleCriterion c2 all target
  let res ← mixValues ρ v1 v2
  let newC : Crit α := { id := "__" ++ c1.id ++ "+" ++ c2.id ++ "__", type := Facts.critGain, range := some target }
  let add ← onAdded cur.mp newC ref gen
  let mp ← mergeParams cur.mp add.1
  let newAlts ← all.mapM fun a =>
    a.withCrit newC.id ((res.get? a.id).getD Num.zero)       -- Go map lookup: zero value when absent
  let nc ← updateAlts cur.nc newAlts
  let co ← updateAlts cur.co newAlts
  let crits ← critsAdd cur.crit newC
  pure (⟨nc, co, crits, mp⟩,
    some ⟨⟨c1.id, c1.type, v1⟩, ⟨c2.id, c2.type, v2⟩, ⟨newC.id, newC.type, res⟩, add.1⟩)

/-- `CriteriaMixing.Apply`: a no-op below two current criteria; `mixingRatio` must be a probability;
    the first two numbers of `generator(randomSeed)` select the criteria -/
def mixing (eps : α) (orig cur : DMP α) (p : Props α) (refDraws gen : Draws α) :
    R (DMP α × Option (MixReport α)) :=
  if cur.crit.length < 2 then pure (cur, none)
  else
    let ρ := p.num "mixingRatio" (Num.ofConst Facts.defaultMixingRatio)
    if !(decide (Num.zero ≤ ρ) && decide (ρ ≤ Num.one)) then throw "mixingRatio-out-of-range"
    else do
      let d1 ← draw gen
      let d2 ← draw d1.2
      if orig.crit.length == 0 then throw "index-out-of-range"
      else mixingCore eps orig cur p ρ refDraws d1.1 d2.1 d2.2

end Rdm
