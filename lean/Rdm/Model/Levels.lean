/-
  Model of lib/logic/limited-rationality/satisfaction-levels:
    satisfaction-levels.go                      (Find)
    ideal-coefficient-satisfaction-levels.go    (Initialize / HasNext / Next)
    increasing-coefficient.go, decreasing-coefficient.go  (the four coefficient managers)
    threshold-satisfaction-levels.go            (explicit thresholds: Initialize / HasNext / Next)
  The lazy `HasNext/Next` protocol becomes a function producing the whole list of levels.  The
  coefficient series takes a fuel argument; `coefFuel` is proved sufficient in Props/C14.
-/
import Rdm.Model.Types
import Rdm.Generated.Facts
namespace Rdm
variable {α : Type} [Num α]

/-- the four `CoefficientManager`s wired in increasing-coefficient.go / decreasing-coefficient.go -/
inductive CoefKind where
  | incMul   -- IdealIncreasingMulCoefficientSatisfaction
  | incAdd   -- IdealAdditiveCoefficientSatisfaction
  | decMul   -- IdealDecreasingMulCoefficientSatisfaction
  | decSub   -- IdealSubtrCoefficientSatisfaction
  deriving DecidableEq, Repr

/-- `IncreasingCoefficientManager` (true) or `DecreasingCoefficientManager` (false) -/
def CoefKind.inc : CoefKind → Bool
  | .incMul | .incAdd => true
  | .decMul | .decSub => false

/-- `Validate`: coefficient in (0,1); min/max in [0,1] (increasing) resp. (0,1] (decreasing) -/
def coefValid (k : CoefKind) (c mx mn : α) : Bool :=
  if c ≤ Num.zero || Num.one ≤ c then false
  else if k.inc then
    !(mn < Num.zero || Num.one < mn) && !(mx < Num.zero || Num.one < mx)
  else
    !(mn ≤ Num.zero || Num.one < mn) && !(Num.one < mx || mx ≤ Num.zero)

def coefValidate (k : CoefKind) (c mx mn : α) : R Unit :=
  if coefValid k c mx mn then pure () else throw "levels-parameter-out-of-range"

/-- `InitialValue` -/
def coefInitial (k : CoefKind) (mx mn : α) : α := if k.inc then mn else mx

/-- `HasNext`: `current < MaxValue` (increasing) / `current > MinValue` (decreasing) -/
def coefHasNext (k : CoefKind) (mx mn cur : α) : Bool :=
  if k.inc then decide (cur < mx) else decide (mn < cur)

/-- `UpdateValue` — the four update rules -/
def coefUpdate (k : CoefKind) (c cur : α) : α :=
  match k with
  | .incMul => Num.min ((Num.one + cur) * (Num.one + c) - Num.one) Num.one
  | .incAdd => Num.min (cur + c) Num.one
  | .decMul => cur * c
  | .decSub => Num.max (cur - c) Num.zero

/-- the ratios `r₀, r₁, …` handed out by successive `Next()` calls while `HasNext()` holds -/
def coefSeries (k : CoefKind) (c mx mn : α) : Nat → α → R (List α)
  | 0, cur => if coefHasNext k mx mn cur then throw "levels-fuel-exhausted" else pure []
  | n + 1, cur =>
    if coefHasNext k mx mn cur then do
      let rest ← coefSeries k c mx mn n (coefUpdate k c cur)
      pure (cur :: rest)
    else pure []

/-- enough fuel for every validated parameter set (Props/C14: `coefSeries_fuel_suffices`):
    `⌊1/c⌋ + 2` for the additive / subtractive / multiplied-increasing rules (each step moves by at
    least `c`), `⌊max / (min·(1−c))⌋ + 2` for the multiplied-decreasing rule (Bernoulli) -/
def coefFuel (k : CoefKind) (c mx mn : α) : Nat :=
  match k with
  | .decMul => (Num.floorInt (mx / (mn * (Num.one - c)))).toNat + 2
  | _ => (Num.floorInt (Num.one / c)).toNat + 2

/-- `Next()` for one criterion: `min + range·r` (gain) / `max − range·r` (cost) -/
def thresholdFor (c : Crit α) (range : α × α) (r : α) : α :=
  let delta := (range.2 - range.1) * r
  if c.isCost then range.2 - delta else range.1 + delta

/-- the level handed out for ratio `r` -/
def levelAt (ranges : List (Crit α × (α × α))) (r : α) : KMap α :=
  ranges.map fun p => (p.1.id, thresholdFor p.1 p.2 r)

/-- `Initialize`: ranges of every criterion over ALL alternatives of the state (declared range wins) -/
def criteriaRanges (d : DMP α) : R (List (Crit α × (α × α))) :=
  d.crit.mapM fun cr => do pure (cr, ← valuesRange d.all cr)

/-- `IdealCoefficientSatisfactionLevels`: Initialize, then HasNext/Next until exhausted -/
def coefLevels (k : CoefKind) (d : DMP α) (c mx mn : α) : R (List (KMap α)) := do
  coefValidate k c mx mn
  let ranges ← criteriaRanges d
  let rs ← coefSeries k c mx mn (coefFuel k c mx mn) (coefInitial k mx mn)
  pure (rs.map (levelAt ranges))

/-- `ThresholdSatisfactionLevels`: Initialize checks that every level has every criterion; the
    levels are then handed out in order -/
def explicitLevels (d : DMP α) (ts : List (KMap α)) : R (List (KMap α)) :=
  if ts.all (fun t => d.crit.all (fun c => t.has c.id)) then pure ts
  else throw "threshold-missing-criterion"

/-- a registered `SatisfactionLevelsSource` -/
inductive LevelSource where
  | coef (k : CoefKind)
  | thresholds (ascending : Bool)
  deriving DecidableEq, Repr

/-- the exported source variables of the package, by the name main.go refers to them -/
def sourceOfVar : String → Option LevelSource
  | "IdealIncreasingMulCoefficientSatisfaction" => some (.coef .incMul)
  | "IdealAdditiveCoefficientSatisfaction" => some (.coef .incAdd)
  | "IdealDecreasingMulCoefficientSatisfaction" => some (.coef .decMul)
  | "IdealSubtrCoefficientSatisfaction" => some (.coef .decSub)
  | "IncreasingThresholds" => some (.thresholds true)
  | "DecreasingThresholds" => some (.thresholds false)
  | _ => none

/-- `Identifier()` of a source -/
def LevelSource.name : LevelSource → String
  | .coef .incMul => Facts.levelsIncreasingMul
  | .coef .incAdd => Facts.levelsAdditive
  | .coef .decMul => Facts.levelsDecreasingMul
  | .coef .decSub => Facts.levelsSubtractive
  | .thresholds _ => Facts.levelsThresholds

/-- does the source generate an increasing series? (explicit thresholds: the `ascending` flag) -/
def LevelSource.increasing : LevelSource → Bool
  | .coef k => k.inc
  | .thresholds asc => asc

/-- a slice of sources as written in main.go -/
def sourcesOf (vars : List String) : List LevelSource := vars.filterMap sourceOfVar

/-- the slice named by the first constructor argument recorded in `Facts.wiring…Args` -/
def sourcesNamed (arg : Option String) : List LevelSource :=
  if arg == some "increasingSatisfactionLevels" then sourcesOf Facts.wiringIncreasingLevels
  else if arg == some "decreasingSatisfactionLevels" then sourcesOf Facts.wiringDecreasingLevels
  else []

/-- the sources main.go hands to `NewAspectEliminationHeuristic` / `NewSatisfaction` -/
def aspectSources : List LevelSource := sourcesNamed Facts.wiringAspectArgs.head?
def satisfactionSources : List LevelSource := sourcesNamed Facts.wiringSatisfactionArgs.head?

/-- `Find`: empty name is an error; first source with that identifier -/
def findSource (sources : List LevelSource) (fn : String) : R LevelSource :=
  if fn == "" then throw "levels-function-not-provided"
  else match sources.find? (fun s => s.name == fn) with
    | some s => pure s
    | none => throw s!"levels-function-unknown:{fn}"

/-- decoding of `params` into the blank parameters of the source found: a coefficient source reads
    coefficient/maxValue/minValue (absent = 0), the thresholds source reads `thresholds` (absent = []) -/
def levelsWith (s : LevelSource) (lv : Levels α) (d : DMP α) : R (List (KMap α)) :=
  match s, lv with
  | .coef k, .coef c mx mn => coefLevels k d c mx mn
  | .coef k, .thresholds _ => coefLevels k d Num.zero Num.zero Num.zero
  | .thresholds _, .thresholds ts => explicitLevels d ts
  | .thresholds _, .coef _ _ _ => explicitLevels d []

/-- `Find(function, params, sources)` + `Initialize(dmp)` + the whole `HasNext/Next` loop -/
def levelsOf (sources : List LevelSource) (fn : String) (lv : Levels α) (d : DMP α) :
    R (List (KMap α)) := do
  let s ← findSource sources fn
  levelsWith s lv d

end Rdm
