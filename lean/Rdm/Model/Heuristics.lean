/-
  Model of the three limited-rationality heuristics:
    lib/model/alternative.go                       (ShuffleAlternatives, CopyAlternatives, RemoveAlternative)
    lib/logic/limited-rationality/heuristic-utils.go  (GetAlternativesSearchOrder, OrderAlternatives)
    lib/logic/limited-rationality/majority/majority.go, draw-resolution.go
    lib/logic/limited-rationality/aspect-elimination/aspect-elimination.go
    lib/logic/limited-rationality/satisfaction/satisfaction.go
  Loops are explicit structural recursions (one function per Go loop) so that the property theorems
  can be proved by induction.  Random numbers come from one `Draws` list that is threaded through in
  the order the Go code calls its single generator object.
-/
import Rdm.Model.Types
import Rdm.Model.Utility
import Rdm.Model.Listener
import Rdm.Model.Links
import Rdm.Model.Levels
import Rdm.Generated.Facts
namespace Rdm
variable {α : Type} [Num α]

/-! ### alternatives: shuffle, remove, search order -/

/-- `copied[i], copied[j] = copied[j], copied[i]` -/
def swapAt {β : Type} (l : List β) (i j : Nat) : List β :=
  match l[i]?, l[j]? with
  | some a, some b => (l.set i b).set j a
  | _, _ => l

/-- the loop of `ShuffleAlternatives`: `for i := n-1; i > 0; i-- { j := int(gen()*float64(i)); swap }`
    (the first argument is the current `i`; `int(x)` truncates, which is `floor` for `x ≥ 0`) -/
def shuffleLoop {β : Type} : Nat → List β → Draws α → R (List β × Draws α)
  | 0, l, d => pure (l, d)
  | i + 1, l, d => do
    let (u, d') ← draw d
    let j := (Num.floorInt (u * Num.ofNat (i + 1))).toNat
    shuffleLoop i (swapAt l (i + 1) j) d'

/-- `ShuffleAlternatives` -/
def shuffleAlts {β : Type} (l : List β) (d : Draws α) : R (List β × Draws α) :=
  shuffleLoop (l.length - 1) l d

/-- `OrderAlternatives`: shuffle or plain copy -/
def orderAlternatives {β : Type} (rnd : Bool) (l : List β) (d : Draws α) : R (List β × Draws α) :=
  if rnd then shuffleAlts l d else pure (l, d)

/-- `RemoveAlternative` on a copy: drop the first alternative with that id -/
def removeAlt (l : List (Alt α)) (id : String) : List (Alt α) := l.eraseP (fun a => a.id == id)

/-- `GetAlternativesSearchOrder`: with a current choice (looked up among ALL alternatives) it goes
    first and is removed from a copy of the considered list, which is then ordered; without one the
    considered list is ordered and split into head and tail (index panic when empty) -/
def searchOrder (d : DMP α) (cur : String) (rnd : Bool) (ds : Draws α) :
    R ((Alt α × List (Alt α)) × Draws α) :=
  if cur != "" then do
    let choice ← fetchAlt d.all cur
    let (others, ds') ← orderAlternatives rnd (removeAlt d.co choice.id) ds
    pure ((choice, others), ds')
  else do
    let (alts, ds') ← orderAlternatives rnd d.co ds
    match alts with
    | [] => throw "index-out-of-range"
    | a :: rest => pure ((a, rest), ds')

/-! ### majority heuristic -/

/-- `MajorityEvaluation` -/
structure MajEval (α : Type) where
  value : α
  cmp : String     -- comparedWith
  cav : α          -- comparedAlternativeValue

abbrev MajRes (α : Type) := String × MajEval α

/-- `compare`: per criterion, eps-equal values score nothing, otherwise the weight goes to the side
    with the larger signed value -/
def compareLoop (eps : α) (a1 a2 : Alt α) : List (WCrit α) → α → α → R (α × α)
  | [], s1, s2 => pure (s1, s2)
  | c :: cs, s1, s2 => do
    let v1 ← a1.signed c.crit
    let v2 ← a2.signed c.crit
    if floatsAreEqual v1 v2 eps then compareLoop eps a1 a2 cs s1 s2
    else if Num.gt v1 v2 then compareLoop eps a1 a2 cs (s1 + c.w) s2
    else compareLoop eps a1 a2 cs s1 (s2 + c.w)

def majorityEpsOf : α := Num.ofConst Facts.majorityEps

def compareAlts (wc : List (WCrit α)) (a1 a2 : Alt α) : R (α × α) :=
  compareLoop majorityEpsOf a1 a2 wc Num.zero Num.zero

/-- the accumulators of `Evaluate`: `sameBuffer`, `worseThanCurrent`, `current` -/
structure MajState (α : Type) where
  same : List (MajRes α)
  worse : List (List (MajRes α))
  cur : Alt α

/-- `DrawAllowedResolver.Resolve`: park the challenger in the tie buffer of the current winner -/
def resolveAllow (s1 s2 : α) (st : MajState α) (another : Alt α) : MajState α :=
  { st with same := st.same ++ [(another.id, ⟨s2, st.cur.id, s1⟩)] }

/-- `CurrentIsWinnerDrawResolver.Resolve`: the challenger drops out as a group of its own -/
def resolveCurrent (s1 s2 : α) (st : MajState α) (another : Alt α) : MajState α :=
  { st with worse := st.worse ++ [[(another.id, ⟨s2, st.cur.id, s1⟩)]] }

/-- `NewerIsWinnerResolver.Resolve`: the current winner drops out together with its tie buffer -/
def resolveNewer (s1 s2 : α) (st : MajState α) (another : Alt α) : MajState α :=
  { same := [], worse := st.worse ++ [st.same ++ [(st.cur.id, ⟨s1, another.id, s2⟩)]], cur := another }

/-- the four registered draw resolvers -/
inductive DrawPolicy where
  | allow | current | newer | random
  deriving DecidableEq, Repr

/-- `Identifier()` -/
def DrawPolicy.name : DrawPolicy → String
  | .allow => Facts.drawAllow
  | .current => Facts.drawCurrent
  | .newer => Facts.drawNewer
  | .random => Facts.drawRandom

/-- resolver types as listed in main.go -/
def policyOfType : String → Option DrawPolicy
  | "DrawAllowedResolver" => some .allow
  | "CurrentIsWinnerDrawResolver" => some .current
  | "NewerIsWinnerResolver" => some .newer
  | "RandomWinnerResolver" => some .random
  | _ => none

/-- the resolvers main.go passes to `NewMajority`, in order (first = default) -/
def registeredPolicies : List DrawPolicy := Facts.wiringDrawResolvers.filterMap policyOfType

/-- `Majority.drawResolver`: empty name = first registered; unknown name panics -/
def findPolicy (name : String) : R DrawPolicy :=
  if name == "" then
    match registeredPolicies with
    | p :: _ => pure p
    | [] => throw "no-draw-resolvers"
  else
    match registeredPolicies.find? (fun p => p.name == name) with
    | some p => pure p
    | none => throw s!"draw-resolution-unknown:{name}"

/-- `resolver.Resolve` for a draw -/
def resolveDraw (pol : DrawPolicy) (s1 s2 : α) (st : MajState α) (another : Alt α) (d : Draws α) :
    R (MajState α × Draws α) :=
  match pol with
  | .allow => pure (resolveAllow s1 s2 st another, d)
  | .current => pure (resolveCurrent s1 s2 st another, d)
  | .newer => pure (resolveNewer s1 s2 st another, d)
  | .random => do
    let (u, d') ← draw d
    if u < Num.ofConst Facts.randomWinnerHalf then pure (resolveCurrent s1 s2 st another, d')
    else pure (resolveNewer s1 s2 st another, d')

/-- `takeBetter`: returns the new accumulators and `currentEvaluation` -/
def takeBetter (pol : DrawPolicy) (s1 s2 : α) (st : MajState α) (another : Alt α) (d : Draws α) :
    R ((MajState α × α) × Draws α) :=
  if floatsAreEqual s1 s2 majorityEpsOf then do
    let (st', d') ← resolveDraw pol s1 s2 st another d
    pure ((st', s1), d')
  else if s2 < s1 then
    -- only `worseThanCurrent` is taken from the resolution (the resolver changes nothing else)
    pure ((resolveCurrent s1 s2 st another, s1), d)
  else
    pure ((resolveNewer s1 s2 st another, s2), d)

/-- the loop of `Evaluate` over the search order -/
def majorityFold (pol : DrawPolicy) (wc : List (WCrit α)) :
    List (Alt α) → MajState α → α → Draws α → R ((MajState α × α) × Draws α)
  | [], st, ev, d => pure ((st, ev), d)
  | another :: rest, st, _, d => do
    let (s1, s2) ← compareAlts wc st.cur another
    let ((st', ev'), d') ← takeBetter pol s1 s2 st another d
    majorityFold pol wc rest st' ev' d'

/-- the final groups handed to `prepareRanking` -/
def majorityGroups (st : MajState α) (ev : α) : List (List (MajRes α)) :=
  st.worse ++ [st.same ++ [(st.cur.id, ⟨ev, "", Num.zero⟩)]]

/-- tournament on an explicit search order -/
def majorityTournament (pol : DrawPolicy) (wc : List (WCrit α)) (first : Alt α) (rest : List (Alt α))
    (d : Draws α) : R (List (Linked (MajEval α))) := do
  let ((st, ev), _) ← majorityFold pol wc rest ⟨[], [], first⟩ Num.zero d
  pure (majorityRanking (majorityGroups st ev))

/-- `Majority.Evaluate` -/
def majorityEvaluate (d : DMP α) (ds : Draws α) : R (List (Linked (MajEval α))) :=
  match d.mp with
  | .majority w cur _ rnd dr => do
    let wc ← zipWithWeights d.crit w
    let ((first, rest), ds') ← searchOrder d cur rnd ds
    let pol ← findPolicy dr
    majorityTournament pol wc first rest ds'
  | _ => throw "type-mismatch:majority-params"

/-! ### aspect elimination -/

/-- `AspectEliminationEvaluation` -/
structure AspEval (α : Type) where
  idx : Nat            -- thresholdsIndex
  thr : KMap α         -- notSatisfiedThreshold

abbrev AspRes (α : Type) := String × AspEval α

/-- Go map read `t[c.Id]` (zero when absent) -/
def levelValue (t : KMap α) (id : String) : α := (t.get? id).getD Num.zero

/-- `isBellowThreshold` -/
def isBelowThreshold (a : Alt α) (t : KMap α) (c : Crit α) : R Bool := do
  pure (decide ((← a.signed c) < levelValue t c.id * c.mult))

/-- innermost loop: the alternatives of `leftToChoice` against one (level, criterion).  `temp` is
    `tempAlternatives`; returns it, the eliminations made (chronological) and whether the
    `len(temp) <= 1 → break thresholds` test fired -/
def aspAltLoop (idx : Nat) (t : KMap α) (c : Crit α) :
    List (Alt α) → List (Alt α) → R (List (Alt α) × List (AspRes α) × Bool)
  | [], temp => pure (temp, [], false)
  | a :: rest, temp => do
    let below ← isBelowThreshold a t c
    let temp' := if below then removeAlt temp a.id else temp
    let ev : List (AspRes α) := if below then [(a.id, ⟨idx, [(c.id, levelValue t c.id)]⟩)] else []
    if temp'.length ≤ 1 then pure (temp', ev, true)
    else do
      let (t2, e2, s) ← aspAltLoop idx t c rest temp'
      pure (t2, ev ++ e2, s)

/-- criterion loop of one level -/
def aspCritLoop (idx : Nat) (t : KMap α) :
    List (Crit α) → List (Alt α) → R (List (Alt α) × List (AspRes α) × Bool)
  | [], left => pure (left, [], false)
  | c :: cs, left => do
    let (temp, e1, stop) ← aspAltLoop idx t c left left
    if stop then pure (temp, e1, true)
    else do
      let (l2, e2, s2) ← aspCritLoop idx t cs temp
      pure (l2, e1 ++ e2, s2)

/-- level loop; the last component is `thresholdIndex + 1` (the index survivors report) -/
def aspLevelLoop (crits : List (Crit α)) :
    Nat → List (KMap α) → List (Alt α) → R (List (Alt α) × List (AspRes α) × Nat)
  | idx, [], left => pure (left, [], idx)
  | idx, t :: ts, left => do
    let (l1, e1, stop) ← aspCritLoop idx t crits left
    if stop then pure (l1, e1, idx + 1)
    else do
      let (l2, e2, si) ← aspLevelLoop crits (idx + 1) ts l1
      pure (l2, e1 ++ e2, si)

/-- `checkWithinSatisfactionLevels` (aspect elimination): survivors, eliminations in chronological
    order, index reported by survivors -/
def aspCheck (crits : List (Crit α)) (levels : List (KMap α)) (alts : List (Alt α)) :
    R (List (Alt α) × List (AspRes α) × Nat) :=
  if alts.length ≤ 1 then pure (alts, [], 0) else aspLevelLoop crits 0 levels alts

/-- `fillRemainingAlternatives` + the back-to-front writes: survivors first (index+1, empty map),
    then the eliminated ones in reverse order of elimination -/
def aspResult (survivors : List (Alt α)) (elims : List (AspRes α)) (sidx : Nat) : List (AspRes α) :=
  survivors.map (fun a => (a.id, (⟨sidx, []⟩ : AspEval α))) ++ elims.reverse

/-- descending weight — the order `sortCriteria` produces when all weights are distinct -/
def sortCriteriaDesc (wc : List (WCrit α)) : List (WCrit α) :=
  wc.mergeSort (fun a b => !decide (a.w < b.w))

/-- are the weights pairwise different (then `sort.Slice`'s comparator never draws)? -/
def weightsDistinct (wc : List (WCrit α)) : Bool :=
  wc.zipIdx.all fun (a, i) => wc.zipIdx.all fun (b, j) => i == j || !(a.w == b.w)

/-- the heuristic on explicit inputs: ordered alternatives, criteria in examination order, levels -/
def aspectCore (crits : List (Crit α)) (levels : List (KMap α)) (alts : List (Alt α)) :
    R (List (Linked (AspEval α))) := do
  let (left, elims, sidx) ← aspCheck crits levels alts
  pure (sequentialRanking (aspResult left elims sidx))

/-- `AspectEliminationHeuristic.Evaluate` with the levels and the criteria order as inputs.
    `levels` is the result of Find + Initialize + HasNext/Next (an error there is a panic before
    anything else happens); `order` maps the zipped criteria to the examination order -/
def aspectEvaluateWith (d : DMP α) (ds : Draws α) (levels : R (List (KMap α)))
    (order : List (WCrit α) → List (WCrit α)) : R (List (Linked (AspEval α))) :=
  match d.mp with
  | .aspect _ _ _ w rnd => do
    let lv ← levels
    let (alts, _) ← orderAlternatives rnd d.co ds
    let wc ← zipWithWeights d.crit w
    aspectCore ((order wc).map (·.crit)) lv alts
  | _ => throw "type-mismatch:aspect-params"

/-- the levels `Evaluate` obtains from its registered sources -/
def aspectLevels (d : DMP α) : R (List (KMap α)) :=
  match d.mp with
  | .aspect fn lv _ _ _ => levelsOf aspectSources fn lv d
  | _ => throw "type-mismatch:aspect-params"

/-- `Evaluate` for pairwise distinct weights -/
def aspectEvaluate (d : DMP α) (ds : Draws α) : R (List (Linked (AspEval α))) :=
  aspectEvaluateWith d ds (aspectLevels d) sortCriteriaDesc

/-! ### satisfaction heuristic -/

/-- `SatisfactionEvaluation` -/
structure SatEval (α : Type) where
  idx : Nat            -- thresholdsIndex
  thr : KMap α         -- satisfiedThresholds

abbrev SatRes (α : Type) := String × SatEval α

/-- `isGoodEnough`: no criterion with signed value below the signed threshold -/
def isGoodEnough (a : Alt α) : List (WCrit α) → R Bool
  | [] => pure true
  | v :: vs => do
    let cv ← a.signed v.crit
    if cv < v.crit.mult * v.w then pure false else isGoodEnough a vs

/-- alternatives loop of one level: `temp` = `tempLeftToChoice`; returns it and the acceptances -/
def satAltLoop (idx : Nat) (t : KMap α) (th : List (WCrit α)) :
    List (Alt α) → List (Alt α) → R (List (Alt α) × List (SatRes α))
  | [], temp => pure (temp, [])
  | a :: rest, temp => do
    let good ← isGoodEnough a th
    let temp' := if good then removeAlt temp a.id else temp
    let ev : List (SatRes α) := if good then [(a.id, ⟨idx, t⟩)] else []
    let (t2, e2) ← satAltLoop idx t th rest temp'
    pure (t2, ev ++ e2)

/-- level loop; last component = `thresholdIndex + 1` -/
def satLevelLoop (crits : List (Crit α)) :
    Nat → List (KMap α) → List (Alt α) → R (List (Alt α) × List (SatRes α) × Nat)
  | idx, [], left => pure (left, [], idx)
  | idx, t :: ts, left => do
    let th ← zipWithWeights crits t
    let (l1, e1) ← satAltLoop idx t th left left
    if l1.isEmpty then pure (l1, e1, idx + 1)
    else do
      let (l2, e2, si) ← satLevelLoop crits (idx + 1) ts l1
      pure (l2, e1 ++ e2, si)

/-- `weightsSupplier`: the worst end of every criterion's range over ALL alternatives -/
def worstEnds (d : DMP α) : R (KMap α) :=
  d.crit.mapM fun c => do
    let r ← valuesRange d.all c
    pure (c.id, if c.isGain then r.1 else r.2)

/-- the heuristic on explicit inputs: search order and levels -/
def satisfactionCore (d : DMP α) (levels : List (KMap α)) (order : List (Alt α)) :
    R (List (Linked (SatEval α))) := do
  let (left, acc, sidx) ← satLevelLoop d.crit 0 levels order
  let rest : List (SatRes α) ←
    if left.isEmpty then pure []
    else do
      let lowest ← worstEnds d
      pure (left.map fun a => (a.id, (⟨sidx, lowest⟩ : SatEval α)))
  pure (sequentialRanking (acc ++ rest))

/-- `Satisfaction.Evaluate` with the levels as input -/
def satisfactionEvaluateWith (d : DMP α) (ds : Draws α) (levels : R (List (KMap α))) :
    R (List (Linked (SatEval α))) :=
  match d.mp with
  | .satisf _ _ _ cur rnd => do
    let lv ← levels
    let ((first, rest), _) ← searchOrder d cur rnd ds
    satisfactionCore d lv (first :: rest)
  | _ => throw "type-mismatch:satisfaction-params"

def satisfactionLevels (d : DMP α) : R (List (KMap α)) :=
  match d.mp with
  | .satisf fn lv _ _ _ => levelsOf satisfactionSources fn lv d
  | _ => throw "type-mismatch:satisfaction-params"

/-- `Satisfaction.Evaluate` -/
def satisfactionEvaluate (d : DMP α) (ds : Draws α) : R (List (Linked (SatEval α))) :=
  satisfactionEvaluateWith d ds (satisfactionLevels d)

end Rdm
