/-
  End-to-end model of `DecisionMaker.MakeDecision` (lib/model/decision-maker.go):

    validate → Fetch(preferenceFunction) → prepareParams → ChooseBiases → processBiases → Evaluate

  composed from the component models (each tied to the code stage by stage):
    Validate.lean (request validation), Pipeline.lean (ChooseBiases / processBiases),
    BiasesA.lean / BiasesB.lean / Anchoring.lean (the six `Bias.Apply`), Listener.lean (the seven listeners),
    Ranking/Utility/Electre/Heuristics/Levels.lean (the seven `Evaluate`).

  Outside the model (as in every component): JSON binding and the per-method `ParseParams` — the request
  carries the method parameters already parsed (`MParams`, `none` when `ParseParams` or the registry lookup
  panicked) — and the `mapstructure` decoding of bias props (typed `BProps`).  `exp` (`math.Exp`) is a
  parameter.  Every seeded generator of `main.go` is `utils.RandomBasedSeedValueGenerator`; the model reads
  random numbers through one function `g : seed ↦ stream prefix` (`genOf` of a seed table).
-/
import Rdm.Model.Validate
import Rdm.Model.Pipeline
import Rdm.Model.BiasesA
import Rdm.Model.Anchoring
import Rdm.Model.Electre
import Rdm.Model.Heuristics
namespace Rdm
variable {α : Type} [Num α]

/-! ### seed table -/

/-- for every seed the request can reach: the first K numbers of `utils.RandomBasedSeedValueGenerator(seed)` -/
abbrev Seeds (α : Type) := List (Int × Draws α)

/-- the stream of a seed (empty when the table does not have it: the first `draw` then fails) -/
def genOf (s : Seeds α) (k : Int) : Draws α := (s.lookup k).getD []

/-! ### typed bias props -/

/-- what a bias decodes from its `props` (the `mapstructure` step is done by the harness with the real
    decoders): split condition + ordering + `randomSeed` (omission, reversal); fatigue function with its
    `params` sub-object + bounding + `randomSeed`; the flat keys (concealment, mixing: `randomSeed`,
    `newCriterionRandomSeed`, …); the anchoring props; `bad` = the real decoder panicked -/
inductive BProps (α : Type) where
  | split (c : SplitCond α) (ordering : String) (seed : Int)
  | fatigue (fn : FatigueFn α) (b : Bounding α) (seed : Int)
  | flat (p : Props α)
  | anch (p : AnchProps α)
  | bad

/-- an integer-valued key of a flat props object (`randomSeed`, `newCriterionRandomSeed`; absent = 0) -/
def Props.seed (p : Props α) (k : String) : Int := truncInt (p.num k Num.zero)

/-- number of per-reference-point generators handed to the newCriterion applier
    (`generator(randomSeed + ri)`; the registered evaluators return a single reference point) -/
def anchGenCount : Nat := 3

/-- seeds of the per-reference-point generators of the newCriterion applier -/
def anchGenSeeds (p : AnchProps α) : List Int :=
  (List.range anchGenCount).map fun i => p.applier.params.seed "randomSeed" + Int.ofNat i

/-- the report of a fired bias (`BiasedResult.Props`) -/
inductive Report (α : Type) where
  | omission (omitted : List (Crit α))
  | reversal (rep : List (Reversed α))
  | fatigue (rep : FatigueReport α)
  | conceal (rep : ConcealReport α)
  | mixing (rep : Option (MixReport α))      -- `nil` below two criteria
  | anchoring (rep : AnchReport α)

/-- the criteria a report names as omitted -/
def Report.omittedIds : Report α → List String
  | .omission om => om.map (·.id)
  | _ => []

/-- the criteria a report names as added (`addedCriteria`, `newCriterion`, `applierResult.addedCriteria`) -/
def Report.addedIds : Report α → List String
  | .conceal r => [r.id]
  | .mixing (some r) => [r.new.id]
  | .anchoring r =>
    match r.applier with
    | .newCriterion _ added => added.map (·.id)
    | .inline _ => []
  | _ => []

/-- the Choquet tie tolerance the listeners use -/
def choquetEpsOf : α := Num.ofConst Facts.choquetEps

/-- the keys of `biases` in main.go -/
def availableBiases : List String :=
  [Facts.biasAnchoring, Facts.biasConcealment, Facts.biasMixing, Facts.biasReversal, Facts.biasOmission,
   Facts.biasFatigue]

/-- `Bias.Apply(original, current, props, listener)` of the registered bias `name`.
    Which seed key feeds which generator:
      omission / reversal : `randomSeed` → ordering resolver;
      fatigue             : `randomSeed` → value and sign generator (the same stream twice);
      concealment, mixing : `newCriterionRandomSeed` → reference criterion, `randomSeed` → values / listener;
      anchoring           : applier `newCriterionRandomSeed` → reference criterion,
                            applier `randomSeed + ri` → listener draws of the ri-th added criterion. -/
def applyBias (exp : α → α) (g : Int → Draws α) (name : String) (p : BProps α) (orig cur : DMP α) :
    R (DMP α × Report α) :=
  if name == Facts.biasOmission then
    match p with
    | .split c o s => do
      let r ← omissionApply choquetEpsOf c o cur (g s)
      pure (r.1, .omission r.2)
    | _ => throw "bad-props"
  else if name == Facts.biasReversal then
    match p with
    | .split c o s => do
      let r ← reversalApply choquetEpsOf c o cur (g s)
      pure (r.1, .reversal r.2)
    | _ => throw "bad-props"
  else if name == Facts.biasFatigue then
    match p with
    | .fatigue fn b s => do
      let r ← fatigueApply exp fn b cur (g s)
      pure (r.1, .fatigue r.2)
    | _ => throw "bad-props"
  else if name == Facts.biasConcealment then
    match p with
    | .flat p => do
      let r ← conceal choquetEpsOf orig cur p (g (p.seed "newCriterionRandomSeed")) (g (p.seed "randomSeed"))
      pure (r.1, .conceal r.2)
    | _ => throw "bad-props"
  else if name == Facts.biasMixing then
    match p with
    | .flat p => do
      let r ← mixing choquetEpsOf orig cur p (g (p.seed "newCriterionRandomSeed")) (g (p.seed "randomSeed"))
      pure (r.1, .mixing r.2)
    | _ => throw "bad-props"
  else if name == Facts.biasAnchoring then
    match p with
    | .anch p => do
      let r ← anchoringApply exp choquetEpsOf cur p (g (p.applier.params.seed "newCriterionRandomSeed"))
        ((anchGenSeeds p).map g)
      pure (r.1, .anchoring r.2)
    | _ => throw "bad-props"
  else throw s!"unknown-bias:{name}"

/-! ### Evaluate -/

/-- the `evaluation` payload of a ranking entry, one constructor per Go type -/
inductive Eval (α : Type) where
  | util (v : α)                    -- model.ValueAlternativeResult (weightedSum, owa, choquetIntegral)
  | electre (asc desc : Int)        -- ElectreIIIEvaluation
  | maj (e : MajEval α)
  | asp (e : AspEval α)
  | sat (e : SatEval α)

/-- the value a utility method gives an alternative under parsed parameters -/
def utilityValueOf (mp : MParams α) (a : Alt α) : R α :=
  match mp with
  | .ws wc => weightedSum a wc
  | .owa wc => owa a wc
  | .choquet w _ => choquetValue choquetEpsOf a w
  | _ => throw "not-a-utility-method"

/-- `model.Rank` + `Ranking()`: the three utility methods -/
def utilityEvaluate (d : DMP α) : R (List (RankEntry α)) := do
  let scored ← d.co.mapM fun a => do pure (⟨a.id, ← utilityValueOf d.mp a⟩ : Scored α)
  pure (ranking scored)

/-- the seed the method's own generator is created from -/
def MParams.seed : MParams α → Option Int
  | .majority _ _ s _ _ => some s
  | .aspect _ _ s _ _ => some s
  | .satisf _ _ s _ _ => some s
  | _ => none

def Linked.mapEv {β γ : Type} (f : β → γ) (l : Linked β) : Linked γ := ⟨l.id, f l.ev, l.links⟩

/-- `PreferenceFunction.Evaluate`, dispatched on the (dynamic type of the) method parameters.
    `aspOrder`: the examination order `sortCriteria` of aspect elimination produces (its comparator draws
    for tied weights inside `sort.Slice`; for distinct weights it is `sortCriteriaDesc`). -/
def evaluateWith (aspOrder : List (WCrit α) → List (WCrit α)) (g : Int → Draws α) (d : DMP α) :
    R (List (Linked (Eval α))) :=
  match d.mp with
  | .ws _ | .owa _ | .choquet _ _ => do
    pure ((← utilityEvaluate d).map fun e => ⟨e.id, .util e.v, e.links⟩)
  | .electre ec dist => do
    pure ((← electreIII d.co d.crit ec dist).map (Linked.mapEv fun p => .electre p.1 p.2))
  | .majority _ _ seed _ _ => do
    pure ((← majorityEvaluate d (g seed)).map (Linked.mapEv .maj))
  | .aspect _ _ seed _ _ => do
    pure ((← aspectEvaluateWith d (g seed) (aspectLevels d) aspOrder).map (Linked.mapEv .asp))
  | .satisf _ _ seed _ _ => do
    pure ((← satisfactionEvaluate d (g seed)).map (Linked.mapEv .sat))

def evaluate (g : Int → Draws α) (d : DMP α) : R (List (Linked (Eval α))) :=
  evaluateWith sortCriteriaDesc g d

/-! ### MakeDecision -/

/-- the bound `DecisionMaker`; `mp` = what the real `ParseParams` returned (`none`: it, or the registry
    lookup of the method, panicked) -/
structure Request (α : Type) where
  method : String
  crit : List (Crit α)
  known : List (Alt α)
  chosen : List String
  mp : Option (MParams α)
  biases : List (BiasReq α (BProps α))
  biasSeed : Int

/-- `DecisionMakerChoice` plus the state that reached `Evaluate` (the `alternative.criteria` of the result
    entries are the values of that state) -/
structure Response (α : Type) where
  result : List (Linked (Eval α))
  biases : List (BiasOut α (Report α))
  final : DMP α

/-- the identifiers of `funcs` in main.go -/
def methodNames : List String :=
  [Facts.methodWeightedSum, Facts.methodOwa, Facts.methodElectre, Facts.methodChoquet, Facts.methodAspect,
   Facts.methodMajority, Facts.methodSatisfaction]

/-- `prepareParams`: not-considered = known minus chosen (in known order), considered = chosen, fetched -/
def prepareParams (req : Request α) (mp : MParams α) : R (DMP α) := do
  let co ← req.chosen.mapM (fetchAlt req.known)
  pure ⟨req.known.filter (fun a => !req.chosen.contains a.id), co, req.crit, mp⟩

/-- the part of `MakeDecision` before the first random number: validation, registry lookup, `prepareParams`
    (with the parsed method parameters), `ChooseBiases` -/
def prepare (req : Request α) : R (DMP α × List (Chosen α (BProps α))) := do
  validateRequest req.method req.crit req.known req.chosen
  if !methodNames.contains req.method then throw s!"unknown-method:{req.method}"
  else match req.mp with
    | none => throw "parse-params"
    | some mp => do
      let params ← prepareParams req mp
      let chosen ← chooseBiases availableBiases req.biases
      pure (params, chosen)

/-- everything of `MakeDecision` before `Evaluate`: the state handed to the method and the biases list -/
def pipeline (exp : α → α) (req : Request α) (g : Int → Draws α) :
    R (DMP α × List (BiasOut α (Report α))) := do
  let pc ← prepare req
  processBiases (applyBias exp g) pc.2 pc.1 (g req.biasSeed)

/-- `MakeDecision` with the stream function and the aspect-elimination tie order as parameters -/
def decideWith (exp : α → α) (aspOrder : List (WCrit α) → List (WCrit α)) (req : Request α)
    (g : Int → Draws α) : R (Response α) := do
  let r ← pipeline exp req g
  let res ← evaluateWith aspOrder g r.1
  pure ⟨res, r.2, r.1⟩

/-- `DecisionMaker.MakeDecision(funcs, biasListeners, &biases, utils.RandomBasedSeedValueGenerator)`
    (`protected`: inside `namespace Rdm` the name `decide` keeps meaning `Decidable.decide`) -/
protected def decide (exp : α → α) (req : Request α) (seeds : Seeds α) : R (Response α) :=
  decideWith exp sortCriteriaDesc req (genOf seeds)

/-! ### the seeds a request names (C02a) -/

/-- seeds a bias entry names -/
def BProps.seeds : BProps α → List Int
  | .split _ _ s => [s]
  | .fatigue _ _ s => [s]
  | .flat p => [p.seed "newCriterionRandomSeed", p.seed "randomSeed"]
  | .anch p => p.applier.params.seed "newCriterionRandomSeed" :: anchGenSeeds p
  | .bad => []

/-- every seed the request names: `biasApplyRandomSeed`, each bias's seeds, the method's `randomSeed` -/
def Request.seeds (req : Request α) : List Int :=
  req.biasSeed :: (req.biases.flatMap fun b => b.props.seeds) ++
    (match req.mp with
     | some mp => mp.seed.toList
     | none => [])

end Rdm
