/-
  Model of lib/model/bias.go (ChooseBiases, UpdateBiasesProps) and of
  DecisionMaker.processBiases (lib/model/decision-maker.go), generic in the state type `S`, the
  bias-props type `P` and the report type `Rep`: the biases themselves are a parameter `apply`.
-/
import Rdm.Basic
import Rdm.Generated.Facts
namespace Rdm
variable {α : Type} [Num α]

/-- one entry of the request's `biases` list after decoding (`applyProbability` absent = `none`) -/
structure BiasReq (α P : Type) where
  name : String
  disabled : Bool
  prob : Option α
  props : P

/-- an entry of `ChooseBiases`' result: the probability default (1) is filled in -/
structure Chosen (α P : Type) where
  name : String
  prob : α
  props : P

/-- `ChooseBiases`: drop disabled entries first, then every remaining name must be registered -/
def chooseBiases {P} (avail : List String) (reqs : List (BiasReq α P)) : R (List (Chosen α P)) :=
  (reqs.filter (!·.disabled)).mapM fun b =>
    if avail.contains b.name then
      pure ⟨b.name, b.prob.getD (Num.ofConst Facts.defaultApplyProbability), b.props⟩
    else throw s!"unknown-bias:{b.name}"

/-- one entry of the response's `biases` list: name and probability echoed, report or null -/
structure BiasOut (α Rep : Type) where
  name : String
  prob : α
  report : Option Rep

/-- loop of `processBiases`: one draw per enabled bias; applies iff `probability > draw`.
    `apply name props original current` is `Bias.Apply`. -/
def processLoop {S P Rep} (apply : String → P → S → S → R (S × Rep)) (original : S) :
    List (Chosen α P) → S → Draws α → R (S × List (BiasOut α Rep))
  | [], cur, _ => pure (cur, [])
  | b :: rest, cur, d => do
    let (u, d) ← draw d
    if u < b.prob then
      let (next, rep) ← apply b.name b.props original cur
      let (fin, outs) ← processLoop apply original rest next d
      pure (fin, ⟨b.name, b.prob, some rep⟩ :: outs)
    else
      let (fin, outs) ← processLoop apply original rest cur d
      pure (fin, ⟨b.name, b.prob, none⟩ :: outs)

/-- `processBiases`: no generator is created when nothing is enabled -/
def processBiases {S P Rep} (apply : String → P → S → S → R (S × Rep))
    (chosen : List (Chosen α P)) (params : S) (d : Draws α) : R (S × List (BiasOut α Rep)) :=
  processLoop apply params chosen params d

end Rdm
