/-
  Model of three biases:
    lib/logic/biases/criteria-omission/{criteria-omission,criteria-removal}.go   (Apply, omitCriteria)
    lib/logic/biases/preference-reversal/preference-reversal.go                  (Apply and helpers)
    lib/logic/biases/fatigue/{fatigue,const-fatigue-func,exp-fatigue-func}.go    (Apply, blurCriteriaValues,
                                                       matchCriteriaWithBoundings, the two ratio functions)
    lib/utils/exp-from-zero.go, lib/model/criteria-bounding/criteria-bounding.go (FromParams guard)
    lib/model/alternative.go   (WithCriteriaOnly, PreserveCriteriaForAlternatives)
  Props arrive already decoded (`mapstructure` is outside the model): split condition, ordering name,
  stream of the seeded generator, bounding, fatigue function.
-/
import Rdm.Model.Ordering
namespace Rdm
variable {α : Type} [Num α]

/-! ### criteria omission -/

/-- `AlternativeWithCriteria.WithCriteriaOnly`: the values of exactly the given criteria (a missing
    value panics).  Criteria ids are distinct (`Criteria.Validate`). -/
def Alt.withOnly (a : Alt α) (cs : List (Crit α)) : R (Alt α) := do
  pure { id := a.id, vals := ← cs.mapM fun c => do pure (c.id, ← a.raw c) }

/-- `PreserveCriteriaForAlternatives` -/
def preserveCriteria (alts : List (Alt α)) (cs : List (Crit α)) : R (List (Alt α)) :=
  alts.mapM (·.withOnly cs)

/-- `omitCriteria`: split the ordering; the listener restricts the method parameters to the kept
    criteria; every alternative keeps only the kept criteria; returns the new state and the omitted
    criteria -/
def omitCriteria (c : SplitCond α) (ordered : List (Crit α)) (cur : DMP α) :
    R (DMP α × List (Crit α)) := do
  let (omitted, kept) ← c.split ordered
  let mp ← onRemoved cur.mp kept
  let co ← preserveCriteria cur.co kept
  let nc ← preserveCriteria cur.nc kept
  pure ({ nc := nc, co := co, crit := kept, mp := mp }, omitted)

/-- `CriteriaOmission.Apply` -/
def omissionApply (eps : α) (c : SplitCond α) (ordering : String) (cur : DMP α) (d : Draws α) :
    R (DMP α × List (Crit α)) := do
  c.validate
  let ordered ← orderCriteria eps ordering cur d
  omitCriteria c ordered cur

/-! ### preference reversal -/

/-- one entry of `PreferenceReversalResult.ReversedPreferenceCriteria` -/
structure Reversed (α : Type) where
  id : String
  type : String
  range : α × α
  vals : KMap α        -- alternative id ↦ new value

/-- the new value: `valRange.Max - currentValue + valRange.Min` -/
def reverseValue (r : α × α) (v : α) : α := r.2 - v + r.1

/-- inner loop of `reverseCriteriaForEachAlternative` for one alternative: the values are read from
    and written to the copy in the order of the selected criteria; returns the new alternative and
    the new value per selected criterion -/
def reverseAlt (toRev : List (Crit α × (α × α))) (a : Alt α) : R (Alt α × List α) :=
  toRev.foldlM (fun (acc : Alt α × List α) cr => do
      let v ← KMap.fetch acc.1.vals cr.1.id
      let nv := reverseValue cr.2 v
      pure ({ acc.1 with vals := acc.1.vals.set cr.1.id nv }, acc.2 ++ [nv])) (a, [])

/-- `getCriteriaToReverse`: every selected criterion with its range over all current alternatives -/
def criteriaToReverse (sel : List (Crit α)) (cur : DMP α) : R (List (Crit α × (α × α))) :=
  sel.mapM fun c => do pure (c, ← valuesRange cur.all c)

/-- `prepareReverseResult` -/
def reversalReport (toRev : List (Crit α × (α × α))) (all : List (Alt α)) (outs : List (List α)) :
    List (Reversed α) :=
  (List.range toRev.length).zip toRev |>.map fun (i, cr) =>
    { id := cr.1.id, type := cr.1.type, range := cr.2,
      vals := (all.zip outs).map fun (a, o) => (a.id, o.getD i Num.zero) }

/-- reversal of the already selected criteria -/
def reverseSelected (sel : List (Crit α)) (cur : DMP α) : R (DMP α × List (Reversed α)) := do
  let toRev ← criteriaToReverse sel cur
  let res ← cur.all.mapM (reverseAlt toRev)
  let newAll := res.map (·.1)
  let nc ← updateAlts cur.nc newAll
  let co ← updateAlts cur.co newAll
  pure ({ nc := nc, co := co, crit := cur.crit, mp := cur.mp },
        reversalReport toRev cur.all (res.map (·.2)))

/-- `PreferenceReversal.Apply` -/
def reversalApply (eps : α) (c : SplitCond α) (ordering : String) (cur : DMP α) (d : Draws α) :
    R (DMP α × List (Reversed α)) := do
  c.validate
  let ordered ← orderCriteria eps ordering cur d
  let (sel, _) ← c.split ordered
  reverseSelected sel cur

/-! ### fatigue -/

/-- decoded `FatigueParams.Function` + its parameters -/
inductive FatigueFn (α : Type) where
  | const (value : α)
  | expFromZero (alpha multiplier : α) (queryNumber : Int)
  | unknown (name : String)

/-- `fun.Evaluate(funParams)`; `exp` is external (`math.Exp`) and therefore a parameter -/
def fatigueRatio (exp : α → α) : FatigueFn α → R α
  | .const v => pure v
  | .expFromZero a m q => pure (m * exp (a * Num.ofInt q) - m)
  | .unknown _ => throw "fatigue-function-not-defined"

/-- `getFatigueFunction` by name (the two registered functions) -/
def fatigueFnKnown (name : String) : Bool := name == Facts.fatigueConst || name == Facts.fatigueExp

/-- `criteria_bounding.FromParams` guard -/
def Bounding.validate (b : Bounding α) : R Unit :=
  if b.scaling == Num.zero then throw "allowedValuesRangeScaling-cannot-be-0" else pure ()

/-- `matchCriteriaWithBoundings`: every declared criterion with its range over all alternatives -/
def biasACriteriaRanges (cur : DMP α) : R (List (Crit α × (α × α))) :=
  cur.crit.mapM fun c => do pure (c, ← valuesRange cur.all c)

/-- the blur of one value: `eps = v*u*f`, `sign = -1 iff s ≥ ½`, then `BoundValue` -/
def blurValue (f : α) (b : Bounding α) (range : α × α) (v u s : α) : α :=
  let eps := v * u * f
  let sign : α := if Num.ge s (Num.ofConst Facts.fatigueSignHalf) then -Num.one else Num.one
  b.bound range (v + eps * sign)

/-- inner loop of `blurCriteriaValues` for one alternative (criteria in declared order); `vd` and
    `sd` are the value and the sign stream -/
def blurAlt (f : α) (b : Bounding α) (a : Alt α) :
    List (Crit α × (α × α)) → Draws α → Draws α → R (KMap α × Draws α × Draws α)
  | [], vd, sd => pure ([], vd, sd)
  | (c, range) :: rest, vd, sd => do
    let v ← a.raw c
    let (u, vd) ← draw vd
    let (s, sd) ← draw sd
    let nv := blurValue f b range v u s
    let (tl, vd, sd) ← blurAlt f b a rest vd sd
    pure ((c.id, nv) :: tl, vd, sd)

/-- `blurCriteriaValues` -/
def blurAlts (f : α) (b : Bounding α) (cr : List (Crit α × (α × α))) :
    List (Alt α) → Draws α → Draws α → R (List (Alt α) × Draws α × Draws α)
  | [], vd, sd => pure ([], vd, sd)
  | a :: rest, vd, sd => do
    let (vals, vd, sd) ← blurAlt f b a cr vd sd
    let (tl, vd, sd) ← blurAlts f b cr rest vd sd
    pure ({ id := a.id, vals := vals } :: tl, vd, sd)

/-- report of the fatigue bias -/
structure FatigueReport (α : Type) where
  f : α
  co : List (Alt α)
  nc : List (Alt α)

/-- the part of `Fatigue.Apply` after the ratio is known: boundings, blur of the considered then of
    the not considered alternatives.  `vd`/`sd` are the streams of the value and of the sign
    generator. -/
def fatigueBlur (f : α) (b : Bounding α) (cur : DMP α) (vd sd : Draws α) :
    R (DMP α × FatigueReport α) := do
  b.validate
  let cr ← biasACriteriaRanges cur
  let (co, vd, sd) ← blurAlts f b cr cur.co vd sd
  let (nc, _, _) ← blurAlts f b cr cur.nc vd sd
  pure ({ nc := nc, co := co, crit := cur.crit, mp := cur.mp }, { f := f, co := co, nc := nc })

/-- `Fatigue.Apply`; `main.go` creates both generators from the same factory and the same seed, so
    both streams are the same numbers: the caller passes one `Draws` and it is used twice. -/
def fatigueApply (exp : α → α) (fn : FatigueFn α) (b : Bounding α) (cur : DMP α) (d : Draws α) :
    R (DMP α × FatigueReport α) := do
  let f ← fatigueRatio exp fn
  fatigueBlur f b cur d d

end Rdm
