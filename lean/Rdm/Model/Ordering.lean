/-
  Model of
    lib/model/criteria-splitting/criteria-split-condition.go   (validate, SplitCriteriaByOrdering)
    lib/model/criteria-ordering/*.go                           (FetchOrderingResolver, the five resolvers,
                                                                shuffleCriteria)
  Generic in the number type, core Lean only.  Go panics (slice bounds, unknown resolver, ...) are
  `Except` errors.  The seeded generator is a `Draws` prefix supplied by the caller (the harness
  passes the real `utils.RandomBasedSeedValueGenerator(randomSeed)` numbers).
-/
import Rdm.Model.Listener
import Rdm.Generated.Facts
namespace Rdm
variable {α : Type} [Num α]

/-! ### criteria splitting -/

/-- `criteria_splitting.CriteriaSplitCondition` after `DecodeToStruct` (default `Max = MaxInt64`) -/
structure SplitCond (α : Type) where
  ratio : α
  min : Int
  max : Int

/-- `math.MaxInt64`, the default of `Max` in `Parse` -/
def maxInt64 : Int := 9223372036854775807

/-- `validate`: `IsProbability(ratio)` and `max ≥ min` -/
def SplitCond.validate (c : SplitCond α) : R Unit :=
  if !(decide (Num.zero ≤ c.ratio) && decide (c.ratio ≤ Num.one)) then throw "ratio-not-a-probability"
  else if c.max < c.min then throw "max-lower-than-min"
  else pure ()

/-- `clamp`: `if p < min then min else if p > max then max else p` — the order of the two tests is
    the code's (with `max < min`, which `validate` rejects, `min` wins) -/
def clampInt (p lo hi : Int) : Int := if p < lo then lo else if hi < p then hi else p

/-- the pivot: `int(math.Floor(float64(n) * ratio))` clamped to `[min, max]` -/
def SplitCond.pivot (c : SplitCond α) (n : Nat) : Int :=
  clampInt (Num.floorInt (Num.ofNat n * c.ratio)) c.min c.max

/-- `SplitCriteriaByOrdering`: `(sorted[0:pivot], sorted[pivot:])`; Go panics when the pivot is
    negative or exceeds the length -/
def SplitCond.split {β : Type} (c : SplitCond α) (l : List β) : R (List β × List β) :=
  let p := c.pivot l.length
  if p < 0 || (l.length : Int) < p then throw "slice-bounds-out-of-range"
  else pure (l.take p.toNat, l.drop p.toNat)

/-! ### ordering resolvers -/

/-- Go's `int(x)` for a float: truncation toward zero -/
def ordTruncInt (x : α) : Int := if x < Num.zero then -(Num.floorInt (-x)) else Num.floorInt x

/-- `l[i], l[j] = l[j], l[i]` (index out of range panics) -/
def ordSwapAt {β : Type} (l : List β) (i j : Nat) : R (List β) :=
  if h : i < l.length ∧ j < l.length then pure ((l.set i l[j]).set j l[i])
  else throw "index-out-of-range"

/-- the loop of `shuffleCriteria`: `for i := n-1; i > 0; i-- { j := int(gen()*float64(i)); swap(i,j) }` -/
def ordShuffleLoop {β : Type} (l : List β) : Nat → Draws α → R (List β × Draws α)
  | 0, d => pure (l, d)
  | i + 1, d => do
    let (u, d) ← draw d
    let j := ordTruncInt (u * Num.ofNat (i + 1))
    if j < 0 then throw "index-out-of-range"
    let l ← ordSwapAt l (i + 1) j.toNat
    ordShuffleLoop l i d

/-- `shuffleCriteria` -/
def shuffle {β : Type} (l : List β) (d : Draws α) : R (List β × Draws α) :=
  ordShuffleLoop l (l.length - 1) d

/-- the weight transform of `WeakestByProbability…OrderCriteria`: with `m` the smallest importance,
    shift everything so that `m ≥ 1` (`dif = 1 - m` when `m ≤ 1`), then `w̃ = m' / (w + dif)`; the
    total is accumulated in list order -/
def rouletteWeights (sorted : List (WCrit α)) : List (WCrit α) × α :=
  match sorted with
  | [] => ([], Num.zero)
  | s0 :: _ =>
    let md : α × α := if s0.w ≤ Num.one then (Num.one, Num.one - s0.w) else (s0.w, Num.zero)
    let ws := sorted.map fun s => ({ s with w := md.1 / (s.w + md.2) } : WCrit α)
    (ws, ws.foldl (fun t s => t + s.w) Num.zero)

/-- the inner scan: first entry at which the running sum reaches `rw` (`current >= randomWeight`),
    and the list without it -/
def rouletteScan : List (WCrit α) → α → α → Option (WCrit α × List (WCrit α))
  | [], _, _ => none
  | c :: cs, cur, rw =>
    let cur' := cur + c.w
    if Num.ge cur' rw then some (c, cs)
    else (rouletteScan cs cur' rw).map fun p => (p.1, c :: p.2)

/-- the `criterionFind` loop.  `k` = number of result positions still to fill
    (`resultPosition = totalLen - k`); invariant of the code: `sorted.length = k`.
    * `resultPosition == totalLen-1` (`k = 1`): the code pre-assigns `sorted[0].Criterion`; the value
      is always overwritten below, only the index panic on an empty slice is observable;
    * fallback (nothing reached `rw`, possible through float slack in `total`): take
      `sorted[totalLen - resultPosition - 1] = sorted[k-1]` and drop the **last** element. -/
def rouletteLoop : Nat → List (WCrit α) → α → Draws α → R (List (Crit α) × Draws α)
  | 0, _, _, d => pure ([], d)
  | k + 1, sorted, total, d =>
    if k == 0 && sorted.isEmpty then throw "index-out-of-range"
    else do
      let (u, d) ← draw d
      match rouletteScan sorted Num.zero (u * total) with
      | some (c, rest) => do
        let (tl, d) ← rouletteLoop k rest (total - c.w) d
        pure (c.crit :: tl, d)
      | none =>
        match sorted[k]? with
        | none => throw "index-out-of-range"
        | some last => do
          let (tl, d) ← rouletteLoop k sorted.dropLast (total - last.w) d
          pure (last.crit :: tl, d)

/-- `WeakestByProbabilityCriteriaOrderingResolver.OrderCriteria` on the listener's ascending ranking -/
def weakestByProbability (ranked : List (WCrit α)) (d : Draws α) : R (List (Crit α) × Draws α) :=
  let wt := rouletteWeights ranked
  rouletteLoop ranked.length wt.1 wt.2 d

/-- registry of `main.go` (`criteriaOrdering`): Go type of the resolver ↦ its `Identifier()` -/
def resolverIdent (goType : String) : Option String :=
  if goType == "WeakestCriteriaOrderingResolver" then some Facts.orderingWeakest
  else if goType == "StrongestCriteriaOrderingResolver" then some Facts.orderingStrongest
  else if goType == "RandomCriteriaOrderingResolver" then some Facts.orderingRandom
  else if goType == "WeakestByProbabilityCriteriaOrderingResolver" then some Facts.orderingWeakestByProbability
  else if goType == "StrongestByProbabilityCriteriaOrderingResolver" then some Facts.orderingStrongestByProbability
  else none

/-- identifiers of the registered resolvers, in registry order (first = default) -/
def availableOrderings : List String := Facts.wiringOrderings.filterMap resolverIdent

/-- `FetchOrderingResolver`: empty name = first resolver, unknown name panics -/
def resolveOrdering (name : String) : R String :=
  if name.isEmpty then
    match availableOrderings with
    | [] => throw "no-ordering-resolvers"
    | x :: _ => pure x
  else if availableOrderings.contains name then pure name
  else throw s!"ordering-resolver-not-found:{name}"

/-- `resolver.OrderCriteria(current, props, listener)`.  `eps` is the Choquet tie tolerance of the
    listener, `d` the stream of `RandomBasedSeedValueGenerator(randomSeed)`. -/
def orderCriteria (eps : α) (name : String) (dmp : DMP α) (d : Draws α) : R (List (Crit α)) := do
  let o ← resolveOrdering name
  if o == Facts.orderingWeakest then
    pure ((← rankAsc eps dmp).map (·.crit))
  else if o == Facts.orderingStrongest then
    pure ((← rankAsc eps dmp).map (·.crit)).reverse
  else if o == Facts.orderingRandom then
    pure (← shuffle dmp.crit d).1
  else if o == Facts.orderingWeakestByProbability then
    pure (← weakestByProbability (← rankAsc eps dmp) d).1
  else if o == Facts.orderingStrongestByProbability then
    pure (← weakestByProbability (← rankAsc eps dmp) d).1.reverse
  else throw "ordering-not-modelled"

end Rdm
