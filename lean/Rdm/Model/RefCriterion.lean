/-
  Model of lib/model/reference-criterion/*.go:
    reference-criterion.go                 (ForParams, fetchFactoryTypeFromParams, factory, FindCriterionInRange)
    importance-reference-criterion.go      (ImportanceRatioReferenceCriterionProvider.Provide)
    random-uniform-reference-criterion.go  (RandomUniformReferenceCriterionProvider.Provide)
    random-weighted-reference-criterion.go (RandomWeightedReferenceCriterionProvider.Provide)
  and of the flat part of a JSON-decoded `props` object (`Props`): the keys a bias reads through
  `mapstructure` with their zero-value / declared defaults.
-/
import Rdm.Model.Listener
import Rdm.Generated.Facts
namespace Rdm
variable {α : Type} [Num α]

/-! ### flat view of a JSON-decoded `map[string]interface{}`

Only scalar entries are kept (numbers, strings, booleans), keyed by the documented camel-case key.
A missing key leaves the zero value / the default the Go code put into the struct before
`mapstructure.Decode`.  (mapstructure's case-insensitive key matching and its type-mismatch errors are
not modelled; the harness only produces the documented keys with the documented JSON types.) -/
structure Props (α : Type) where
  nums : KMap α := []
  strs : KMap String := []
  bools : KMap Bool := []

def Props.num (p : Props α) (k : String) (dflt : α) : α := (p.nums.get? k).getD dflt
def Props.str (p : Props α) (k : String) (dflt : String) : String := (p.strs.get? k).getD dflt
def Props.bool (p : Props α) (k : String) (dflt : Bool) : Bool := (p.bools.get? k).getD dflt

/-- Go's `int(x)` for a float: truncation toward zero -/
def truncInt (x : α) : Int := if x < Num.zero then -(Num.floorInt (-x)) else Num.floorInt x

/-! ### FindCriterionInRange -/

/-- the loop of `FindCriterionInRange`: first criterion whose running total reaches `expected` -/
def findInRangeGo (expected : α) : List (WCrit α) → α → Option (Crit α)
  | [], _ => none
  | c :: rest, cur =>
    let cur := cur + c.w
    if expected ≤ cur then some c.crit else findInRangeGo expected rest cur

/-- `FindCriterionInRange`: falls back to the last criterion; index panic on an empty list -/
def findCriterionInRange (ranked : List (WCrit α)) (expected : α) : R (Crit α) :=
  match findInRangeGo expected ranked Num.zero with
  | some c => pure c
  | none =>
    match ranked.getLast? with
    | some c => pure c.crit
    | none => throw "index-out-of-range"

/-! ### the three providers -/

inductive RefKind where
  | importanceRatio | randomUniform | randomWeighted
  deriving DecidableEq, Repr

/-- identifier of a factory type of `main.go`'s `referenceCriterionManager` (wiring fact → name fact) -/
def refFactoryId (goType : String) : String :=
  if goType == "ImportanceRatioReferenceCriterionManager" then Facts.refImportanceRatio
  else if goType == "RandomUniformReferenceCriterionManager" then Facts.refRandomUniform
  else if goType == "RandomWeightedReferenceCriterionManager" then Facts.refRandomWeighted
  else goType

/-- identifiers of the registered factories, in registration order -/
def refFactoryIds : List String := Facts.wiringRefCriterionFactories.map refFactoryId

def refKindOf (name : String) : Option RefKind :=
  if name == Facts.refImportanceRatio then some .importanceRatio
  else if name == Facts.refRandomUniform then some .randomUniform
  else if name == Facts.refRandomWeighted then some .randomWeighted
  else none

/-- `ForParams`: the `referenceCriterionType` key, the first registered factory when absent/empty;
    panics without factories and for an unregistered name -/
def refForParams (p : Props α) : R RefKind :=
  match refFactoryIds with
  | [] => throw "no-reference-criterion-factory"
  | first :: _ =>
    let t := p.str "referenceCriterionType" ""
    let t := if t.isEmpty then first else t
    if refFactoryIds.contains t then
      match refKindOf t with
      | some k => pure k
      | none => throw s!"unknown-reference-type:{t}"
    else throw s!"unknown-reference-type:{t}"

/-- total of the weights in list order, from 0 -/
def totalWeight (ranked : List (WCrit α)) : α := ranked.foldl (fun t c => t + c.w) Num.zero

/-- the smallest weight (`minVal` starts at `math.MaxFloat64`; for finite weights this is the plain
    minimum, taken with the code's strict `<`) -/
def minWeight (w0 : α) (rest : List (WCrit α)) : α := rest.foldl (fun m c => if c.w < m then c.w else m) w0

/-- `Provide` of the three providers; `refDraws` is the stream of `generator(newCriterionRandomSeed)` -/
def refProvide (k : RefKind) (p : Props α) (ranked : List (WCrit α)) (refDraws : Draws α) : R (Crit α) :=
  match k with
  | .importanceRatio =>
    let expected := p.num "newCriterionImportance" Num.zero * totalWeight ranked
    findCriterionInRange ranked expected
  | .randomUniform => do
    let (u, _) ← draw refDraws
    let idx := Num.floorInt (u * Num.ofNat ranked.length)
    if idx < 0 then throw "index-out-of-range"
    else
      match ranked[idx.toNat]? with
      | some c => pure c.crit
      | none => throw "index-out-of-range"
  | .randomWeighted => do
    match ranked with
    | [] =>
      let (_, _) ← draw refDraws
      throw "index-out-of-range"
    | c0 :: rest =>
      let mn := minWeight c0.w rest
      let mapped := ranked.map fun c => (⟨c.crit, mn / c.w⟩ : WCrit α)
      let total := totalWeight mapped
      let (u, _) ← draw refDraws
      findCriterionInRange mapped (u * total)

/-- `ForParams(props).Provide(ranked)` -/
def refCriterion (p : Props α) (ranked : List (WCrit α)) (refDraws : Draws α) : R (Crit α) := do
  refProvide (← refForParams p) p ranked refDraws

end Rdm
