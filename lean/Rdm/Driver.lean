/-
  Line-protocol driver: one S-expression `(op arg ...)` per input line, one answer per line:
  `ok <sexp>` or `err <message>`.  Core only.
-/
import Rdm.Ops.All
namespace Rdm
open Rdm.Ops

def runLine (line : String) : String :=
  match SExp.parse line with
  | .error e => "err parse:" ++ e
  | .ok (.list (.atom op :: args)) =>
    match allOps.lookup op with
    | none => "err unknown-op:" ++ op
    | some f =>
      match f args with
      | .ok r => "ok " ++ toString r
      | .error e => "err " ++ e
  | .ok _ => "err expected (op args...)"

partial def loop (hin : IO.FS.Stream) (hout : IO.FS.Stream) : IO Unit := do
  let line ← hin.getLine
  if line.isEmpty then return ()
  let t := line.trimAscii.toString
  if t.isEmpty then loop hin hout else
  hout.putStrLn (runLine t)
  loop hin hout

end Rdm

def main : IO Unit := do
  let hin ← IO.getStdin
  let hout ← IO.getStdout
  Rdm.loop hin hout
  hout.flush
