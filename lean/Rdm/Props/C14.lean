/-
  C14 — generated aspiration levels follow the documented series and end.
  Property theorems only (helper lemmas: Rdm/Lemmas/HeurLevels.lean).  Arithmetic over `Rat`.

  Model: Rdm/Model/Levels.lean (`coefValid`, `coefInitial`, `coefHasNext`, `coefUpdate`, `coefSeries`
  with fuel `coefFuel`, `thresholdFor`, `coefLevels`, `explicitLevels`, `findSource`, `levelsOf`);
  spec evaluated on the implementation's output: Rdm/Spec/C14.lean.
-/
import Rdm.Model.Levels
import Rdm.Model.Heuristics
import Rdm.Spec.C14
import Rdm.Lemmas.NumRat
import Rdm.Lemmas.HeurLevels
import Rdm.Lemmas.HeurLevelsSpec
import Mathlib.Tactic.Linarith
import Mathlib.Tactic.Tauto
import Mathlib.Tactic.NormNum
set_option linter.unusedSimpArgs false
namespace Rdm.Props.C14
open Rdm

/-! ### validation -/

/-- `Validate` accepts exactly the documented ranges: coefficient in (0,1); minValue, maxValue in
    [0,1] for the increasing series and in (0,1] for the decreasing ones -/
theorem validation_accepts_exactly_documented_ranges (k : CoefKind) (c mx mn : Rat) :
    coefValid k c mx mn = true ↔
      (0 < c ∧ c < 1 ∧ (if k.inc = true then 0 ≤ mn ∧ mn ≤ 1 ∧ 0 ≤ mx ∧ mx ≤ 1
                        else 0 < mn ∧ mn ≤ 1 ∧ 0 < mx ∧ mx ≤ 1)) := by
  unfold coefValid
  simp only [Num.zero_rat, Num.one_rat]
  by_cases hk : k.inc = true <;> simp [hk] <;> constructor <;> intro h
  all_goals (refine ⟨?_, ?_, ?_⟩ <;> tauto)

/-- the validity predicate of the spec (property text) is the model's `Validate` -/
theorem spec_valid_eq_model_valid (k : CoefKind) (c mx mn : Rat) :
    Spec.C14.valid k.inc c mx mn = coefValid k c mx mn := by
  rw [Bool.eq_iff_iff, validation_accepts_exactly_documented_ranges]
  unfold Spec.C14.valid
  by_cases hk : k.inc = true <;> simp [hk] <;> tauto

/-- out-of-range parameters are rejected: no level is handed out -/
theorem invalid_parameters_rejected (k : CoefKind) (d : DMP Rat) (c mx mn : Rat)
    (h : coefValid k c mx mn = false) : ∃ e, coefLevels k d c mx mn = Except.error e := by
  unfold coefLevels coefValidate
  simp [h]

/-- … and documented parameters are accepted (given that every alternative has every value):
    the levels are the documented ratios mapped through the threshold formula -/
theorem valid_parameters_accepted (k : CoefKind) (d : DMP Rat) (c mx mn : Rat)
    (h : coefValid k c mx mn = true) (ranges : List (Crit Rat × (Rat × Rat)))
    (hr : criteriaRanges d = Except.ok ranges) :
    ∃ rs, coefSeries k c mx mn (coefFuel k c mx mn) (coefInitial k mx mn) = Except.ok rs ∧
      coefLevels k d c mx mn = Except.ok (rs.map (levelAt ranges)) := by
  obtain ⟨rs, hs⟩ := coefSeries_fuel_ok k c mx mn h
  refine ⟨rs, hs, ?_⟩
  unfold coefLevels coefValidate
  simp [h, hr, hs]

/-- the spec's verdict on a refusal: fine iff the parameters are outside the documented ranges -/
theorem spec_on_refusal (k : CoefKind) (c mx mn : Rat) (crits : List (Crit Rat)) (all : List (Alt Rat)) :
    Spec.C14.check k c mx mn crits all none = !coefValid k c mx mn := by
  unfold Spec.C14.check Spec.C14.explain
  rw [spec_valid_eq_model_valid]
  cases coefValid k c mx mn <;> simp

/-! ### the series -/

/-- start value and recurrence: a successful run of the model is exactly the documented series
    `r₀ = initial`, `r ↦ next r` while `continues r` (as re-stated in Spec/C14.lean) -/
theorem series_follows_documented_recurrence (k : CoefKind) (c mx mn : Rat) (n : Nat) (rs : List Rat)
    (h : coefSeries k c mx mn n (coefInitial k mx mn) = Except.ok rs) :
    Spec.C14.ideal k c mx mn (rs.length + 1) (if k.inc then mn else mx) = rs := by
  have := coefSeries_eq_ideal h (rs.length + 1) (Nat.lt_succ_self _)
  simpa [coefInitial] using this

/-- increasing series (aspect elimination): strictly increasing ratios, all in `[minValue, maxValue)` -/
theorem increasing_series_strictly_monotone (k : CoefKind) (hk : k.inc = true) (c mx mn : Rat)
    (hv : coefValid k c mx mn = true) (n : Nat) (rs : List Rat)
    (h : coefSeries k c mx mn n (coefInitial k mx mn) = Except.ok rs) :
    rs.Pairwise (· < ·) ∧ ∀ r ∈ rs, mn ≤ r ∧ r < mx := by
  have hv' := (validation_accepts_exactly_documented_ranges k c mx mn).mp hv
  simp [hk] at hv'
  obtain ⟨hc, _, hmn0, _, _, hmx1⟩ := hv'
  have := coefSeries_inc_sorted hk hc hmx1 (cur := coefInitial k mx mn) (by simpa [coefInitial, hk] using hmn0) h
  simpa [coefInitial, hk] using this

/-- decreasing series (satisfaction): strictly decreasing ratios, all in `(minValue, maxValue]` -/
theorem decreasing_series_strictly_monotone (k : CoefKind) (hk : k.inc = false) (c mx mn : Rat)
    (hv : coefValid k c mx mn = true) (n : Nat) (rs : List Rat)
    (h : coefSeries k c mx mn n (coefInitial k mx mn) = Except.ok rs) :
    rs.Pairwise (· > ·) ∧ ∀ r ∈ rs, r ≤ mx ∧ mn < r := by
  have hv' := (validation_accepts_exactly_documented_ranges k c mx mn).mp hv
  simp [hk] at hv'
  obtain ⟨hc, hc1, hmn0, _, _, _⟩ := hv'
  have := coefSeries_dec_sorted hk hc hc1 hmn0 h
  simpa [coefInitial, hk] using this

/-- **termination / fuel sufficiency**: for every validated parameter set the series ends within
    `coefFuel` steps — `⌊1/c⌋ + 2` for the additive, subtractive and multiplied-increasing rules,
    `⌊max/(min·(1−c))⌋ + 2` for the multiplied-decreasing rule -/
theorem fuel_suffices (k : CoefKind) (c mx mn : Rat) (hv : coefValid k c mx mn = true) :
    ∃ rs, coefSeries k c mx mn (coefFuel k c mx mn) (coefInitial k mx mn) = Except.ok rs ∧
      rs.length ≤ coefFuel k c mx mn := by
  obtain ⟨rs, h⟩ := coefSeries_fuel_ok k c mx mn hv
  exact ⟨rs, h, coefSeries_length_le h⟩

/-- the length bound in the documented form -/
theorem series_length_bound (k : CoefKind) (hk : k ≠ .decMul) (c mx mn : Rat) (hv : coefValid k c mx mn = true) :
    ∃ rs, coefSeries k c mx mn (coefFuel k c mx mn) (coefInitial k mx mn) = Except.ok rs ∧
      (rs.length : Int) ≤ (1 / c : Rat).floor + 2 := by
  obtain ⟨rs, h, hl⟩ := fuel_suffices k c mx mn hv
  refine ⟨rs, h, ?_⟩
  have hc : 0 < c := ((validation_accepts_exactly_documented_ranges k c mx mn).mp hv).1
  have h0 : 0 ≤ (1 / c : Rat).floor := Rat.le_floor_iff.mpr (by simp; positivity)
  have : coefFuel k c mx mn = (1 / c : Rat).floor.toNat + 2 := by
    cases k <;> simp_all [coefFuel]
  rw [this] at hl
  have h2 : (((1 / c : Rat).floor.toNat : Nat) : Int) = (1 / c : Rat).floor := Int.toNat_of_nonneg h0
  omega

/-- more fuel never changes the result -/
theorem series_independent_of_extra_fuel (k : CoefKind) (c mx mn : Rat) (n m : Nat) (cur : Rat) (rs rs' : List Rat)
    (h : coefSeries k c mx mn n cur = Except.ok rs) (h' : coefSeries k c mx mn m cur = Except.ok rs') :
    rs = rs' := by
  have a := coefSeries_eq_ideal h (rs.length + rs'.length + 1) (by omega)
  have b := coefSeries_eq_ideal h' (rs.length + rs'.length + 1) (by omega)
  exact a.symm.trans b

/-- first level when `min ≥ max`: the increasing series is empty -/
theorem increasing_series_empty_when_min_ge_max (k : CoefKind) (hk : k.inc = true) (c mx mn : Rat)
    (h : mx ≤ mn) (n : Nat) : coefSeries k c mx mn n (coefInitial k mx mn) = Except.ok [] := by
  have hn : coefHasNext k mx mn (coefInitial k mx mn) = false := by
    rw [coefHasNext_rat]; simp [hk, coefInitial]; exact h
  cases n <;> simp [coefSeries_zero, coefSeries_succ, hn]

/-- … and so is the decreasing one when `max ≤ min` -/
theorem decreasing_series_empty_when_max_le_min (k : CoefKind) (hk : k.inc = false) (c mx mn : Rat)
    (h : mx ≤ mn) (n : Nat) : coefSeries k c mx mn n (coefInitial k mx mn) = Except.ok [] := by
  have hn : coefHasNext k mx mn (coefInitial k mx mn) = false := by
    rw [coefHasNext_rat]; simp [hk, coefInitial]; exact h
  cases n <;> simp [coefSeries_zero, coefSeries_succ, hn]

/-- closed forms of the README for the ratios actually handed out:
    `(1+min)(1+c)ⁱ − 1`, `min + i·c`, `max·cⁱ`, `max − i·c` (the clamps are never active on them) -/
theorem series_closed_form (k : CoefKind) (c mx mn : Rat) (hv : coefValid k c mx mn = true) (n : Nat)
    (rs : List Rat) (h : coefSeries k c mx mn n (coefInitial k mx mn) = Except.ok rs)
    (i : Nat) (hi : i < rs.length) :
    rs[i] = closedForm k c (coefInitial k mx mn) i := by
  have hv' := (validation_accepts_exactly_documented_ranges k c mx mn).mp hv
  apply coefSeries_closed_form _ _ h i hi
  · intro hk; simp [hk] at hv'; exact hv'.2.2.2.2.2
  · intro hk; simp [hk] at hv'; exact hv'.2.2.1.le

/-- the series passes the series-level clauses of the spec checker: the ideal series of the spec is
    strictly monotone and has exactly as many elements as levels are handed out -/
theorem model_series_passes_spec_clauses (k : CoefKind) (c mx mn : Rat) (hv : coefValid k c mx mn = true)
    (n : Nat) (rs : List Rat) (h : coefSeries k c mx mn n (coefInitial k mx mn) = Except.ok rs) :
    let ideal := Spec.C14.ideal k c mx mn (rs.length + 1) (if k.inc then mn else mx)
    Spec.C14.strictMono k.inc ideal = true ∧ ideal.length = rs.length := by
  intro ideal
  have hi : ideal = rs := series_follows_documented_recurrence k c mx mn n rs h
  rw [hi]
  refine ⟨?_, rfl⟩
  have key : ∀ (inc : Bool) (l : List Rat), (if inc then l.Pairwise (· < ·) else l.Pairwise (· > ·)) →
      Spec.C14.strictMono inc l = true := by
    intro inc l
    induction l with
    | nil => intro _; simp [Spec.C14.strictMono]
    | cons a t ih =>
      intro hp
      cases t with
      | nil => simp [Spec.C14.strictMono]
      | cons b t' =>
        cases inc
        · simp only [Bool.false_eq_true, if_false] at hp ih
          have hab : b < a := (List.pairwise_cons.mp hp).1 b (by simp)
          simp [Spec.C14.strictMono, hab, ih (List.pairwise_cons.mp hp).2]
        · simp only [if_true] at hp ih
          have hab : a < b := (List.pairwise_cons.mp hp).1 b (by simp)
          simp [Spec.C14.strictMono, hab, ih (List.pairwise_cons.mp hp).2]
  apply key
  by_cases hk : k.inc = true
  · simp [hk]; exact (increasing_series_strictly_monotone k hk c mx mn hv n rs h).1
  · have hk' : k.inc = false := by simpa using hk
    simp [hk']; exact (decreasing_series_strictly_monotone k hk' c mx mn hv n rs h).1

/-! ### the model's levels pass the checker that is evaluated on the implementation's output -/

/-- **`Spec.C14.check (model output) = true`**: for every validated parameter set, every set of
    criteria with pairwise different ids and ranges with `min ≤ max`, the list of levels the model
    generates passes every clause of the checker the driver runs on Go's levels (count, strict
    monotonicity of the ratios, threshold formula, direction of movement) -/
theorem model_levels_pass_spec (k : CoefKind) (d : DMP Rat) (c mx mn : Rat) (lv : List (KMap Rat))
    (h : coefLevels k d c mx mn = Except.ok lv) (hnd : (d.crit.map (·.id)).Nodup)
    (hrg : ∀ cr ∈ d.crit, ∀ rg, valuesRange d.all cr = Except.ok rg → rg.1 ≤ rg.2) :
    Spec.C14.check k c mx mn d.crit d.all (some lv) = true := by
  -- unpack the model run
  have hv : coefValid k c mx mn = true := by
    by_contra hv
    obtain ⟨e, he⟩ := invalid_parameters_rejected k d c mx mn (by simpa using hv)
    rw [he] at h; simp at h
  unfold coefLevels coefValidate at h
  simp only [hv, if_true] at h
  obtain ⟨_, _, h⟩ := R.bind_eq_ok h
  obtain ⟨ranges, hr, h⟩ := R.bind_eq_ok h
  obtain ⟨rs, hs, h⟩ := R.bind_eq_ok h
  simp at h; subst h
  obtain ⟨hranges, hkeys⟩ := criteriaRanges_eq d.crit d.all ranges hr
  have hndr : (ranges.map (·.1.id)).Nodup := by
    have : ranges.map (·.1.id) = d.crit.map (·.id) := by rw [← hkeys]; simp
    rw [this]; exact hnd
  have hwidth : ∀ p ∈ ranges, p.2.1 ≤ p.2.2 := by
    -- every pair of `ranges` is (criterion, its range)
    have : ∀ (crits : List (Crit Rat)) (rgs : List (Crit Rat × (Rat × Rat))),
        crits.mapM (fun cr => do pure (cr, ← valuesRange d.all cr)) = Except.ok rgs →
        ∀ p ∈ rgs, p.1 ∈ crits ∧ valuesRange d.all p.1 = Except.ok p.2 := by
      intro crits
      induction crits with
      | nil => intro rgs hh p hp; simp at hh; subst hh; simp at hp
      | cons x xs ih =>
        intro rgs hh p hp
        rw [List.mapM_cons] at hh
        obtain ⟨q, hq, hh⟩ := R.bind_eq_ok hh
        obtain ⟨qs, hqs, hh⟩ := R.bind_eq_ok hh
        obtain ⟨rg, hrg', hq⟩ := R.bind_eq_ok hq
        simp at hh hq; subst hh; subst hq
        rcases List.mem_cons.mp hp with rfl | hp
        · exact ⟨by simp, hrg'⟩
        · obtain ⟨i1, i2⟩ := ih qs hqs p hp
          exact ⟨by simp [i1], i2⟩
    intro p hp
    obtain ⟨i1, i2⟩ := this d.crit ranges hr p hp
    exact hrg p.1 i1 p.2 i2
  -- the series
  have hideal := series_follows_documented_recurrence k c mx mn _ rs hs
  obtain ⟨hmono, _⟩ := model_series_passes_spec_clauses k c mx mn hv _ rs hs
  have hpw : (if k.inc then rs.Pairwise (· < ·) else rs.Pairwise (· > ·)) := by
    by_cases hk : k.inc = true
    · simp [hk]; exact (increasing_series_strictly_monotone k hk c mx mn hv _ rs hs).1
    · have hk' : k.inc = false := by simpa using hk
      simp [hk']; exact (decreasing_series_strictly_monotone k hk' c mx mn hv _ rs hs).1
  have hempty : mx ≤ mn → rs = [] := by
    intro hle
    by_cases hk : k.inc = true
    · have := increasing_series_empty_when_min_ge_max k hk c mx mn hle (coefFuel k c mx mn)
      rw [this] at hs; simpa using hs.symm
    · have hk' : k.inc = false := by simpa using hk
      have := decreasing_series_empty_when_max_le_min k hk' c mx mn hle (coefFuel k c mx mn)
      rw [this] at hs; simpa using hs.symm
  -- clause by clause
  unfold Spec.C14.check Spec.C14.explain
  simp only [spec_valid_eq_model_valid, hv, Bool.not_true, Bool.false_eq_true, if_false, List.length_map]
  rw [hideal] at hmono ⊢
  simp only [hmono, Bool.not_true, Bool.false_eq_true, if_false, ne_eq, not_true_eq_false, if_true]
  have hcl : ((if k.inc = true then decide (mx ≤ mn) else decide (mx ≤ mn)) && !(rs.map (levelAt ranges)).isEmpty) = false := by
    by_cases hle : mx ≤ mn
    · simp [hempty hle]
    · simp [hle]
  simp only [hcl, Bool.false_eq_true, if_false, hranges]
  have h1 := levelOk_all ranges hndr rs
  simp only [h1, Bool.not_true, Bool.false_eq_true, if_false]
  have h2 := movesOk_levelAt k.inc ranges hndr hwidth rs hpw
  simp [h2]

/-! ### thresholds -/

/-- a level places every criterion at `min + r·range` (gain) / `max − r·range` (cost) -/
theorem threshold_formula (cr : Crit Rat) (lo hi r : Rat) :
    thresholdFor cr (lo, hi) r = if cr.type = "cost" then hi - r * (hi - lo) else lo + r * (hi - lo) := by
  unfold thresholdFor Crit.isCost
  by_cases h : cr.type = "cost" <;> simp [h] <;> ring

/-- the model's threshold is the spec's `want` -/
theorem threshold_eq_spec_want (cr : Crit Rat) (rg : Rat × Rat) (r : Rat) :
    thresholdFor cr rg r = Spec.C14.want cr rg r := by
  obtain ⟨lo, hi⟩ := rg
  rw [threshold_formula]
  unfold Spec.C14.want
  by_cases h : cr.type = "cost" <;> simp [h]

/-- r = 0 is the worst end of the range, r = 1 the best one -/
theorem threshold_at_ends (cr : Crit Rat) (lo hi : Rat) :
    thresholdFor cr (lo, hi) 0 = (if cr.type = "cost" then hi else lo) ∧
    thresholdFor cr (lo, hi) 1 = (if cr.type = "cost" then lo else hi) := by
  rw [threshold_formula, threshold_formula]
  by_cases h : cr.type = "cost" <;> simp [h]

/-- a degenerate range (`min = max`) yields that value at every level -/
theorem threshold_degenerate_range (cr : Crit Rat) (v r : Rat) : thresholdFor cr (v, v) r = v := by
  rw [threshold_formula]; by_cases h : cr.type = "cost" <;> simp [h]

/-- the declared `valuesRange` wins over the observed one -/
theorem declared_range_preferred (alts : List (Alt Rat)) (cr : Crit Rat) (rg : Rat × Rat)
    (h : cr.range = some rg) : valuesRange alts cr = Except.ok rg := by
  unfold valuesRange; simp [h]

/-- … otherwise the range is the minimum and maximum of the criterion's values over ALL alternatives
    handed in (`Initialize` hands in `dmp.AllAlternatives()`): it bounds every value, both ends are attained -/
theorem observed_range_is_min_max (alts : List (Alt Rat)) (cr : Crit Rat) (hnone : cr.range = none) (lo hi : Rat)
    (hne : alts ≠ []) (h : valuesRange alts cr = Except.ok (lo, hi)) :
    ∃ vs, alts.mapM (·.raw cr) = Except.ok vs ∧ (∀ v ∈ vs, lo ≤ v ∧ v ≤ hi) ∧ lo ∈ vs ∧ hi ∈ vs :=
  valuesRange_observed alts cr hnone lo hi hne h

/-- every level of a generated series lists exactly the criteria of the state, in order -/
theorem level_keys (ranges : List (Crit Rat × (Rat × Rat))) (r : Rat) :
    (levelAt ranges r).map (·.1) = ranges.map (·.1.id) := by
  unfold levelAt; simp

/-! ### explicit thresholds -/

/-- `ThresholdSatisfactionLevels.Initialize` accepts the list iff every level has every criterion, and
    then hands the levels out unchanged -/
theorem explicit_levels_validated (d : DMP Rat) (ts : List (KMap Rat)) :
    (explicitLevels d ts = Except.ok ts ↔ ∀ t ∈ ts, ∀ cr ∈ d.crit, t.has cr.id = true) ∧
    (∀ lv, explicitLevels d ts = Except.ok lv → lv = ts) := by
  unfold explicitLevels
  by_cases h : (ts.all fun t => d.crit.all fun c => t.has c.id) = true
  · simp only [h, if_true]
    refine ⟨⟨fun _ => by simpa using h, fun _ => rfl⟩, fun lv hl => ?_⟩
    simpa using hl.symm
  · simp only [h]
    refine ⟨⟨fun hh => by simp at hh, fun hh => absurd (by simpa using hh) h⟩, fun lv hl => by simp at hl⟩

/-! ### wiring facts (regenerated from main.go on every run) -/

/-- main.go hands the increasing sources to aspect elimination and the decreasing ones to satisfaction -/
theorem wiring_aspect_gets_increasing : Facts.wiringAspectArgs.head? = some "increasingSatisfactionLevels" := by decide
theorem wiring_satisfaction_gets_decreasing : Facts.wiringSatisfactionArgs.head? = some "decreasingSatisfactionLevels" := by decide

/-- every registered source is known to the model, in the order main.go lists them -/
theorem wiring_increasing_sources : sourcesOf Facts.wiringIncreasingLevels = [.coef .incMul, .coef .incAdd, .thresholds true] := by decide
theorem wiring_decreasing_sources : sourcesOf Facts.wiringDecreasingLevels = [.coef .decMul, .coef .decSub, .thresholds false] := by decide

/-- the sources aspect elimination can find generate increasing series only; satisfaction's decreasing only -/
theorem aspect_sources_increasing : aspectSources.all (·.increasing) = true := by decide
theorem satisfaction_sources_decreasing : satisfactionSources.all (fun s => !s.increasing) = true := by decide

/-- identifiers are unambiguous within each registry (`Find` returns the first match) -/
theorem source_names_distinct :
    (aspectSources.map (·.name)).Nodup ∧ (satisfactionSources.map (·.name)).Nodup := by decide

/-- the function names of the property text -/
theorem source_names :
    aspectSources.map (·.name) = ["idealMultipliedCoefficient", "idealAdditiveCoefficient", "thresholds"] ∧
    satisfactionSources.map (·.name) = ["idealMultipliedCoefficient", "idealSubtractiveCoefficient", "thresholds"] := by decide

/-! ### satisfiable hypotheses -/

example : coefValid .incAdd (1/4 : Rat) 1 0 = true :=
  (validation_accepts_exactly_documented_ranges _ _ _ _).mpr (by norm_num [CoefKind.inc])
example : coefValid .decMul (1/2 : Rat) 1 (1/8) = true :=
  (validation_accepts_exactly_documented_ranges _ _ _ _).mpr (by norm_num [CoefKind.inc])
example : coefValid .decSub (1/2 : Rat) 1 0 = false := by
  rw [Bool.eq_false_iff, ne_eq, validation_accepts_exactly_documented_ranges]; norm_num [CoefKind.inc]
example : ∃ rs, coefSeries .incMul (1/4 : Rat) 1 0 (coefFuel .incMul (1/4 : Rat) 1 0) 0 = Except.ok rs ∧ rs.length ≤ 6 := by
  obtain ⟨rs, h, hl⟩ := fuel_suffices .incMul (1/4) 1 0
    ((validation_accepts_exactly_documented_ranges _ _ _ _).mpr (by norm_num [CoefKind.inc]))
  refine ⟨rs, h, ?_⟩
  have : coefFuel .incMul (1/4 : Rat) 1 0 = 6 := by
    simp only [coefFuel, Num.one_rat, Num.floorInt_rat]
    norm_num [Rat.floor_def]
    rfl
  omega

/-- the constants and names this property depends on were re-read from the working tree on this run
    (none fell back to its pinned value because its declaration could not be located) -/
theorem facts_fresh : (Rdm.Facts.staleFacts.all fun n => !["levelsThresholds", "levelsIncreasingMul", "levelsAdditive", "levelsDecreasingMul", "levelsSubtractive", "wiringIncreasingLevels", "wiringDecreasingLevels", "wiringAspectArgs", "wiringSatisfactionArgs"].contains n) = true := by decide

end Rdm.Props.C14
