/-
  C14 — generated aspiration levels follow the documented series and end.
  Property theorems only (helper lemmas: Rdm/Lemmas/HeurLevels.lean).  Arithmetic over `Rat`.

  Model: Rdm/Model/Levels.lean (`coefValid`, `coefInitial`, `coefHasNext`, `coefUpdate`, `coefSeries`
  with fuel `coefFuel`, `thresholdFor`, `coefLevels`, `explicitLevels`, `findSource`, `levelsOf`);
  spec evaluated on the implementation's output: Rdm/Spec/C14.lean.
-/
import Rdm.Model.Levels
import Rdm.Model.Heuristics
import Rdm.Spec.C14
import Rdm.Lemmas.NumRat
import Rdm.Lemmas.HeurLevels
import Rdm.Lemmas.HeurLevelsSpec
import Mathlib.Tactic.Linarith
import Mathlib.Tactic.Tauto
import Mathlib.Tactic.NormNum
import Rdm.Lemmas.E2EMethods
import Rdm.Lemmas.E2EMethodsLevels
import Rdm.Lemmas.E2EMethodsExamples
set_option linter.unusedSimpArgs false
namespace Rdm.Props.C14
open Rdm

/-! ### validation -/

/-- `Validate` accepts exactly the documented ranges: coefficient in (0,1); minValue, maxValue in
    [0,1] for the increasing series and in (0,1] for the decreasing ones -/
theorem validation_accepts_exactly_documented_ranges (k : CoefKind) (c mx mn : Rat) :
    coefValid k c mx mn = true ↔
      (0 < c ∧ c < 1 ∧ (if k.inc = true then 0 ≤ mn ∧ mn ≤ 1 ∧ 0 ≤ mx ∧ mx ≤ 1
                        else 0 < mn ∧ mn ≤ 1 ∧ 0 < mx ∧ mx ≤ 1)) := by
  unfold coefValid
  simp only [Num.zero_rat, Num.one_rat]
  by_cases hk : k.inc = true <;> simp [hk] <;> constructor <;> intro h
  all_goals (refine ⟨?_, ?_, ?_⟩ <;> tauto)

/-- the validity predicate of the spec (property text) is the model's `Validate` -/
theorem spec_valid_eq_model_valid (k : CoefKind) (c mx mn : Rat) :
    Spec.C14.valid k.inc c mx mn = coefValid k c mx mn := by
  rw [Bool.eq_iff_iff, validation_accepts_exactly_documented_ranges]
  unfold Spec.C14.valid
  by_cases hk : k.inc = true <;> simp [hk] <;> tauto

/-- out-of-range parameters are rejected: no level is handed out -/
theorem invalid_parameters_rejected (k : CoefKind) (d : DMP Rat) (c mx mn : Rat)
    (h : coefValid k c mx mn = false) : ∃ e, coefLevels k d c mx mn = Except.error e := by
  unfold coefLevels coefValidate
  simp [h]

/-- … and documented parameters are accepted (given that every alternative has every value):
    the levels are the documented ratios mapped through the threshold formula -/
theorem valid_parameters_accepted (k : CoefKind) (d : DMP Rat) (c mx mn : Rat)
    (h : coefValid k c mx mn = true) (ranges : List (Crit Rat × (Rat × Rat)))
    (hr : criteriaRanges d = Except.ok ranges) :
    ∃ rs, coefSeries k c mx mn (coefFuel k c mx mn) (coefInitial k mx mn) = Except.ok rs ∧
      coefLevels k d c mx mn = Except.ok (rs.map (levelAt ranges)) := by
  obtain ⟨rs, hs⟩ := coefSeries_fuel_ok k c mx mn h
  refine ⟨rs, hs, ?_⟩
  unfold coefLevels coefValidate
  simp [h, hr, hs]

/-- the spec's verdict on a refusal: fine iff the parameters are outside the documented ranges -/
theorem spec_on_refusal (k : CoefKind) (c mx mn : Rat) (crits : List (Crit Rat)) (all : List (Alt Rat)) :
    Spec.C14.check k c mx mn crits all none = !coefValid k c mx mn := by
  unfold Spec.C14.check Spec.C14.explain
  rw [spec_valid_eq_model_valid]
  cases coefValid k c mx mn <;> simp

/-! ### the series -/

/-- start value and recurrence: a successful run of the model is exactly the documented series
    `r₀ = initial`, `r ↦ next r` while `continues r` (as re-stated in Spec/C14.lean) -/
theorem series_follows_documented_recurrence (k : CoefKind) (c mx mn : Rat) (n : Nat) (rs : List Rat)
    (h : coefSeries k c mx mn n (coefInitial k mx mn) = Except.ok rs) :
    Spec.C14.ideal k c mx mn (rs.length + 1) (if k.inc then mn else mx) = rs := by
  have := coefSeries_eq_ideal h (rs.length + 1) (Nat.lt_succ_self _)
  simpa [coefInitial] using this

/-- increasing series (aspect elimination): strictly increasing ratios, all in `[minValue, maxValue)` -/
theorem increasing_series_strictly_monotone (k : CoefKind) (hk : k.inc = true) (c mx mn : Rat)
    (hv : coefValid k c mx mn = true) (n : Nat) (rs : List Rat)
    (h : coefSeries k c mx mn n (coefInitial k mx mn) = Except.ok rs) :
    rs.Pairwise (· < ·) ∧ ∀ r ∈ rs, mn ≤ r ∧ r < mx := by
  have hv' := (validation_accepts_exactly_documented_ranges k c mx mn).mp hv
  simp [hk] at hv'
  obtain ⟨hc, _, hmn0, _, _, hmx1⟩ := hv'
  have := coefSeries_inc_sorted hk hc hmx1 (cur := coefInitial k mx mn) (by simpa [coefInitial, hk] using hmn0) h
  simpa [coefInitial, hk] using this

/-- decreasing series (satisfaction): strictly decreasing ratios, all in `(minValue, maxValue]` -/
theorem decreasing_series_strictly_monotone (k : CoefKind) (hk : k.inc = false) (c mx mn : Rat)
    (hv : coefValid k c mx mn = true) (n : Nat) (rs : List Rat)
    (h : coefSeries k c mx mn n (coefInitial k mx mn) = Except.ok rs) :
    rs.Pairwise (· > ·) ∧ ∀ r ∈ rs, r ≤ mx ∧ mn < r := by
  have hv' := (validation_accepts_exactly_documented_ranges k c mx mn).mp hv
  simp [hk] at hv'
  obtain ⟨hc, hc1, hmn0, _, _, _⟩ := hv'
  have := coefSeries_dec_sorted hk hc hc1 hmn0 h
  simpa [coefInitial, hk] using this

/-- **termination / fuel sufficiency**: for every validated parameter set the series ends within
    `coefFuel` steps — `⌊1/c⌋ + 2` for the additive, subtractive and multiplied-increasing rules,
    `⌊max/(min·(1−c))⌋ + 2` for the multiplied-decreasing rule -/
theorem fuel_suffices (k : CoefKind) (c mx mn : Rat) (hv : coefValid k c mx mn = true) :
    ∃ rs, coefSeries k c mx mn (coefFuel k c mx mn) (coefInitial k mx mn) = Except.ok rs ∧
      rs.length ≤ coefFuel k c mx mn := by
  obtain ⟨rs, h⟩ := coefSeries_fuel_ok k c mx mn hv
  exact ⟨rs, h, coefSeries_length_le h⟩

/-- the length bound in the documented form -/
theorem series_length_bound (k : CoefKind) (hk : k ≠ .decMul) (c mx mn : Rat) (hv : coefValid k c mx mn = true) :
    ∃ rs, coefSeries k c mx mn (coefFuel k c mx mn) (coefInitial k mx mn) = Except.ok rs ∧
      (rs.length : Int) ≤ (1 / c : Rat).floor + 2 := by
  obtain ⟨rs, h, hl⟩ := fuel_suffices k c mx mn hv
  refine ⟨rs, h, ?_⟩
  have hc : 0 < c := ((validation_accepts_exactly_documented_ranges k c mx mn).mp hv).1
  have h0 : 0 ≤ (1 / c : Rat).floor := Rat.le_floor_iff.mpr (by simp; positivity)
  have : coefFuel k c mx mn = (1 / c : Rat).floor.toNat + 2 := by
    cases k <;> simp_all [coefFuel]
  rw [this] at hl
  have h2 : (((1 / c : Rat).floor.toNat : Nat) : Int) = (1 / c : Rat).floor := Int.toNat_of_nonneg h0
  omega

/-- more fuel never changes the result -/
theorem series_independent_of_extra_fuel (k : CoefKind) (c mx mn : Rat) (n m : Nat) (cur : Rat) (rs rs' : List Rat)
    (h : coefSeries k c mx mn n cur = Except.ok rs) (h' : coefSeries k c mx mn m cur = Except.ok rs') :
    rs = rs' := by
  have a := coefSeries_eq_ideal h (rs.length + rs'.length + 1) (by omega)
  have b := coefSeries_eq_ideal h' (rs.length + rs'.length + 1) (by omega)
  exact a.symm.trans b

/-- first level when `min ≥ max`: the increasing series is empty -/
theorem increasing_series_empty_when_min_ge_max (k : CoefKind) (hk : k.inc = true) (c mx mn : Rat)
    (h : mx ≤ mn) (n : Nat) : coefSeries k c mx mn n (coefInitial k mx mn) = Except.ok [] := by
  have hn : coefHasNext k mx mn (coefInitial k mx mn) = false := by
    rw [coefHasNext_rat]; simp [hk, coefInitial]; exact h
  cases n <;> simp [coefSeries_zero, coefSeries_succ, hn]

/-- … and so is the decreasing one when `max ≤ min` -/
theorem decreasing_series_empty_when_max_le_min (k : CoefKind) (hk : k.inc = false) (c mx mn : Rat)
    (h : mx ≤ mn) (n : Nat) : coefSeries k c mx mn n (coefInitial k mx mn) = Except.ok [] := by
  have hn : coefHasNext k mx mn (coefInitial k mx mn) = false := by
    rw [coefHasNext_rat]; simp [hk, coefInitial]; exact h
  cases n <;> simp [coefSeries_zero, coefSeries_succ, hn]

/-- closed forms of the README for the ratios actually handed out:
    `(1+min)(1+c)ⁱ − 1`, `min + i·c`, `max·cⁱ`, `max − i·c` (the clamps are never active on them) -/
theorem series_closed_form (k : CoefKind) (c mx mn : Rat) (hv : coefValid k c mx mn = true) (n : Nat)
    (rs : List Rat) (h : coefSeries k c mx mn n (coefInitial k mx mn) = Except.ok rs)
    (i : Nat) (hi : i < rs.length) :
    rs[i] = closedForm k c (coefInitial k mx mn) i := by
  have hv' := (validation_accepts_exactly_documented_ranges k c mx mn).mp hv
  apply coefSeries_closed_form _ _ h i hi
  · intro hk; simp [hk] at hv'; exact hv'.2.2.2.2.2
  · intro hk; simp [hk] at hv'; exact hv'.2.2.1.le

/-- the series passes the series-level clauses of the spec checker: the ideal series of the spec is
    strictly monotone and has exactly as many elements as levels are handed out -/
theorem model_series_passes_spec_clauses (k : CoefKind) (c mx mn : Rat) (hv : coefValid k c mx mn = true)
    (n : Nat) (rs : List Rat) (h : coefSeries k c mx mn n (coefInitial k mx mn) = Except.ok rs) :
    let ideal := Spec.C14.ideal k c mx mn (rs.length + 1) (if k.inc then mn else mx)
    Spec.C14.strictMono k.inc ideal = true ∧ ideal.length = rs.length := by
  intro ideal
  have hi : ideal = rs := series_follows_documented_recurrence k c mx mn n rs h
  rw [hi]
  refine ⟨?_, rfl⟩
  have key : ∀ (inc : Bool) (l : List Rat), (if inc then l.Pairwise (· < ·) else l.Pairwise (· > ·)) →
      Spec.C14.strictMono inc l = true := by
    intro inc l
    induction l with
    | nil => intro _; simp [Spec.C14.strictMono]
    | cons a t ih =>
      intro hp
      cases t with
      | nil => simp [Spec.C14.strictMono]
      | cons b t' =>
        cases inc
        · simp only [Bool.false_eq_true, if_false] at hp ih
          have hab : b < a := (List.pairwise_cons.mp hp).1 b (by simp)
          simp [Spec.C14.strictMono, hab, ih (List.pairwise_cons.mp hp).2]
        · simp only [if_true] at hp ih
          have hab : a < b := (List.pairwise_cons.mp hp).1 b (by simp)
          simp [Spec.C14.strictMono, hab, ih (List.pairwise_cons.mp hp).2]
  apply key
  by_cases hk : k.inc = true
  · simp [hk]; exact (increasing_series_strictly_monotone k hk c mx mn hv n rs h).1
  · have hk' : k.inc = false := by simpa using hk
    simp [hk']; exact (decreasing_series_strictly_monotone k hk' c mx mn hv n rs h).1

/-! ### the model's levels pass the checker that is evaluated on the implementation's output -/

/-- **`Spec.C14.check (model output) = true`**: for every validated parameter set, every set of
    criteria with pairwise different ids and ranges with `min ≤ max`, the list of levels the model
    generates passes every clause of the checker the driver runs on Go's levels (count, strict
    monotonicity of the ratios, threshold formula, direction of movement) -/
theorem model_levels_pass_spec (k : CoefKind) (d : DMP Rat) (c mx mn : Rat) (lv : List (KMap Rat))
    (h : coefLevels k d c mx mn = Except.ok lv) (hnd : (d.crit.map (·.id)).Nodup)
    (hrg : ∀ cr ∈ d.crit, ∀ rg, valuesRange d.all cr = Except.ok rg → rg.1 ≤ rg.2) :
    Spec.C14.check k c mx mn d.crit d.all (some lv) = true := by
  -- unpack the model run
  have hv : coefValid k c mx mn = true := by
    by_contra hv
    obtain ⟨e, he⟩ := invalid_parameters_rejected k d c mx mn (by simpa using hv)
    rw [he] at h; simp at h
  unfold coefLevels coefValidate at h
  simp only [hv, if_true] at h
  obtain ⟨_, _, h⟩ := R.bind_eq_ok h
  obtain ⟨ranges, hr, h⟩ := R.bind_eq_ok h
  obtain ⟨rs, hs, h⟩ := R.bind_eq_ok h
  simp at h; subst h
  obtain ⟨hranges, hkeys⟩ := criteriaRanges_eq d.crit d.all ranges hr
  have hndr : (ranges.map (·.1.id)).Nodup := by
    have : ranges.map (·.1.id) = d.crit.map (·.id) := by rw [← hkeys]; simp
    rw [this]; exact hnd
  have hwidth : ∀ p ∈ ranges, p.2.1 ≤ p.2.2 := by
    -- every pair of `ranges` is (criterion, its range)
    have : ∀ (crits : List (Crit Rat)) (rgs : List (Crit Rat × (Rat × Rat))),
        crits.mapM (fun cr => do pure (cr, ← valuesRange d.all cr)) = Except.ok rgs →
        ∀ p ∈ rgs, p.1 ∈ crits ∧ valuesRange d.all p.1 = Except.ok p.2 := by
      intro crits
      induction crits with
      | nil => intro rgs hh p hp; simp at hh; subst hh; simp at hp
      | cons x xs ih =>
        intro rgs hh p hp
        rw [List.mapM_cons] at hh
        obtain ⟨q, hq, hh⟩ := R.bind_eq_ok hh
        obtain ⟨qs, hqs, hh⟩ := R.bind_eq_ok hh
        obtain ⟨rg, hrg', hq⟩ := R.bind_eq_ok hq
        simp at hh hq; subst hh; subst hq
        rcases List.mem_cons.mp hp with rfl | hp
        · exact ⟨by simp, hrg'⟩
        · obtain ⟨i1, i2⟩ := ih qs hqs p hp
          exact ⟨by simp [i1], i2⟩
    intro p hp
    obtain ⟨i1, i2⟩ := this d.crit ranges hr p hp
    exact hrg p.1 i1 p.2 i2
  -- the series
  have hideal := series_follows_documented_recurrence k c mx mn _ rs hs
  obtain ⟨hmono, _⟩ := model_series_passes_spec_clauses k c mx mn hv _ rs hs
  have hpw : (if k.inc then rs.Pairwise (· < ·) else rs.Pairwise (· > ·)) := by
    by_cases hk : k.inc = true
    · simp [hk]; exact (increasing_series_strictly_monotone k hk c mx mn hv _ rs hs).1
    · have hk' : k.inc = false := by simpa using hk
      simp [hk']; exact (decreasing_series_strictly_monotone k hk' c mx mn hv _ rs hs).1
  have hempty : mx ≤ mn → rs = [] := by
    intro hle
    by_cases hk : k.inc = true
    · have := increasing_series_empty_when_min_ge_max k hk c mx mn hle (coefFuel k c mx mn)
      rw [this] at hs; simpa using hs.symm
    · have hk' : k.inc = false := by simpa using hk
      have := decreasing_series_empty_when_max_le_min k hk' c mx mn hle (coefFuel k c mx mn)
      rw [this] at hs; simpa using hs.symm
  -- clause by clause
  unfold Spec.C14.check Spec.C14.explain
  simp only [spec_valid_eq_model_valid, hv, Bool.not_true, Bool.false_eq_true, if_false, List.length_map]
  rw [hideal] at hmono ⊢
  simp only [hmono, Bool.not_true, Bool.false_eq_true, if_false, ne_eq, not_true_eq_false, if_true]
  have hcl : ((if k.inc = true then decide (mx ≤ mn) else decide (mx ≤ mn)) && !(rs.map (levelAt ranges)).isEmpty) = false := by
    by_cases hle : mx ≤ mn
    · simp [hempty hle]
    · simp [hle]
  simp only [hcl, Bool.false_eq_true, if_false, hranges]
  have h1 := levelOk_all ranges hndr rs
  simp only [h1, Bool.not_true, Bool.false_eq_true, if_false]
  have h2 := movesOk_levelAt k.inc ranges hndr hwidth rs hpw
  simp [h2]

/-! ### thresholds -/

/-- a level places every criterion at `min + r·range` (gain) / `max − r·range` (cost) -/
theorem threshold_formula (cr : Crit Rat) (lo hi r : Rat) :
    thresholdFor cr (lo, hi) r = if cr.type = "cost" then hi - r * (hi - lo) else lo + r * (hi - lo) := by
  unfold thresholdFor Crit.isCost
  by_cases h : cr.type = "cost" <;> simp [h] <;> ring

/-- the model's threshold is the spec's `want` -/
theorem threshold_eq_spec_want (cr : Crit Rat) (rg : Rat × Rat) (r : Rat) :
    thresholdFor cr rg r = Spec.C14.want cr rg r := by
  obtain ⟨lo, hi⟩ := rg
  rw [threshold_formula]
  unfold Spec.C14.want
  by_cases h : cr.type = "cost" <;> simp [h]

/-- r = 0 is the worst end of the range, r = 1 the best one -/
theorem threshold_at_ends (cr : Crit Rat) (lo hi : Rat) :
    thresholdFor cr (lo, hi) 0 = (if cr.type = "cost" then hi else lo) ∧
    thresholdFor cr (lo, hi) 1 = (if cr.type = "cost" then lo else hi) := by
  rw [threshold_formula, threshold_formula]
  by_cases h : cr.type = "cost" <;> simp [h]

/-- a degenerate range (`min = max`) yields that value at every level -/
theorem threshold_degenerate_range (cr : Crit Rat) (v r : Rat) : thresholdFor cr (v, v) r = v := by
  rw [threshold_formula]; by_cases h : cr.type = "cost" <;> simp [h]

/-- the declared `valuesRange` wins over the observed one -/
theorem declared_range_preferred (alts : List (Alt Rat)) (cr : Crit Rat) (rg : Rat × Rat)
    (h : cr.range = some rg) : valuesRange alts cr = Except.ok rg := by
  unfold valuesRange; simp [h]

/-- … otherwise the range is the minimum and maximum of the criterion's values over ALL alternatives
    handed in (`Initialize` hands in `dmp.AllAlternatives()`): it bounds every value, both ends are attained -/
theorem observed_range_is_min_max (alts : List (Alt Rat)) (cr : Crit Rat) (hnone : cr.range = none) (lo hi : Rat)
    (hne : alts ≠ []) (h : valuesRange alts cr = Except.ok (lo, hi)) :
    ∃ vs, alts.mapM (·.raw cr) = Except.ok vs ∧ (∀ v ∈ vs, lo ≤ v ∧ v ≤ hi) ∧ lo ∈ vs ∧ hi ∈ vs :=
  valuesRange_observed alts cr hnone lo hi hne h

/-- every level of a generated series lists exactly the criteria of the state, in order -/
theorem level_keys (ranges : List (Crit Rat × (Rat × Rat))) (r : Rat) :
    (levelAt ranges r).map (·.1) = ranges.map (·.1.id) := by
  unfold levelAt; simp

/-! ### explicit thresholds -/

/-- `ThresholdSatisfactionLevels.Initialize` accepts the list iff every level has every criterion, and
    then hands the levels out unchanged -/
theorem explicit_levels_validated (d : DMP Rat) (ts : List (KMap Rat)) :
    (explicitLevels d ts = Except.ok ts ↔ ∀ t ∈ ts, ∀ cr ∈ d.crit, t.has cr.id = true) ∧
    (∀ lv, explicitLevels d ts = Except.ok lv → lv = ts) := by
  unfold explicitLevels
  by_cases h : (ts.all fun t => d.crit.all fun c => t.has c.id) = true
  · simp only [h, if_true]
    refine ⟨⟨fun _ => by simpa using h, fun _ => rfl⟩, fun lv hl => ?_⟩
    simpa using hl.symm
  · simp only [h]
    refine ⟨⟨fun hh => by simp at hh, fun hh => absurd (by simpa using hh) h⟩, fun lv hl => by simp at hl⟩

/-! ### wiring facts (regenerated from main.go on every run) -/

/-- main.go hands the increasing sources to aspect elimination and the decreasing ones to satisfaction -/
theorem wiring_aspect_gets_increasing : Facts.wiringAspectArgs.head? = some "increasingSatisfactionLevels" := by decide
theorem wiring_satisfaction_gets_decreasing : Facts.wiringSatisfactionArgs.head? = some "decreasingSatisfactionLevels" := by decide

/-- every registered source is known to the model, in the order main.go lists them -/
theorem wiring_increasing_sources : sourcesOf Facts.wiringIncreasingLevels = [.coef .incMul, .coef .incAdd, .thresholds true] := by decide
theorem wiring_decreasing_sources : sourcesOf Facts.wiringDecreasingLevels = [.coef .decMul, .coef .decSub, .thresholds false] := by decide

/-- the sources aspect elimination can find generate increasing series only; satisfaction's decreasing only -/
theorem aspect_sources_increasing : aspectSources.all (·.increasing) = true := by decide
theorem satisfaction_sources_decreasing : satisfactionSources.all (fun s => !s.increasing) = true := by decide

/-- identifiers are unambiguous within each registry (`Find` returns the first match) -/
theorem source_names_distinct :
    (aspectSources.map (·.name)).Nodup ∧ (satisfactionSources.map (·.name)).Nodup := by decide

/-- the function names of the property text -/
theorem source_names :
    aspectSources.map (·.name) = ["idealMultipliedCoefficient", "idealAdditiveCoefficient", "thresholds"] ∧
    satisfactionSources.map (·.name) = ["idealMultipliedCoefficient", "idealSubtractiveCoefficient", "thresholds"] := by decide

/-! ### satisfiable hypotheses -/

example : coefValid .incAdd (1/4 : Rat) 1 0 = true :=
  (validation_accepts_exactly_documented_ranges _ _ _ _).mpr (by norm_num [CoefKind.inc])
example : coefValid .decMul (1/2 : Rat) 1 (1/8) = true :=
  (validation_accepts_exactly_documented_ranges _ _ _ _).mpr (by norm_num [CoefKind.inc])
example : coefValid .decSub (1/2 : Rat) 1 0 = false := by
  rw [Bool.eq_false_iff, ne_eq, validation_accepts_exactly_documented_ranges]; norm_num [CoefKind.inc]
example : ∃ rs, coefSeries .incMul (1/4 : Rat) 1 0 (coefFuel .incMul (1/4 : Rat) 1 0) 0 = Except.ok rs ∧ rs.length ≤ 6 := by
  obtain ⟨rs, h, hl⟩ := fuel_suffices .incMul (1/4) 1 0
    ((validation_accepts_exactly_documented_ranges _ _ _ _).mpr (by norm_num [CoefKind.inc]))
  refine ⟨rs, h, ?_⟩
  have : coefFuel .incMul (1/4 : Rat) 1 0 = 6 := by
    simp only [coefFuel, Num.one_rat, Num.floorInt_rat]
    norm_num [Rat.floor_def]
    rfl
  omega

/-! ## end to end: whole requests (`decideWith` / `Rdm.decide`, Model/Decide.lean)

  Whatever biases ran before — every request, every bias list, every stream function, no bounds —, the aspiration
  levels aspect elimination / satisfaction work with are `aspectLevels` / `satisfactionLevels` of the state that
  reached `Evaluate` (`resp.final`): found by the REQUEST's levels function among the registered sources,
  generated with the REQUEST's coefficient / maxValue / minValue, from the criteria ranges of the FINAL state —
  declared range if present, else observed over ALL known alternatives of the final state (whose values the
  biases may have rewritten and whose criteria they may have removed or added).
  Helper lemmas: Rdm/Lemmas/E2EMethods*.lean. -/

/-- **everything the theorems above say about a generated series, for the levels of any state**: if a coefficient
    source answers on state `d` then the parameters are in the documented ranges, there is one range per
    criterion of `d`, in order, each the `CriteriaValuesRange` over all known alternatives of `d`; the ratios
    follow the documented recurrence — strictly increasing in `[minValue, maxValue)` resp. strictly decreasing
    in `(minValue, maxValue]`, at most `coefFuel` many, with the closed forms of the README —, and level i
    places every criterion at ratio i of its range (`levelAt`), listing exactly the criteria of `d` -/
theorem generated_levels_follow_documented_series (k : CoefKind) (d : DMP Rat) (c mx mn : Rat)
    (lvl : List (KMap Rat)) (h : coefLevels k d c mx mn = .ok lvl) :
    coefValid k c mx mn = true ∧
    ∃ ranges rs,
      criteriaRanges d = .ok ranges ∧ ranges.map (·.1) = d.crit ∧
      (∀ p ∈ ranges, valuesRange d.all p.1 = .ok p.2) ∧
      coefSeries k c mx mn (coefFuel k c mx mn) (coefInitial k mx mn) = .ok rs ∧
      lvl = rs.map (levelAt ranges) ∧
      (k.inc = true → rs.Pairwise (· < ·) ∧ ∀ r ∈ rs, mn ≤ r ∧ r < mx) ∧
      (k.inc = false → rs.Pairwise (· > ·) ∧ ∀ r ∈ rs, r ≤ mx ∧ mn < r) ∧
      rs.length ≤ coefFuel k c mx mn ∧
      (∀ (i : Nat) (hi : i < rs.length), rs[i] = closedForm k c (coefInitial k mx mn) i) ∧
      (∀ t ∈ lvl, t.map (·.1) = d.crit.map (·.id)) := by
  obtain ⟨hv, ranges, rs, hr, hs, hl⟩ := e2em_coefLevels_ok h
  obtain ⟨hk, hrg⟩ := e2em_criteriaRanges_ok hr
  exact ⟨hv, ranges, rs, hr, hk, hrg, hs, hl,
    fun hinc => increasing_series_strictly_monotone k hinc c mx mn hv _ rs hs,
    fun hdec => decreasing_series_strictly_monotone k hdec c mx mn hv _ rs hs,
    coefSeries_length_le hs, series_closed_form k c mx mn hv _ rs hs, e2em_coefLevels_keys h⟩

/-- which range a criterion of the state gets: the declared `valuesRange` if present; otherwise minimum and
    maximum of its values over ALL known alternatives of the state (both attained, every value inside) -/
theorem range_is_declared_or_observed (d : DMP Rat) (cr : Crit Rat) (rg : Rat × Rat)
    (h : valuesRange d.all cr = .ok rg) :
    (∀ dr, cr.range = some dr → rg = dr) ∧
    (cr.range = none → d.all ≠ [] →
      ∃ vs, d.all.mapM (·.raw cr) = .ok vs ∧ (∀ v ∈ vs, rg.1 ≤ v ∧ v ≤ rg.2) ∧ rg.1 ∈ vs ∧ rg.2 ∈ vs) := by
  constructor
  · intro dr hdr
    rw [declared_range_preferred d.all cr dr hdr] at h
    exact (Except.ok.inj h).symm
  · intro hnone hne
    exact observed_range_is_min_max d.all cr hnone rg.1 rg.2 hne h

/-- a registered source answering on coefficient parameters: a coefficient source of the registry running its
    series, or the thresholds source decoding no thresholds (no level at all) -/
theorem levelsOf_coefficient_parameters (sources : List LevelSource) (fn : String) (c mx mn : Rat) (d : DMP Rat)
    (lvl : List (KMap Rat)) (h : levelsOf sources fn (.coef c mx mn) d = .ok lvl) :
    (∃ k, findSource sources fn = .ok (.coef k) ∧ LevelSource.coef k ∈ sources ∧
        (LevelSource.coef k).name = fn ∧ coefLevels k d c mx mn = .ok lvl) ∨
    (∃ asc, findSource sources fn = .ok (.thresholds asc) ∧ fn = Facts.levelsThresholds ∧ lvl = []) := by
  obtain ⟨s, hs, hmem, hname, _, hw⟩ := e2em_levelsOf_ok h
  rcases e2em_levelsWith_cases_rat hw with ⟨k, c', mx', mn', rfl, hl, hc⟩ | ⟨_, _, _, hl, _⟩ |
      ⟨asc, _, _, _, rfl, _, rfl⟩
  · cases hl
    exact Or.inl ⟨k, hs, hmem, hname, hc⟩
  · cases hl
  · exact Or.inr ⟨asc, hs, hname.symm, rfl⟩

/-- **L4, aspect elimination**: for a request with aspect-elimination parameters, if `MakeDecision` answers then
    the levels the elimination procedure walks through are `aspectLevels resp.final` = `levelsOf` of the sources
    main.go registers for aspect elimination (all increasing), looked up by the REQUEST's function name, on the
    FINAL state with the final levels parameters — which are the request's up to the per-criterion entries of
    explicit thresholds; and the response is `Evaluate` with exactly these levels (any number type) -/
theorem decideWith_aspect_levels_are_generated_from_final_state {α : Type} [Num α] (exp : α → α)
    (aspOrder : List (WCrit α) → List (WCrit α)) (req : Request α) (g : Int → Draws α) (resp : Response α)
    (fn : String) (lv₀ : Levels α) (seed : Int) (w₀ : KMap α) (rnd : Bool)
    (h : decideWith exp aspOrder req g = .ok resp) (hmp : req.mp = some (.aspect fn lv₀ seed w₀ rnd)) :
    ∃ lv w lvl s r,
      resp.final.mp = .aspect fn lv seed w rnd ∧ e2emLvTag lv = e2emLvTag lv₀ ∧
      aspectLevels resp.final = .ok lvl ∧ levelsOf aspectSources fn lv resp.final = .ok lvl ∧
      findSource aspectSources fn = .ok s ∧ s.name = fn ∧ s.increasing = true ∧
      levelsWith s lv resp.final = .ok lvl ∧
      (∀ t ∈ lvl, ∀ c ∈ resp.final.crit, (t.get? c.id).isSome = true) ∧
      aspectEvaluateWith resp.final (g seed) (.ok lvl) aspOrder = .ok r ∧
      resp.result = r.map (Linked.mapEv .asp) := by
  obtain ⟨lv, w, r, hfin, hl, hr, hres⟩ := e2em_decideWith_aspect h hmp
  obtain ⟨lvl, hlv, hof, hr'⟩ := e2em_aspect_levels_used hfin hr
  obtain ⟨s, hs, hmem, hname, _, hw⟩ := e2em_levelsOf_ok hof
  exact ⟨lv, w, lvl, s, r, hfin, hl, hlv, hof, hs, hname, e2em_aspectSources_increasing hmem, hw,
    e2em_levelsOf_complete hof, hr', hres⟩

/-- **L4, satisfaction**: likewise with `satisfactionLevels resp.final` and the decreasing sources -/
theorem decideWith_satisfaction_levels_are_generated_from_final_state {α : Type} [Num α] (exp : α → α)
    (aspOrder : List (WCrit α) → List (WCrit α)) (req : Request α) (g : Int → Draws α) (resp : Response α)
    (fn : String) (lv₀ : Levels α) (seed : Int) (cur : String) (rnd : Bool)
    (h : decideWith exp aspOrder req g = .ok resp) (hmp : req.mp = some (.satisf fn lv₀ seed cur rnd)) :
    ∃ lv lvl s r,
      resp.final.mp = .satisf fn lv seed cur rnd ∧ e2emLvTag lv = e2emLvTag lv₀ ∧
      satisfactionLevels resp.final = .ok lvl ∧ levelsOf satisfactionSources fn lv resp.final = .ok lvl ∧
      findSource satisfactionSources fn = .ok s ∧ s.name = fn ∧ s.increasing = false ∧
      levelsWith s lv resp.final = .ok lvl ∧
      (∀ t ∈ lvl, ∀ c ∈ resp.final.crit, (t.get? c.id).isSome = true) ∧
      satisfactionEvaluateWith resp.final (g seed) (.ok lvl) = .ok r ∧
      resp.result = r.map (Linked.mapEv .sat) := by
  obtain ⟨lv, r, hfin, hl, hr, hres⟩ := e2em_decideWith_satisf h hmp
  obtain ⟨lvl, hlv, hof, hr'⟩ := e2em_satisf_levels_used hfin hr
  obtain ⟨s, hs, hmem, hname, _, hw⟩ := e2em_levelsOf_ok hof
  exact ⟨lv, lvl, s, r, hfin, hl, hlv, hof, hs, hname, e2em_satisfactionSources_decreasing hmem, hw,
    e2em_levelsOf_complete hof, hr', hres⟩

/-- **L4, generated series for aspect elimination** (over `Rat`): a request with coefficient parameters
    `(c, mx, mn)`.  The levels in force are generated with exactly these three numbers (no bias touches them) by
    an INCREASING coefficient source `k` from the criteria ranges of the FINAL state, and all the theorems above
    apply: documented parameter ranges, one range per final criterion (declared, else observed over all known
    alternatives of the final state), strictly increasing ratios in `[mn, mx)`, at most `coefFuel` levels, closed
    forms, threshold formula (`levelAt`).  (Or the function named is `thresholds`, which finds no thresholds in
    coefficient parameters and hands out no level.) -/
theorem decideWith_aspect_generated_levels (exp : Rat → Rat) (aspOrder : List (WCrit Rat) → List (WCrit Rat))
    (req : Request Rat) (g : Int → Draws Rat) (resp : Response Rat)
    (fn : String) (c mx mn : Rat) (seed : Int) (w₀ : KMap Rat) (rnd : Bool)
    (h : decideWith exp aspOrder req g = .ok resp)
    (hmp : req.mp = some (.aspect fn (.coef c mx mn) seed w₀ rnd)) :
    ∃ w lvl, resp.final.mp = .aspect fn (.coef c mx mn) seed w rnd ∧ aspectLevels resp.final = .ok lvl ∧
      ((fn = Facts.levelsThresholds ∧ lvl = []) ∨
       ∃ k, findSource aspectSources fn = .ok (.coef k) ∧ k.inc = true ∧
         coefLevels k resp.final c mx mn = .ok lvl ∧ coefValid k c mx mn = true ∧
         ∃ ranges rs,
           criteriaRanges resp.final = .ok ranges ∧ ranges.map (·.1) = resp.final.crit ∧
           (∀ p ∈ ranges, valuesRange resp.final.all p.1 = .ok p.2) ∧
           coefSeries k c mx mn (coefFuel k c mx mn) mn = .ok rs ∧
           lvl = rs.map (levelAt ranges) ∧
           rs.Pairwise (· < ·) ∧ (∀ r ∈ rs, mn ≤ r ∧ r < mx) ∧ rs.length ≤ coefFuel k c mx mn ∧
           (∀ (i : Nat) (hi : i < rs.length), rs[i] = closedForm k c mn i) ∧
           (∀ t ∈ lvl, t.map (·.1) = resp.final.crit.map (·.id))) := by
  obtain ⟨lv, w, lvl, s, r, hfin, hl, hlv, hof, _, _, _, _, _, _, _⟩ :=
    decideWith_aspect_levels_are_generated_from_final_state exp aspOrder req g resp fn _ seed w₀ rnd h hmp
  obtain ⟨_, _, _, rfl, h0⟩ | ⟨_, _, _, h0, _⟩ := e2em_lvTag_cases hl
  swap
  · cases h0
  cases h0
  refine ⟨w, lvl, hfin, hlv, ?_⟩
  rcases levelsOf_coefficient_parameters aspectSources fn c mx mn resp.final lvl hof with
    ⟨k, hs, hmem, _, hc⟩ | ⟨_, _, hn, hnil⟩
  · right
    have hinc : k.inc = true := e2em_aspectSources_increasing hmem
    obtain ⟨hv, ranges, rs, hr, hk, hrg, hsr, hlvl, hi, _, hlen, hcf, hkeys⟩ :=
      generated_levels_follow_documented_series k resp.final c mx mn lvl hc
    have hinit : coefInitial k mx mn = mn := by simp [coefInitial, hinc]
    rw [hinit] at hsr hcf
    exact ⟨k, hs, hinc, hc, hv, ranges, rs, hr, hk, hrg, hsr, hlvl, (hi hinc).1, (hi hinc).2, hlen, hcf, hkeys⟩
  · exact Or.inl ⟨hn, hnil⟩

/-- **L4, generated series for satisfaction** (over `Rat`): likewise with a DECREASING coefficient source,
    strictly decreasing ratios in `(mn, mx]`, starting at `maxValue` -/
theorem decideWith_satisfaction_generated_levels (exp : Rat → Rat)
    (aspOrder : List (WCrit Rat) → List (WCrit Rat)) (req : Request Rat) (g : Int → Draws Rat)
    (resp : Response Rat) (fn : String) (c mx mn : Rat) (seed : Int) (cur : String) (rnd : Bool)
    (h : decideWith exp aspOrder req g = .ok resp)
    (hmp : req.mp = some (.satisf fn (.coef c mx mn) seed cur rnd)) :
    ∃ lvl, resp.final.mp = .satisf fn (.coef c mx mn) seed cur rnd ∧ satisfactionLevels resp.final = .ok lvl ∧
      ((fn = Facts.levelsThresholds ∧ lvl = []) ∨
       ∃ k, findSource satisfactionSources fn = .ok (.coef k) ∧ k.inc = false ∧
         coefLevels k resp.final c mx mn = .ok lvl ∧ coefValid k c mx mn = true ∧
         ∃ ranges rs,
           criteriaRanges resp.final = .ok ranges ∧ ranges.map (·.1) = resp.final.crit ∧
           (∀ p ∈ ranges, valuesRange resp.final.all p.1 = .ok p.2) ∧
           coefSeries k c mx mn (coefFuel k c mx mn) mx = .ok rs ∧
           lvl = rs.map (levelAt ranges) ∧
           rs.Pairwise (· > ·) ∧ (∀ r ∈ rs, r ≤ mx ∧ mn < r) ∧ rs.length ≤ coefFuel k c mx mn ∧
           (∀ (i : Nat) (hi : i < rs.length), rs[i] = closedForm k c mx i) ∧
           (∀ t ∈ lvl, t.map (·.1) = resp.final.crit.map (·.id))) := by
  obtain ⟨lv, lvl, s, r, hfin, hl, hlv, hof, _, _, _, _, _, _, _⟩ :=
    decideWith_satisfaction_levels_are_generated_from_final_state exp aspOrder req g resp fn _ seed cur rnd h hmp
  obtain ⟨_, _, _, rfl, h0⟩ | ⟨_, _, _, h0, _⟩ := e2em_lvTag_cases hl
  swap
  · cases h0
  cases h0
  refine ⟨lvl, hfin, hlv, ?_⟩
  rcases levelsOf_coefficient_parameters satisfactionSources fn c mx mn resp.final lvl hof with
    ⟨k, hs, hmem, _, hc⟩ | ⟨_, _, hn, hnil⟩
  · right
    have hdec : k.inc = false := e2em_satisfactionSources_decreasing hmem
    obtain ⟨hv, ranges, rs, hr, hk, hrg, hsr, hlvl, _, hd, hlen, hcf, hkeys⟩ :=
      generated_levels_follow_documented_series k resp.final c mx mn lvl hc
    have hinit : coefInitial k mx mn = mx := by simp [coefInitial, hdec]
    rw [hinit] at hsr hcf
    exact ⟨k, hs, hdec, hc, hv, ranges, rs, hr, hk, hrg, hsr, hlvl, (hd hdec).1, (hd hdec).2, hlen, hcf, hkeys⟩
  · exact Or.inl ⟨hn, hnil⟩

/-- **the checker `Spec.C14.check` accepts the levels in force** (aspect elimination and satisfaction alike): if
    the levels of the final state come from coefficient source `k`, they pass every clause of the checker
    against the criteria and ALL known alternatives of the FINAL state — hypotheses of `model_levels_pass_spec`
    carried through unchanged, on the final state -/
theorem final_state_levels_pass_spec (resp : Response Rat) (k : CoefKind) (c mx mn : Rat) (lvl : List (KMap Rat))
    (hc : coefLevels k resp.final c mx mn = .ok lvl) (hnd : (resp.final.crit.map (·.id)).Nodup)
    (hrg : ∀ cr ∈ resp.final.crit, ∀ rg, valuesRange resp.final.all cr = .ok rg → rg.1 ≤ rg.2) :
    Spec.C14.check k c mx mn resp.final.crit resp.final.all (some lvl) = true :=
  model_levels_pass_spec k resp.final c mx mn lvl hc hnd hrg

/-- **L4, explicit thresholds**: with explicit thresholds in the request the levels in force are the final
    thresholds list, handed out unchanged and as many as the request gave (a bias only removes or adds
    per-criterion entries), each with a threshold for every criterion of the final state -/
theorem decideWith_aspect_explicit_levels {α : Type} [Num α] (exp : α → α)
    (aspOrder : List (WCrit α) → List (WCrit α)) (req : Request α) (g : Int → Draws α) (resp : Response α)
    (ts₀ : List (KMap α)) (seed : Int) (w₀ : KMap α) (rnd : Bool)
    (h : decideWith exp aspOrder req g = .ok resp)
    (hmp : req.mp = some (.aspect Facts.levelsThresholds (.thresholds ts₀) seed w₀ rnd)) :
    ∃ ts w, resp.final.mp = .aspect Facts.levelsThresholds (.thresholds ts) seed w rnd ∧
      ts.length = ts₀.length ∧ aspectLevels resp.final = .ok ts ∧
      ∀ t ∈ ts, ∀ c ∈ resp.final.crit, (t.get? c.id).isSome = true := by
  obtain ⟨lv, w, lvl, s, r, hfin, hl, hlv, hof, hs, _, _, hw, hcomp, _, _⟩ :=
    decideWith_aspect_levels_are_generated_from_final_state exp aspOrder req g resp _ _ seed w₀ rnd h hmp
  obtain ⟨_, _, _, _, h0⟩ | ⟨ts, ts', rfl, h0, hlen⟩ := e2em_lvTag_cases hl
  · cases h0
  cases h0
  have hs' : s = .thresholds true := by
    have : findSource aspectSources Facts.levelsThresholds = .ok (.thresholds true) := by decide
    rw [this] at hs
    exact (Except.ok.inj hs).symm
  subst hs'
  simp only [levelsWith] at hw
  obtain ⟨rfl, _⟩ := e2em_explicitLevels_ok hw
  exact ⟨lvl, w, hfin, hlen, hlv, hcomp⟩

theorem decideWith_satisfaction_explicit_levels {α : Type} [Num α] (exp : α → α)
    (aspOrder : List (WCrit α) → List (WCrit α)) (req : Request α) (g : Int → Draws α) (resp : Response α)
    (ts₀ : List (KMap α)) (seed : Int) (cur : String) (rnd : Bool)
    (h : decideWith exp aspOrder req g = .ok resp)
    (hmp : req.mp = some (.satisf Facts.levelsThresholds (.thresholds ts₀) seed cur rnd)) :
    ∃ ts, resp.final.mp = .satisf Facts.levelsThresholds (.thresholds ts) seed cur rnd ∧
      ts.length = ts₀.length ∧ satisfactionLevels resp.final = .ok ts ∧
      ∀ t ∈ ts, ∀ c ∈ resp.final.crit, (t.get? c.id).isSome = true := by
  obtain ⟨lv, lvl, s, r, hfin, hl, hlv, hof, hs, _, _, hw, hcomp, _, _⟩ :=
    decideWith_satisfaction_levels_are_generated_from_final_state exp aspOrder req g resp _ _ seed cur rnd h hmp
  obtain ⟨_, _, _, _, h0⟩ | ⟨ts, ts', rfl, h0, hlen⟩ := e2em_lvTag_cases hl
  · cases h0
  cases h0
  have hs' : s = .thresholds false := by
    have : findSource satisfactionSources Facts.levelsThresholds = .ok (.thresholds false) := by decide
    rw [this] at hs
    exact (Except.ok.inj hs).symm
  subst hs'
  simp only [levelsWith] at hw
  obtain ⟨rfl, _⟩ := e2em_explicitLevels_ok hw
  exact ⟨lvl, hfin, hlen, hlv, hcomp⟩

/-- the hypotheses are satisfiable, aspect elimination: additive series from 0 towards 1 in steps of 1/4, after a
    fatigue that rewrote the values of the considered alternatives — four levels, generated by the additive
    source from the ranges of the FINAL state, and the C14 checker accepts them against the final state -/
example : ∃ resp lvl, decideWith id List.reverse e2emExAspect (genOf e2eExSeeds) = .ok resp ∧
    aspectLevels resp.final = .ok lvl ∧ lvl.length = 4 ∧
    coefLevels .incAdd resp.final (1 / 4) 1 0 = .ok lvl ∧
    Spec.C14.check .incAdd (1 / 4) 1 0 resp.final.crit resp.final.all (some lvl) = true := by
  have h := e2em_eq_ok_getD e2emNoResponse (x := decideWith id List.reverse e2emExAspect (genOf e2eExSeeds))
    (by decide +kernel)
  generalize hresp : e2emGetD e2emNoResponse (decideWith id List.reverse e2emExAspect (genOf e2eExSeeds)) = resp at h
  obtain ⟨w, lvl, _, hlv, hcase⟩ := decideWith_aspect_generated_levels id _ _ _ resp "idealAdditiveCoefficient"
    (1 / 4) 1 0 11 _ false h rfl
  rcases hcase with ⟨hn, _⟩ | ⟨k, hs, _, hc, _, ranges, rs, _, _, _, _, hl, _, _, _, _, _⟩
  · exact absurd hn (by decide)
  have hk : k = .incAdd := by
    have : findSource aspectSources "idealAdditiveCoefficient" = .ok (.coef .incAdd) := by decide
    rw [this] at hs
    cases hs; rfl
  subst hk
  have hlen : lvl.length = 4 := by
    have h4 : (e2emGetD [] (aspectLevels resp.final)).length = 4 := by subst hresp; decide +kernel
    rw [hlv] at h4
    exact h4
  refine ⟨resp, lvl, h, hlv, hlen, hc, final_state_levels_pass_spec resp _ _ _ _ lvl hc
    (by subst hresp; decide +kernel) ?_⟩
  intro cr hcr rg hrg
  have hall : resp.final.crit.all (fun cr => match valuesRange resp.final.all cr with
      | .ok rg => decide (rg.1 ≤ rg.2)
      | .error _ => true) = true := by subst hresp; decide +kernel
  have := List.all_eq_true.mp hall cr hcr
  rw [hrg] at this
  simpa using this

/-- … satisfaction: subtractive series 1, 3/4, 1/2, 1/4 (down to above 1/8) — four levels from the final state -/
example : ∃ resp lvl, Rdm.decide id e2emExSatisf e2eExSeeds = .ok resp ∧
    satisfactionLevels resp.final = .ok lvl ∧ lvl.length = 4 ∧
    coefLevels .decSub resp.final (1 / 4) 1 (1 / 8) = .ok lvl := by
  obtain ⟨resp, h⟩ := e2e_ok_of_isOk (x := Rdm.decide id e2emExSatisf e2eExSeeds) (by decide +kernel)
  obtain ⟨lvl, _, hlv, hcase⟩ := decideWith_satisfaction_generated_levels id _ _ _ resp "idealSubtractiveCoefficient"
    (1 / 4) 1 (1 / 8) 11 "d" false h rfl
  rcases hcase with ⟨hn, _⟩ | ⟨k, hs, _, hc, _, ranges, rs, _, _, _, hsr, hl, _, _, _, _, _⟩
  · exact absurd hn (by decide)
  have hk : k = .decSub := by
    have : findSource satisfactionSources "idealSubtractiveCoefficient" = .ok (.coef .decSub) := by decide
    rw [this] at hs
    cases hs; rfl
  subst hk
  refine ⟨resp, lvl, h, hlv, ?_, hc⟩
  have : coefSeries .decSub (1 / 4 : Rat) 1 (1 / 8) (coefFuel .decSub (1 / 4 : Rat) 1 (1 / 8)) 1
      = .ok [1, 3 / 4, 1 / 2, 1 / 4] := by decide +kernel
  rw [this] at hsr
  cases hsr
  rw [hl]; rfl

/-- the constants and names this property depends on were re-read from the working tree on this run
    (none fell back to its pinned value because its declaration could not be located) -/
theorem facts_fresh : (Rdm.Facts.staleFacts.all fun n => !["levelsThresholds", "levelsIncreasingMul", "levelsAdditive", "levelsDecreasingMul", "levelsSubtractive", "wiringIncreasingLevels", "wiringDecreasingLevels", "wiringAspectArgs", "wiringSatisfactionArgs"].contains n) = true := by decide

end Rdm.Props.C14
