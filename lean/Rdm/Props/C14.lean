/- C14 — property theorems (stub; filled in by the owning work package). -/
import Rdm.Basic
namespace Rdm.Props.C14
end Rdm.Props.C14
