/- C09 — property theorems (stub; filled in by the owning work package). -/
import Rdm.Basic
namespace Rdm.Props.C09
end Rdm.Props.C09
