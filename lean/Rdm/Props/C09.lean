/-
  C09 — decisions are stateless: inputs untouched, reports faithful, no history.

  The model is a pure function, so "the response does not depend on earlier requests" and "the
  request value is not modified" hold of it by construction; what a pure model cannot exhibit is
  aliasing in the Go heap — that part of C09 is decided on the real code by the harness
  (deep before/after comparison of every state handed from stage to stage; see harness/main/c09.go)
  and is labelled partial in MANIFEST/DESIGN.  What IS a theorem is the hand-over discipline of the
  pipeline: every fired bias receives exactly the state the previous fired bias returned, its
  report in the response is the report it returned, and the method receives the last state.
-/
import Rdm.Model.Pipeline
import Rdm.Props.C15
import Rdm.Props.C16
import Rdm.Props.C17
import Rdm.Props.C18
import Rdm.Props.C19
import Rdm.Lemmas.E2EBiases
import Rdm.Lemmas.E2EBiasesState
import Rdm.Lemmas.E2EBiasesExample
namespace Rdm.Props.C09
open Rdm

variable {α : Type} [Num α] {S P Rep : Type}

/-- the hand-over chain of `processBiases` -/
inductive Chain (apply : String → P → S → S → R (S × Rep)) (orig : S) :
    List (Chosen α P) → S → List (BiasOut α Rep) → S → Prop where
  | nil (s : S) : Chain apply orig [] s [] s
  | fired (b : Chosen α P) (rest) (s s' fin : S) (rep : Rep) (outs) :
      apply b.name b.props orig s = .ok (s', rep) → Chain apply orig rest s' outs fin →
      Chain apply orig (b :: rest) s (⟨b.name, b.prob, some rep⟩ :: outs) fin
  | skipped (b : Chosen α P) (rest) (s fin : S) (outs) :
      Chain apply orig rest s outs fin →
      Chain apply orig (b :: rest) s (⟨b.name, b.prob, none⟩ :: outs) fin

/-- Every successful run of `processBiases` is a hand-over chain: bias k+1 (and finally the method)
    receives exactly what the last fired bias returned; a report in the response is the report the
    bias returned, unaltered; a bias that did not fire hands the state on unchanged. -/
theorem process_is_chain (apply : String → P → S → S → R (S × Rep)) (orig : S) :
    ∀ (chosen : List (Chosen α P)) (cur : S) (d : Draws α) (fin : S) (outs : List (BiasOut α Rep)),
      processLoop apply orig chosen cur d = .ok (fin, outs) → Chain apply orig chosen cur outs fin
  | [], cur, d, fin, outs, h => by
    simp [processLoop, pure, Except.pure] at h
    obtain ⟨rfl, rfl⟩ := h
    exact .nil _
  | b :: rest, cur, d, fin, outs, h => by
    unfold processLoop at h
    cases d with
    | nil => simp [draw, bind, Except.bind, throw, throwThe, MonadExceptOf.throw] at h
    | cons u d' =>
      simp only [draw, bind, Except.bind, pure, Except.pure] at h
      by_cases hu : u < b.prob
      · simp only [hu, if_true] at h
        cases ha : apply b.name b.props orig cur with
        | error e => simp [ha] at h
        | ok nr =>
          obtain ⟨next, rep⟩ := nr
          simp only [ha] at h
          cases hr : processLoop apply orig rest next d' with
          | error e => simp [hr] at h
          | ok fo =>
            obtain ⟨fin', outs'⟩ := fo
            simp only [hr, Except.ok.injEq, Prod.mk.injEq] at h
            obtain ⟨rfl, rfl⟩ := h
            exact .fired b rest cur next fin' rep outs' ha
              (process_is_chain apply orig rest next d' fin' outs' hr)
      · simp only [hu, if_false] at h
        cases hr : processLoop apply orig rest cur d' with
        | error e => simp [hr] at h
        | ok fo =>
          obtain ⟨fin', outs'⟩ := fo
          simp only [hr, Except.ok.injEq, Prod.mk.injEq] at h
          obtain ⟨rfl, rfl⟩ := h
          exact .skipped b rest cur fin' outs' (process_is_chain apply orig rest cur d' fin' outs' hr)

/-! ### what a bias reports is what the next stage receives (per bias, on the model)

The pipeline hands `res` (first component of what `apply` returns) to the next stage and puts `rep`
(second component) into the response, unaltered (`process_is_chain`).  The theorems below state, for
each bias, that `rep` describes exactly `res`. -/

/-- fatigue: the report carries exactly the considered / not-considered alternatives handed on, and `f` -/
theorem fatigue_report_is_the_state_handed_on {f : Rat} {b : Bounding Rat} {cur res : DMP Rat} {vd sd : Draws Rat}
    {rep : FatigueReport Rat} (h : fatigueBlur f b cur vd sd = .ok (res, rep)) (hd : ∀ u ∈ vd, 0 ≤ u ∧ u < 1) :
    rep.co = res.co ∧ rep.nc = res.nc ∧ rep.f = f :=
  let t := Rdm.Props.C17.fatigue_blurs_within_ratio h hd
  ⟨t.2.2.2.1, t.2.2.2.2.1, t.2.2.1⟩

/-- preference reversal: for every mirrored criterion the report lists id, type, range and, for every known
    alternative as handed on, exactly the value it now holds -/
theorem reversal_report_is_the_state_handed_on {α : Type} [Num α] {sel : List (Crit α)} {cur res : DMP α}
    {rep : List (Reversed α)} (h : reverseSelected sel cur = .ok (res, rep)) (hs : (sel.map (·.id)).Nodup)
    (ha : (cur.all.map (·.id)).Nodup) :
    ∃ toRev, criteriaToReverse sel cur = .ok toRev ∧ toRev.map (·.1) = sel ∧
      List.Forall₂ (Rdm.BiasA.ReportEntryOk res.all) toRev rep :=
  Rdm.Props.C16.report_is_faithful h hs ha

/-- concealment: every alternative handed on carries, for the new criterion, a value listed in the report,
    next to its untouched old values -/
theorem concealment_report_is_the_state_handed_on {α : Type} [Num α] {eps : α} {orig cur : DMP α} {p : Props α}
    {rd g : Draws α} {res : DMP α} {rep : ConcealReport α} (h : conceal eps orig cur p rd g = .ok (res, rep)) :
    res.co.map (·.id) = cur.co.map (·.id) ∧ res.nc.map (·.id) = cur.nc.map (·.id) ∧
    rep.values.length = (cur.co ++ cur.nc).length ∧
    ∀ a' ∈ res.co ++ res.nc, ∃ a ∈ cur.co ++ cur.nc, ∃ v,
      a'.id = a.id ∧ a'.vals = a.vals ++ [(rep.id, v)] ∧ a.vals.has rep.id = false ∧ (a.id, v) ∈ rep.values :=
  Rdm.Props.C18.conceal_gives_every_alternative_a_value_and_keeps_the_rest h

/-- omission: the state handed on holds exactly the kept criteria with unchanged values and the listener's
    restricted parameters; the reported (omitted) criteria are the other part of the split -/
theorem omission_report_is_the_state_handed_on {α : Type} [Num α] {eps : α} {c : SplitCond α} {name : String}
    {cur res : DMP α} {d : Draws α} {omitted : List (Crit α)} (h : omissionApply eps c name cur d = .ok (res, omitted)) :
    List.Forall₂ (Rdm.BiasA.RestrictedTo res.crit) cur.co res.co ∧
      List.Forall₂ (Rdm.BiasA.RestrictedTo res.crit) cur.nc res.nc ∧
      onRemoved cur.mp res.crit = .ok res.mp :=
  Rdm.Props.C15.omission_restricts h

/-- inline anchoring: the reported applied difference of every criterion is exactly new − old of the values
    handed on -/
theorem anchoring_inline_report_is_new_minus_old {α : Type} [Num α] {b : Bounding α} {sc : KMap (Scale α)}
    {p : AltDiffs α} {a' d' : Alt α} (h : inlineOne b sc p = .ok (a', d')) (hnd : (sc.map (·.1)).Nodup) :
    a'.id = p.1.id ∧ d'.id = p.1.id ∧
    ∃ avg, arithmeticAverage p.2 = .ok avg ∧
      ∀ cs ∈ sc, ∃ mean v, avg.get? cs.1 = some mean ∧ p.1.vals.get? cs.1 = some v ∧
        a'.vals.get? cs.1 = some (inlineValue b cs.2.2 v mean) ∧
        d'.vals.get? cs.1 = some (inlineValue b cs.2.2 v mean - v) :=
  Rdm.Props.C19.inline_applier_shifts_every_criterion_and_reports_new_minus_old h hnd

/-! ### END TO END: the response of a whole request is a hand-over chain

`process_is_chain` is about the loop with an arbitrary `apply`.  Below it is instantiated at the model of
`MakeDecision` (`decideWith`, Model/Decide.lean) and cut at an arbitrary fired entry: the state `s` that entry
received and the state `s'` it handed on exist, are unique, and are tied to the response by the chain before and
the chain after the entry.  The per-bias END-TO-END theorems of Props/C15 … C19 are stated about exactly this pair
`(s, s')` (through `E2EBFired`, Lemmas/E2EBiases.lean, which says the same with runs of the model's own loop;
`fired_entry_cuts_the_chain` is its `Chain` form). -/

section e2e
variable {α : Type} [Num α] {exp : α → α} {o : List (WCrit α) → List (WCrit α)} {req : Request α}
  {g : Int → Draws α} {resp : Response α}

/-- **M1.**  Every successful `decideWith` is a hand-over chain from the state `prepare` builds from the request
    to the state the method evaluates: over the enabled biases in request order, every fired bias receives what
    the previous fired bias returned (with `original` = the request's state), the reports in the response are the
    reports the biases returned, and `resp.result` is `Evaluate` of the last state. -/
theorem decision_is_a_hand_over_chain (h : decideWith exp o req g = .ok resp) :
    ∃ params chosen, prepare req = .ok (params, chosen) ∧
      Chain (applyBias exp g) params chosen params resp.biases resp.final ∧
      evaluateWith o g resp.final = .ok resp.result := by
  obtain ⟨params, chosen, hprep, hrun, hev⟩ := e2eb_decide_run h
  exact ⟨params, chosen, hprep, process_is_chain _ _ _ _ _ _ _ hrun, hev⟩

/-- `E2EBFired` in `Chain` form -/
theorem fired_is_a_cut_of_the_chain {params s s' : DMP α} {chosen : List (Chosen α (BProps α))} {i : Nat}
    {b : Chosen α (BProps α)} {rep : Report α}
    (hf : E2EBFired exp g req resp params chosen i b rep s s') :
    Chain (applyBias exp g) params (chosen.take i) params (resp.biases.take i) s ∧
      applyBias exp g b.name b.props params s = .ok (s', rep) ∧
      Chain (applyBias exp g) params (chosen.drop (i + 1)) s' (resp.biases.drop (i + 1)) resp.final :=
  ⟨process_is_chain _ _ _ _ _ _ _ hf.before, hf.step, process_is_chain _ _ _ _ _ _ _ hf.after⟩

/-- **M1, indexed form.**  For every position `i` of `resp.biases` whose entry carries a report `rep` there are
    states `s`, `s'` with `applyBias … name props params s = .ok (s', rep)` (`props` the props of the `i`-th
    enabled bias of the request), a hand-over chain over the biases before `i` from the request's state to `s`,
    and a hand-over chain over the biases after `i` from `s'` to the state the method evaluates. -/
theorem fired_entry_cuts_the_chain (h : decideWith exp o req g = .ok resp) {i : Nat} {name : String}
    {prob : α} {rep : Report α} (hi : resp.biases[i]? = some ⟨name, prob, some rep⟩) :
    ∃ params chosen props s s', prepare req = .ok (params, chosen) ∧ chosen[i]? = some ⟨name, prob, props⟩ ∧
      Chain (applyBias exp g) params (chosen.take i) params (resp.biases.take i) s ∧
      applyBias exp g name props params s = .ok (s', rep) ∧
      Chain (applyBias exp g) params (chosen.drop (i + 1)) s' (resp.biases.drop (i + 1)) resp.final := by
  obtain ⟨params, chosen, props, s, s', hf⟩ := e2eb_fired h hi
  obtain ⟨h1, h2, h3⟩ := fired_is_a_cut_of_the_chain hf
  exact ⟨params, chosen, props, s, s', hf.prepared, hf.entry, h1, h2, h3⟩

omit [Num α] in
/-- a chain none of whose entries carries a report ends in the state it started in -/
theorem chain_without_report_hands_on_unchanged {S P Rep : Type} {apply : String → P → S → S → R (S × Rep)}
    {orig : S} {chosen : List (Chosen α P)} {s fin : S} {outs : List (BiasOut α Rep)}
    (hc : Chain apply orig chosen s outs fin) (hn : ∀ x ∈ outs, x.report = none) : fin = s := by
  induction hc with
  | nil _ => rfl
  | fired b rest s s' fin rep outs _ _ _ => exact absurd (hn _ List.mem_cons_self) (by simp)
  | skipped b rest s fin outs _ ih => exact ih fun x hx => hn x (List.mem_cons_of_mem _ hx)

/-- **`s` is the state handed on by the previous fired bias, or the request's state; `s'` goes to the next fired
    bias, or to the method**: in one response, let `i` be a fired position with states `(s, s')`.
    * no entry before `i` carries a report ⇒ `s` is the state built from the request;
    * `j < i` is a fired position with states `(sj, sj')` and no entry strictly between carries a report ⇒ `s = sj'`;
    * no entry after `i` carries a report ⇒ the method evaluates `s'`. -/
theorem fired_entry_receives_the_previous_hand_over {params s s' : DMP α}
    {chosen : List (Chosen α (BProps α))} {i : Nat} {b : Chosen α (BProps α)} {rep : Report α}
    (hf : E2EBFired exp g req resp params chosen i b rep s s') :
    ((∀ j < i, ∀ x, resp.biases[j]? = some x → x.report = none) → s = params) ∧
    (∀ j bj repj sj sj', E2EBFired exp g req resp params chosen j bj repj sj sj' → j < i →
      (∀ k, j < k → k < i → ∀ x, resp.biases[k]? = some x → x.report = none) → s = sj') ∧
    ((∀ j, i < j → ∀ x, resp.biases[j]? = some x → x.report = none) → resp.final = s') :=
  ⟨e2eb_fired_first hf, fun _ _ _ _ _ hj hji hn => e2eb_fired_prev hf hj hji hn, e2eb_fired_last hf⟩

/-- the states of a fired position are unique: two descriptions of position `i` of one response agree -/
theorem fired_entry_states_are_unique {params params2 s s' s2 s2' : DMP α}
    {chosen chosen2 : List (Chosen α (BProps α))} {i : Nat} {b b2 : Chosen α (BProps α)} {rep rep2 : Report α}
    (h1 : E2EBFired exp g req resp params chosen i b rep s s')
    (h2 : E2EBFired exp g req resp params2 chosen2 i b2 rep2 s2 s2') : s2 = s ∧ s2' = s' :=
  ⟨(e2eb_fired_unique h1 h2).2.2.2.2.1, (e2eb_fired_unique h1 h2).2.2.2.2.2⟩

/-- a report in the response is a report of the bias its entry names (the constructor of the report determines
    the bias) -/
theorem report_is_of_the_named_bias {params s s' : DMP α} {chosen : List (Chosen α (BProps α))} {i : Nat}
    {b : Chosen α (BProps α)} {rep : Report α} (hf : E2EBFired exp g req resp params chosen i b rep s s') :
    match rep with
    | .omission _ => b.name = Facts.biasOmission
    | .reversal _ => b.name = Facts.biasReversal
    | .fatigue _ => b.name = Facts.biasFatigue
    | .conceal _ => b.name = Facts.biasConcealment
    | .mixing _ => b.name = Facts.biasMixing
    | .anchoring _ => b.name = Facts.biasAnchoring := by
  cases rep with
  | omission om => exact (e2eb_fired_omission hf).1
  | reversal r => exact (e2eb_fired_reversal hf).1
  | fatigue r => exact (e2eb_fired_fatigue hf).1
  | conceal r => exact (e2eb_fired_conceal hf).1
  | mixing r => exact (e2eb_fired_mixing hf).1
  | anchoring r => exact (e2eb_fired_anchoring hf).1

end e2e

/-- the hypotheses are satisfiable: a request in which a fatigue fires, an entry does not fire and an omission
    fires — positions 0 and 2 are fired positions of the response, and the state the omission received is the
    state the fatigue handed on -/
example : ∃ resp n0 p0 r0 n2 p2 r2 params chosen pr0 pr2 s0 s0' s2 s2',
    Rdm.decide id (e2ebExReq [e2ebExFatigue, e2ebExSkipped, e2ebExOmission]) e2ebExSeeds = .ok resp ∧
    resp.biases[0]? = some ⟨n0, p0, some r0⟩ ∧ resp.biases[2]? = some ⟨n2, p2, some r2⟩ ∧
    E2EBFired id (genOf e2ebExSeeds) (e2ebExReq [e2ebExFatigue, e2ebExSkipped, e2ebExOmission]) resp params chosen 0
      ⟨n0, p0, pr0⟩ r0 s0 s0' ∧
    E2EBFired id (genOf e2ebExSeeds) (e2ebExReq [e2ebExFatigue, e2ebExSkipped, e2ebExOmission]) resp params chosen 2
      ⟨n2, p2, pr2⟩ r2 s2 s2' ∧
    s0 = params ∧ s2 = s0' ∧ resp.final = s2' := by
  obtain ⟨resp, n2, p2, r2, hr, h2, _, n0, p0, r0, h0⟩ := e2eb_firedWith
    (r := Rdm.decide id (e2ebExReq [e2ebExFatigue, e2ebExSkipped, e2ebExOmission]) e2ebExSeeds)
    (j := 0) (i := 2) (k := fun _ => true) (by decide +kernel)
  have hmid : ∀ x, resp.biases[1]? = some x → x.report = none := by
    have hb : (match Rdm.decide id (e2ebExReq [e2ebExFatigue, e2ebExSkipped, e2ebExOmission]) e2ebExSeeds with
        | .ok r => (match r.biases[1]? with | some x => x.report.isNone | none => true) && r.biases.length == 3
        | .error _ => false) = true := by decide +kernel
    change (match Rdm.decide id (e2ebExReq [e2ebExFatigue, e2ebExSkipped, e2ebExOmission]) e2ebExSeeds with
        | .ok r => (match r.biases[1]? with | some x => x.report.isNone | none => true) && r.biases.length == 3
        | .error _ => false) = true at hb
    rw [hr] at hb
    intro x hx
    simp only [hx, Bool.and_eq_true] at hb
    simpa using hb.1
  have hlen : resp.biases.length = 3 := by
    have hb : (match Rdm.decide id (e2ebExReq [e2ebExFatigue, e2ebExSkipped, e2ebExOmission]) e2ebExSeeds with
        | .ok r => r.biases.length == 3
        | .error _ => false) = true := by decide +kernel
    rw [hr] at hb
    simpa using hb
  obtain ⟨params, chosen, pr2, s2, s2', hf2⟩ := e2eb_fired hr h2
  obtain ⟨params', chosen', pr0, s0, s0', hf0⟩ := e2eb_fired hr h0
  have hp := hf2.prepared.symm.trans hf0.prepared
  simp only [Except.ok.injEq, Prod.mk.injEq] at hp
  obtain ⟨rfl, rfl⟩ := hp
  refine ⟨resp, n0, p0, r0, n2, p2, r2, params, chosen, pr0, pr2, s0, s0', s2, s2', hr, h0, h2, hf0, hf2, ?_, ?_, ?_⟩
  · exact e2eb_fired_first hf0 (fun j hj => absurd hj (by omega))
  · refine e2eb_fired_prev hf2 hf0 (by omega) ?_
    intro k hk1 hk2 x hx
    have : k = 1 := by omega
    subst this
    exact hmid x hx
  · refine e2eb_fired_last hf2 ?_
    intro j hj x hx
    have := (List.getElem?_eq_some_iff.mp hx).1
    omega

end Rdm.Props.C09
