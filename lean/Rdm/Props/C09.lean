/-
  C09 — decisions are stateless: inputs untouched, reports faithful, no history.

  The model is a pure function, so "the response does not depend on earlier requests" and "the
  request value is not modified" hold of it by construction; what a pure model cannot exhibit is
  aliasing in the Go heap — that part of C09 is decided on the real code by the harness
  (deep before/after comparison of every state handed from stage to stage; see harness/main/c09.go)
  and is labelled partial in MANIFEST/DESIGN.  What IS a theorem is the hand-over discipline of the
  pipeline: every fired bias receives exactly the state the previous fired bias returned, its
  report in the response is the report it returned, and the method receives the last state.
-/
import Rdm.Model.Pipeline
namespace Rdm.Props.C09
open Rdm

variable {α : Type} [Num α] {S P Rep : Type}

/-- the hand-over chain of `processBiases` -/
inductive Chain (apply : String → P → S → S → R (S × Rep)) (orig : S) :
    List (Chosen α P) → S → List (BiasOut α Rep) → S → Prop where
  | nil (s : S) : Chain apply orig [] s [] s
  | fired (b : Chosen α P) (rest) (s s' fin : S) (rep : Rep) (outs) :
      apply b.name b.props orig s = .ok (s', rep) → Chain apply orig rest s' outs fin →
      Chain apply orig (b :: rest) s (⟨b.name, b.prob, some rep⟩ :: outs) fin
  | skipped (b : Chosen α P) (rest) (s fin : S) (outs) :
      Chain apply orig rest s outs fin →
      Chain apply orig (b :: rest) s (⟨b.name, b.prob, none⟩ :: outs) fin

/-- Every successful run of `processBiases` is a hand-over chain: bias k+1 (and finally the method)
    receives exactly what the last fired bias returned; a report in the response is the report the
    bias returned, unaltered; a bias that did not fire hands the state on unchanged. -/
theorem process_is_chain (apply : String → P → S → S → R (S × Rep)) (orig : S) :
    ∀ (chosen : List (Chosen α P)) (cur : S) (d : Draws α) (fin : S) (outs : List (BiasOut α Rep)),
      processLoop apply orig chosen cur d = .ok (fin, outs) → Chain apply orig chosen cur outs fin
  | [], cur, d, fin, outs, h => by
    simp [processLoop, pure, Except.pure] at h
    obtain ⟨rfl, rfl⟩ := h
    exact .nil _
  | b :: rest, cur, d, fin, outs, h => by
    unfold processLoop at h
    cases d with
    | nil => simp [draw, bind, Except.bind, throw, throwThe, MonadExceptOf.throw] at h
    | cons u d' =>
      simp only [draw, bind, Except.bind, pure, Except.pure] at h
      by_cases hu : u < b.prob
      · simp only [hu, if_true] at h
        cases ha : apply b.name b.props orig cur with
        | error e => simp [ha] at h
        | ok nr =>
          obtain ⟨next, rep⟩ := nr
          simp only [ha] at h
          cases hr : processLoop apply orig rest next d' with
          | error e => simp [hr] at h
          | ok fo =>
            obtain ⟨fin', outs'⟩ := fo
            simp only [hr, Except.ok.injEq, Prod.mk.injEq] at h
            obtain ⟨rfl, rfl⟩ := h
            exact .fired b rest cur next fin' rep outs' ha
              (process_is_chain apply orig rest next d' fin' outs' hr)
      · simp only [hu, if_false] at h
        cases hr : processLoop apply orig rest cur d' with
        | error e => simp [hr] at h
        | ok fo =>
          obtain ⟨fin', outs'⟩ := fo
          simp only [hr, Except.ok.injEq, Prod.mk.injEq] at h
          obtain ⟨rfl, rfl⟩ := h
          exact .skipped b rest cur fin' outs' (process_is_chain apply orig rest cur d' fin' outs' hr)

end Rdm.Props.C09
