/-
  C09 — decisions are stateless: inputs untouched, reports faithful, no history.

  The model is a pure function, so "the response does not depend on earlier requests" and "the
  request value is not modified" hold of it by construction; what a pure model cannot exhibit is
  aliasing in the Go heap — that part of C09 is decided on the real code by the harness
  (deep before/after comparison of every state handed from stage to stage; see harness/main/c09.go)
  and is labelled partial in MANIFEST/DESIGN.  What IS a theorem is the hand-over discipline of the
  pipeline: every fired bias receives exactly the state the previous fired bias returned, its
  report in the response is the report it returned, and the method receives the last state.
-/
import Rdm.Model.Pipeline
import Rdm.Props.C15
import Rdm.Props.C16
import Rdm.Props.C17
import Rdm.Props.C18
import Rdm.Props.C19
namespace Rdm.Props.C09
open Rdm

variable {α : Type} [Num α] {S P Rep : Type}

/-- the hand-over chain of `processBiases` -/
inductive Chain (apply : String → P → S → S → R (S × Rep)) (orig : S) :
    List (Chosen α P) → S → List (BiasOut α Rep) → S → Prop where
  | nil (s : S) : Chain apply orig [] s [] s
  | fired (b : Chosen α P) (rest) (s s' fin : S) (rep : Rep) (outs) :
      apply b.name b.props orig s = .ok (s', rep) → Chain apply orig rest s' outs fin →
      Chain apply orig (b :: rest) s (⟨b.name, b.prob, some rep⟩ :: outs) fin
  | skipped (b : Chosen α P) (rest) (s fin : S) (outs) :
      Chain apply orig rest s outs fin →
      Chain apply orig (b :: rest) s (⟨b.name, b.prob, none⟩ :: outs) fin

/-- Every successful run of `processBiases` is a hand-over chain: bias k+1 (and finally the method)
    receives exactly what the last fired bias returned; a report in the response is the report the
    bias returned, unaltered; a bias that did not fire hands the state on unchanged. -/
theorem process_is_chain (apply : String → P → S → S → R (S × Rep)) (orig : S) :
    ∀ (chosen : List (Chosen α P)) (cur : S) (d : Draws α) (fin : S) (outs : List (BiasOut α Rep)),
      processLoop apply orig chosen cur d = .ok (fin, outs) → Chain apply orig chosen cur outs fin
  | [], cur, d, fin, outs, h => by
    simp [processLoop, pure, Except.pure] at h
    obtain ⟨rfl, rfl⟩ := h
    exact .nil _
  | b :: rest, cur, d, fin, outs, h => by
    unfold processLoop at h
    cases d with
    | nil => simp [draw, bind, Except.bind, throw, throwThe, MonadExceptOf.throw] at h
    | cons u d' =>
      simp only [draw, bind, Except.bind, pure, Except.pure] at h
      by_cases hu : u < b.prob
      · simp only [hu, if_true] at h
        cases ha : apply b.name b.props orig cur with
        | error e => simp [ha] at h
        | ok nr =>
          obtain ⟨next, rep⟩ := nr
          simp only [ha] at h
          cases hr : processLoop apply orig rest next d' with
          | error e => simp [hr] at h
          | ok fo =>
            obtain ⟨fin', outs'⟩ := fo
            simp only [hr, Except.ok.injEq, Prod.mk.injEq] at h
            obtain ⟨rfl, rfl⟩ := h
            exact .fired b rest cur next fin' rep outs' ha
              (process_is_chain apply orig rest next d' fin' outs' hr)
      · simp only [hu, if_false] at h
        cases hr : processLoop apply orig rest cur d' with
        | error e => simp [hr] at h
        | ok fo =>
          obtain ⟨fin', outs'⟩ := fo
          simp only [hr, Except.ok.injEq, Prod.mk.injEq] at h
          obtain ⟨rfl, rfl⟩ := h
          exact .skipped b rest cur fin' outs' (process_is_chain apply orig rest cur d' fin' outs' hr)

/-! ### what a bias reports is what the next stage receives (per bias, on the model)

The pipeline hands `res` (first component of what `apply` returns) to the next stage and puts `rep`
(second component) into the response, unaltered (`process_is_chain`).  The theorems below state, for
each bias, that `rep` describes exactly `res`. -/

/-- fatigue: the report carries exactly the considered / not-considered alternatives handed on, and `f` -/
theorem fatigue_report_is_the_state_handed_on {f : Rat} {b : Bounding Rat} {cur res : DMP Rat} {vd sd : Draws Rat}
    {rep : FatigueReport Rat} (h : fatigueBlur f b cur vd sd = .ok (res, rep)) (hd : ∀ u ∈ vd, 0 ≤ u ∧ u < 1) :
    rep.co = res.co ∧ rep.nc = res.nc ∧ rep.f = f :=
  let t := Rdm.Props.C17.fatigue_blurs_within_ratio h hd
  ⟨t.2.2.2.1, t.2.2.2.2.1, t.2.2.1⟩

/-- preference reversal: for every mirrored criterion the report lists id, type, range and, for every known
    alternative as handed on, exactly the value it now holds -/
theorem reversal_report_is_the_state_handed_on {α : Type} [Num α] {sel : List (Crit α)} {cur res : DMP α}
    {rep : List (Reversed α)} (h : reverseSelected sel cur = .ok (res, rep)) (hs : (sel.map (·.id)).Nodup)
    (ha : (cur.all.map (·.id)).Nodup) :
    ∃ toRev, criteriaToReverse sel cur = .ok toRev ∧ toRev.map (·.1) = sel ∧
      List.Forall₂ (Rdm.BiasA.ReportEntryOk res.all) toRev rep :=
  Rdm.Props.C16.report_is_faithful h hs ha

/-- concealment: every alternative handed on carries, for the new criterion, a value listed in the report,
    next to its untouched old values -/
theorem concealment_report_is_the_state_handed_on {α : Type} [Num α] {eps : α} {orig cur : DMP α} {p : Props α}
    {rd g : Draws α} {res : DMP α} {rep : ConcealReport α} (h : conceal eps orig cur p rd g = .ok (res, rep)) :
    res.co.map (·.id) = cur.co.map (·.id) ∧ res.nc.map (·.id) = cur.nc.map (·.id) ∧
    rep.values.length = (cur.co ++ cur.nc).length ∧
    ∀ a' ∈ res.co ++ res.nc, ∃ a ∈ cur.co ++ cur.nc, ∃ v,
      a'.id = a.id ∧ a'.vals = a.vals ++ [(rep.id, v)] ∧ a.vals.has rep.id = false ∧ (a.id, v) ∈ rep.values :=
  Rdm.Props.C18.conceal_gives_every_alternative_a_value_and_keeps_the_rest h

/-- omission: the state handed on holds exactly the kept criteria with unchanged values and the listener's
    restricted parameters; the reported (omitted) criteria are the other part of the split -/
theorem omission_report_is_the_state_handed_on {α : Type} [Num α] {eps : α} {c : SplitCond α} {name : String}
    {cur res : DMP α} {d : Draws α} {omitted : List (Crit α)} (h : omissionApply eps c name cur d = .ok (res, omitted)) :
    List.Forall₂ (Rdm.BiasA.RestrictedTo res.crit) cur.co res.co ∧
      List.Forall₂ (Rdm.BiasA.RestrictedTo res.crit) cur.nc res.nc ∧
      onRemoved cur.mp res.crit = .ok res.mp :=
  Rdm.Props.C15.omission_restricts h

/-- inline anchoring: the reported applied difference of every criterion is exactly new − old of the values
    handed on -/
theorem anchoring_inline_report_is_new_minus_old {α : Type} [Num α] {b : Bounding α} {sc : KMap (Scale α)}
    {p : AltDiffs α} {a' d' : Alt α} (h : inlineOne b sc p = .ok (a', d')) (hnd : (sc.map (·.1)).Nodup) :
    a'.id = p.1.id ∧ d'.id = p.1.id ∧
    ∃ avg, arithmeticAverage p.2 = .ok avg ∧
      ∀ cs ∈ sc, ∃ mean v, avg.get? cs.1 = some mean ∧ p.1.vals.get? cs.1 = some v ∧
        a'.vals.get? cs.1 = some (inlineValue b cs.2.2 v mean) ∧
        d'.vals.get? cs.1 = some (inlineValue b cs.2.2 v mean - v) :=
  Rdm.Props.C19.inline_applier_shifts_every_criterion_and_reports_new_minus_old h hnd

end Rdm.Props.C09
