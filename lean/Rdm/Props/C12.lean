/-
  C12 — aspect elimination ranks in reverse order of elimination.
  Property theorems only (helper lemmas: Rdm/Lemmas/HeurAspect.lean, HeurLinks.lean, HeurList.lean,
  HeurH12.lean, HeurH12Spec.lean).
  Structural theorems are generic in the number type and hold for every criteria order handed to
  `aspectCore` (so also for every weight-compatible order when weights are tied) and every number of
  alternatives, criteria and levels; the statements about the descending-weight order are over `Rat`.

  Model: Rdm/Model/Heuristics.lean (`sortCriteriaDesc`, `isBelowThreshold`, `aspAltLoop`,
  `aspCritLoop`, `aspLevelLoop`, `aspCheck`, `aspResult`, `aspectCore`); spec: Rdm/Spec/C12.lean.
-/
import Rdm.Model.Heuristics
import Rdm.Spec.C12
import Rdm.Lemmas.NumRat
import Rdm.Lemmas.HeurList
import Rdm.Lemmas.HeurLinks
import Rdm.Lemmas.HeurAspect
import Rdm.Lemmas.HeurH12
import Rdm.Lemmas.HeurH12Spec
import Mathlib.Tactic.Linarith
import Rdm.Lemmas.E2EMethods
import Rdm.Lemmas.E2EMethodsLevels
import Rdm.Lemmas.E2EMethodsExamples
set_option linter.unusedSectionVars false
set_option linter.unusedSimpArgs false
namespace Rdm.Props.C12
open Rdm
variable {α : Type} [Num α]

/-- **result = survivors ++ reverse eliminated**: the ranking lists the survivors (index reported:
    `thresholdIndex + 1`, empty threshold map) and then the eliminated alternatives in reverse order of
    elimination, each linked to its successor only -/
theorem result_is_survivors_then_reverse_eliminated (crits : List (Crit α)) (levels : List (KMap α))
    (alts : List (Alt α)) (out : List (Linked (AspEval α))) (h : aspectCore crits levels alts = Except.ok out) :
    ∃ left elims si, aspCheck crits levels alts = Except.ok (left, elims, si) ∧
      out = sequentialRanking (left.map (fun a => (a.id, (⟨si, []⟩ : AspEval α))) ++ elims.reverse) := by
  unfold aspectCore at h
  obtain ⟨⟨left, elims, si⟩, h1, h⟩ := R.bind_eq_ok h
  simp [aspResult] at h
  exact ⟨left, elims, si, h1, h.symm⟩

/-- what `aspCheck` returns, for alternatives with pairwise different ids -/
theorem check_spec (crits : List (Crit α)) (levels : List (KMap α)) (alts left : List (Alt α))
    (elims : List (AspRes α)) (si : Nat) (hnd : (alts.map (·.id)).Nodup)
    (h : aspCheck crits levels alts = Except.ok (left, elims, si)) :
    (elims.map (·.1) ++ left.map (·.id)).Perm (alts.map (·.id)) ∧ left.Sublist alts ∧
    (∀ p ∈ elims, ∃ j t, p.2.idx = j ∧ levels[j]? = some t ∧
       ∃ pre c post, crits = pre ++ c :: post ∧ p.2 = elimReport j t c ∧
         ∃ a ∈ alts, a.id = p.1 ∧ BelowAt a t c ∧ (∀ c' ∈ pre, NotBelowAt a t c') ∧
           ∀ j' < j, ∀ t', levels[j']? = some t' → ∀ c' ∈ crits, NotBelowAt a t' c') ∧
    (alts ≠ [] → 1 ≤ left.length) ∧ si ≤ levels.length ∧
    (alts.length ≤ 1 → left = alts ∧ elims = [] ∧ si = 0) ∧
    (2 ≤ left.length → si = levels.length ∧ ∀ a ∈ left, ∀ t ∈ levels, ∀ c ∈ crits, NotBelowAt a t c) := by
  unfold aspCheck at h
  by_cases hl : alts.length ≤ 1
  · simp only [hl, if_true] at h
    simp at h
    obtain ⟨rfl, rfl, rfl⟩ := h
    refine ⟨by simp, List.Sublist.refl _, by simp, ?_, by simp, fun _ => ⟨rfl, rfl, rfl⟩, fun h2 => by omega⟩
    intro hne; cases alts with
    | nil => simp at hne
    | cons x xs => simp
  · simp only [hl, if_false] at h
    obtain ⟨p1, p2, p3, p4, p5, p6⟩ := aspLevelLoop_spec hnd (by omega) h
    refine ⟨p1, p2, ?_, fun _ => p4, by simpa using p5, fun h1 => absurd h1 hl, ?_⟩
    · intro p hp
      obtain ⟨j, t, hj, hlv, pre, c, post, hsplit, r1, rest⟩ := p3 p hp
      refine ⟨j, t, by simpa using hj, hlv, pre, c, post, hsplit, ?_, rest⟩
      simpa using r1
    · intro h2; simpa using p6 h2

/-- **permutation**: every considered alternative is ranked exactly once -/
theorem result_is_permutation (crits : List (Crit α)) (levels : List (KMap α)) (alts : List (Alt α))
    (out : List (Linked (AspEval α))) (hnd : (alts.map (·.id)).Nodup)
    (h : aspectCore crits levels alts = Except.ok out) : (out.map (·.id)).Perm (alts.map (·.id)) := by
  obtain ⟨left, elims, si, hc, rfl⟩ := result_is_survivors_then_reverse_eliminated crits levels alts out h
  obtain ⟨p1, _⟩ := check_spec crits levels alts left elims si hnd hc
  rw [heurSeq_ids]
  simp only [List.map_append, List.map_map, List.map_reverse]
  have : (List.map (Prod.fst ∘ fun a : Alt α => (a.id, (⟨si, []⟩ : AspEval α))) left) = left.map (·.id) := by
    simp [Function.comp_def]
  rw [this]
  exact (List.perm_append_comm.trans (List.Perm.append_right _ (List.reverse_perm _))).trans p1

/-- **links**: entry `i` is linked to entry `i+1` only -/
theorem links_are_sequential (crits : List (Crit α)) (levels : List (KMap α)) (alts : List (Alt α))
    (out : List (Linked (AspEval α))) (h : aspectCore crits levels alts = Except.ok out)
    (i : Nat) (e : Linked (AspEval α)) (he : out[i]? = some e) :
    e.links = ((out.map (·.id))[i + 1]?).toList := by
  obtain ⟨left, elims, si, _, rfl⟩ := result_is_survivors_then_reverse_eliminated crits levels alts out h
  rw [heurSeq_ids]; exact heurSeq_links _ i e he

/-- **the reported level / criterion / threshold is the failed check**: an entry with a non-empty
    threshold map reports (level index ℓ, {c ↦ t_ℓ[c]}) for a level ℓ of the list and a criterion c of
    the examination order, its alternative really is worse than t_ℓ[c] on c, **and it passed every
    check made before that one** (criteria examined earlier at level ℓ, all criteria at every earlier
    level); every other entry is a
    survivor: it reports `thresholdIndex+1 ≤ #levels` and the empty map -/
theorem entry_semantics (crits : List (Crit α)) (levels : List (KMap α)) (alts : List (Alt α))
    (out : List (Linked (AspEval α))) (hnd : (alts.map (·.id)).Nodup)
    (h : aspectCore crits levels alts = Except.ok out) (e : Linked (AspEval α)) (he : e ∈ out) :
    (∃ t, levels[e.ev.idx]? = some t ∧ ∃ pre c post, crits = pre ++ c :: post ∧
       e.ev.thr = [(c.id, levelValue t c.id)] ∧
       ∃ a ∈ alts, a.id = e.id ∧ BelowAt a t c ∧
         -- … having passed every check made before that one: the heavier criteria at the same level
         (∀ c' ∈ pre, NotBelowAt a t c') ∧
         -- and every criterion at every earlier level
         (∀ j' < e.ev.idx, ∀ t', levels[j']? = some t' → ∀ c' ∈ crits, NotBelowAt a t' c')) ∨
    (e.ev.thr = [] ∧ e.ev.idx ≤ levels.length ∧ ∃ a ∈ alts, a.id = e.id) := by
  obtain ⟨left, elims, si, hc, rfl⟩ := result_is_survivors_then_reverse_eliminated crits levels alts out h
  obtain ⟨_, p2, p3, _, p5, _, _⟩ := check_spec crits levels alts left elims si hnd hc
  rcases List.mem_append.mp (heurSeq_mem _ e he) with hm | hm
  · right
    obtain ⟨a, ha, hpair⟩ := List.mem_map.mp hm
    have hid : a.id = e.id := congrArg Prod.fst hpair
    have hev : (⟨si, []⟩ : AspEval α) = e.ev := congrArg Prod.snd hpair
    exact ⟨by rw [← hev], by rw [← hev]; exact p5, a, p2.subset ha, hid⟩
  · left
    obtain ⟨j, t, hj, hlv, pre, c, post, hsplit, r1, a, ha, hid, hb, hpre, hearlier⟩ := p3 _ (List.mem_reverse.mp hm)
    simp only at hj r1 hid
    refine ⟨t, by rw [hj]; exact hlv, pre, c, post, hsplit, by rw [r1]; rfl, a, ha, hid, hb, hpre, ?_⟩
    rw [hj]; exact hearlier

/-- **reverse order of elimination**: `elims` — which the ranking lists backwards after the
    survivors — is the chronological record of the procedure: level indices never decrease along it,
    within a level the rank of the reported criterion in the examination order never decreases, and the
    alternatives failing one and the same check appear in the order they were examined; the survivors
    keep their examination order -/
theorem eliminations_are_in_check_order (crits : List (Crit α)) (levels : List (KMap α))
    (alts left : List (Alt α)) (elims : List (AspRes α)) (si : Nat)
    (hndc : (crits.map (·.id)).Nodup) (hnd : (alts.map (·.id)).Nodup)
    (h : aspCheck crits levels alts = Except.ok (left, elims, si)) :
    left.Sublist alts ∧
    (elims.map (·.2.idx)).Pairwise (· ≤ ·) ∧
    (∀ ℓ, ((elims.filter (fun p => p.2.idx == ℓ)).map (critRank crits)).Pairwise (· ≤ ·)) ∧
    ∀ ℓ k, ((elims.filter (fun p => p.2.idx == ℓ && critRank crits p == k)).map (·.1)).Sublist (alts.map (·.id)) := by
  refine ⟨(check_spec crits levels alts left elims si hnd h).2.1, ?_⟩
  unfold aspCheck at h
  by_cases hl : alts.length ≤ 1
  · simp only [hl, if_true] at h
    simp at h
    obtain ⟨_, rfl, _⟩ := h
    simp
  · simp only [hl, if_false] at h
    obtain ⟨o1, _, o3, o4⟩ := aspLevelLoop_order hndc hnd (by omega) h
    exact ⟨o1, o3, o4⟩

/-- **stop rule**: elimination never removes the last alternative — with at least one alternative at
    least one survives, hence at most `n − 1` are ever eliminated -/
theorem at_least_one_survivor (crits : List (Crit α)) (levels : List (KMap α)) (alts left : List (Alt α))
    (elims : List (AspRes α)) (si : Nat) (hnd : (alts.map (·.id)).Nodup) (hne : alts ≠ [])
    (h : aspCheck crits levels alts = Except.ok (left, elims, si)) :
    1 ≤ left.length ∧ elims.length + left.length = alts.length := by
  obtain ⟨p1, _, _, p4, _⟩ := check_spec crits levels alts left elims si hnd h
  refine ⟨p4 hne, ?_⟩
  have := p1.length_eq
  simpa using this

/-- **stop rule, the single survivor**: when the procedure ends with one alternative (of at least
    two), the last elimination is the one that triggered the stop — the survivor reports the level
    index of that elimination plus one, and it heads the ranking directly above that last eliminated one -/
theorem single_survivor_reports_level_after_last_elimination (crits : List (Crit α)) (levels : List (KMap α))
    (alts left : List (Alt α)) (elims : List (AspRes α)) (si : Nat) (hnd : (alts.map (·.id)).Nodup)
    (h : aspCheck crits levels alts = Except.ok (left, elims, si)) (h2 : 2 ≤ alts.length)
    (h1 : left.length ≤ 1) :
    ∃ p, elims.getLast? = some p ∧ si = p.2.idx + 1 ∧ (aspResult left elims si)[left.length]? = some p := by
  unfold aspCheck at h
  have hl : ¬ alts.length ≤ 1 := by omega
  simp only [hl, if_false] at h
  obtain ⟨p, hp, hi⟩ := aspLevelLoop_stop hnd h2 h h1
  refine ⟨p, hp, hi, ?_⟩
  unfold aspResult
  rw [List.getElem?_append_right (by simp)]
  simp only [List.length_map, Nat.sub_self]
  cases hrev : elims.reverse with
  | nil => simp at hrev; simp [hrev] at hp
  | cons x xs =>
    have : elims.getLast? = some x := by
      have := congrArg List.head? hrev
      simpa [List.head?_reverse] using this
    simp [← this, hp]

/-- **stop rule, second half**: if two or more alternatives survive, every level was examined (the
    survivors report `#levels`) and each survivor passed every check of every level -/
theorem several_survivors_passed_everything (crits : List (Crit α)) (levels : List (KMap α))
    (alts left : List (Alt α)) (elims : List (AspRes α)) (si : Nat) (hnd : (alts.map (·.id)).Nodup)
    (h : aspCheck crits levels alts = Except.ok (left, elims, si)) (h2 : 2 ≤ left.length) :
    si = levels.length ∧ ∀ a ∈ left, ∀ t ∈ levels, ∀ c ∈ crits, NotBelowAt a t c :=
  (check_spec crits levels alts left elims si hnd h).2.2.2.2.2.2 h2

/-- **single alternative ⇒ index 0 and no elimination** (for any levels and criteria; likewise for
    an empty considered list) -/
theorem single_alternative (crits : List (Crit α)) (levels : List (KMap α)) (a : Alt α) :
    aspectCore crits levels [a] = Except.ok [⟨a.id, ⟨0, []⟩, []⟩] := rfl

theorem no_alternative (crits : List (Crit α)) (levels : List (KMap α)) :
    aspectCore crits levels ([] : List (Alt α)) = Except.ok [] := rfl

/-- with no level at all nothing is eliminated and everybody reports index 0 -/
theorem no_levels (crits : List (Crit α)) (alts : List (Alt α)) :
    aspCheck crits [] alts = Except.ok (alts, [], 0) := by
  unfold aspCheck; split <;> rfl

/-- what "worse than the threshold" means: signed value below signed threshold -/
theorem belowAt_iff (a : Alt α) (t : KMap α) (c : Crit α) :
    BelowAt a t c ↔ ∃ v, a.signed c = Except.ok v ∧ v < levelValue t c.id * c.mult := by
  unfold BelowAt isBelowThreshold
  constructor
  · intro h
    obtain ⟨v, h1, h2⟩ := R.bind_eq_ok h
    simp at h2
    exact ⟨v, h1, h2⟩
  · rintro ⟨v, h1, h2⟩
    rw [h1]; simp [h2]

/-- cost-criterion sign handling, over the rationals: a gain criterion fails when its value is below
    the threshold, a cost criterion when its value is above it -/
theorem belowAt_gain_cost (a : Alt Rat) (t : KMap Rat) (c : Crit Rat) (v : Rat) (hv : a.raw c = Except.ok v) :
    BelowAt a t c ↔ (if c.type = "cost" then levelValue t c.id < v else v < levelValue t c.id) := by
  rw [belowAt_iff]
  unfold Alt.signed Crit.mult
  rw [hv]
  by_cases hc : c.type = "cost"
  · simp [hc]
  · simp [hc]

/-- the examination order for pairwise distinct weights: a permutation of the criteria in
    non-increasing weight … -/
theorem sortCriteriaDesc_sorted (wc : List (WCrit Rat)) :
    (sortCriteriaDesc wc).Perm wc ∧ (sortCriteriaDesc wc).Pairwise (fun a b => b.w ≤ a.w) := by
  refine ⟨List.mergeSort_perm _ _, ?_⟩
  have := List.pairwise_mergeSort (le := fun a b : WCrit Rat => !decide (a.w < b.w))
    (by intro a b c h1 h2; simp at *; linarith)
    (by intro a b; simp; rcases le_total a.w b.w with h | h <;> simp [h]) wc
  exact this.imp (by intro a b h; simpa using h)

/-- … and the only strictly descending one: for distinct weights the order `sort.Slice` produces is
    determined, whatever its comparator draws -/
theorem descending_order_unique (wc o : List (WCrit Rat)) (hp : o.Perm wc)
    (hs : o.Pairwise (fun a b => b.w < a.w)) : o = sortCriteriaDesc wc := by
  obtain ⟨sp, ss⟩ := sortCriteriaDesc_sorted wc
  apply List.Perm.eq_of_pairwise (le := fun a b : WCrit Rat => b.w ≤ a.w) _ (hs.imp (fun h => le_of_lt h)) ss
    (hp.trans sp.symm)
  intro a b ha hb h1 h2
  have hb' : b ∈ o := (hp.trans sp.symm).symm.subset hb
  rcases pairwise_mem_cases hs ha hb' with h | h | h
  · exact h
  · exact absurd h (not_lt.mpr h2)
  · exact absurd h (not_lt.mpr h1)

/-- **stop rule, what the single survivor passed**: when the procedure ends with one alternative `s`
    (of at least two, distinct ids), the last elimination `p` — alternative `b`, level `ℓ* = p.2.idx`,
    criterion `c*` with `crits = pre ++ c* :: post` — is the one that triggered the stop, the survivor
    reports `ℓ* + 1`, and it was not worse than the threshold on any check made before the stop: every
    criterion at every level `j' < ℓ*`, every criterion of `pre` (those examined before `c*`) at level
    `ℓ*`, and — if `s` is examined before `b` (its first index in `alts` is smaller) — `c*` at level
    `ℓ*` too.  (If `s` comes after `b` it was never compared on `c*` at level `ℓ*`: the loop broke.) -/
theorem single_survivor_passed_all_checks_before_the_stop (crits : List (Crit α)) (levels : List (KMap α))
    (alts left : List (Alt α)) (elims : List (AspRes α)) (si : Nat) (hnd : (alts.map (·.id)).Nodup)
    (h : aspCheck crits levels alts = Except.ok (left, elims, si)) (h2 : 2 ≤ alts.length)
    (h1 : left.length ≤ 1) :
    ∃ p s, elims.getLast? = some p ∧ left = [s] ∧ s ∈ alts ∧ si = p.2.idx + 1 ∧
      ∃ t pre c post b, levels[p.2.idx]? = some t ∧ crits = pre ++ c :: post ∧
        p = (b.id, elimReport p.2.idx t c) ∧ b ∈ alts ∧
        (∀ j' < p.2.idx, ∀ t', levels[j']? = some t' → ∀ c' ∈ crits, NotBelowAt s t' c') ∧
        (∀ c' ∈ pre, NotBelowAt s t c') ∧
        (idxOf (alts.map (·.id)) s.id < idxOf (alts.map (·.id)) b.id → NotBelowAt s t c) := by
  unfold aspCheck at h
  have hl : ¬ alts.length ≤ 1 := by omega
  simp only [hl, if_false] at h
  obtain ⟨j, t, pre, c, post, mid, pre_r, b, post_r, hlv, hsi, hsplit, hm1, hm2, hmid, hlast, q0, q1, q2⟩ :=
    heurH12_levelLoop_stop hnd h2 h h1
  obtain ⟨_, _, _, p4, _, _⟩ := aspLevelLoop_spec hnd h2 h
  obtain ⟨s, rfl⟩ : ∃ s, left = [s] := by
    match left, h1, p4 with
    | [s], _, _ => exact ⟨s, rfl⟩
    | [], _, p4 => simp at p4
    | _ :: _ :: _, h1, _ => simp at h1
  have hsm : s ∈ mid := hm2.subset (by simp)
  have hbm : b ∈ mid := by rw [hmid]; simp
  simp only [Nat.zero_add] at hlast hsi
  refine ⟨_, s, hlast, rfl, hm1.subset hsm, hsi, t, pre, c, post, b, hlv, hsplit, rfl, hm1.subset hbm,
    q0 s (by simp), q1 s (by simp), ?_⟩
  intro hlt
  apply q2 s (by simp)
  rw [hmid] at hsm
  rcases List.mem_append.mp hsm with hs | hs
  · exact hs
  · exfalso
    rcases List.mem_cons.mp hs with rfl | hs
    · exact Nat.lt_irrefl _ hlt
    · have hsub : [b, s].Sublist mid := by
        rw [hmid]
        exact (List.nil_sublist pre_r).append ((List.singleton_sublist.mpr hs).cons_cons b)
      have hsub2 : [b.id, s.id].Sublist (alts.map (·.id)) :=
        (hsub.trans hm1).map (fun x : Alt α => x.id)
      have := heurH12_findIdx_lt_of_sublist hsub2 hnd
      unfold idxOf at hlt
      omega


/-! ### the spec checker accepts the model's output -/

/-- **the model's output passes the checker the driver evaluates on the Go code's output**, for ANY
    criteria order `crits` handed to `aspectCore` (in particular for every weight-compatible order when
    weights are tied) and any number of alternatives, criteria and levels.  All clauses of
    `Spec.C12.explainWith`: duplicate-free, permutation, sequential links, survivors (empty map) first,
    every elimination report well formed with keys (level, criterion rank, position) strictly increasing
    in chronological order, each report naming the level's threshold, really below it and not below
    any earlier check, survivors in examination order, and the three survivor cases (single alternative:
    index 0; single survivor of ≥ 2: index ℓ*+1, passed every check before the stop; ≥ 2 survivors:
    index #levels, passed everything).

    Hypotheses about the inputs (all decidable): alternative ids and criterion ids pairwise different
    (the checker rejects duplicate alternative ids itself; criterion ranks are looked up by id), and
    `hthr`: **every level has a threshold for every criterion**.  The last one is needed because the
    model's `levelValue` — like the Go map read `t[c.Id]` — yields 0 for a missing key and reports
    `{c ↦ 0}`, whereas the checker's `below` / `t.get? c.id != some reported` treat a missing threshold
    as an error ("reported-threshold-is-not-the-level's"); the levels the harness feeds are generated by
    the registered sources over the criteria list, or explicit lists completed per criterion, so the
    hypothesis describes the checker's domain.  Missing *alternative* values need no hypothesis: a
    comparison that was made and did not panic had its value (`NotBelowAt`/`BelowAt` imply it). -/
theorem model_output_passes_spec_with (crits : List (Crit Rat)) (levels : List (KMap Rat)) (alts : List (Alt Rat))
    (out : List (Linked (AspEval Rat))) (h : aspectCore crits levels alts = Except.ok out)
    (hnd : (alts.map (·.id)).Nodup) (hndc : (crits.map (·.id)).Nodup)
    (hthr : ∀ t ∈ levels, ∀ c ∈ crits, (t.get? c.id).isSome) :
    Spec.C12.explainWith alts levels crits out = "ok" := by
  have hperm := result_is_permutation crits levels alts out hnd h
  obtain ⟨left, elims, si, hc, rfl⟩ := result_is_survivors_then_reverse_eliminated crits levels alts out h
  obtain ⟨p1, p2, p3, p4, p5, p6, p7⟩ := check_spec crits levels alts left elims si hnd hc
  obtain ⟨_, o1, o3, o4⟩ := eliminations_are_in_check_order crits levels alts left elims si hndc hnd hc
  obtain ⟨oS, oE, hout, hoS, hoE⟩ := List.map_eq_append_iff.mp
    (heurSeq_payload (left.map (fun a => (a.id, (⟨si, []⟩ : AspEval Rat))) ++ elims.reverse))
  rw [hout] at hperm ⊢
  -- the entries of the two halves
  have hSmem : ∀ e ∈ oS, ∃ a ∈ left, a.id = e.id ∧ e.ev = ⟨si, []⟩ := by
    intro e he
    have : (e.id, e.ev) ∈ left.map (fun a => (a.id, (⟨si, []⟩ : AspEval Rat))) := by
      rw [← hoS]; exact List.mem_map.mpr ⟨e, he, rfl⟩
    obtain ⟨a, ha, hp⟩ := List.mem_map.mp this
    exact ⟨a, ha, congrArg Prod.fst hp, (congrArg Prod.snd hp).symm⟩
  have hEmem : ∀ e ∈ oE, (e.id, e.ev) ∈ elims := by
    intro e he
    have : (e.id, e.ev) ∈ elims.reverse := by
      rw [← hoE]; exact List.mem_map.mpr ⟨e, he, rfl⟩
    exact List.mem_reverse.mp this
  have hlenS : oS.length = left.length := by
    have := congrArg List.length hoS; simpa using this
  have hidsS : oS.map (·.id) = left.map (·.id) := by
    have := congrArg (List.map Prod.fst) hoS
    simpa [List.map_map, Function.comp_def] using this
  have hkeysE : oE.reverse.map (fun e => heurH12_key alts crits (e.id, e.ev)) = elims.map (heurH12_key alts crits) := by
    have := congrArg (fun l => l.reverse.map (heurH12_key alts crits)) hoE
    simpa [List.map_map, Function.comp_def, List.map_reverse] using this
  have hnb : ∀ {a : Alt Rat} {t : KMap Rat} {c : Crit Rat}, t ∈ levels → c ∈ crits → NotBelowAt a t c →
      Spec.C12.below a t c = some false :=
    fun ht hc h => heurH12_below_of_model h (hthr _ ht _ hc)
  have hfind : ∀ {a : Alt Rat} {e : Linked (AspEval Rat)}, a ∈ alts → a.id = e.id →
      alts.find? (fun x => x.id == e.id) = some a :=
    fun ha hid => by rw [← hid]; exact heurH12_find_of_mem hnd ha
  apply heurH12_explainWith_ok hnd (heurH12_isPermIds hperm) (by rw [← hout]; exact heurH12_sequentialLinks _)
    (key := fun e => heurH12_key alts crits (e.id, e.ev))
  · -- survivors carry the empty map
    intro e he
    obtain ⟨_, _, _, hev⟩ := hSmem e he
    rw [hev]; rfl
  · -- eliminated entries carry a one-entry map
    intro e he
    obtain ⟨j, t, _, _, pre, c, post, _, r1, _⟩ := p3 _ (hEmem e he)
    simp only at r1
    rw [r1]; rfl
  · -- their keys are well formed
    intro e he
    obtain ⟨j, t, _, _, pre, c, post, hsplit, r1, _⟩ := p3 _ (hEmem e he)
    simp only at r1
    exact heurH12_keyOf (c := c) (by rw [hsplit]; simp) (by rw [r1]; rfl)
  · -- strictly increasing in chronological order
    rw [hkeysE]
    exact heurH12_strictlyIncreasing (heurH12_keys_pairwise hnd o1 o3 o4)
  · -- each elimination report is the first failed check
    intro e he
    obtain ⟨j, t, hj, hlv, pre, c, post, hsplit, r1, a, ha, hid, hb, hpre, hearlier⟩ := p3 _ (hEmem e he)
    simp only at hj r1 hid
    subst hj
    have htl : t ∈ levels := List.mem_of_getElem? hlv
    have hcc : c ∈ crits := by rw [hsplit]; simp
    refine heurH12_eliminatedOk hnd hndc ha hid hlv hsplit (by rw [r1]; rfl)
      (hthr t htl c hcc) (heurH12_below_of_model hb (hthr t htl c hcc)) ?_
    apply heurH12_passesBefore
    intro li t' ki c' hl' hc' hcond
    have hc'm : c' ∈ crits := List.mem_of_getElem? hc'
    rcases hcond with hlt | ⟨rfl, hk | ⟨hf, _⟩⟩
    · exact hnb (List.mem_of_getElem? hl') hc'm (hearlier li hlt t' hl' c' hc'm)
    · have : t' = t := by rw [hl'] at hlv; exact Option.some.inj hlv
      subst this
      have hc'p : c' ∈ pre := by
        rw [hsplit, List.getElem?_append_left hk] at hc'
        exact List.mem_of_getElem? hc'
      exact hnb htl hc'm (hpre c' hc'p)
    · exact absurd hf (by simp)
  · -- survivors in examination order
    have : oS.map (fun e => ((0 : Nat), (0 : Nat), Spec.C12.idxOfStr (alts.map (·.id)) e.id))
        = (oS.map (·.id)).map (fun x => ((0 : Nat), (0 : Nat), Spec.C12.idxOfStr (alts.map (·.id)) x)) := by
      rw [List.map_map]; rfl
    rw [this, hidsS]
    exact heurH12_spos (p2.map _) hnd
  · -- at least one survivor
    intro hne hnil
    have := p4 hne
    rw [hnil] at hlenS
    simp at hlenS
    omega
  · -- a single alternative reports index 0
    intro hl1 s hs
    obtain ⟨_, _, _, hev⟩ := hSmem s hs
    rw [hev, (p6 (by omega)).2.2]
  · -- the single survivor of ≥ 2 alternatives
    intro s hs hl2
    have hleft1 : left.length ≤ 1 := by rw [← hlenS, hs]; simp
    obtain ⟨p, sa, hlast, hleft, hsa, hsi, t, pre, c, post, b, hlv, hsplit, hp, hb, q0, q1, q2⟩ :=
      single_survivor_passed_all_checks_before_the_stop crits levels alts left elims si hnd hc hl2 hleft1
    obtain ⟨a, ha, hid, hev⟩ := hSmem s (by rw [hs]; simp)
    rw [hleft] at ha
    have : a = sa := by simpa using ha
    subst this
    have htl : t ∈ levels := List.mem_of_getElem? hlv
    have hk : critRank crits p = pre.length := by
      rw [hp, hsplit]
      show ((pre ++ c :: post).map (·.id)).findIdx (· == c.id) = pre.length
      exact heurH12_findIdx_split (·.id) pre c post (by rw [← hsplit]; exact hndc)
    refine ⟨p.2.idx, critRank crits p, Spec.C12.idxOfStr (alts.map (·.id)) p.1, a, ?_, hfind hsa hid, ?_, ?_⟩
    · rw [hkeysE, List.getLast?_map, hlast]; rfl
    · rw [hev, hsi]
    · apply heurH12_passesBefore
      intro li t' ki c' hl' hc' hcond
      have hc'm : c' ∈ crits := List.mem_of_getElem? hc'
      rcases hcond with hlt | ⟨rfl, hkk | ⟨hf, rfl⟩⟩
      · exact hnb (List.mem_of_getElem? hl') hc'm (q0 li hlt t' hl' c' hc'm)
      · have : t' = t := by rw [hl'] at hlv; exact Option.some.inj hlv
        subst this
        have hc'p : c' ∈ pre := by
          rw [hk] at hkk
          rw [hsplit, List.getElem?_append_left hkk] at hc'
          exact List.mem_of_getElem? hc'
        exact hnb htl hc'm (q1 c' hc'p)
      · have : t' = t := by rw [hl'] at hlv; exact Option.some.inj hlv
        subst this
        have : c' = c := by
          rw [hk, hsplit] at hc'
          simpa using hc'.symm
        subst this
        apply hnb htl hc'm
        apply q2
        have hf' := of_decide_eq_true hf
        rw [hp] at hf'
        rw [← hid] at hf'
        exact hf'
  · -- several survivors passed everything
    intro hl2 s hs
    obtain ⟨a, ha, hid, hev⟩ := hSmem s hs
    obtain ⟨r1, r2⟩ := p7 (by omega)
    refine ⟨by rw [hev, r1], a, hfind (p2.subset ha) hid, ?_⟩
    apply heurH12_passesAll
    intro t ht c hc
    exact hnb ht hc (r2 a ha t ht c hc)

/-- the same with the checker called exactly as the driver op `check-c12` (`Ops.opCheckC12`) calls it —
    `alts` = the ordered considered alternatives (`OrderAlternatives`), `wc` = criteria zipped with the
    weights, `lvl` = the levels — for ANY examination order `order wc` that is a permutation of `wc`
    in non-increasing weight (what `sort.Slice` can produce when weights are tied).  When exactly one
    order is weight-compatible the checker demands that one (it is `order wc`); otherwise it accepts
    an output explained by some compatible order, and `order wc` is one.  Distinct ids of the
    considered alternatives carry over to `alts` because ordering is a permutation. -/
theorem model_output_passes_spec_for_order (d : DMP Rat) (ds ds' : Draws Rat) (fn : String) (lv : Levels Rat)
    (seed : Int) (w : KMap Rat) (rnd : Bool) (lvl : List (KMap Rat))
    (order : List (WCrit Rat) → List (WCrit Rat)) (alts : List (Alt Rat)) (wc : List (WCrit Rat))
    (out : List (Linked (AspEval Rat)))
    (hmp : d.mp = .aspect fn lv seed w rnd)
    (hev : aspectEvaluateWith d ds (Except.ok lvl) order = Except.ok out)
    (halts : orderAlternatives rnd d.co ds = Except.ok (alts, ds'))
    (hwc : zipWithWeights d.crit w = Except.ok wc)
    (hperm : (order wc).Perm wc) (hdesc : Spec.C12.descending (order wc) = true)
    (hnd : (d.co.map (·.id)).Nodup) (hndc : (d.crit.map (·.id)).Nodup)
    (hthr : ∀ t ∈ lvl, ∀ c ∈ d.crit, (t.get? c.id).isSome) :
    Spec.C12.check alts wc lvl out = true := by
  unfold aspectEvaluateWith at hev
  rw [hmp] at hev
  simp only [R.bind_ok, halts, hwc] at hev
  have hcrit : wc.map (·.crit) = d.crit := heurH12_zipWithWeights_crit hwc
  have hpc : ((order wc).map (·.crit)).Perm d.crit := by rw [← hcrit]; exact hperm.map _
  apply heurH12_check_of_compatible hperm hdesc
  apply model_output_passes_spec_with _ _ _ _ hev
  · exact ((orderAlternatives_perm rnd d.co ds alts ds' halts).map (·.id)).nodup_iff.mpr hnd
  · exact ((hpc.map (·.id)).nodup_iff).mpr hndc
  · intro t ht c hc
    exact hthr t ht c (hpc.subset hc)

/-- **`Spec.C12.check` accepts the model's output** (`aspectEvaluateWith … sortCriteriaDesc`, the model of
    `Evaluate` that the bit-exact correspondence ties to the Go code), with the checker's arguments
    plumbed as in the driver op `check-c12`. -/
theorem model_output_passes_spec (d : DMP Rat) (ds ds' : Draws Rat) (fn : String) (lv : Levels Rat)
    (seed : Int) (w : KMap Rat) (rnd : Bool) (lvl : List (KMap Rat))
    (alts : List (Alt Rat)) (wc : List (WCrit Rat)) (out : List (Linked (AspEval Rat)))
    (hmp : d.mp = .aspect fn lv seed w rnd)
    (hev : aspectEvaluateWith d ds (Except.ok lvl) sortCriteriaDesc = Except.ok out)
    (halts : orderAlternatives rnd d.co ds = Except.ok (alts, ds'))
    (hwc : zipWithWeights d.crit w = Except.ok wc)
    (hnd : (d.co.map (·.id)).Nodup) (hndc : (d.crit.map (·.id)).Nodup)
    (hthr : ∀ t ∈ lvl, ∀ c ∈ d.crit, (t.get? c.id).isSome) :
    Spec.C12.check alts wc lvl out = true :=
  model_output_passes_spec_for_order d ds ds' fn lv seed w rnd lvl sortCriteriaDesc alts wc out hmp hev halts hwc
    (sortCriteriaDesc_sorted wc).1 (heurH12_descending (sortCriteriaDesc_sorted wc).2) hnd hndc hthr

/-- the same for `aspectEvaluate` (levels obtained from the registered sources by `aspectLevels`) -/
theorem model_output_of_evaluate_passes_spec (d : DMP Rat) (ds ds' : Draws Rat) (fn : String) (lv : Levels Rat)
    (seed : Int) (w : KMap Rat) (rnd : Bool) (lvl : List (KMap Rat))
    (alts : List (Alt Rat)) (wc : List (WCrit Rat)) (out : List (Linked (AspEval Rat)))
    (hmp : d.mp = .aspect fn lv seed w rnd) (hlv : aspectLevels d = Except.ok lvl)
    (hev : aspectEvaluate d ds = Except.ok out)
    (halts : orderAlternatives rnd d.co ds = Except.ok (alts, ds'))
    (hwc : zipWithWeights d.crit w = Except.ok wc)
    (hnd : (d.co.map (·.id)).Nodup) (hndc : (d.crit.map (·.id)).Nodup)
    (hthr : ∀ t ∈ lvl, ∀ c ∈ d.crit, (t.get? c.id).isSome) :
    Spec.C12.check alts wc lvl out = true := by
  unfold aspectEvaluate at hev
  rw [hlv] at hev
  exact model_output_passes_spec d ds ds' fn lv seed w rnd lvl alts wc out hmp hev halts hwc hnd hndc hthr

/-! ### the hypotheses are satisfiable: concrete instances -/

section Examples
private def exC : Crit Rat := ⟨"c", "gain", none⟩
private def exK : Crit Rat := ⟨"k", "cost", none⟩
private def exA : Alt Rat := ⟨"a", [("c", 1), ("k", 2)]⟩
private def exB : Alt Rat := ⟨"b", [("c", 5), ("k", 7)]⟩
private def exD : Alt Rat := ⟨"d", [("c", 4), ("k", 1)]⟩

/-- two alternatives, one gain criterion, one level: `a` (1 < 3) is eliminated, `b` is left and reports 0+1 -/
example : Spec.C12.explainWith [exA, exB] [[("c", 3)]] [exC]
    [⟨"b", ⟨1, []⟩, ["a"]⟩, ⟨"a", ⟨0, [("c", 3)]⟩, []⟩] = "ok" :=
  model_output_passes_spec_with [exC] [[("c", 3)]] [exA, exB] _ (by with_unfolding_all rfl)
    (by decide) (by decide) (by decide)

/-- three alternatives, gain and cost criterion, two levels: `a` fails c at level 0, `b` fails the cost
    criterion k (7 > 5) at level 0 — the stop; `d`, examined after `b`, reports 1 -/
example : Spec.C12.explainWith [exA, exB, exD] [[("c", 3), ("k", 5)], [("c", 4), ("k", 5)]] [exC, exK]
    [⟨"d", ⟨1, []⟩, ["b"]⟩, ⟨"b", ⟨0, [("k", 5)]⟩, ["a"]⟩, ⟨"a", ⟨0, [("c", 3)]⟩, []⟩] = "ok" :=
  model_output_passes_spec_with [exC, exK] [[("c", 3), ("k", 5)], [("c", 4), ("k", 5)]] [exA, exB, exD] _
    (by with_unfolding_all rfl) (by decide) (by decide) (by decide)

/-- nobody fails: all three survive in examination order and report #levels -/
example : Spec.C12.explainWith [exA, exB, exD] [[("c", 0), ("k", 9)]] [exK, exC]
    [⟨"a", ⟨1, []⟩, ["b"]⟩, ⟨"b", ⟨1, []⟩, ["d"]⟩, ⟨"d", ⟨1, []⟩, []⟩] = "ok" :=
  model_output_passes_spec_with [exK, exC] [[("c", 0), ("k", 9)]] [exA, exB, exD] _
    (by with_unfolding_all rfl) (by decide) (by decide) (by decide)

private def exDmp (w : KMap Rat) : DMP Rat :=
  ⟨[], [exA, exB, exD], [exC, exK], .aspect "thresholds" (.thresholds []) 0 w false⟩

private theorem exSort : sortCriteriaDesc [(⟨exC, 1⟩ : WCrit Rat), ⟨exK, 2⟩] = [⟨exK, 2⟩, ⟨exC, 1⟩] :=
  (descending_order_unique _ _ (List.Perm.swap _ _ _) (by simp)).symm

/-- the full statement on a decision problem with distinct weights (k heavier than c, examined first) -/
example : Spec.C12.check [exA, exB, exD] [⟨exC, 1⟩, ⟨exK, 2⟩] [[("c", 3), ("k", 5)]]
    [⟨"d", ⟨1, []⟩, ["a"]⟩, ⟨"a", ⟨0, [("c", 3)]⟩, ["b"]⟩, ⟨"b", ⟨0, [("k", 5)]⟩, []⟩] = true := by
  refine model_output_passes_spec (exDmp [("c", 1), ("k", 2)]) [] [] "thresholds" (.thresholds []) 0
    [("c", 1), ("k", 2)] false [[("c", 3), ("k", 5)]] [exA, exB, exD] [⟨exC, 1⟩, ⟨exK, 2⟩] _ rfl ?_
    (by with_unfolding_all rfl) (by with_unfolding_all rfl) (by decide) (by decide) (by decide)
  have h : aspectEvaluateWith (exDmp [("c", 1), ("k", 2)]) [] (Except.ok [[("c", 3), ("k", 5)]]) sortCriteriaDesc
      = aspectCore ((sortCriteriaDesc [(⟨exC, 1⟩ : WCrit Rat), ⟨exK, 2⟩]).map (·.crit)) [[("c", 3), ("k", 5)]]
          [exA, exB, exD] := by with_unfolding_all rfl
  rw [h, exSort]
  with_unfolding_all rfl

/-- tied weights: the order the criteria were given in is weight-compatible, and so is its reverse -/
example : Spec.C12.check [exA, exB, exD] [⟨exC, 1⟩, ⟨exK, 1⟩] [[("c", 3), ("k", 5)]]
    [⟨"d", ⟨1, []⟩, ["b"]⟩, ⟨"b", ⟨0, [("k", 5)]⟩, ["a"]⟩, ⟨"a", ⟨0, [("c", 3)]⟩, []⟩] = true :=
  model_output_passes_spec_for_order (exDmp [("c", 1), ("k", 1)]) [] [] "thresholds" (.thresholds []) 0
    [("c", 1), ("k", 1)] false [[("c", 3), ("k", 5)]] id [exA, exB, exD] [⟨exC, 1⟩, ⟨exK, 1⟩] _ rfl
    (by with_unfolding_all rfl) (by with_unfolding_all rfl) (by with_unfolding_all rfl) (List.Perm.refl _)
    (by decide +kernel) (by decide) (by decide) (by decide)

example : Spec.C12.check [exA, exB, exD] [⟨exC, 1⟩, ⟨exK, 1⟩] [[("c", 3), ("k", 5)]]
    [⟨"d", ⟨1, []⟩, ["a"]⟩, ⟨"a", ⟨0, [("c", 3)]⟩, ["b"]⟩, ⟨"b", ⟨0, [("k", 5)]⟩, []⟩] = true :=
  model_output_passes_spec_for_order (exDmp [("c", 1), ("k", 1)]) [] [] "thresholds" (.thresholds []) 0
    [("c", 1), ("k", 1)] false [[("c", 3), ("k", 5)]] List.reverse [exA, exB, exD] [⟨exC, 1⟩, ⟨exK, 1⟩] _ rfl
    (by with_unfolding_all rfl) (by with_unfolding_all rfl) (by with_unfolding_all rfl) (List.reverse_perm _)
    (by decide +kernel) (by decide) (by decide) (by decide)
end Examples

/-! ## end to end: whole requests (`decideWith` / `Rdm.decide`, Model/Decide.lean)

  Whatever biases ran before — every request, every bias list, every stream function, no bounds —, the answer
  of aspect elimination is `Evaluate` on the state that reached it (`resp.final`): alternatives ordered on the
  stream `g seed` of the REQUEST's `randomSeed` iff the REQUEST says so, levels generated by the REQUEST's levels
  function from the FINAL state.  `e2emAspEntries resp.result` reads the response back as the list `Evaluate`
  returned (what `Spec.C12.check` is evaluated on).  Helper lemmas: Rdm/Lemmas/E2EMethods*.lean. -/

/-- **the configuration in force**: no bias exchanges the method nor touches the levels function, `randomSeed` or
    `randomAlternativesOrdering`, and of the levels parameters only the per-criterion entries of explicit
    thresholds change (same coefficient numbers, same number of explicit levels: `e2emLvTag`) -/
theorem decideWith_aspect_parameters (exp : α → α) (aspOrder : List (WCrit α) → List (WCrit α))
    (req : Request α) (g : Int → Draws α) (resp : Response α) (h : decideWith exp aspOrder req g = .ok resp)
    (fn : String) (seed : Int) (rnd : Bool) :
    (∀ lv₀ w₀, req.mp = some (.aspect fn lv₀ seed w₀ rnd) →
      ∃ lv w, resp.final.mp = .aspect fn lv seed w rnd ∧ e2emLvTag lv = e2emLvTag lv₀) ∧
    (∀ lv w, resp.final.mp = .aspect fn lv seed w rnd →
      ∃ lv₀ w₀, req.mp = some (.aspect fn lv₀ seed w₀ rnd) ∧ e2emLvTag lv = e2emLvTag lv₀) := by
  constructor
  · intro lv₀ w₀ hmp
    obtain ⟨lv, w, _, hfin, hl, _⟩ := e2em_decideWith_aspect h hmp
    exact ⟨lv, w, hfin, hl⟩
  · intro lv w hfin
    exact (e2em_decideWith_aspect_of_final h hfin).1

/-- **the response IS the elimination procedure on the final state** (any number type, any examination
    order): for a request with aspect-elimination parameters, if `MakeDecision` answers then the levels are
    `aspectLevels` of the final state (C14), the considered alternatives of the final state are ordered on the
    stream of the request's seed, the final weights zip to the final criteria, and `result` is `aspectCore` on
    these — so every per-stage theorem above applies to `e2emAspEntries resp.result`.  Every level has a
    threshold for every criterion of the final state (by construction of the registered sources). -/
theorem decideWith_aspect_is_elimination (exp : α → α) (aspOrder : List (WCrit α) → List (WCrit α))
    (req : Request α) (g : Int → Draws α) (resp : Response α) (fn : String) (lv₀ : Levels α) (seed : Int)
    (w₀ : KMap α) (rnd : Bool) (h : decideWith exp aspOrder req g = .ok resp)
    (hmp : req.mp = some (.aspect fn lv₀ seed w₀ rnd)) :
    ∃ lv w lvl alts ds' wc,
      resp.final.mp = .aspect fn lv seed w rnd ∧ e2emLvTag lv = e2emLvTag lv₀ ∧
      aspectLevels resp.final = .ok lvl ∧
      orderAlternatives rnd resp.final.co (g seed) = .ok (alts, ds') ∧ alts.Perm resp.final.co ∧
      zipWithWeights resp.final.crit w = .ok wc ∧
      aspectCore ((aspOrder wc).map (·.crit)) lvl alts = .ok (e2emAspEntries resp.result) ∧
      resp.result = (e2emAspEntries resp.result).map (Linked.mapEv .asp) ∧
      (∀ t ∈ lvl, ∀ c ∈ resp.final.crit, (t.get? c.id).isSome = true) := by
  obtain ⟨lv, w, r, hfin, hl, hr, hres⟩ := e2em_decideWith_aspect h hmp
  obtain ⟨lvl, hlv, hof, hr'⟩ := e2em_aspect_levels_used hfin hr
  obtain ⟨alts, ds', wc, ha, hz, hcore⟩ := e2em_aspectEvaluateWith_ok hfin hr'
  have hent : e2emAspEntries resp.result = r := by rw [hres, e2emAspEntries_map]
  exact ⟨lv, w, lvl, alts, ds', wc, hfin, hl, hlv, ha, orderAlternatives_perm _ _ _ _ _ ha, hz,
    by rw [hent]; exact hcore, by rw [hent]; exact hres, e2em_levelsOf_complete hof⟩

/-- **`Spec.C12.check` accepts the response** (over `Rat`), the checker called as the driver op `check-c12`
    calls it on the state that reached `Evaluate`: `alts` = the ordered considered alternatives of the final
    state, `wc` = final criteria zipped with the final weights, `lvl` = the levels generated from the final
    state — for ANY examination order `aspOrder wc` that is a permutation of `wc` in non-increasing weight.
    The hypotheses of `model_output_passes_spec_for_order` are carried through, with two improvements:
    distinctness of the considered ids is asked of `choseToMake`, and `hthr` (every level has a threshold for
    every criterion) is no longer a hypothesis — levels that come from `aspectLevels` satisfy it. -/
theorem decideWith_aspect_passes_spec_for_order (exp : Rat → Rat) (aspOrder : List (WCrit Rat) → List (WCrit Rat))
    (req : Request Rat) (g : Int → Draws Rat) (resp : Response Rat)
    (fn : String) (lv : Levels Rat) (seed : Int) (w : KMap Rat) (rnd : Bool)
    (h : decideWith exp aspOrder req g = .ok resp) (hfin : resp.final.mp = .aspect fn lv seed w rnd)
    (lvl : List (KMap Rat)) (hlv : aspectLevels resp.final = .ok lvl)
    (alts : List (Alt Rat)) (ds' : Draws Rat)
    (halts : orderAlternatives rnd resp.final.co (g seed) = .ok (alts, ds'))
    (wc : List (WCrit Rat)) (hwc : zipWithWeights resp.final.crit w = .ok wc)
    (hperm : (aspOrder wc).Perm wc) (hdesc : Spec.C12.descending (aspOrder wc) = true)
    (hnd : req.chosen.Nodup) (hndc : (resp.final.crit.map (·.id)).Nodup) :
    Spec.C12.check alts wc lvl (e2emAspEntries resp.result) = true := by
  obtain ⟨_, r, hr, hres⟩ := e2em_decideWith_aspect_of_final h hfin
  have hent : e2emAspEntries resp.result = r := by rw [hres, e2emAspEntries_map]
  obtain ⟨lvl', hlv', hof, hr'⟩ := e2em_aspect_levels_used hfin hr
  rw [hlv] at hlv'; cases hlv'
  obtain ⟨hco, _⟩ := e2em_decideWith_co h
  rw [hent]
  exact model_output_passes_spec_for_order resp.final (g seed) ds' fn lv seed w rnd lvl aspOrder alts wc r hfin hr'
    halts hwc hperm hdesc (by rw [hco]; exact hnd) hndc (e2em_levelsOf_complete hof)

/-- **C12 for `Rdm.decide`** (`MakeDecision` with the registered generators read from a seed table and the
    descending-weight examination order — the order `sort.Slice` produces for pairwise distinct weights): no
    hypothesis on the examination order is left -/
theorem decide_aspect_passes_spec (exp : Rat → Rat) (req : Request Rat) (seeds : Seeds Rat) (resp : Response Rat)
    (fn : String) (lv : Levels Rat) (seed : Int) (w : KMap Rat) (rnd : Bool)
    (h : Rdm.decide exp req seeds = .ok resp) (hfin : resp.final.mp = .aspect fn lv seed w rnd)
    (lvl : List (KMap Rat)) (hlv : aspectLevels resp.final = .ok lvl)
    (alts : List (Alt Rat)) (ds' : Draws Rat)
    (halts : orderAlternatives rnd resp.final.co (genOf seeds seed) = .ok (alts, ds'))
    (wc : List (WCrit Rat)) (hwc : zipWithWeights resp.final.crit w = .ok wc)
    (hnd : req.chosen.Nodup) (hndc : (resp.final.crit.map (·.id)).Nodup) :
    Spec.C12.check alts wc lvl (e2emAspEntries resp.result) = true :=
  decideWith_aspect_passes_spec_for_order exp _ req _ resp fn lv seed w rnd h hfin lvl hlv alts ds' halts wc hwc
    (sortCriteriaDesc_sorted wc).1 (heurH12_descending (sortCriteriaDesc_sorted wc).2) hnd hndc

/-- … in one statement from the request: aspect-elimination parameters in the request, distinct `choseToMake`;
    levels, ordered alternatives and weighted criteria exist (the model answered) and for them the checker
    accepts as soon as the final criteria ids are distinct -/
theorem decide_aspect_passes_spec_from_request (exp : Rat → Rat) (req : Request Rat) (seeds : Seeds Rat)
    (resp : Response Rat) (fn : String) (lv₀ : Levels Rat) (seed : Int) (w₀ : KMap Rat) (rnd : Bool)
    (h : Rdm.decide exp req seeds = .ok resp) (hmp : req.mp = some (.aspect fn lv₀ seed w₀ rnd))
    (hnd : req.chosen.Nodup) :
    ∃ lv w lvl alts ds' wc, resp.final.mp = .aspect fn lv seed w rnd ∧ e2emLvTag lv = e2emLvTag lv₀ ∧
      aspectLevels resp.final = .ok lvl ∧
      orderAlternatives rnd resp.final.co (genOf seeds seed) = .ok (alts, ds') ∧
      zipWithWeights resp.final.crit w = .ok wc ∧
      ((resp.final.crit.map (·.id)).Nodup → Spec.C12.check alts wc lvl (e2emAspEntries resp.result) = true) := by
  obtain ⟨lv, w, lvl, alts, ds', wc, hfin, hl, hlv, ha, _, hz, _⟩ :=
    decideWith_aspect_is_elimination exp _ req _ resp fn lv₀ seed w₀ rnd h hmp
  exact ⟨lv, w, lvl, alts, ds', wc, hfin, hl, hlv, ha, hz, fun hndc =>
    decide_aspect_passes_spec exp req seeds resp fn lv seed w rnd h hfin lvl hlv alts ds' ha wc hz hnd hndc⟩

/-- the hypotheses are satisfiable: an aspect-elimination request (additive series 0, 1/4, 1/2, 3/4; weights
    c1 > c0; a fatigue fired before and rewrote every value, so the levels are generated from the REWRITTEN
    ranges) — the model answers and the checker accepts the response.  (The examination order is given as
    `List.reverse` — the zipped criteria come in ascending weight — because `sortCriteriaDesc` is a merge sort,
    which `decide +kernel` cannot evaluate; `exSort` above shows how a concrete sort is discharged.) -/
example : ∃ resp alts wc lvl, decideWith id List.reverse e2emExAspect (genOf e2eExSeeds) = .ok resp ∧
    alts.map (·.id) = ["c", "a", "b"] ∧ lvl.length = 4 ∧
    Spec.C12.check alts wc lvl (e2emAspEntries resp.result) = true := by
  have h := e2em_eq_ok_getD e2emNoResponse (x := decideWith id List.reverse e2emExAspect (genOf e2eExSeeds))
    (by decide +kernel)
  generalize hresp : e2emGetD e2emNoResponse (decideWith id List.reverse e2emExAspect (genOf e2eExSeeds)) = resp at h
  obtain ⟨lv, w, hfin, _⟩ := (decideWith_aspect_parameters id _ _ _ resp h "idealAdditiveCoefficient" 11 false).1
    _ _ rfl
  have hw : w = e2emWeightsOf resp.final.mp := by rw [hfin]; rfl
  subst hw
  have hlv := e2em_eq_ok_getD [] (x := aspectLevels resp.final) (by subst hresp; decide +kernel)
  have halts := e2em_eq_ok_getD ([], []) (x := orderAlternatives false resp.final.co (genOf e2eExSeeds 11))
    (by subst hresp; decide +kernel)
  have hz := e2em_eq_ok_getD [] (x := zipWithWeights resp.final.crit (e2emWeightsOf resp.final.mp))
    (by subst hresp; decide +kernel)
  refine ⟨resp, _, _, _, h, ?_, ?_, decideWith_aspect_passes_spec_for_order id _ _ _ resp _ lv 11 _ false h hfin _ hlv
    _ _ halts _ hz (List.reverse_perm _) (by subst hresp; decide +kernel) (by decide)
    (by subst hresp; decide +kernel)⟩
  · subst hresp; decide +kernel
  · subst hresp; decide +kernel

/-- the constants and names this property depends on were re-read from the working tree on this run
    (none fell back to its pinned value because its declaration could not be located) -/
theorem facts_fresh : (Rdm.Facts.staleFacts.all fun n => !["aspectTieHalf", "methodAspect", "wiringAspectArgs", "wiringIncreasingLevels"].contains n) = true := by decide

end Rdm.Props.C12
