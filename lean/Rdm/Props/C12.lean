/- C12 — property theorems (stub; filled in by the owning work package). -/
import Rdm.Basic
namespace Rdm.Props.C12
end Rdm.Props.C12
