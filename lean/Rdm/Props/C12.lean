/-
  C12 — aspect elimination ranks in reverse order of elimination.
  Property theorems only (helper lemmas: Rdm/Lemmas/HeurAspect.lean, HeurLinks.lean, HeurList.lean).
  Structural theorems are generic in the number type and hold for every criteria order handed to
  `aspectCore` (so also for every weight-compatible order when weights are tied) and every number of
  alternatives, criteria and levels; the statements about the descending-weight order are over `Rat`.

  Model: Rdm/Model/Heuristics.lean (`sortCriteriaDesc`, `isBelowThreshold`, `aspAltLoop`,
  `aspCritLoop`, `aspLevelLoop`, `aspCheck`, `aspResult`, `aspectCore`); spec: Rdm/Spec/C12.lean.
-/
import Rdm.Model.Heuristics
import Rdm.Spec.C12
import Rdm.Lemmas.NumRat
import Rdm.Lemmas.HeurList
import Rdm.Lemmas.HeurLinks
import Rdm.Lemmas.HeurAspect
import Mathlib.Tactic.Linarith
set_option linter.unusedSectionVars false
set_option linter.unusedSimpArgs false
namespace Rdm.Props.C12
open Rdm
variable {α : Type} [Num α]

/-- **result = survivors ++ reverse eliminated**: the ranking lists the survivors (index reported:
    `thresholdIndex + 1`, empty threshold map) and then the eliminated alternatives in reverse order of
    elimination, each linked to its successor only -/
theorem result_is_survivors_then_reverse_eliminated (crits : List (Crit α)) (levels : List (KMap α))
    (alts : List (Alt α)) (out : List (Linked (AspEval α))) (h : aspectCore crits levels alts = Except.ok out) :
    ∃ left elims si, aspCheck crits levels alts = Except.ok (left, elims, si) ∧
      out = sequentialRanking (left.map (fun a => (a.id, (⟨si, []⟩ : AspEval α))) ++ elims.reverse) := by
  unfold aspectCore at h
  obtain ⟨⟨left, elims, si⟩, h1, h⟩ := R.bind_eq_ok h
  simp [aspResult] at h
  exact ⟨left, elims, si, h1, h.symm⟩

/-- what `aspCheck` returns, for alternatives with pairwise different ids -/
theorem check_spec (crits : List (Crit α)) (levels : List (KMap α)) (alts left : List (Alt α))
    (elims : List (AspRes α)) (si : Nat) (hnd : (alts.map (·.id)).Nodup)
    (h : aspCheck crits levels alts = Except.ok (left, elims, si)) :
    (elims.map (·.1) ++ left.map (·.id)).Perm (alts.map (·.id)) ∧ left.Sublist alts ∧
    (∀ p ∈ elims, ∃ j t, p.2.idx = j ∧ levels[j]? = some t ∧
       ∃ pre c post, crits = pre ++ c :: post ∧ p.2 = elimReport j t c ∧
         ∃ a ∈ alts, a.id = p.1 ∧ BelowAt a t c ∧ (∀ c' ∈ pre, NotBelowAt a t c') ∧
           ∀ j' < j, ∀ t', levels[j']? = some t' → ∀ c' ∈ crits, NotBelowAt a t' c') ∧
    (alts ≠ [] → 1 ≤ left.length) ∧ si ≤ levels.length ∧
    (alts.length ≤ 1 → left = alts ∧ elims = [] ∧ si = 0) ∧
    (2 ≤ left.length → si = levels.length ∧ ∀ a ∈ left, ∀ t ∈ levels, ∀ c ∈ crits, NotBelowAt a t c) := by
  unfold aspCheck at h
  by_cases hl : alts.length ≤ 1
  · simp only [hl, if_true] at h
    simp at h
    obtain ⟨rfl, rfl, rfl⟩ := h
    refine ⟨by simp, List.Sublist.refl _, by simp, ?_, by simp, fun _ => ⟨rfl, rfl, rfl⟩, fun h2 => by omega⟩
    intro hne; cases alts with
    | nil => simp at hne
    | cons x xs => simp
  · simp only [hl, if_false] at h
    obtain ⟨p1, p2, p3, p4, p5, p6⟩ := aspLevelLoop_spec hnd (by omega) h
    refine ⟨p1, p2, ?_, fun _ => p4, by simpa using p5, fun h1 => absurd h1 hl, ?_⟩
    · intro p hp
      obtain ⟨j, t, hj, hlv, pre, c, post, hsplit, r1, rest⟩ := p3 p hp
      refine ⟨j, t, by simpa using hj, hlv, pre, c, post, hsplit, ?_, rest⟩
      simpa using r1
    · intro h2; simpa using p6 h2

/-- **permutation**: every considered alternative is ranked exactly once -/
theorem result_is_permutation (crits : List (Crit α)) (levels : List (KMap α)) (alts : List (Alt α))
    (out : List (Linked (AspEval α))) (hnd : (alts.map (·.id)).Nodup)
    (h : aspectCore crits levels alts = Except.ok out) : (out.map (·.id)).Perm (alts.map (·.id)) := by
  obtain ⟨left, elims, si, hc, rfl⟩ := result_is_survivors_then_reverse_eliminated crits levels alts out h
  obtain ⟨p1, _⟩ := check_spec crits levels alts left elims si hnd hc
  rw [heurSeq_ids]
  simp only [List.map_append, List.map_map, List.map_reverse]
  have : (List.map (Prod.fst ∘ fun a : Alt α => (a.id, (⟨si, []⟩ : AspEval α))) left) = left.map (·.id) := by
    simp [Function.comp_def]
  rw [this]
  exact (List.perm_append_comm.trans (List.Perm.append_right _ (List.reverse_perm _))).trans p1

/-- **links**: entry `i` is linked to entry `i+1` only -/
theorem links_are_sequential (crits : List (Crit α)) (levels : List (KMap α)) (alts : List (Alt α))
    (out : List (Linked (AspEval α))) (h : aspectCore crits levels alts = Except.ok out)
    (i : Nat) (e : Linked (AspEval α)) (he : out[i]? = some e) :
    e.links = ((out.map (·.id))[i + 1]?).toList := by
  obtain ⟨left, elims, si, _, rfl⟩ := result_is_survivors_then_reverse_eliminated crits levels alts out h
  rw [heurSeq_ids]; exact heurSeq_links _ i e he

/-- **the reported level / criterion / threshold is the failed check**: an entry with a non-empty
    threshold map reports (level index ℓ, {c ↦ t_ℓ[c]}) for a level ℓ of the list and a criterion c of
    the examination order, its alternative really is worse than t_ℓ[c] on c, **and it passed every
    check made before that one** (criteria examined earlier at level ℓ, all criteria at every earlier
    level); every other entry is a
    survivor: it reports `thresholdIndex+1 ≤ #levels` and the empty map -/
theorem entry_semantics (crits : List (Crit α)) (levels : List (KMap α)) (alts : List (Alt α))
    (out : List (Linked (AspEval α))) (hnd : (alts.map (·.id)).Nodup)
    (h : aspectCore crits levels alts = Except.ok out) (e : Linked (AspEval α)) (he : e ∈ out) :
    (∃ t, levels[e.ev.idx]? = some t ∧ ∃ pre c post, crits = pre ++ c :: post ∧
       e.ev.thr = [(c.id, levelValue t c.id)] ∧
       ∃ a ∈ alts, a.id = e.id ∧ BelowAt a t c ∧
         -- … having passed every check made before that one: the heavier criteria at the same level
         (∀ c' ∈ pre, NotBelowAt a t c') ∧
         -- and every criterion at every earlier level
         (∀ j' < e.ev.idx, ∀ t', levels[j']? = some t' → ∀ c' ∈ crits, NotBelowAt a t' c')) ∨
    (e.ev.thr = [] ∧ e.ev.idx ≤ levels.length ∧ ∃ a ∈ alts, a.id = e.id) := by
  obtain ⟨left, elims, si, hc, rfl⟩ := result_is_survivors_then_reverse_eliminated crits levels alts out h
  obtain ⟨_, p2, p3, _, p5, _, _⟩ := check_spec crits levels alts left elims si hnd hc
  rcases List.mem_append.mp (heurSeq_mem _ e he) with hm | hm
  · right
    obtain ⟨a, ha, hpair⟩ := List.mem_map.mp hm
    have hid : a.id = e.id := congrArg Prod.fst hpair
    have hev : (⟨si, []⟩ : AspEval α) = e.ev := congrArg Prod.snd hpair
    exact ⟨by rw [← hev], by rw [← hev]; exact p5, a, p2.subset ha, hid⟩
  · left
    obtain ⟨j, t, hj, hlv, pre, c, post, hsplit, r1, a, ha, hid, hb, hpre, hearlier⟩ := p3 _ (List.mem_reverse.mp hm)
    simp only at hj r1 hid
    refine ⟨t, by rw [hj]; exact hlv, pre, c, post, hsplit, by rw [r1]; rfl, a, ha, hid, hb, hpre, ?_⟩
    rw [hj]; exact hearlier

/-- **reverse order of elimination**: `elims` — which the ranking lists backwards after the
    survivors — is the chronological record of the procedure: level indices never decrease along it,
    within a level the rank of the reported criterion in the examination order never decreases, and the
    alternatives failing one and the same check appear in the order they were examined; the survivors
    keep their examination order -/
theorem eliminations_are_in_check_order (crits : List (Crit α)) (levels : List (KMap α))
    (alts left : List (Alt α)) (elims : List (AspRes α)) (si : Nat)
    (hndc : (crits.map (·.id)).Nodup) (hnd : (alts.map (·.id)).Nodup)
    (h : aspCheck crits levels alts = Except.ok (left, elims, si)) :
    left.Sublist alts ∧
    (elims.map (·.2.idx)).Pairwise (· ≤ ·) ∧
    (∀ ℓ, ((elims.filter (fun p => p.2.idx == ℓ)).map (critRank crits)).Pairwise (· ≤ ·)) ∧
    ∀ ℓ k, ((elims.filter (fun p => p.2.idx == ℓ && critRank crits p == k)).map (·.1)).Sublist (alts.map (·.id)) := by
  refine ⟨(check_spec crits levels alts left elims si hnd h).2.1, ?_⟩
  unfold aspCheck at h
  by_cases hl : alts.length ≤ 1
  · simp only [hl, if_true] at h
    simp at h
    obtain ⟨_, rfl, _⟩ := h
    simp
  · simp only [hl, if_false] at h
    obtain ⟨o1, _, o3, o4⟩ := aspLevelLoop_order hndc hnd (by omega) h
    exact ⟨o1, o3, o4⟩

/-- **stop rule**: elimination never removes the last alternative — with at least one alternative at
    least one survives, hence at most `n − 1` are ever eliminated -/
theorem at_least_one_survivor (crits : List (Crit α)) (levels : List (KMap α)) (alts left : List (Alt α))
    (elims : List (AspRes α)) (si : Nat) (hnd : (alts.map (·.id)).Nodup) (hne : alts ≠ [])
    (h : aspCheck crits levels alts = Except.ok (left, elims, si)) :
    1 ≤ left.length ∧ elims.length + left.length = alts.length := by
  obtain ⟨p1, _, _, p4, _⟩ := check_spec crits levels alts left elims si hnd h
  refine ⟨p4 hne, ?_⟩
  have := p1.length_eq
  simpa using this

/-- **stop rule, the single survivor**: when the procedure ends with one alternative (of at least
    two), the last elimination is the one that triggered the stop — the survivor reports the level
    index of that elimination plus one, and it heads the ranking directly above that last eliminated one -/
theorem single_survivor_reports_level_after_last_elimination (crits : List (Crit α)) (levels : List (KMap α))
    (alts left : List (Alt α)) (elims : List (AspRes α)) (si : Nat) (hnd : (alts.map (·.id)).Nodup)
    (h : aspCheck crits levels alts = Except.ok (left, elims, si)) (h2 : 2 ≤ alts.length)
    (h1 : left.length ≤ 1) :
    ∃ p, elims.getLast? = some p ∧ si = p.2.idx + 1 ∧ (aspResult left elims si)[left.length]? = some p := by
  unfold aspCheck at h
  have hl : ¬ alts.length ≤ 1 := by omega
  simp only [hl, if_false] at h
  obtain ⟨p, hp, hi⟩ := aspLevelLoop_stop hnd h2 h h1
  refine ⟨p, hp, hi, ?_⟩
  unfold aspResult
  rw [List.getElem?_append_right (by simp)]
  simp only [List.length_map, Nat.sub_self]
  cases hrev : elims.reverse with
  | nil => simp at hrev; simp [hrev] at hp
  | cons x xs =>
    have : elims.getLast? = some x := by
      have := congrArg List.head? hrev
      simpa [List.head?_reverse] using this
    simp [← this, hp]

/-- **stop rule, second half**: if two or more alternatives survive, every level was examined (the
    survivors report `#levels`) and each survivor passed every check of every level -/
theorem several_survivors_passed_everything (crits : List (Crit α)) (levels : List (KMap α))
    (alts left : List (Alt α)) (elims : List (AspRes α)) (si : Nat) (hnd : (alts.map (·.id)).Nodup)
    (h : aspCheck crits levels alts = Except.ok (left, elims, si)) (h2 : 2 ≤ left.length) :
    si = levels.length ∧ ∀ a ∈ left, ∀ t ∈ levels, ∀ c ∈ crits, NotBelowAt a t c :=
  (check_spec crits levels alts left elims si hnd h).2.2.2.2.2.2 h2

/-- **single alternative ⇒ index 0 and no elimination** (for any levels and criteria; likewise for
    an empty considered list) -/
theorem single_alternative (crits : List (Crit α)) (levels : List (KMap α)) (a : Alt α) :
    aspectCore crits levels [a] = Except.ok [⟨a.id, ⟨0, []⟩, []⟩] := rfl

theorem no_alternative (crits : List (Crit α)) (levels : List (KMap α)) :
    aspectCore crits levels ([] : List (Alt α)) = Except.ok [] := rfl

/-- with no level at all nothing is eliminated and everybody reports index 0 -/
theorem no_levels (crits : List (Crit α)) (alts : List (Alt α)) :
    aspCheck crits [] alts = Except.ok (alts, [], 0) := by
  unfold aspCheck; split <;> rfl

/-- what "worse than the threshold" means: signed value below signed threshold -/
theorem belowAt_iff (a : Alt α) (t : KMap α) (c : Crit α) :
    BelowAt a t c ↔ ∃ v, a.signed c = Except.ok v ∧ v < levelValue t c.id * c.mult := by
  unfold BelowAt isBelowThreshold
  constructor
  · intro h
    obtain ⟨v, h1, h2⟩ := R.bind_eq_ok h
    simp at h2
    exact ⟨v, h1, h2⟩
  · rintro ⟨v, h1, h2⟩
    rw [h1]; simp [h2]

/-- cost-criterion sign handling, over the rationals: a gain criterion fails when its value is below
    the threshold, a cost criterion when its value is above it -/
theorem belowAt_gain_cost (a : Alt Rat) (t : KMap Rat) (c : Crit Rat) (v : Rat) (hv : a.raw c = Except.ok v) :
    BelowAt a t c ↔ (if c.type = "cost" then levelValue t c.id < v else v < levelValue t c.id) := by
  rw [belowAt_iff]
  unfold Alt.signed Crit.mult
  rw [hv]
  by_cases hc : c.type = "cost"
  · simp [hc]
  · simp [hc]

/-- the examination order for pairwise distinct weights: a permutation of the criteria in
    non-increasing weight … -/
theorem sortCriteriaDesc_sorted (wc : List (WCrit Rat)) :
    (sortCriteriaDesc wc).Perm wc ∧ (sortCriteriaDesc wc).Pairwise (fun a b => b.w ≤ a.w) := by
  refine ⟨List.mergeSort_perm _ _, ?_⟩
  have := List.pairwise_mergeSort (le := fun a b : WCrit Rat => !decide (a.w < b.w))
    (by intro a b c h1 h2; simp at *; linarith)
    (by intro a b; simp; rcases le_total a.w b.w with h | h <;> simp [h]) wc
  exact this.imp (by intro a b h; simpa using h)

/-- … and the only strictly descending one: for distinct weights the order `sort.Slice` produces is
    determined, whatever its comparator draws -/
theorem descending_order_unique (wc o : List (WCrit Rat)) (hp : o.Perm wc)
    (hs : o.Pairwise (fun a b => b.w < a.w)) : o = sortCriteriaDesc wc := by
  obtain ⟨sp, ss⟩ := sortCriteriaDesc_sorted wc
  apply List.Perm.eq_of_pairwise (le := fun a b : WCrit Rat => b.w ≤ a.w) _ (hs.imp (fun h => le_of_lt h)) ss
    (hp.trans sp.symm)
  intro a b ha hb h1 h2
  have hb' : b ∈ o := (hp.trans sp.symm).symm.subset hb
  rcases pairwise_mem_cases hs ha hb' with h | h | h
  · exact h
  · exact absurd h (not_lt.mpr h2)
  · exact absurd h (not_lt.mpr h1)

/-
  Not proved (checked on every run by `Spec.C12.check` on the implementation's output and by the
  bit-exact correspondence of `aspect-evaluate` / `aspect-evaluate-some`):

  theorem single_survivor_passed_all_checks_before_the_stop_partial :
      a single survivor of ≥ 2 alternatives passed every check before the last elimination's (ℓ*, k*)
      (proved above: it reports ℓ*+1 — `single_survivor_reports_level_after_last_elimination`; that
      ≥ 2 survivors passed everything — `several_survivors_passed_everything`)
  theorem model_output_passes_spec_partial (Rat) :
      aspectCore crits levels alts = .ok out → ids Nodup → Spec.C12.explainWith alts levels crits out = "ok"
  The other clauses of the checker are proved above on the model one by one (permutation, links,
  survivors first, reported check is the failed one, passed all earlier checks, chronological order,
  at least one survivor, single alternative).
-/

/-- the constants and names this property depends on were re-read from the working tree on this run
    (none fell back to its pinned value because its declaration could not be located) -/
theorem facts_fresh : (Rdm.Facts.staleFacts.all fun n => !["aspectTieHalf", "methodAspect", "wiringAspectArgs", "wiringIncreasingLevels"].contains n) = true := by decide

end Rdm.Props.C12
