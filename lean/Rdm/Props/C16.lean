/- C16 — property theorems (stub; filled in by the owning work package). -/
import Rdm.Basic
namespace Rdm.Props.C16
end Rdm.Props.C16
