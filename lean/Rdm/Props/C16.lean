/-
  C16 — preference reversal mirrors the selected criteria inside their range.
  Property theorems only (helper lemmas: Rdm/Lemmas/BiasAReversal.lean, BiasARange.lean,
  BiasAReversalSpec.lean).  Model:
  Rdm/Model/BiasesA.lean (`reversalApply`), tied to the Go code bit-for-bit by the stage
  `reversal-apply` of harness/main/c16.go.
-/
import Rdm.Lemmas.BiasAReversal
import Rdm.Lemmas.BiasARange
import Rdm.Lemmas.BiasAReversalSpec
import Rdm.Spec.C16
set_option linter.unusedSectionVars false
open Rdm Rdm.BiasA
namespace Rdm.Props.C16
variable {α : Type} [Num α]

/-! ## the new value -/

/-- `v ↦ max − v + min = max + min − v` -/
theorem new_value_formula (r : Rat × Rat) (v : Rat) : reverseValue r v = r.2 + r.1 - v := by
  unfold reverseValue; ring

/-- mirroring twice with the same range restores the value -/
theorem new_value_involution (r : Rat × Rat) (v : Rat) : reverseValue r (reverseValue r v) = v := by
  unfold reverseValue; ring

/-- the range is preserved: values inside `[lo, hi]` stay inside, the end points are exchanged (so the
    observed minimum and maximum of a mirrored criterion are again `lo` and `hi`) -/
theorem new_value_in_range {lo hi v : Rat} (h1 : lo ≤ v) (h2 : v ≤ hi) :
    lo ≤ reverseValue (lo, hi) v ∧ reverseValue (lo, hi) v ≤ hi ∧
      reverseValue (lo, hi) lo = hi ∧ reverseValue (lo, hi) hi = lo := by
  unfold reverseValue
  refine ⟨by linarith, by linarith, by ring, by ring⟩

/-! ## selection: the same count / ordering rule as omission -/

/-- the reversed criteria are the first `k` of the ordering (`k` = clamped pivot), reported in that
    order with their type and with the range `CriteriaValuesRange` gives over all current alternatives -/
theorem selected_first_k {eps : α} {c : SplitCond α} {name : String} {cur res : DMP α} {d : Draws α}
    {rep : List (Reversed α)} (h : reversalApply eps c name cur d = .ok (res, rep)) :
    ∃ ordered, ∃ toRev : List (Crit α × (α × α)), orderCriteria eps name cur d = .ok ordered ∧ ordered.Perm cur.crit ∧
      toRev.map (·.1) = ordered.take (c.pivot cur.crit.length).toNat ∧
      (∀ cr ∈ toRev, valuesRange cur.all cr.1 = .ok cr.2) ∧
      rep.map (fun r => (r.id, r.type, r.range)) = toRev.map (fun cr => (cr.1.id, cr.1.type, cr.2)) := by
  obtain ⟨_, ordered, sel, rest, ho, hs, hr⟩ := reversalApply_ok h
  obtain ⟨toRev, resl, ht, _, _, _, _, _, hrep⟩ := reverseSelected_ok hr
  obtain ⟨h1, h2⟩ := criteriaToReverse_ok ht
  have hp := orderCriteria_perm ho
  refine ⟨ordered, toRev, ho, hp, ?_, h2, ?_⟩
  · rw [h1, (split_ok hs).2.2.1, hp.length_eq]
  · rw [hrep, reversalReport_heads]

/-- on the model's output the selection satisfies the count clause of the spec (shared with C15) -/
theorem selected_countOk {eps : Rat} {c : SplitCond Rat} {name : String} {cur res : DMP Rat}
    {d : Draws Rat} {rep : List (Reversed Rat)} (h : reversalApply eps c name cur d = .ok (res, rep)) :
    Spec.C15.countOk c cur.crit.length rep.length = true := by
  obtain ⟨hv, ordered, sel, rest, ho, hs, hr⟩ := reversalApply_ok h
  obtain ⟨toRev, resl, ht, _, _, _, _, _, hrep⟩ := reverseSelected_ok hr
  have hl : rep.length = sel.length := by
    have := congrArg List.length (reversalReport_heads toRev cur.all (resl.map (·.2)))
    rw [← hrep] at this
    simp only [List.length_map] at this
    rw [this, ← (criteriaToReverse_ok ht).1, List.length_map]
  have := Rdm.BiasA.split_countOk hv hs
  rw [hl, ← (orderCriteria_perm ho).length_eq]
  exact this

/-! ## frame: everything else is untouched -/

/-- criteria list and method parameters are unchanged; ids, order and the considered /
    not-considered split of the alternatives are unchanged -/
theorem frame {eps : α} {c : SplitCond α} {name : String} {cur res : DMP α} {d : Draws α}
    {rep : List (Reversed α)} (h : reversalApply eps c name cur d = .ok (res, rep)) :
    res.crit = cur.crit ∧ res.mp = cur.mp ∧
      res.co.map (·.id) = cur.co.map (·.id) ∧ res.nc.map (·.id) = cur.nc.map (·.id) := by
  obtain ⟨_, ordered, sel, rest, _, _, hr⟩ := reversalApply_ok h
  obtain ⟨toRev, resl, _, _, hnc, hco, hc, hm, _⟩ := reverseSelected_ok hr
  exact ⟨hc, hm, updateAlts_ids hco, updateAlts_ids hnc⟩

/-- every known alternative (considered and not considered): same id and criteria keys; the value of
    every criterion that is not selected is untouched; every selected value `v` becomes
    `max − v + min`.  Hypotheses: criteria ids and alternative ids are distinct (validated requests). -/
theorem values_mirrored {eps : α} {c : SplitCond α} {name : String} {cur res : DMP α} {d : Draws α}
    {rep : List (Reversed α)} (h : reversalApply eps c name cur d = .ok (res, rep))
    (hc : (cur.crit.map (·.id)).Nodup) (ha : (cur.all.map (·.id)).Nodup) :
    ∃ toRev : List (Crit α × (α × α)), rep.map (fun r => (r.id, r.range)) = toRev.map (fun cr => (cr.1.id, cr.2)) ∧
      List.Forall₂ (Mirrored toRev) cur.co res.co ∧ List.Forall₂ (Mirrored toRev) cur.nc res.nc := by
  obtain ⟨_, ordered, sel, rest, ho, hs, hr⟩ := reversalApply_ok h
  obtain ⟨toRev, resl, ht, hm, hnc, hco, _, _, hrep⟩ := reverseSelected_ok hr
  have hp := orderCriteria_perm ho
  have hsel : (sel.map (·.id)).Nodup := by
    have hnd : (ordered.map (·.id)).Nodup := (hp.map _).nodup_iff.2 hc
    rw [← split_append hs, List.map_append] at hnd
    exact (List.nodup_append.1 hnd).1
  have hnd : (toRev.map (·.1.id)).Nodup := by
    have := (criteriaToReverse_ok ht).1
    rw [← this, List.map_map] at hsel
    exact hsel
  refine ⟨toRev, ?_, updated_mirrored hnd ha (fun a h => List.mem_append_left _ h) hm hco,
    updated_mirrored hnd ha (fun a h => List.mem_append_right _ h) hm hnc⟩
  rw [hrep]
  have hh := reversalReport_heads toRev cur.all (resl.map (·.2))
  have := congrArg (List.map fun t : String × String × (α × α) => (t.1, t.2.2)) hh
  simpa [List.map_map, Function.comp_def] using this

/-- reversing the same criteria a second time (with the same ranges) restores every value -/
theorem involution {toRev : List (Crit Rat × (Rat × Rat))} {l l' l'' : List (Alt Rat)}
    (h1 : List.Forall₂ (Mirrored toRev) l l') (h2 : List.Forall₂ (Mirrored toRev) l' l'') :
    List.Forall₂ (fun a a'' => a''.id = a.id ∧ a''.vals.keys = a.vals.keys ∧
      ∀ k, a''.vals.get? k = a.vals.get? k) l l'' := by
  induction h1 generalizing l'' with
  | nil => cases h2; exact .nil
  | cons hab _ ih =>
    cases h2 with
    | cons hbc hrest => exact .cons (mirrored_twice hab hbc) (ih hrest)

/-! ## ranges are preserved, and a second reversal restores the data (state level) -/

/-- each criterion's range is preserved: for the mirrored criteria the declared range is untouched and
    the observed minimum / maximum are exchanged; for all other criteria no value changes.
    (`sel` = the selected criteria; ids of criteria and alternatives distinct.) -/
theorem range_preserved {sel : List (Crit Rat)} {cur res : DMP Rat} {rep : List (Reversed Rat)}
    (h : reverseSelected sel cur = .ok (res, rep)) (hs : (sel.map (·.id)).Nodup)
    (ha : (cur.all.map (·.id)).Nodup) :
    (∀ c ∈ sel, valuesRange res.all c = valuesRange cur.all c) ∧
    (∀ c : Crit Rat, c.id ∉ sel.map (·.id) → valuesRange res.all c = valuesRange cur.all c) :=
  reverseSelected_ranges h hs ha

/-- reversing the same criteria a second time restores the data: every alternative holds its original
    values again, criteria and parameters are still untouched, and the second report names the same
    criteria with the same ranges -/
theorem reversing_twice_restores {sel : List (Crit Rat)} {cur s1 s2 : DMP Rat} {r1 r2 : List (Reversed Rat)}
    (h1 : reverseSelected sel cur = .ok (s1, r1)) (h2 : reverseSelected sel s1 = .ok (s2, r2))
    (hs : (sel.map (·.id)).Nodup) (ha : (cur.all.map (·.id)).Nodup) :
    let same := fun (a a'' : Alt Rat) => a''.id = a.id ∧ a''.vals.keys = a.vals.keys ∧ ∀ k, a''.vals.get? k = a.vals.get? k
    List.Forall₂ same cur.co s2.co ∧ List.Forall₂ same cur.nc s2.nc ∧ s2.crit = cur.crit ∧ s2.mp = cur.mp ∧
      r2.map (fun r => (r.id, r.type, r.range)) = r1.map (fun r => (r.id, r.type, r.range)) :=
  reverseSelected_twice h1 h2 hs ha

/-! ## the report -/

/-- the report lists exactly the mirrored criteria (id, type, range) and, for every known alternative
    (considered ++ not considered, as handed on), exactly the value it now holds for that criterion.
    Hypotheses: the selected criteria ids and the alternative ids are distinct. -/
theorem report_is_faithful {sel : List (Crit α)} {cur res : DMP α} {rep : List (Reversed α)}
    (h : reverseSelected sel cur = .ok (res, rep)) (hs : (sel.map (·.id)).Nodup)
    (ha : (cur.all.map (·.id)).Nodup) :
    ∃ toRev, criteriaToReverse sel cur = .ok toRev ∧ toRev.map (·.1) = sel ∧
      List.Forall₂ (ReportEntryOk res.all) toRev rep := by
  obtain ⟨toRev, resl, ht, hm, hall, hrep⟩ := reverseSelected_all h ha
  have h1 := (criteriaToReverse_ok ht).1
  have hnd : (toRev.map (·.1.id)).Nodup := by
    rw [← h1, List.map_map] at hs; exact hs
  refine ⟨toRev, ht, h1, ?_⟩
  rw [hall, hrep]
  exact reversalReport_values hnd (mapM_ok_forall₂ hm)

/-! ## the spec checker accepts the model's output -/

/-- **`Spec.C16.check` (the checker the driver op `check-c16` evaluates on the implementation's output,
    with `ordered` = what the resolver returns for the same state) accepts the model's output**, all
    five clauses at once: selected = first `k` of the ordering with `k` an admissible pivot, report
    ranges = declared-or-observed, every known alternative holds and reports `hi + lo − v`, frame
    (criteria, parameters, ids, order, split, key sets, unselected values), observed ranges preserved.
    The exact model meets the 1e-12 tolerance clauses with slack 0.
    Domain hypotheses (true for every validated request):
    * `hc`  criteria ids distinct, `ha` alternative ids distinct (`Validate`);
    * `hk`  the value keys of every alternative are distinct (Go maps; the spec's `sameIds` demands
            duplicate-free key lists);
    * `hne` if anything is reversed there is at least one known alternative (with no alternative at all
            the code reports the range `(0,0)` for an undeclared range while the spec's observed range
            of an empty list does not exist — outside the property's domain). -/
theorem reversal_satisfies_spec {eps : Rat} {c : SplitCond Rat} {name : String} {cur res : DMP Rat}
    {d : Draws Rat} {rep : List (Reversed Rat)} {ordered : List (Crit Rat)}
    (h : reversalApply eps c name cur d = .ok (res, rep))
    (ho : orderCriteria eps name cur d = .ok ordered)
    (hc : (cur.crit.map (·.id)).Nodup) (ha : (cur.all.map (·.id)).Nodup)
    (hk : ∀ a ∈ cur.all, a.vals.keys.Nodup) (hne : rep ≠ [] → cur.all ≠ []) :
    Spec.C16.check c ordered cur res rep = true :=
  c16spec_check h ho hc ha hk hne

/-- the verdict string the driver prints for the model's output is `"ok"` -/
theorem reversal_explain_ok {eps : Rat} {c : SplitCond Rat} {name : String} {cur res : DMP Rat}
    {d : Draws Rat} {rep : List (Reversed Rat)} {ordered : List (Crit Rat)}
    (h : reversalApply eps c name cur d = .ok (res, rep))
    (ho : orderCriteria eps name cur d = .ok ordered)
    (hc : (cur.crit.map (·.id)).Nodup) (ha : (cur.all.map (·.id)).Nodup)
    (hk : ∀ a ∈ cur.all, a.vals.keys.Nodup) (hne : rep ≠ [] → cur.all ≠ []) :
    Spec.C16.explain c ordered cur res rep = "ok" :=
  c16spec_explain_of_check (c16spec_check h ho hc ha hk hne)

/-! ### the hypotheses are satisfiable together -/

/- the example state `c16spec_exState` (two considered and one not considered alternative, an undeclared
   and a declared range) and split condition `c16spec_exCond` (ratio ½) are defined in
   Lemmas/BiasAReversalSpec.lean -/

/-- a run that reverses one criterion (`c1`, undeclared range, observed over three alternatives) and
    satisfies every hypothesis of `reversal_satisfies_spec` -/
example : ∃ (res : DMP Rat) (rep : List (Reversed Rat)) (ordered : List (Crit Rat)),
    reversalApply 0 c16spec_exCond Facts.orderingRandom c16spec_exState [1] = .ok (res, rep) ∧
    orderCriteria 0 Facts.orderingRandom c16spec_exState [1] = .ok ordered ∧
    (c16spec_exState.crit.map (·.id)).Nodup ∧ (c16spec_exState.all.map (·.id)).Nodup ∧
    (∀ a ∈ c16spec_exState.all, a.vals.keys.Nodup) ∧ rep ≠ [] ∧ (rep ≠ [] → c16spec_exState.all ≠ []) := by
  have hb : (match reversalApply 0 c16spec_exCond Facts.orderingRandom c16spec_exState [1],
      orderCriteria 0 Facts.orderingRandom c16spec_exState [1] with
      | .ok (_, rep), .ok _ => !rep.isEmpty
      | _, _ => false) = true := by decide +kernel
  cases h1 : reversalApply 0 c16spec_exCond Facts.orderingRandom c16spec_exState [1] with
  | error e => rw [h1] at hb; cases hb
  | ok p =>
    obtain ⟨res, rep⟩ := p
    cases h2 : orderCriteria 0 Facts.orderingRandom c16spec_exState [1] with
    | error e => rw [h1, h2] at hb; cases hb
    | ok ordered =>
      rw [h1, h2] at hb
      refine ⟨res, rep, ordered, rfl, rfl, by decide, by decide, by decide, ?_, fun _ => by decide⟩
      intro e
      rw [e] at hb
      cases hb

/-
  Not proved here (checked on the implementation's output by `check-c16` and by the oracle
  `reversal-involution` of harness/main/c16.go):
  * the floating-point form of the involution (1e-9 relative on the real code, exact on dyadic data):
    over the rationals it is `reversing_twice_restores`;
  * `reversal_satisfies_spec` is about the exact (rational) model: the 1e-12 relative slack the spec
    grants to the floating-point code is met there with slack 0 (`c16spec_close_self`).
-/
/-- the constants and names this property depends on were re-read from the working tree on this run
    (none fell back to its pinned value because its declaration could not be located) -/
theorem facts_fresh : (Rdm.Facts.staleFacts.all fun n => !["orderingWeakest", "orderingStrongest", "orderingRandom", "orderingWeakestByProbability", "orderingStrongestByProbability", "wiringOrderings", "biasReversal"].contains n) = true := by decide

end Rdm.Props.C16
