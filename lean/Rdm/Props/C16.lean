/-
  C16 — preference reversal mirrors the selected criteria inside their range.
  Property theorems only (helper lemmas: Rdm/Lemmas/BiasAReversal.lean, BiasARange.lean,
  BiasAReversalSpec.lean).  Model:
  Rdm/Model/BiasesA.lean (`reversalApply`), tied to the Go code bit-for-bit by the stage
  `reversal-apply` of harness/main/c16.go.
-/
import Rdm.Lemmas.BiasAReversal
import Rdm.Lemmas.BiasARange
import Rdm.Lemmas.BiasAReversalSpec
import Rdm.Spec.C16
import Rdm.Lemmas.E2EBiasesState
import Rdm.Lemmas.E2EBiasesExample
set_option linter.unusedSectionVars false
open Rdm Rdm.BiasA
namespace Rdm.Props.C16
variable {α : Type} [Num α]

/-! ## the new value -/

/-- `v ↦ max − v + min = max + min − v` -/
theorem new_value_formula (r : Rat × Rat) (v : Rat) : reverseValue r v = r.2 + r.1 - v := by
  unfold reverseValue; ring

/-- mirroring twice with the same range restores the value -/
theorem new_value_involution (r : Rat × Rat) (v : Rat) : reverseValue r (reverseValue r v) = v := by
  unfold reverseValue; ring

/-- the range is preserved: values inside `[lo, hi]` stay inside, the end points are exchanged (so the
    observed minimum and maximum of a mirrored criterion are again `lo` and `hi`) -/
theorem new_value_in_range {lo hi v : Rat} (h1 : lo ≤ v) (h2 : v ≤ hi) :
    lo ≤ reverseValue (lo, hi) v ∧ reverseValue (lo, hi) v ≤ hi ∧
      reverseValue (lo, hi) lo = hi ∧ reverseValue (lo, hi) hi = lo := by
  unfold reverseValue
  refine ⟨by linarith, by linarith, by ring, by ring⟩

/-! ## selection: the same count / ordering rule as omission -/

/-- the reversed criteria are the first `k` of the ordering (`k` = clamped pivot), reported in that
    order with their type and with the range `CriteriaValuesRange` gives over all current alternatives -/
theorem selected_first_k {eps : α} {c : SplitCond α} {name : String} {cur res : DMP α} {d : Draws α}
    {rep : List (Reversed α)} (h : reversalApply eps c name cur d = .ok (res, rep)) :
    ∃ ordered, ∃ toRev : List (Crit α × (α × α)), orderCriteria eps name cur d = .ok ordered ∧ ordered.Perm cur.crit ∧
      toRev.map (·.1) = ordered.take (c.pivot cur.crit.length).toNat ∧
      (∀ cr ∈ toRev, valuesRange cur.all cr.1 = .ok cr.2) ∧
      rep.map (fun r => (r.id, r.type, r.range)) = toRev.map (fun cr => (cr.1.id, cr.1.type, cr.2)) := by
  obtain ⟨_, ordered, sel, rest, ho, hs, hr⟩ := reversalApply_ok h
  obtain ⟨toRev, resl, ht, _, _, _, _, _, hrep⟩ := reverseSelected_ok hr
  obtain ⟨h1, h2⟩ := criteriaToReverse_ok ht
  have hp := orderCriteria_perm ho
  refine ⟨ordered, toRev, ho, hp, ?_, h2, ?_⟩
  · rw [h1, (split_ok hs).2.2.1, hp.length_eq]
  · rw [hrep, reversalReport_heads]

/-- on the model's output the selection satisfies the count clause of the spec (shared with C15) -/
theorem selected_countOk {eps : Rat} {c : SplitCond Rat} {name : String} {cur res : DMP Rat}
    {d : Draws Rat} {rep : List (Reversed Rat)} (h : reversalApply eps c name cur d = .ok (res, rep)) :
    Spec.C15.countOk c cur.crit.length rep.length = true := by
  obtain ⟨hv, ordered, sel, rest, ho, hs, hr⟩ := reversalApply_ok h
  obtain ⟨toRev, resl, ht, _, _, _, _, _, hrep⟩ := reverseSelected_ok hr
  have hl : rep.length = sel.length := by
    have := congrArg List.length (reversalReport_heads toRev cur.all (resl.map (·.2)))
    rw [← hrep] at this
    simp only [List.length_map] at this
    rw [this, ← (criteriaToReverse_ok ht).1, List.length_map]
  have := Rdm.BiasA.split_countOk hv hs
  rw [hl, ← (orderCriteria_perm ho).length_eq]
  exact this

/-! ## frame: everything else is untouched -/

/-- criteria list and method parameters are unchanged; ids, order and the considered /
    not-considered split of the alternatives are unchanged -/
theorem frame {eps : α} {c : SplitCond α} {name : String} {cur res : DMP α} {d : Draws α}
    {rep : List (Reversed α)} (h : reversalApply eps c name cur d = .ok (res, rep)) :
    res.crit = cur.crit ∧ res.mp = cur.mp ∧
      res.co.map (·.id) = cur.co.map (·.id) ∧ res.nc.map (·.id) = cur.nc.map (·.id) := by
  obtain ⟨_, ordered, sel, rest, _, _, hr⟩ := reversalApply_ok h
  obtain ⟨toRev, resl, _, _, hnc, hco, hc, hm, _⟩ := reverseSelected_ok hr
  exact ⟨hc, hm, updateAlts_ids hco, updateAlts_ids hnc⟩

/-- every known alternative (considered and not considered): same id and criteria keys; the value of
    every criterion that is not selected is untouched; every selected value `v` becomes
    `max − v + min`.  Hypotheses: criteria ids and alternative ids are distinct (validated requests). -/
theorem values_mirrored {eps : α} {c : SplitCond α} {name : String} {cur res : DMP α} {d : Draws α}
    {rep : List (Reversed α)} (h : reversalApply eps c name cur d = .ok (res, rep))
    (hc : (cur.crit.map (·.id)).Nodup) (ha : (cur.all.map (·.id)).Nodup) :
    ∃ toRev : List (Crit α × (α × α)), rep.map (fun r => (r.id, r.range)) = toRev.map (fun cr => (cr.1.id, cr.2)) ∧
      List.Forall₂ (Mirrored toRev) cur.co res.co ∧ List.Forall₂ (Mirrored toRev) cur.nc res.nc := by
  obtain ⟨_, ordered, sel, rest, ho, hs, hr⟩ := reversalApply_ok h
  obtain ⟨toRev, resl, ht, hm, hnc, hco, _, _, hrep⟩ := reverseSelected_ok hr
  have hp := orderCriteria_perm ho
  have hsel : (sel.map (·.id)).Nodup := by
    have hnd : (ordered.map (·.id)).Nodup := (hp.map _).nodup_iff.2 hc
    rw [← split_append hs, List.map_append] at hnd
    exact (List.nodup_append.1 hnd).1
  have hnd : (toRev.map (·.1.id)).Nodup := by
    have := (criteriaToReverse_ok ht).1
    rw [← this, List.map_map] at hsel
    exact hsel
  refine ⟨toRev, ?_, updated_mirrored hnd ha (fun a h => List.mem_append_left _ h) hm hco,
    updated_mirrored hnd ha (fun a h => List.mem_append_right _ h) hm hnc⟩
  rw [hrep]
  have hh := reversalReport_heads toRev cur.all (resl.map (·.2))
  have := congrArg (List.map fun t : String × String × (α × α) => (t.1, t.2.2)) hh
  simpa [List.map_map, Function.comp_def] using this

/-- reversing the same criteria a second time (with the same ranges) restores every value -/
theorem involution {toRev : List (Crit Rat × (Rat × Rat))} {l l' l'' : List (Alt Rat)}
    (h1 : List.Forall₂ (Mirrored toRev) l l') (h2 : List.Forall₂ (Mirrored toRev) l' l'') :
    List.Forall₂ (fun a a'' => a''.id = a.id ∧ a''.vals.keys = a.vals.keys ∧
      ∀ k, a''.vals.get? k = a.vals.get? k) l l'' := by
  induction h1 generalizing l'' with
  | nil => cases h2; exact .nil
  | cons hab _ ih =>
    cases h2 with
    | cons hbc hrest => exact .cons (mirrored_twice hab hbc) (ih hrest)

/-! ## ranges are preserved, and a second reversal restores the data (state level) -/

/-- each criterion's range is preserved: for the mirrored criteria the declared range is untouched and
    the observed minimum / maximum are exchanged; for all other criteria no value changes.
    (`sel` = the selected criteria; ids of criteria and alternatives distinct.) -/
theorem range_preserved {sel : List (Crit Rat)} {cur res : DMP Rat} {rep : List (Reversed Rat)}
    (h : reverseSelected sel cur = .ok (res, rep)) (hs : (sel.map (·.id)).Nodup)
    (ha : (cur.all.map (·.id)).Nodup) :
    (∀ c ∈ sel, valuesRange res.all c = valuesRange cur.all c) ∧
    (∀ c : Crit Rat, c.id ∉ sel.map (·.id) → valuesRange res.all c = valuesRange cur.all c) :=
  reverseSelected_ranges h hs ha

/-- reversing the same criteria a second time restores the data: every alternative holds its original
    values again, criteria and parameters are still untouched, and the second report names the same
    criteria with the same ranges -/
theorem reversing_twice_restores {sel : List (Crit Rat)} {cur s1 s2 : DMP Rat} {r1 r2 : List (Reversed Rat)}
    (h1 : reverseSelected sel cur = .ok (s1, r1)) (h2 : reverseSelected sel s1 = .ok (s2, r2))
    (hs : (sel.map (·.id)).Nodup) (ha : (cur.all.map (·.id)).Nodup) :
    let same := fun (a a'' : Alt Rat) => a''.id = a.id ∧ a''.vals.keys = a.vals.keys ∧ ∀ k, a''.vals.get? k = a.vals.get? k
    List.Forall₂ same cur.co s2.co ∧ List.Forall₂ same cur.nc s2.nc ∧ s2.crit = cur.crit ∧ s2.mp = cur.mp ∧
      r2.map (fun r => (r.id, r.type, r.range)) = r1.map (fun r => (r.id, r.type, r.range)) :=
  reverseSelected_twice h1 h2 hs ha

/-! ## the report -/

/-- the report lists exactly the mirrored criteria (id, type, range) and, for every known alternative
    (considered ++ not considered, as handed on), exactly the value it now holds for that criterion.
    Hypotheses: the selected criteria ids and the alternative ids are distinct. -/
theorem report_is_faithful {sel : List (Crit α)} {cur res : DMP α} {rep : List (Reversed α)}
    (h : reverseSelected sel cur = .ok (res, rep)) (hs : (sel.map (·.id)).Nodup)
    (ha : (cur.all.map (·.id)).Nodup) :
    ∃ toRev, criteriaToReverse sel cur = .ok toRev ∧ toRev.map (·.1) = sel ∧
      List.Forall₂ (ReportEntryOk res.all) toRev rep := by
  obtain ⟨toRev, resl, ht, hm, hall, hrep⟩ := reverseSelected_all h ha
  have h1 := (criteriaToReverse_ok ht).1
  have hnd : (toRev.map (·.1.id)).Nodup := by
    rw [← h1, List.map_map] at hs; exact hs
  refine ⟨toRev, ht, h1, ?_⟩
  rw [hall, hrep]
  exact reversalReport_values hnd (mapM_ok_forall₂ hm)

/-! ## the spec checker accepts the model's output -/

/-- **`Spec.C16.check` (the checker the driver op `check-c16` evaluates on the implementation's output,
    with `ordered` = what the resolver returns for the same state) accepts the model's output**, all
    five clauses at once: selected = first `k` of the ordering with `k` an admissible pivot, report
    ranges = declared-or-observed, every known alternative holds and reports `hi + lo − v`, frame
    (criteria, parameters, ids, order, split, key sets, unselected values), observed ranges preserved.
    The exact model meets the 1e-12 tolerance clauses with slack 0.
    Domain hypotheses (true for every validated request):
    * `hc`  criteria ids distinct, `ha` alternative ids distinct (`Validate`);
    * `hk`  the value keys of every alternative are distinct (Go maps; the spec's `sameIds` demands
            duplicate-free key lists);
    * `hne` if anything is reversed there is at least one known alternative (with no alternative at all
            the code reports the range `(0,0)` for an undeclared range while the spec's observed range
            of an empty list does not exist — outside the property's domain). -/
theorem reversal_satisfies_spec {eps : Rat} {c : SplitCond Rat} {name : String} {cur res : DMP Rat}
    {d : Draws Rat} {rep : List (Reversed Rat)} {ordered : List (Crit Rat)}
    (h : reversalApply eps c name cur d = .ok (res, rep))
    (ho : orderCriteria eps name cur d = .ok ordered)
    (hc : (cur.crit.map (·.id)).Nodup) (ha : (cur.all.map (·.id)).Nodup)
    (hk : ∀ a ∈ cur.all, a.vals.keys.Nodup) (hne : rep ≠ [] → cur.all ≠ []) :
    Spec.C16.check c ordered cur res rep = true :=
  c16spec_check h ho hc ha hk hne

/-- the verdict string the driver prints for the model's output is `"ok"` -/
theorem reversal_explain_ok {eps : Rat} {c : SplitCond Rat} {name : String} {cur res : DMP Rat}
    {d : Draws Rat} {rep : List (Reversed Rat)} {ordered : List (Crit Rat)}
    (h : reversalApply eps c name cur d = .ok (res, rep))
    (ho : orderCriteria eps name cur d = .ok ordered)
    (hc : (cur.crit.map (·.id)).Nodup) (ha : (cur.all.map (·.id)).Nodup)
    (hk : ∀ a ∈ cur.all, a.vals.keys.Nodup) (hne : rep ≠ [] → cur.all ≠ []) :
    Spec.C16.explain c ordered cur res rep = "ok" :=
  c16spec_explain_of_check (c16spec_check h ho hc ha hk hne)

/-! ### the hypotheses are satisfiable together -/

/- the example state `c16spec_exState` (two considered and one not considered alternative, an undeclared
   and a declared range) and split condition `c16spec_exCond` (ratio ½) are defined in
   Lemmas/BiasAReversalSpec.lean -/

/-- a run that reverses one criterion (`c1`, undeclared range, observed over three alternatives) and
    satisfies every hypothesis of `reversal_satisfies_spec` -/
example : ∃ (res : DMP Rat) (rep : List (Reversed Rat)) (ordered : List (Crit Rat)),
    reversalApply 0 c16spec_exCond Facts.orderingRandom c16spec_exState [1] = .ok (res, rep) ∧
    orderCriteria 0 Facts.orderingRandom c16spec_exState [1] = .ok ordered ∧
    (c16spec_exState.crit.map (·.id)).Nodup ∧ (c16spec_exState.all.map (·.id)).Nodup ∧
    (∀ a ∈ c16spec_exState.all, a.vals.keys.Nodup) ∧ rep ≠ [] ∧ (rep ≠ [] → c16spec_exState.all ≠ []) := by
  have hb : (match reversalApply 0 c16spec_exCond Facts.orderingRandom c16spec_exState [1],
      orderCriteria 0 Facts.orderingRandom c16spec_exState [1] with
      | .ok (_, rep), .ok _ => !rep.isEmpty
      | _, _ => false) = true := by decide +kernel
  cases h1 : reversalApply 0 c16spec_exCond Facts.orderingRandom c16spec_exState [1] with
  | error e => rw [h1] at hb; cases hb
  | ok p =>
    obtain ⟨res, rep⟩ := p
    cases h2 : orderCriteria 0 Facts.orderingRandom c16spec_exState [1] with
    | error e => rw [h1, h2] at hb; cases hb
    | ok ordered =>
      rw [h1, h2] at hb
      refine ⟨res, rep, ordered, rfl, rfl, by decide, by decide, by decide, ?_, fun _ => by decide⟩
      intro e
      rw [e] at hb
      cases hb

/-
  Not proved here (checked on the implementation's output by `check-c16` and by the oracle
  `reversal-involution` of harness/main/c16.go):
  * the floating-point form of the involution (1e-9 relative on the real code, exact on dyadic data):
    over the rationals it is `reversing_twice_restores`;
  * `reversal_satisfies_spec` is about the exact (rational) model: the 1e-12 relative slack the spec
    grants to the floating-point code is met there with slack 0 (`c16spec_close_self`).
-/
/-- the constants and names this property depends on were re-read from the working tree on this run
    (none fell back to its pinned value because its declaration could not be located) -/
theorem facts_fresh : (Rdm.Facts.staleFacts.all fun n => !["orderingWeakest", "orderingStrongest", "orderingRandom", "orderingWeakestByProbability", "orderingStrongestByProbability", "wiringOrderings", "biasReversal"].contains n) = true := by decide

/-! ## END TO END: a fired preference reversal inside a whole request

The theorems above are about one `PreferenceReversal.Apply` in isolation.  Below they are lifted to responses of
`decideWith` (Model/Decide.lean): every entry of `resp.biases` that carries a reversal report — at any position
of any bias list, whatever fired before and after, for all seven methods — is one `reversalApply` from the
state `s` it received to the state `s'` it handed on (`E2EBFired`, Lemmas/E2EBiases.lean: `s` is the state handed
on by the previous fired bias, or the request's).  The ranges, the ordering and the values of every clause are
those of the CURRENT state `s`, not of the request.  The criteria ids of `s` are distinct because the request's are
(`e2eb_fired_crit_nodup`); the ids of its known alternatives are those of the request (`e2eb_fired_frame`), so their
distinctness becomes a hypothesis about the request. -/

section e2e
variable {exp : α → α} {o : List (WCrit α) → List (WCrit α)} {req : Request α} {g : Int → Draws α}
  {resp : Response α} {params s s' : DMP α} {chosen : List (Chosen α (BProps α))} {i : Nat} {name : String}
  {prob : α} {c : SplitCond α} {ord : String} {seed : Int} {rep : List (Reversed α)}

/-- **Every reversal entry of a response that carries a report is one `PreferenceReversal.Apply` on the state
    it received.** -/
theorem fired_reversal_is_one_apply (h : decideWith exp o req g = .ok resp)
    (hi : resp.biases[i]? = some ⟨name, prob, some (.reversal rep)⟩) :
    ∃ params chosen c ord seed s s',
      E2EBFired exp g req resp params chosen i ⟨name, prob, .split c ord seed⟩ (.reversal rep) s s' ∧
      name = Facts.biasReversal ∧ reversalApply choquetEpsOf c ord s (g seed) = .ok (s', rep) := by
  obtain ⟨params, chosen, props, s, s', hf⟩ := e2eb_fired h hi
  obtain ⟨hn, c, ord, seed, hp, ha⟩ := e2eb_fired_reversal hf
  dsimp only at hn hp
  subst hp
  exact ⟨params, chosen, c, ord, seed, s, s', hf, hn, ha⟩

/-- the `Apply` call of a fired reversal entry -/
theorem fired_reversal_apply
    (hf : E2EBFired exp g req resp params chosen i ⟨name, prob, .split c ord seed⟩ (.reversal rep) s s') :
    reversalApply choquetEpsOf c ord s (g seed) = .ok (s', rep) := by
  obtain ⟨_, c', ord', seed', hp, ha⟩ := e2eb_fired_reversal hf
  dsimp only at hp
  cases hp
  exact ha

/-- `selected_first_k`, end to end: the reversed criteria are the first `k` of the ordering of the criteria of
    the state RECEIVED (`k` = clamped pivot of their number), reported in that order with their type and the
    range `CriteriaValuesRange` gives over all alternatives of the state received -/
theorem selected_first_k_e2e
    (hf : E2EBFired exp g req resp params chosen i ⟨name, prob, .split c ord seed⟩ (.reversal rep) s s') :
    ∃ ordered, ∃ toRev : List (Crit α × (α × α)), orderCriteria choquetEpsOf ord s (g seed) = .ok ordered ∧
      ordered.Perm s.crit ∧ toRev.map (·.1) = ordered.take (c.pivot s.crit.length).toNat ∧
      (∀ cr ∈ toRev, valuesRange s.all cr.1 = .ok cr.2) ∧
      rep.map (fun r => (r.id, r.type, r.range)) = toRev.map (fun cr => (cr.1.id, cr.1.type, cr.2)) :=
  selected_first_k (fired_reversal_apply hf)

/-- `frame`, end to end: criteria list and method parameters are handed on unchanged; ids, order and the
    considered / not-considered split of the alternatives too -/
theorem frame_e2e
    (hf : E2EBFired exp g req resp params chosen i ⟨name, prob, .split c ord seed⟩ (.reversal rep) s s') :
    s'.crit = s.crit ∧ s'.mp = s.mp ∧
      s'.co.map (·.id) = s.co.map (·.id) ∧ s'.nc.map (·.id) = s.nc.map (·.id) :=
  frame (fired_reversal_apply hf)

/-- `values_mirrored`, end to end: every known alternative of the state received keeps id and criteria keys;
    unselected values are untouched; every selected value `v` becomes `max − v + min` with `(min, max)` the
    reported range (declared, or observed over the alternatives of the state RECEIVED).
    Hypotheses about the request only: known ids pairwise different, `choseToMake` duplicate-free. -/
theorem values_mirrored_e2e
    (hf : E2EBFired exp g req resp params chosen i ⟨name, prob, .split c ord seed⟩ (.reversal rep) s s')
    (hk : (req.known.map (·.id)).Nodup) (hch : req.chosen.Nodup) :
    ∃ toRev : List (Crit α × (α × α)), rep.map (fun r => (r.id, r.range)) = toRev.map (fun cr => (cr.1.id, cr.2)) ∧
      List.Forall₂ (Mirrored toRev) s.co s'.co ∧ List.Forall₂ (Mirrored toRev) s.nc s'.nc :=
  values_mirrored (fired_reversal_apply hf) (e2eb_fired_crit_nodup hf).2.1 (e2eb_fired_alt_ids_nodup hf hk hch).1

/-- `report_is_faithful`, end to end: the report lists exactly the mirrored criteria — the first `k` of the
    ordering of the state received — with id, type, range, and for every known alternative AS HANDED ON exactly
    the value it now holds -/
theorem report_is_faithful_e2e
    (hf : E2EBFired exp g req resp params chosen i ⟨name, prob, .split c ord seed⟩ (.reversal rep) s s')
    (hk : (req.known.map (·.id)).Nodup) (hch : req.chosen.Nodup) :
    ∃ ordered sel toRev, orderCriteria choquetEpsOf ord s (g seed) = .ok ordered ∧
      sel = ordered.take (c.pivot ordered.length).toNat ∧
      criteriaToReverse sel s = .ok toRev ∧ toRev.map (·.1) = sel ∧
      List.Forall₂ (ReportEntryOk s'.all) toRev rep := by
  obtain ⟨_, ordered, sel, rest, ho, hs, hr⟩ := reversalApply_ok (fired_reversal_apply hf)
  have hp := orderCriteria_perm ho
  have hsel : (sel.map (·.id)).Nodup := by
    have hnd : (ordered.map (·.id)).Nodup := (hp.map _).nodup_iff.2 (e2eb_fired_crit_nodup hf).2.1
    rw [← split_append hs, List.map_append] at hnd
    exact (List.nodup_append.1 hnd).1
  obtain ⟨toRev, ht, h1, h2⟩ := report_is_faithful hr hsel (e2eb_fired_alt_ids_nodup hf hk hch).1
  exact ⟨ordered, sel, toRev, ho, (split_ok hs).2.2.1, ht, h1, h2⟩

end e2e

section e2eRat
variable {exp : Rat → Rat} {o : List (WCrit Rat) → List (WCrit Rat)} {req : Request Rat} {g : Int → Draws Rat}
  {resp : Response Rat} {params s s' : DMP Rat} {chosen : List (Chosen Rat (BProps Rat))} {i : Nat}
  {name : String} {prob : Rat} {c : SplitCond Rat} {ord : String} {seed : Int} {rep : List (Reversed Rat)}

/-- `selected_countOk`, end to end: the count clause (shared with C15) on the number of criteria RECEIVED -/
theorem selected_countOk_e2e
    (hf : E2EBFired exp g req resp params chosen i ⟨name, prob, .split c ord seed⟩ (.reversal rep) s s') :
    Spec.C15.countOk c s.crit.length rep.length = true := selected_countOk (fired_reversal_apply hf)

/-- `range_preserved`, end to end: the range of every criterion of the state received, over the known
    alternatives, is the same before and after the entry (for the mirrored ones minimum and maximum are
    exchanged, for the others no value changes); so is the range of any other criterion record whose id is not
    the id of a mirrored criterion -/
theorem range_preserved_e2e
    (hf : E2EBFired exp g req resp params chosen i ⟨name, prob, .split c ord seed⟩ (.reversal rep) s s')
    (hk : (req.known.map (·.id)).Nodup) (hch : req.chosen.Nodup) :
    (∀ x ∈ s.crit, valuesRange s'.all x = valuesRange s.all x) ∧
    (∀ x : Crit Rat, x.id ∉ rep.map (·.id) → valuesRange s'.all x = valuesRange s.all x) := by
  obtain ⟨_, ordered, sel, rest, ho, hs, hr⟩ := reversalApply_ok (fired_reversal_apply hf)
  have hp := orderCriteria_perm ho
  have hnds := (e2eb_fired_crit_nodup hf).2.1
  have hnd : (ordered.map (·.id)).Nodup := (hp.map _).nodup_iff.2 hnds
  have hsel : (sel.map (·.id)).Nodup := by
    rw [← split_append hs, List.map_append] at hnd
    exact (List.nodup_append.1 hnd).1
  obtain ⟨h1, h2⟩ := range_preserved hr hsel (e2eb_fired_alt_ids_nodup hf hk hch).1
  have hsub : ∀ y ∈ sel, y ∈ s.crit := fun y hy =>
    hp.subset (split_append hs ▸ List.mem_append_left _ hy)
  have hrep : rep.map (·.id) = sel.map (·.id) := by
    obtain ⟨toRev, resl, ht, _, _, _, _, _, hrp⟩ := reverseSelected_ok hr
    have hh := reversalReport_heads toRev s.all (resl.map (·.2))
    rw [← hrp] at hh
    have := congrArg (List.map fun t : String × String × (Rat × Rat) => t.1) hh
    simp only [List.map_map, Function.comp_def] at this
    rw [this, ← (criteriaToReverse_ok ht).1, List.map_map]
    rfl
  constructor
  · intro x hx
    by_cases hmem : x.id ∈ sel.map (·.id)
    · obtain ⟨y, hy, hxy⟩ := List.mem_map.mp hmem
      have : y = x := List.inj_on_of_nodup_map hnds (hsub y hy) hx hxy
      exact h1 x (this ▸ hy)
    · exact h2 x hmem
  · intro x hx
    rw [hrep] at hx
    exact h2 x hx

/-- **`reversal_satisfies_spec`, end to end: every fired reversal entry of a response satisfies the reversal spec
    w.r.t. the state it received.**  `Spec.C16.check` — selected = first `k` of the ordering of `s`, report ranges
    = declared-or-observed in `s`, every known alternative holds and reports `hi + lo − v`, frame, observed
    ranges preserved — accepts `(s, s', report)`, whatever biases ran before and after, for all seven methods.
    Hypotheses: about the request — known ids pairwise different, `choseToMake` duplicate-free; about `s` — value
    keys of every alternative distinct (Go maps), and if anything is reversed there is a known alternative. -/
theorem reversal_satisfies_spec_e2e
    (hf : E2EBFired exp g req resp params chosen i ⟨name, prob, .split c ord seed⟩ (.reversal rep) s s')
    (hk : (req.known.map (·.id)).Nodup) (hch : req.chosen.Nodup)
    (hkeys : ∀ a ∈ s.all, a.vals.keys.Nodup) (hne : rep ≠ [] → s.all ≠ []) :
    ∃ ordered, orderCriteria choquetEpsOf ord s (g seed) = .ok ordered ∧
      Spec.C16.check c ordered s s' rep = true ∧ Spec.C16.explain c ordered s s' rep = "ok" := by
  obtain ⟨_, ordered, _, _, ho, _, _⟩ := reversalApply_ok (fired_reversal_apply hf)
  have hc := (e2eb_fired_crit_nodup hf).2.1
  have ha := (e2eb_fired_alt_ids_nodup hf hk hch).1
  exact ⟨ordered, ho, reversal_satisfies_spec (fired_reversal_apply hf) ho hc ha hkeys hne,
    reversal_explain_ok (fired_reversal_apply hf) ho hc ha hkeys hne⟩

end e2eRat

/-! ### the hypotheses are satisfiable: a request in which the reversal is the second fired bias -/

/-- fatigue fires, an entry does not fire, then the reversal fires; every hypothesis of
    `reversal_satisfies_spec_e2e` holds (of the request, and of the state the fatigue handed on), the report is
    not empty, and the spec accepts the entry -/
example : ∃ resp name prob rep n0 p0 r0 c ordered s s',
    Rdm.decide id (e2ebExReq [e2ebExFatigue, e2ebExSkipped, e2ebExReversal]) e2ebExSeeds = .ok resp ∧
    resp.biases[2]? = some ⟨name, prob, some (.reversal rep)⟩ ∧ resp.biases[0]? = some ⟨n0, p0, some r0⟩ ∧
    rep ≠ [] ∧ Spec.C16.check c ordered s s' rep = true := by
  obtain ⟨resp, name, prob, rp, hr, h2, hk, n0, p0, r0, h0⟩ := e2eb_firedWith
    (r := Rdm.decide id (e2ebExReq [e2ebExFatigue, e2ebExSkipped, e2ebExReversal]) e2ebExSeeds)
    (j := 0) (i := 2) (k := fun r => match r with | .reversal l => !l.isEmpty | _ => false) (by decide +kernel)
  cases rp with
  | reversal rep =>
    obtain ⟨params, chosen, c, ord, seed, s, s', hf, _, _⟩ := fired_reversal_is_one_apply hr h2
    have hs := e2eb_received_sat hf (k := fun s =>
      decide (∀ a ∈ s.all, a.vals.keys.Nodup) && !s.all.isEmpty) (by decide +kernel)
    simp only [Bool.and_eq_true, decide_eq_true_eq, Bool.not_eq_true', List.isEmpty_eq_false_iff] at hs
    obtain ⟨ordered, _, hchk, _⟩ := reversal_satisfies_spec_e2e hf (by decide) (by decide) hs.1 (fun _ => hs.2)
    refine ⟨resp, name, prob, rep, n0, p0, r0, c, ordered, s, s', hr, h2, h0, ?_, hchk⟩
    intro e
    rw [e] at hk
    cases hk
  | _ => cases hk

end Rdm.Props.C16
