/-
  C04 — a utility ranking is exactly the order of the utilities.
  Property theorems only (helper lemmas live in Rdm/Lemmas).
-/
import Rdm.Model.Ranking
import Rdm.Spec.C04
namespace Rdm.Props.C04
open Rdm

/-- the ranking is a permutation of its input ids (no entry lost or invented), for every number type -/
theorem ranking_ids_perm {α : Type} [Num α] (l : List (Scored α)) :
    ((ranking l).map (·.id)).Perm (l.map (·.id)) := by
  unfold ranking
  simp only [List.map_map]
  have h := List.mergeSort_perm (l.map fun s => ({ s with v := round8 s.v } : Scored α)) rankLe
  have h2 := h.map (fun s : Scored α => s.id)
  simpa [Function.comp_def] using h2

end Rdm.Props.C04
