/-
  C04 — a utility ranking is exactly the order of the utilities.
  Property theorems only (helper lemmas live in Rdm/Lemmas/Ranking*.lean).  Order facts are over `Rat`;
  `ranking_ids_perm` holds for every number type.  None of the theorems about order and links needs
  the ids to be distinct (entries that share id *and* value skip each other both in the code and in the
  spec); distinctness is only needed to speak about "the" entry of an id (`reach`).
-/
import Mathlib.Logic.Relation
import Rdm.Model.Ranking
import Rdm.Spec.C04
import Rdm.Lemmas.RankingBasic
import Rdm.Lemmas.RankingOrder
import Rdm.Lemmas.RankingLinks
import Rdm.Lemmas.RankingRound
import Rdm.Lemmas.RankingReach
import Rdm.Lemmas.E2EDecide
import Rdm.Lemmas.E2EUtility
import Rdm.Lemmas.E2EExamples
namespace Rdm.Props.C04
open Rdm

/-- the ranking is a permutation of its input ids (no entry lost or invented), for every number type -/
theorem ranking_ids_perm {α : Type} [Num α] (l : List (Scored α)) :
    ((ranking l).map (·.id)).Perm (l.map (·.id)) := by
  rw [ranking_eq, entriesOf_ids]
  exact sorted_ids_perm l

/-- every entry carries the rounded value of the input alternative with its id -/
theorem ranking_values {α : Type} [Num α] (l : List (Scored α)) :
    ∀ e ∈ ranking l, ∃ s ∈ l, e.id = s.id ∧ e.v = round8 s.v := by
  intro e he
  rw [ranking_eq] at he
  obtain ⟨a, ha, rfl⟩ := List.mem_map.mp he
  have ha' : a ∈ roundAll l := (List.mergeSort_perm _ _).mem_iff.mp ha
  obtain ⟨s, hs, rfl⟩ := List.mem_map.mp ha'
  exact ⟨s, hs, rfl, rfl⟩

/-- clause 1: `result` is ordered by non-increasing value, equal values by ascending id -/
theorem ranking_sorted (l : List (Scored Rat)) : Spec.C04.sortedOk (ranking l) = true := by
  rw [ranking_eq]
  exact sortedOk_of_pairwise _ (fun _ => ⟨rfl, rfl⟩) _ (mergeSort_rankLe_pairwise _)

/-- clause 2, list form: an entry's links are exactly its peers (same value, other id) followed by all
    entries holding the next lower distinct value, in ranking order -/
theorem ranking_links_eq (l : List (Scored Rat)) :
    ∀ e ∈ ranking l, e.links = Spec.C04.peers (ranking l) e ++ Spec.C04.nextLevel (ranking l) e := by
  intro e he
  rw [ranking_eq] at he ⊢
  have hs := mergeSort_rankLe_pairwise (roundAll l)
  generalize (roundAll l).mergeSort rankLe = sorted at hs he ⊢
  unfold entriesOf at he ⊢
  simp only [List.mem_map] at he
  obtain ⟨a, _, rfl⟩ := he
  have hg : Preserves (fun s : Scored Rat =>
      ({ id := s.id, v := s.v, links := positionInRanking s sorted } : RankEntry Rat)) :=
    fun s => ⟨rfl, rfl⟩
  rw [spec_peers_map _ hg, spec_nextLevel_map _ hg _ (pairwise_desc_of_rankLe hs)]
  exact positionInRanking_eq a sorted hs

/-- clause 2, membership form: `x` is linked from `e` iff `x` is the id of an entry that either has the
    same value and another id, or has a lower value with no entry strictly in between -/
theorem ranking_links_mem (l : List (Scored Rat)) (e : RankEntry Rat) (he : e ∈ ranking l) (x : String) :
    x ∈ e.links ↔ ∃ r ∈ ranking l, r.id = x ∧
      ((r.id ≠ e.id ∧ r.v = e.v) ∨ (r.v < e.v ∧ ¬ ∃ y ∈ ranking l, r.v < y.v ∧ y.v < e.v)) := by
  rw [ranking_eq] at he ⊢
  have hs := mergeSort_rankLe_pairwise (roundAll l)
  generalize (roundAll l).mergeSort rankLe = sorted at hs he ⊢
  obtain ⟨a, ha, rfl⟩ := List.mem_map.mp he
  simp only [mem_positionInRanking a sorted hs x, entriesOf, List.mem_map]
  constructor
  · rintro ⟨r, hr, rfl, hh⟩
    refine ⟨_, ⟨r, hr, rfl⟩, rfl, ?_⟩
    rcases hh with hh | ⟨h1, h2⟩
    · exact Or.inl hh
    · refine Or.inr ⟨h1, ?_⟩
      rintro ⟨_, ⟨y, hy, rfl⟩, hy1, hy2⟩
      exact h2 ⟨y, hy, hy1, hy2⟩
  · rintro ⟨_, ⟨r, hr, rfl⟩, rfl, hh⟩
    refine ⟨r, hr, rfl, ?_⟩
    rcases hh with hh | ⟨h1, h2⟩
    · exact Or.inl hh
    · refine Or.inr ⟨h1, ?_⟩
      rintro ⟨y, hy, hy1, hy2⟩
      exact h2 ⟨_, ⟨y, hy, rfl⟩, hy1, hy2⟩

/-- clause 2 through the executable checker -/
theorem ranking_links (l : List (Scored Rat)) : Spec.C04.linksOk (ranking l) = true := by
  unfold Spec.C04.linksOk
  rw [List.all_eq_true]
  intro e he
  have := ranking_links_eq l e he
  simp only [← this]
  simp

/-- clauses 1 + 2: the checker the driver evaluates on Go's output accepts the model's output for every
    input list (any multiset of values, any ids) -/
theorem ranking_check (l : List (Scored Rat)) : Spec.C04.check (ranking l) = true := by
  unfold Spec.C04.check
  rw [ranking_sorted, ranking_links]; rfl

/-- clause 4: value, position and links of every alternative do not depend on the order in which the
    alternatives are listed — the whole ranking is equal for permuted inputs -/
theorem ranking_perm_invariant (l₁ l₂ : List (Scored Rat)) (h : l₁.Perm l₂) : ranking l₁ = ranking l₂ := by
  rw [ranking_eq, ranking_eq]
  have : (roundAll l₁).Perm (roundAll l₂) := h.map _
  rw [mergeSort_rankLe_perm_eq this]

/-- clause 3: following the links from an entry reaches precisely the alternatives whose value is not
    higher than its own (reflexive-transitive closure of the link relation; ids distinct) -/
theorem reach (l : List (Scored Rat)) (hnd : (l.map (·.id)).Nodup) (e : RankEntry Rat) (he : e ∈ ranking l)
    (y : String) :
    Relation.ReflTransGen (LinkStep (ranking l)) e.id y ↔ ∃ r ∈ ranking l, r.id = y ∧ r.v ≤ e.v := by
  have hnd' : (((roundAll l).mergeSort rankLe).map (·.id)).Nodup := (sorted_ids_perm l).nodup_iff.mpr hnd
  rw [ranking_eq] at he ⊢
  have hs := mergeSort_rankLe_pairwise (roundAll l)
  generalize (roundAll l).mergeSort rankLe = sorted at hs he hnd' ⊢
  obtain ⟨a, ha, rfl⟩ := List.mem_map.mp he
  constructor
  · intro h
    obtain ⟨r, hr, hid, hle⟩ := reach_le sorted hs hnd' _ _ h a ha rfl
    exact ⟨_, List.mem_map.mpr ⟨r, hr, rfl⟩, hid, hle⟩
  · rintro ⟨_, hr, rfl, hle⟩
    obtain ⟨r, hr', rfl⟩ := List.mem_map.mp hr
    exact le_reach sorted hs _ a ha (Nat.le_refl _) r hr' hle

/-- the hypotheses of `reach` are satisfiable on a ranking with a tie and three levels
    (b ↦ {a, c}, a ↦ {c, d}, c ↦ {a, d}, d ↦ ∅) -/
example : let l : List (Scored Rat) := [⟨"a", 1⟩, ⟨"b", 2⟩, ⟨"c", 1⟩, ⟨"d", 0⟩]
    ∀ e ∈ ranking l, ∀ y, Relation.ReflTransGen (LinkStep (ranking l)) e.id y ↔ ∃ r ∈ ranking l, r.id = y ∧ r.v ≤ e.v :=
  fun e he y => reach _ (by decide) e he y

/-- rounding: the extracted precision is 10^8 and `rounded()` moves a value by at most 5·10⁻⁹ -/
theorem round8_close (x : Rat) :
    (Num.ofConst Facts.roundPrecision : Rat) = 100000000 ∧ |round8 x - x| ≤ 1 / (2 * 10 ^ 8) :=
  ⟨roundPrecision_rat, round8_error x⟩

/-- rounding happens before any comparison: the ranking is computed from the rounded list alone, so two
    alternatives whose values coincide after the 1e-8 rounding are peers (each links to the other) -/
theorem rounding_before_comparison (l : List (Scored Rat)) :
    ranking l = entriesOf ((roundAll l).mergeSort rankLe) ∧
    ∀ a ∈ l, ∀ b ∈ l, a.id ≠ b.id → round8 a.v = round8 b.v →
      ∃ e ∈ ranking l, e.id = a.id ∧ b.id ∈ e.links := by
  refine ⟨ranking_eq l, ?_⟩
  intro a ha b hb hid hv
  have hs := mergeSort_rankLe_pairwise (roundAll l)
  have ha' : ({ a with v := round8 a.v } : Scored Rat) ∈ (roundAll l).mergeSort rankLe :=
    (List.mergeSort_perm _ _).mem_iff.mpr (List.mem_map.mpr ⟨a, ha, rfl⟩)
  have hb' : ({ b with v := round8 b.v } : Scored Rat) ∈ (roundAll l).mergeSort rankLe :=
    (List.mergeSort_perm _ _).mem_iff.mpr (List.mem_map.mpr ⟨b, hb, rfl⟩)
  rw [ranking_eq]
  refine ⟨_, List.mem_map.mpr ⟨_, ha', rfl⟩, rfl, ?_⟩
  exact (mem_positionInRanking _ _ hs _).mpr ⟨_, hb', rfl, Or.inl ⟨fun e => hid e.symm, hv.symm⟩⟩


/-- the constants this property depends on were re-read from the working tree on this run (none of
    them fell back to its pinned value because its declaration could not be located) -/
theorem facts_fresh : (Facts.staleFacts.all fun n => !["roundPrecision"].contains n) = true := by decide

/-! ## END TO END: the whole `MakeDecision` (model `decideWith` / `Rdm.decide` of Model/Decide.lean)

For the three utility methods — the request's parsed parameters are `.ws`, `.owa` or `.choquet`
(`e2eIsUtility`) — and for every request, every bias list, every stream function: whatever the biases did to
criteria, values and parameters, the `result` of the response is exactly `ranking` applied to the scores of
the considered alternatives of the state that reached `Evaluate` (`resp.final`).  Hence every theorem above
about `ranking l` is a theorem about the response.  `e2eUtilEntries resp.result` reads the entries back as
`RankEntry`s (nothing is dropped: `resp.result` is its image under `e2eOfRankEntry`); it is what the driver's
`check-c04` is evaluated on.  Helper lemmas: `Rdm/Lemmas/E2EDecide.lean`, `Rdm/Lemmas/E2EUtility.lean`. -/

/-- the three utility methods -/
theorem utility_methods {α : Type} [Num α] (mp : MParams α) :
    e2eIsUtility mp = true ↔ (∃ wc, mp = .ws wc) ∨ (∃ wc, mp = .owa wc) ∨ (∃ w cs, mp = .choquet w cs) := by
  refine ⟨e2eIsUtility_cases, ?_⟩
  rintro (⟨_, rfl⟩ | ⟨_, rfl⟩ | ⟨_, _, rfl⟩) <;> rfl

/-- **the response of a utility method is the utility ranking of the final state** (every number type):
    `scored` = the considered alternatives of `resp.final`, in `choseToMake` order, each with the value the
    method gives it under the parameters of `resp.final` (`e2eScored` = `model.Rank`); `result` is
    `ranking scored`, entry by entry, links included. -/
theorem decideWith_utility_result_is_ranking {α : Type} [Num α] (exp : α → α)
    (aspOrder : List (WCrit α) → List (WCrit α)) (req : Request α) (g : Int → Draws α) (resp : Response α)
    (mp : MParams α) (h : decideWith exp aspOrder req g = .ok resp) (hmp : req.mp = some mp)
    (hu : e2eIsUtility mp = true) :
    ∃ scored, e2eScored resp.final = .ok scored ∧ scored.map (·.id) = req.chosen ∧
      resp.result = (ranking scored).map e2eOfRankEntry ∧ e2eUtilEntries resp.result = ranking scored := by
  obtain ⟨_, hco, scored, hs, hres⟩ := e2e_decideWith_utility h hmp hu
  refine ⟨scored, hs, ?_, hres, by rw [hres, e2eUtilEntries_map]⟩
  rw [(e2e_scored_ok hs).2.2, hco]

/-- what `scored` is: one score per considered alternative of the final state, same order, same id, value =
    the method's value of that alternative under the final parameters -/
theorem scored_spelled_out {α : Type} [Num α] (d : DMP α) (scored : List (Scored α))
    (h : e2eScored d = .ok scored) :
    scored.length = d.co.length ∧
    ∀ i (h1 : i < d.co.length) (h2 : i < scored.length),
      scored[i].id = d.co[i].id ∧ utilityValueOf d.mp d.co[i] = .ok scored[i].v := by
  obtain ⟨hl, hp, _⟩ := e2e_scored_ok h
  refine ⟨hl, fun i h1 h2 => ?_⟩
  have hz : (d.co[i], scored[i]) ∈ d.co.zip scored := by
    rw [List.mem_iff_getElem]; exact ⟨i, by simp only [List.length_zip]; omega, by simp⟩
  exact hp _ hz

/-- **C04 clauses 1 + 2 for the whole decision** (rationals): the checker the driver evaluates on Go's output
    accepts the response of every accepted utility-method request, with any biases -/
theorem decideWith_utility_check (exp : Rat → Rat) (aspOrder : List (WCrit Rat) → List (WCrit Rat))
    (req : Request Rat) (g : Int → Draws Rat) (resp : Response Rat) (mp : MParams Rat)
    (h : decideWith exp aspOrder req g = .ok resp) (hmp : req.mp = some mp) (hu : e2eIsUtility mp = true) :
    Spec.C04.check (e2eUtilEntries resp.result) = true := by
  obtain ⟨scored, _, _, _, he⟩ := decideWith_utility_result_is_ranking exp aspOrder req g resp mp h hmp hu
  rw [he]; exact ranking_check scored

/-- … for `Rdm.decide` -/
theorem decide_utility_check (exp : Rat → Rat) (req : Request Rat) (seeds : Seeds Rat) (resp : Response Rat)
    (mp : MParams Rat) (h : Rdm.decide exp req seeds = .ok resp) (hmp : req.mp = some mp)
    (hu : e2eIsUtility mp = true) : Spec.C04.check (e2eUtilEntries resp.result) = true :=
  decideWith_utility_check exp _ req _ resp mp h hmp hu

/-- **order**: the values of the response are non-increasing down the list, equal values by ascending id -/
theorem decideWith_utility_order (exp : Rat → Rat) (aspOrder : List (WCrit Rat) → List (WCrit Rat))
    (req : Request Rat) (g : Int → Draws Rat) (resp : Response Rat) (mp : MParams Rat)
    (h : decideWith exp aspOrder req g = .ok resp) (hmp : req.mp = some mp) (hu : e2eIsUtility mp = true) :
    (e2eUtilEntries resp.result).Pairwise (fun a b => b.v < a.v ∨ (a.v = b.v ∧ a.id ≤ b.id)) := by
  obtain ⟨scored, _, _, _, he⟩ := decideWith_utility_result_is_ranking exp aspOrder req g resp mp h hmp hu
  rw [he, ranking_eq]
  unfold entriesOf
  rw [List.pairwise_map]
  refine (mergeSort_rankLe_pairwise (roundAll scored)).imp ?_
  intro a b hab
  rcases (rankLe_iff a b).mp hab with h1 | h1
  · exact Or.inr h1
  · exact Or.inl h1

/-- **links**: an entry's `betterThanOrSameAs` is exactly its peers (same reported value, other id) followed by
    all entries holding the next lower distinct value, in ranking order -/
theorem decideWith_utility_links (exp : Rat → Rat) (aspOrder : List (WCrit Rat) → List (WCrit Rat))
    (req : Request Rat) (g : Int → Draws Rat) (resp : Response Rat) (mp : MParams Rat)
    (h : decideWith exp aspOrder req g = .ok resp) (hmp : req.mp = some mp) (hu : e2eIsUtility mp = true) :
    ∀ e ∈ e2eUtilEntries resp.result,
      e.links = Spec.C04.peers (e2eUtilEntries resp.result) e ++ Spec.C04.nextLevel (e2eUtilEntries resp.result) e := by
  obtain ⟨scored, _, _, _, he⟩ := decideWith_utility_result_is_ranking exp aspOrder req g resp mp h hmp hu
  rw [he]; exact ranking_links_eq scored

/-- **reported values**: every entry carries the 1e-8 rounding of the method's value of a considered
    alternative of the final state with its id, and every considered alternative has such an entry -/
theorem decideWith_utility_values {α : Type} [Num α] (exp : α → α)
    (aspOrder : List (WCrit α) → List (WCrit α)) (req : Request α) (g : Int → Draws α) (resp : Response α)
    (mp : MParams α) (h : decideWith exp aspOrder req g = .ok resp) (hmp : req.mp = some mp)
    (hu : e2eIsUtility mp = true) :
    (∀ e ∈ resp.result, ∃ a ∈ resp.final.co, ∃ v, a.id = e.id ∧
        utilityValueOf resp.final.mp a = .ok v ∧ e.ev = .util (round8 v)) ∧
    (∀ a ∈ resp.final.co, ∃ v, utilityValueOf resp.final.mp a = .ok v ∧
        ∃ e ∈ resp.result, e.id = a.id ∧ e.ev = .util (round8 v)) := by
  obtain ⟨_, _, scored, hs, hres⟩ := e2e_decideWith_utility h hmp hu
  exact e2e_utility_values hs hres

/-- **equal rounded values share a level**: two considered alternatives (different ids) whose values under the
    final state coincide after the 1e-8 rounding are peers — the entry of the one links to the other -/
theorem decideWith_utility_equal_rounded_values_are_peers (exp : Rat → Rat)
    (aspOrder : List (WCrit Rat) → List (WCrit Rat)) (req : Request Rat) (g : Int → Draws Rat)
    (resp : Response Rat) (mp : MParams Rat) (h : decideWith exp aspOrder req g = .ok resp)
    (hmp : req.mp = some mp) (hu : e2eIsUtility mp = true)
    (a b : Alt Rat) (ha : a ∈ resp.final.co) (hb : b ∈ resp.final.co) (hid : a.id ≠ b.id) (va vb : Rat)
    (hva : utilityValueOf resp.final.mp a = .ok va) (hvb : utilityValueOf resp.final.mp b = .ok vb)
    (hv : round8 va = round8 vb) :
    ∃ e ∈ e2eUtilEntries resp.result, e.id = a.id ∧ b.id ∈ e.links := by
  obtain ⟨scored, hs, _, _, he⟩ := decideWith_utility_result_is_ranking exp aspOrder req g resp mp h hmp hu
  obtain ⟨_, m2⟩ := e2e_scored_mem hs
  obtain ⟨sa, hsa, hia, hva'⟩ := m2 a ha
  obtain ⟨sb, hsb, hib, hvb'⟩ := m2 b hb
  rw [hva] at hva'; rw [hvb] at hvb'
  cases hva'; cases hvb'
  rw [he, ← hia, ← hib]
  exact (rounding_before_comparison scored).2 sa hsa sb hsb (by rw [hia, hib]; exact hid) hv

/-- **reach** (`choseToMake` distinct): following the links from an entry reaches precisely the entries whose
    reported value is not higher -/
theorem decideWith_utility_reach (exp : Rat → Rat) (aspOrder : List (WCrit Rat) → List (WCrit Rat))
    (req : Request Rat) (g : Int → Draws Rat) (resp : Response Rat) (mp : MParams Rat)
    (h : decideWith exp aspOrder req g = .ok resp) (hmp : req.mp = some mp) (hu : e2eIsUtility mp = true)
    (hnd : req.chosen.Nodup) (e : RankEntry Rat) (he : e ∈ e2eUtilEntries resp.result) (y : String) :
    Relation.ReflTransGen (LinkStep (e2eUtilEntries resp.result)) e.id y ↔
      ∃ r ∈ e2eUtilEntries resp.result, r.id = y ∧ r.v ≤ e.v := by
  obtain ⟨scored, _, hids, _, heq⟩ := decideWith_utility_result_is_ranking exp aspOrder req g resp mp h hmp hu
  rw [heq] at he ⊢
  exact reach scored (by rw [hids]; exact hnd) e he y

/-- **clause 4 for the whole decision**: for requests without an enabled bias, the `result` — value, position
    and links of every alternative — does not depend on the order in which the alternatives are listed in
    `knownAlternatives` (distinct ids) or in `choseToMake`, nor on the stream function.
    (With enabled biases the statement is about the ranking stage only — `ranking_perm_invariant` applied to
    `decideWith_utility_result_is_ranking`: the biases consume their random streams in list order, so a
    reordered request is a different experiment.) -/
theorem decideWith_utility_perm_invariant (exp exp' : Rat → Rat)
    (aspOrder aspOrder' : List (WCrit Rat) → List (WCrit Rat)) (req req' : Request Rat)
    (g g' : Int → Draws Rat) (resp resp' : Response Rat) (mp : MParams Rat)
    (hmp : req.mp = some mp) (hmp' : req'.mp = some mp) (hu : e2eIsUtility mp = true)
    (hb : ∀ b ∈ req.biases, b.disabled = true) (hb' : ∀ b ∈ req'.biases, b.disabled = true)
    (hk : req'.known.Perm req.known) (hnd : (req.known.map (·.id)).Nodup) (hc : req'.chosen.Perm req.chosen)
    (h : decideWith exp aspOrder req g = .ok resp) (h' : decideWith exp' aspOrder' req' g' = .ok resp') :
    resp'.result = resp.result := by
  obtain ⟨_, _, scored, hs, hres⟩ := e2e_decideWith_utility h hmp hu
  obtain ⟨_, _, scored', hs', hres'⟩ := e2e_decideWith_utility h' hmp' hu
  obtain ⟨m, hm, hpp, _⟩ := e2e_no_bias_pipeline (e2e_decideWith_ok h).1 hb
  obtain ⟨m', hm', hpp', _⟩ := e2e_no_bias_pipeline (e2e_decideWith_ok h').1 hb'
  rw [hmp] at hm; cases hm
  rw [hmp'] at hm'; cases hm'
  rw [hres, hres', ranking_perm_invariant scored' scored (e2e_scored_perm hk hnd hc hpp hpp' hs hs')]

/-- the hypotheses are satisfiable (weighted sum; fatigue fires and rewrites every value, reversal does not
    fire, one entry disabled; `"b"` and `"c"` stay tied): the model answers and the C04 checker accepts -/
example : ∃ resp, Rdm.decide id e2eExWs e2eExSeeds = .ok resp ∧
    Spec.C04.check (e2eUtilEntries resp.result) = true ∧
    ((e2eUtilEntries resp.result).map (·.id)).Perm ["c", "a", "b"] := by
  obtain ⟨resp, h⟩ := e2e_ok_of_isOk (x := Rdm.decide id e2eExWs e2eExSeeds) (by decide +kernel)
  refine ⟨resp, h, decide_utility_check _ _ _ _ _ h rfl rfl, ?_⟩
  obtain ⟨scored, _, hids, _, he⟩ := decideWith_utility_result_is_ranking _ _ _ _ _ _ h rfl rfl
  rw [he, ← show scored.map (·.id) = ["c", "a", "b"] from hids]
  exact ranking_ids_perm scored

/-- … and OWA -/
example : ∃ resp, Rdm.decide id e2eExOwa e2eExSeeds = .ok resp ∧
    Spec.C04.check (e2eUtilEntries resp.result) = true := by
  obtain ⟨resp, h⟩ := e2e_ok_of_isOk (x := Rdm.decide id e2eExOwa e2eExSeeds) (by decide +kernel)
  exact ⟨resp, h, decide_utility_check _ _ _ _ _ h rfl rfl⟩

/-- … and of `decideWith_utility_perm_invariant`: the same weighted-sum request listed in two different orders
    (known alternatives reversed, `choseToMake` reordered), read with different seed tables: same `result` -/
example : ∃ resp resp', Rdm.decide id e2eExWsPlain e2eExSeeds = .ok resp ∧
    Rdm.decide id e2eExWsPlain' [] = .ok resp' ∧ resp'.result = resp.result := by
  obtain ⟨resp, h⟩ := e2e_ok_of_isOk (x := Rdm.decide id e2eExWsPlain e2eExSeeds) (by decide +kernel)
  obtain ⟨resp', h'⟩ := e2e_ok_of_isOk (x := Rdm.decide id e2eExWsPlain' []) (by decide +kernel)
  refine ⟨resp, resp', h, h', ?_⟩
  exact decideWith_utility_perm_invariant _ _ _ _ _ _ _ _ _ _ _ rfl rfl rfl (by decide) (by decide)
    (List.reverse_perm _) (by decide) (by decide) h h'

end Rdm.Props.C04
