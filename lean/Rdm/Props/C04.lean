/-
  C04 — a utility ranking is exactly the order of the utilities.
  Property theorems only (helper lemmas live in Rdm/Lemmas/Ranking*.lean).  Order facts are over `Rat`;
  `ranking_ids_perm` holds for every number type.  None of the theorems about order and links needs
  the ids to be distinct (entries that share id *and* value skip each other both in the code and in the
  spec); distinctness is only needed to speak about "the" entry of an id (`reach`).
-/
import Mathlib.Logic.Relation
import Rdm.Model.Ranking
import Rdm.Spec.C04
import Rdm.Lemmas.RankingBasic
import Rdm.Lemmas.RankingOrder
import Rdm.Lemmas.RankingLinks
import Rdm.Lemmas.RankingRound
import Rdm.Lemmas.RankingReach
namespace Rdm.Props.C04
open Rdm

/-- the ranking is a permutation of its input ids (no entry lost or invented), for every number type -/
theorem ranking_ids_perm {α : Type} [Num α] (l : List (Scored α)) :
    ((ranking l).map (·.id)).Perm (l.map (·.id)) := by
  rw [ranking_eq, entriesOf_ids]
  exact sorted_ids_perm l

/-- every entry carries the rounded value of the input alternative with its id -/
theorem ranking_values {α : Type} [Num α] (l : List (Scored α)) :
    ∀ e ∈ ranking l, ∃ s ∈ l, e.id = s.id ∧ e.v = round8 s.v := by
  intro e he
  rw [ranking_eq] at he
  obtain ⟨a, ha, rfl⟩ := List.mem_map.mp he
  have ha' : a ∈ roundAll l := (List.mergeSort_perm _ _).mem_iff.mp ha
  obtain ⟨s, hs, rfl⟩ := List.mem_map.mp ha'
  exact ⟨s, hs, rfl, rfl⟩

/-- clause 1: `result` is ordered by non-increasing value, equal values by ascending id -/
theorem ranking_sorted (l : List (Scored Rat)) : Spec.C04.sortedOk (ranking l) = true := by
  rw [ranking_eq]
  exact sortedOk_of_pairwise _ (fun _ => ⟨rfl, rfl⟩) _ (mergeSort_rankLe_pairwise _)

/-- clause 2, list form: an entry's links are exactly its peers (same value, other id) followed by all
    entries holding the next lower distinct value, in ranking order -/
theorem ranking_links_eq (l : List (Scored Rat)) :
    ∀ e ∈ ranking l, e.links = Spec.C04.peers (ranking l) e ++ Spec.C04.nextLevel (ranking l) e := by
  intro e he
  rw [ranking_eq] at he ⊢
  have hs := mergeSort_rankLe_pairwise (roundAll l)
  generalize (roundAll l).mergeSort rankLe = sorted at hs he ⊢
  unfold entriesOf at he ⊢
  simp only [List.mem_map] at he
  obtain ⟨a, _, rfl⟩ := he
  have hg : Preserves (fun s : Scored Rat =>
      ({ id := s.id, v := s.v, links := positionInRanking s sorted } : RankEntry Rat)) :=
    fun s => ⟨rfl, rfl⟩
  rw [spec_peers_map _ hg, spec_nextLevel_map _ hg _ (pairwise_desc_of_rankLe hs)]
  exact positionInRanking_eq a sorted hs

/-- clause 2, membership form: `x` is linked from `e` iff `x` is the id of an entry that either has the
    same value and another id, or has a lower value with no entry strictly in between -/
theorem ranking_links_mem (l : List (Scored Rat)) (e : RankEntry Rat) (he : e ∈ ranking l) (x : String) :
    x ∈ e.links ↔ ∃ r ∈ ranking l, r.id = x ∧
      ((r.id ≠ e.id ∧ r.v = e.v) ∨ (r.v < e.v ∧ ¬ ∃ y ∈ ranking l, r.v < y.v ∧ y.v < e.v)) := by
  rw [ranking_eq] at he ⊢
  have hs := mergeSort_rankLe_pairwise (roundAll l)
  generalize (roundAll l).mergeSort rankLe = sorted at hs he ⊢
  obtain ⟨a, ha, rfl⟩ := List.mem_map.mp he
  simp only [mem_positionInRanking a sorted hs x, entriesOf, List.mem_map]
  constructor
  · rintro ⟨r, hr, rfl, hh⟩
    refine ⟨_, ⟨r, hr, rfl⟩, rfl, ?_⟩
    rcases hh with hh | ⟨h1, h2⟩
    · exact Or.inl hh
    · refine Or.inr ⟨h1, ?_⟩
      rintro ⟨_, ⟨y, hy, rfl⟩, hy1, hy2⟩
      exact h2 ⟨y, hy, hy1, hy2⟩
  · rintro ⟨_, ⟨r, hr, rfl⟩, rfl, hh⟩
    refine ⟨r, hr, rfl, ?_⟩
    rcases hh with hh | ⟨h1, h2⟩
    · exact Or.inl hh
    · refine Or.inr ⟨h1, ?_⟩
      rintro ⟨y, hy, hy1, hy2⟩
      exact h2 ⟨_, ⟨y, hy, rfl⟩, hy1, hy2⟩

/-- clause 2 through the executable checker -/
theorem ranking_links (l : List (Scored Rat)) : Spec.C04.linksOk (ranking l) = true := by
  unfold Spec.C04.linksOk
  rw [List.all_eq_true]
  intro e he
  have := ranking_links_eq l e he
  simp only [← this]
  simp

/-- clauses 1 + 2: the checker the driver evaluates on Go's output accepts the model's output for every
    input list (any multiset of values, any ids) -/
theorem ranking_check (l : List (Scored Rat)) : Spec.C04.check (ranking l) = true := by
  unfold Spec.C04.check
  rw [ranking_sorted, ranking_links]; rfl

/-- clause 4: value, position and links of every alternative do not depend on the order in which the
    alternatives are listed — the whole ranking is equal for permuted inputs -/
theorem ranking_perm_invariant (l₁ l₂ : List (Scored Rat)) (h : l₁.Perm l₂) : ranking l₁ = ranking l₂ := by
  rw [ranking_eq, ranking_eq]
  have : (roundAll l₁).Perm (roundAll l₂) := h.map _
  rw [mergeSort_rankLe_perm_eq this]

/-- clause 3: following the links from an entry reaches precisely the alternatives whose value is not
    higher than its own (reflexive-transitive closure of the link relation; ids distinct) -/
theorem reach (l : List (Scored Rat)) (hnd : (l.map (·.id)).Nodup) (e : RankEntry Rat) (he : e ∈ ranking l)
    (y : String) :
    Relation.ReflTransGen (LinkStep (ranking l)) e.id y ↔ ∃ r ∈ ranking l, r.id = y ∧ r.v ≤ e.v := by
  have hnd' : (((roundAll l).mergeSort rankLe).map (·.id)).Nodup := (sorted_ids_perm l).nodup_iff.mpr hnd
  rw [ranking_eq] at he ⊢
  have hs := mergeSort_rankLe_pairwise (roundAll l)
  generalize (roundAll l).mergeSort rankLe = sorted at hs he hnd' ⊢
  obtain ⟨a, ha, rfl⟩ := List.mem_map.mp he
  constructor
  · intro h
    obtain ⟨r, hr, hid, hle⟩ := reach_le sorted hs hnd' _ _ h a ha rfl
    exact ⟨_, List.mem_map.mpr ⟨r, hr, rfl⟩, hid, hle⟩
  · rintro ⟨_, hr, rfl, hle⟩
    obtain ⟨r, hr', rfl⟩ := List.mem_map.mp hr
    exact le_reach sorted hs _ a ha (Nat.le_refl _) r hr' hle

/-- the hypotheses of `reach` are satisfiable on a ranking with a tie and three levels
    (b ↦ {a, c}, a ↦ {c, d}, c ↦ {a, d}, d ↦ ∅) -/
example : let l : List (Scored Rat) := [⟨"a", 1⟩, ⟨"b", 2⟩, ⟨"c", 1⟩, ⟨"d", 0⟩]
    ∀ e ∈ ranking l, ∀ y, Relation.ReflTransGen (LinkStep (ranking l)) e.id y ↔ ∃ r ∈ ranking l, r.id = y ∧ r.v ≤ e.v :=
  fun e he y => reach _ (by decide) e he y

/-- rounding: the extracted precision is 10^8 and `rounded()` moves a value by at most 5·10⁻⁹ -/
theorem round8_close (x : Rat) :
    (Num.ofConst Facts.roundPrecision : Rat) = 100000000 ∧ |round8 x - x| ≤ 1 / (2 * 10 ^ 8) :=
  ⟨roundPrecision_rat, round8_error x⟩

/-- rounding happens before any comparison: the ranking is computed from the rounded list alone, so two
    alternatives whose values coincide after the 1e-8 rounding are peers (each links to the other) -/
theorem rounding_before_comparison (l : List (Scored Rat)) :
    ranking l = entriesOf ((roundAll l).mergeSort rankLe) ∧
    ∀ a ∈ l, ∀ b ∈ l, a.id ≠ b.id → round8 a.v = round8 b.v →
      ∃ e ∈ ranking l, e.id = a.id ∧ b.id ∈ e.links := by
  refine ⟨ranking_eq l, ?_⟩
  intro a ha b hb hid hv
  have hs := mergeSort_rankLe_pairwise (roundAll l)
  have ha' : ({ a with v := round8 a.v } : Scored Rat) ∈ (roundAll l).mergeSort rankLe :=
    (List.mergeSort_perm _ _).mem_iff.mpr (List.mem_map.mpr ⟨a, ha, rfl⟩)
  have hb' : ({ b with v := round8 b.v } : Scored Rat) ∈ (roundAll l).mergeSort rankLe :=
    (List.mergeSort_perm _ _).mem_iff.mpr (List.mem_map.mpr ⟨b, hb, rfl⟩)
  rw [ranking_eq]
  refine ⟨_, List.mem_map.mpr ⟨_, ha', rfl⟩, rfl, ?_⟩
  exact (mem_positionInRanking _ _ hs _).mpr ⟨_, hb', rfl, Or.inl ⟨fun e => hid e.symm, hv.symm⟩⟩


/-- the constants this property depends on were re-read from the working tree on this run (none of
    them fell back to its pinned value because its declaration could not be located) -/
theorem facts_fresh : (Facts.staleFacts.all fun n => !["roundPrecision"].contains n) = true := by decide

end Rdm.Props.C04
