/-
  C19 — anchoring shifts values by gains and losses against the reference point.
  Property theorems only (helper lemmas live in Rdm/Lemmas/BiasBAnchor*.lean, BiasBKMap.lean).

  Model: Rdm/Model/Anchoring.lean, tied bit-for-bit to the Go code by the stages `anchoring-apply`,
  `anchoring-refpoints`, `anchoring-scaling`, `anchoring-diffs`, `anchoring-applier` (inline / newCriterion,
  also with several reference points) of `bin/check C19`; the decidable statement Rdm/Spec/C19.lean is
  evaluated on the implementation's own output by the driver.  `math.Exp` is a parameter `exp` of the model
  without assumed laws.
-/
import Rdm.Lemmas.BiasBAnchor
import Rdm.Lemmas.BiasBAnchorRat
import Rdm.Lemmas.BiasBAnchorTie
import Rdm.Lemmas.BiasBAnchorFrame
import Rdm.Spec.C19
import Rdm.Lemmas.E2EBiasesState
import Rdm.Lemmas.E2EBiasesParts
import Rdm.Lemmas.E2EBiasesExample
import Mathlib.Tactic.NormNum
namespace Rdm.Props.C19
open Rdm

/-! ### bridges -/

theorem ideal_name : Facts.anchoringIdeal = "ideal" := rfl
theorem nadir_name : Facts.anchoringNadir = "nadir" := rfl
theorem inline_name : Facts.anchoringInline = "inline" := rfl
theorem new_criterion_name : Facts.anchoringNewCriterion = "newCriterion" := rfl
/-- the code's `_minAllowedWeight` is the double nearest to the 0.01 of the property statement -/
theorem min_allowed_weight_is_one_hundredth :
    (0 : Rat) < Num.ofConst Facts.minAllowedWeight ∧
    |(Num.ofConst Facts.minAllowedWeight : Rat) - 1 / 100| < 1 / 10 ^ 17 := by
  simp only [Num.ofConst_rat, Facts.minAllowedWeight]
  constructor
  · norm_num
  · rw [abs_lt]; constructor <;> norm_num

/-! ### reference point -/

/-- The evaluators return exactly one reference point, named after the strategy; each of its values is
    the value one of the anchoring alternatives has for that criterion. -/
theorem reference_point_values_are_values_of_anchoring_alternatives {α : Type} [Num α] {fn : String}
    {alts : List (Alt α × α)} {crits : List (Crit α)} {refs : List (Alt α)}
    (h : referencePoints fn alts crits = .ok refs) :
    ∃ r, refs = [r] ∧ r.id = fn ∧ ∀ kv ∈ r.vals, ∃ a ∈ alts, kv ∈ a.1.vals := by
  unfold referencePoints at h
  split at h
  · rename_i hfn
    obtain ⟨r, hr, h⟩ := bind_eq_ok.mp h
    simp [pure, Except.pure] at h; subst h
    refine ⟨r, rfl, ?_, findBest_values_are_candidates hr⟩
    have hid : r.id = Facts.anchoringIdeal := by
      unfold findBest at hr
      split at hr
      · simp [throw, throwThe, MonadExceptOf.throw] at hr
      · obtain ⟨_, _, hr⟩ := bind_eq_ok.mp hr
        simp [pure, Except.pure] at hr; subst hr; rfl
    rw [hid]; exact (by simpa using hfn : fn = Facts.anchoringIdeal).symm
  · split at h
    · rename_i _ hfn
      obtain ⟨r, hr, h⟩ := bind_eq_ok.mp h
      simp [pure, Except.pure] at h; subst h
      refine ⟨r, rfl, ?_, findBest_values_are_candidates hr⟩
      have hid : r.id = Facts.anchoringNadir := by
        unfold findBest at hr
        split at hr
        · simp [throw, throwThe, MonadExceptOf.throw] at hr
        · obtain ⟨_, _, hr⟩ := bind_eq_ok.mp hr
          simp [pure, Except.pure] at hr; subst hr; rfl
      rw [hid]; exact (by simpa using hfn : fn = Facts.anchoringNadir).symm
    · simp [throw, throwThe, MonadExceptOf.throw] at h

/-- candidates of the later anchoring alternatives carry those alternatives' coefficients -/
theorem candidates_coefficients_positive {c : Crit Rat} {rest : List (Alt Rat × Rat)}
    (hpos : ∀ a ∈ rest, 0 < a.2) : ∀ x ∈ candidatesOf c rest, 0 < x.2 := by
  intro x hx
  unfold candidatesOf at hx
  rw [List.mem_filterMap] at hx
  obtain ⟨a, ha, hx⟩ := hx
  cases hv : a.1.vals.get? c.id with
  | none => simp [hv] at hx
  | some v => simp [hv] at hx; subst hx; exact hpos a ha

/-- `ideal`, gain criterion, positive coefficients: the reference value is the value `v*` of an anchoring
    alternative (coefficient `κ*`) with `v·κ ≤ v*·κ*` for every anchoring alternative's `(v, κ)`. -/
theorem ideal_reference_value_maximises_weighted_value_on_gain {name : String} {a0 : Alt Rat} {k0 : Rat}
    {rest : List (Alt Rat × Rat)} {crits : List (Crit Rat)} {r : Alt Rat}
    (h : findBest idealPred name ((a0, k0) :: rest) crits = .ok r) (hnd : (crits.map (·.id)).Nodup)
    {c : Crit Rat} (hc : c ∈ crits) (hg : c.isGain = true) {v0 : Rat} (hv0 : a0.vals.get? c.id = some v0)
    (hk0 : 0 < k0) (hpos : ∀ a ∈ rest, 0 < a.2) :
    ∃ w ∈ (v0, k0) :: candidatesOf c rest, r.vals.get? c.id = some w.1 ∧
      ∀ x ∈ (v0, k0) :: candidatesOf c rest, x.1 * x.2 ≤ w.1 * w.2 := by
  refine ⟨bestFold idealPred c (v0, k0) (candidatesOf c rest), bestFold_mem _ _ _ _, (findBest_get h hnd hc hv0).2, ?_⟩
  apply bestFold_ideal_gain c hg
  intro x hx
  simp only [List.mem_cons] at hx
  rcases hx with rfl | hx
  · exact hk0
  · exact candidates_coefficients_positive hpos x hx

/-- `ideal`, cost criterion: the reference value minimises `v/κ`. -/
theorem ideal_reference_value_minimises_weighted_value_on_cost {name : String} {a0 : Alt Rat} {k0 : Rat}
    {rest : List (Alt Rat × Rat)} {crits : List (Crit Rat)} {r : Alt Rat}
    (h : findBest idealPred name ((a0, k0) :: rest) crits = .ok r) (hnd : (crits.map (·.id)).Nodup)
    {c : Crit Rat} (hc : c ∈ crits) (hg : c.isGain = false) {v0 : Rat} (hv0 : a0.vals.get? c.id = some v0)
    (hk0 : 0 < k0) (hpos : ∀ a ∈ rest, 0 < a.2) :
    ∃ w ∈ (v0, k0) :: candidatesOf c rest, r.vals.get? c.id = some w.1 ∧
      ∀ x ∈ (v0, k0) :: candidatesOf c rest, w.1 / w.2 ≤ x.1 / x.2 := by
  refine ⟨bestFold idealPred c (v0, k0) (candidatesOf c rest), bestFold_mem _ _ _ _, (findBest_get h hnd hc hv0).2, ?_⟩
  apply bestFold_ideal_cost c hg
  intro x hx
  simp only [List.mem_cons] at hx
  rcases hx with rfl | hx
  · exact hk0
  · exact candidates_coefficients_positive hpos x hx

/-- `nadir`, gain criterion: the reference value minimises `v·κ`. -/
theorem nadir_reference_value_minimises_weighted_value_on_gain {name : String} {a0 : Alt Rat} {k0 : Rat}
    {rest : List (Alt Rat × Rat)} {crits : List (Crit Rat)} {r : Alt Rat}
    (h : findBest nadirPred name ((a0, k0) :: rest) crits = .ok r) (hnd : (crits.map (·.id)).Nodup)
    {c : Crit Rat} (hc : c ∈ crits) (hg : c.isGain = true) {v0 : Rat} (hv0 : a0.vals.get? c.id = some v0)
    (hk0 : 0 < k0) (hpos : ∀ a ∈ rest, 0 < a.2) :
    ∃ w ∈ (v0, k0) :: candidatesOf c rest, r.vals.get? c.id = some w.1 ∧
      ∀ x ∈ (v0, k0) :: candidatesOf c rest, w.1 * w.2 ≤ x.1 * x.2 := by
  refine ⟨bestFold nadirPred c (v0, k0) (candidatesOf c rest), bestFold_mem _ _ _ _, (findBest_get h hnd hc hv0).2, ?_⟩
  apply bestFold_nadir_gain c hg
  intro x hx
  simp only [List.mem_cons] at hx
  rcases hx with rfl | hx
  · exact hk0
  · exact candidates_coefficients_positive hpos x hx

/-- `nadir`, cost criterion: the reference value maximises `v/κ`. -/
theorem nadir_reference_value_maximises_weighted_value_on_cost {name : String} {a0 : Alt Rat} {k0 : Rat}
    {rest : List (Alt Rat × Rat)} {crits : List (Crit Rat)} {r : Alt Rat}
    (h : findBest nadirPred name ((a0, k0) :: rest) crits = .ok r) (hnd : (crits.map (·.id)).Nodup)
    {c : Crit Rat} (hc : c ∈ crits) (hg : c.isGain = false) {v0 : Rat} (hv0 : a0.vals.get? c.id = some v0)
    (hk0 : 0 < k0) (hpos : ∀ a ∈ rest, 0 < a.2) :
    ∃ w ∈ (v0, k0) :: candidatesOf c rest, r.vals.get? c.id = some w.1 ∧
      ∀ x ∈ (v0, k0) :: candidatesOf c rest, x.1 / x.2 ≤ w.1 / w.2 := by
  refine ⟨bestFold nadirPred c (v0, k0) (candidatesOf c rest), bestFold_mem _ _ _ _, (findBest_get h hnd hc hv0).2, ?_⟩
  apply bestFold_nadir_cost c hg
  intro x hx
  simp only [List.mem_cons] at hx
  rcases hx with rfl | hx
  · exact hk0
  · exact candidates_coefficients_positive hpos x hx

/-- Tie rule of the reference point (positive coefficients): among anchoring alternatives with the **same
    coefficient-weighted score** (`v·κ` for gain, `v/κ` for cost) the raw value decides — `ideal` takes the
    better raw value (larger for gain, smaller for cost), `nadir` the worse one.  (`isBetter` compares the raw
    values when the weighted scores are equal; `nadir` replaces only on a strict improvement.) -/
theorem reference_value_ties_are_decided_by_the_raw_value {name : String} {a0 : Alt Rat} {k0 : Rat}
    {rest : List (Alt Rat × Rat)} {crits : List (Crit Rat)} (hnd : (crits.map (·.id)).Nodup)
    {c : Crit Rat} (hc : c ∈ crits) {v0 : Rat} (hv0 : a0.vals.get? c.id = some v0)
    (hk0 : 0 < k0) (hpos : ∀ a ∈ rest, 0 < a.2) :
    (∀ {r : Alt Rat}, findBest idealPred name ((a0, k0) :: rest) crits = .ok r →
      ∃ w ∈ (v0, k0) :: candidatesOf c rest, r.vals.get? c.id = some w.1 ∧
        (c.isGain = true → ∀ x ∈ (v0, k0) :: candidatesOf c rest, x.1 * x.2 = w.1 * w.2 → x.1 ≤ w.1) ∧
        (c.isGain = false → ∀ x ∈ (v0, k0) :: candidatesOf c rest, x.1 / x.2 = w.1 / w.2 → w.1 ≤ x.1)) ∧
    (∀ {r : Alt Rat}, findBest nadirPred name ((a0, k0) :: rest) crits = .ok r →
      ∃ w ∈ (v0, k0) :: candidatesOf c rest, r.vals.get? c.id = some w.1 ∧
        (c.isGain = true → ∀ x ∈ (v0, k0) :: candidatesOf c rest, x.1 * x.2 = w.1 * w.2 → w.1 ≤ x.1) ∧
        (c.isGain = false → ∀ x ∈ (v0, k0) :: candidatesOf c rest, x.1 / x.2 = w.1 / w.2 → x.1 ≤ w.1)) := by
  have hposc : ∀ x ∈ (v0, k0) :: candidatesOf c rest, 0 < x.2 := by
    intro x hx
    simp only [List.mem_cons] at hx
    rcases hx with rfl | hx
    · exact hk0
    · exact candidates_coefficients_positive hpos x hx
  constructor
  · intro r h
    refine ⟨bestFold idealPred c (v0, k0) (candidatesOf c rest), bestFold_mem _ _ _ _, (findBest_get h hnd hc hv0).2, ?_, ?_⟩
    · intro hg x hx he
      exact lexLe_tie (bestFold_ideal_gain_lex c hg _ _ hposc x hx) he
    · intro hg x hx he
      have := lexLe_tie (bestFold_ideal_cost_lex c hg _ _ hposc x hx) (by show -_ = -_; rw [he])
      simpa using this
  · intro r h
    refine ⟨bestFold nadirPred c (v0, k0) (candidatesOf c rest), bestFold_mem _ _ _ _, (findBest_get h hnd hc hv0).2, ?_, ?_⟩
    · intro hg x hx he
      have := lexLe_tie (bestFold_nadir_gain_lex c hg _ _ hposc x hx) (by show -_ = -_; rw [he])
      simpa using this
    · intro hg x hx he
      exact lexLe_tie (bestFold_nadir_cost_lex c hg _ _ hposc x hx) he

/-! ### mapped difference -/

/-- The split is exactly at 0: a positive scaled difference goes through the gain function, everything
    else (including 0) through the negated loss function of the negated difference. -/
theorem mapped_difference_splits_at_zero {α : Type} [Num α] (ev : AFun α → α → α) (loss gain : AFun α) (d : α) :
    (Num.zero < d → mapDiff ev loss gain d = ev gain d) ∧
    (¬ Num.zero < d → mapDiff ev loss gain d = -(ev loss (-d))) :=
  ⟨mapDiff_pos ev loss gain d, mapDiff_nonpos ev loss gain d⟩

/-- Linear gain / loss (not identically zero): `a_g·d + b_g` when better, `−(a_l·(−d) + b_l)` otherwise. -/
theorem mapped_difference_of_linear_functions (exp : Rat → Rat) (l g : LinFun Rat)
    (hl : ¬ (l.a = 0 ∧ l.b = 0)) (hg : ¬ (g.a = 0 ∧ g.b = 0)) (d : Rat) :
    mapDiff (AFun.eval exp) (.linear l) (.linear g) d = if 0 < d then g.a * d + g.b else -(l.a * (-d) + l.b) :=
  mapDiff_linear exp l g hl hg d

/-- Identically-zero gain and loss functions map every difference to 0, whatever `exp` is. -/
theorem zero_functions_map_every_difference_to_zero (exp : Rat → Rat) (loss gain : AFun Rat)
    (hl : AFun.isZero loss) (hg : AFun.isZero gain) (d : Rat) : mapDiff (AFun.eval exp) loss gain d = 0 :=
  mapDiff_zero exp loss gain hl hg d

/-! ### inline applier -/

/-- One criterion of the inline applier: the new value is `bound(v + range·mean)` and the reported
    difference is exactly new − old; other criteria are not touched by this step. -/
theorem inline_step_shifts_and_reports_new_minus_old {α : Type} [Num α] {b : Bounding α} {avg old : KMap α}
    {st st' : KMap α × KMap α} {cs : String × Scale α} (h : inlineStep b avg old st cs = .ok st') :
    ∃ mean v, avg.get? cs.1 = some mean ∧ old.get? cs.1 = some v ∧
      st'.1.get? cs.1 = some (cs.2.2 |> fun range => b.bound range (v + (range.2 - range.1) * mean)) ∧
      st'.2.get? cs.1 = some ((cs.2.2 |> fun range => b.bound range (v + (range.2 - range.1) * mean)) - v) ∧
      (∀ k, k ≠ cs.1 → st'.1.get? k = st.1.get? k ∧ st'.2.get? k = st.2.get? k) := by
  obtain ⟨m, v, h1, h2, h3, h4, h5⟩ := inlineStep_ok h
  exact ⟨m, v, h1, h2, h3, h4, h5⟩

/-- The inline applier for one alternative (criteria ids of the scaling distinct): every criterion is
    shifted to `bound(v + range·mean)` of its old value `v` and the arithmetic mean of its mapped
    differences over the reference points, and the reported applied difference is exactly new − old. -/
theorem inline_applier_shifts_every_criterion_and_reports_new_minus_old {α : Type} [Num α] {b : Bounding α}
    {sc : KMap (Scale α)} {p : AltDiffs α} {a' d' : Alt α}
    (h : inlineOne b sc p = .ok (a', d')) (hnd : (sc.map (·.1)).Nodup) :
    a'.id = p.1.id ∧ d'.id = p.1.id ∧
    ∃ avg, arithmeticAverage p.2 = .ok avg ∧
      ∀ cs ∈ sc, ∃ mean v, avg.get? cs.1 = some mean ∧ p.1.vals.get? cs.1 = some v ∧
        a'.vals.get? cs.1 = some (inlineValue b cs.2.2 v mean) ∧
        d'.vals.get? cs.1 = some (inlineValue b cs.2.2 v mean - v) := inlineOne_ok h hnd

/-- With a zero mean mapped difference (in particular for identically-zero gain and loss functions) the
    inline applier leaves the value as it is — up to the configured bounding of the old value itself;
    without bounding exactly unchanged. -/
theorem inline_zero_difference_leaves_value_unchanged (b : Bounding Rat) (range : Rat × Rat) (v : Rat) :
    inlineValue b range v 0 = b.bound range v ∧
    (¬ (0 : Rat) < b.scaling → b.nonNeg = false → inlineValue b range v 0 = v) :=
  ⟨inlineValue_zero b range v, inlineValue_zero_off b range v⟩

/-- Without bounding the inline shift is `v + (max − min)·mean`. -/
theorem inline_shift_without_bounding (b : Bounding Rat) (range : Rat × Rat) (v mean : Rat)
    (hs : ¬ (0 : Rat) < b.scaling) (hn : b.nonNeg = false) :
    inlineValue b range v mean = v + (range.2 - range.1) * mean := inlineValue_off b range v mean hs hn

/-! ### newCriterion applier -/

/-- One anchoring criterion per reference point: when the criterion of reference point number `ri` does
    not exist yet, exactly one criterion is appended — named `NotUsedName("__anchoring_criterion_" + refPoint)`,
    with the reference criterion's type and declared range, and an id no criterion had; afterwards it is
    reused for the remaining alternatives. -/
theorem new_criterion_applier_adds_one_criterion_per_reference_point {α : Type} [Num α] {ref : Crit α}
    {gens : List (Draws α)} {st st' : NCState α} {ri : Nat} {rp : String}
    (h : ncNewCriterion ref gens st ri rp = .ok st') :
    (st.added.length = ri →
      ∃ c : Crit α, st'.crits = st.crits ++ [c] ∧ c.type = ref.type ∧ c.range = ref.range ∧
        c.id = notUsedName (st.crits.map (·.id)) ("__anchoring_criterion_" ++ rp) ∧
        (∀ x ∈ st.crits, x.id ≠ c.id) ∧
        ∃ a : AddedAnch α, st'.added = st.added ++ [a] ∧ a.id = c.id ∧ a.type = c.type) ∧
    (ri < st.added.length → st' = st) := by
  constructor
  · intro hlen
    obtain ⟨c, h1, h2, h3, h4, h5, h6⟩ := ncNewCriterion_creates h hlen
    refine ⟨c, h1, h2, h3, h4, ?_, h6⟩
    intro x hx e
    have := h5 x hx
    simp [e] at this
  · exact ncNewCriterion_reuses h

/-- The id of an anchoring criterion is never in use, whatever criteria exist (earlier anchoring criteria of
    the same or of a similarly named reference point, gaps left by omitted ones, foreign ids with the prefix):
    `NotUsedName` counts on until the candidate is free.  So `Criteria.Add` accepts the new criterion —
    creating the criterion of a reference point never fails because of its name. -/
theorem anchoring_criterion_name_never_collides {α : Type} [Num α] (crits : List (Crit α)) (rp : String) :
    notUsedName (crits.map (·.id)) ("__anchoring_criterion_" ++ rp) ∉ crits.map (·.id) ∧
    (notUsedName (crits.map (·.id)) ("__anchoring_criterion_" ++ rp)).startsWith ("__anchoring_criterion_" ++ rp) = true ∧
    ∀ c : Crit α, c.id = notUsedName (crits.map (·.id)) ("__anchoring_criterion_" ++ rp) →
      critsAdd crits c = .ok (crits ++ [c]) := by
  have hfresh := notUsedName_fresh (crits.map (·.id)) ("__anchoring_criterion_" ++ rp)
  refine ⟨hfresh, notUsedName_prefixed _ _, ?_⟩
  intro c hc
  unfold critsAdd
  rw [if_neg]
  · rfl
  · simp only [List.any_eq_true, beq_iff_eq, not_exists, not_and]
    intro x hx e
    exact hfresh ((e.trans hc) ▸ List.mem_map_of_mem hx)

/-- two reference points called `ideal1` and `ideal`: the second one's first candidate `…ideal1` is taken,
    it gets `…ideal2` (before the fix of `NotUsedName` this collided) -/
example : notUsedName ["c0", "__anchoring_criterion_ideal1"] "__anchoring_criterion_ideal" = "__anchoring_criterion_ideal2" := by
  have h : ((["c0", "__anchoring_criterion_ideal1"]).filter fun i => i.startsWith "__anchoring_criterion_ideal")
      = ["__anchoring_criterion_ideal" ++ "1"] := by simp
  rw [notUsedName_skips_used_name h]; rfl

/-- Frame of the whole newCriterion applier.  A successful run reports the reference criterion (one of the
    ranked criteria) and the added criteria, and
    * the criteria are the old ones followed by the added ones, which carry the reference criterion's type and
      declared range; the added ids are pairwise different and none is the id of an old criterion;
    * there are as many added criteria as the longest list of reference points of the differences (at least
      the number of reference points of each alternative, at most any common bound);
    * the considered / not-considered split is unchanged;
    * every resulting alternative is the alternative of one entry of the differences with its old values
      untouched and one value appended per reference point, under the ids of the added criteria, in order. -/
theorem new_criterion_applier_appends_the_added_criteria_and_keeps_old_values {α : Type} [Num α] {eps : α}
    {d : DMP α} {diffs : List (AltDiffs α)} {b : Bounding α} {sc : KMap (Scale α)} {params : Props α}
    {rd : Draws α} {gens : List (Draws α)} {res : DMP α} {r : ApplierResult α}
    (h : newCriterionApply eps d diffs b sc params rd gens = .ok (res, r)) :
    ∃ (ref : Crit α) (added : List (AddedAnch α)), r = .newCriterion ref added ∧
      (∃ ranked, rankAsc eps d = .ok ranked ∧ ref ∈ ranked.map (·.crit)) ∧
      res.crit = d.crit ++ added.map (fun a => { id := a.id, type := ref.type, range := ref.range }) ∧
      (added.map (·.id)).Nodup ∧ (∀ a ∈ added, a.id ∉ d.crit.map (·.id)) ∧ (∀ a ∈ added, a.type = ref.type) ∧
      (∀ p ∈ diffs, p.2.length ≤ added.length) ∧
      (∀ n, (∀ p ∈ diffs, p.2.length ≤ n) → added.length ≤ n) ∧
      res.co.map (·.id) = d.co.map (·.id) ∧ res.nc.map (·.id) = d.nc.map (·.id) ∧
      ∀ a' ∈ res.co ++ res.nc, ∃ p ∈ diffs, a'.id = p.1.id ∧
        ∃ news : KMap α, a'.vals = p.1.vals ++ news ∧ news.map (·.1) = (added.map (·.id)).take p.2.length :=
  newCriterionApply_ok h

/-- … in particular, with `n` reference points for every alternative (what `calculateDiffsPerReferencePoint`
    produces) and at least one alternative: exactly `n` criteria are added — one per reference point — and
    every alternative gets exactly the added ids appended, in order. -/
theorem new_criterion_applier_adds_exactly_one_criterion_per_reference_point {α : Type} [Num α] {eps : α}
    {d : DMP α} {diffs : List (AltDiffs α)} {b : Bounding α} {sc : KMap (Scale α)} {params : Props α}
    {rd : Draws α} {gens : List (Draws α)} {res : DMP α} {ref : Crit α} {added : List (AddedAnch α)} {n : Nat}
    (h : newCriterionApply eps d diffs b sc params rd gens = .ok (res, .newCriterion ref added))
    (hn : ∀ p ∈ diffs, p.2.length = n) (hne : diffs ≠ []) :
    added.length = n ∧ res.crit.length = d.crit.length + n ∧
    ∀ a' ∈ res.co ++ res.nc, ∃ p ∈ diffs, a'.id = p.1.id ∧
      ∃ news : KMap α, a'.vals = p.1.vals ++ news ∧ news.map (·.1) = added.map (·.id) := by
  obtain ⟨ref', added', hr, _, hcr, _, _, _, hlo, hhi, _, _, hal⟩ := newCriterionApply_ok h
  simp only [ApplierResult.newCriterion.injEq] at hr
  obtain ⟨rfl, rfl⟩ := hr
  have hlen : added.length = n := by
    obtain ⟨p, hp⟩ := List.exists_mem_of_ne_nil diffs hne
    have h1 := hlo p hp
    have h2 := hhi n (fun q hq => Nat.le_of_eq (hn q hq))
    rw [hn p hp] at h1
    omega
  refine ⟨hlen, by simp [hcr, hlen], ?_⟩
  intro a' ha'
  obtain ⟨p, hp, e1, news, e2, e3⟩ := hal a' ha'
  refine ⟨p, hp, e1, news, e2, ?_⟩
  rw [e3, hn p hp, ← hlen, ← List.length_map (f := fun x : AddedAnch α => x.id), List.take_length]

/-- Whole `Anchoring.Apply` with the `newCriterion` applier (at least one known alternative): one criterion
    is added per reference point, the criteria are the current ones followed by the added ones, the split is
    unchanged, and every resulting alternative is a **current** alternative with all its values untouched and
    exactly the values of the added criteria appended. -/
theorem anchoring_with_the_new_criterion_applier_keeps_every_old_value {α : Type} [Num α] {exp : α → α} {eps : α}
    {cur : DMP α} {p : AnchProps α} {rd : Draws α} {gens : List (Draws α)} {res : DMP α} {rep : AnchReport α}
    (h : anchoringApply exp eps cur p rd gens = .ok (res, rep)) (hfn : p.applier.fn = "newCriterion")
    (hne : cur.co ++ cur.nc ≠ []) :
    ∃ (ref : Crit α) (added : List (AddedAnch α)), rep.applier = .newCriterion ref added ∧
      added.length = rep.refPoints.length ∧
      res.crit = cur.crit ++ added.map (fun a => { id := a.id, type := ref.type, range := ref.range }) ∧
      (added.map (·.id)).Nodup ∧ (∀ a ∈ added, a.id ∉ cur.crit.map (·.id)) ∧
      res.co.map (·.id) = cur.co.map (·.id) ∧ res.nc.map (·.id) = cur.nc.map (·.id) ∧
      ∀ a' ∈ res.co ++ res.nc, ∃ a ∈ cur.co ++ cur.nc, a'.id = a.id ∧
        ∃ news : KMap α, a'.vals = a.vals ++ news ∧ news.map (·.1) = added.map (·.id) := by
  unfold anchoringApply at h
  obtain ⟨⟨refs, sc, diffs, b⟩, hfront, h⟩ := bind_eq_ok.mp h
  simp only [Option.getD_none] at h
  obtain ⟨⟨d, r⟩, happ, h⟩ := bind_eq_ok.mp h
  simp only [pure, Except.pure, Except.ok.injEq, Prod.mk.injEq] at h
  obtain ⟨rfl, rfl⟩ := h
  unfold applierApply at happ
  have h1 : (p.applier.fn == Facts.anchoringInline) = false := by rw [hfn]; decide
  have h2 : (p.applier.fn == Facts.anchoringNewCriterion) = true := by rw [hfn]; decide
  simp only [h1, h2, Bool.false_eq_true, if_false, if_true] at happ
  obtain ⟨hlen, hshape⟩ := anchoringFront_diffs hfront
  obtain ⟨ref, added, hr, _, hcr, hnd, hfr, _, hlo, hhi, hco, hnc, hal⟩ := newCriterionApply_ok happ
  have hdne : diffs ≠ [] := by
    intro e
    rw [e] at hlen
    simp only [List.length_nil, DMP.all] at hlen
    exact hne (List.eq_nil_of_length_eq_zero hlen.symm)
  have hadd : added.length = refs.length := by
    obtain ⟨q, hq⟩ := List.exists_mem_of_ne_nil diffs hdne
    have e1 := hlo q hq
    have e2 := hhi refs.length (fun q' hq' => Nat.le_of_eq (hshape q' hq').2)
    rw [(hshape q hq).2] at e1
    omega
  refine ⟨ref, added, hr, hadd, hcr, hnd, hfr, hco, hnc, ?_⟩
  intro a' ha'
  obtain ⟨q, hq, e1, news, e2, e3⟩ := hal a' ha'
  refine ⟨q.1, by simpa [DMP.all] using (hshape q hq).1, e1, news, e2, ?_⟩
  rw [e3, (hshape q hq).2, ← hadd, ← List.length_map (f := fun x : AddedAnch α => x.id), List.take_length]

/-- The importance weights used by the newCriterion applier (ascending ranking, shifted so that the
    smallest is at least the minimum allowed weight, divided by the total) are positive and sum to 1;
    the criteria and their order are unchanged. -/
theorem normalised_importance_is_positive_and_sums_to_one {m : Rat} {c0 : WCrit Rat}
    {rest out : List (WCrit Rat)} (hm : 0 < m) (hmin : ∀ c ∈ c0 :: rest, c0.w ≤ c.w)
    (h : normalizeWeights m (c0 :: rest) = .ok out) :
    (∀ c ∈ out, 0 < c.w) ∧ out.foldl (fun t c => t + c.w) 0 = 1 ∧
    out.map (·.crit) = (c0 :: rest).map (·.crit) := normalizeWeights_ok hm hmin h

/-- Value of an anchoring criterion: the reference range's mid-point plus half the range times the
    importance-weighted mapped difference (no bounding) … -/
theorem new_criterion_value_formula (b : Bounding Rat) (lo hi cv : Rat)
    (hs : ¬ (0 : Rat) < b.scaling) (hn : b.nonNeg = false) :
    ncValue b (lo, hi) cv = lo + (hi - lo) / 2 + (hi - lo) / 2 * cv := ncValue_off b lo hi cv hs hn

/-- … which stays inside the reference criterion's range when the weighted difference is in [−1, 1]. -/
theorem new_criterion_value_stays_in_range (b : Bounding Rat) (lo hi cv : Rat)
    (hs : ¬ (0 : Rat) < b.scaling) (hn : b.nonNeg = false) (hr : lo ≤ hi) (h0 : -1 ≤ cv) (h1 : cv ≤ 1) :
    lo ≤ ncValue b (lo, hi) cv ∧ ncValue b (lo, hi) cv ≤ hi := ncValue_in_range b lo hi cv hs hn hr h0 h1

/-- With a positive `allowedValuesRangeScaling` both appliers' values lie in the allowed range. -/
theorem bounded_values_lie_in_the_allowed_range (b : Bounding Rat) (range : Rat × Rat) (x : Rat)
    (hs : (0 : Rat) < b.scaling) (hr : (allowedRange b range).1 ≤ (allowedRange b range).2) :
    (allowedRange b range).1 ≤ b.bound range x ∧ b.bound range x ≤ (allowedRange b range).2 :=
  bound_in_allowed b range x hs hr

/-! ### parsing -/

/-- A JSON-decoded request that omits `coefficient` gets coefficient 0 (not 1): the fallback loop of
    `checkAnchoringAlternatives` assigns to a copy.  Only the typed form defaults to 1. -/
theorem missing_coefficient_stays_zero_for_json_props {α : Type} [Num α] (p : AnchProps α) (i : String)
    (hp : p.alts = [(i, none)]) :
    anchoringAlternatives p = .ok [(i, if p.typed then Num.one else Num.zero)] := by
  unfold anchoringAlternatives
  simp [hp, pure, Except.pure]

/-- no anchoring alternatives: rejected -/
theorem no_anchoring_alternatives_is_rejected {α : Type} [Num α] (p : AnchProps α) (hp : p.alts = []) :
    ∃ e, anchoringAlternatives p = .error e := by
  unfold anchoringAlternatives
  simp [hp, throw, throwThe, MonadExceptOf.throw]

/-- the constants and names this property's models depend on were re-read from the working tree on this run
    (none fell back to its pinned value because its declaration could not be located) -/
theorem facts_fresh : (Rdm.Facts.staleFacts.all fun n => !["anchoringIdeal", "anchoringNadir", "anchoringInline",
    "anchoringNewCriterion", "fatigueExp", "minAllowedWeight", "defaultBoundingScaling", "refImportanceRatio",
    "refRandomUniform", "refRandomWeighted", "wiringRefCriterionFactories", "choquetEps", "roundPrecision"].contains n) = true := by
  decide

/-! ## END TO END: a fired anchoring inside a whole request

The theorems above are about the components of one `Anchoring.Apply`.  Below they are lifted to responses of
`decideWith` (Model/Decide.lean): every entry of `resp.biases` that carries an anchoring report — at any position of
any bias list, whatever fired before and after, for all seven methods — is one `anchoringApply` on the state `s`
it received (`E2EBFired`, Lemmas/E2EBiases.lean).  **Anchoring reads nothing from the request's state** (`original` is
ignored by the code and by the model): anchoring alternatives, reference point, scaling, differences, the criteria
ranking of the newCriterion applier and the parameters its listener extends are all those of the CURRENT state `s`
(`anchoring_reads_only_the_state_received`).  So, unlike concealment and mixing (C18), nothing here is `_partial`. -/

section e2e
variable {α : Type} [Num α] {exp : α → α} {o : List (WCrit α) → List (WCrit α)} {req : Request α}
  {g : Int → Draws α} {resp : Response α} {params s s' : DMP α} {chosen : List (Chosen α (BProps α))} {i : Nat}
  {name : String} {prob : α} {q : AnchProps α} {r : AnchReport α}

/-- **Every anchoring entry of a response that carries a report is one `Anchoring.Apply` on the state it
    received.**  The reference criterion of the newCriterion applier is drawn from the stream of the applier's
    `newCriterionRandomSeed`, the listener draws of the `ri`-th added criterion from that of `randomSeed + ri`. -/
theorem fired_anchoring_is_one_apply (h : decideWith exp o req g = .ok resp)
    (hi : resp.biases[i]? = some ⟨name, prob, some (.anchoring r)⟩) :
    ∃ params chosen q s s',
      E2EBFired exp g req resp params chosen i ⟨name, prob, .anch q⟩ (.anchoring r) s s' ∧
      name = Facts.biasAnchoring ∧
      anchoringApply exp choquetEpsOf s q (g (q.applier.params.seed "newCriterionRandomSeed"))
        ((anchGenSeeds q).map g) = .ok (s', r) := by
  obtain ⟨params, chosen, props, s, s', hf⟩ := e2eb_fired h hi
  obtain ⟨hn, q, hp, ha⟩ := e2eb_fired_anchoring hf
  dsimp only at hn hp
  subst hp
  exact ⟨params, chosen, q, s, s', hf, hn, ha⟩

theorem fired_anchoring_apply
    (hf : E2EBFired exp g req resp params chosen i ⟨name, prob, .anch q⟩ (.anchoring r) s s') :
    anchoringApply exp choquetEpsOf s q (g (q.applier.params.seed "newCriterionRandomSeed"))
      ((anchGenSeeds q).map g) = .ok (s', r) := by
  obtain ⟨_, q', hp, ha⟩ := e2eb_fired_anchoring hf
  dsimp only at hp
  cases hp
  exact ha

/-- **a fired anchoring reads only the state it received**: the anchoring alternatives are fetched among the known
    alternatives of `s`; the reported reference points are `referencePoints` of them over the criteria of `s`; the
    reported scaling is that of the criteria and alternatives of `s`; the reported differences are those of the
    alternatives of `s` to the reference points; then the configured applier runs on `s` -/
theorem anchoring_reads_only_the_state_received
    (hf : E2EBFired exp g req resp params chosen i ⟨name, prob, .anch q⟩ (.anchoring r) s s') :
    ∃ b alts loss gain anch, anchoringAlternatives q = .ok alts ∧ parseAFun q.loss = .ok loss ∧
      parseAFun q.gain = .ok gain ∧ fetchAnchoring s.all alts = .ok anch ∧ (∀ a ∈ anch, a.1 ∈ s.all) ∧
      referencePoints q.refFn anch s.crit = .ok r.refPoints ∧ boundingOfProps q.applier.params = .ok b ∧
      anchScaling s.crit s.all = .ok r.scaling ∧
      calcDiffs exp s.all r.refPoints s.crit r.scaling loss gain = .ok r.diffs ∧
      ((q.applier.fn = Facts.anchoringInline ∧
          inlineApply s r.diffs b r.scaling q.applier.params = .ok (s', r.applier)) ∨
       (q.applier.fn = Facts.anchoringNewCriterion ∧
          newCriterionApply choquetEpsOf s r.diffs b r.scaling q.applier.params
            (g (q.applier.params.seed "newCriterionRandomSeed")) ((anchGenSeeds q).map g) = .ok (s', r.applier))) := by
  obtain ⟨b, hfront, happ⟩ := decideAnchoring_cases (fired_anchoring_apply hf)
  obtain ⟨alts, loss, gain, anch, h1, h2, h3, h4, h5, h6, h7, h8⟩ := e2eb_anchoringFront_parts hfront
  exact ⟨b, alts, loss, gain, anch, h1, h2, h3, h4, e2eb_fetchAnchoring_mem h4, h5, h6, h7, h8, happ⟩

/-- `reference_point_values_are_values_of_anchoring_alternatives`, end to end: exactly one reference point is
    reported, named after the strategy; each of its values is the value a known alternative OF THE STATE RECEIVED
    (an anchoring alternative, with the values earlier biases left it) has for that criterion -/
theorem reference_point_values_are_values_received
    (hf : E2EBFired exp g req resp params chosen i ⟨name, prob, .anch q⟩ (.anchoring r) s s') :
    ∃ rp, r.refPoints = [rp] ∧ rp.id = q.refFn ∧ ∀ kv ∈ rp.vals, ∃ a ∈ s.all, kv ∈ a.vals := by
  obtain ⟨_, _, _, _, anch, _, _, _, _, hmem, href, _⟩ := anchoring_reads_only_the_state_received hf
  obtain ⟨rp, h1, h2, h3⟩ := reference_point_values_are_values_of_anchoring_alternatives href
  refine ⟨rp, h1, h2, ?_⟩
  intro kv hkv
  obtain ⟨a, ha, hk⟩ := h3 kv hkv
  exact ⟨a.1, hmem a ha, hk⟩

/-- the `inline` applier, end to end: criteria and method parameters are handed on untouched; every entry of the
    reported differences (one per known alternative of `s`) yields a pair (new alternative, applied differences)
    in which every criterion of the scaling is `bound(v + range·mean)` of the value `v` RECEIVED and the reported
    applied difference is exactly new − old; the considered alternatives are replaced id by id, the others only
    if asked -/
theorem inline_anchoring_shifts_the_values_received_and_reports_new_minus_old
    (hf : E2EBFired exp g req resp params chosen i ⟨name, prob, .anch q⟩ (.anchoring r) s s')
    (hfn : q.applier.fn = "inline") :
    s'.crit = s.crit ∧ s'.mp = s.mp ∧ (∃ l, r.applier = .inline l) ∧
    ∃ b pairs, boundingOfProps q.applier.params = .ok b ∧ r.diffs.mapM (inlineOne b r.scaling) = .ok pairs ∧
      updateAlts s.co (pairs.map (·.1)) = .ok s'.co ∧
      (s'.nc = s.nc ∨ updateAlts s.nc (pairs.map (·.1)) = .ok s'.nc) ∧
      ∀ pz ∈ r.diffs.zip pairs,
        pz.2.1.id = pz.1.1.id ∧ pz.2.2.id = pz.1.1.id ∧
        ∃ avg, arithmeticAverage pz.1.2 = .ok avg ∧
          ∀ cs ∈ r.scaling, ∃ mean v, avg.get? cs.1 = some mean ∧ pz.1.1.vals.get? cs.1 = some v ∧
            pz.2.1.vals.get? cs.1 = some (inlineValue b cs.2.2 v mean) ∧
            pz.2.2.vals.get? cs.1 = some (inlineValue b cs.2.2 v mean - v) := by
  obtain ⟨b, _, _, _, _, _, _, _, _, _, _, hb, hsc, _, happ⟩ := anchoring_reads_only_the_state_received hf
  rcases happ with ⟨_, hin⟩ | ⟨hn, _⟩
  · obtain ⟨hcr, hmp, hl, pairs, hp, hco, hnc⟩ := decideInlineApply_ok hin
    have hnd : (r.scaling.map (·.1)).Nodup := by
      unfold anchScaling at hsc
      exact (decideAnchScaling_keys hsc (by simp [KMap.keys])).1
    refine ⟨hcr, hmp, hl, b, pairs, hb, hp, hco, hnc, ?_⟩
    intro pz hpz
    have h1 := (mapM_ok hp).2 pz hpz
    exact inline_applier_shifts_every_criterion_and_reports_new_minus_old h1 hnd
  · rw [hfn] at hn
    exact absurd hn (by decide)

/-- `anchoring_with_the_new_criterion_applier_keeps_every_old_value`, end to end: one criterion is added per
    reference point; the criteria handed on are the criteria RECEIVED followed by the added ones (fresh, pairwise
    different ids); the split is the one received; every alternative handed on is an alternative RECEIVED with all
    its values untouched and exactly the values of the added criteria appended -/
theorem new_criterion_anchoring_keeps_every_value_received
    (hf : E2EBFired exp g req resp params chosen i ⟨name, prob, .anch q⟩ (.anchoring r) s s')
    (hfn : q.applier.fn = "newCriterion") (hne : req.chosen ≠ []) :
    ∃ (ref : Crit α) (added : List (AddedAnch α)), r.applier = .newCriterion ref added ∧
      added.length = r.refPoints.length ∧
      s'.crit = s.crit ++ added.map (fun a => { id := a.id, type := ref.type, range := ref.range }) ∧
      (added.map (·.id)).Nodup ∧ (∀ a ∈ added, a.id ∉ s.crit.map (·.id)) ∧
      s'.co.map (·.id) = s.co.map (·.id) ∧ s'.nc.map (·.id) = s.nc.map (·.id) ∧
      ∀ a' ∈ s'.co ++ s'.nc, ∃ a ∈ s.co ++ s.nc, a'.id = a.id ∧
        ∃ news : KMap α, a'.vals = a.vals ++ news ∧ news.map (·.1) = added.map (·.id) := by
  refine anchoring_with_the_new_criterion_applier_keeps_every_old_value (fired_anchoring_apply hf) hfn ?_
  obtain ⟨_, _, hco, _⟩ := e2eb_fired_frame hf
  intro e
  have : s.co = [] := (List.append_eq_nil_iff.mp e).1
  rw [this] at hco
  exact hne hco.symm

/-- the reference criterion of the newCriterion applier is a criterion RECEIVED (it is picked from the listener's
    ranking of the state received) — in contrast to concealment and mixing (C18), which rank the request's state -/
theorem new_criterion_anchoring_reference_criterion_is_a_criterion_received
    (hf : E2EBFired exp g req resp params chosen i ⟨name, prob, .anch q⟩ (.anchoring r) s s')
    (hfn : q.applier.fn = "newCriterion") :
    ∃ ref added ranked, r.applier = .newCriterion ref added ∧ rankAsc choquetEpsOf s = .ok ranked ∧
      ref ∈ ranked.map (·.crit) ∧ ref ∈ s.crit := by
  obtain ⟨b, _, _, _, _, _, _, _, _, _, _, _, _, _, happ⟩ := anchoring_reads_only_the_state_received hf
  rcases happ with ⟨hi, _⟩ | ⟨_, hnew⟩
  · rw [hfn] at hi
    exact absurd hi (by decide)
  · obtain ⟨ref, added, hr, ⟨ranked, hrank, hmem⟩, _⟩ :=
      new_criterion_applier_appends_the_added_criteria_and_keeps_old_values hnew
    exact ⟨ref, added, ranked, hr, hrank, hmem, (BiasA.rankAsc_perm hrank).subset hmem⟩

end e2e

/-! ### the hypotheses are satisfiable: requests in which the anchoring is the second fired bias -/

/-- fatigue fires, an entry does not fire, then an `inline` anchoring (nadir of alternative `a`, linear gain and
    loss) fires on the state the fatigue handed on -/
example : ∃ resp name prob r n0 p0 r0 params chosen q s s',
    Rdm.decide id (e2ebExReq [e2ebExFatigue, e2ebExSkipped, e2ebExAnchInline]) e2ebExSeeds = .ok resp ∧
    resp.biases[2]? = some ⟨name, prob, some (.anchoring r)⟩ ∧ resp.biases[0]? = some ⟨n0, p0, some r0⟩ ∧
    E2EBFired id (genOf e2ebExSeeds) (e2ebExReq [e2ebExFatigue, e2ebExSkipped, e2ebExAnchInline]) resp params chosen 2
      ⟨name, prob, .anch q⟩ (.anchoring r) s s' ∧ q.applier.fn = "inline" := by
  obtain ⟨resp, name, prob, rp, hr, h2, hk, n0, p0, r0, h0⟩ := e2eb_firedWith
    (r := Rdm.decide id (e2ebExReq [e2ebExFatigue, e2ebExSkipped, e2ebExAnchInline]) e2ebExSeeds)
    (j := 0) (i := 2) (k := e2ebIsAnchoring) (by decide +kernel)
  cases rp with
  | anchoring r =>
    obtain ⟨params, chosen, q, s, s', hf, _, _⟩ := fired_anchoring_is_one_apply hr h2
    have hb := e2eb_fired_chosenAt hf
    have hb' : e2ebChosenAt (e2ebExReq [e2ebExFatigue, e2ebExSkipped, e2ebExAnchInline]) 2 =
        some ⟨Facts.biasAnchoring, 1, e2ebExAnchInline.props⟩ := rfl
    rw [hb'] at hb
    simp only [Option.some.injEq, Chosen.mk.injEq, e2ebExAnchInline, BProps.anch.injEq] at hb
    obtain ⟨rfl, rfl, rfl⟩ := hb
    exact ⟨resp, _, _, r, n0, p0, r0, params, chosen, _, s, s', hr, h2, h0, hf, rfl⟩
  | _ => cases hk

/-- … and a `newCriterion` anchoring (ideal of alternative `a`) as the second fired bias of a one-criterion
    request (`List.mergeSort`, used by the criteria ranking, reduces in the kernel only on singletons) -/
example : ∃ resp name prob r n0 p0 r0 params chosen q s s',
    Rdm.decide id (e2ebExReq1 [e2ebExFatigue, e2ebExSkipped, e2ebExAnchNew]) e2ebExSeeds = .ok resp ∧
    resp.biases[2]? = some ⟨name, prob, some (.anchoring r)⟩ ∧ resp.biases[0]? = some ⟨n0, p0, some r0⟩ ∧
    E2EBFired id (genOf e2ebExSeeds) (e2ebExReq1 [e2ebExFatigue, e2ebExSkipped, e2ebExAnchNew]) resp params chosen 2
      ⟨name, prob, .anch q⟩ (.anchoring r) s s' ∧ q.applier.fn = "newCriterion" ∧
    (e2ebExReq1 [e2ebExFatigue, e2ebExSkipped, e2ebExAnchNew]).chosen ≠ [] := by
  obtain ⟨resp, name, prob, rp, hr, h2, hk, n0, p0, r0, h0⟩ := e2eb_firedWith
    (r := Rdm.decide id (e2ebExReq1 [e2ebExFatigue, e2ebExSkipped, e2ebExAnchNew]) e2ebExSeeds)
    (j := 0) (i := 2) (k := e2ebIsAnchoring) (by decide +kernel)
  cases rp with
  | anchoring r =>
    obtain ⟨params, chosen, q, s, s', hf, _, _⟩ := fired_anchoring_is_one_apply hr h2
    have hb := e2eb_fired_chosenAt hf
    have hb' : e2ebChosenAt (e2ebExReq1 [e2ebExFatigue, e2ebExSkipped, e2ebExAnchNew]) 2 =
        some ⟨Facts.biasAnchoring, 1, e2ebExAnchNew.props⟩ := rfl
    rw [hb'] at hb
    simp only [Option.some.injEq, Chosen.mk.injEq, e2ebExAnchNew, BProps.anch.injEq] at hb
    obtain ⟨rfl, rfl, rfl⟩ := hb
    exact ⟨resp, _, _, r, n0, p0, r0, params, chosen, _, s, s', hr, h2, h0, hf, rfl, by decide⟩
  | _ => cases hk

end Rdm.Props.C19
