/- C19 — property theorems (stub; filled in by the owning work package). -/
import Rdm.Basic
namespace Rdm.Props.C19
end Rdm.Props.C19
