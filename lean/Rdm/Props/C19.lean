/-
  C19 — anchoring shifts values by gains and losses against the reference point.
  Property theorems only (helper lemmas live in Rdm/Lemmas/BiasBAnchor*.lean, BiasBKMap.lean).

  Model: Rdm/Model/Anchoring.lean, tied bit-for-bit to the Go code by the stages `anchoring-apply`,
  `anchoring-refpoints`, `anchoring-scaling`, `anchoring-diffs`, `anchoring-applier` (inline / newCriterion,
  also with several reference points) of `bin/check C19`; the decidable statement Rdm/Spec/C19.lean is
  evaluated on the implementation's own output by the driver.  `math.Exp` is a parameter `exp` of the model
  without assumed laws.
-/
import Rdm.Lemmas.BiasBAnchor
import Rdm.Lemmas.BiasBAnchorRat
import Rdm.Spec.C19
import Mathlib.Tactic.NormNum
namespace Rdm.Props.C19
open Rdm

/-! ### bridges -/

theorem ideal_name : Facts.anchoringIdeal = "ideal" := rfl
theorem nadir_name : Facts.anchoringNadir = "nadir" := rfl
theorem inline_name : Facts.anchoringInline = "inline" := rfl
theorem new_criterion_name : Facts.anchoringNewCriterion = "newCriterion" := rfl
/-- the code's `_minAllowedWeight` is the double nearest to the 0.01 of the property statement -/
theorem min_allowed_weight_is_one_hundredth :
    (0 : Rat) < Num.ofConst Facts.minAllowedWeight ∧
    |(Num.ofConst Facts.minAllowedWeight : Rat) - 1 / 100| < 1 / 10 ^ 17 := by
  simp only [Num.ofConst_rat, Facts.minAllowedWeight]
  constructor
  · norm_num
  · rw [abs_lt]; constructor <;> norm_num

/-! ### reference point -/

/-- The evaluators return exactly one reference point, named after the strategy; each of its values is
    the value one of the anchoring alternatives has for that criterion. -/
theorem reference_point_values_are_values_of_anchoring_alternatives {α : Type} [Num α] {fn : String}
    {alts : List (Alt α × α)} {crits : List (Crit α)} {refs : List (Alt α)}
    (h : referencePoints fn alts crits = .ok refs) :
    ∃ r, refs = [r] ∧ r.id = fn ∧ ∀ kv ∈ r.vals, ∃ a ∈ alts, kv ∈ a.1.vals := by
  unfold referencePoints at h
  split at h
  · rename_i hfn
    obtain ⟨r, hr, h⟩ := bind_eq_ok.mp h
    simp [pure, Except.pure] at h; subst h
    refine ⟨r, rfl, ?_, findBest_values_are_candidates hr⟩
    have hid : r.id = Facts.anchoringIdeal := by
      unfold findBest at hr
      split at hr
      · simp [throw, throwThe, MonadExceptOf.throw] at hr
      · obtain ⟨_, _, hr⟩ := bind_eq_ok.mp hr
        simp [pure, Except.pure] at hr; subst hr; rfl
    rw [hid]; exact (by simpa using hfn : fn = Facts.anchoringIdeal).symm
  · split at h
    · rename_i _ hfn
      obtain ⟨r, hr, h⟩ := bind_eq_ok.mp h
      simp [pure, Except.pure] at h; subst h
      refine ⟨r, rfl, ?_, findBest_values_are_candidates hr⟩
      have hid : r.id = Facts.anchoringNadir := by
        unfold findBest at hr
        split at hr
        · simp [throw, throwThe, MonadExceptOf.throw] at hr
        · obtain ⟨_, _, hr⟩ := bind_eq_ok.mp hr
          simp [pure, Except.pure] at hr; subst hr; rfl
      rw [hid]; exact (by simpa using hfn : fn = Facts.anchoringNadir).symm
    · simp [throw, throwThe, MonadExceptOf.throw] at h

/-- candidates of the later anchoring alternatives carry those alternatives' coefficients -/
theorem candidates_coefficients_positive {c : Crit Rat} {rest : List (Alt Rat × Rat)}
    (hpos : ∀ a ∈ rest, 0 < a.2) : ∀ x ∈ candidatesOf c rest, 0 < x.2 := by
  intro x hx
  unfold candidatesOf at hx
  rw [List.mem_filterMap] at hx
  obtain ⟨a, ha, hx⟩ := hx
  cases hv : a.1.vals.get? c.id with
  | none => simp [hv] at hx
  | some v => simp [hv] at hx; subst hx; exact hpos a ha

/-- `ideal`, gain criterion, positive coefficients: the reference value is the value `v*` of an anchoring
    alternative (coefficient `κ*`) with `v·κ ≤ v*·κ*` for every anchoring alternative's `(v, κ)`. -/
theorem ideal_reference_value_maximises_weighted_value_on_gain {name : String} {a0 : Alt Rat} {k0 : Rat}
    {rest : List (Alt Rat × Rat)} {crits : List (Crit Rat)} {r : Alt Rat}
    (h : findBest idealPred name ((a0, k0) :: rest) crits = .ok r) (hnd : (crits.map (·.id)).Nodup)
    {c : Crit Rat} (hc : c ∈ crits) (hg : c.isGain = true) {v0 : Rat} (hv0 : a0.vals.get? c.id = some v0)
    (hk0 : 0 < k0) (hpos : ∀ a ∈ rest, 0 < a.2) :
    ∃ w ∈ (v0, k0) :: candidatesOf c rest, r.vals.get? c.id = some w.1 ∧
      ∀ x ∈ (v0, k0) :: candidatesOf c rest, x.1 * x.2 ≤ w.1 * w.2 := by
  refine ⟨bestFold idealPred c (v0, k0) (candidatesOf c rest), bestFold_mem _ _ _ _, (findBest_get h hnd hc hv0).2, ?_⟩
  apply bestFold_ideal_gain c hg
  intro x hx
  simp only [List.mem_cons] at hx
  rcases hx with rfl | hx
  · exact hk0
  · exact candidates_coefficients_positive hpos x hx

/-- `ideal`, cost criterion: the reference value minimises `v/κ`. -/
theorem ideal_reference_value_minimises_weighted_value_on_cost {name : String} {a0 : Alt Rat} {k0 : Rat}
    {rest : List (Alt Rat × Rat)} {crits : List (Crit Rat)} {r : Alt Rat}
    (h : findBest idealPred name ((a0, k0) :: rest) crits = .ok r) (hnd : (crits.map (·.id)).Nodup)
    {c : Crit Rat} (hc : c ∈ crits) (hg : c.isGain = false) {v0 : Rat} (hv0 : a0.vals.get? c.id = some v0)
    (hk0 : 0 < k0) (hpos : ∀ a ∈ rest, 0 < a.2) :
    ∃ w ∈ (v0, k0) :: candidatesOf c rest, r.vals.get? c.id = some w.1 ∧
      ∀ x ∈ (v0, k0) :: candidatesOf c rest, w.1 / w.2 ≤ x.1 / x.2 := by
  refine ⟨bestFold idealPred c (v0, k0) (candidatesOf c rest), bestFold_mem _ _ _ _, (findBest_get h hnd hc hv0).2, ?_⟩
  apply bestFold_ideal_cost c hg
  intro x hx
  simp only [List.mem_cons] at hx
  rcases hx with rfl | hx
  · exact hk0
  · exact candidates_coefficients_positive hpos x hx

/-- `nadir`, gain criterion: the reference value minimises `v·κ`. -/
theorem nadir_reference_value_minimises_weighted_value_on_gain {name : String} {a0 : Alt Rat} {k0 : Rat}
    {rest : List (Alt Rat × Rat)} {crits : List (Crit Rat)} {r : Alt Rat}
    (h : findBest nadirPred name ((a0, k0) :: rest) crits = .ok r) (hnd : (crits.map (·.id)).Nodup)
    {c : Crit Rat} (hc : c ∈ crits) (hg : c.isGain = true) {v0 : Rat} (hv0 : a0.vals.get? c.id = some v0)
    (hk0 : 0 < k0) (hpos : ∀ a ∈ rest, 0 < a.2) :
    ∃ w ∈ (v0, k0) :: candidatesOf c rest, r.vals.get? c.id = some w.1 ∧
      ∀ x ∈ (v0, k0) :: candidatesOf c rest, w.1 * w.2 ≤ x.1 * x.2 := by
  refine ⟨bestFold nadirPred c (v0, k0) (candidatesOf c rest), bestFold_mem _ _ _ _, (findBest_get h hnd hc hv0).2, ?_⟩
  apply bestFold_nadir_gain c hg
  intro x hx
  simp only [List.mem_cons] at hx
  rcases hx with rfl | hx
  · exact hk0
  · exact candidates_coefficients_positive hpos x hx

/-- `nadir`, cost criterion: the reference value maximises `v/κ`. -/
theorem nadir_reference_value_maximises_weighted_value_on_cost {name : String} {a0 : Alt Rat} {k0 : Rat}
    {rest : List (Alt Rat × Rat)} {crits : List (Crit Rat)} {r : Alt Rat}
    (h : findBest nadirPred name ((a0, k0) :: rest) crits = .ok r) (hnd : (crits.map (·.id)).Nodup)
    {c : Crit Rat} (hc : c ∈ crits) (hg : c.isGain = false) {v0 : Rat} (hv0 : a0.vals.get? c.id = some v0)
    (hk0 : 0 < k0) (hpos : ∀ a ∈ rest, 0 < a.2) :
    ∃ w ∈ (v0, k0) :: candidatesOf c rest, r.vals.get? c.id = some w.1 ∧
      ∀ x ∈ (v0, k0) :: candidatesOf c rest, x.1 / x.2 ≤ w.1 / w.2 := by
  refine ⟨bestFold nadirPred c (v0, k0) (candidatesOf c rest), bestFold_mem _ _ _ _, (findBest_get h hnd hc hv0).2, ?_⟩
  apply bestFold_nadir_cost c hg
  intro x hx
  simp only [List.mem_cons] at hx
  rcases hx with rfl | hx
  · exact hk0
  · exact candidates_coefficients_positive hpos x hx

/-! ### mapped difference -/

/-- The split is exactly at 0: a positive scaled difference goes through the gain function, everything
    else (including 0) through the negated loss function of the negated difference. -/
theorem mapped_difference_splits_at_zero {α : Type} [Num α] (ev : AFun α → α → α) (loss gain : AFun α) (d : α) :
    (Num.zero < d → mapDiff ev loss gain d = ev gain d) ∧
    (¬ Num.zero < d → mapDiff ev loss gain d = -(ev loss (-d))) :=
  ⟨mapDiff_pos ev loss gain d, mapDiff_nonpos ev loss gain d⟩

/-- Linear gain / loss (not identically zero): `a_g·d + b_g` when better, `−(a_l·(−d) + b_l)` otherwise. -/
theorem mapped_difference_of_linear_functions (exp : Rat → Rat) (l g : LinFun Rat)
    (hl : ¬ (l.a = 0 ∧ l.b = 0)) (hg : ¬ (g.a = 0 ∧ g.b = 0)) (d : Rat) :
    mapDiff (AFun.eval exp) (.linear l) (.linear g) d = if 0 < d then g.a * d + g.b else -(l.a * (-d) + l.b) :=
  mapDiff_linear exp l g hl hg d

/-- Identically-zero gain and loss functions map every difference to 0, whatever `exp` is. -/
theorem zero_functions_map_every_difference_to_zero (exp : Rat → Rat) (loss gain : AFun Rat)
    (hl : AFun.isZero loss) (hg : AFun.isZero gain) (d : Rat) : mapDiff (AFun.eval exp) loss gain d = 0 :=
  mapDiff_zero exp loss gain hl hg d

/-! ### inline applier -/

/-- One criterion of the inline applier: the new value is `bound(v + range·mean)` and the reported
    difference is exactly new − old; other criteria are not touched by this step. -/
theorem inline_step_shifts_and_reports_new_minus_old {α : Type} [Num α] {b : Bounding α} {avg old : KMap α}
    {st st' : KMap α × KMap α} {cs : String × Scale α} (h : inlineStep b avg old st cs = .ok st') :
    ∃ mean v, avg.get? cs.1 = some mean ∧ old.get? cs.1 = some v ∧
      st'.1.get? cs.1 = some (cs.2.2 |> fun range => b.bound range (v + (range.2 - range.1) * mean)) ∧
      st'.2.get? cs.1 = some ((cs.2.2 |> fun range => b.bound range (v + (range.2 - range.1) * mean)) - v) ∧
      (∀ k, k ≠ cs.1 → st'.1.get? k = st.1.get? k ∧ st'.2.get? k = st.2.get? k) := by
  obtain ⟨m, v, h1, h2, h3, h4, h5⟩ := inlineStep_ok h
  exact ⟨m, v, h1, h2, h3, h4, h5⟩

/-- The inline applier for one alternative (criteria ids of the scaling distinct): every criterion is
    shifted to `bound(v + range·mean)` of its old value `v` and the arithmetic mean of its mapped
    differences over the reference points, and the reported applied difference is exactly new − old. -/
theorem inline_applier_shifts_every_criterion_and_reports_new_minus_old {α : Type} [Num α] {b : Bounding α}
    {sc : KMap (Scale α)} {p : AltDiffs α} {a' d' : Alt α}
    (h : inlineOne b sc p = .ok (a', d')) (hnd : (sc.map (·.1)).Nodup) :
    a'.id = p.1.id ∧ d'.id = p.1.id ∧
    ∃ avg, arithmeticAverage p.2 = .ok avg ∧
      ∀ cs ∈ sc, ∃ mean v, avg.get? cs.1 = some mean ∧ p.1.vals.get? cs.1 = some v ∧
        a'.vals.get? cs.1 = some (inlineValue b cs.2.2 v mean) ∧
        d'.vals.get? cs.1 = some (inlineValue b cs.2.2 v mean - v) := inlineOne_ok h hnd

/-- With a zero mean mapped difference (in particular for identically-zero gain and loss functions) the
    inline applier leaves the value as it is — up to the configured bounding of the old value itself;
    without bounding exactly unchanged. -/
theorem inline_zero_difference_leaves_value_unchanged (b : Bounding Rat) (range : Rat × Rat) (v : Rat) :
    inlineValue b range v 0 = b.bound range v ∧
    (¬ (0 : Rat) < b.scaling → b.nonNeg = false → inlineValue b range v 0 = v) :=
  ⟨inlineValue_zero b range v, inlineValue_zero_off b range v⟩

/-- Without bounding the inline shift is `v + (max − min)·mean`. -/
theorem inline_shift_without_bounding (b : Bounding Rat) (range : Rat × Rat) (v mean : Rat)
    (hs : ¬ (0 : Rat) < b.scaling) (hn : b.nonNeg = false) :
    inlineValue b range v mean = v + (range.2 - range.1) * mean := inlineValue_off b range v mean hs hn

/-! ### newCriterion applier -/

/-- One anchoring criterion per reference point: when the criterion of reference point number `ri` does
    not exist yet, exactly one criterion is appended — named `NotUsedName("__anchoring_criterion_" + refPoint)`,
    with the reference criterion's type and declared range, and an id no criterion had; afterwards it is
    reused for the remaining alternatives. -/
theorem new_criterion_applier_adds_one_criterion_per_reference_point {α : Type} [Num α] {ref : Crit α}
    {gens : List (Draws α)} {st st' : NCState α} {ri : Nat} {rp : String}
    (h : ncNewCriterion ref gens st ri rp = .ok st') :
    (st.added.length = ri →
      ∃ c : Crit α, st'.crits = st.crits ++ [c] ∧ c.type = ref.type ∧ c.range = ref.range ∧
        c.id = notUsedName (st.crits.map (·.id)) ("__anchoring_criterion_" ++ rp) ∧
        (∀ x ∈ st.crits, x.id ≠ c.id) ∧
        ∃ a : AddedAnch α, st'.added = st.added ++ [a] ∧ a.id = c.id ∧ a.type = c.type) ∧
    (ri < st.added.length → st' = st) := by
  constructor
  · intro hlen
    obtain ⟨c, h1, h2, h3, h4, h5, h6⟩ := ncNewCriterion_creates h hlen
    refine ⟨c, h1, h2, h3, h4, ?_, h6⟩
    intro x hx e
    have := h5 x hx
    simp [e] at this
  · exact ncNewCriterion_reuses h

/-- The importance weights used by the newCriterion applier (ascending ranking, shifted so that the
    smallest is at least the minimum allowed weight, divided by the total) are positive and sum to 1;
    the criteria and their order are unchanged. -/
theorem normalised_importance_is_positive_and_sums_to_one {m : Rat} {c0 : WCrit Rat}
    {rest out : List (WCrit Rat)} (hm : 0 < m) (hmin : ∀ c ∈ c0 :: rest, c0.w ≤ c.w)
    (h : normalizeWeights m (c0 :: rest) = .ok out) :
    (∀ c ∈ out, 0 < c.w) ∧ out.foldl (fun t c => t + c.w) 0 = 1 ∧
    out.map (·.crit) = (c0 :: rest).map (·.crit) := normalizeWeights_ok hm hmin h

/-- Value of an anchoring criterion: the reference range's mid-point plus half the range times the
    importance-weighted mapped difference (no bounding) … -/
theorem new_criterion_value_formula (b : Bounding Rat) (lo hi cv : Rat)
    (hs : ¬ (0 : Rat) < b.scaling) (hn : b.nonNeg = false) :
    ncValue b (lo, hi) cv = lo + (hi - lo) / 2 + (hi - lo) / 2 * cv := ncValue_off b lo hi cv hs hn

/-- … which stays inside the reference criterion's range when the weighted difference is in [−1, 1]. -/
theorem new_criterion_value_stays_in_range (b : Bounding Rat) (lo hi cv : Rat)
    (hs : ¬ (0 : Rat) < b.scaling) (hn : b.nonNeg = false) (hr : lo ≤ hi) (h0 : -1 ≤ cv) (h1 : cv ≤ 1) :
    lo ≤ ncValue b (lo, hi) cv ∧ ncValue b (lo, hi) cv ≤ hi := ncValue_in_range b lo hi cv hs hn hr h0 h1

/-- With a positive `allowedValuesRangeScaling` both appliers' values lie in the allowed range. -/
theorem bounded_values_lie_in_the_allowed_range (b : Bounding Rat) (range : Rat × Rat) (x : Rat)
    (hs : (0 : Rat) < b.scaling) (hr : (allowedRange b range).1 ≤ (allowedRange b range).2) :
    (allowedRange b range).1 ≤ b.bound range x ∧ b.bound range x ≤ (allowedRange b range).2 :=
  bound_in_allowed b range x hs hr

/-! ### parsing -/

/-- A JSON-decoded request that omits `coefficient` gets coefficient 0 (not 1): the fallback loop of
    `checkAnchoringAlternatives` assigns to a copy.  Only the typed form defaults to 1. -/
theorem missing_coefficient_stays_zero_for_json_props {α : Type} [Num α] (p : AnchProps α) (i : String)
    (hp : p.alts = [(i, none)]) :
    anchoringAlternatives p = .ok [(i, if p.typed then Num.one else Num.zero)] := by
  unfold anchoringAlternatives
  simp [hp, pure, Except.pure]

/-- no anchoring alternatives: rejected -/
theorem no_anchoring_alternatives_is_rejected {α : Type} [Num α] (p : AnchProps α) (hp : p.alts = []) :
    ∃ e, anchoringAlternatives p = .error e := by
  unfold anchoringAlternatives
  simp [hp, throw, throwThe, MonadExceptOf.throw]

end Rdm.Props.C19
