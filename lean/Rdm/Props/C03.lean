/-
  C03 — utility methods report the value of their defining formula.
-/
import Rdm.Model.Utility
import Rdm.Spec.C03
import Rdm.Lemmas.NumRat
namespace Rdm.Props.C03
open Rdm

def cexAlt : Alt Rat := ⟨"a", [("c", 200), ("g", 10)]⟩
def cexWeights : List (WCrit Rat) := [⟨⟨"c", "cost", none⟩, 1⟩, ⟨⟨"g", "gain", none⟩, 2⟩]

/-- The code's weighted sum does NOT multiply by the weight: with weights (1, 2) on a cost criterion
    valued 200 and a gain criterion valued 10 the model (= the code, by correspondence) yields −190
    while the defining formula yields −180.  (Known finding KF-C03-ws-ignores-weights.) -/
theorem ws_counterexample :
    (weightedSum cexAlt cexWeights).toOption = some (-190) ∧ Spec.C03.wsSpec cexAlt cexWeights = some (-180) := by
  decide +kernel

end Rdm.Props.C03
