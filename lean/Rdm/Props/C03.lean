/-
  C03 — utility methods report the value of their defining formula.
  Property theorems only; helper lemmas live in Rdm/Lemmas/Utility*.lean and Rdm/Lemmas/RankingRound.lean.
  Arithmetic facts are over the `Rat` instance of the model.
-/
import Rdm.Model.Utility
import Rdm.Spec.C03
import Rdm.Lemmas.NumRat
import Rdm.Lemmas.RankingRound
import Rdm.Lemmas.UtilityWs
import Rdm.Lemmas.UtilityOwa
import Rdm.Lemmas.UtilityKeys
import Rdm.Lemmas.UtilityParse
import Rdm.Lemmas.UtilityChoquet
import Rdm.Lemmas.UtilityCapacities
import Rdm.Lemmas.E2EDecide
import Rdm.Lemmas.E2EUtility
import Rdm.Lemmas.E2EExamples
namespace Rdm.Props.C03
open Rdm

/-! ### weighted sum -/

def cexAlt : Alt Rat := ⟨"a", [("c", 200), ("g", 10)]⟩
def cexWeights : List (WCrit Rat) := [⟨⟨"c", "cost", none⟩, 1⟩, ⟨⟨"g", "gain", none⟩, 2⟩]

/-- The code's weighted sum does NOT multiply by the weight: with weights (1, 2) on a cost criterion
    valued 200 and a gain criterion valued 10 the model (= the code, by correspondence) yields −190
    while the defining formula yields −180.  (Known finding KF-C03-ws-ignores-weights.) -/
theorem ws_counterexample :
    (weightedSum cexAlt cexWeights).toOption = some (-190) ∧ Spec.C03.wsSpec cexAlt cexWeights = some (-180) := by
  decide +kernel

/- Full statement (FALSE for the code, see `ws_counterexample`):
     theorem ws_value (a : Alt Rat) (wc : List (WCrit Rat)) :
       (weightedSum a wc).toOption = Spec.C03.wsSpec a wc
   What holds instead: -/

/-- the model's weighted sum is the plain sum of the signed criterion values (weights unused), for every
    number type; it fails exactly when a value is missing -/
theorem ws_value_partial {α : Type} [Num α] (a : Alt α) (wc : List (WCrit α)) :
    weightedSum a wc
      = (wc.mapM fun c => a.signed c.crit).map (fun vs => vs.foldl (· + ·) Num.zero) :=
  foldlM_signed a wc Num.zero

/-- … which is the defining formula Σ w·(±v) whenever every weight is 1 -/
theorem ws_value_unit_weights_partial (a : Alt Rat) (wc : List (WCrit Rat)) (hw : ∀ c ∈ wc, c.w = 1) :
    (weightedSum a wc).toOption = Spec.C03.wsSpec a wc :=
  ws_foldlM_spec a wc hw 0

example : (weightedSum cexAlt [⟨⟨"c", "cost", none⟩, 1⟩, ⟨⟨"g", "gain", none⟩, 1⟩]).toOption
    = Spec.C03.wsSpec cexAlt [⟨⟨"c", "cost", none⟩, 1⟩, ⟨⟨"g", "gain", none⟩, 1⟩] :=
  ws_value_unit_weights_partial _ _ (by decide)

/-! ### OWA -/

/-- OWA = Σ ascending weights × ascending values, whenever the alternative has as many values as there
    are weights (otherwise the code panics and the model returns an error) -/
theorem owa_eq_spec (a : Alt Rat) (wc : List (WCrit Rat)) (h : a.vals.length = wc.length) :
    owa a wc = .ok (Spec.C03.owaSpec (a.vals.map (·.2)) (wc.map (·.w))) :=
  owa_eq_owaSpec a wc h

example : owa cexAlt cexWeights = .ok (Spec.C03.owaSpec [200, 10] [1, 2]) := owa_eq_spec _ _ rfl

/-- OWA depends neither on the order of the alternative's value map (Go map iteration order) nor on the
    order of the weights list: permuting either leaves the result (value or error) unchanged -/
theorem owa_perm_invariant (a a' : Alt Rat) (wc wc' : List (WCrit Rat))
    (hv : a.vals.Perm a'.vals) (hw : wc.Perm wc') : owa a wc = owa a' wc' :=
  owa_perm_eq a a' wc wc' hv hw

/-! ### Choquet integral: parsing -/

/-- capacity keys are canonical: `"b,a"` and `"a,b"` (any permutation of the ids) give the same key -/
theorem criterionKey_perm {l₁ l₂ : List String} (h : l₁.Perm l₂) : criterionKey l₁ = criterionKey l₂ :=
  criterionKey_perm_eq h

/-- `parse` accepts gain criteria only -/
theorem choquetParse_gain_only {α : Type} [Num α] (crits : List (Crit α)) (w r : KMap α)
    (h : choquetParse crits w = .ok r) : ∀ c ∈ crits, c.type = "gain" :=
  (choquetParse_ok crits w r h).1

/-- `parse` accepts only capacities in [0,1] -/
theorem choquetParse_range (crits : List (Crit Rat)) (w r : KMap Rat)
    (h : choquetParse crits w = .ok r) : ∀ kv ∈ r, 0 ≤ kv.2 ∧ kv.2 ≤ 1 := by
  intro kv hkv
  obtain ⟨_, h1, h2⟩ := (choquetParse_ok crits w r h).2.1 kv hkv
  exact ⟨Rat.not_lt.mp h1, Rat.not_lt.mp h2⟩

/-- the parsed table is the input re-keyed canonically, without two entries for the same set, made of
    declared criteria only, and it holds a capacity for every non-empty subset of the criteria -/
theorem choquetParse_canonical {α : Type} [Num α] (crits : List (Crit α)) (w r : KMap α)
    (h : choquetParse crits w = .ok r) :
    r = canonTable w ∧ r.keys.Nodup ∧
    (∀ kv ∈ r, ∀ p ∈ splitKey kv.1, p ∈ crits.map (·.id)) ∧
    (∀ s ∈ powerSet (crits.map (·.id)), ∃ v, r.get? (criterionKey s) = some v) := by
  obtain ⟨_, h2, h3, h4, h5⟩ := choquetParse_ok crits w r h
  refine ⟨h4, h5, ?_, h3⟩
  intro kv hkv p hp
  have := (h2 kv hkv).1
  rw [List.all_eq_true] at this
  simpa using this p hp

/-- `PowerSet` really is the set of all non-empty subsets (as sub-lists in declaration order) -/
theorem powerSet_complete (l s : List String) (hne : s ≠ []) (h : s.Sublist l) : s ∈ powerSet l :=
  mem_powerSet_of_sublist l s hne h

/-! ### Choquet integral: value -/

/-- in general (values within `eps` of the first value of a run are tied with it — the oracle the property
    prescribes) the model's value is the spec's grouped textbook sum; a missing capacity is an error on
    both sides -/
theorem choquet_eq_spec (eps : Rat) (a : Alt Rat) (w : KMap Rat) :
    (choquetValue eps a w).toOption = Spec.C03.choquetSpec eps a w :=
  choquetValue_eq_spec eps a w

/-- when the values are pairwise either exactly equal or more than `eps` apart and every capacity of a
    tail set {(k),…,(n)} is present, the value is the ungrouped textbook sum
    Σ_k (v_(k) − v_(k−1)) · μ({(k),…,(n)}), v_(0) = 0 (this covers the all-distinct case) -/
theorem choquet_eq_textbook_of_capacities (eps : Rat) (a : Alt Rat) (w : KMap Rat)
    (hties : ∀ x ∈ a.vals, ∀ y ∈ a.vals, Spec.C03.rabs (x.2 - y.2) ≤ eps → x.2 = y.2)
    (hfull : ∀ n < (ascendingVals a).length,
      (w.get? (criterionKey (((ascendingVals a).drop n).map (·.1)))).isSome = true) :
    (choquetValue eps a w).toOption = choquetTextbook (fun s => w.get? (criterionKey s)) (ascendingVals a) 0 := by
  have hmem : ∀ x, x ∈ ascendingVals a → x ∈ a.vals := fun x hx => (List.mergeSort_perm _ _).mem_iff.mp hx
  rw [choquetValue_eq_spec]
  unfold Spec.C03.choquetSpec
  have hmu : (fun s => w.get? (Spec.C03.canonKey s)) = (fun s => w.get? (criterionKey s)) := by
    funext s; rw [spec_canonKey_eq]
  rw [hmu]
  exact choquetSpecAux_eq_textbook eps _ _ (ascendingVals a) 0 (Nat.lt_succ_self _)
    (fun x hx y hy => hties x (hmem x hx) y (hmem y hy))
    (fun s hs hne => by
      have hlen := hs.length_le
      have hpos : 0 < s.length := List.length_pos_iff.mpr hne
      rw [List.suffix_iff_eq_drop.mp hs]
      exact hfull _ (by omega))

def exAlt : Alt Rat := ⟨"a", [("g1", 1), ("g2", 3), ("g3", 3)]⟩
def exCap : KMap Rat :=
  [("g1", 1/4), ("g2", 1/2), ("g3", 1/4), ("g1,g2", 3/4), ("g1,g3", 1/2), ("g2,g3", 3/4), ("g1,g2,g3", 1)]

/-- hypotheses satisfiable on a non-trivial input: three criteria, one exact tie, full capacity table -/
example : (choquetValue (1/100000) exAlt exCap).toOption
    = choquetTextbook (fun s => exCap.get? (criterionKey s)) (ascendingVals exAlt) 0 := by
  have hasc : ascendingVals exAlt = exAlt.vals := List.mergeSort_of_pairwise (by decide +kernel)
  refine choquet_eq_textbook_of_capacities _ exAlt exCap (by decide +kernel) ?_
  rw [hasc]
  decide +kernel

/-- **Choquet = textbook after parsing**: if `parse` accepted the capacities for duplicate-free criteria and
    the alternative is valued on declared criteria (each once), with values pairwise exactly equal or more
    than `eps` apart, then the value exists and is the textbook Choquet integral -/
theorem choquet_eq_textbook (eps : Rat) (crits : List (Crit Rat)) (w r : KMap Rat) (a : Alt Rat)
    (hparse : choquetParse crits w = .ok r) (hn : (crits.map (·.id)).Nodup)
    (hk : (a.vals.map (·.1)).Nodup) (hsub : ∀ k ∈ a.vals.map (·.1), k ∈ crits.map (·.id))
    (hties : ∀ x ∈ a.vals, ∀ y ∈ a.vals, Spec.C03.rabs (x.2 - y.2) ≤ eps → x.2 = y.2) :
    (choquetValue eps a r).toOption = choquetTextbook (fun s => r.get? (criterionKey s)) (ascendingVals a) 0 ∧
    ((choquetValue eps a r).toOption).isSome = true :=
  choquetValue_eq_textbook eps crits w r a hparse hn hk hsub hties

/- `String.splitOn` does not reduce in the kernel, so a concrete non-empty `hparse` cannot be produced by
   evaluation inside a proof; the driver evaluates e.g.
   `choquetParse [g1, g2] [("g1",1/4), ("g2,g1",1), ("g2",1/2)] = ok [("g1",1/4), ("g1,g2",1), ("g2",1/2)]`.
   The degenerate instance shows the hypotheses are consistent: -/
example : (choquetValue (1/100000) (⟨"a", []⟩ : Alt Rat) []).toOption
      = choquetTextbook (fun s => KMap.get? ([] : KMap Rat) (criterionKey s)) (ascendingVals ⟨"a", []⟩) 0 ∧
    ((choquetValue (1/100000) (⟨"a", []⟩ : Alt Rat) []).toOption).isSome = true :=
  choquet_eq_textbook (1/100000) [] [] [] ⟨"a", []⟩ rfl (by simp) (by simp) (by simp) (by simp)

/-! ### rounding -/

/-- the 1e-8 rounding the API applies moves the reported value by at most 5·10⁻⁹ -/
theorem rounding_error (x : Rat) : |round8 x - x| ≤ 1 / (2 * 10 ^ 8) := round8_error x


/-- the constants this property depends on were re-read from the working tree on this run (none of
    them fell back to its pinned value because its declaration could not be located) -/
theorem facts_fresh : (Facts.staleFacts.all fun n => !["choquetEps", "roundPrecision", "criteriaSeparator", "critGain", "paramWeights"].contains n) = true := by decide

/-! ## END TO END: the whole `MakeDecision` (model `decideWith` / `Rdm.decide` of Model/Decide.lean)

"With and without preceding biases (the value must be the aggregate of the post-bias values and post-bias
parameters)": for every request, bias list and stream function, the value reported for an alternative is the
1e-8 rounding (`round8`, within 5·10⁻⁹ of its argument by `rounding_error`) of the method's defining formula
evaluated on the values that alternative has in the state that reached `Evaluate` (`resp.final.co`) with the
parameters of that state (`resp.final.mp`) — both as the biases left them.  Every entry of `result` is such an
alternative and every considered alternative has such an entry (with `choseToMake` distinct: exactly one, by
`Props.C01.decideWith_wellformed`).  Helper lemmas: `Rdm/Lemmas/E2EDecide.lean`, `Rdm/Lemmas/E2EUtility.lean`. -/

/-- **OWA, end to end**: the parameters that reach `Evaluate` are OWA weights `wc`; every reported value is
    `round8 (Σ ascending weights × ascending values)` of a considered alternative of the final state (which
    then has as many values as there are weights), and every considered alternative is reported so -/
theorem decideWith_owa_value (exp : Rat → Rat) (aspOrder : List (WCrit Rat) → List (WCrit Rat))
    (req : Request Rat) (g : Int → Draws Rat) (resp : Response Rat) (wc₀ : List (WCrit Rat))
    (h : decideWith exp aspOrder req g = .ok resp) (hmp : req.mp = some (.owa wc₀)) :
    ∃ wc, resp.final.mp = .owa wc ∧
      (∀ e ∈ resp.result, ∃ a ∈ resp.final.co, a.id = e.id ∧ a.vals.length = wc.length ∧
        e.ev = .util (round8 (Spec.C03.owaSpec (a.vals.map (·.2)) (wc.map (·.w))))) ∧
      (∀ a ∈ resp.final.co, ∃ e ∈ resp.result, e.id = a.id ∧
        e.ev = .util (round8 (Spec.C03.owaSpec (a.vals.map (·.2)) (wc.map (·.w))))) := by
  obtain ⟨htag, _, scored, hs, hres⟩ := e2e_decideWith_utility h hmp rfl
  obtain ⟨wc, hwc⟩ := e2eTag_owa htag
  obtain ⟨v1, v2⟩ := e2e_utility_values hs hres
  have key : ∀ (a : Alt Rat) (v : Rat), utilityValueOf resp.final.mp a = .ok v →
      a.vals.length = wc.length ∧ v = Spec.C03.owaSpec (a.vals.map (·.2)) (wc.map (·.w)) := by
    intro a v hv
    rw [hwc] at hv
    have hlen : a.vals.length = wc.length := by
      by_contra hne
      simp [utilityValueOf, owa, hne, throw, throwThe, MonadExceptOf.throw] at hv
    refine ⟨hlen, ?_⟩
    have := owa_eq_spec a wc hlen
    simp only [utilityValueOf] at hv
    rw [this] at hv
    exact (Except.ok.inj hv).symm
  refine ⟨wc, hwc, ?_, ?_⟩
  · intro e he
    obtain ⟨a, ha, v, hid, hv, hev⟩ := v1 e he
    obtain ⟨hl, rfl⟩ := key a v hv
    exact ⟨a, ha, hid, hl, hev⟩
  · intro a ha
    obtain ⟨v, hv, e, he, hid, hev⟩ := v2 a ha
    obtain ⟨_, rfl⟩ := key a v hv
    exact ⟨e, he, hid, hev⟩

/-- **Choquet integral, end to end**: the parameters that reach `Evaluate` are a capacity table `w`; every
    reported value is `round8` of the specification's grouped textbook sum `Spec.C03.choquetSpec` (values within
    the code's tolerance of the first value of a run are tied with it — the oracle the property prescribes) of a
    considered alternative of the final state, all capacities it needs being present; and every considered
    alternative is reported so.  (Ungrouped textbook form: `choquet_eq_textbook_of_capacities`.) -/
theorem decideWith_choquet_value (exp : Rat → Rat) (aspOrder : List (WCrit Rat) → List (WCrit Rat))
    (req : Request Rat) (g : Int → Draws Rat) (resp : Response Rat) (w₀ : KMap Rat) (cs₀ : List (Crit Rat))
    (h : decideWith exp aspOrder req g = .ok resp) (hmp : req.mp = some (.choquet w₀ cs₀)) :
    ∃ w cs, resp.final.mp = .choquet w cs ∧
      (∀ e ∈ resp.result, ∃ a ∈ resp.final.co, a.id = e.id ∧
        ∃ v, Spec.C03.choquetSpec choquetEpsOf a w = some v ∧ e.ev = .util (round8 v)) ∧
      (∀ a ∈ resp.final.co, ∃ v, Spec.C03.choquetSpec choquetEpsOf a w = some v ∧
        ∃ e ∈ resp.result, e.id = a.id ∧ e.ev = .util (round8 v)) := by
  obtain ⟨htag, _, scored, hs, hres⟩ := e2e_decideWith_utility h hmp rfl
  obtain ⟨w, cs, hw⟩ := e2eTag_choquet htag
  obtain ⟨v1, v2⟩ := e2e_utility_values hs hres
  have key : ∀ (a : Alt Rat) (v : Rat), utilityValueOf resp.final.mp a = .ok v →
      Spec.C03.choquetSpec choquetEpsOf a w = some v := by
    intro a v hv
    rw [hw] at hv
    simp only [utilityValueOf] at hv
    rw [← choquet_eq_spec, hv]; rfl
  refine ⟨w, cs, hw, ?_, ?_⟩
  · intro e he
    obtain ⟨a, ha, v, hid, hv, hev⟩ := v1 e he
    exact ⟨a, ha, hid, v, key a v hv, hev⟩
  · intro a ha
    obtain ⟨v, hv, e, he, hid, hev⟩ := v2 a ha
    exact ⟨v, key a v hv, e, he, hid, hev⟩

/- Full statement for the weighted sum (FALSE for the code — registered finding KF-C03-ws-ignores-weights, see
   `ws_counterexample`): with `resp.final.mp = .ws wc`, every entry of `resp.result` is
     `.util (round8 v)` with `Spec.C03.wsSpec a wc = some v` (Σ weight × signed value)
   for a considered alternative `a` of the final state.  What the code computes instead: -/

/-- **weighted sum, end to end — what the code reports**: the parameters that reach `Evaluate` are weighted
    criteria `wc`; every reported value is `round8` of the plain sum of the signed values (value negated for
    cost criteria) the alternative has on the criteria of `wc` in the final state — the weights are not used —;
    every considered alternative is reported so; and this IS the defining formula `Spec.C03.wsSpec` whenever
    every weight of the final parameters is 1.  Holds for any biases: e.g. a criterion added by concealment
    enters with the weight the listener merged into `wc`, and is summed unweighted like the others. -/
theorem decideWith_ws_value_partial (exp : Rat → Rat) (aspOrder : List (WCrit Rat) → List (WCrit Rat))
    (req : Request Rat) (g : Int → Draws Rat) (resp : Response Rat) (wc₀ : List (WCrit Rat))
    (h : decideWith exp aspOrder req g = .ok resp) (hmp : req.mp = some (.ws wc₀)) :
    ∃ wc, resp.final.mp = .ws wc ∧
      (∀ e ∈ resp.result, ∃ a ∈ resp.final.co, a.id = e.id ∧
        ∃ vs, (wc.mapM fun c => a.signed c.crit) = .ok vs ∧ e.ev = .util (round8 (vs.foldl (· + ·) 0)) ∧
          ((∀ c ∈ wc, c.w = 1) → Spec.C03.wsSpec a wc = some (vs.foldl (· + ·) 0))) ∧
      (∀ a ∈ resp.final.co, ∃ vs, (wc.mapM fun c => a.signed c.crit) = .ok vs ∧
        ∃ e ∈ resp.result, e.id = a.id ∧ e.ev = .util (round8 (vs.foldl (· + ·) 0))) := by
  obtain ⟨htag, _, scored, hs, hres⟩ := e2e_decideWith_utility h hmp rfl
  obtain ⟨wc, hwc⟩ := e2eTag_ws htag
  obtain ⟨v1, v2⟩ := e2e_utility_values hs hres
  have key : ∀ (a : Alt Rat) (v : Rat), utilityValueOf resp.final.mp a = .ok v →
      ∃ vs, (wc.mapM fun c => a.signed c.crit) = .ok vs ∧ v = vs.foldl (· + ·) 0 ∧
        ((∀ c ∈ wc, c.w = 1) → Spec.C03.wsSpec a wc = some v) := by
    intro a v hv
    rw [hwc] at hv
    simp only [utilityValueOf] at hv
    have hunit : (∀ c ∈ wc, c.w = 1) → Spec.C03.wsSpec a wc = some v := by
      intro hw
      rw [← ws_value_unit_weights_partial a wc hw, hv]; rfl
    rw [ws_value_partial] at hv
    cases hm : (wc.mapM fun c => a.signed c.crit) with
    | error e => rw [hm] at hv; cases hv
    | ok vs =>
      rw [hm] at hv
      exact ⟨vs, rfl, (Except.ok.inj hv).symm, hunit⟩
  refine ⟨wc, hwc, ?_, ?_⟩
  · intro e he
    obtain ⟨a, ha, v, hid, hv, hev⟩ := v1 e he
    obtain ⟨vs, hvs, rfl, hu⟩ := key a v hv
    exact ⟨a, ha, hid, vs, hvs, hev, hu⟩
  · intro a ha
    obtain ⟨v, hv, e, he, hid, hev⟩ := v2 a ha
    obtain ⟨vs, hvs, rfl, _⟩ := key a v hv
    exact ⟨vs, hvs, e, he, hid, hev⟩

/-- the three theorems for `Rdm.decide` are the instances `aspOrder := sortCriteriaDesc`, `g := genOf seeds`;
    e.g. OWA: -/
theorem decide_owa_value (exp : Rat → Rat) (req : Request Rat) (seeds : Seeds Rat) (resp : Response Rat)
    (wc₀ : List (WCrit Rat)) (h : Rdm.decide exp req seeds = .ok resp) (hmp : req.mp = some (.owa wc₀)) :
    ∃ wc, resp.final.mp = .owa wc ∧
      ∀ e ∈ resp.result, ∃ a ∈ resp.final.co, a.id = e.id ∧
        e.ev = .util (round8 (Spec.C03.owaSpec (a.vals.map (·.2)) (wc.map (·.w)))) := by
  obtain ⟨wc, hwc, h1, _⟩ := decideWith_owa_value exp _ req _ resp wc₀ h hmp
  exact ⟨wc, hwc, fun e he => by obtain ⟨a, ha, hid, _, hev⟩ := h1 e he; exact ⟨a, ha, hid, hev⟩⟩

/-- hypotheses satisfiable, OWA: four known alternatives, three to choose from, a fatigue that fires (so the
    values the formula is evaluated on are NOT those of the request), a reversal that does not, a disabled
    entry: the model answers, and each of the three entries reports the OWA of the post-bias values -/
example : ∃ resp wc, Rdm.decide id e2eExOwa e2eExSeeds = .ok resp ∧ resp.final.mp = .owa wc ∧
    resp.result.length = 3 ∧
    ∀ e ∈ resp.result, ∃ a ∈ resp.final.co, a.id = e.id ∧
      e.ev = .util (round8 (Spec.C03.owaSpec (a.vals.map (·.2)) (wc.map (·.w)))) := by
  obtain ⟨resp, h⟩ := e2e_ok_of_isOk (x := Rdm.decide id e2eExOwa e2eExSeeds) (by decide +kernel)
  obtain ⟨wc, hwc, h1⟩ := decide_owa_value _ _ _ _ _ h rfl
  obtain ⟨_, hco, scored, hs, hres⟩ := e2e_decideWith_utility h rfl rfl
  refine ⟨resp, wc, h, hwc, ?_, h1⟩
  have hl : scored.length = 3 := by
    have := congrArg List.length ((e2e_scored_ok hs).2.2.trans hco)
    rw [List.length_map] at this
    exact this
  have hperm := (e2e_ranking_wf (fun _ => Rat.lt_irrefl) scored (by
    rw [(e2e_scored_ok hs).2.2, hco]; decide)).1.length_eq
  rw [hres]
  simpa [hl] using hperm

/-- … weighted sum (same biases) -/
example : ∃ resp wc, Rdm.decide id e2eExWs e2eExSeeds = .ok resp ∧ resp.final.mp = .ws wc ∧
    ∀ e ∈ resp.result, ∃ a ∈ resp.final.co, a.id = e.id ∧
      ∃ vs, (wc.mapM fun c => a.signed c.crit) = .ok vs ∧ e.ev = .util (round8 (vs.foldl (· + ·) 0)) := by
  obtain ⟨resp, h⟩ := e2e_ok_of_isOk (x := Rdm.decide id e2eExWs e2eExSeeds) (by decide +kernel)
  obtain ⟨wc, hwc, h1, _⟩ := decideWith_ws_value_partial _ _ _ _ _ _ h rfl
  exact ⟨resp, wc, h, hwc, fun e he => by
    obtain ⟨a, ha, hid, vs, hvs, hev, _⟩ := h1 e he; exact ⟨a, ha, hid, vs, hvs, hev⟩⟩

/-- … Choquet integral: a constructed instance (see `e2eExChoquet`: the integral is not evaluable by
    `decide +kernel`).  Two gain criteria with the full capacity table, three alternatives to choose from, one
    of them with two equal values; the model answers for every seed table, and each entry reports the
    specification's Choquet integral of its alternative -/
example (seeds : Seeds Rat) : ∃ resp w cs, Rdm.decide id e2eExChoquet seeds = .ok resp ∧
    resp.final.mp = .choquet w cs ∧
    ∀ e ∈ resp.result, ∃ a ∈ resp.final.co, a.id = e.id ∧
      ∃ v, Spec.C03.choquetSpec choquetEpsOf a w = some v ∧ e.ev = .util (round8 v) := by
  have hp : pipeline id e2eExChoquet (genOf seeds) = .ok (e2eExChoquetFin, []) := rfl
  have hval : ∀ a ∈ e2eExChoquetFin.co, (choquetValue choquetEpsOf a e2eExCap).isOk = true := by
    intro a ha
    have hasc : ascendingVals a = a.vals := by
      have : ∀ a ∈ e2eExChoquetFin.co, a.vals.Pairwise (fun x y => decide (x.2 ≤ y.2) = true) := by
        decide +kernel
      exact List.mergeSort_of_pairwise (this a ha)
    have hties : ∀ a ∈ e2eExChoquetFin.co, ∀ x ∈ a.vals, ∀ y ∈ a.vals,
        Spec.C03.rabs (x.2 - y.2) ≤ (choquetEpsOf : Rat) → x.2 = y.2 := by decide +kernel
    have hfull : ∀ a ∈ e2eExChoquetFin.co, ∀ n < a.vals.length,
        (e2eExCap.get? (criterionKey ((a.vals.drop n).map (·.1)))).isSome = true := by decide +kernel
    have hs : ∀ a ∈ e2eExChoquetFin.co,
        (choquetTextbook (fun s => e2eExCap.get? (criterionKey s)) a.vals 0).isSome = true := by
      decide +kernel
    have := choquet_eq_textbook_of_capacities choquetEpsOf a e2eExCap (hties a ha)
      (by rw [hasc]; exact hfull a ha)
    rw [hasc] at this
    have h2 := hs a ha
    rw [← this] at h2
    cases hc : choquetValue choquetEpsOf a e2eExCap with
    | ok v => rfl
    | error e => rw [hc] at h2; cases h2
  have hsc : (e2eScored e2eExChoquetFin).isOk = true := by
    apply e2e_mapM_isOk
    intro a ha
    obtain ⟨v, hv⟩ := e2e_ok_of_isOk (hval a ha)
    show (utilityValueOf e2eExChoquetFin.mp a >>= fun v => pure (⟨a.id, v⟩ : Scored Rat)).isOk = true
    have : utilityValueOf e2eExChoquetFin.mp a = choquetValue choquetEpsOf a e2eExCap := rfl
    rw [this, hv]; rfl
  obtain ⟨scored, hs⟩ := e2e_ok_of_isOk hsc
  have he : evaluateWith sortCriteriaDesc (genOf seeds) e2eExChoquetFin
      = .ok ((ranking scored).map e2eOfRankEntry) := by
    show (utilityEvaluate e2eExChoquetFin >>= fun r =>
      pure (r.map fun e => (⟨e.id, .util e.v, e.links⟩ : Linked (Eval Rat)))) = _
    rw [e2e_utilityEvaluate_eq, hs]; rfl
  have h : Rdm.decide id e2eExChoquet seeds = .ok ⟨_, [], e2eExChoquetFin⟩ := e2e_decideWith_of hp he
  obtain ⟨w, cs, hw, h1, _⟩ := decideWith_choquet_value _ _ _ _ _ _ _ h rfl
  exact ⟨_, w, cs, h, hw, h1⟩

end Rdm.Props.C03
