/- C03 — property theorems (stub; filled in by the owning work package). -/
import Rdm.Basic
namespace Rdm.Props.C03
end Rdm.Props.C03
