/-
  C03 — utility methods report the value of their defining formula.
  Property theorems only; helper lemmas live in Rdm/Lemmas/Utility*.lean and Rdm/Lemmas/RankingRound.lean.
  Arithmetic facts are over the `Rat` instance of the model.
-/
import Rdm.Model.Utility
import Rdm.Spec.C03
import Rdm.Lemmas.NumRat
import Rdm.Lemmas.RankingRound
import Rdm.Lemmas.UtilityWs
import Rdm.Lemmas.UtilityOwa
import Rdm.Lemmas.UtilityKeys
import Rdm.Lemmas.UtilityParse
import Rdm.Lemmas.UtilityChoquet
import Rdm.Lemmas.UtilityCapacities
namespace Rdm.Props.C03
open Rdm

/-! ### weighted sum -/

def cexAlt : Alt Rat := ⟨"a", [("c", 200), ("g", 10)]⟩
def cexWeights : List (WCrit Rat) := [⟨⟨"c", "cost", none⟩, 1⟩, ⟨⟨"g", "gain", none⟩, 2⟩]

/-- The code's weighted sum does NOT multiply by the weight: with weights (1, 2) on a cost criterion
    valued 200 and a gain criterion valued 10 the model (= the code, by correspondence) yields −190
    while the defining formula yields −180.  (Known finding KF-C03-ws-ignores-weights.) -/
theorem ws_counterexample :
    (weightedSum cexAlt cexWeights).toOption = some (-190) ∧ Spec.C03.wsSpec cexAlt cexWeights = some (-180) := by
  decide +kernel

/- Full statement (FALSE for the code, see `ws_counterexample`):
     theorem ws_value (a : Alt Rat) (wc : List (WCrit Rat)) :
       (weightedSum a wc).toOption = Spec.C03.wsSpec a wc
   What holds instead: -/

/-- the model's weighted sum is the plain sum of the signed criterion values (weights unused), for every
    number type; it fails exactly when a value is missing -/
theorem ws_value_partial {α : Type} [Num α] (a : Alt α) (wc : List (WCrit α)) :
    weightedSum a wc
      = (wc.mapM fun c => a.signed c.crit).map (fun vs => vs.foldl (· + ·) Num.zero) :=
  foldlM_signed a wc Num.zero

/-- … which is the defining formula Σ w·(±v) whenever every weight is 1 -/
theorem ws_value_unit_weights_partial (a : Alt Rat) (wc : List (WCrit Rat)) (hw : ∀ c ∈ wc, c.w = 1) :
    (weightedSum a wc).toOption = Spec.C03.wsSpec a wc :=
  ws_foldlM_spec a wc hw 0

example : (weightedSum cexAlt [⟨⟨"c", "cost", none⟩, 1⟩, ⟨⟨"g", "gain", none⟩, 1⟩]).toOption
    = Spec.C03.wsSpec cexAlt [⟨⟨"c", "cost", none⟩, 1⟩, ⟨⟨"g", "gain", none⟩, 1⟩] :=
  ws_value_unit_weights_partial _ _ (by decide)

/-! ### OWA -/

/-- OWA = Σ ascending weights × ascending values, whenever the alternative has as many values as there
    are weights (otherwise the code panics and the model returns an error) -/
theorem owa_eq_spec (a : Alt Rat) (wc : List (WCrit Rat)) (h : a.vals.length = wc.length) :
    owa a wc = .ok (Spec.C03.owaSpec (a.vals.map (·.2)) (wc.map (·.w))) :=
  owa_eq_owaSpec a wc h

example : owa cexAlt cexWeights = .ok (Spec.C03.owaSpec [200, 10] [1, 2]) := owa_eq_spec _ _ rfl

/-- OWA depends neither on the order of the alternative's value map (Go map iteration order) nor on the
    order of the weights list: permuting either leaves the result (value or error) unchanged -/
theorem owa_perm_invariant (a a' : Alt Rat) (wc wc' : List (WCrit Rat))
    (hv : a.vals.Perm a'.vals) (hw : wc.Perm wc') : owa a wc = owa a' wc' :=
  owa_perm_eq a a' wc wc' hv hw

/-! ### Choquet integral: parsing -/

/-- capacity keys are canonical: `"b,a"` and `"a,b"` (any permutation of the ids) give the same key -/
theorem criterionKey_perm {l₁ l₂ : List String} (h : l₁.Perm l₂) : criterionKey l₁ = criterionKey l₂ :=
  criterionKey_perm_eq h

/-- `parse` accepts gain criteria only -/
theorem choquetParse_gain_only {α : Type} [Num α] (crits : List (Crit α)) (w r : KMap α)
    (h : choquetParse crits w = .ok r) : ∀ c ∈ crits, c.type = "gain" :=
  (choquetParse_ok crits w r h).1

/-- `parse` accepts only capacities in [0,1] -/
theorem choquetParse_range (crits : List (Crit Rat)) (w r : KMap Rat)
    (h : choquetParse crits w = .ok r) : ∀ kv ∈ r, 0 ≤ kv.2 ∧ kv.2 ≤ 1 := by
  intro kv hkv
  obtain ⟨_, h1, h2⟩ := (choquetParse_ok crits w r h).2.1 kv hkv
  exact ⟨Rat.not_lt.mp h1, Rat.not_lt.mp h2⟩

/-- the parsed table is the input re-keyed canonically, without two entries for the same set, made of
    declared criteria only, and it holds a capacity for every non-empty subset of the criteria -/
theorem choquetParse_canonical {α : Type} [Num α] (crits : List (Crit α)) (w r : KMap α)
    (h : choquetParse crits w = .ok r) :
    r = canonTable w ∧ r.keys.Nodup ∧
    (∀ kv ∈ r, ∀ p ∈ splitKey kv.1, p ∈ crits.map (·.id)) ∧
    (∀ s ∈ powerSet (crits.map (·.id)), ∃ v, r.get? (criterionKey s) = some v) := by
  obtain ⟨_, h2, h3, h4, h5⟩ := choquetParse_ok crits w r h
  refine ⟨h4, h5, ?_, h3⟩
  intro kv hkv p hp
  have := (h2 kv hkv).1
  rw [List.all_eq_true] at this
  simpa using this p hp

/-- `PowerSet` really is the set of all non-empty subsets (as sub-lists in declaration order) -/
theorem powerSet_complete (l s : List String) (hne : s ≠ []) (h : s.Sublist l) : s ∈ powerSet l :=
  mem_powerSet_of_sublist l s hne h

/-! ### Choquet integral: value -/

/-- in general (values within `eps` of the first value of a run are tied with it — the oracle the property
    prescribes) the model's value is the spec's grouped textbook sum; a missing capacity is an error on
    both sides -/
theorem choquet_eq_spec (eps : Rat) (a : Alt Rat) (w : KMap Rat) :
    (choquetValue eps a w).toOption = Spec.C03.choquetSpec eps a w :=
  choquetValue_eq_spec eps a w

/-- when the values are pairwise either exactly equal or more than `eps` apart and every capacity of a
    tail set {(k),…,(n)} is present, the value is the ungrouped textbook sum
    Σ_k (v_(k) − v_(k−1)) · μ({(k),…,(n)}), v_(0) = 0 (this covers the all-distinct case) -/
theorem choquet_eq_textbook_of_capacities (eps : Rat) (a : Alt Rat) (w : KMap Rat)
    (hties : ∀ x ∈ a.vals, ∀ y ∈ a.vals, Spec.C03.rabs (x.2 - y.2) ≤ eps → x.2 = y.2)
    (hfull : ∀ n < (ascendingVals a).length,
      (w.get? (criterionKey (((ascendingVals a).drop n).map (·.1)))).isSome = true) :
    (choquetValue eps a w).toOption = choquetTextbook (fun s => w.get? (criterionKey s)) (ascendingVals a) 0 := by
  have hmem : ∀ x, x ∈ ascendingVals a → x ∈ a.vals := fun x hx => (List.mergeSort_perm _ _).mem_iff.mp hx
  rw [choquetValue_eq_spec]
  unfold Spec.C03.choquetSpec
  have hmu : (fun s => w.get? (Spec.C03.canonKey s)) = (fun s => w.get? (criterionKey s)) := by
    funext s; rw [spec_canonKey_eq]
  rw [hmu]
  exact choquetSpecAux_eq_textbook eps _ _ (ascendingVals a) 0 (Nat.lt_succ_self _)
    (fun x hx y hy => hties x (hmem x hx) y (hmem y hy))
    (fun s hs hne => by
      have hlen := hs.length_le
      have hpos : 0 < s.length := List.length_pos_iff.mpr hne
      rw [List.suffix_iff_eq_drop.mp hs]
      exact hfull _ (by omega))

def exAlt : Alt Rat := ⟨"a", [("g1", 1), ("g2", 3), ("g3", 3)]⟩
def exCap : KMap Rat :=
  [("g1", 1/4), ("g2", 1/2), ("g3", 1/4), ("g1,g2", 3/4), ("g1,g3", 1/2), ("g2,g3", 3/4), ("g1,g2,g3", 1)]

/-- hypotheses satisfiable on a non-trivial input: three criteria, one exact tie, full capacity table -/
example : (choquetValue (1/100000) exAlt exCap).toOption
    = choquetTextbook (fun s => exCap.get? (criterionKey s)) (ascendingVals exAlt) 0 := by
  have hasc : ascendingVals exAlt = exAlt.vals := List.mergeSort_of_pairwise (by decide +kernel)
  refine choquet_eq_textbook_of_capacities _ exAlt exCap (by decide +kernel) ?_
  rw [hasc]
  decide +kernel

/-- **Choquet = textbook after parsing**: if `parse` accepted the capacities for duplicate-free criteria and
    the alternative is valued on declared criteria (each once), with values pairwise exactly equal or more
    than `eps` apart, then the value exists and is the textbook Choquet integral -/
theorem choquet_eq_textbook (eps : Rat) (crits : List (Crit Rat)) (w r : KMap Rat) (a : Alt Rat)
    (hparse : choquetParse crits w = .ok r) (hn : (crits.map (·.id)).Nodup)
    (hk : (a.vals.map (·.1)).Nodup) (hsub : ∀ k ∈ a.vals.map (·.1), k ∈ crits.map (·.id))
    (hties : ∀ x ∈ a.vals, ∀ y ∈ a.vals, Spec.C03.rabs (x.2 - y.2) ≤ eps → x.2 = y.2) :
    (choquetValue eps a r).toOption = choquetTextbook (fun s => r.get? (criterionKey s)) (ascendingVals a) 0 ∧
    ((choquetValue eps a r).toOption).isSome = true :=
  choquetValue_eq_textbook eps crits w r a hparse hn hk hsub hties

/- `String.splitOn` does not reduce in the kernel, so a concrete non-empty `hparse` cannot be produced by
   evaluation inside a proof; the driver evaluates e.g.
   `choquetParse [g1, g2] [("g1",1/4), ("g2,g1",1), ("g2",1/2)] = ok [("g1",1/4), ("g1,g2",1), ("g2",1/2)]`.
   The degenerate instance shows the hypotheses are consistent: -/
example : (choquetValue (1/100000) (⟨"a", []⟩ : Alt Rat) []).toOption
      = choquetTextbook (fun s => KMap.get? ([] : KMap Rat) (criterionKey s)) (ascendingVals ⟨"a", []⟩) 0 ∧
    ((choquetValue (1/100000) (⟨"a", []⟩ : Alt Rat) []).toOption).isSome = true :=
  choquet_eq_textbook (1/100000) [] [] [] ⟨"a", []⟩ rfl (by simp) (by simp) (by simp) (by simp)

/-! ### rounding -/

/-- the 1e-8 rounding the API applies moves the reported value by at most 5·10⁻⁹ -/
theorem rounding_error (x : Rat) : |round8 x - x| ≤ 1 / (2 * 10 ^ 8) := round8_error x


/-- the constants this property depends on were re-read from the working tree on this run (none of
    them fell back to its pinned value because its declaration could not be located) -/
theorem facts_fresh : (Facts.staleFacts.all fun n => !["choquetEps", "roundPrecision", "criteriaSeparator", "critGain", "paramWeights"].contains n) = true := by decide

end Rdm.Props.C03
