/- C11 — property theorems (stub; filled in by the owning work package). -/
import Rdm.Basic
namespace Rdm.Props.C11
end Rdm.Props.C11
