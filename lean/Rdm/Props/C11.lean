/-
  C11 — the majority heuristic is a sequential pairwise tournament.
  Property theorems only (helper lemmas: Rdm/Lemmas/HeurMajority.lean, HeurLinks.lean, HeurList.lean).
  Structural theorems are generic in the number type (they hold for the Float model the driver runs
  against the implementation and for the Rat model) and for every length of the search order; the
  statements about scores as weight sums are over `Rat`.

  Model: Rdm/Model/Heuristics.lean (`shuffleLoop`, `searchOrder`, `compareLoop`, `takeBetter`, the four
  resolvers, `majorityFold`, `majorityGroups`, `majorityTournament`) and Rdm/Model/Links.lean
  (`majorityRanking` = prepareRanking); spec evaluated on the implementation's output: Rdm/Spec/C11.lean.
-/
import Rdm.Model.Heuristics
import Rdm.Spec.C11
import Rdm.Lemmas.NumRat
import Rdm.Lemmas.HeurList
import Rdm.Lemmas.HeurLinks
import Rdm.Lemmas.HeurMajority
import Mathlib.Tactic.Linarith
import Mathlib.Tactic.NormNum
set_option linter.unusedSectionVars false
set_option linter.unusedSimpArgs false
namespace Rdm.Props.C11
open Rdm
variable {α : Type} [Num α]

/-- inversion of the tournament: the fold over the challengers, then `prepareRanking` on the groups -/
theorem tournament_shape (pol : DrawPolicy) (wc : List (WCrit α)) (first : Alt α) (rest : List (Alt α))
    (d : Draws α) (out : List (Linked (MajEval α)))
    (h : majorityTournament pol wc first rest d = Except.ok out) :
    ∃ st ev d', majorityFold pol wc rest ⟨[], [], first⟩ Num.zero d = Except.ok ((st, ev), d') ∧
      out = majorityRanking (majorityGroups st ev) := by
  unfold majorityTournament at h
  obtain ⟨⟨⟨st, ev⟩, d'⟩, h1, h⟩ := R.bind_eq_ok h
  simp at h
  exact ⟨st, ev, d', h1, h.symm⟩

theorem groups_flatten (st : MajState α) (ev : α) :
    (majorityGroups st ev).flatten = st.entries ++ [(st.cur.id, ⟨ev, "", Num.zero⟩)] := by
  simp [majorityGroups, MajState.entries]

/-- **permutation**: the ranking contains every alternative of the search order exactly once -/
theorem result_is_permutation_of_search_order (pol : DrawPolicy) (wc : List (WCrit α)) (first : Alt α)
    (rest : List (Alt α)) (d : Draws α) (out : List (Linked (MajEval α)))
    (h : majorityTournament pol wc first rest d = Except.ok out) :
    (out.map (·.id)).Perm ((first :: rest).map (·.id)) := by
  obtain ⟨st, ev, d', hf, rfl⟩ := tournament_shape pol wc first rest d out h
  rw [majorityRanking_ids, groups_flatten]
  have := majorityFold_ids hf
  have e : (List.map (·.1) (st.entries ++ [(st.cur.id, (⟨ev, "", Num.zero⟩ : MajEval α))])) = st.ids := by
    simp [MajState.ids, MajState.entries]
  rw [e]
  exact (List.reverse_perm _).trans (by simpa [MajState.ids] using this)

/-- **winner first**: the undefeated alternative (the running winner after the last match) heads the
    ranking and names no opponent -/
theorem winner_is_first (pol : DrawPolicy) (wc : List (WCrit α)) (first : Alt α) (rest : List (Alt α))
    (d : Draws α) (out : List (Linked (MajEval α)))
    (h : majorityTournament pol wc first rest d = Except.ok out) :
    ∃ st ev d', majorityFold pol wc rest ⟨[], [], first⟩ Num.zero d = Except.ok ((st, ev), d') ∧
      ∃ w tail, out = w :: tail ∧ w.id = st.cur.id ∧ w.ev.cmp = "" ∧ st.cur ∈ first :: rest := by
  obtain ⟨st, ev, d', hf, rfl⟩ := tournament_shape pol wc first rest d out h
  refine ⟨st, ev, d', hf, ?_⟩
  have hp := majorityRanking_payload (majorityGroups st ev)
  rw [groups_flatten, List.reverse_append] at hp
  simp only [List.reverse_cons, List.reverse_nil, List.nil_append, List.singleton_append] at hp
  have hcur : st.cur ∈ first :: rest := majorityFold_cur_mem hf
  cases hout : majorityRanking (majorityGroups st ev) with
  | nil => rw [hout] at hp; simp at hp
  | cons w tail =>
    rw [hout] at hp
    simp only [List.map_cons, List.cons.injEq, Prod.mk.injEq] at hp
    refine ⟨w, tail, rfl, hp.1.1, ?_, hcur⟩
    rw [hp.1.2]

/-- **every other entry**: it names in `comparedWith` an alternative of the search order different
    from itself — the opponent of the match in which it dropped out —, and its two reported numbers
    are exactly the two scores `compare` gave for that pair (own score, opponent's score); it did not
    score higher than that opponent (lower, or equal within eps) -/
theorem loser_entry_semantics (pol : DrawPolicy) (wc : List (WCrit α)) (first : Alt α) (rest : List (Alt α))
    (d : Draws α) (out : List (Linked (MajEval α))) (hnd : ((first :: rest).map (·.id)).Nodup)
    (h : majorityTournament pol wc first rest d = Except.ok out)
    (w : Linked (MajEval α)) (tail : List (Linked (MajEval α))) (ho : out = w :: tail)
    (e : Linked (MajEval α)) (he : e ∈ tail) :
    ∃ a ∈ first :: rest, ∃ b ∈ first :: rest, a.id = e.id ∧ b.id = e.ev.cmp ∧ e.ev.cmp ≠ e.id ∧
      (compareAlts wc a b = Except.ok (e.ev.value, e.ev.cav) ∨
       compareAlts wc b a = Except.ok (e.ev.cav, e.ev.value)) ∧
      NotHigher e.ev.value e.ev.cav := by
  obtain ⟨st, ev, d', hf, hout⟩ := tournament_shape pol wc first rest d out h
  have hent := (majorityFold_entries (seen := [first]) hf (by simp) (by simp [MajState.entries])
    (by simpa using hnd)).2
  -- the tail of the ranking is the reverse of the written entries
  have hp := majorityRanking_payload (majorityGroups st ev)
  rw [groups_flatten, List.reverse_append, ← hout, ho] at hp
  simp only [List.reverse_cons, List.reverse_nil, List.nil_append, List.singleton_append,
    List.map_cons, List.cons.injEq] at hp
  have hm : (e.id, e.ev) ∈ st.entries := by
    have : (e.id, e.ev) ∈ tail.map (fun e => (e.id, e.ev)) := List.mem_map.mpr ⟨e, he, rfl⟩
    rw [hp.2] at this
    exact List.mem_reverse.mp this
  obtain ⟨a, ha, b, hb, r⟩ := hent _ hm
  exact ⟨a, by simpa using ha, b, by simpa using hb, r⟩

/-- **ranked below the opponent, or in the same tie group**: in the drop-out groups handed to
    `prepareRanking` (worst first; the ranking is their reversal, each entry linked to the group
    dropped just before and to its peers) every entry other than the winner's names an opponent
    that sits in the same group or in a group that dropped out later, i.e. is ranked higher -/
theorem opponent_in_same_or_later_group (pol : DrawPolicy) (wc : List (WCrit α)) (first : Alt α)
    (rest : List (Alt α)) (d d' : Draws α) (st : MajState α) (ev : α)
    (h : majorityFold pol wc rest ⟨[], [], first⟩ Num.zero d = Except.ok ((st, ev), d'))
    (k : Nat) (hk : k < (majorityGroups st ev).length) (p : MajRes α) (hp : p ∈ (majorityGroups st ev)[k]) :
    p = (st.cur.id, ⟨ev, "", Num.zero⟩) ∨ p.2.cmp ∈ ((majorityGroups st ev)[k]).map (·.1) ∨
      p.2.cmp ∈ (((majorityGroups st ev).drop (k + 1)).flatten).map (·.1) := by
  obtain ⟨j1, j2⟩ := majorityFold_groupInv h (st := ⟨[], [], first⟩) ⟨by simp, by simp⟩
  unfold majorityGroups at hk hp ⊢
  by_cases hkw : k < st.worse.length
  · rw [List.getElem_append_left hkw] at hp ⊢
    rw [List.drop_append_of_le_length (by omega)]
    simp only [List.flatten_append, List.flatten_cons, List.flatten_nil, List.append_nil, List.map_append,
      List.map_cons, List.map_nil, List.mem_append, List.mem_singleton]
    rcases j2 k hkw p hp with h | h | h | h
    · exact Or.inr (Or.inl h)
    · exact Or.inr (Or.inr (Or.inl h))
    · exact Or.inr (Or.inr (Or.inr (Or.inl h)))
    · exact Or.inr (Or.inr (Or.inr (Or.inr h)))
  · have hk' : k = st.worse.length := by simp at hk; omega
    subst hk'
    simp only [List.getElem_append_right (Nat.le_refl _), Nat.sub_self, List.getElem_cons_zero,
      List.mem_append, List.mem_singleton] at hp ⊢
    rcases hp with hp | rfl
    · right; left
      simp only [List.map_append, List.map_cons, List.map_nil, List.mem_append, List.mem_singleton]
      right; exact j1 p hp
    · left; rfl

/-- tie groups arise only when draws are allowed: under `current`, `newer` and `random` every
    drop-out group is a single alternative (so every loser is ranked strictly below its opponent) -/
theorem no_tie_groups_unless_draws_allowed (pol : DrawPolicy) (hpol : pol ≠ .allow) (wc : List (WCrit α))
    (first : Alt α) (rest : List (Alt α)) (d d' : Draws α) (st : MajState α) (ev : α)
    (h : majorityFold pol wc rest ⟨[], [], first⟩ Num.zero d = Except.ok ((st, ev), d')) :
    ∀ g ∈ majorityGroups st ev, g.length = 1 := by
  obtain ⟨i1, i2⟩ := majorityFold_singletons hpol h (st := ⟨[], [], first⟩) ⟨rfl, by simp⟩
  intro g hg
  simp only [majorityGroups, List.mem_append, List.mem_singleton] at hg
  rcases hg with hg | rfl
  · exact i2 g hg
  · simp [i1]

/-- over the rationals "did not score higher" reads: value ≤ opponent's value, or within eps of it -/
theorem notHigher_rat (v cav : Rat) (h : NotHigher v cav) :
    v ≤ cav ∨ (if v - cav < 0 then -(v - cav) else v - cav) ≤ Num.ofConst Facts.majorityEps := by
  rcases h with h | h | h | h
  · right; simpa [floatsAreEqual_rat, majorityEpsOf] using h
  · right
    have : (if cav - v < 0 then -(cav - v) else cav - v) ≤ (Num.ofConst Facts.majorityEps : Rat) := by
      simpa [floatsAreEqual_rat, majorityEpsOf] using h
    split at this <;> split <;> linarith
  · left; exact le_of_lt h
  · left; exact not_lt.mp h

/-- **links well-formed**: every id in a `betterThanOrSameAs` list is an alternative of the ranking -/
theorem links_name_ranked_alternatives (pol : DrawPolicy) (wc : List (WCrit α)) (first : Alt α)
    (rest : List (Alt α)) (d : Draws α) (out : List (Linked (MajEval α)))
    (h : majorityTournament pol wc first rest d = Except.ok out) (e : Linked (MajEval α)) (he : e ∈ out) :
    ∀ x ∈ e.links, x ∈ out.map (·.id) := by
  obtain ⟨st, ev, d', hf, rfl⟩ := tournament_shape pol wc first rest d out h
  intro x hx
  have he' : e ∈ majorityEntries [] (majorityGroups st ev) := by
    unfold majorityRanking at he; exact List.mem_reverse.mp he
  rcases majorityEntries_links [] _ e he' x hx with h1 | h1
  · simp at h1
  · rw [majorityRanking_ids]; exact List.mem_reverse.mpr h1

/-! ### scores -/

/-- **scores are the weight sums of strictly-better criteria** (|Δ| > eps on the signed values): the
    two numbers `compare` returns are the total weight of the criteria on which the first alternative
    beats the second by more than eps, and vice versa -/
theorem scores_are_weight_sums (wc : List (WCrit Rat)) (a1 a2 : Alt Rat) (s1 s2 : Rat)
    (h : compareAlts wc a1 a2 = Except.ok (s1, s2)) :
    s1 = scoreOf (Num.ofConst Facts.majorityEps) a1 a2 wc ∧ s2 = scoreOf (Num.ofConst Facts.majorityEps) a2 a1 wc := by
  have := compareLoop_scores (Num.ofConst Facts.majorityEps) (by simp [Facts.majorityEps]) a1 a2 wc 0 0 s1 s2 h
  simpa using this

/-- the tolerance of the code is the 1e-6 of the property (as the nearest double) -/
theorem eps_is_1e6 : |(Num.ofConst Facts.majorityEps : Rat) - 1 / 1000000| < 1 / 10 ^ 20 := by
  simp only [Num.ofConst_rat, Facts.majorityEps]
  norm_num [abs_lt]

/-! ### draw policies -/

/-- the registry of main.go: `allow` is the default, the four names resolve, anything else panics -/
theorem policy_lookup :
    findPolicy "" = Except.ok .allow ∧ findPolicy "allow" = Except.ok .allow ∧
    findPolicy "current" = Except.ok .current ∧ findPolicy "newer" = Except.ok .newer ∧
    findPolicy "random" = Except.ok .random := by decide

theorem unknown_policy_rejected (name : String) (h0 : name ≠ "")
    (h : name ∉ ["allow", "current", "newer", "random"]) : ∃ e, findPolicy name = Except.error e := by
  have hr : registeredPolicies = [.allow, .current, .newer, .random] := by decide
  simp only [List.mem_cons, List.not_mem_nil, or_false, not_or] at h
  obtain ⟨h1, h2, h3, h4⟩ := h
  unfold findPolicy
  have hb : (name == "") = false := by simpa using h0
  simp only [hb, hr]
  have n1 : (DrawPolicy.allow.name == name) = false := by
    simp [DrawPolicy.name, Facts.drawAllow]; exact fun e => h1 e.symm
  have n2 : (DrawPolicy.current.name == name) = false := by
    simp [DrawPolicy.name, Facts.drawCurrent]; exact fun e => h2 e.symm
  have n3 : (DrawPolicy.newer.name == name) = false := by
    simp [DrawPolicy.name, Facts.drawNewer]; exact fun e => h3 e.symm
  have n4 : (DrawPolicy.random.name == name) = false := by
    simp [DrawPolicy.name, Facts.drawRandom]; exact fun e => h4 e.symm
  simp [List.find?, n1, n2, n3, n4]

/-- unequal scores decide regardless of the policy and without consuming a draw: the higher score
    stays / becomes the running winner, the loser drops out as (or with) its group -/
theorem decisive_match (pol : DrawPolicy) (s1 s2 : α) (st : MajState α) (a : Alt α) (d : Draws α)
    (hne : floatsAreEqual s1 s2 majorityEpsOf = false) :
    takeBetter pol s1 s2 st a d =
      if s2 < s1 then Except.ok ((resolveCurrent s1 s2 st a, s1), d)
      else Except.ok ((resolveNewer s1 s2 st a, s2), d) := by
  unfold takeBetter; simp [hne]

/-- `allow`: on equal scores the challenger is parked in the tie buffer of the running winner, which
    stays; its entry names the winner and reports (own score, winner's score) -/
theorem draw_allow (s1 s2 : α) (st : MajState α) (a : Alt α) (d : Draws α)
    (heq : floatsAreEqual s1 s2 majorityEpsOf = true) :
    takeBetter .allow s1 s2 st a d =
      Except.ok (({ st with same := st.same ++ [(a.id, ⟨s2, st.cur.id, s1⟩)] }, s1), d) := by
  unfold takeBetter; simp [heq, resolveDraw, resolveAllow]

/-- `current`: on equal scores the running winner stays, the challenger drops out alone -/
theorem draw_current (s1 s2 : α) (st : MajState α) (a : Alt α) (d : Draws α)
    (heq : floatsAreEqual s1 s2 majorityEpsOf = true) :
    takeBetter .current s1 s2 st a d =
      Except.ok (({ st with worse := st.worse ++ [[(a.id, ⟨s2, st.cur.id, s1⟩)]] }, s1), d) := by
  unfold takeBetter; simp [heq, resolveDraw, resolveCurrent]

/-- `newer`: on equal scores the challenger takes over; the old winner drops out together with its
    tie buffer, naming the challenger -/
theorem draw_newer (s1 s2 : α) (st : MajState α) (a : Alt α) (d : Draws α)
    (heq : floatsAreEqual s1 s2 majorityEpsOf = true) :
    takeBetter .newer s1 s2 st a d =
      Except.ok ((⟨[], st.worse ++ [st.same ++ [(st.cur.id, ⟨s1, a.id, s2⟩)]], a⟩, s1), d) := by
  unfold takeBetter; simp [heq, resolveDraw, resolveNewer]

/-- `random`: one draw is consumed; the running winner stays iff the draw is below the constant of
    the code, otherwise the challenger takes over -/
theorem draw_random (s1 s2 : α) (st : MajState α) (a : Alt α) (u : α) (d : Draws α)
    (heq : floatsAreEqual s1 s2 majorityEpsOf = true) :
    takeBetter .random s1 s2 st a (u :: d) =
      if u < Num.ofConst Facts.randomWinnerHalf then takeBetter .current s1 s2 st a d
      else takeBetter .newer s1 s2 st a d := by
  unfold takeBetter; simp [heq, resolveDraw, draw]; split <;> rfl

/-- … and that constant is one half -/
theorem random_threshold_is_half : (Num.ofConst Facts.randomWinnerHalf : Rat) = 1 / 2 := by
  simp only [Num.ofConst_rat, Facts.randomWinnerHalf]; norm_num

/-! ### search order -/

/-- with a current choice: it is the first running winner, looked up among all known alternatives;
    the challengers are the other considered alternatives (shuffled or in the given order) -/
theorem search_order_current_first (d : DMP α) (cur : String) (rnd : Bool) (ds ds' : Draws α)
    (first : Alt α) (rest : List (Alt α)) (hc : cur ≠ "")
    (h : searchOrder d cur rnd ds = Except.ok ((first, rest), ds')) :
    first.id = cur ∧ first ∈ d.all ∧ rest.Perm (removeAlt d.co cur) :=
  searchOrder_with_current d cur rnd ds ds' first rest hc h

/-- the seeded shuffle returns a permutation and consumes one draw per position but the first -/
theorem shuffle_is_permutation {β : Type} (l : List β) (ds : Draws α) (l' : List β) (ds' : Draws α)
    (h : shuffleAlts l ds = Except.ok (l', ds')) : l'.Perm l ∧ ds' = ds.drop (l.length - 1) :=
  ⟨shuffleLoop_perm _ _ _ _ _ h, shuffleLoop_draws _ _ _ _ _ h⟩

/-
  Not proved (checked on every run by `Spec.C11.check` on the implementation's output and by the
  bit-exact correspondence of `majority-evaluate`):

  theorem model_output_passes_spec_partial (Rat) :
      majorityTournament pol wc first rest d = .ok out → ids Nodup → well-conditioned margins →
      Spec.C11.check wc (first :: rest) pol.name out = true
  The clauses of the checker are proved above on the model one by one: permutation of the search
  order, winner first without opponent, every loser's report faithful (`loser_entry_semantics`,
  `scores_are_weight_sums`), opponent in the same or a later group, singleton groups unless draws are
  allowed, links inside the ranking, policy semantics.  Missing: the exact link lists (previous group ++
  peers — a statement about `majorityRanking` of Model/Links.lean, shared with C01) and the mechanical
  translation into the checker's replay formulation.
-/

/-! ### satisfiable hypotheses -/

example : majorityTournament (α := Rat) .allow [] ⟨"a", []⟩ [] [] =
    Except.ok [⟨"a", ⟨0, "", 0⟩, []⟩] := rfl

/-- the constants and names this property depends on were re-read from the working tree on this run
    (none fell back to its pinned value because its declaration could not be located) -/
theorem facts_fresh : (Rdm.Facts.staleFacts.all fun n => !["majorityEps", "randomWinnerHalf", "drawAllow", "drawCurrent", "drawNewer", "drawRandom", "wiringDrawResolvers", "methodMajority"].contains n) = true := by decide

end Rdm.Props.C11
