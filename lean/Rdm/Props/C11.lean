/-
  C11 — the majority heuristic is a sequential pairwise tournament.
  Property theorems only (helper lemmas: Rdm/Lemmas/HeurMajority.lean, HeurLinks.lean, HeurList.lean,
  HeurH11.lean — the simulation of the checker's replay by the model's fold and the exact link lists).
  Structural theorems are generic in the number type (they hold for the Float model the driver runs
  against the implementation and for the Rat model) and for every length of the search order; the
  statements about scores as weight sums are over `Rat`.

  Model: Rdm/Model/Heuristics.lean (`shuffleLoop`, `searchOrder`, `compareLoop`, `takeBetter`, the four
  resolvers, `majorityFold`, `majorityGroups`, `majorityTournament`) and Rdm/Model/Links.lean
  (`majorityRanking` = prepareRanking); spec evaluated on the implementation's output: Rdm/Spec/C11.lean.
  `tournament_output_passes_spec` / `model_output_passes_spec` prove that this very checker accepts the
  model's output on every well-conditioned input (see there for the one extra hypothesis).
-/
import Rdm.Model.Heuristics
import Rdm.Spec.C11
import Rdm.Lemmas.NumRat
import Rdm.Lemmas.HeurList
import Rdm.Lemmas.HeurLinks
import Rdm.Lemmas.HeurMajority
import Rdm.Lemmas.HeurH11
import Mathlib.Tactic.Linarith
import Mathlib.Tactic.NormNum
import Rdm.Lemmas.E2EMethods
import Rdm.Lemmas.E2EMethodsExamples
set_option linter.unusedSectionVars false
set_option linter.unusedSimpArgs false
namespace Rdm.Props.C11
open Rdm
variable {α : Type} [Num α]

/-- inversion of the tournament: the fold over the challengers, then `prepareRanking` on the groups -/
theorem tournament_shape (pol : DrawPolicy) (wc : List (WCrit α)) (first : Alt α) (rest : List (Alt α))
    (d : Draws α) (out : List (Linked (MajEval α)))
    (h : majorityTournament pol wc first rest d = Except.ok out) :
    ∃ st ev d', majorityFold pol wc rest ⟨[], [], first⟩ Num.zero d = Except.ok ((st, ev), d') ∧
      out = majorityRanking (majorityGroups st ev) := by
  unfold majorityTournament at h
  obtain ⟨⟨⟨st, ev⟩, d'⟩, h1, h⟩ := R.bind_eq_ok h
  simp at h
  exact ⟨st, ev, d', h1, h.symm⟩

theorem groups_flatten (st : MajState α) (ev : α) :
    (majorityGroups st ev).flatten = st.entries ++ [(st.cur.id, ⟨ev, "", Num.zero⟩)] := by
  simp [majorityGroups, MajState.entries]

/-- **permutation**: the ranking contains every alternative of the search order exactly once -/
theorem result_is_permutation_of_search_order (pol : DrawPolicy) (wc : List (WCrit α)) (first : Alt α)
    (rest : List (Alt α)) (d : Draws α) (out : List (Linked (MajEval α)))
    (h : majorityTournament pol wc first rest d = Except.ok out) :
    (out.map (·.id)).Perm ((first :: rest).map (·.id)) := by
  obtain ⟨st, ev, d', hf, rfl⟩ := tournament_shape pol wc first rest d out h
  rw [majorityRanking_ids, groups_flatten]
  have := majorityFold_ids hf
  have e : (List.map (·.1) (st.entries ++ [(st.cur.id, (⟨ev, "", Num.zero⟩ : MajEval α))])) = st.ids := by
    simp [MajState.ids, MajState.entries]
  rw [e]
  exact (List.reverse_perm _).trans (by simpa [MajState.ids] using this)

/-- **winner first**: the undefeated alternative (the running winner after the last match) heads the
    ranking and names no opponent -/
theorem winner_is_first (pol : DrawPolicy) (wc : List (WCrit α)) (first : Alt α) (rest : List (Alt α))
    (d : Draws α) (out : List (Linked (MajEval α)))
    (h : majorityTournament pol wc first rest d = Except.ok out) :
    ∃ st ev d', majorityFold pol wc rest ⟨[], [], first⟩ Num.zero d = Except.ok ((st, ev), d') ∧
      ∃ w tail, out = w :: tail ∧ w.id = st.cur.id ∧ w.ev.cmp = "" ∧ st.cur ∈ first :: rest := by
  obtain ⟨st, ev, d', hf, rfl⟩ := tournament_shape pol wc first rest d out h
  refine ⟨st, ev, d', hf, ?_⟩
  have hp := majorityRanking_payload (majorityGroups st ev)
  rw [groups_flatten, List.reverse_append] at hp
  simp only [List.reverse_cons, List.reverse_nil, List.nil_append, List.singleton_append] at hp
  have hcur : st.cur ∈ first :: rest := majorityFold_cur_mem hf
  cases hout : majorityRanking (majorityGroups st ev) with
  | nil => rw [hout] at hp; simp at hp
  | cons w tail =>
    rw [hout] at hp
    simp only [List.map_cons, List.cons.injEq, Prod.mk.injEq] at hp
    refine ⟨w, tail, rfl, hp.1.1, ?_, hcur⟩
    rw [hp.1.2]

/-- **every other entry**: it names in `comparedWith` an alternative of the search order different
    from itself — the opponent of the match in which it dropped out —, and its two reported numbers
    are exactly the two scores `compare` gave for that pair (own score, opponent's score); it did not
    score higher than that opponent (lower, or equal within eps) -/
theorem loser_entry_semantics (pol : DrawPolicy) (wc : List (WCrit α)) (first : Alt α) (rest : List (Alt α))
    (d : Draws α) (out : List (Linked (MajEval α))) (hnd : ((first :: rest).map (·.id)).Nodup)
    (h : majorityTournament pol wc first rest d = Except.ok out)
    (w : Linked (MajEval α)) (tail : List (Linked (MajEval α))) (ho : out = w :: tail)
    (e : Linked (MajEval α)) (he : e ∈ tail) :
    ∃ a ∈ first :: rest, ∃ b ∈ first :: rest, a.id = e.id ∧ b.id = e.ev.cmp ∧ e.ev.cmp ≠ e.id ∧
      (compareAlts wc a b = Except.ok (e.ev.value, e.ev.cav) ∨
       compareAlts wc b a = Except.ok (e.ev.cav, e.ev.value)) ∧
      NotHigher e.ev.value e.ev.cav := by
  obtain ⟨st, ev, d', hf, hout⟩ := tournament_shape pol wc first rest d out h
  have hent := (majorityFold_entries (seen := [first]) hf (by simp) (by simp [MajState.entries])
    (by simpa using hnd)).2
  -- the tail of the ranking is the reverse of the written entries
  have hp := majorityRanking_payload (majorityGroups st ev)
  rw [groups_flatten, List.reverse_append, ← hout, ho] at hp
  simp only [List.reverse_cons, List.reverse_nil, List.nil_append, List.singleton_append,
    List.map_cons, List.cons.injEq] at hp
  have hm : (e.id, e.ev) ∈ st.entries := by
    have : (e.id, e.ev) ∈ tail.map (fun e => (e.id, e.ev)) := List.mem_map.mpr ⟨e, he, rfl⟩
    rw [hp.2] at this
    exact List.mem_reverse.mp this
  obtain ⟨a, ha, b, hb, r⟩ := hent _ hm
  exact ⟨a, by simpa using ha, b, by simpa using hb, r⟩

/-- **ranked below the opponent, or in the same tie group**: in the drop-out groups handed to
    `prepareRanking` (worst first; the ranking is their reversal, each entry linked to the group
    dropped just before and to its peers) every entry other than the winner's names an opponent
    that sits in the same group or in a group that dropped out later, i.e. is ranked higher -/
theorem opponent_in_same_or_later_group (pol : DrawPolicy) (wc : List (WCrit α)) (first : Alt α)
    (rest : List (Alt α)) (d d' : Draws α) (st : MajState α) (ev : α)
    (h : majorityFold pol wc rest ⟨[], [], first⟩ Num.zero d = Except.ok ((st, ev), d'))
    (k : Nat) (hk : k < (majorityGroups st ev).length) (p : MajRes α) (hp : p ∈ (majorityGroups st ev)[k]) :
    p = (st.cur.id, ⟨ev, "", Num.zero⟩) ∨ p.2.cmp ∈ ((majorityGroups st ev)[k]).map (·.1) ∨
      p.2.cmp ∈ (((majorityGroups st ev).drop (k + 1)).flatten).map (·.1) := by
  obtain ⟨j1, j2⟩ := majorityFold_groupInv h (st := ⟨[], [], first⟩) ⟨by simp, by simp⟩
  unfold majorityGroups at hk hp ⊢
  by_cases hkw : k < st.worse.length
  · rw [List.getElem_append_left hkw] at hp ⊢
    rw [List.drop_append_of_le_length (by omega)]
    simp only [List.flatten_append, List.flatten_cons, List.flatten_nil, List.append_nil, List.map_append,
      List.map_cons, List.map_nil, List.mem_append, List.mem_singleton]
    rcases j2 k hkw p hp with h | h | h | h
    · exact Or.inr (Or.inl h)
    · exact Or.inr (Or.inr (Or.inl h))
    · exact Or.inr (Or.inr (Or.inr (Or.inl h)))
    · exact Or.inr (Or.inr (Or.inr (Or.inr h)))
  · have hk' : k = st.worse.length := by simp at hk; omega
    subst hk'
    simp only [List.getElem_append_right (Nat.le_refl _), Nat.sub_self, List.getElem_cons_zero,
      List.mem_append, List.mem_singleton] at hp ⊢
    rcases hp with hp | rfl
    · right; left
      simp only [List.map_append, List.map_cons, List.map_nil, List.mem_append, List.mem_singleton]
      right; exact j1 p hp
    · left; rfl

/-- tie groups arise only when draws are allowed: under `current`, `newer` and `random` every
    drop-out group is a single alternative (so every loser is ranked strictly below its opponent) -/
theorem no_tie_groups_unless_draws_allowed (pol : DrawPolicy) (hpol : pol ≠ .allow) (wc : List (WCrit α))
    (first : Alt α) (rest : List (Alt α)) (d d' : Draws α) (st : MajState α) (ev : α)
    (h : majorityFold pol wc rest ⟨[], [], first⟩ Num.zero d = Except.ok ((st, ev), d')) :
    ∀ g ∈ majorityGroups st ev, g.length = 1 := by
  obtain ⟨i1, i2⟩ := majorityFold_singletons hpol h (st := ⟨[], [], first⟩) ⟨rfl, by simp⟩
  intro g hg
  simp only [majorityGroups, List.mem_append, List.mem_singleton] at hg
  rcases hg with hg | rfl
  · exact i2 g hg
  · simp [i1]

/-- over the rationals "did not score higher" reads: value ≤ opponent's value, or within eps of it -/
theorem notHigher_rat (v cav : Rat) (h : NotHigher v cav) :
    v ≤ cav ∨ (if v - cav < 0 then -(v - cav) else v - cav) ≤ Num.ofConst Facts.majorityEps := by
  rcases h with h | h | h | h
  · right; simpa [floatsAreEqual_rat, majorityEpsOf] using h
  · right
    have : (if cav - v < 0 then -(cav - v) else cav - v) ≤ (Num.ofConst Facts.majorityEps : Rat) := by
      simpa [floatsAreEqual_rat, majorityEpsOf] using h
    split at this <;> split <;> linarith
  · left; exact le_of_lt h
  · left; exact not_lt.mp h

/-- **links well-formed**: every id in a `betterThanOrSameAs` list is an alternative of the ranking -/
theorem links_name_ranked_alternatives (pol : DrawPolicy) (wc : List (WCrit α)) (first : Alt α)
    (rest : List (Alt α)) (d : Draws α) (out : List (Linked (MajEval α)))
    (h : majorityTournament pol wc first rest d = Except.ok out) (e : Linked (MajEval α)) (he : e ∈ out) :
    ∀ x ∈ e.links, x ∈ out.map (·.id) := by
  obtain ⟨st, ev, d', hf, rfl⟩ := tournament_shape pol wc first rest d out h
  intro x hx
  have he' : e ∈ majorityEntries [] (majorityGroups st ev) := by
    unfold majorityRanking at he; exact List.mem_reverse.mp he
  rcases majorityEntries_links [] _ e he' x hx with h1 | h1
  · simp at h1
  · rw [majorityRanking_ids]; exact List.mem_reverse.mpr h1

/-! ### scores -/

/-- **scores are the weight sums of strictly-better criteria** (|Δ| > eps on the signed values): the
    two numbers `compare` returns are the total weight of the criteria on which the first alternative
    beats the second by more than eps, and vice versa -/
theorem scores_are_weight_sums (wc : List (WCrit Rat)) (a1 a2 : Alt Rat) (s1 s2 : Rat)
    (h : compareAlts wc a1 a2 = Except.ok (s1, s2)) :
    s1 = scoreOf (Num.ofConst Facts.majorityEps) a1 a2 wc ∧ s2 = scoreOf (Num.ofConst Facts.majorityEps) a2 a1 wc := by
  have := compareLoop_scores (Num.ofConst Facts.majorityEps) (by simp [Facts.majorityEps]) a1 a2 wc 0 0 s1 s2 h
  simpa using this

/-- the tolerance of the code is the 1e-6 of the property (as the nearest double) -/
theorem eps_is_1e6 : |(Num.ofConst Facts.majorityEps : Rat) - 1 / 1000000| < 1 / 10 ^ 20 := by
  simp only [Num.ofConst_rat, Facts.majorityEps]
  norm_num [abs_lt]

/-! ### draw policies -/

/-- the registry of main.go: `allow` is the default, the four names resolve, anything else panics -/
theorem policy_lookup :
    findPolicy "" = Except.ok .allow ∧ findPolicy "allow" = Except.ok .allow ∧
    findPolicy "current" = Except.ok .current ∧ findPolicy "newer" = Except.ok .newer ∧
    findPolicy "random" = Except.ok .random := by decide

theorem unknown_policy_rejected (name : String) (h0 : name ≠ "")
    (h : name ∉ ["allow", "current", "newer", "random"]) : ∃ e, findPolicy name = Except.error e := by
  have hr : registeredPolicies = [.allow, .current, .newer, .random] := by decide
  simp only [List.mem_cons, List.not_mem_nil, or_false, not_or] at h
  obtain ⟨h1, h2, h3, h4⟩ := h
  unfold findPolicy
  have hb : (name == "") = false := by simpa using h0
  simp only [hb, hr]
  have n1 : (DrawPolicy.allow.name == name) = false := by
    simp [DrawPolicy.name, Facts.drawAllow]; exact fun e => h1 e.symm
  have n2 : (DrawPolicy.current.name == name) = false := by
    simp [DrawPolicy.name, Facts.drawCurrent]; exact fun e => h2 e.symm
  have n3 : (DrawPolicy.newer.name == name) = false := by
    simp [DrawPolicy.name, Facts.drawNewer]; exact fun e => h3 e.symm
  have n4 : (DrawPolicy.random.name == name) = false := by
    simp [DrawPolicy.name, Facts.drawRandom]; exact fun e => h4 e.symm
  simp [List.find?, n1, n2, n3, n4]

/-- unequal scores decide regardless of the policy and without consuming a draw: the higher score
    stays / becomes the running winner, the loser drops out as (or with) its group -/
theorem decisive_match (pol : DrawPolicy) (s1 s2 : α) (st : MajState α) (a : Alt α) (d : Draws α)
    (hne : floatsAreEqual s1 s2 majorityEpsOf = false) :
    takeBetter pol s1 s2 st a d =
      if s2 < s1 then Except.ok ((resolveCurrent s1 s2 st a, s1), d)
      else Except.ok ((resolveNewer s1 s2 st a, s2), d) := by
  unfold takeBetter; simp [hne]

/-- `allow`: on equal scores the challenger is parked in the tie buffer of the running winner, which
    stays; its entry names the winner and reports (own score, winner's score) -/
theorem draw_allow (s1 s2 : α) (st : MajState α) (a : Alt α) (d : Draws α)
    (heq : floatsAreEqual s1 s2 majorityEpsOf = true) :
    takeBetter .allow s1 s2 st a d =
      Except.ok (({ st with same := st.same ++ [(a.id, ⟨s2, st.cur.id, s1⟩)] }, s1), d) := by
  unfold takeBetter; simp [heq, resolveDraw, resolveAllow]

/-- `current`: on equal scores the running winner stays, the challenger drops out alone -/
theorem draw_current (s1 s2 : α) (st : MajState α) (a : Alt α) (d : Draws α)
    (heq : floatsAreEqual s1 s2 majorityEpsOf = true) :
    takeBetter .current s1 s2 st a d =
      Except.ok (({ st with worse := st.worse ++ [[(a.id, ⟨s2, st.cur.id, s1⟩)]] }, s1), d) := by
  unfold takeBetter; simp [heq, resolveDraw, resolveCurrent]

/-- `newer`: on equal scores the challenger takes over; the old winner drops out together with its
    tie buffer, naming the challenger -/
theorem draw_newer (s1 s2 : α) (st : MajState α) (a : Alt α) (d : Draws α)
    (heq : floatsAreEqual s1 s2 majorityEpsOf = true) :
    takeBetter .newer s1 s2 st a d =
      Except.ok ((⟨[], st.worse ++ [st.same ++ [(st.cur.id, ⟨s1, a.id, s2⟩)]], a⟩, s1), d) := by
  unfold takeBetter; simp [heq, resolveDraw, resolveNewer]

/-- `random`: one draw is consumed; the running winner stays iff the draw is below the constant of
    the code, otherwise the challenger takes over -/
theorem draw_random (s1 s2 : α) (st : MajState α) (a : Alt α) (u : α) (d : Draws α)
    (heq : floatsAreEqual s1 s2 majorityEpsOf = true) :
    takeBetter .random s1 s2 st a (u :: d) =
      if u < Num.ofConst Facts.randomWinnerHalf then takeBetter .current s1 s2 st a d
      else takeBetter .newer s1 s2 st a d := by
  unfold takeBetter; simp [heq, resolveDraw, draw]; split <;> rfl

/-- … and that constant is one half -/
theorem random_threshold_is_half : (Num.ofConst Facts.randomWinnerHalf : Rat) = 1 / 2 := by
  simp only [Num.ofConst_rat, Facts.randomWinnerHalf]; norm_num

/-! ### search order -/

/-- with a current choice: it is the first running winner, looked up among all known alternatives;
    the challengers are the other considered alternatives (shuffled or in the given order) -/
theorem search_order_current_first (d : DMP α) (cur : String) (rnd : Bool) (ds ds' : Draws α)
    (first : Alt α) (rest : List (Alt α)) (hc : cur ≠ "")
    (h : searchOrder d cur rnd ds = Except.ok ((first, rest), ds')) :
    first.id = cur ∧ first ∈ d.all ∧ rest.Perm (removeAlt d.co cur) :=
  searchOrder_with_current d cur rnd ds ds' first rest hc h

/-- the seeded shuffle returns a permutation and consumes one draw per position but the first -/
theorem shuffle_is_permutation {β : Type} (l : List β) (ds : Draws α) (l' : List β) (ds' : Draws α)
    (h : shuffleAlts l ds = Except.ok (l', ds')) : l'.Perm l ∧ ds' = ds.drop (l.length - 1) :=
  ⟨shuffleLoop_perm _ _ _ _ _ h, shuffleLoop_draws _ _ _ _ _ h⟩

/-! ### the spec checker accepts the model's output -/

/-- the policy string handed to the checker (`params.DrawResolution`: a resolver's identifier, or ""
    for the default) selects the resolver the model plays with -/
theorem findPolicy_policyOk (dr : String) (pol : DrawPolicy) (h : findPolicy dr = Except.ok pol) :
    heurH11_policyOk pol dr := by
  have hr : registeredPolicies = [.allow, .current, .newer, .random] := by decide
  unfold findPolicy at h
  by_cases hb : dr = ""
  · subst hb
    simp [hr] at h
    exact Or.inr ⟨rfl, h.symm⟩
  · have hb' : (dr == "") = false := by simpa using hb
    simp only [hb', hr] at h
    left
    cases hf : List.find? (fun p : DrawPolicy => p.name == dr) [.allow, .current, .newer, .random] with
    | none => rw [hf] at h; simp at h
    | some q =>
      rw [hf] at h
      simp at h; subst h
      have hq : q.name = dr := by simpa using List.find?_some hf
      exact hq.symm

/-- **the checker accepts the tournament** (`Spec.C11.check`, exactly the function the driver op
    `check-c11` evaluates on the implementation's output, here on the model's): for every search order
    with pairwise distinct ids, every weighting, every one of the four policies and every draw sequence,
    provided the input is *well conditioned*.

    Why the extra hypothesis.  The code (and so the model) compares with `eps = float64(1e-6)`, the
    checker with the exact rational 1e-6 of the property text (`eps_is_1e6`: they differ by < 1e-20,
    the double being the smaller).  A criterion difference or a score difference `x` with
    `float64(1e-6) < |x| ≤ 1e-6` is therefore a strict win for the code and a tie for the checker;
    `heurH11_wellConditioned wc order` (decidable, on the inputs only) says that no pair of
    alternatives of the search order has such a criterion or score difference.  The harness applies
    the coarser filter `c11WellConditioned` (| |x| − 1e-6 | ≥ 1e-9·scale) before it calls the checker.
    Under policy `random` the checker reads the coin off the output by testing whether the challenger's
    `comparedWith` is the running winner's id; an alternative with the empty id would be confused
    with "no opponent", hence `hrandom`. -/
theorem tournament_output_passes_spec (pol : DrawPolicy) (policy : String) (hpol : heurH11_policyOk pol policy)
    (wc : List (WCrit Rat)) (first : Alt Rat) (rest : List (Alt Rat)) (d : Draws Rat)
    (out : List (Linked (MajEval Rat)))
    (h : majorityTournament pol wc first rest d = Except.ok out)
    (hnd : ((first :: rest).map (·.id)).Nodup)
    (hwc : heurH11_wellConditioned wc (first :: rest) = true)
    (hrandom : pol = .random → ∀ a ∈ first :: rest, a.id ≠ "") :
    Spec.C11.check wc (first :: rest) policy out = true :=
  heurH11_tournament_check hpol h hnd hwc hrandom

/-- the search order has pairwise distinct ids as soon as the considered alternatives have (the
    current choice, wherever it was looked up, is removed by id from the considered list) -/
theorem search_order_nodup (d : DMP α) (cur : String) (rnd : Bool) (ds ds' : Draws α)
    (first : Alt α) (rest : List (Alt α)) (hnd : (d.co.map (·.id)).Nodup)
    (h : searchOrder d cur rnd ds = Except.ok ((first, rest), ds')) :
    ((first :: rest).map (·.id)).Nodup := by
  by_cases hc : cur = ""
  · subst hc
    exact ((searchOrder_without_current d rnd ds ds' first rest h).map _).nodup_iff.mpr hnd
  · obtain ⟨hid, _, hperm⟩ := searchOrder_with_current d cur rnd ds ds' first rest hc h
    have hp : (rest.map (·.id)).Perm ((d.co.map (·.id)).erase cur) := by
      rw [← removeAlt_ids]; exact hperm.map _
    simp only [List.map_cons, List.nodup_cons]
    refine ⟨?_, hp.nodup_iff.mpr (hnd.erase _)⟩
    intro hm
    rw [hid] at hm
    exact (List.Nodup.mem_erase_iff hnd).mp (hp.subset hm) |>.1 rfl

/-- **model output passes the spec** — the full statement, with the checker called exactly as the
    driver op `check-c11` / harness/main/c11.go call it: weighted criteria = `ZipWithWeights`, search
    order as `GetAlternativesSearchOrder` returns it, policy = the request's `drawResolution` string.
    Domain: considered alternatives with pairwise distinct ids; well-conditioned margins (see
    `tournament_output_passes_spec`); no empty alternative id under `random`. -/
theorem model_output_passes_spec (d : DMP Rat) (ds : Draws Rat) (w : KMap Rat) (cur : String) (seed : Int)
    (rnd : Bool) (dr : String) (hmp : d.mp = .majority w cur seed rnd dr)
    (out : List (Linked (MajEval Rat))) (h : majorityEvaluate d ds = Except.ok out)
    (wc : List (WCrit Rat)) (hz : zipWithWeights d.crit w = Except.ok wc)
    (first : Alt Rat) (rest : List (Alt Rat)) (ds' : Draws Rat)
    (hso : searchOrder d cur rnd ds = Except.ok ((first, rest), ds'))
    (hnd : (d.co.map (·.id)).Nodup)
    (hwc : heurH11_wellConditioned wc (first :: rest) = true)
    (hrandom : dr = "random" → ∀ a ∈ first :: rest, a.id ≠ "") :
    Spec.C11.check wc (first :: rest) dr out = true := by
  unfold majorityEvaluate at h
  rw [hmp] at h
  simp only [hz, hso, R.bind_ok] at h
  obtain ⟨pol, hp, h⟩ := R.bind_eq_ok h
  have hpol := findPolicy_policyOk dr pol hp
  refine tournament_output_passes_spec pol dr hpol wc first rest ds' out h
    (search_order_nodup d cur rnd ds ds' first rest hnd hso) hwc ?_
  intro hr
  apply hrandom
  rcases hpol with e | ⟨_, e⟩
  · rw [e, hr]; rfl
  · rw [hr] at e; cases e

/-! ### satisfiable hypotheses -/

example : majorityTournament (α := Rat) .allow [] ⟨"a", []⟩ [] [] =
    Except.ok [⟨"a", ⟨0, "", 0⟩, []⟩] := rfl

/-- the hypotheses of `tournament_output_passes_spec` are satisfiable: a well-conditioned search order
    of three alternatives (gain and cost criterion), on which the checker accepts the model's output
    under each deterministic policy -/
example : heurH11_wellConditioned heurH11_exWc [heurH11_exA, heurH11_exB, heurH11_exC] = true := by
  decide +kernel

example : ([DrawPolicy.allow, .current, .newer].all fun pol =>
    match majorityTournament pol heurH11_exWc heurH11_exA [heurH11_exB, heurH11_exC] [] with
    | .ok out => Spec.C11.check heurH11_exWc [heurH11_exA, heurH11_exB, heurH11_exC] pol.name out
    | .error _ => false) = true := by decide +kernel

/-- … and `random` with the coin falling either way -/
example : ([[(1 : Rat) / 4, 3 / 4], [3 / 4, 1 / 4]].all fun draws =>
    match majorityTournament .random heurH11_exWc heurH11_exA [heurH11_exB, heurH11_exC] draws with
    | .ok out => Spec.C11.check heurH11_exWc [heurH11_exA, heurH11_exB, heurH11_exC] "random" out
    | .error _ => false) = true := by decide +kernel

/-- the well-conditioning hypothesis cannot be dropped: with a criterion difference of exactly 1e-6
    the code (and the model) scores a strict win, the exact-1e-6 checker a tie, and the checker rejects
    the model's output -/
example : heurH11_wellConditioned heurH11_gapWc [heurH11_gapA, heurH11_gapB] = false ∧
    (match majorityTournament .allow heurH11_gapWc heurH11_gapA [heurH11_gapB] [] with
     | .ok out => Spec.C11.check heurH11_gapWc [heurH11_gapA, heurH11_gapB] "allow" out
     | .error _ => true) = false := by decide +kernel

/-! ## end to end: whole requests (`decideWith` / `Rdm.decide`, Model/Decide.lean)

  Whatever biases ran before — every request, every bias list, every stream function, no bounds —, the answer
  of the majority heuristic is `Majority.Evaluate` on the state that reached it (`resp.final`), read on the
  stream `g seed` of the REQUEST's `randomSeed`, under the REQUEST's current choice, ordering flag and draw
  policy.  `e2emMajEntries resp.result` reads the response back as the list `Evaluate` returned (what
  `Spec.C11.check` is evaluated on).  Helper lemmas: Rdm/Lemmas/E2EMethods*.lean. -/

/-- **the configuration in force**: no bias exchanges the method nor touches `currentChoice`, `randomSeed`,
    `randomAlternativesOrdering` or `drawResolution` — the request's parsed parameters are majority parameters
    with these four iff the parameters that reach `Evaluate` are (the weights are what the biases left) -/
theorem decideWith_majority_parameters (exp : α → α) (aspOrder : List (WCrit α) → List (WCrit α))
    (req : Request α) (g : Int → Draws α) (resp : Response α) (h : decideWith exp aspOrder req g = .ok resp)
    (cur : String) (seed : Int) (rnd : Bool) (dr : String) :
    (∃ w₀, req.mp = some (.majority w₀ cur seed rnd dr)) ↔ (∃ w, resp.final.mp = .majority w cur seed rnd dr) := by
  constructor
  · rintro ⟨w₀, hmp⟩
    obtain ⟨w, _, hfin, _⟩ := e2em_decideWith_majority h hmp
    exact ⟨w, hfin⟩
  · rintro ⟨w, hfin⟩
    exact (e2em_decideWith_majority_of_final h hfin).1

/-- **the response IS the tournament on the final state** (any number type): for a request with majority
    parameters, if `MakeDecision` answers then — with `w` the weights the biases left — the weights zip to the
    criteria of the final state, the search order is `GetAlternativesSearchOrder` of the final state (current
    choice of the request first, shuffled iff the request says so, on the stream of the request's seed), the
    draw policy is the one the request names, and `result` is the tournament's ranking.  For distinct
    `choseToMake` the search order has distinct ids and consists of `choseToMake` plus the current choice when
    it is given and not among them.  (Every per-stage theorem above — `winner_is_first`,
    `loser_entry_semantics`, `opponent_in_same_or_later_group`, `no_tie_groups_unless_draws_allowed`,
    `links_name_ranked_alternatives`, … — applies to `e2emMajEntries resp.result` through this.) -/
theorem decideWith_majority_is_tournament (exp : α → α) (aspOrder : List (WCrit α) → List (WCrit α))
    (req : Request α) (g : Int → Draws α) (resp : Response α) (w₀ : KMap α) (cur : String) (seed : Int)
    (rnd : Bool) (dr : String) (h : decideWith exp aspOrder req g = .ok resp)
    (hmp : req.mp = some (.majority w₀ cur seed rnd dr)) :
    ∃ w wc first rest ds' pol,
      resp.final.mp = .majority w cur seed rnd dr ∧
      zipWithWeights resp.final.crit w = .ok wc ∧
      searchOrder resp.final cur rnd (g seed) = .ok ((first, rest), ds') ∧
      findPolicy dr = .ok pol ∧
      majorityTournament pol wc first rest ds' = .ok (e2emMajEntries resp.result) ∧
      resp.result = (e2emMajEntries resp.result).map (Linked.mapEv .maj) ∧
      (req.chosen.Nodup → ((first :: rest).map (·.id)).Nodup ∧
        ((first :: rest).map (·.id)).Perm (e2eExpected req.chosen cur)) := by
  obtain ⟨w, r, hfin, hr, hres⟩ := e2em_decideWith_majority h hmp
  obtain ⟨wc, first, rest, ds', pol, hz, hso, hp, ht⟩ := e2em_majorityEvaluate_ok hfin hr
  have hent : e2emMajEntries resp.result = r := by rw [hres, e2emMajEntries_map]
  obtain ⟨hco, _⟩ := e2em_decideWith_co h
  refine ⟨w, wc, first, rest, ds', pol, hfin, hz, hso, hp, by rw [hent]; exact ht, by rw [hent]; exact hres, ?_⟩
  intro hnd
  have hnd' : (resp.final.co.map (·.id)).Nodup := by rw [hco]; exact hnd
  refine ⟨search_order_nodup resp.final cur rnd (g seed) ds' first rest hnd' hso, ?_⟩
  have := e2e_searchOrder_ids hso
  rwa [hco] at this

/-- **`Spec.C11.check` accepts the response** (over `Rat`), the checker called as the driver op `check-c11`
    calls it on the state that reached `Evaluate`: weighted criteria = `ZipWithWeights` of the final criteria
    with the final weights, search order = `GetAlternativesSearchOrder` of the final state on the stream of the
    seed, policy = the `drawResolution` string.  The hypotheses of `model_output_passes_spec` are carried
    through unchanged, except that distinctness of the considered ids is now asked of `choseToMake`:
    well-conditioned margins on the final state; no empty alternative id under `random`. -/
theorem decideWith_majority_passes_spec (exp : Rat → Rat) (aspOrder : List (WCrit Rat) → List (WCrit Rat))
    (req : Request Rat) (g : Int → Draws Rat) (resp : Response Rat)
    (w : KMap Rat) (cur : String) (seed : Int) (rnd : Bool) (dr : String)
    (h : decideWith exp aspOrder req g = .ok resp) (hfin : resp.final.mp = .majority w cur seed rnd dr)
    (wc : List (WCrit Rat)) (hz : zipWithWeights resp.final.crit w = .ok wc)
    (first : Alt Rat) (rest : List (Alt Rat)) (ds' : Draws Rat)
    (hso : searchOrder resp.final cur rnd (g seed) = .ok ((first, rest), ds'))
    (hnd : req.chosen.Nodup)
    (hwc : heurH11_wellConditioned wc (first :: rest) = true)
    (hrandom : dr = "random" → ∀ a ∈ first :: rest, a.id ≠ "") :
    Spec.C11.check wc (first :: rest) dr (e2emMajEntries resp.result) = true := by
  obtain ⟨_, r, hr, hres⟩ := e2em_decideWith_majority_of_final h hfin
  have hent : e2emMajEntries resp.result = r := by rw [hres, e2emMajEntries_map]
  obtain ⟨hco, _⟩ := e2em_decideWith_co h
  rw [hent]
  exact model_output_passes_spec resp.final (g seed) w cur seed rnd dr hfin r hr wc hz first rest ds' hso
    (by rw [hco]; exact hnd) hwc hrandom

/-- … in one statement from the request: majority parameters in the request, distinct `choseToMake`; the
    weighted criteria and the search order exist (the model answered) and for them the checker accepts -/
theorem decideWith_majority_passes_spec_from_request (exp : Rat → Rat)
    (aspOrder : List (WCrit Rat) → List (WCrit Rat)) (req : Request Rat) (g : Int → Draws Rat)
    (resp : Response Rat) (w₀ : KMap Rat) (cur : String) (seed : Int) (rnd : Bool) (dr : String)
    (h : decideWith exp aspOrder req g = .ok resp) (hmp : req.mp = some (.majority w₀ cur seed rnd dr))
    (hnd : req.chosen.Nodup) :
    ∃ w wc first rest ds', resp.final.mp = .majority w cur seed rnd dr ∧
      zipWithWeights resp.final.crit w = .ok wc ∧
      searchOrder resp.final cur rnd (g seed) = .ok ((first, rest), ds') ∧
      (heurH11_wellConditioned wc (first :: rest) = true →
        (dr = "random" → ∀ a ∈ first :: rest, a.id ≠ "") →
        Spec.C11.check wc (first :: rest) dr (e2emMajEntries resp.result) = true) := by
  obtain ⟨w, wc, first, rest, ds', _, hfin, hz, hso, _⟩ :=
    decideWith_majority_is_tournament exp aspOrder req g resp w₀ cur seed rnd dr h hmp
  exact ⟨w, wc, first, rest, ds', hfin, hz, hso, fun hwc hrandom =>
    decideWith_majority_passes_spec exp aspOrder req g resp w cur seed rnd dr h hfin wc hz first rest ds' hso hnd
      hwc hrandom⟩

/-- **C11 for `Rdm.decide`** (`MakeDecision` with the registered generators read from a seed table) -/
theorem decide_majority_passes_spec (exp : Rat → Rat) (req : Request Rat) (seeds : Seeds Rat)
    (resp : Response Rat) (w : KMap Rat) (cur : String) (seed : Int) (rnd : Bool) (dr : String)
    (h : Rdm.decide exp req seeds = .ok resp) (hfin : resp.final.mp = .majority w cur seed rnd dr)
    (wc : List (WCrit Rat)) (hz : zipWithWeights resp.final.crit w = .ok wc)
    (first : Alt Rat) (rest : List (Alt Rat)) (ds' : Draws Rat)
    (hso : searchOrder resp.final cur rnd (genOf seeds seed) = .ok ((first, rest), ds'))
    (hnd : req.chosen.Nodup)
    (hwc : heurH11_wellConditioned wc (first :: rest) = true)
    (hrandom : dr = "random" → ∀ a ∈ first :: rest, a.id ≠ "") :
    Spec.C11.check wc (first :: rest) dr (e2emMajEntries resp.result) = true :=
  decideWith_majority_passes_spec exp _ req _ resp w cur seed rnd dr h hfin wc hz first rest ds' hso hnd hwc hrandom

/-- the hypotheses are satisfiable: a majority request (current choice `"d"` known but not in `choseToMake`,
    policy `current`, a fatigue fired before and rewrote every value) — the model answers, the margins of the
    final state are well conditioned, and the checker accepts the response -/
example : ∃ resp wc order, Rdm.decide id e2emExMajority e2eExSeeds = .ok resp ∧
    order.map (·.id) = ["d", "c", "a", "b"] ∧
    Spec.C11.check wc order "current" (e2emMajEntries resp.result) = true := by
  have h := e2em_eq_ok_getD e2emNoResponse (x := Rdm.decide id e2emExMajority e2eExSeeds) (by decide +kernel)
  generalize hresp : e2emGetD e2emNoResponse (Rdm.decide id e2emExMajority e2eExSeeds) = resp at h
  obtain ⟨w, hfin⟩ := (decideWith_majority_parameters id _ _ _ resp h "d" 11 false "current").mp ⟨_, rfl⟩
  have hw : w = e2emWeightsOf resp.final.mp := by rw [hfin]; rfl
  subst hw
  have hz := e2em_eq_ok_getD [] (x := zipWithWeights resp.final.crit (e2emWeightsOf resp.final.mp))
    (by subst hresp; decide +kernel)
  have hso := e2em_eq_ok_getD ((⟨"", []⟩, []), []) (x := searchOrder resp.final "d" false (genOf e2eExSeeds 11))
    (by subst hresp; decide +kernel)
  refine ⟨resp, _, _, h, ?_, decide_majority_passes_spec id _ _ resp _ "d" 11 false "current" h hfin _ hz _ _ _ hso
    (by decide) (by subst hresp; decide +kernel) (fun hr => absurd hr (by decide))⟩
  subst hresp; decide +kernel

/-- the constants and names this property depends on were re-read from the working tree on this run
    (none fell back to its pinned value because its declaration could not be located) -/
theorem facts_fresh : (Rdm.Facts.staleFacts.all fun n => !["majorityEps", "randomWinnerHalf", "drawAllow", "drawCurrent", "drawNewer", "drawRandom", "wiringDrawResolvers", "methodMajority"].contains n) = true := by decide

end Rdm.Props.C11
