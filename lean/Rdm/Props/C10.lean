/-
  C10 — concurrent requests do not influence each other.

  What a Lean model can carry: an abstract shared-memory machine with an arbitrary scheduler and the
  theorem that a handler whose read set is never written by another handler computes, under every
  interleaving, exactly what it computes alone.  The premise is discharged for THIS code base from
  facts regenerated from the source on every run (tools/sites, typed go/packages analysis):
  no type held by the process-wide registries has a method that assigns to a receiver field, no
  function assigns to a package-level variable, every BlankParams/NewProvider returns a fresh
  allocation (or a field-less receiver), and lib/ starts no goroutines and uses no channels.
  Not expressible in any Lean model (labelled partial): data-race freedom of the real execution —
  supported by running the service with the race detector under concurrent load (harness c10.go).
-/
import Rdm.Generated.Sites
namespace Rdm.Props.C10

/-! ### abstract machine -/

variable {Loc Val L : Type} [DecidableEq Loc]

/-- shared memory -/
abbrev Mem (Loc Val : Type) := Loc → Val

/-- one atomic step of a handler: from the memory and its private state to a new private state and a
    list of writes -/
abbrev Step (Loc Val L : Type) := Mem Loc Val → L → L × List (Loc × Val)

def applyWrites (m : Mem Loc Val) : List (Loc × Val) → Mem Loc Val
  | [] => m
  | (l, v) :: ws => applyWrites (fun x => if x = l then v else m x) ws

/-- a handler: its steps, the locations it may read and the locations it may write -/
structure Handler (Loc Val L : Type) where
  step : Step Loc Val L
  reads : Loc → Prop
  writes : Loc → Prop
  /-- the step depends on memory only through `reads` -/
  frame_read : ∀ m m' s, (∀ l, reads l → m l = m' l) → step m s = step m' s
  /-- the step writes only `writes` -/
  frame_write : ∀ m s l v, (l, v) ∈ (step m s).2 → writes l

theorem applyWrites_other (m : Mem Loc Val) (ws : List (Loc × Val)) (x : Loc)
    (h : ∀ p ∈ ws, p.1 ≠ x) : applyWrites m ws x = m x := by
  induction ws generalizing m with
  | nil => rfl
  | cons p ws ih =>
    obtain ⟨l, v⟩ := p
    simp only [applyWrites]
    rw [ih]
    · have : l ≠ x := h (l, v) (by simp)
      simp [Ne.symm this]
    · intro q hq; exact h q (by simp [hq])

theorem applyWrites_congr (m m' : Mem Loc Val) (ws : List (Loc × Val)) (x : Loc)
    (h : m x = m' x) : applyWrites m ws x = applyWrites m' ws x := by
  induction ws generalizing m m' with
  | nil => exact h
  | cons p ws ih =>
    obtain ⟨l, v⟩ := p
    simp only [applyWrites]
    apply ih
    by_cases hx : x = l <;> simp [hx, h]

/-- a schedule: at each tick either the observed handler `h` moves or some other handler
    (given by its step function and private state evolution, here abstracted to its write list,
    which must avoid `h.reads`) -/
inductive Tick (Loc Val : Type) where
  | self
  | other (ws : List (Loc × Val))

/-- run handler `h` under a schedule; `other` ticks apply foreign writes to the memory -/
def run (h : Handler Loc Val L) : List (Tick Loc Val) → Mem Loc Val → L → Mem Loc Val × L
  | [], m, s => (m, s)
  | .self :: ts, m, s =>
    let r := h.step m s
    run h ts (applyWrites m r.2) r.1
  | .other ws :: ts, m, s => run h ts (applyWrites m ws) s

/-- the same handler alone: foreign ticks removed -/
def solo (sched : List (Tick Loc Val)) : List (Tick Loc Val) :=
  sched.filter fun t => match t with | .self => true | .other _ => false

/-- **Non-interference.**  If no foreign write ever touches a location the handler reads, then under
    every interleaving the handler ends in the private state it reaches alone, and the memory it can
    read is what it would be alone. -/
theorem noninterference (h : Handler Loc Val L) :
    ∀ (sched : List (Tick Loc Val)) (m m' : Mem Loc Val) (s : L),
      (∀ t ∈ sched, ∀ ws, t = Tick.other ws → ∀ p ∈ ws, ¬ h.reads p.1) →
      (∀ l, h.reads l → m l = m' l) →
      (run h sched m s).2 = (run h (solo sched) m' s).2 ∧
      ∀ l, h.reads l → (run h sched m s).1 l = (run h (solo sched) m' s).1 l
  | [], m, m', s, _, hm => ⟨rfl, hm⟩
  | .self :: ts, m, m', s, hf, hm => by
    have e := h.frame_read m m' s hm
    simp only [run, solo, List.filter_cons_of_pos]
    rw [e]
    apply noninterference h ts
    · intro t ht ws hw; exact hf t (by simp [ht]) ws hw
    · intro l hl
      exact applyWrites_congr m m' _ l (hm l hl)
  | .other ws :: ts, m, m', s, hf, hm => by
    have hnot : ∀ p ∈ ws, ¬ h.reads p.1 := hf (.other ws) (by simp) ws rfl
    simp only [run, solo]
    rw [List.filter_cons_of_neg (by simp)]
    apply noninterference h ts
    · intro t ht ws' hw; exact hf t (by simp [ht]) ws' hw
    · intro l hl
      rw [applyWrites_other m ws l]
      · exact hm l hl
      · intro p hp hpe; exact hnot p hp (hpe ▸ hl)

/-! ### the premise, discharged from facts regenerated from /repo on every run -/

/-- No type held by the process-wide registries assigns to a receiver field: every object a
    concurrent request can share is read-only after start-up (at the level of the syntactic write
    analysis). -/
theorem registry_types_never_written :
    Sites.receiverWrittenTypes.all (fun t => !Sites.registryHeldTypes.contains t) = true := by
  decide

/-- no function assigns to a package-level variable -/
theorem no_package_variable_written : Sites.packageVarWrites = [] := by decide

/-- every `BlankParams` / `NewProvider` hands out a fresh allocation or a field-less receiver -/
theorem per_request_objects_fresh : Sites.blankParamsNotFresh = [] := by decide

/-- the library itself starts no goroutines, uses no channels, no clock and no global random source -/
theorem no_concurrency_primitives_in_lib :
    Sites.goStatements = [] ∧ Sites.channelOps = [] ∧ Sites.clockUses = [] ∧ Sites.globalRandUses = [] := by
  decide

end Rdm.Props.C10
