/-
  C10 — concurrent requests do not influence each other.

  What a Lean model can carry: an abstract shared-memory machine with an arbitrary scheduler and the
  theorem that a handler whose read set is never written by another handler computes, under every
  interleaving, exactly what it computes alone.  The premise is discharged for THIS code base from
  facts regenerated from the source on every run (tools/sites, typed go/packages analysis):
  no type held by the process-wide registries has a method that assigns to a receiver field, no
  function assigns to a package-level variable, every BlankParams/NewProvider returns a fresh
  allocation (or a field-less receiver), and lib/ starts no goroutines and uses no channels.
  Not expressible in any Lean model (labelled partial): data-race freedom of the real execution —
  supported by running the service with the race detector under concurrent load (harness c10.go).
-/
import Rdm.Generated.Sites
import Rdm.Lemmas.E2EServiceBatch
import Rdm.Lemmas.E2EExamples
namespace Rdm.Props.C10

/-! ### abstract machine -/

variable {Loc Val L : Type} [DecidableEq Loc]

/-- shared memory -/
abbrev Mem (Loc Val : Type) := Loc → Val

/-- one atomic step of a handler: from the memory and its private state to a new private state and a
    list of writes -/
abbrev Step (Loc Val L : Type) := Mem Loc Val → L → L × List (Loc × Val)

def applyWrites (m : Mem Loc Val) : List (Loc × Val) → Mem Loc Val
  | [] => m
  | (l, v) :: ws => applyWrites (fun x => if x = l then v else m x) ws

/-- a handler: its steps, the locations it may read and the locations it may write -/
structure Handler (Loc Val L : Type) where
  step : Step Loc Val L
  reads : Loc → Prop
  writes : Loc → Prop
  /-- the step depends on memory only through `reads` -/
  frame_read : ∀ m m' s, (∀ l, reads l → m l = m' l) → step m s = step m' s
  /-- the step writes only `writes` -/
  frame_write : ∀ m s l v, (l, v) ∈ (step m s).2 → writes l

theorem applyWrites_other (m : Mem Loc Val) (ws : List (Loc × Val)) (x : Loc)
    (h : ∀ p ∈ ws, p.1 ≠ x) : applyWrites m ws x = m x := by
  induction ws generalizing m with
  | nil => rfl
  | cons p ws ih =>
    obtain ⟨l, v⟩ := p
    simp only [applyWrites]
    rw [ih]
    · have : l ≠ x := h (l, v) (by simp)
      simp [Ne.symm this]
    · intro q hq; exact h q (by simp [hq])

theorem applyWrites_congr (m m' : Mem Loc Val) (ws : List (Loc × Val)) (x : Loc)
    (h : m x = m' x) : applyWrites m ws x = applyWrites m' ws x := by
  induction ws generalizing m m' with
  | nil => exact h
  | cons p ws ih =>
    obtain ⟨l, v⟩ := p
    simp only [applyWrites]
    apply ih
    by_cases hx : x = l <;> simp [hx, h]

/-- a schedule: at each tick either the observed handler `h` moves or some other handler
    (given by its step function and private state evolution, here abstracted to its write list,
    which must avoid `h.reads`) -/
inductive Tick (Loc Val : Type) where
  | self
  | other (ws : List (Loc × Val))

/-- run handler `h` under a schedule; `other` ticks apply foreign writes to the memory -/
def run (h : Handler Loc Val L) : List (Tick Loc Val) → Mem Loc Val → L → Mem Loc Val × L
  | [], m, s => (m, s)
  | .self :: ts, m, s =>
    let r := h.step m s
    run h ts (applyWrites m r.2) r.1
  | .other ws :: ts, m, s => run h ts (applyWrites m ws) s

/-- the same handler alone: foreign ticks removed -/
def solo (sched : List (Tick Loc Val)) : List (Tick Loc Val) :=
  sched.filter fun t => match t with | .self => true | .other _ => false

/-- **Non-interference.**  If no foreign write ever touches a location the handler reads, then under
    every interleaving the handler ends in the private state it reaches alone, and the memory it can
    read is what it would be alone. -/
theorem noninterference (h : Handler Loc Val L) :
    ∀ (sched : List (Tick Loc Val)) (m m' : Mem Loc Val) (s : L),
      (∀ t ∈ sched, ∀ ws, t = Tick.other ws → ∀ p ∈ ws, ¬ h.reads p.1) →
      (∀ l, h.reads l → m l = m' l) →
      (run h sched m s).2 = (run h (solo sched) m' s).2 ∧
      ∀ l, h.reads l → (run h sched m s).1 l = (run h (solo sched) m' s).1 l
  | [], m, m', s, _, hm => ⟨rfl, hm⟩
  | .self :: ts, m, m', s, hf, hm => by
    have e := h.frame_read m m' s hm
    simp only [run, solo, List.filter_cons_of_pos]
    rw [e]
    apply noninterference h ts
    · intro t ht ws hw; exact hf t (by simp [ht]) ws hw
    · intro l hl
      exact applyWrites_congr m m' _ l (hm l hl)
  | .other ws :: ts, m, m', s, hf, hm => by
    have hnot : ∀ p ∈ ws, ¬ h.reads p.1 := hf (.other ws) (by simp) ws rfl
    simp only [run, solo]
    rw [List.filter_cons_of_neg (by simp)]
    apply noninterference h ts
    · intro t ht ws' hw; exact hf t (by simp [ht]) ws' hw
    · intro l hl
      rw [applyWrites_other m ws l]
      · exact hm l hl
      · intro p hp hpe; exact hnot p hp (hpe ▸ hl)

/-! ### the premise, discharged from facts regenerated from /repo on every run -/

/-- No type held by the process-wide registries assigns to a receiver field: every object a
    concurrent request can share is read-only after start-up (at the level of the syntactic write
    analysis). -/
theorem registry_types_never_written :
    Sites.receiverWrittenTypes.all (fun t => !Sites.registryHeldTypes.contains t) = true := by
  decide

/-- no function assigns to a package-level variable -/
theorem no_package_variable_written : Sites.packageVarWrites = [] := by decide

/-- every `BlankParams` / `NewProvider` hands out a fresh allocation or a field-less receiver -/
theorem per_request_objects_fresh : Sites.blankParamsNotFresh = [] := by decide

/-- the library itself starts no goroutines, uses no channels, no clock and no global random source -/
theorem no_concurrency_primitives_in_lib :
    Sites.goStatements = [] ∧ Sites.channelOps = [] ∧ Sites.clockUses = [] ∧ Sites.globalRandUses = [] := by
  decide

/-! ## END TO END: a batch of whole requests, in any order

The machine above is abstract.  Here the model of the whole `MakeDecision` is plugged in.  The handler of the
model is the function `Rdm.decide exp · seeds` (Model/Decide.lean): it reads the request and the seeded streams
and nothing else — no registry object is written, no state survives a request (for the real code that premise is
discharged above from the regenerated facts).  Two readings of "concurrent requests do not influence each other"
follow for the model:
  * batch reading (`e2esHandleAll`, Lemmas/E2EServiceBatch.lean): handling a batch of requests in ANY order —
    any permutation, any interleaving of several clients' sequences — yields for each request the response of
    handling it alone;
  * machine reading: as a `Handler` of the machine above, a decision has an empty read set, so under every
    schedule with arbitrary foreign writes it ends with the response it computes alone. -/

section EndToEnd
open Rdm
variable {α : Type} [Num α]

/-- handling one request alone -/
theorem handled_alone (exp : α → α) (seeds : Seeds α) (t : Nat) (req : Request α) :
    e2esHandleAll exp seeds [(t, req)] = [(t, Rdm.decide exp req seeds)] := rfl

/-- **N3 (C10)**: a batch handled in any order `batch'` (a permutation of `batch`) yields, for each request,
    exactly the response of handling it alone: the tagged responses are the same up to the same reordering,
    every request of the batch is answered with its solo response, and nothing else is answered -/
theorem batch_in_any_order_gives_each_request_its_solo_response (exp : α → α) (seeds : Seeds α)
    (batch batch' : List (Nat × Request α)) (h : batch'.Perm batch) :
    (e2esHandleAll exp seeds batch').Perm (e2esHandleAll exp seeds batch) ∧
    (∀ t req, (t, req) ∈ batch → ∀ r, e2esHandleAll exp seeds [(t, req)] = [(t, r)] →
      (t, r) ∈ e2esHandleAll exp seeds batch') ∧
    (∀ t r, (t, r) ∈ e2esHandleAll exp seeds batch' →
      ∃ req, (t, req) ∈ batch ∧ e2esHandleAll exp seeds [(t, req)] = [(t, r)]) := by
  refine ⟨e2es_handleAll_perm exp seeds h, ?_, ?_⟩
  · intro t req hm r hr
    rw [handled_alone] at hr
    simp only [List.cons.injEq, Prod.mk.injEq, true_and, and_true] at hr
    subst hr
    exact (e2es_handleAll_mem _ _ _ _ _).mpr ⟨req, h.mem_iff.mpr hm, rfl⟩
  · intro t r hm
    obtain ⟨req, hq, rfl⟩ := (e2es_handleAll_mem _ _ _ _ _).mp hm
    exact ⟨req, h.mem_iff.mp hq, rfl⟩

/-- with pairwise different tags the response to a tag is unique: in whatever order the batch is handled, tag
    `t` gets the response its request gets alone -/
theorem response_to_a_tag_is_its_solo_response (exp : α → α) (seeds : Seeds α)
    (batch batch' : List (Nat × Request α)) (h : batch'.Perm batch) (hnd : (batch.map (·.1)).Nodup)
    (t : Nat) (req : Request α) (hm : (t, req) ∈ batch) (r : R (Response α))
    (hr : (t, r) ∈ e2esHandleAll exp seeds batch') : r = Rdm.decide exp req seeds := by
  obtain ⟨req', hq, rfl⟩ := (e2es_handleAll_mem _ _ _ _ _).mp hr
  have hq' : (t, req') ∈ batch := h.mem_iff.mp hq
  have : req' = req := by
    have hpw : batch.Pairwise (fun a b => a.1 ≠ b.1) := List.pairwise_map.mp hnd
    apply Classical.byContradiction
    intro hne
    obtain ⟨i, hi, ei⟩ := List.mem_iff_getElem.mp hq'
    obtain ⟨j, hj, ej⟩ := List.mem_iff_getElem.mp hm
    have hij : i ≠ j := by
      rintro rfl
      rw [ei] at ej
      exact hne (Prod.mk.inj ej).2
    rcases Nat.lt_or_gt_of_ne hij with hlt | hlt
    · have := List.pairwise_iff_getElem.mp hpw i j hi hj hlt
      rw [ei, ej] at this
      exact this rfl
    · have := List.pairwise_iff_getElem.mp hpw j i hj hi hlt
      rw [ei, ej] at this
      exact this rfl
  rw [this]

/-- two clients' sequences interleaved in any way (any list with the same entries as their concatenation): each
    client's requests get the responses they get when that client is served alone -/
theorem interleaving_two_clients (exp : α → α) (seeds : Seeds α) (c₁ c₂ merged : List (Nat × Request α))
    (h : merged.Perm (c₁ ++ c₂)) :
    ∀ t r, (t, r) ∈ e2esHandleAll exp seeds c₁ → (t, r) ∈ e2esHandleAll exp seeds merged := by
  intro t r hm
  obtain ⟨req, hq, rfl⟩ := (e2es_handleAll_mem _ _ _ _ _).mp hm
  exact (e2es_handleAll_mem _ _ _ _ _).mpr ⟨req, h.mem_iff.mpr (List.mem_append_left _ hq), rfl⟩

/-- the decision of one request as a handler of the abstract machine: one step, reading no shared location and
    writing none; its private state is the response once computed -/
def decisionHandler (Loc Val : Type) (exp : α → α) (req : Request α) (seeds : Seeds α) :
    Handler Loc Val (Option (R (Response α))) where
  step := fun _ _ => (some (Rdm.decide exp req seeds), [])
  reads := fun _ => False
  writes := fun _ => False
  frame_read := fun _ _ _ _ => rfl
  frame_write := fun _ _ _ _ h => by cases h

/-- **machine reading**: under every schedule — any number of foreign ticks writing anything anywhere, before,
    between and after — a decision that gets at least one tick ends with the response it computes alone -/
theorem decision_under_any_schedule {Loc Val : Type} [DecidableEq Loc] (exp : α → α) (req : Request α)
    (seeds : Seeds α) (sched : List (Tick Loc Val)) (m : Mem Loc Val) (s : Option (R (Response α)))
    (hself : Tick.self ∈ sched) :
    (run (decisionHandler Loc Val exp req seeds) sched m s).2 = some (Rdm.decide exp req seeds) := by
  have hdone : ∀ (sched : List (Tick Loc Val)) (m : Mem Loc Val),
      (run (decisionHandler Loc Val exp req seeds) sched m (some (Rdm.decide exp req seeds))).2
        = some (Rdm.decide exp req seeds) := by
    intro sched
    induction sched with
    | nil => intro m; rfl
    | cons t ts ih =>
      intro m
      cases t with
      | self => exact ih _
      | other ws => exact ih _
  induction sched generalizing m s with
  | nil => cases hself
  | cons t ts ih =>
    cases t with
    | self => exact hdone ts _
    | other ws =>
      have : Tick.self ∈ ts := by
        rcases List.mem_cons.mp hself with h | h
        · cases h
        · exact h
      exact ih _ _ this

/-- … and it is an instance of `noninterference`: its read set is empty, so every schedule is admissible -/
theorem decision_is_noninterfering {Loc Val : Type} [DecidableEq Loc] (exp : α → α) (req : Request α)
    (seeds : Seeds α) (sched : List (Tick Loc Val)) (m m' : Mem Loc Val) (s : Option (R (Response α))) :
    (run (decisionHandler Loc Val exp req seeds) sched m s).2
      = (run (decisionHandler Loc Val exp req seeds) (solo sched) m' s).2 :=
  (noninterference (decisionHandler Loc Val exp req seeds) sched m m' s
    (fun _ _ _ _ _ _ h => h) (fun _ h => h.elim)).1

/-- the batch of the examples in another order -/
theorem example_batch_perm :
    ([(2, e2eExMaj), (0, e2eExWs), (3, e2eExMaj), (1, e2eExWs)] : List (Nat × Request Rat)).Perm
      [(0, e2eExWs), (1, e2eExWs), (2, e2eExMaj), (3, e2eExMaj)] :=
  (List.Perm.swap _ _ _).trans
    (List.Perm.cons _ (((List.Perm.swap _ _ _).cons _).trans (List.Perm.swap _ _ _)))

/-- the hypotheses are satisfiable: the weighted-sum and the majority example requests, each submitted twice,
    handled in two different orders — same tagged responses -/
example : (e2esHandleAll id e2eExSeeds [(2, e2eExMaj), (0, e2eExWs), (3, e2eExMaj), (1, e2eExWs)]).Perm
    (e2esHandleAll id e2eExSeeds [(0, e2eExWs), (1, e2eExWs), (2, e2eExMaj), (3, e2eExMaj)]) :=
  (batch_in_any_order_gives_each_request_its_solo_response id e2eExSeeds _ _ example_batch_perm).1

example (r : R (Response Rat))
    (h : (1, r) ∈ e2esHandleAll id e2eExSeeds [(2, e2eExMaj), (0, e2eExWs), (3, e2eExMaj), (1, e2eExWs)]) :
    r = Rdm.decide id e2eExWs e2eExSeeds :=
  response_to_a_tag_is_its_solo_response id e2eExSeeds
    [(0, e2eExWs), (1, e2eExWs), (2, e2eExMaj), (3, e2eExMaj)] _ example_batch_perm (by decide) 1 e2eExWs
    (by simp) r h

end EndToEnd

end Rdm.Props.C10
