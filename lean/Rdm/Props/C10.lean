/- C10 — property theorems (stub; filled in by the owning work package). -/
import Rdm.Basic
namespace Rdm.Props.C10
end Rdm.Props.C10
