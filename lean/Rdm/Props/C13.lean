/-
  C13 — the satisfaction heuristic ranks by the first level an alternative satisfies.
  Property theorems only (helper lemmas: Rdm/Lemmas/HeurSatisf.lean, HeurLinks.lean, HeurList.lean).
  All theorems are generic in the number type (they hold for the Float model run by the driver and for
  the Rat model alike) and for every number of alternatives, criteria and levels.

  Model: Rdm/Model/Heuristics.lean (`searchOrder`, `isGoodEnough`, `satAltLoop`, `satLevelLoop`,
  `worstEnds`, `satisfactionCore`, `satisfactionEvaluateWith`); spec on outputs: Rdm/Spec/C13.lean.
-/
import Rdm.Model.Heuristics
import Rdm.Spec.C13
import Rdm.Lemmas.HeurList
import Rdm.Lemmas.HeurLinks
import Rdm.Lemmas.HeurSatisf
set_option linter.unusedSectionVars false
set_option linter.unusedSimpArgs false
namespace Rdm.Props.C13
open Rdm
variable {α : Type} [Num α]

/-- inversion of `satisfactionCore`: the ranking is the sequential ranking of acceptances followed by
    the leftovers, which all carry the index after the last level and the worst range ends -/
theorem core_shape (d : DMP α) (levels : List (KMap α)) (order : List (Alt α))
    (out : List (Linked (SatEval α))) (h : satisfactionCore d levels order = Except.ok out) :
    ∃ left acc si, satLevelLoop d.crit 0 levels order = Except.ok (left, acc, si) ∧
      ((left = [] ∧ out = sequentialRanking acc) ∨
       (left ≠ [] ∧ ∃ lowest, worstEnds d = Except.ok lowest ∧
          out = sequentialRanking (acc ++ left.map fun a => (a.id, (⟨si, lowest⟩ : SatEval α))))) := by
  unfold satisfactionCore at h
  obtain ⟨⟨left, acc, si⟩, h1, h⟩ := R.bind_eq_ok h
  refine ⟨left, acc, si, h1, ?_⟩
  cases left with
  | nil => left; simp at h; exact ⟨rfl, by rw [← h]⟩
  | cons x xs =>
    right
    simp only [List.isEmpty_cons, Bool.false_eq_true, if_false] at h
    obtain ⟨lowest, h3, h⟩ := R.bind_eq_ok h
    simp at h
    exact ⟨by simp, lowest, h3, by rw [← h]; simp⟩

/-- **permutation**: every alternative of the search order is ranked exactly once -/
theorem result_is_permutation_of_search_order (d : DMP α) (levels : List (KMap α)) (order : List (Alt α))
    (out : List (Linked (SatEval α))) (hnd : (order.map (·.id)).Nodup)
    (h : satisfactionCore d levels order = Except.ok out) :
    (out.map (·.id)).Perm (order.map (·.id)) := by
  obtain ⟨left, acc, si, hl, hcase⟩ := core_shape d levels order out h
  obtain ⟨p1, _, _, _, _⟩ := satLevelLoop_spec hnd hl
  rcases hcase with ⟨rfl, rfl⟩ | ⟨_, lowest, _, rfl⟩
  · rw [heurSeq_ids]; simpa using p1
  · rw [heurSeq_ids]
    simpa [Function.comp_def] using p1

/-- **links**: entry `i` is linked to entry `i+1` only (`PrepareSequentialRanking`) -/
theorem links_are_sequential (d : DMP α) (levels : List (KMap α)) (order : List (Alt α))
    (out : List (Linked (SatEval α))) (h : satisfactionCore d levels order = Except.ok out)
    (i : Nat) (e : Linked (SatEval α)) (he : out[i]? = some e) :
    e.links = ((out.map (·.id))[i + 1]?).toList := by
  obtain ⟨left, acc, si, _, hcase⟩ := core_shape d levels order out h
  rcases hcase with ⟨_, rfl⟩ | ⟨_, lowest, _, rfl⟩
  · rw [heurSeq_ids]; exact heurSeq_links _ i e he
  · rw [heurSeq_ids]; exact heurSeq_links _ i e he

/-- **accepted-at-level semantics**: an entry whose index is a level index reports exactly the
    thresholds of that level, its alternative meets them on every criterion and fails every earlier
    level on some criterion.  **leftovers**: every other entry reports the number of levels and the
    worst end of every criterion's range, and its alternative fails every level. -/
theorem entry_semantics (d : DMP α) (levels : List (KMap α)) (order : List (Alt α))
    (out : List (Linked (SatEval α))) (hnd : (order.map (·.id)).Nodup)
    (h : satisfactionCore d levels order = Except.ok out) (e : Linked (SatEval α)) (he : e ∈ out) :
    (e.ev.idx < levels.length ∧ levels[e.ev.idx]? = some e.ev.thr ∧
       ∃ a ∈ order, a.id = e.id ∧ LevelGood d.crit a e.ev.thr ∧
         ∀ j < e.ev.idx, ∃ t, levels[j]? = some t ∧ LevelBad d.crit a t) ∨
    (e.ev.idx = levels.length ∧ worstEnds d = Except.ok e.ev.thr ∧
       ∃ a ∈ order, a.id = e.id ∧ ∀ t ∈ levels, LevelBad d.crit a t) := by
  obtain ⟨left, acc, si, hl, hcase⟩ := core_shape d levels order out h
  obtain ⟨_, p2, p3, p4, p5⟩ := satLevelLoop_spec hnd hl
  have accepted : (e.id, e.ev) ∈ acc →
      (e.ev.idx < levels.length ∧ levels[e.ev.idx]? = some e.ev.thr ∧
       ∃ a ∈ order, a.id = e.id ∧ LevelGood d.crit a e.ev.thr ∧
         ∀ j < e.ev.idx, ∃ t, levels[j]? = some t ∧ LevelBad d.crit a t) := by
    intro hm
    obtain ⟨j, hj, hlv, a, ha, hid, hg, hb⟩ := p4 _ hm
    simp only [Nat.zero_add] at hj
    have hjl : j < levels.length := by
      rcases List.getElem?_eq_some_iff.mp hlv with ⟨hh, _⟩; exact hh
    refine ⟨by omega, by rw [hj]; exact hlv, a, ha, hid, hg, ?_⟩
    intro j' hj'; exact hb j' (by omega)
  rcases hcase with ⟨_, rfl⟩ | ⟨hne, lowest, hw, rfl⟩
  · left; exact accepted (heurSeq_mem _ e he)
  · rcases List.mem_append.mp (heurSeq_mem _ e he) with hm | hm
    · left; exact accepted hm
    · right
      obtain ⟨a, ha, hpair⟩ := List.mem_map.mp hm
      have hid : a.id = e.id := congrArg Prod.fst hpair
      have hev : (⟨si, lowest⟩ : SatEval α) = e.ev := congrArg Prod.snd hpair
      refine ⟨?_, ?_, a, p2.subset ha, hid, fun t ht => p5 a ha t ht⟩
      · rw [← hev]; simpa using p3 hne
      · rw [← hev]; exact hw

/-- **acceptance order is lexicographic (level, search position)**: along the ranking the reported
    level index never decreases (leftovers, with index `#levels`, come last), and the alternatives
    reporting the same index appear in search order -/
theorem acceptance_order_is_lexicographic (d : DMP α) (levels : List (KMap α)) (order : List (Alt α))
    (out : List (Linked (SatEval α))) (hnd : (order.map (·.id)).Nodup)
    (h : satisfactionCore d levels order = Except.ok out) :
    (out.map (·.ev.idx)).Pairwise (· ≤ ·) ∧
    ∀ ℓ, ((out.filter (fun e => e.ev.idx == ℓ)).map (·.id)).Sublist (order.map (·.id)) := by
  obtain ⟨left, acc, si, hl, hcase⟩ := core_shape d levels order out h
  obtain ⟨_, p2, p3, p4, _⟩ := satLevelLoop_spec hnd hl
  obtain ⟨o1, _, o3⟩ := satLevelLoop_order hnd hl
  -- everything is read off the (id, evaluation) pairs the ranking was built from
  have key : ∀ (l : List (String × SatEval α)),
      (l.map (·.2.idx)).Pairwise (· ≤ ·) →
      (∀ ℓ, ((l.filter (fun p => p.2.idx == ℓ)).map (·.1)).Sublist (order.map (·.id))) →
      ((sequentialRanking l).map (·.ev.idx)).Pairwise (· ≤ ·) ∧
      ∀ ℓ, (((sequentialRanking l).filter (fun e => e.ev.idx == ℓ)).map (·.id)).Sublist (order.map (·.id)) := by
    intro l h1 h2
    have hp := heurSeq_payload l
    constructor
    · have : (sequentialRanking l).map (·.ev.idx) = l.map (·.2.idx) := by
        conv_rhs => rw [← hp]
        simp [Function.comp_def]
      rw [this]; exact h1
    · intro ℓ
      have : ((sequentialRanking l).filter (fun e => e.ev.idx == ℓ)).map (·.id)
          = (l.filter (fun p => p.2.idx == ℓ)).map (·.1) := by
        conv_rhs => rw [← hp]
        rw [List.filter_map]
        simp [Function.comp_def]
      rw [this]; exact h2 ℓ
  rcases hcase with ⟨_, rfl⟩ | ⟨hne, lowest, _, rfl⟩
  · exact key acc o1 o3
  · apply key
    · rw [List.map_append, List.pairwise_append]
      refine ⟨o1, ?_, ?_⟩
      · apply List.pairwise_of_forall_mem_list
        intro a ha b hb
        simp only [List.map_map, List.mem_map, Function.comp] at ha hb
        obtain ⟨_, _, rfl⟩ := ha
        obtain ⟨_, _, rfl⟩ := hb
        exact Nat.le_refl _
      · intro a ha b hb
        obtain ⟨pa, hpa, rfl⟩ := List.mem_map.mp ha
        simp only [List.map_map, List.mem_map, Function.comp] at hb
        obtain ⟨_, _, rfl⟩ := hb
        obtain ⟨j, hj, hlv, _⟩ := p4 pa hpa
        have hjl : j < levels.length := by
          rcases List.getElem?_eq_some_iff.mp hlv with ⟨hh, _⟩; exact hh
        have hsi : si = 0 + levels.length := p3 hne
        omega
    · intro ℓ
      rw [List.filter_append, List.map_append]
      by_cases hsi : ℓ = si
      · subst hsi
        have e1 : acc.filter (fun p => p.2.idx == ℓ) = [] := by
          apply List.filter_eq_nil_iff.mpr
          intro p hp
          obtain ⟨j, hj, hlv, _⟩ := p4 p hp
          have hjl : j < levels.length := by
            rcases List.getElem?_eq_some_iff.mp hlv with ⟨hh, _⟩; exact hh
          have hsi : ℓ = 0 + levels.length := p3 hne
          simp; omega
        have e2 : (left.map fun a => (a.id, (⟨ℓ, lowest⟩ : SatEval α))).filter (fun p => p.2.idx == ℓ)
            = left.map fun a => (a.id, (⟨ℓ, lowest⟩ : SatEval α)) := by
          apply List.filter_eq_self.mpr
          intro p hp
          obtain ⟨_, _, rfl⟩ := List.mem_map.mp hp
          simp
        rw [e1, e2]
        simpa [Function.comp_def] using p2.map (·.id)
      · have e2 : (left.map fun a => (a.id, (⟨si, lowest⟩ : SatEval α))).filter (fun p => p.2.idx == ℓ) = [] := by
          apply List.filter_eq_nil_iff.mpr
          intro p hp
          obtain ⟨_, _, rfl⟩ := List.mem_map.mp hp
          simp; exact fun e => hsi e.symm
        rw [e2]; simpa using o3 ℓ

/-- no entry reports an index beyond the number of levels -/
theorem index_le_number_of_levels (d : DMP α) (levels : List (KMap α)) (order : List (Alt α))
    (out : List (Linked (SatEval α))) (hnd : (order.map (·.id)).Nodup)
    (h : satisfactionCore d levels order = Except.ok out) (e : Linked (SatEval α)) (he : e ∈ out) :
    e.ev.idx ≤ levels.length := by
  rcases entry_semantics d levels order out hnd h e he with ⟨h1, _⟩ | ⟨h1, _⟩ <;> omega

/-- what "meets the level" means: on every criterion the signed value is not below the signed threshold -/
theorem goodAt_iff (a : Alt α) (th : List (WCrit α)) :
    GoodAt a th ↔ ∀ v ∈ th, ∃ cv, a.signed v.crit = Except.ok cv ∧ ¬ cv < v.crit.mult * v.w := by
  unfold GoodAt
  induction th with
  | nil => simp [isGoodEnough]
  | cons v vs ih =>
    unfold isGoodEnough
    constructor
    · intro h
      obtain ⟨cv, h1, h2⟩ := R.bind_eq_ok h
      by_cases hlt : cv < v.crit.mult * v.w
      · simp [hlt] at h2
      · simp only [hlt, if_false] at h2
        intro x hx
        rcases List.mem_cons.mp hx with rfl | hx
        · exact ⟨cv, h1, hlt⟩
        · exact (ih.mp h2) x hx
    · intro h
      obtain ⟨cv, h1, h2⟩ := h v (by simp)
      rw [h1]
      simp only [R.bind_ok, h2, if_false]
      exact ih.mpr (fun x hx => h x (by simp [hx]))

/-- what "fails the level" means: some criterion has its signed value below the signed threshold
    (and every value examined before it exists) -/
theorem badAt_imp (a : Alt α) (th : List (WCrit α)) (h : BadAt a th) :
    ∃ v ∈ th, ∃ cv, a.signed v.crit = Except.ok cv ∧ cv < v.crit.mult * v.w := by
  unfold BadAt at h
  induction th with
  | nil => simp [isGoodEnough] at h
  | cons v vs ih =>
    unfold isGoodEnough at h
    obtain ⟨cv, h1, h2⟩ := R.bind_eq_ok h
    by_cases hlt : cv < v.crit.mult * v.w
    · exact ⟨v, by simp, cv, h1, hlt⟩
    · simp only [hlt, if_false] at h2
      obtain ⟨x, hx, r⟩ := ih h2
      exact ⟨x, by simp [hx], r⟩

/-- the fallback thresholds: per criterion the worst end of its range over ALL alternatives of the
    state (declared range if present) — minimum for gain, maximum for cost -/
theorem worst_ends_semantics (d : DMP α) (w : KMap α) (h : worstEnds d = Except.ok w) :
    w.map (·.1) = d.crit.map (·.id) ∧
    ∀ p ∈ w, ∃ c ∈ d.crit, c.id = p.1 ∧ ∃ r, valuesRange d.all c = Except.ok r ∧
      p.2 = (if c.isGain then r.1 else r.2) := by
  unfold worstEnds at h
  generalize d.crit = cs at h
  induction cs generalizing w with
  | nil => simp at h; subst h; simp
  | cons c cs ih =>
    rw [List.mapM_cons] at h
    obtain ⟨p, hp, h⟩ := R.bind_eq_ok h
    obtain ⟨ps, hps, h⟩ := R.bind_eq_ok h
    obtain ⟨r, hr, hp⟩ := R.bind_eq_ok hp
    simp at h hp
    subst h; subst hp
    obtain ⟨i1, i2⟩ := ih ps hps
    refine ⟨by simp [i1], ?_⟩
    intro q hq
    rcases List.mem_cons.mp hq with rfl | hq
    · exact ⟨c, by simp, rfl, r, hr, rfl⟩
    · obtain ⟨c', hc', rest⟩ := i2 q hq
      exact ⟨c', by simp [hc'], rest⟩

/-- **search order, current choice first**: `Evaluate` examines the current choice (known, not
    necessarily considered) first and then the other considered alternatives -/
theorem search_order_current_first (d : DMP α) (cur : String) (rnd : Bool) (ds ds' : Draws α)
    (first : Alt α) (rest : List (Alt α)) (hc : cur ≠ "")
    (h : searchOrder d cur rnd ds = Except.ok ((first, rest), ds')) :
    first.id = cur ∧ first ∈ d.all ∧ rest.Perm (removeAlt d.co cur) :=
  searchOrder_with_current d cur rnd ds ds' first rest hc h

theorem search_order_without_current (d : DMP α) (rnd : Bool) (ds ds' : Draws α)
    (first : Alt α) (rest : List (Alt α))
    (h : searchOrder d "" rnd ds = Except.ok ((first, rest), ds')) : (first :: rest).Perm d.co :=
  searchOrder_without_current d rnd ds ds' first rest h

/-
  Not proved here (stated for the record, checked on every run by `Spec.C13.check` on the
  implementation's output and by the bit-exact correspondence of `satisfaction-evaluate`):

  theorem model_output_passes_spec_partial (Rat) :
      satisfactionCore d levels order = .ok out → (order.map (·.id)).Nodup → (crit ids Nodup) →
      Spec.C13.check order d.crit levels d.all out = true
  The clauses of the checker are proved above one by one on the model (`result_is_permutation…`,
  `links_are_sequential`, `acceptance_order_is_lexicographic`, `entry_semantics`, `worst_ends_semantics`);
  what is missing is the mechanical translation between these `Prop` statements and the checker's
  Boolean formulation (index arithmetic over `findIdx`, map equality as `sameMap`).
-/

/-! ### satisfiable hypotheses -/

example : ∃ out, satisfactionCore (α := Rat) ⟨[], [], [], .satisf "thresholds" (.thresholds []) 0 "" false⟩ []
    [⟨"a", []⟩] = Except.ok out ∧ out.map (·.id) = ["a"] := ⟨_, rfl, rfl⟩

/-- the constants and names this property depends on were re-read from the working tree on this run
    (none fell back to its pinned value because its declaration could not be located) -/
theorem facts_fresh : (Rdm.Facts.staleFacts.all fun n => !["methodSatisfaction", "wiringSatisfactionArgs", "wiringDecreasingLevels"].contains n) = true := by decide

end Rdm.Props.C13
