/- C13 — property theorems (stub; filled in by the owning work package). -/
import Rdm.Basic
namespace Rdm.Props.C13
end Rdm.Props.C13
