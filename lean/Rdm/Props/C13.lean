/-
  C13 — the satisfaction heuristic ranks by the first level an alternative satisfies.
  Property theorems only (helper lemmas: Rdm/Lemmas/HeurSatisf.lean, HeurLinks.lean, HeurList.lean,
  HeurH13.lean).  The clause-by-clause theorems are generic in the number type (they hold for the
  Float model run by the driver and for the Rat model alike) and for every number of alternatives,
  criteria and levels; `core_output_passes_spec` / `model_output_passes_spec` tie them, over `Rat`, to
  the decidable checker `Spec.C13.check` that the driver evaluates on the implementation's output.

  Model: Rdm/Model/Heuristics.lean (`searchOrder`, `isGoodEnough`, `satAltLoop`, `satLevelLoop`,
  `worstEnds`, `satisfactionCore`, `satisfactionEvaluateWith`); spec on outputs: Rdm/Spec/C13.lean.
-/
import Rdm.Model.Heuristics
import Rdm.Spec.C13
import Rdm.Lemmas.HeurList
import Rdm.Lemmas.HeurLinks
import Rdm.Lemmas.HeurSatisf
import Rdm.Lemmas.HeurH13
import Rdm.Lemmas.E2EMethods
import Rdm.Lemmas.E2EMethodsLevels
import Rdm.Lemmas.E2EMethodsExamples
set_option linter.unusedSectionVars false
set_option linter.unusedSimpArgs false
namespace Rdm.Props.C13
open Rdm
variable {α : Type} [Num α]

/-- inversion of `satisfactionCore`: the ranking is the sequential ranking of acceptances followed by
    the leftovers, which all carry the index after the last level and the worst range ends -/
theorem core_shape (d : DMP α) (levels : List (KMap α)) (order : List (Alt α))
    (out : List (Linked (SatEval α))) (h : satisfactionCore d levels order = Except.ok out) :
    ∃ left acc si, satLevelLoop d.crit 0 levels order = Except.ok (left, acc, si) ∧
      ((left = [] ∧ out = sequentialRanking acc) ∨
       (left ≠ [] ∧ ∃ lowest, worstEnds d = Except.ok lowest ∧
          out = sequentialRanking (acc ++ left.map fun a => (a.id, (⟨si, lowest⟩ : SatEval α))))) := by
  unfold satisfactionCore at h
  obtain ⟨⟨left, acc, si⟩, h1, h⟩ := R.bind_eq_ok h
  refine ⟨left, acc, si, h1, ?_⟩
  cases left with
  | nil => left; simp at h; exact ⟨rfl, by rw [← h]⟩
  | cons x xs =>
    right
    simp only [List.isEmpty_cons, Bool.false_eq_true, if_false] at h
    obtain ⟨lowest, h3, h⟩ := R.bind_eq_ok h
    simp at h
    exact ⟨by simp, lowest, h3, by rw [← h]; simp⟩

/-- **permutation**: every alternative of the search order is ranked exactly once -/
theorem result_is_permutation_of_search_order (d : DMP α) (levels : List (KMap α)) (order : List (Alt α))
    (out : List (Linked (SatEval α))) (hnd : (order.map (·.id)).Nodup)
    (h : satisfactionCore d levels order = Except.ok out) :
    (out.map (·.id)).Perm (order.map (·.id)) := by
  obtain ⟨left, acc, si, hl, hcase⟩ := core_shape d levels order out h
  obtain ⟨p1, _, _, _, _⟩ := satLevelLoop_spec hnd hl
  rcases hcase with ⟨rfl, rfl⟩ | ⟨_, lowest, _, rfl⟩
  · rw [heurSeq_ids]; simpa using p1
  · rw [heurSeq_ids]
    simpa [Function.comp_def] using p1

/-- **links**: entry `i` is linked to entry `i+1` only (`PrepareSequentialRanking`) -/
theorem links_are_sequential (d : DMP α) (levels : List (KMap α)) (order : List (Alt α))
    (out : List (Linked (SatEval α))) (h : satisfactionCore d levels order = Except.ok out)
    (i : Nat) (e : Linked (SatEval α)) (he : out[i]? = some e) :
    e.links = ((out.map (·.id))[i + 1]?).toList := by
  obtain ⟨left, acc, si, _, hcase⟩ := core_shape d levels order out h
  rcases hcase with ⟨_, rfl⟩ | ⟨_, lowest, _, rfl⟩
  · rw [heurSeq_ids]; exact heurSeq_links _ i e he
  · rw [heurSeq_ids]; exact heurSeq_links _ i e he

/-- **accepted-at-level semantics**: an entry whose index is a level index reports exactly the
    thresholds of that level, its alternative meets them on every criterion and fails every earlier
    level on some criterion.  **leftovers**: every other entry reports the number of levels and the
    worst end of every criterion's range, and its alternative fails every level. -/
theorem entry_semantics (d : DMP α) (levels : List (KMap α)) (order : List (Alt α))
    (out : List (Linked (SatEval α))) (hnd : (order.map (·.id)).Nodup)
    (h : satisfactionCore d levels order = Except.ok out) (e : Linked (SatEval α)) (he : e ∈ out) :
    (e.ev.idx < levels.length ∧ levels[e.ev.idx]? = some e.ev.thr ∧
       ∃ a ∈ order, a.id = e.id ∧ LevelGood d.crit a e.ev.thr ∧
         ∀ j < e.ev.idx, ∃ t, levels[j]? = some t ∧ LevelBad d.crit a t) ∨
    (e.ev.idx = levels.length ∧ worstEnds d = Except.ok e.ev.thr ∧
       ∃ a ∈ order, a.id = e.id ∧ ∀ t ∈ levels, LevelBad d.crit a t) := by
  obtain ⟨left, acc, si, hl, hcase⟩ := core_shape d levels order out h
  obtain ⟨_, p2, p3, p4, p5⟩ := satLevelLoop_spec hnd hl
  have accepted : (e.id, e.ev) ∈ acc →
      (e.ev.idx < levels.length ∧ levels[e.ev.idx]? = some e.ev.thr ∧
       ∃ a ∈ order, a.id = e.id ∧ LevelGood d.crit a e.ev.thr ∧
         ∀ j < e.ev.idx, ∃ t, levels[j]? = some t ∧ LevelBad d.crit a t) := by
    intro hm
    obtain ⟨j, hj, hlv, a, ha, hid, hg, hb⟩ := p4 _ hm
    simp only [Nat.zero_add] at hj
    have hjl : j < levels.length := by
      rcases List.getElem?_eq_some_iff.mp hlv with ⟨hh, _⟩; exact hh
    refine ⟨by omega, by rw [hj]; exact hlv, a, ha, hid, hg, ?_⟩
    intro j' hj'; exact hb j' (by omega)
  rcases hcase with ⟨_, rfl⟩ | ⟨hne, lowest, hw, rfl⟩
  · left; exact accepted (heurSeq_mem _ e he)
  · rcases List.mem_append.mp (heurSeq_mem _ e he) with hm | hm
    · left; exact accepted hm
    · right
      obtain ⟨a, ha, hpair⟩ := List.mem_map.mp hm
      have hid : a.id = e.id := congrArg Prod.fst hpair
      have hev : (⟨si, lowest⟩ : SatEval α) = e.ev := congrArg Prod.snd hpair
      refine ⟨?_, ?_, a, p2.subset ha, hid, fun t ht => p5 a ha t ht⟩
      · rw [← hev]; simpa using p3 hne
      · rw [← hev]; exact hw

/-- **acceptance order is lexicographic (level, search position)**: along the ranking the reported
    level index never decreases (leftovers, with index `#levels`, come last), and the alternatives
    reporting the same index appear in search order -/
theorem acceptance_order_is_lexicographic (d : DMP α) (levels : List (KMap α)) (order : List (Alt α))
    (out : List (Linked (SatEval α))) (hnd : (order.map (·.id)).Nodup)
    (h : satisfactionCore d levels order = Except.ok out) :
    (out.map (·.ev.idx)).Pairwise (· ≤ ·) ∧
    ∀ ℓ, ((out.filter (fun e => e.ev.idx == ℓ)).map (·.id)).Sublist (order.map (·.id)) := by
  obtain ⟨left, acc, si, hl, hcase⟩ := core_shape d levels order out h
  obtain ⟨_, p2, p3, p4, _⟩ := satLevelLoop_spec hnd hl
  obtain ⟨o1, _, o3⟩ := satLevelLoop_order hnd hl
  -- everything is read off the (id, evaluation) pairs the ranking was built from
  have key : ∀ (l : List (String × SatEval α)),
      (l.map (·.2.idx)).Pairwise (· ≤ ·) →
      (∀ ℓ, ((l.filter (fun p => p.2.idx == ℓ)).map (·.1)).Sublist (order.map (·.id))) →
      ((sequentialRanking l).map (·.ev.idx)).Pairwise (· ≤ ·) ∧
      ∀ ℓ, (((sequentialRanking l).filter (fun e => e.ev.idx == ℓ)).map (·.id)).Sublist (order.map (·.id)) := by
    intro l h1 h2
    have hp := heurSeq_payload l
    constructor
    · have : (sequentialRanking l).map (·.ev.idx) = l.map (·.2.idx) := by
        conv_rhs => rw [← hp]
        simp [Function.comp_def]
      rw [this]; exact h1
    · intro ℓ
      have : ((sequentialRanking l).filter (fun e => e.ev.idx == ℓ)).map (·.id)
          = (l.filter (fun p => p.2.idx == ℓ)).map (·.1) := by
        conv_rhs => rw [← hp]
        rw [List.filter_map]
        simp [Function.comp_def]
      rw [this]; exact h2 ℓ
  rcases hcase with ⟨_, rfl⟩ | ⟨hne, lowest, _, rfl⟩
  · exact key acc o1 o3
  · apply key
    · rw [List.map_append, List.pairwise_append]
      refine ⟨o1, ?_, ?_⟩
      · apply List.pairwise_of_forall_mem_list
        intro a ha b hb
        simp only [List.map_map, List.mem_map, Function.comp] at ha hb
        obtain ⟨_, _, rfl⟩ := ha
        obtain ⟨_, _, rfl⟩ := hb
        exact Nat.le_refl _
      · intro a ha b hb
        obtain ⟨pa, hpa, rfl⟩ := List.mem_map.mp ha
        simp only [List.map_map, List.mem_map, Function.comp] at hb
        obtain ⟨_, _, rfl⟩ := hb
        obtain ⟨j, hj, hlv, _⟩ := p4 pa hpa
        have hjl : j < levels.length := by
          rcases List.getElem?_eq_some_iff.mp hlv with ⟨hh, _⟩; exact hh
        have hsi : si = 0 + levels.length := p3 hne
        omega
    · intro ℓ
      rw [List.filter_append, List.map_append]
      by_cases hsi : ℓ = si
      · subst hsi
        have e1 : acc.filter (fun p => p.2.idx == ℓ) = [] := by
          apply List.filter_eq_nil_iff.mpr
          intro p hp
          obtain ⟨j, hj, hlv, _⟩ := p4 p hp
          have hjl : j < levels.length := by
            rcases List.getElem?_eq_some_iff.mp hlv with ⟨hh, _⟩; exact hh
          have hsi : ℓ = 0 + levels.length := p3 hne
          simp; omega
        have e2 : (left.map fun a => (a.id, (⟨ℓ, lowest⟩ : SatEval α))).filter (fun p => p.2.idx == ℓ)
            = left.map fun a => (a.id, (⟨ℓ, lowest⟩ : SatEval α)) := by
          apply List.filter_eq_self.mpr
          intro p hp
          obtain ⟨_, _, rfl⟩ := List.mem_map.mp hp
          simp
        rw [e1, e2]
        simpa [Function.comp_def] using p2.map (·.id)
      · have e2 : (left.map fun a => (a.id, (⟨si, lowest⟩ : SatEval α))).filter (fun p => p.2.idx == ℓ) = [] := by
          apply List.filter_eq_nil_iff.mpr
          intro p hp
          obtain ⟨_, _, rfl⟩ := List.mem_map.mp hp
          simp; exact fun e => hsi e.symm
        rw [e2]; simpa using o3 ℓ

/-- no entry reports an index beyond the number of levels -/
theorem index_le_number_of_levels (d : DMP α) (levels : List (KMap α)) (order : List (Alt α))
    (out : List (Linked (SatEval α))) (hnd : (order.map (·.id)).Nodup)
    (h : satisfactionCore d levels order = Except.ok out) (e : Linked (SatEval α)) (he : e ∈ out) :
    e.ev.idx ≤ levels.length := by
  rcases entry_semantics d levels order out hnd h e he with ⟨h1, _⟩ | ⟨h1, _⟩ <;> omega

/-- what "meets the level" means: on every criterion the signed value is not below the signed threshold -/
theorem goodAt_iff (a : Alt α) (th : List (WCrit α)) :
    GoodAt a th ↔ ∀ v ∈ th, ∃ cv, a.signed v.crit = Except.ok cv ∧ ¬ cv < v.crit.mult * v.w := by
  unfold GoodAt
  induction th with
  | nil => simp [isGoodEnough]
  | cons v vs ih =>
    unfold isGoodEnough
    constructor
    · intro h
      obtain ⟨cv, h1, h2⟩ := R.bind_eq_ok h
      by_cases hlt : cv < v.crit.mult * v.w
      · simp [hlt] at h2
      · simp only [hlt, if_false] at h2
        intro x hx
        rcases List.mem_cons.mp hx with rfl | hx
        · exact ⟨cv, h1, hlt⟩
        · exact (ih.mp h2) x hx
    · intro h
      obtain ⟨cv, h1, h2⟩ := h v (by simp)
      rw [h1]
      simp only [R.bind_ok, h2, if_false]
      exact ih.mpr (fun x hx => h x (by simp [hx]))

/-- what "fails the level" means: some criterion has its signed value below the signed threshold
    (and every value examined before it exists) -/
theorem badAt_imp (a : Alt α) (th : List (WCrit α)) (h : BadAt a th) :
    ∃ v ∈ th, ∃ cv, a.signed v.crit = Except.ok cv ∧ cv < v.crit.mult * v.w := by
  unfold BadAt at h
  induction th with
  | nil => simp [isGoodEnough] at h
  | cons v vs ih =>
    unfold isGoodEnough at h
    obtain ⟨cv, h1, h2⟩ := R.bind_eq_ok h
    by_cases hlt : cv < v.crit.mult * v.w
    · exact ⟨v, by simp, cv, h1, hlt⟩
    · simp only [hlt, if_false] at h2
      obtain ⟨x, hx, r⟩ := ih h2
      exact ⟨x, by simp [hx], r⟩

/-- the fallback thresholds: per criterion the worst end of its range over ALL alternatives of the
    state (declared range if present) — minimum for gain, maximum for cost -/
theorem worst_ends_semantics (d : DMP α) (w : KMap α) (h : worstEnds d = Except.ok w) :
    w.map (·.1) = d.crit.map (·.id) ∧
    ∀ p ∈ w, ∃ c ∈ d.crit, c.id = p.1 ∧ ∃ r, valuesRange d.all c = Except.ok r ∧
      p.2 = (if c.isGain then r.1 else r.2) := by
  unfold worstEnds at h
  generalize d.crit = cs at h
  induction cs generalizing w with
  | nil => simp at h; subst h; simp
  | cons c cs ih =>
    rw [List.mapM_cons] at h
    obtain ⟨p, hp, h⟩ := R.bind_eq_ok h
    obtain ⟨ps, hps, h⟩ := R.bind_eq_ok h
    obtain ⟨r, hr, hp⟩ := R.bind_eq_ok hp
    simp at h hp
    subst h; subst hp
    obtain ⟨i1, i2⟩ := ih ps hps
    refine ⟨by simp [i1], ?_⟩
    intro q hq
    rcases List.mem_cons.mp hq with rfl | hq
    · exact ⟨c, by simp, rfl, r, hr, rfl⟩
    · obtain ⟨c', hc', rest⟩ := i2 q hq
      exact ⟨c', by simp [hc'], rest⟩

/-- **search order, current choice first**: `Evaluate` examines the current choice (known, not
    necessarily considered) first and then the other considered alternatives -/
theorem search_order_current_first (d : DMP α) (cur : String) (rnd : Bool) (ds ds' : Draws α)
    (first : Alt α) (rest : List (Alt α)) (hc : cur ≠ "")
    (h : searchOrder d cur rnd ds = Except.ok ((first, rest), ds')) :
    first.id = cur ∧ first ∈ d.all ∧ rest.Perm (removeAlt d.co cur) :=
  searchOrder_with_current d cur rnd ds ds' first rest hc h

theorem search_order_without_current (d : DMP α) (rnd : Bool) (ds ds' : Draws α)
    (first : Alt α) (rest : List (Alt α))
    (h : searchOrder d "" rnd ds = Except.ok ((first, rest), ds')) : (first :: rest).Perm d.co :=
  searchOrder_without_current d rnd ds ds' first rest h

/-! ### the model's output passes the checker the driver runs on the implementation's output -/

/-- **the heuristic on an explicit search order passes `Spec.C13.check`** (exact rationals), every
    clause of `Spec.C13.explain`: distinct ids, permutation of the search order, sequential links,
    strictly increasing (reported level, search position) keys — leftovers report `#levels` and come
    last in search order —, and `entryOk` of every entry: index ≤ `#levels`, the alternative fails
    every earlier level, an accepted entry reports (`sameMap`) the thresholds of its level and
    satisfies them, a leftover reports the worst range ends `Spec.C13.worstEnds`.

    Hypotheses on the inputs, all decidable and each one necessary (counterexamples below):
    * `hnd`   — the examined alternatives have pairwise different ids (first clause of the checker;
                entries are tied to alternatives by id);
    * `hcrit` — the criteria have pairwise different ids: the checker compares reported thresholds as
                finite maps (`sameMap`, via `get?`); with a duplicated criterion id the fallback map
                `worstEnds` lists the key twice, possibly with two values (gain: min, cost: max);
    * `hlev`  — no level lists a key twice (they are Go maps): `sameMap t t` fails for a level
                carrying two different values under one key;
    * `hval`  — every examined alternative has a value for every criterion (`validateAlternatives` in
                the Go code): the model's `isGoodEnough` stops at the first failing criterion and never
                reads the later values, whereas the checker's `satisfies` reads all of them and is
                undecided (`none`) when one is missing.
    Nothing is assumed about the keys of a level beyond `hlev`: a level that lacks a criterion's
    threshold makes `zipWithWeights` throw, so `= .ok out` already gives presence for every level that
    was examined (and all levels up to a reported index were examined). -/
theorem core_output_passes_spec (d : DMP Rat) (levels : List (KMap Rat)) (order : List (Alt Rat))
    (out : List (Linked (SatEval Rat)))
    (h : satisfactionCore d levels order = Except.ok out)
    (hnd : (order.map (·.id)).Nodup)
    (hcrit : (d.crit.map (·.id)).Nodup)
    (hlev : ∀ t ∈ levels, (t.map (·.1)).Nodup)
    (hval : ∀ a ∈ order, ∀ c ∈ d.crit, (a.vals.get? c.id).isSome) :
    Spec.C13.check order d.crit levels d.all out = true :=
  heurH13_check_of_clauses d levels order out hnd hcrit hlev hval
    (result_is_permutation_of_search_order d levels order out hnd h)
    (links_are_sequential d levels order out h)
    (acceptance_order_is_lexicographic d levels order out hnd h).1
    (acceptance_order_is_lexicographic d levels order out hnd h).2
    (entry_semantics d levels order out hnd h)

/-- **`Satisfaction.Evaluate` passes the checker, called exactly as the driver op `check-c13` calls
    it**: search order `first :: rest` as returned by `searchOrder`, criteria and all known
    alternatives of the state, the levels handed to the heuristic.  Hypotheses: all known alternatives
    (considered and not considered — the current choice is looked up among all of them) have pairwise
    different ids and a value for every criterion; `hcrit`, `hlev` as in `core_output_passes_spec`. -/
theorem model_output_passes_spec (d : DMP Rat) (ds ds' : Draws Rat) (lvl : List (KMap Rat))
    (fn : String) (lv : Levels Rat) (seed : Int) (cur : String) (rnd : Bool)
    (first : Alt Rat) (rest : List (Alt Rat)) (out : List (Linked (SatEval Rat)))
    (hmp : d.mp = .satisf fn lv seed cur rnd)
    (h : satisfactionEvaluateWith d ds (Except.ok lvl) = Except.ok out)
    (hso : searchOrder d cur rnd ds = Except.ok ((first, rest), ds'))
    (hall : (d.all.map (·.id)).Nodup)
    (hcrit : (d.crit.map (·.id)).Nodup)
    (hlev : ∀ t ∈ lvl, (t.map (·.1)).Nodup)
    (hval : ∀ a ∈ d.all, ∀ c ∈ d.crit, (a.vals.get? c.id).isSome) :
    Spec.C13.check (first :: rest) d.crit lvl d.all out = true := by
  obtain ⟨hnd, hmem⟩ := heurH13_searchOrder_nodup d cur rnd ds ds' first rest hall hso
  unfold satisfactionEvaluateWith at h
  rw [hmp] at h
  simp only [R.bind_ok, hso] at h
  exact core_output_passes_spec d lvl (first :: rest) out h hnd hcrit hlev
    (fun a ha => hval a (hmem a ha))

/-- the same for `Satisfaction.Evaluate` with the levels of its own registered (decreasing) sources -/
theorem evaluate_output_passes_spec (d : DMP Rat) (ds ds' : Draws Rat) (lvl : List (KMap Rat))
    (fn : String) (lv : Levels Rat) (seed : Int) (cur : String) (rnd : Bool)
    (first : Alt Rat) (rest : List (Alt Rat)) (out : List (Linked (SatEval Rat)))
    (hmp : d.mp = .satisf fn lv seed cur rnd)
    (hlv : satisfactionLevels d = Except.ok lvl)
    (h : satisfactionEvaluate d ds = Except.ok out)
    (hso : searchOrder d cur rnd ds = Except.ok ((first, rest), ds'))
    (hall : (d.all.map (·.id)).Nodup)
    (hcrit : (d.crit.map (·.id)).Nodup)
    (hlev : ∀ t ∈ lvl, (t.map (·.1)).Nodup)
    (hval : ∀ a ∈ d.all, ∀ c ∈ d.crit, (a.vals.get? c.id).isSome) :
    Spec.C13.check (first :: rest) d.crit lvl d.all out = true := by
  unfold satisfactionEvaluate at h
  rw [hlv] at h
  exact model_output_passes_spec d ds ds' lvl fn lv seed cur rnd first rest out hmp h hso hall hcrit hlev hval

/-! ### satisfiable hypotheses -/

example : ∃ out, satisfactionCore (α := Rat) ⟨[], [], [], .satisf "thresholds" (.thresholds []) 0 "" false⟩ []
    [⟨"a", []⟩] = Except.ok out ∧ out.map (·.id) = ["a"] := ⟨_, rfl, rfl⟩

/-- a state with a current choice "x" that is known but not considered, a gain and a cost criterion -/
def exD : DMP Rat :=
  ⟨[⟨"x", [("g", 4), ("k", 6)]⟩],
   [⟨"a", [("g", 5), ("k", 5)]⟩, ⟨"b", [("g", 9), ("k", 1)]⟩, ⟨"c", [("g", 1), ("k", 9)]⟩],
   [⟨"g", "gain", none⟩, ⟨"k", "cost", none⟩],
   .satisf "thresholds" (.thresholds []) 0 "x" false⟩

def exLevels : List (KMap Rat) := [[("g", 8), ("k", 2)], [("g", 4), ("k", 6)]]

example : searchOrder exD "x" false [] = Except.ok ((⟨"x", [("g", 4), ("k", 6)]⟩, exD.co), []) := rfl

/-- "b" is accepted at level 0, "x" (examined first) and "a" at level 1, "c" meets no level and
    reports index 2 with the worst ends (min gain, max cost over all four alternatives) -/
example : satisfactionEvaluateWith exD [] (Except.ok exLevels) = Except.ok
    [⟨"b", ⟨0, [("g", 8), ("k", 2)]⟩, ["x"]⟩, ⟨"x", ⟨1, [("g", 4), ("k", 6)]⟩, ["a"]⟩,
     ⟨"a", ⟨1, [("g", 4), ("k", 6)]⟩, ["c"]⟩, ⟨"c", ⟨2, [("g", 1), ("k", 9)]⟩, []⟩] := by decide +kernel

/-- all hypotheses of `model_output_passes_spec` hold in this state -/
example (out : List (Linked (SatEval Rat)))
    (h : satisfactionEvaluateWith exD [] (Except.ok exLevels) = Except.ok out) :
    Spec.C13.check (⟨"x", [("g", 4), ("k", 6)]⟩ :: exD.co) exD.crit exLevels exD.all out = true :=
  model_output_passes_spec exD [] [] exLevels "thresholds" (.thresholds []) 0 "x" false _ _ out rfl h rfl
    (by decide +kernel) (by decide +kernel) (by decide +kernel) (by decide +kernel)

/-! each hypothesis of `core_output_passes_spec` is needed: the model returns a ranking that the
    checker rejects when it is dropped -/

/-- `hlev`: a level with a duplicated key carrying two values is not `sameMap` to itself -/
example : ∃ out, satisfactionCore (α := Rat) ⟨[], [⟨"a", [("g", 5)]⟩], [⟨"g", "gain", none⟩],
      .satisf "thresholds" (.thresholds []) 0 "" false⟩ [[("g", 1), ("g", 2)]] [⟨"a", [("g", 5)]⟩] = Except.ok out ∧
    Spec.C13.check [⟨"a", [("g", 5)]⟩] [⟨"g", "gain", none⟩] [[("g", 1), ("g", 2)]] [⟨"a", [("g", 5)]⟩] out = false :=
  ⟨[⟨"a", ⟨0, [("g", 1), ("g", 2)]⟩, []⟩], by decide +kernel, by decide +kernel⟩

/-- `hval`: "a" fails level 0 on "g"; its missing value on "h" is never read by the model, but the
    checker cannot decide that "a" fails the level -/
example : ∃ out, satisfactionCore (α := Rat) ⟨[], [⟨"a", [("g", 0)]⟩],
      [⟨"g", "gain", some (0, 1)⟩, ⟨"h", "gain", some (0, 1)⟩],
      .satisf "thresholds" (.thresholds []) 0 "" false⟩ [[("g", 1), ("h", 1)]] [⟨"a", [("g", 0)]⟩] = Except.ok out ∧
    Spec.C13.check [⟨"a", [("g", 0)]⟩] [⟨"g", "gain", some (0, 1)⟩, ⟨"h", "gain", some (0, 1)⟩]
      [[("g", 1), ("h", 1)]] [⟨"a", [("g", 0)]⟩] out = false :=
  ⟨[⟨"a", ⟨1, [("g", 0), ("h", 0)]⟩, []⟩], by decide +kernel, by decide +kernel⟩

/-- `hcrit`: two criteria sharing an id (one gain, one cost) give a fallback map with the key twice -/
example : ∃ out, satisfactionCore (α := Rat) ⟨[⟨"b", [("g", 2)]⟩], [⟨"a", [("g", 1)]⟩],
      [⟨"g", "gain", none⟩, ⟨"g", "cost", none⟩],
      .satisf "thresholds" (.thresholds []) 0 "" false⟩ [] [⟨"a", [("g", 1)]⟩] = Except.ok out ∧
    Spec.C13.check [⟨"a", [("g", 1)]⟩] [⟨"g", "gain", none⟩, ⟨"g", "cost", none⟩] []
      [⟨"a", [("g", 1)]⟩, ⟨"b", [("g", 2)]⟩] out = false :=
  ⟨[⟨"a", ⟨0, [("g", 1), ("g", 2)]⟩, []⟩], by decide +kernel, by decide +kernel⟩

/-! ## end to end: whole requests (`decideWith` / `Rdm.decide`, Model/Decide.lean)

  Whatever biases ran before — every request, every bias list, every stream function, no bounds —, the answer
  of the satisfaction heuristic is `Satisfaction.Evaluate` on the state that reached it (`resp.final`): search
  order with the REQUEST's current choice first, drawn on the stream `g seed` of the REQUEST's `randomSeed` iff
  the REQUEST says so, levels generated by the REQUEST's levels function from the FINAL state, fallback thresholds
  = worst range ends over all known alternatives of the FINAL state.  `e2emSatEntries resp.result` reads the
  response back as the list `Evaluate` returned (what `Spec.C13.check` is evaluated on).
  Helper lemmas: Rdm/Lemmas/E2EMethods*.lean. -/

/-- **the configuration in force**: no bias exchanges the method nor touches the levels function, `randomSeed`,
    `currentChoice` or `randomAlternativesOrdering`, and of the levels parameters only the per-criterion entries
    of explicit thresholds change (same coefficient numbers, same number of explicit levels: `e2emLvTag`) -/
theorem decideWith_satisfaction_parameters (exp : α → α) (aspOrder : List (WCrit α) → List (WCrit α))
    (req : Request α) (g : Int → Draws α) (resp : Response α) (h : decideWith exp aspOrder req g = .ok resp)
    (fn : String) (seed : Int) (cur : String) (rnd : Bool) :
    (∀ lv₀, req.mp = some (.satisf fn lv₀ seed cur rnd) →
      ∃ lv, resp.final.mp = .satisf fn lv seed cur rnd ∧ e2emLvTag lv = e2emLvTag lv₀) ∧
    (∀ lv, resp.final.mp = .satisf fn lv seed cur rnd →
      ∃ lv₀, req.mp = some (.satisf fn lv₀ seed cur rnd) ∧ e2emLvTag lv = e2emLvTag lv₀) := by
  constructor
  · intro lv₀ hmp
    obtain ⟨lv, _, hfin, hl, _⟩ := e2em_decideWith_satisf h hmp
    exact ⟨lv, hfin, hl⟩
  · intro lv hfin
    exact (e2em_decideWith_satisf_of_final h hfin).1

/-- **the response IS the level loop on the final state** (any number type): for a request with satisfaction
    parameters, if `MakeDecision` answers then the levels are `satisfactionLevels` of the final state (C14), the
    search order is `GetAlternativesSearchOrder` of the final state (current choice of the request first,
    looked up among ALL known alternatives of the final state), and `result` is `satisfactionCore` on these —
    so every per-stage theorem above applies to `e2emSatEntries resp.result`.  Every level has a threshold for
    every criterion of the final state; for distinct `choseToMake` the search order has distinct ids and
    consists of `choseToMake` plus the current choice when it is given and not among them. -/
theorem decideWith_satisfaction_is_level_loop (exp : α → α) (aspOrder : List (WCrit α) → List (WCrit α))
    (req : Request α) (g : Int → Draws α) (resp : Response α) (fn : String) (lv₀ : Levels α) (seed : Int)
    (cur : String) (rnd : Bool) (h : decideWith exp aspOrder req g = .ok resp)
    (hmp : req.mp = some (.satisf fn lv₀ seed cur rnd)) :
    ∃ lv lvl first rest ds',
      resp.final.mp = .satisf fn lv seed cur rnd ∧ e2emLvTag lv = e2emLvTag lv₀ ∧
      satisfactionLevels resp.final = .ok lvl ∧
      searchOrder resp.final cur rnd (g seed) = .ok ((first, rest), ds') ∧
      satisfactionCore resp.final lvl (first :: rest) = .ok (e2emSatEntries resp.result) ∧
      resp.result = (e2emSatEntries resp.result).map (Linked.mapEv .sat) ∧
      (∀ t ∈ lvl, ∀ c ∈ resp.final.crit, (t.get? c.id).isSome = true) ∧
      (req.chosen.Nodup → ((first :: rest).map (·.id)).Nodup ∧
        ((first :: rest).map (·.id)).Perm (e2eExpected req.chosen cur)) := by
  obtain ⟨lv, r, hfin, hl, hr, hres⟩ := e2em_decideWith_satisf h hmp
  obtain ⟨lvl, hlv, hof, hr'⟩ := e2em_satisf_levels_used hfin hr
  obtain ⟨first, rest, ds', hso, hcore⟩ := e2em_satisfactionEvaluateWith_ok hfin hr'
  have hent : e2emSatEntries resp.result = r := by rw [hres, e2emSatEntries_map]
  obtain ⟨hco, _⟩ := e2em_decideWith_co h
  refine ⟨lv, lvl, first, rest, ds', hfin, hl, hlv, hso, by rw [hent]; exact hcore, by rw [hent]; exact hres,
    e2em_levelsOf_complete hof, ?_⟩
  intro hnd
  have hp := e2e_searchOrder_ids hso
  rw [hco] at hp
  exact ⟨hp.nodup_iff.mpr (e2eExpected_nodup _ _ hnd), hp⟩

/-- **`Spec.C13.check` accepts the response** (over `Rat`), the checker called as the driver op `check-c13`
    calls it on the state that reached `Evaluate`: search order as `searchOrder` returns it on the final state,
    criteria and ALL known alternatives of the final state, the levels generated from the final state.
    The hypotheses of `model_output_passes_spec` are carried through: distinct ids of all known alternatives is
    now asked of the REQUEST (`knownAlternatives` and `choseToMake` pairwise different — no bias changes the
    ids); `hcrit`, `hlev`, `hval` are about the final state (criteria ids distinct, no level lists a key twice,
    every known alternative has every criterion — all three are consequences of `Spec.C07.coherent resp.final`
    resp. of generated levels, see `decideWith_satisfaction_passes_spec_generated`). -/
theorem decideWith_satisfaction_passes_spec (exp : Rat → Rat) (aspOrder : List (WCrit Rat) → List (WCrit Rat))
    (req : Request Rat) (g : Int → Draws Rat) (resp : Response Rat)
    (fn : String) (lv : Levels Rat) (seed : Int) (cur : String) (rnd : Bool)
    (h : decideWith exp aspOrder req g = .ok resp) (hfin : resp.final.mp = .satisf fn lv seed cur rnd)
    (lvl : List (KMap Rat)) (hlv : satisfactionLevels resp.final = .ok lvl)
    (first : Alt Rat) (rest : List (Alt Rat)) (ds' : Draws Rat)
    (hso : searchOrder resp.final cur rnd (g seed) = .ok ((first, rest), ds'))
    (hk : (req.known.map (·.id)).Nodup) (hnd : req.chosen.Nodup)
    (hcrit : (resp.final.crit.map (·.id)).Nodup)
    (hlev : ∀ t ∈ lvl, (t.map (·.1)).Nodup)
    (hval : ∀ a ∈ resp.final.all, ∀ c ∈ resp.final.crit, (a.vals.get? c.id).isSome) :
    Spec.C13.check (first :: rest) resp.final.crit lvl resp.final.all (e2emSatEntries resp.result) = true := by
  obtain ⟨_, r, hr, hres⟩ := e2em_decideWith_satisf_of_final h hfin
  have hent : e2emSatEntries resp.result = r := by rw [hres, e2emSatEntries_map]
  rw [hent]
  exact evaluate_output_passes_spec resp.final (g seed) ds' lvl fn lv seed cur rnd first rest r hfin hlv hr hso
    (e2em_decideWith_all_nodup h hk hnd) hcrit hlev hval

/-- … with GENERATED levels (a coefficient series in the parameters) `hlev` is no hypothesis: generated levels
    list exactly the criteria of the final state -/
theorem decideWith_satisfaction_passes_spec_generated (exp : Rat → Rat)
    (aspOrder : List (WCrit Rat) → List (WCrit Rat)) (req : Request Rat) (g : Int → Draws Rat)
    (resp : Response Rat) (fn : String) (c mx mn : Rat) (seed : Int) (cur : String) (rnd : Bool)
    (h : decideWith exp aspOrder req g = .ok resp)
    (hfin : resp.final.mp = .satisf fn (.coef c mx mn) seed cur rnd)
    (lvl : List (KMap Rat)) (hlv : satisfactionLevels resp.final = .ok lvl)
    (first : Alt Rat) (rest : List (Alt Rat)) (ds' : Draws Rat)
    (hso : searchOrder resp.final cur rnd (g seed) = .ok ((first, rest), ds'))
    (hk : (req.known.map (·.id)).Nodup) (hnd : req.chosen.Nodup)
    (hcrit : (resp.final.crit.map (·.id)).Nodup)
    (hval : ∀ a ∈ resp.final.all, ∀ c ∈ resp.final.crit, (a.vals.get? c.id).isSome) :
    Spec.C13.check (first :: rest) resp.final.crit lvl resp.final.all (e2emSatEntries resp.result) = true := by
  refine decideWith_satisfaction_passes_spec exp aspOrder req g resp fn _ seed cur rnd h hfin lvl hlv first rest ds'
    hso hk hnd hcrit ?_ hval
  have hof : levelsOf satisfactionSources fn (.coef c mx mn) resp.final = .ok lvl := by
    unfold satisfactionLevels at hlv
    rw [hfin] at hlv
    exact hlv
  obtain ⟨s, _, _, _, _, hw⟩ := e2em_levelsOf_ok hof
  rcases e2em_levelsWith_cases_rat hw with ⟨k, c', mx', mn', _, hl, hc⟩ | ⟨_, _, _, hl, _⟩ | ⟨_, _, _, _, _, _, rfl⟩
  · intro t ht
    rw [e2em_coefLevels_keys hc t ht]
    exact hcrit
  · cases hl
  · intro t ht; cases ht

/-- **C13 for `Rdm.decide`** (`MakeDecision` with the registered generators read from a seed table) -/
theorem decide_satisfaction_passes_spec (exp : Rat → Rat) (req : Request Rat) (seeds : Seeds Rat)
    (resp : Response Rat) (fn : String) (lv : Levels Rat) (seed : Int) (cur : String) (rnd : Bool)
    (h : Rdm.decide exp req seeds = .ok resp) (hfin : resp.final.mp = .satisf fn lv seed cur rnd)
    (lvl : List (KMap Rat)) (hlv : satisfactionLevels resp.final = .ok lvl)
    (first : Alt Rat) (rest : List (Alt Rat)) (ds' : Draws Rat)
    (hso : searchOrder resp.final cur rnd (genOf seeds seed) = .ok ((first, rest), ds'))
    (hk : (req.known.map (·.id)).Nodup) (hnd : req.chosen.Nodup)
    (hcrit : (resp.final.crit.map (·.id)).Nodup)
    (hlev : ∀ t ∈ lvl, (t.map (·.1)).Nodup)
    (hval : ∀ a ∈ resp.final.all, ∀ c ∈ resp.final.crit, (a.vals.get? c.id).isSome) :
    Spec.C13.check (first :: rest) resp.final.crit lvl resp.final.all (e2emSatEntries resp.result) = true :=
  decideWith_satisfaction_passes_spec exp _ req _ resp fn lv seed cur rnd h hfin lvl hlv first rest ds' hso hk hnd
    hcrit hlev hval

/-- … in one statement from the request -/
theorem decide_satisfaction_passes_spec_from_request (exp : Rat → Rat) (req : Request Rat) (seeds : Seeds Rat)
    (resp : Response Rat) (fn : String) (lv₀ : Levels Rat) (seed : Int) (cur : String) (rnd : Bool)
    (h : Rdm.decide exp req seeds = .ok resp) (hmp : req.mp = some (.satisf fn lv₀ seed cur rnd))
    (hk : (req.known.map (·.id)).Nodup) (hnd : req.chosen.Nodup) :
    ∃ lv lvl first rest ds', resp.final.mp = .satisf fn lv seed cur rnd ∧ e2emLvTag lv = e2emLvTag lv₀ ∧
      satisfactionLevels resp.final = .ok lvl ∧
      searchOrder resp.final cur rnd (genOf seeds seed) = .ok ((first, rest), ds') ∧
      ((resp.final.crit.map (·.id)).Nodup → (∀ t ∈ lvl, (t.map (·.1)).Nodup) →
        (∀ a ∈ resp.final.all, ∀ c ∈ resp.final.crit, (a.vals.get? c.id).isSome) →
        Spec.C13.check (first :: rest) resp.final.crit lvl resp.final.all (e2emSatEntries resp.result) = true) := by
  obtain ⟨lv, lvl, first, rest, ds', hfin, hl, hlv, hso, _⟩ :=
    decideWith_satisfaction_is_level_loop exp _ req _ resp fn lv₀ seed cur rnd h hmp
  exact ⟨lv, lvl, first, rest, ds', hfin, hl, hlv, hso, fun hcrit hlev hval =>
    decide_satisfaction_passes_spec exp req seeds resp fn lv seed cur rnd h hfin lvl hlv first rest ds' hso hk hnd
      hcrit hlev hval⟩

/-- the hypotheses are satisfiable: a satisfaction request (subtractive series 1, 3/4, 1/2, 1/4; current choice
    `"d"` known but not in `choseToMake`; a fatigue fired before and rewrote every value of the considered
    alternatives, so levels and fallback thresholds come from the REWRITTEN ranges) — the model answers,
    `"c"` and `"b"` are accepted at the last level, `"d"` and `"a"` meet none, and the checker accepts -/
example : ∃ resp order lvl, Rdm.decide id e2emExSatisf e2eExSeeds = .ok resp ∧
    order.map (·.id) = ["d", "c", "a", "b"] ∧ lvl.length = 4 ∧
    (e2emSatEntries resp.result).map (fun e => (e.id, e.ev.idx)) = [("c", 3), ("b", 3), ("d", 4), ("a", 4)] ∧
    Spec.C13.check order resp.final.crit lvl resp.final.all (e2emSatEntries resp.result) = true := by
  have h := e2em_eq_ok_getD e2emNoResponse (x := Rdm.decide id e2emExSatisf e2eExSeeds) (by decide +kernel)
  generalize hresp : e2emGetD e2emNoResponse (Rdm.decide id e2emExSatisf e2eExSeeds) = resp at h
  obtain ⟨lv, hfin, hl⟩ := (decideWith_satisfaction_parameters id _ _ _ resp h "idealSubtractiveCoefficient" 11 "d"
    false).1 _ rfl
  obtain ⟨c, mx, mn, rfl, _⟩ | ⟨_, _, _, h0, _⟩ := e2em_lvTag_cases hl
  swap
  · cases h0
  have hlv := e2em_eq_ok_getD [] (x := satisfactionLevels resp.final) (by subst hresp; decide +kernel)
  have hso := e2em_eq_ok_getD ((⟨"", []⟩, []), []) (x := searchOrder resp.final "d" false (genOf e2eExSeeds 11))
    (by subst hresp; decide +kernel)
  refine ⟨resp, _, _, h, ?_, ?_, ?_, decideWith_satisfaction_passes_spec_generated id _ _ _ resp _ c mx mn 11 "d" false
    h hfin _ hlv _ _ _ hso (by decide) (by decide) (by subst hresp; decide +kernel)
    (by subst hresp; decide +kernel)⟩
  · subst hresp; decide +kernel
  · subst hresp; decide +kernel
  · subst hresp; decide +kernel

/-- the constants and names this property depends on were re-read from the working tree on this run
    (none fell back to its pinned value because its declaration could not be located) -/
theorem facts_fresh : (Rdm.Facts.staleFacts.all fun n => !["methodSatisfaction", "wiringSatisfactionArgs", "wiringDecreasingLevels"].contains n) = true := by decide

end Rdm.Props.C13
