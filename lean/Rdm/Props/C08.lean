/-
  C08 — bias switches and apply-probabilities behave as documented.
  All theorems hold for every number type (only the decidable `<` of `Num` is used), every
  bias implementation `apply`, every list length and every stream of draws.
  The last sections (END TO END) restate them on the model of the whole `MakeDecision` (`decideWith` /
  `Rdm.decide`): every request, every method, the six real biases.
-/
import Rdm.Model.Pipeline
import Rdm.Lemmas.E2EService
import Rdm.Lemmas.E2EServiceRequest
import Rdm.Lemmas.E2EExamples
import Rdm.Lemmas.E2EServiceExamples
namespace Rdm.Props.C08
open Rdm

variable {α : Type} [Num α] {S P Rep : Type}

/-- A disabled bias is equivalent to leaving it out: `ChooseBiases` sees only the enabled entries
    (so unknown names are accepted when disabled). -/
theorem disabled_equals_absent (avail : List String) (reqs : List (BiasReq α P)) :
    chooseBiases avail reqs = chooseBiases avail (reqs.filter (!·.disabled)) := by
  unfold chooseBiases
  rw [List.filter_filter]
  simp

/-- helper: `mapM` in `Except` preserves length and maps pointwise -/
private theorem mapM_ok_length {β γ : Type} (f : β → R γ) :
    ∀ (l : List β) (r : List γ), l.mapM f = .ok r → r.length = l.length
  | [], r, h => by
    simp [List.mapM_nil, pure, Except.pure] at h; subst h; rfl
  | x :: xs, r, h => by
    rw [List.mapM_cons] at h
    cases hx : f x with
    | error e => simp [hx, bind, Except.bind] at h
    | ok y =>
      cases hxs : xs.mapM f with
      | error e => simp [hx, hxs, bind, Except.bind] at h
      | ok ys =>
        simp [hx, hxs, bind, Except.bind, pure, Except.pure] at h
        subst h
        simp [mapM_ok_length f xs ys hxs]

/-- one chosen entry per non-disabled request entry -/
theorem choose_length (avail : List String) (reqs : List (BiasReq α P)) (chosen : List (Chosen α P))
    (h : chooseBiases avail reqs = .ok chosen) :
    chosen.length = (reqs.filter (!·.disabled)).length := by
  unfold chooseBiases at h
  exact mapM_ok_length _ _ _ h

/-- the response's `biases` list has one entry per chosen bias, in order, echoing name and
    probability; entry `i` fired (report ≠ null) iff the i-th draw is below its probability -/
theorem process_entries (apply : String → P → S → S → R (S × Rep)) (orig : S) :
    ∀ (chosen : List (Chosen α P)) (cur : S) (d : Draws α) (fin : S) (outs : List (BiasOut α Rep)),
      processLoop apply orig chosen cur d = .ok (fin, outs) →
      outs.length = chosen.length ∧
      ∀ i (hi : i < outs.length) (hc : i < chosen.length) (hd : i < d.length),
        outs[i].name = chosen[i].name ∧ outs[i].prob = chosen[i].prob ∧
        (outs[i].report.isSome = decide (d[i] < chosen[i].prob))
  | [], cur, d, fin, outs, h => by
    simp [processLoop, pure, Except.pure] at h
    obtain ⟨_, rfl⟩ := h
    simp
  | b :: rest, cur, d, fin, outs, h => by
    unfold processLoop at h
    cases d with
    | nil => simp [draw, bind, Except.bind, throw, throwThe, MonadExceptOf.throw] at h
    | cons u d' =>
      simp only [draw, bind, Except.bind, pure, Except.pure] at h
      by_cases hu : u < b.prob
      · simp only [hu, if_true] at h
        cases ha : apply b.name b.props orig cur with
        | error e => simp [ha] at h
        | ok nr =>
          obtain ⟨next, rep⟩ := nr
          simp only [ha] at h
          cases hr : processLoop apply orig rest next d' with
          | error e => simp [hr] at h
          | ok fo =>
            obtain ⟨fin', outs'⟩ := fo
            simp only [hr, Except.ok.injEq, Prod.mk.injEq] at h
            obtain ⟨_, rfl⟩ := h
            have ih := process_entries apply orig rest next d' fin' outs' hr
            refine ⟨by simp [ih.1], ?_⟩
            intro i hi hc hd
            cases i with
            | zero => simp [hu]
            | succ j =>
              simp only [List.length_cons] at hi hc hd
              have := ih.2 j (by omega) (by omega) (by omega)
              simpa using this
      · simp only [hu, if_false] at h
        cases hr : processLoop apply orig rest cur d' with
        | error e => simp [hr] at h
        | ok fo =>
          obtain ⟨fin', outs'⟩ := fo
          simp only [hr, Except.ok.injEq, Prod.mk.injEq] at h
          obtain ⟨_, rfl⟩ := h
          have ih := process_entries apply orig rest cur d' fin' outs' hr
          refine ⟨by simp [ih.1], ?_⟩
          intro i hi hc hd
          cases i with
          | zero => simp [hu]
          | succ j =>
            simp only [List.length_cons] at hi hc hd
            have := ih.2 j (by omega) (by omega) (by omega)
            simpa using this

/-- a bias that does not fire changes nothing: if no entry fires, the state handed to the method
    is the initial one (whatever the biases would have done) -/
theorem nothing_fires_state_unchanged (apply : String → P → S → S → R (S × Rep)) (orig : S) :
    ∀ (chosen : List (Chosen α P)) (cur : S) (d : Draws α) (fin : S) (outs : List (BiasOut α Rep)),
      processLoop apply orig chosen cur d = .ok (fin, outs) →
      (∀ o ∈ outs, o.report = none) → fin = cur
  | [], cur, d, fin, outs, h, _ => by
    simp [processLoop, pure, Except.pure] at h
    exact h.1.symm
  | b :: rest, cur, d, fin, outs, h, hn => by
    unfold processLoop at h
    cases d with
    | nil => simp [draw, bind, Except.bind, throw, throwThe, MonadExceptOf.throw] at h
    | cons u d' =>
      simp only [draw, bind, Except.bind, pure, Except.pure] at h
      by_cases hu : u < b.prob
      · simp only [hu, if_true] at h
        cases ha : apply b.name b.props orig cur with
        | error e => simp [ha] at h
        | ok nr =>
          obtain ⟨next, rep⟩ := nr
          simp only [ha] at h
          cases hr : processLoop apply orig rest next d' with
          | error e => simp [hr] at h
          | ok fo =>
            obtain ⟨fin', outs'⟩ := fo
            simp only [hr, Except.ok.injEq, Prod.mk.injEq] at h
            obtain ⟨_, rfl⟩ := h
            have := hn ⟨b.name, b.prob, some rep⟩ (by simp)
            simp at this
      · simp only [hu, if_false] at h
        cases hr : processLoop apply orig rest cur d' with
        | error e => simp [hr] at h
        | ok fo =>
          obtain ⟨fin', outs'⟩ := fo
          simp only [hr, Except.ok.injEq, Prod.mk.injEq] at h
          obtain ⟨rfl, rfl⟩ := h
          exact nothing_fires_state_unchanged apply orig rest cur d' fin' outs' hr
            (fun o ho => hn o (by simp [ho]))

/-- whether an entry fires depends only on its own probability and its own draw, monotonically:
    raising the probability never turns a firing entry off -/
theorem fires_monotone (u p p' : Rat) (h : p ≤ p') (hf : u < p) : u < p' := by
  rw [← Rat.not_le] at hf ⊢
  exact fun h2 => hf (Rat.le_trans h h2)

/-- probability 1 always fires and probability 0 never does, because draws lie in [0,1) -/
theorem extremes (u : Rat) (h0 : 0 ≤ u) (h1 : u < 1) : (u < (1 : Rat)) ∧ ¬ (u < (0 : Rat)) :=
  ⟨h1, Rat.not_lt.mpr h0⟩

/-- the default probability taken from the code is 1 -/
theorem default_probability_is_one :
    (Num.ofConst Facts.defaultApplyProbability : Rat) = 1 := by
  decide +kernel


/-- the constants this property depends on were re-read from the working tree on this run (none of
    them fell back to its pinned value because its declaration could not be located) -/
theorem facts_fresh : (Facts.staleFacts.all fun n => !["defaultApplyProbability"].contains n) = true := by decide

/-! ## END TO END: the switches and probabilities on whole requests (`decideWith` / `Rdm.decide`)

The theorems above are about `ChooseBiases` and the loop of `processBiases` with an abstract `apply`.  The ones
below are about the whole `MakeDecision` (model `decideWith` of Model/Decide.lean): validation, `prepareParams`,
`ChooseBiases`, the loop over the six real biases, `Evaluate` of any of the seven methods — for every request,
every method, every bias list, every stream function `g`, no bounds.  Helper lemmas:
`Rdm/Lemmas/E2EService.lean` (the loop: pattern, failure, erasure), `Rdm/Lemmas/E2EServiceRequest.lean`
(`ChooseBiases` / `prepare` characterised exactly, request-level readings).

Vocabulary (definitions in Lemmas/E2EService.lean, spelled out by `vocabulary_spelled_out`):
  `e2esEnabled req`  the entries of `req.biases` that are not disabled, in request order;
  `e2esProb b`       the probability entry `b` runs with: `applyProbability`, or the code's default when omitted;
  `e2esProbs req`    the probabilities of the enabled entries;
  `e2esFlags outs`   the fired flags (`props ≠ null`) of a response's `biases` list;
  `e2esPattern ps us` position by position `u < p`. -/

section EndToEnd
variable {exp exp₁ exp₂ : α → α} {o o₁ o₂ : List (WCrit α) → List (WCrit α)}

theorem vocabulary_spelled_out (req : Request α) (outs : List (BiasOut α (Report α))) (ps us : List α) :
    e2esEnabled req = req.biases.filter (fun b => !b.disabled) ∧
    e2esProbs req = (req.biases.filter (fun b => !b.disabled)).map
      (fun b => b.prob.getD (Num.ofConst Facts.defaultApplyProbability)) ∧
    e2esFlags outs = outs.map (fun o => o.report.isSome) ∧
    e2esPattern ps us = List.zipWith (fun p u => decide (u < p)) ps us :=
  ⟨rfl, rfl, rfl, rfl⟩

/-! ### (e) one entry per enabled bias, name and (defaulted) probability echoed; fired iff draw < probability -/

/-- **N1(e)** the response's `biases` list has one entry per enabled request entry, in request order, and each
    carries the name and the (defaulted) probability of its request entry -/
theorem response_echoes_the_probability {req : Request α} {g : Int → Draws α} {resp : Response α}
    (h : decideWith exp o req g = .ok resp) :
    resp.biases.length = (e2esEnabled req).length ∧
    resp.biases.map (·.name) = (e2esEnabled req).map (·.name) ∧
    resp.biases.map (·.prob) = e2esProbs req := by
  obtain ⟨params, _, hrun, _⟩ := e2es_decide_run h
  have hecho := e2e_loop_echo _ _ _ _ _ _ hrun
  have hlen := e2eb_loop_length _ _ _ _ _ hrun
  refine ⟨by simpa using hlen, ?_, ?_⟩
  · have := congrArg (List.map Prod.fst) hecho
    simpa [List.map_map, Function.comp_def, e2esChosen] using this
  · have := congrArg (List.map Prod.snd) hecho
    simpa [List.map_map, Function.comp_def, e2esChosen, e2esProbs] using this

/-- **`process_entries` on the response of `MakeDecision`**, in terms of the request alone: the `i`-th enabled
    entry `b` of the request is answered by the `i`-th entry of `resp.biases`: same name, probability
    `e2esProb b`, and it carries a report iff the `i`-th number of the `biasApplyRandomSeed` stream is below
    that probability -/
theorem response_entry_fires_iff_draw_below_probability {req : Request α} {g : Int → Draws α}
    {resp : Response α} (h : decideWith exp o req g = .ok resp) (i : Nat) (b : BiasReq α (BProps α))
    (hb : (e2esEnabled req)[i]? = some b) :
    ∃ out u, resp.biases[i]? = some out ∧ (g req.biasSeed)[i]? = some u ∧
      out.name = b.name ∧ out.prob = e2esProb b ∧ out.report.isSome = decide (u < e2esProb b) :=
  (e2es_decide_entries h).2 i b hb

/-- the same through `process_entries` itself (the C08 theorem about the loop), for the list `ChooseBiases`
    returned -/
theorem response_entries_through_process_entries {req : Request α} {g : Int → Draws α} {resp : Response α}
    (h : decideWith exp o req g = .ok resp) :
    ∃ chosen, chooseBiases availableBiases req.biases = .ok chosen ∧
      chosen.length = (req.biases.filter (!·.disabled)).length ∧ resp.biases.length = chosen.length ∧
      ∀ i (hi : i < resp.biases.length) (hc : i < chosen.length) (hd : i < (g req.biasSeed).length),
        resp.biases[i].name = chosen[i].name ∧ resp.biases[i].prob = chosen[i].prob ∧
          resp.biases[i].report.isSome = decide ((g req.biasSeed)[i] < chosen[i].prob) := by
  obtain ⟨params, hprep, hrun, _⟩ := e2es_decide_run h
  obtain ⟨_, _, _, _, _, hch⟩ := (e2es_prepare_ok_iff req params _).mp hprep
  obtain ⟨h1, h2⟩ := process_entries _ _ _ _ _ _ _ hrun
  exact ⟨_, hch, choose_length _ _ _ hch, h1, h2⟩

/-! ### (a) the pattern depends only on seed, position, probability -/

/-- **the fired / not-fired pattern as a formula**: it is `draw < probability`, position by position, of the
    enabled entries' probabilities and the stream of `biasApplyRandomSeed`; the stream is long enough.  Nothing
    else of the request (method, problem, names, props, other seeds) and nothing the biases did enters. -/
theorem fired_pattern_is_a_function_of_probabilities_and_draws {req : Request α} {g : Int → Draws α}
    {resp : Response α} (h : decideWith exp o req g = .ok resp) :
    (e2esProbs req).length ≤ (g req.biasSeed).length ∧
    e2esFlags resp.biases = e2esPattern (e2esProbs req) (g req.biasSeed) :=
  e2es_decide_pattern h

/-- **N1(a), common prefix**: the pattern up to position `k` depends only on the first `k` probabilities and
    the first `k` activation draws — two accepted requests (any methods, problems, names, props, other seeds,
    exponentials, tie orders; anything after position `k`) that agree on those have the same first `k` flags -/
theorem firing_prefix_depends_only_on_its_probabilities_and_draws {req₁ req₂ : Request α}
    {g₁ g₂ : Int → Draws α} {resp₁ resp₂ : Response α}
    (h₁ : decideWith exp₁ o₁ req₁ g₁ = .ok resp₁) (h₂ : decideWith exp₂ o₂ req₂ g₂ = .ok resp₂) (k : Nat)
    (hp : (e2esProbs req₁).take k = (e2esProbs req₂).take k)
    (hg : (g₁ req₁.biasSeed).take k = (g₂ req₂.biasSeed).take k) :
    (e2esFlags resp₁.biases).take k = (e2esFlags resp₂.biases).take k := by
  rw [(e2es_decide_pattern h₁).2, (e2es_decide_pattern h₂).2, e2esPattern_take, e2esPattern_take, hp, hg]

/-- **N1(a)**: two accepted requests — possibly different methods, problems, bias names, other props, other
    seeds — whose enabled entries have the same probabilities in the same order and whose activation streams
    agree give responses with the same fired / not-fired pattern, position by position -/
theorem firing_depends_only_on_seed_position_probability {req₁ req₂ : Request α}
    {g₁ g₂ : Int → Draws α} {resp₁ resp₂ : Response α}
    (h₁ : decideWith exp₁ o₁ req₁ g₁ = .ok resp₁) (h₂ : decideWith exp₂ o₂ req₂ g₂ = .ok resp₂)
    (hp : e2esProbs req₁ = e2esProbs req₂) (hg : g₁ req₁.biasSeed = g₂ req₂.biasSeed) :
    resp₁.biases.map (·.report.isSome) = resp₂.biases.map (·.report.isSome) := by
  have := (e2es_decide_pattern h₁).2
  have := (e2es_decide_pattern h₂).2
  unfold e2esFlags at *
  simp_all

/-- … position by position -/
theorem firing_depends_only_on_seed_position_probability_at {req₁ req₂ : Request α}
    {g₁ g₂ : Int → Draws α} {resp₁ resp₂ : Response α}
    (h₁ : decideWith exp₁ o₁ req₁ g₁ = .ok resp₁) (h₂ : decideWith exp₂ o₂ req₂ g₂ = .ok resp₂)
    (hp : e2esProbs req₁ = e2esProbs req₂) (hg : g₁ req₁.biasSeed = g₂ req₂.biasSeed) (i : Nat) :
    (resp₁.biases[i]?).map (·.report.isSome) = (resp₂.biases[i]?).map (·.report.isSome) := by
  have := firing_depends_only_on_seed_position_probability h₁ h₂ hp hg
  rw [← List.getElem?_map, ← List.getElem?_map, this]

/-- … only the seeded stream matters: with the same seed table and the same `biasApplyRandomSeed` -/
theorem firing_depends_only_on_seed_position_probability_decide {req₁ req₂ : Request α} {seeds : Seeds α}
    {resp₁ resp₂ : Response α}
    (h₁ : Rdm.decide exp₁ req₁ seeds = .ok resp₁) (h₂ : Rdm.decide exp₂ req₂ seeds = .ok resp₂)
    (hp : e2esProbs req₁ = e2esProbs req₂) (hs : req₁.biasSeed = req₂.biasSeed) :
    resp₁.biases.map (·.report.isSome) = resp₂.biases.map (·.report.isSome) :=
  firing_depends_only_on_seed_position_probability h₁ h₂ hp (by rw [hs])

/-! ### (b) disabled entries -/

/-- **N1(b)**: removing the disabled entries from the request's bias list changes nothing — the outcomes are
    equal as a whole (result, biases, final state; or the same error) -/
theorem disabled_entries_are_invisible (req : Request α) (g : Int → Draws α) :
    decideWith exp o { req with biases := req.biases.filter (!·.disabled) } g = decideWith exp o req g :=
  e2es_decideWith_congr_biases exp o req g _ _ (disabled_equals_absent _ _).symm

/-- … spelled out on an accepted request -/
theorem disabled_entries_are_invisible_response {req : Request α} {g : Int → Draws α} {resp : Response α}
    (h : decideWith exp o req g = .ok resp) :
    ∃ resp', decideWith exp o { req with biases := req.biases.filter (!·.disabled) } g = .ok resp' ∧
      resp'.result = resp.result ∧ resp'.biases = resp.biases ∧ resp'.final = resp.final :=
  ⟨resp, by rw [disabled_entries_are_invisible, h], rfl, rfl, rfl⟩

/-- a disabled entry may stand anywhere and be anything (unknown name, undecodable props, any probability):
    the decision is the one of the request without it -/
theorem a_disabled_entry_may_be_anything (req : Request α) (g : Int → Draws α)
    (pre post : List (BiasReq α (BProps α))) (b : BiasReq α (BProps α)) (hd : b.disabled = true) :
    decideWith exp o { req with biases := pre ++ b :: post } g
      = decideWith exp o { req with biases := pre ++ post } g := by
  apply e2es_decideWith_congr_biases
  rw [disabled_equals_absent, disabled_equals_absent availableBiases (pre ++ post)]
  congr 1
  rw [List.filter_append, List.filter_append, List.filter_cons_of_neg (by simp [hd])]

/-! ### (c) probability 0, probability 1, omitted probability -/

/-- **N1(c)** omitting `applyProbability` is the same as giving the default of the code: filling the default
    in explicitly, for every entry, changes nothing in the outcome -/
theorem omitted_probability_means_default (req : Request α) (g : Int → Draws α) :
    decideWith exp o { req with biases := req.biases.map fun b => { b with prob := some (e2esProb b) } } g
      = decideWith exp o req g := by
  apply e2es_decideWith_congr_biases
  unfold chooseBiases
  rw [List.filter_map, List.mapM_map]
  rfl

/-- … and over the rationals that default is 1 -/
theorem omitted_probability_means_one (exp : Rat → Rat) (o : List (WCrit Rat) → List (WCrit Rat))
    (req : Request Rat) (g : Int → Draws Rat) :
    decideWith exp o { req with biases := req.biases.map fun b => { b with prob := some (b.prob.getD 1) } } g
      = decideWith exp o req g := by
  have := omitted_probability_means_default (exp := exp) (o := o) req g
  unfold e2esProb at this
  rw [default_probability_is_one] at this
  exact this

/-- **N1(c)** probability 0 never fires: for activation draws in [0,1) (only `0 ≤ draw` is needed) an enabled
    entry with `applyProbability = 0` is answered with `props: null` -/
theorem probability_zero_never_fires {exp : Rat → Rat} {o : List (WCrit Rat) → List (WCrit Rat)}
    {req : Request Rat} {g : Int → Draws Rat} {resp : Response Rat}
    (h : decideWith exp o req g = .ok resp) (hd : ∀ u ∈ g req.biasSeed, 0 ≤ u ∧ u < 1)
    (i : Nat) (b : BiasReq Rat (BProps Rat)) (hb : (e2esEnabled req)[i]? = some b) (hp : b.prob = some 0) :
    ∃ out, resp.biases[i]? = some out ∧ out.name = b.name ∧ out.prob = 0 ∧ out.report = none := by
  obtain ⟨out, u, ho, hu, hn, hpr, hf⟩ := (e2es_decide_entries h).2 i b hb
  have hpb : e2esProb b = 0 := by unfold e2esProb; rw [hp]; rfl
  rw [hpb] at hpr hf
  have hu0 := (hd u (List.mem_of_getElem? hu)).1
  have : ¬ u < 0 := Rat.not_lt.mpr hu0
  refine ⟨out, ho, hn, hpr, ?_⟩
  cases hr : out.report with
  | none => rfl
  | some r => rw [hr] at hf; simp [this] at hf

/-- **N1(c)** probability 1 always fires: for activation draws in [0,1) (only `draw < 1` is needed) an enabled
    entry with `applyProbability = 1` is answered with a report -/
theorem probability_one_always_fires {exp : Rat → Rat} {o : List (WCrit Rat) → List (WCrit Rat)}
    {req : Request Rat} {g : Int → Draws Rat} {resp : Response Rat}
    (h : decideWith exp o req g = .ok resp) (hd : ∀ u ∈ g req.biasSeed, 0 ≤ u ∧ u < 1)
    (i : Nat) (b : BiasReq Rat (BProps Rat)) (hb : (e2esEnabled req)[i]? = some b) (hp : b.prob = some 1) :
    ∃ out rep, resp.biases[i]? = some out ∧ out.name = b.name ∧ out.prob = 1 ∧ out.report = some rep := by
  obtain ⟨out, u, ho, hu, hn, hpr, hf⟩ := (e2es_decide_entries h).2 i b hb
  have hpb : e2esProb b = 1 := by unfold e2esProb; rw [hp]; rfl
  rw [hpb] at hpr hf
  have hu1 := (hd u (List.mem_of_getElem? hu)).2
  cases hr : out.report with
  | none => rw [hr] at hf; simp [hu1] at hf
  | some r => exact ⟨out, r, ho, hn, hpr, hr⟩

/-- **N1(c)** an entry without `applyProbability` always fires for draws in [0,1), and echoes probability 1 -/
theorem omitted_probability_always_fires {exp : Rat → Rat} {o : List (WCrit Rat) → List (WCrit Rat)}
    {req : Request Rat} {g : Int → Draws Rat} {resp : Response Rat}
    (h : decideWith exp o req g = .ok resp) (hd : ∀ u ∈ g req.biasSeed, 0 ≤ u ∧ u < 1)
    (i : Nat) (b : BiasReq Rat (BProps Rat)) (hb : (e2esEnabled req)[i]? = some b) (hp : b.prob = none) :
    ∃ out rep, resp.biases[i]? = some out ∧ out.name = b.name ∧ out.prob = 1 ∧ out.report = some rep := by
  obtain ⟨out, u, ho, hu, hn, hpr, hf⟩ := (e2es_decide_entries h).2 i b hb
  have hpb : e2esProb b = 1 := by unfold e2esProb; rw [hp]; exact default_probability_is_one
  rw [hpb] at hpr hf
  have hu1 := (hd u (List.mem_of_getElem? hu)).2
  cases hr : out.report with
  | none => rw [hr] at hf; simp [hu1] at hf
  | some r => exact ⟨out, r, ho, hn, hpr, hr⟩

/-! ### (d) monotone in the probability -/

/-- **N1(d), general form**: two accepted requests (anything else may differ) with the same activation stream
    and as many enabled entries, the probabilities of the second at least those of the first, position by
    position: every position that fired in the first fired in the second, and wherever the two probabilities
    are equal the flags are equal -/
theorem firing_is_monotone_in_the_probability {exp₁ exp₂ : Rat → Rat}
    {o₁ o₂ : List (WCrit Rat) → List (WCrit Rat)} {req₁ req₂ : Request Rat} {g₁ g₂ : Int → Draws Rat}
    {resp₁ resp₂ : Response Rat}
    (h₁ : decideWith exp₁ o₁ req₁ g₁ = .ok resp₁) (h₂ : decideWith exp₂ o₂ req₂ g₂ = .ok resp₂)
    (hg : g₁ req₁.biasSeed = g₂ req₂.biasSeed)
    (hle : ∀ (j : Nat) (p₁ p₂ : Rat), (e2esProbs req₁)[j]? = some p₁ → (e2esProbs req₂)[j]? = some p₂ → p₁ ≤ p₂)
    (j : Nat) (f₁ f₂ : Bool) (hf₁ : (e2esFlags resp₁.biases)[j]? = some f₁)
    (hf₂ : (e2esFlags resp₂.biases)[j]? = some f₂) :
    (f₁ = true → f₂ = true) ∧ ((e2esProbs req₁)[j]? = (e2esProbs req₂)[j]? → f₁ = f₂) := by
  rw [(e2es_decide_pattern h₁).2, e2esPattern_getElem?] at hf₁
  rw [(e2es_decide_pattern h₂).2, e2esPattern_getElem?, ← hg] at hf₂
  cases hp₁ : (e2esProbs req₁)[j]? with
  | none => rw [hp₁] at hf₁; cases hf₁
  | some p₁ =>
    cases hp₂ : (e2esProbs req₂)[j]? with
    | none => rw [hp₂] at hf₂; cases hf₂
    | some p₂ =>
      cases hu : (g₁ req₁.biasSeed)[j]? with
      | none => rw [hp₁, hu] at hf₁; cases hf₁
      | some u =>
        rw [hp₁, hu] at hf₁
        rw [hp₂, hu] at hf₂
        simp only [Option.some.injEq] at hf₁ hf₂
        subst hf₁ hf₂
        refine ⟨?_, ?_⟩
        · intro hf
          have hlt : u < p₁ := of_decide_eq_true hf
          exact decide_eq_true (fires_monotone u p₁ p₂ (hle j p₁ p₂ hp₁ hp₂) hlt)
        · intro he
          simp only [Option.some.injEq] at he
          rw [he]

/-- **N1(d)**: raising the probability of ONE enabled entry (everything else the same, same streams) — if
    both decisions succeed — can only turn that entry from not-fired to fired; the flags of all earlier
    entries and of all later entries are unchanged (the activation draws do not depend on the state) -/
theorem raising_one_probability_only_turns_that_entry_on {exp : Rat → Rat}
    {o : List (WCrit Rat) → List (WCrit Rat)} {req : Request Rat} {g : Int → Draws Rat}
    {pre post : List (BiasReq Rat (BProps Rat))} {b : BiasReq Rat (BProps Rat)} {p' : Rat}
    {resp₁ resp₂ : Response Rat}
    (hreq : req.biases = pre ++ b :: post) (hen : b.disabled = false) (hp : e2esProb b ≤ p')
    (h₁ : decideWith exp o req g = .ok resp₁)
    (h₂ : decideWith exp o { req with biases := pre ++ { b with prob := some p' } :: post } g = .ok resp₂) :
    (∀ j, j ≠ (pre.filter (!·.disabled)).length →
      (e2esFlags resp₁.biases)[j]? = (e2esFlags resp₂.biases)[j]?) ∧
    ((e2esFlags resp₁.biases)[(pre.filter (!·.disabled)).length]? = some true →
      (e2esFlags resp₂.biases)[(pre.filter (!·.disabled)).length]? = some true) := by
  have e₁ : e2esProbs req =
      (pre.filter (!·.disabled)).map e2esProb ++ e2esProb b :: (post.filter (!·.disabled)).map e2esProb := by
    unfold e2esProbs e2esEnabled
    rw [hreq, e2es_enabled_split pre post b hen, List.map_append, List.map_cons]
  have e₂ : e2esProbs { req with biases := pre ++ { b with prob := some p' } :: post } =
      (pre.filter (!·.disabled)).map e2esProb ++ p' :: (post.filter (!·.disabled)).map e2esProb := by
    unfold e2esProbs e2esEnabled
    dsimp only
    rw [e2es_enabled_split pre post _ (by exact hen), List.map_append, List.map_cons]
    rfl
  have hl : ((pre.filter (!·.disabled)).map e2esProb).length = (pre.filter (!·.disabled)).length :=
    List.length_map _
  have hlen : (e2esFlags resp₁.biases).length = (e2esFlags resp₂.biases).length := by
    have a := (response_echoes_the_probability h₁).2.2
    have c := (response_echoes_the_probability h₂).2.2
    have a' := congrArg List.length a
    have c' := congrArg List.length c
    rw [e₁] at a'
    rw [e₂] at c'
    simp only [List.length_map, List.length_append, List.length_cons, e2esFlags] at a' c' ⊢
    omega
  have key := fun j f₁ f₂ => firing_is_monotone_in_the_probability h₁ h₂ rfl (by
    intro j p₁ p₂ h1 h2
    rw [e₁] at h1
    rw [e₂] at h2
    by_cases hj : j = ((pre.filter (!·.disabled)).map e2esProb).length
    · subst hj
      rw [e2es_getElem?_replace_eq] at h1 h2
      cases h1; cases h2; exact hp
    · rw [e2es_getElem?_replace_ne _ _ _ p' j hj, h2] at h1
      cases h1; exact Rat.le_refl) j f₁ f₂
  constructor
  · intro j hj
    cases hf₁ : (e2esFlags resp₁.biases)[j]? with
    | none =>
      have : (e2esFlags resp₁.biases).length ≤ j := List.getElem?_eq_none_iff.mp hf₁
      exact (List.getElem?_eq_none_iff.mpr (by omega)).symm
    | some f₁ =>
      have hj1 : j < (e2esFlags resp₁.biases).length := (List.getElem?_eq_some_iff.mp hf₁).1
      have hj2 : j < (e2esFlags resp₂.biases).length := by omega
      have hf₂ := List.getElem?_eq_getElem hj2
      have := (key j f₁ _ hf₁ hf₂).2 (by
        rw [e₁, e₂]
        exact e2es_getElem?_replace_ne _ _ _ _ j (by rw [hl]; exact hj))
      rw [hf₂, this]
  · intro hf₁
    have hj1 := (List.getElem?_eq_some_iff.mp hf₁).1
    have hj2 : (pre.filter (!·.disabled)).length < (e2esFlags resp₂.biases).length := by omega
    have hf₂ := List.getElem?_eq_getElem hj2
    have := (key _ true _ hf₁ hf₂).1 rfl
    rw [hf₂, this]

/-! ### frequency -/

/-- **the frequency clause, as far as the model carries it**: run the same request with the seeds `ss` as
    `biasApplyRandomSeed` (all runs accepted).  The number of runs in which the `i`-th enabled entry fired is the
    number of seeds whose stream has its `i`-th number below the entry's probability `p` — so the entry fires
    with frequency `p` exactly as far as the `i`-th numbers of `utils.RandomBasedSeedValueGenerator(seed)` are
    uniform on [0,1) over the seeds (a property of `math/rand`, outside the model; measured by the harness). -/
theorem firing_frequency_is_the_frequency_of_draws_below_probability {req : Request α} {g : Int → Draws α}
    (ss : List Int) (resp : Int → Response α)
    (h : ∀ s ∈ ss, decideWith exp o { req with biasSeed := s } g = .ok (resp s))
    (i : Nat) (p : α) (hp : (e2esProbs req)[i]? = some p) :
    ss.countP (fun s => (e2esFlags (resp s).biases)[i]? == some true) =
      ss.countP (fun s => ((g s)[i]?.map fun u => decide (u < p)) == some true) := by
  apply List.countP_congr
  intro s hs
  have hpat := (e2es_decide_pattern (h s hs)).2
  have hprobs : e2esProbs { req with biasSeed := s } = e2esProbs req := rfl
  rw [hpat, hprobs, e2esPattern_getElem?, hp]
  show _ ↔ (((g s)[i]?.map fun u => decide (u < p)) == some true) = true
  cases (g s)[i]? <;> simp

/-! ### a bias that does not fire changes nothing -/

/-- an entry answered with `props: null` hands the state it received on unchanged: the run of the loop over
    the entries before it ends in the very state `s` the run over the entries after it starts from -/
theorem unfired_entry_hands_the_state_on_unchanged {req : Request α} {g : Int → Draws α} {resp : Response α}
    (h : decideWith exp o req g = .ok resp) (i : Nat) (out : BiasOut α (Report α))
    (hi : resp.biases[i]? = some out) (hn : out.report = none) :
    ∃ params chosen s, prepare req = .ok (params, chosen) ∧
      processLoop (applyBias exp g) params (chosen.take i) params (g req.biasSeed)
        = .ok (s, resp.biases.take i) ∧
      processLoop (applyBias exp g) params (chosen.drop (i + 1)) s ((g req.biasSeed).drop (i + 1))
        = .ok (resp.final, resp.biases.drop (i + 1)) := by
  obtain ⟨params, chosen, hprep, hrun, _⟩ := e2eb_decide_run h
  obtain ⟨b, u, s, s', _, _, hpre, ⟨_, _, hstep⟩, hpost⟩ := e2eb_loop_split _ _ _ _ _ hrun i out hi
  rw [hn] at hstep
  obtain ⟨_, rfl⟩ := hstep
  exact ⟨params, chosen, s', hprep, hpre, hpost⟩

/-- **"a bias that does not fire changes nothing", end to end**: erase an enabled entry that was answered with
    `props: null` from the request and erase its activation draw from the stream of `biasApplyRandomSeed`
    (every other stream the request names kept): the decision is the same — same result, same final state, the
    same `biases` list without that entry.  (Together with `disabled_entries_are_invisible`: an entry that
    does not fire is, up to the draw it consumes, a disabled entry.) -/
theorem unfired_entry_equals_removed_entry {req : Request α} {g g' : Int → Draws α} {resp : Response α}
    (h : decideWith exp o req g = .ok resp) (i : Nat) (out : BiasOut α (Report α))
    (hi : resp.biases[i]? = some out) (hn : out.report = none)
    (hg' : g' req.biasSeed = (g req.biasSeed).eraseIdx i)
    (hbs : ∀ b ∈ req.biases, ∀ k ∈ b.props.seeds, g' k = g k)
    (hmp : ∀ mp, req.mp = some mp → ∀ k ∈ mp.seed.toList, g' k = g k) :
    decideWith exp o { req with biases := (e2esEnabled req).eraseIdx i } g'
      = .ok ⟨resp.result, resp.biases.eraseIdx i, resp.final⟩ :=
  e2es_decide_erase_unfired h hi hn hg' hbs hmp

end EndToEnd

/-! ### the hypotheses are satisfiable: concrete requests (Lemmas/E2EExamples.lean, E2EServiceExamples.lean) -/

section Examples

/-- (a) a weighted-sum request and a majority-heuristic request (another method, other parameters) with the
    same bias probabilities and the same `biasApplyRandomSeed`: both are answered, with the same pattern
    fired / not fired — and the pattern is the formula on the probabilities [1, 1/2] and the draws [1/4, 3/4] -/
example : ∃ r₁ r₂, Rdm.decide id e2eExWs e2eExSeeds = .ok r₁ ∧ Rdm.decide id e2eExMaj e2eExSeeds = .ok r₂ ∧
    r₁.biases.map (·.report.isSome) = r₂.biases.map (·.report.isSome) ∧
    e2esFlags r₁.biases = [true, false] := by
  obtain ⟨r₁, h₁⟩ := e2e_ok_of_isOk (x := Rdm.decide id e2eExWs e2eExSeeds) (by decide +kernel)
  obtain ⟨r₂, h₂⟩ := e2e_ok_of_isOk (x := Rdm.decide id e2eExMaj e2eExSeeds) (by decide +kernel)
  refine ⟨r₁, r₂, h₁, h₂, firing_depends_only_on_seed_position_probability_decide h₁ h₂ rfl rfl, ?_⟩
  rw [(fired_pattern_is_a_function_of_probabilities_and_draws h₁).2]
  decide +kernel

/-- (b), (e) the request without its disabled entry is answered like the request itself; two entries, names and
    probabilities (default 1, and 1/2) echoed -/
example : ∃ r, Rdm.decide id { e2eExWs with biases := e2eExWs.biases.filter (!·.disabled) } e2eExSeeds = .ok r ∧
    Rdm.decide id e2eExWs e2eExSeeds = .ok r ∧
    r.biases.map (·.name) = [Facts.biasFatigue, Facts.biasReversal] ∧ r.biases.map (·.prob) = [1, 1 / 2] := by
  obtain ⟨r, h⟩ := e2e_ok_of_isOk (x := Rdm.decide id e2eExWs e2eExSeeds) (by decide +kernel)
  obtain ⟨_, hn, hp⟩ := response_echoes_the_probability h
  refine ⟨r, ?_, h, ?_, ?_⟩
  · unfold Rdm.decide at h ⊢
    rw [disabled_entries_are_invisible, h]
  · rw [hn]; decide
  · rw [hp]; decide +kernel

/-- (c) the fatigue of the example request with probability 0: answered with `props: null` -/
example : ∃ r out, Rdm.decide id (e2esExWsP (some 0)) e2eExSeeds = .ok r ∧ r.biases[0]? = some out ∧
    out.prob = 0 ∧ out.report = none := by
  obtain ⟨r, h⟩ := e2e_ok_of_isOk (x := Rdm.decide id (e2esExWsP (some 0)) e2eExSeeds) (by decide +kernel)
  obtain ⟨out, ho, _, hp, hr⟩ := probability_zero_never_fires h (by decide +kernel) 0 (e2esExFatigue (some 0)) rfl rfl
  exact ⟨r, out, h, ho, hp, hr⟩

/-- (c) with probability 1, and with the probability omitted: it fires -/
example : ∃ r out rep, Rdm.decide id (e2esExWsP (some 1)) e2eExSeeds = .ok r ∧ r.biases[0]? = some out ∧
    out.prob = 1 ∧ out.report = some rep := by
  obtain ⟨r, h⟩ := e2e_ok_of_isOk (x := Rdm.decide id (e2esExWsP (some 1)) e2eExSeeds) (by decide +kernel)
  obtain ⟨out, rep, ho, _, hp, hr⟩ :=
    probability_one_always_fires h (by decide +kernel) 0 (e2esExFatigue (some 1)) rfl rfl
  exact ⟨r, out, rep, h, ho, hp, hr⟩

example : ∃ r out rep, Rdm.decide id e2eExWs e2eExSeeds = .ok r ∧ r.biases[0]? = some out ∧
    out.prob = 1 ∧ out.report = some rep := by
  obtain ⟨r, h⟩ := e2e_ok_of_isOk (x := Rdm.decide id e2eExWs e2eExSeeds) (by decide +kernel)
  obtain ⟨out, rep, ho, _, hp, hr⟩ :=
    omitted_probability_always_fires h (by decide +kernel) 0 (e2esExFatigue none) rfl rfl
  exact ⟨r, out, rep, h, ho, hp, hr⟩

/-- (d) the fatigue's probability raised from 1/8 (below the draw 1/4: not fired) to 1/2 (fired): both requests
    are answered; the reversal's flag (position 1) is the same in both -/
example : ∃ r₁ r₂, Rdm.decide id (e2esExWsP (some (1 / 8))) e2eExSeeds = .ok r₁ ∧
    Rdm.decide id (e2esExWsP (some (1 / 2))) e2eExSeeds = .ok r₂ ∧
    e2esFlags r₁.biases = [false, false] ∧ e2esFlags r₂.biases = [true, false] ∧
    (e2esFlags r₁.biases)[1]? = (e2esFlags r₂.biases)[1]? := by
  obtain ⟨r₁, h₁⟩ := e2e_ok_of_isOk (x := Rdm.decide id (e2esExWsP (some (1 / 8))) e2eExSeeds) (by decide +kernel)
  obtain ⟨r₂, h₂⟩ := e2e_ok_of_isOk (x := Rdm.decide id (e2esExWsP (some (1 / 2))) e2eExSeeds) (by decide +kernel)
  have hm := raising_one_probability_only_turns_that_entry_on (req := e2esExWsP (some (1 / 8)))
    (pre := []) (post := [e2esExReversal, e2esExDisabled]) (b := e2esExFatigue (some (1 / 8))) (p' := 1 / 2)
    rfl rfl (by decide +kernel) h₁ h₂
  refine ⟨r₁, r₂, h₁, h₂, ?_, ?_, hm.1 1 (by decide)⟩
  · rw [(fired_pattern_is_a_function_of_probabilities_and_draws h₁).2]; decide +kernel
  · rw [(fired_pattern_is_a_function_of_probabilities_and_draws h₂).2]; decide +kernel

/-- the reversal of the example request did not fire (position 1): without it, and with the second activation
    draw erased from the stream of seed 5, the decision is the same -/
example : ∃ r, Rdm.decide id e2eExWs e2eExSeeds = .ok r ∧
    Rdm.decide id { e2eExWs with biases := [e2esExFatigue none] } e2esExSeedsErased
      = .ok ⟨r.result, r.biases.eraseIdx 1, r.final⟩ := by
  obtain ⟨r, h⟩ := e2e_ok_of_isOk (x := Rdm.decide id e2eExWs e2eExSeeds) (by decide +kernel)
  obtain ⟨out, u, ho, hu', _, _, hf⟩ := response_entry_fires_iff_draw_below_probability h 1 e2esExReversal rfl
  have hu : (genOf e2eExSeeds e2eExWs.biasSeed)[1]? = some (3 / 4 : Rat) := by decide +kernel
  have hn : out.report = none := by
    rw [hu] at hu'
    cases hu'
    cases hr : out.report with
    | none => rfl
    | some rep =>
      rw [hr] at hf
      have : decide ((3 / 4 : Rat) < e2esProb e2esExReversal) = false := by decide +kernel
      rw [this] at hf
      cases hf
  exact ⟨r, h, unfired_entry_equals_removed_entry (g' := genOf e2esExSeedsErased) h 1 out ho hn
    (by decide +kernel) (by decide +kernel) (by decide +kernel)⟩

/-- the frequency clause on the example request run with the single seed 5: the reversal (position 1,
    probability 1/2) fired in as many runs as there are seeds whose second number is below 1/2 — none -/
example : ∃ r, Rdm.decide id e2eExWs e2eExSeeds = .ok r ∧
    [(5 : Int)].countP (fun _ => (e2esFlags r.biases)[1]? == some true) = 0 := by
  obtain ⟨r, h⟩ := e2e_ok_of_isOk (x := Rdm.decide id e2eExWs e2eExSeeds) (by decide +kernel)
  refine ⟨r, h, ?_⟩
  rw [firing_frequency_is_the_frequency_of_draws_below_probability (req := e2eExWs) (g := genOf e2eExSeeds)
    [5] (fun _ => r) (by intro s hs; cases List.mem_singleton.mp hs; exact h) 1 (1 / 2) (by decide +kernel)]
  decide +kernel

end Examples

end Rdm.Props.C08
