/-
  C08 — bias switches and apply-probabilities behave as documented.
  All theorems hold for every number type (only the decidable `<` of `Num` is used), every
  bias implementation `apply`, every list length and every stream of draws.
-/
import Rdm.Model.Pipeline
namespace Rdm.Props.C08
open Rdm

variable {α : Type} [Num α] {S P Rep : Type}

/-- A disabled bias is equivalent to leaving it out: `ChooseBiases` sees only the enabled entries
    (so unknown names are accepted when disabled). -/
theorem disabled_equals_absent (avail : List String) (reqs : List (BiasReq α P)) :
    chooseBiases avail reqs = chooseBiases avail (reqs.filter (!·.disabled)) := by
  unfold chooseBiases
  rw [List.filter_filter]
  simp

/-- helper: `mapM` in `Except` preserves length and maps pointwise -/
private theorem mapM_ok_length {β γ : Type} (f : β → R γ) :
    ∀ (l : List β) (r : List γ), l.mapM f = .ok r → r.length = l.length
  | [], r, h => by
    simp [List.mapM_nil, pure, Except.pure] at h; subst h; rfl
  | x :: xs, r, h => by
    rw [List.mapM_cons] at h
    cases hx : f x with
    | error e => simp [hx, bind, Except.bind] at h
    | ok y =>
      cases hxs : xs.mapM f with
      | error e => simp [hx, hxs, bind, Except.bind] at h
      | ok ys =>
        simp [hx, hxs, bind, Except.bind, pure, Except.pure] at h
        subst h
        simp [mapM_ok_length f xs ys hxs]

/-- one chosen entry per non-disabled request entry -/
theorem choose_length (avail : List String) (reqs : List (BiasReq α P)) (chosen : List (Chosen α P))
    (h : chooseBiases avail reqs = .ok chosen) :
    chosen.length = (reqs.filter (!·.disabled)).length := by
  unfold chooseBiases at h
  exact mapM_ok_length _ _ _ h

/-- the response's `biases` list has one entry per chosen bias, in order, echoing name and
    probability; entry `i` fired (report ≠ null) iff the i-th draw is below its probability -/
theorem process_entries (apply : String → P → S → S → R (S × Rep)) (orig : S) :
    ∀ (chosen : List (Chosen α P)) (cur : S) (d : Draws α) (fin : S) (outs : List (BiasOut α Rep)),
      processLoop apply orig chosen cur d = .ok (fin, outs) →
      outs.length = chosen.length ∧
      ∀ i (hi : i < outs.length) (hc : i < chosen.length) (hd : i < d.length),
        outs[i].name = chosen[i].name ∧ outs[i].prob = chosen[i].prob ∧
        (outs[i].report.isSome = decide (d[i] < chosen[i].prob))
  | [], cur, d, fin, outs, h => by
    simp [processLoop, pure, Except.pure] at h
    obtain ⟨_, rfl⟩ := h
    simp
  | b :: rest, cur, d, fin, outs, h => by
    unfold processLoop at h
    cases d with
    | nil => simp [draw, bind, Except.bind, throw, throwThe, MonadExceptOf.throw] at h
    | cons u d' =>
      simp only [draw, bind, Except.bind, pure, Except.pure] at h
      by_cases hu : u < b.prob
      · simp only [hu, if_true] at h
        cases ha : apply b.name b.props orig cur with
        | error e => simp [ha] at h
        | ok nr =>
          obtain ⟨next, rep⟩ := nr
          simp only [ha] at h
          cases hr : processLoop apply orig rest next d' with
          | error e => simp [hr] at h
          | ok fo =>
            obtain ⟨fin', outs'⟩ := fo
            simp only [hr, Except.ok.injEq, Prod.mk.injEq] at h
            obtain ⟨_, rfl⟩ := h
            have ih := process_entries apply orig rest next d' fin' outs' hr
            refine ⟨by simp [ih.1], ?_⟩
            intro i hi hc hd
            cases i with
            | zero => simp [hu]
            | succ j =>
              simp only [List.length_cons] at hi hc hd
              have := ih.2 j (by omega) (by omega) (by omega)
              simpa using this
      · simp only [hu, if_false] at h
        cases hr : processLoop apply orig rest cur d' with
        | error e => simp [hr] at h
        | ok fo =>
          obtain ⟨fin', outs'⟩ := fo
          simp only [hr, Except.ok.injEq, Prod.mk.injEq] at h
          obtain ⟨_, rfl⟩ := h
          have ih := process_entries apply orig rest cur d' fin' outs' hr
          refine ⟨by simp [ih.1], ?_⟩
          intro i hi hc hd
          cases i with
          | zero => simp [hu]
          | succ j =>
            simp only [List.length_cons] at hi hc hd
            have := ih.2 j (by omega) (by omega) (by omega)
            simpa using this

/-- a bias that does not fire changes nothing: if no entry fires, the state handed to the method
    is the initial one (whatever the biases would have done) -/
theorem nothing_fires_state_unchanged (apply : String → P → S → S → R (S × Rep)) (orig : S) :
    ∀ (chosen : List (Chosen α P)) (cur : S) (d : Draws α) (fin : S) (outs : List (BiasOut α Rep)),
      processLoop apply orig chosen cur d = .ok (fin, outs) →
      (∀ o ∈ outs, o.report = none) → fin = cur
  | [], cur, d, fin, outs, h, _ => by
    simp [processLoop, pure, Except.pure] at h
    exact h.1.symm
  | b :: rest, cur, d, fin, outs, h, hn => by
    unfold processLoop at h
    cases d with
    | nil => simp [draw, bind, Except.bind, throw, throwThe, MonadExceptOf.throw] at h
    | cons u d' =>
      simp only [draw, bind, Except.bind, pure, Except.pure] at h
      by_cases hu : u < b.prob
      · simp only [hu, if_true] at h
        cases ha : apply b.name b.props orig cur with
        | error e => simp [ha] at h
        | ok nr =>
          obtain ⟨next, rep⟩ := nr
          simp only [ha] at h
          cases hr : processLoop apply orig rest next d' with
          | error e => simp [hr] at h
          | ok fo =>
            obtain ⟨fin', outs'⟩ := fo
            simp only [hr, Except.ok.injEq, Prod.mk.injEq] at h
            obtain ⟨_, rfl⟩ := h
            have := hn ⟨b.name, b.prob, some rep⟩ (by simp)
            simp at this
      · simp only [hu, if_false] at h
        cases hr : processLoop apply orig rest cur d' with
        | error e => simp [hr] at h
        | ok fo =>
          obtain ⟨fin', outs'⟩ := fo
          simp only [hr, Except.ok.injEq, Prod.mk.injEq] at h
          obtain ⟨rfl, rfl⟩ := h
          exact nothing_fires_state_unchanged apply orig rest cur d' fin' outs' hr
            (fun o ho => hn o (by simp [ho]))

/-- whether an entry fires depends only on its own probability and its own draw, monotonically:
    raising the probability never turns a firing entry off -/
theorem fires_monotone (u p p' : Rat) (h : p ≤ p') (hf : u < p) : u < p' := by
  rw [← Rat.not_le] at hf ⊢
  exact fun h2 => hf (Rat.le_trans h h2)

/-- probability 1 always fires and probability 0 never does, because draws lie in [0,1) -/
theorem extremes (u : Rat) (h0 : 0 ≤ u) (h1 : u < 1) : (u < (1 : Rat)) ∧ ¬ (u < (0 : Rat)) :=
  ⟨h1, Rat.not_lt.mpr h0⟩

/-- the default probability taken from the code is 1 -/
theorem default_probability_is_one :
    (Num.ofConst Facts.defaultApplyProbability : Rat) = 1 := by
  decide +kernel


/-- the constants this property depends on were re-read from the working tree on this run (none of
    them fell back to its pinned value because its declaration could not be located) -/
theorem facts_fresh : (Facts.staleFacts.all fun n => !["defaultApplyProbability"].contains n) = true := by decide

end Rdm.Props.C08
