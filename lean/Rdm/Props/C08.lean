/- C08 — property theorems (stub; filled in by the owning work package). -/
import Rdm.Basic
namespace Rdm.Props.C08
end Rdm.Props.C08
