/- C20 — property theorems (stub; filled in by the owning work package). -/
import Rdm.Basic
namespace Rdm.Props.C20
end Rdm.Props.C20
