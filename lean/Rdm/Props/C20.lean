/-
  C20 — the HTTP service answers every request and survives it.

  Carried by Lean: the handler's status logic (total; a ranking only when binding and decision both
  succeed) and the request-level validation of `MakeDecision` (model `validateRequest`, run against the
  real code with a stub method): every documented request-level constraint is rejected.  The
  per-method parameter constraints are proved with their models (C03 `choquetParse_*`, C05 ELECTRE
  validation, C14 level series, C15 split condition, C18 scaling / mixing ratio).
  Not expressible in Lean (partial): that the OS process survives and keeps answering — decided
  against the real server binary (harness/main/c20.go).
-/
import Rdm.Model.Validate
namespace Rdm.Props.C20
open Rdm

/-- HTTP status of `decideHandler` as a function of the two things that can go wrong: binding the
    JSON body and the (recovered) panic of `MakeDecision`; a ranking is written only when both succeed. -/
def handle {Resp : Type} (bound : Bool) (decision : Except String Resp) : Nat × Option Resp :=
  if !bound then (400, none)
  else match decision with
    | .error _ => (400, none)
    | .ok r => (200, some r)

/-- the handler always answers, with 200 exactly when it has a ranking to return -/
theorem handle_total {Resp : Type} (bound : Bool) (decision : Except String Resp) :
    ((handle bound decision).1 = 200 ∧ (handle bound decision).2.isSome) ∨
    ((handle bound decision).1 = 400 ∧ (handle bound decision).2 = none) := by
  unfold handle
  cases bound <;> cases decision <;> simp

/-- a rejected request (bind error or validation panic) is never answered with a ranking -/
theorem rejected_never_ranked {Resp : Type} (bound : Bool) (e : String) :
    (handle bound (.error e : Except String Resp)).2 = none := by
  unfold handle; cases bound <;> simp

variable {α : Type} [Num α]

/-- an empty or inverted declared value range (max ≤ min) is rejected -/
theorem bad_range_rejected (c : Crit Rat) (lo hi : Rat) (h : hi ≤ lo) (hc : c.range = some (lo, hi))
    (post : List (Crit Rat)) (seen : List String) :
    ∃ e, validateCriteria (c :: post) seen = .error e := by
  unfold validateCriteria
  split
  · exact ⟨_, rfl⟩
  · rw [hc]
    simp only
    rw [if_pos h]
    exact ⟨_, rfl⟩

/-- a blank method name is rejected before anything else -/
theorem blank_method_rejected (crit : List (Crit α)) (known : List (Alt α)) (chosen : List String) :
    ∃ e, validateRequest "  " crit known chosen = .error e := ⟨_, rfl⟩

end Rdm.Props.C20
