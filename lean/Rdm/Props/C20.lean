/-
  C20 — the HTTP service answers every request and survives it.

  Carried by Lean:
  * the handler's status logic (`handle`: total; a ranking only when binding and decision both succeed);
  * the request-level validation of `MakeDecision` (model `validateRequest`, run against the real code
    with a stub method): every documented request-level constraint violated one at a time is rejected
    (`blank_method_rejected*`, `duplicate_criterion_rejected*`, `bad_range_rejected*`,
    `missing_value_rejected`, `unknown_alternative_rejected`), and `validateRequest_ok_iff` characterises
    the accepted requests exactly (nothing else is rejected, nothing else is accepted);
  * the per-method / per-bias parameter constraints the statement lists, collected here from their
    models: Choquet (C03 `choquetParse_*`), ELECTRE III weights / thresholds / distillation guard,
    satisfaction-level series (C14), split condition and ordering names (C15), fatigue function and
    bounding scaling (C17), concealment scaling and mixing ratio (models of C18), bias names, weights.
  Not expressible in Lean (partial): that the OS process survives and keeps answering — decided
  against the real server binary (harness/main/c20.go).
-/
import Rdm.Model.Validate
import Rdm.Lemmas.ValidateH
import Rdm.Lemmas.ValidateHMethods
import Rdm.Props.C03
import Rdm.Props.C14
import Rdm.Props.C15
import Rdm.Props.C17
namespace Rdm.Props.C20
open Rdm

/-- HTTP status of `decideHandler` as a function of the two things that can go wrong: binding the
    JSON body and the (recovered) panic of `MakeDecision`; a ranking is written only when both succeed. -/
def handle {Resp : Type} (bound : Bool) (decision : Except String Resp) : Nat × Option Resp :=
  if !bound then (400, none)
  else match decision with
    | .error _ => (400, none)
    | .ok r => (200, some r)

/-- the handler always answers, with 200 exactly when it has a ranking to return -/
theorem handle_total {Resp : Type} (bound : Bool) (decision : Except String Resp) :
    ((handle bound decision).1 = 200 ∧ (handle bound decision).2.isSome) ∨
    ((handle bound decision).1 = 400 ∧ (handle bound decision).2 = none) := by
  unfold handle
  cases bound <;> cases decision <;> simp

/-- a rejected request (bind error or validation panic) is never answered with a ranking -/
theorem rejected_never_ranked {Resp : Type} (bound : Bool) (e : String) :
    (handle bound (.error e : Except String Resp)).2 = none := by
  unfold handle; cases bound <;> simp

variable {α : Type} [Num α]

/-- an empty or inverted declared value range (max ≤ min) is rejected -/
theorem bad_range_rejected (c : Crit α) (lo hi : α) (h : hi ≤ lo) (hc : c.range = some (lo, hi))
    (post : List (Crit α)) (seen : List String) :
    ∃ e, validateCriteria (c :: post) seen = .error e := by
  unfold validateCriteria
  split
  · exact ⟨_, rfl⟩
  · rw [hc]
    simp only
    rw [if_pos h]
    exact ⟨_, rfl⟩

/-- a blank method name is rejected before anything else -/
theorem blank_method_rejected (crit : List (Crit α)) (known : List (Alt α)) (chosen : List String) :
    ∃ e, validateRequest "  " crit known chosen = .error e := ⟨_, rfl⟩


/-- … wherever the criterion stands in the list, and at request level -/
theorem bad_range_rejected_anywhere (crit : List (Crit α)) (c : Crit α) (hc : c ∈ crit) (lo hi : α)
    (hr : c.range = some (lo, hi)) (h : hi ≤ lo) (seen : List String) :
    ∃ e, validateCriteria crit seen = .error e := by
  apply valH_error_of_ne_ok
  intro hok
  exact ((valH_validateCriteria_ok_iff crit seen).mp hok).2.2 c hc lo hi hr h

/-! ### request-level constraints, one at a time -/

/-- a blank method name (only white space, whatever the white space) is rejected -/
theorem blank_method_rejected_any (method : String) (hb : isBlank method = true) (crit : List (Crit α))
    (known : List (Alt α)) (chosen : List String) :
    ∃ e, validateRequest method crit known chosen = .error e := by
  apply valH_error_of_ne_ok
  intro hok
  have := ((valH_validateRequest_ok_iff_stages method crit known chosen).mp hok).1
  rw [hb] at this
  cases this

/-- duplicate criterion ids: two entries at different positions with the same id are rejected,
    whatever ids were seen before (the induction-ready form) -/
theorem duplicate_criterion_rejected_seen (crit : List (Crit α)) (seen : List String) (i j : Nat)
    (a b : Crit α) (hij : i < j) (hi : crit[i]? = some a) (hj : crit[j]? = some b) (hid : a.id = b.id) :
    ∃ e, validateCriteria crit seen = .error e :=
  valH_duplicate_rejected crit seen i j a b hij hi hj hid

/-- duplicate criterion ids are rejected by `Criteria.Validate` -/
theorem duplicate_criterion_rejected (crit : List (Crit α)) (i j : Nat) (a b : Crit α) (hij : i < j)
    (hi : crit[i]? = some a) (hj : crit[j]? = some b) (hid : a.id = b.id) :
    ∃ e, validateCriteria crit [] = .error e :=
  valH_duplicate_rejected crit [] i j a b hij hi hj hid

/-- any failure of `Criteria.Validate` is a failure of the request -/
theorem criteria_error_rejects_request (method : String) (crit : List (Crit α)) (known : List (Alt α))
    (chosen : List String) (e : String) (h : validateCriteria crit [] = .error e) :
    ∃ e', validateRequest method crit known chosen = .error e' := by
  apply valH_error_of_ne_ok
  intro hok
  have := ((valH_validateRequest_ok_iff_stages method crit known chosen).mp hok).2.1
  rw [h] at this
  cases this

/-- … and hence a request with duplicate criterion ids is rejected, whatever its other fields -/
theorem duplicate_criterion_rejected_request (method : String) (crit : List (Crit α)) (known : List (Alt α))
    (chosen : List String) (i j : Nat) (a b : Crit α) (hij : i < j)
    (hi : crit[i]? = some a) (hj : crit[j]? = some b) (hid : a.id = b.id) :
    ∃ e, validateRequest method crit known chosen = .error e := by
  obtain ⟨e, he⟩ := duplicate_criterion_rejected crit i j a b hij hi hj hid
  exact criteria_error_rejects_request method crit known chosen e he

/-- a request with an empty or inverted value range on some criterion is rejected -/
theorem bad_range_rejected_request (method : String) (crit : List (Crit α)) (known : List (Alt α))
    (chosen : List String) (c : Crit α) (hc : c ∈ crit) (lo hi : α) (hr : c.range = some (lo, hi))
    (h : hi ≤ lo) : ∃ e, validateRequest method crit known chosen = .error e := by
  obtain ⟨e, he⟩ := bad_range_rejected_anywhere crit c hc lo hi hr h []
  exact criteria_error_rejects_request method crit known chosen e he

/-- a known alternative without a value for some criterion: `validateAlternatives` fails -/
theorem missing_value_rejected_alternatives (crit : List (Crit α)) (known : List (Alt α))
    (a : Alt α) (ha : a ∈ known) (c : Crit α) (hc : c ∈ crit) (hmiss : a.vals.has c.id = false) :
    ∃ e, validateAlternatives known crit = .error e := by
  apply valH_error_of_ne_ok
  intro hok
  have := (valH_validateAlternatives_ok_iff known crit).mp hok a ha c hc
  rw [hmiss] at this
  cases this

/-- missing criterion values: on a request with a method name and valid criteria, a known alternative
    that lacks a value for some criterion makes the request fail -/
theorem missing_value_rejected (method : String) (crit : List (Crit α)) (known : List (Alt α))
    (chosen : List String) (_hm : isBlank method = false) (_hcrit : validateCriteria crit [] = .ok ())
    (a : Alt α) (ha : a ∈ known) (c : Crit α) (hc : c ∈ crit) (hmiss : a.vals.has c.id = false) :
    ∃ e, validateRequest method crit known chosen = .error e := by
  apply valH_error_of_ne_ok
  intro hok
  have := (valH_validateAlternatives_ok_iff known crit).mp
    ((valH_validateRequest_ok_iff_stages method crit known chosen).mp hok).2.2.1 a ha c hc
  rw [hmiss] at this
  cases this

/-- unknown alternatives: a chosen id that no known alternative carries is rejected, whatever the
    other fields of the request -/
theorem unknown_alternative_rejected (method : String) (crit : List (Crit α)) (known : List (Alt α))
    (chosen : List String) (id : String) (hid : id ∈ chosen) (hunk : ∀ a ∈ known, a.id ≠ id) :
    ∃ e, validateRequest method crit known chosen = .error e := by
  apply valH_error_of_ne_ok
  intro hok
  have h4 := ((valH_validateRequest_ok_iff_stages method crit known chosen).mp hok).2.2.2
  obtain ⟨a, ha, haid⟩ := (valH_fetch_unit_ok_iff known id).mp ((valH_forM_ok_iff _ chosen).mp h4 id hid)
  exact hunk a ha haid

/-- `FetchAlternative` itself: an id no known alternative carries is an error -/
theorem fetchAlt_unknown_rejected (known : List (Alt α)) (id : String) (hunk : ∀ a ∈ known, a.id ≠ id) :
    ∃ e, fetchAlt known id = .error e := by
  cases h : fetchAlt known id with
  | error e => exact ⟨e, rfl⟩
  | ok a =>
    obtain ⟨b, hb, hbid⟩ := (valH_fetchAlt_isOk_iff known id).mp ⟨a, h⟩
    exact absurd hbid (hunk b hb)

/-! ### exact characterisation of the accepted requests -/

/-- a loop in `Except` succeeds iff its body succeeds on every element -/
theorem forM_ok_iff {β : Type} (f : β → R Unit) (l : List β) :
    l.forM f = .ok () ↔ ∀ x ∈ l, f x = .ok () := valH_forM_ok_iff f l

/-- `FetchAlternative` returns the first known alternative with the id -/
theorem fetchAlt_ok_iff (known : List (Alt α)) (id : String) (a : Alt α) :
    fetchAlt known id = .ok a ↔ known.find? (fun a => a.id == id) = some a :=
  valH_fetchAlt_ok_iff known id a

/-- `Criteria.Validate` (with the ids seen so far) accepts iff the ids are pairwise different, none was
    seen before, and no declared range has max ≤ min -/
theorem validateCriteria_ok_iff (crit : List (Crit α)) (seen : List String) :
    validateCriteria crit seen = .ok () ↔
      (crit.map (·.id)).Nodup ∧ (∀ c ∈ crit, c.id ∉ seen) ∧
      (∀ c ∈ crit, ∀ lo hi, c.range = some (lo, hi) → ¬ hi ≤ lo) :=
  valH_validateCriteria_ok_iff crit seen

/-- `validateAlternatives` accepts iff every known alternative has a value for every criterion -/
theorem validateAlternatives_ok_iff (known : List (Alt α)) (crit : List (Crit α)) :
    validateAlternatives known crit = .ok () ↔ ∀ a ∈ known, ∀ c ∈ crit, a.vals.has c.id = true :=
  valH_validateAlternatives_ok_iff known crit

/-- the request-level validation of `MakeDecision` accepts **exactly** the requests that satisfy the
    documented request-level constraints: non-blank method, unique criterion ids, every declared range
    with `¬ max ≤ min`, every known alternative valued on every criterion, every chosen id known -/
theorem validateRequest_ok_iff (method : String) (crit : List (Crit α)) (known : List (Alt α))
    (chosen : List String) :
    validateRequest method crit known chosen = .ok () ↔
      isBlank method = false ∧ (crit.map (·.id)).Nodup ∧
      (∀ c ∈ crit, ∀ lo hi, c.range = some (lo, hi) → ¬ hi ≤ lo) ∧
      (∀ a ∈ known, ∀ c ∈ crit, a.vals.has c.id = true) ∧
      (∀ id ∈ chosen, ∃ a ∈ known, a.id = id) := by
  rw [valH_validateRequest_ok_iff_stages, valH_validateCriteria_nil_ok_iff,
    valH_validateAlternatives_ok_iff, valH_forM_ok_iff]
  constructor
  · rintro ⟨h1, ⟨h2, h3⟩, h4, h5⟩
    exact ⟨h1, h2, h3, h4, fun id hid => (valH_fetch_unit_ok_iff known id).mp (h5 id hid)⟩
  · rintro ⟨h1, h2, h3, h4, h5⟩
    exact ⟨h1, ⟨h2, h3⟩, h4, fun id hid => (valH_fetch_unit_ok_iff known id).mpr (h5 id hid)⟩

/-- over the rationals the range clause reads "min < max" -/
theorem validateRequest_ok_iff_rat (method : String) (crit : List (Crit Rat)) (known : List (Alt Rat))
    (chosen : List String) :
    validateRequest method crit known chosen = .ok () ↔
      isBlank method = false ∧ (crit.map (·.id)).Nodup ∧
      (∀ c ∈ crit, ∀ lo hi : Rat, c.range = some (lo, hi) → lo < hi) ∧
      (∀ a ∈ known, ∀ c ∈ crit, a.vals.has c.id = true) ∧
      (∀ id ∈ chosen, ∃ a ∈ known, a.id = id) := by
  rw [validateRequest_ok_iff]
  constructor
  · rintro ⟨h1, h2, h3, h4, h5⟩
    exact ⟨h1, h2, fun c hc lo hi hr => Rat.not_le.mp (h3 c hc lo hi hr), h4, h5⟩
  · rintro ⟨h1, h2, h3, h4, h5⟩
    exact ⟨h1, h2, fun c hc lo hi hr => Rat.not_le.mpr (h3 c hc lo hi hr), h4, h5⟩

/-- every request is either accepted or rejected with a message (the validation is total), and it is
    rejected exactly when one of the documented request-level constraints is violated -/
theorem validateRequest_rejected_iff (method : String) (crit : List (Crit α)) (known : List (Alt α))
    (chosen : List String) :
    (∃ e, validateRequest method crit known chosen = .error e) ↔
      ¬ (isBlank method = false ∧ (crit.map (·.id)).Nodup ∧
        (∀ c ∈ crit, ∀ lo hi, c.range = some (lo, hi) → ¬ hi ≤ lo) ∧
        (∀ a ∈ known, ∀ c ∈ crit, a.vals.has c.id = true) ∧
        (∀ id ∈ chosen, ∃ a ∈ known, a.id = id)) := by
  rw [← validateRequest_ok_iff]
  constructor
  · rintro ⟨e, he⟩ hok
    rw [he] at hok
    cases hok
  · exact valH_error_of_ne_ok _

/-! ### the hypotheses are satisfiable: concrete requests -/

/-- a small valid request passes -/
example : validateRequest (α := Rat) "weightedSum"
    [⟨"c1", "gain", some (0, 1)⟩, ⟨"c2", "cost", none⟩] [⟨"a", [("c1", 1/2), ("c2", 3)]⟩] ["a"] = .ok () := rfl
/-- … and each constraint violated one at a time on it is rejected: blank method -/
example : validateRequest (α := Rat) " \t"
    [⟨"c1", "gain", some (0, 1)⟩, ⟨"c2", "cost", none⟩] [⟨"a", [("c1", 1/2), ("c2", 3)]⟩] ["a"]
    = .error "empty-method" := rfl
/-- duplicate criterion id -/
example : validateRequest (α := Rat) "weightedSum"
    [⟨"c1", "gain", some (0, 1)⟩, ⟨"c1", "cost", none⟩] [⟨"a", [("c1", 1/2), ("c2", 3)]⟩] ["a"]
    = .error "criterion-not-unique:c1" := rfl
/-- empty range (max = min) and inverted range (max < min) -/
example : validateRequest (α := Rat) "weightedSum"
    [⟨"c1", "gain", some (1, 1)⟩, ⟨"c2", "cost", none⟩] [⟨"a", [("c1", 1/2), ("c2", 3)]⟩] ["a"]
    = .error "invalid-range:c1" := rfl
example : validateRequest (α := Rat) "weightedSum"
    [⟨"c1", "gain", some (1, 0)⟩, ⟨"c2", "cost", none⟩] [⟨"a", [("c1", 1/2), ("c2", 3)]⟩] ["a"]
    = .error "invalid-range:c1" := rfl
/-- missing criterion value -/
example : validateRequest (α := Rat) "weightedSum"
    [⟨"c1", "gain", some (0, 1)⟩, ⟨"c2", "cost", none⟩] [⟨"a", [("c1", 1/2)]⟩] ["a"]
    = .error "missing-value:a:c2" := rfl
/-- unknown alternative -/
example : validateRequest (α := Rat) "weightedSum"
    [⟨"c1", "gain", some (0, 1)⟩, ⟨"c2", "cost", none⟩] [⟨"a", [("c1", 1/2), ("c2", 3)]⟩] ["a", "b"]
    = .error "unknown-alternative:b" := rfl
/-- the hypotheses of `duplicate_criterion_rejected` / `missing_value_rejected` /
    `unknown_alternative_rejected` are satisfiable -/
example : ∃ e, validateCriteria (α := Rat) [⟨"c1", "gain", none⟩, ⟨"c2", "cost", none⟩, ⟨"c1", "gain", none⟩] [] = .error e :=
  duplicate_criterion_rejected _ 0 2 ⟨"c1", "gain", none⟩ ⟨"c1", "gain", none⟩ (by decide) rfl rfl rfl
example : ∃ e, validateRequest (α := Rat) "owa" [⟨"c1", "gain", none⟩] [⟨"a", []⟩] [] = .error e :=
  missing_value_rejected "owa" _ _ _ rfl rfl ⟨"a", []⟩ (by simp) ⟨"c1", "gain", none⟩ (by simp) rfl
example : ∃ e, validateRequest (α := Rat) "owa" [] [⟨"a", []⟩] ["b"] = .error e :=
  unknown_alternative_rejected "owa" _ _ _ "b" (by simp) (by simp)


/-! ## per-method and per-bias parameter constraints

  Each theorem below mirrors one `panic` of the per-method validation code (through its model).  Those
  marked "re-export" restate a theorem of another property file with the same hypotheses and
  conclusion, so that the documented constraints of C20 can be read (and are audited) in one
  place; the others are proved from the model definitions in `Lemmas/ValidateHMethods.lean`. -/

/-! ### Choquet integral -/

/-- re-export of `Props.C03.choquetParse_gain_only`: `parse` accepts gain criteria only -/
theorem choquet_gain_only (crits : List (Crit α)) (w r : KMap α)
    (h : choquetParse crits w = .ok r) : ∀ c ∈ crits, c.type = "gain" :=
  Rdm.Props.C03.choquetParse_gain_only crits w r h

/-- re-export of `Props.C03.choquetParse_range`: `parse` accepts only capacities in [0,1] -/
theorem choquet_weights_in_unit_interval (crits : List (Crit Rat)) (w r : KMap Rat)
    (h : choquetParse crits w = .ok r) : ∀ kv ∈ r, 0 ≤ kv.2 ∧ kv.2 ≤ 1 :=
  Rdm.Props.C03.choquetParse_range crits w r h

/-- rejection form: a non-gain criterion makes the Choquet parse fail -/
theorem choquet_non_gain_rejected (crits : List (Crit α)) (w : KMap α) (c : Crit α) (hc : c ∈ crits)
    (hng : c.type ≠ "gain") : ∃ e, choquetParse crits w = .error e :=
  valH_choquet_non_gain_rejected crits w c hc hng

/-- rejection form: a capacity below 0 or above 1 makes the Choquet parse fail -/
theorem choquet_weight_out_of_range_rejected (crits : List (Crit Rat)) (w : KMap Rat) (kv : String × Rat)
    (hkv : kv ∈ w) (hout : kv.2 < 0 ∨ 1 < kv.2) : ∃ e, choquetParse crits w = .error e :=
  valH_choquet_weight_range_rejected crits w kv hkv hout

/-! ### ELECTRE III -/

/-- a non-positive ELECTRE weight is rejected (`validateParameters`) -/
theorem electre_nonpositive_weight_rejected (t : ECrit Rat) (h : t.k ≤ 0) :
    ∃ e, validateParameters t = .error e :=
  valH_electre_weight_rejected t h

/-- a constant indifference threshold that is negative is rejected -/
theorem electre_negative_q_rejected (t : ECrit Rat) (ha : t.q.a = 0) (hb : t.q.b < 0) :
    ∃ e, validateParameters t = .error e :=
  valH_electre_q_rejected t (by rw [Num.beq_rat, ha]; rfl)
    (by rw [Num.beq_rat]; exact decide_eq_false (ne_of_lt hb)) (le_of_lt hb)

/-- non-increasing constant thresholds: a preference threshold `p ≤ q` (with `q > 0`, `p` set) is rejected -/
theorem electre_p_le_q_rejected (t : ECrit Rat) (hq : 0 < t.q.b) (hpa : t.p.a = 0) (hpb : t.p.b ≠ 0)
    (hle : t.p.b ≤ t.q.b) : ∃ e, validateParameters t = .error e :=
  valH_electre_p_le_q_rejected t hq (by rw [Num.beq_rat, hpa]; rfl)
    (by rw [Num.beq_rat]; exact decide_eq_false hpb) hle

/-- non-increasing constant thresholds: a veto threshold `v ≤ p` (with `p > 0`, `v` set) is rejected -/
theorem electre_v_le_p_rejected (t : ECrit Rat) (hp : 0 < t.p.b) (hva : t.v.a = 0) (hvb : t.v.b ≠ 0)
    (hle : t.v.b ≤ t.p.b) : ∃ e, validateParameters t = .error e :=
  valH_electre_v_le_p_rejected t hp (by rw [Num.beq_rat, hva]; rfl)
    (by rw [Num.beq_rat]; exact decide_eq_false hvb) hle

/-- with three constant positive thresholds the ELECTRE validation accepts exactly a positive weight
    and strictly increasing thresholds `q < p < v` -/
theorem electre_constant_thresholds_accepted_iff (t : ECrit Rat) (hqa : t.q.a = 0) (hpa : t.p.a = 0)
    (hva : t.v.a = 0) (hq : 0 < t.q.b) (hp : 0 < t.p.b) (hv : 0 < t.v.b) :
    validateParameters t = .ok () ↔ 0 < t.k ∧ t.q.b < t.p.b ∧ t.p.b < t.v.b :=
  valH_electre_const_ok_iff t hqa hpa hva hq hp hv

/-- the guard of `getDistillationFunc` accepts exactly the linear functions that are non-negative on
    the whole credibility interval -/
theorem distillation_accepted_iff_nonneg (f : LinFun Rat) :
    validDistillation f = true ↔ ∀ x : Rat, 0 ≤ x → x ≤ 1 → 0 ≤ f.a * x + f.b :=
  valH_distillation_ok_iff_nonneg f

/-- a distillation function that is negative at some credibility in [0,1] is refused -/
theorem negative_distillation_rejected (f : LinFun Rat) (x : Rat) (hx0 : 0 ≤ x) (hx1 : x ≤ 1)
    (hneg : f.a * x + f.b < 0) : validDistillation f = false :=
  valH_distillation_negative_somewhere f x hx0 hx1 hneg

/-! ### satisfaction-level series (aspect elimination, satisfaction heuristic) -/

/-- re-export of `Props.C14.invalid_parameters_rejected`: coefficients outside the documented ranges
    are rejected, no level is handed out -/
theorem levels_invalid_parameters_rejected (k : CoefKind) (d : DMP Rat) (c mx mn : Rat)
    (h : coefValid k c mx mn = false) : ∃ e, coefLevels k d c mx mn = .error e :=
  Rdm.Props.C14.invalid_parameters_rejected k d c mx mn h

/-- re-export of `Props.C14.validation_accepts_exactly_documented_ranges` -/
theorem levels_validation_accepts_exactly_documented_ranges (k : CoefKind) (c mx mn : Rat) :
    coefValid k c mx mn = true ↔
      (0 < c ∧ c < 1 ∧ (if k.inc = true then 0 ≤ mn ∧ mn ≤ 1 ∧ 0 ≤ mx ∧ mx ≤ 1
                        else 0 < mn ∧ mn ≤ 1 ∧ 0 < mx ∧ mx ≤ 1)) :=
  Rdm.Props.C14.validation_accepts_exactly_documented_ranges k c mx mn

/-- re-export of `Props.C14.explicit_levels_validated`: explicit thresholds must hold every criterion -/
theorem levels_explicit_thresholds_validated (d : DMP Rat) (ts : List (KMap Rat)) :
    (explicitLevels d ts = .ok ts ↔ ∀ t ∈ ts, ∀ cr ∈ d.crit, t.has cr.id = true) ∧
    (∀ lv, explicitLevels d ts = .ok lv → lv = ts) :=
  Rdm.Props.C14.explicit_levels_validated d ts

/-- an empty or unregistered level-function name is rejected -/
theorem unknown_levels_function_rejected (sources : List LevelSource) (fn : String)
    (hunk : ∀ s ∈ sources, (s.name == fn) = false) : ∃ e, findSource sources fn = .error e :=
  valH_unknown_levels_function_rejected sources fn hunk

/-! ### split condition of criteria omission / preference reversal -/

/-- `validate` accepts exactly `ratio ∈ [0,1]` and `min ≤ max` -/
theorem split_condition_accepted_iff (c : SplitCond Rat) :
    c.validate = .ok () ↔ 0 ≤ c.ratio ∧ c.ratio ≤ 1 ∧ c.min ≤ c.max :=
  valH_split_validate_ok_iff c

/-- an out-of-range split ratio is rejected by criteria omission -/
theorem omission_ratio_out_of_range_rejected (eps : Rat) (c : SplitCond Rat) (name : String)
    (cur : DMP Rat) (d : Draws Rat) (h : c.ratio < 0 ∨ 1 < c.ratio) :
    ∃ e, omissionApply eps c name cur d = .error e :=
  valH_omission_invalid_rejected eps c name cur d (valH_split_ratio_rejected c (by
    rintro ⟨h0, h1⟩
    rcases h with h | h
    · exact absurd h (Rat.not_lt.mpr h0)
    · exact absurd h (Rat.not_lt.mpr h1)))

/-- … and by preference reversal -/
theorem reversal_ratio_out_of_range_rejected (eps : Rat) (c : SplitCond Rat) (name : String)
    (cur : DMP Rat) (d : Draws Rat) (h : c.ratio < 0 ∨ 1 < c.ratio) :
    ∃ e, reversalApply eps c name cur d = .error e :=
  valH_reversal_invalid_rejected eps c name cur d (valH_split_ratio_rejected c (by
    rintro ⟨h0, h1⟩
    rcases h with h | h
    · exact absurd h (Rat.not_lt.mpr h0)
    · exact absurd h (Rat.not_lt.mpr h1)))

/-- `max < min` is rejected by both -/
theorem omission_max_below_min_rejected (eps : α) (c : SplitCond α) (name : String) (cur : DMP α)
    (d : Draws α) (h : c.max < c.min) : ∃ e, omissionApply eps c name cur d = .error e :=
  valH_omission_invalid_rejected eps c name cur d (valH_split_minmax_rejected c h)

theorem reversal_max_below_min_rejected (eps : α) (c : SplitCond α) (name : String) (cur : DMP α)
    (d : Draws α) (h : c.max < c.min) : ∃ e, reversalApply eps c name cur d = .error e :=
  valH_reversal_invalid_rejected eps c name cur d (valH_split_minmax_rejected c h)

/-- re-export of `Props.C15.unknown_ordering_is_rejected` -/
theorem unknown_ordering_rejected_bogus (eps : α) (d : DMP α) (dr : Draws α) :
    ∃ e, orderCriteria eps "bogus" d dr = .error e :=
  Rdm.Props.C15.unknown_ordering_is_rejected eps d dr

/-- … for every non-empty name that is not registered -/
theorem unknown_ordering_rejected (eps : α) (name : String) (d : DMP α) (dr : Draws α)
    (hne : name.isEmpty = false) (hunk : availableOrderings.contains name = false) :
    ∃ e, orderCriteria eps name d dr = .error e :=
  valH_unknown_ordering_rejected eps name d dr hne hunk

/-! ### bounding, fatigue, concealment, mixing -/

/-- `allowedValuesRangeScaling = 0` is rejected by the fatigue bias -/
theorem fatigue_bounding_scaling_zero_rejected (exp : Rat → Rat) (fn : FatigueFn Rat) (b : Bounding Rat)
    (cur : DMP Rat) (d : Draws Rat) (h : b.scaling = 0) :
    ∃ e, fatigueApply exp fn b cur d = .error e :=
  valH_fatigueApply_bounding_zero_rejected exp fn b cur d (by rw [Num.beq_rat, h]; rfl)

/-- re-export of `Props.C17.unknown_function_rejected`: an unknown fatigue function is rejected -/
theorem fatigue_unknown_function_rejected (exp : α → α) (n : String) (b : Bounding α) (cur : DMP α)
    (d : Draws α) : ∃ e, fatigueApply exp (.unknown n) b cur d = .error e :=
  Rdm.Props.C17.unknown_function_rejected exp n b cur d

/-- `newCriterionScaling = 0` is rejected by criteria concealment -/
theorem concealment_scaling_zero_rejected (eps : Rat) (orig cur : DMP Rat) (p : Props Rat)
    (refDraws gen : Draws Rat)
    (h : p.num "newCriterionScaling" (Num.ofConst Facts.defaultConcealmentScaling) = 0) :
    ∃ e, conceal eps orig cur p refDraws gen = .error e :=
  valH_conceal_scaling_zero_rejected eps orig cur p refDraws gen (by rw [Num.beq_rat, h]; rfl)

/-- `allowedValuesRangeScaling = 0` is rejected by criteria concealment -/
theorem concealment_bounding_scaling_zero_rejected (eps : Rat) (orig cur : DMP Rat) (p : Props Rat)
    (refDraws gen : Draws Rat)
    (h : p.num "allowedValuesRangeScaling" (Num.ofConst Facts.defaultBoundingScaling) = 0) :
    ∃ e, conceal eps orig cur p refDraws gen = .error e :=
  valH_conceal_bounding_zero_rejected eps orig cur p refDraws gen (by rw [Num.beq_rat, h]; rfl)

/-- a `mixingRatio` outside [0,1] is rejected by criteria mixing (which acts from two criteria on) -/
theorem mixing_ratio_out_of_range_rejected (eps : Rat) (orig cur : DMP Rat) (p : Props Rat)
    (refDraws gen : Draws Rat) (hn : 2 ≤ cur.crit.length)
    (h : p.num "mixingRatio" (Num.ofConst Facts.defaultMixingRatio) < 0 ∨
         1 < p.num "mixingRatio" (Num.ofConst Facts.defaultMixingRatio)) :
    ∃ e, mixing eps orig cur p refDraws gen = .error e :=
  valH_mixing_ratio_rejected eps orig cur p refDraws gen hn (by
    rintro ⟨h0, h1⟩
    rcases h with h | h
    · exact absurd h (Rat.not_lt.mpr h0)
    · exact absurd h (Rat.not_lt.mpr h1))

/-! ### names and weights -/

/-- an enabled bias whose name is not registered is rejected by `ChooseBiases` -/
theorem unknown_bias_rejected {P : Type} (avail : List String) (reqs : List (BiasReq α P))
    (b : BiasReq α P) (hb : b ∈ reqs) (hen : b.disabled = false) (hunk : avail.contains b.name = false) :
    ∃ e, chooseBiases avail reqs = .error e :=
  valH_unknown_bias_rejected avail reqs b hb hen hunk

/-- a criterion without a weight is rejected by `Weights.Fetch` -/
theorem missing_weight_rejected (m : KMap α) (k : String) (h : m.has k = false) :
    ∃ e, m.fetch k = .error e :=
  valH_missing_weight_rejected m k h

/-! ### satisfiable instances of the per-method constraints -/

example : validateParameters (⟨1, ⟨0, 1⟩, ⟨0, 2⟩, ⟨0, 3⟩⟩ : ECrit Rat) = .ok () := rfl
example : ∃ e, validateParameters (⟨0, ⟨0, 1⟩, ⟨0, 2⟩, ⟨0, 3⟩⟩ : ECrit Rat) = .error e :=
  electre_nonpositive_weight_rejected _ (by decide +kernel)
example : ∃ e, validateParameters (⟨1, ⟨0, 2⟩, ⟨0, 2⟩, ⟨0, 3⟩⟩ : ECrit Rat) = .error e :=
  electre_p_le_q_rejected _ (by decide +kernel) rfl (by decide +kernel) (by decide +kernel)
example : ∃ e, validateParameters (⟨1, ⟨0, 1⟩, ⟨0, 2⟩, ⟨0, 1⟩⟩ : ECrit Rat) = .error e :=
  electre_v_le_p_rejected _ (by decide +kernel) rfl (by decide +kernel) (by decide +kernel)
/-- the function of the registered finding (a = -0.2, b = 0.1): negative at credibility 1 -/
example : validDistillation (⟨-1/5, 1/10⟩ : LinFun Rat) = false :=
  negative_distillation_rejected _ 1 (by decide +kernel) (by decide +kernel) (by decide +kernel)
example : validDistillation (defaultDistillation : LinFun Rat) = true := by decide +kernel
example : (⟨3/2, 0, maxInt64⟩ : SplitCond Rat).validate = .error "ratio-not-a-probability" := by decide +kernel
example : (⟨1/2, 3, 2⟩ : SplitCond Rat).validate = .error "max-lower-than-min" := by decide +kernel
example : (⟨0, false⟩ : Bounding Rat).validate = .error "allowedValuesRangeScaling-cannot-be-0" := rfl
example : ∃ e, chooseBiases (α := Rat) (P := Unit) ["fatigue"] [⟨"nope", false, none, ()⟩] = .error e :=
  unknown_bias_rejected _ _ ⟨"nope", false, none, ()⟩ (by simp) rfl (by decide)

end Rdm.Props.C20
