/-
  C20 — the HTTP service answers every request and survives it.  (stub theorems follow in this file:
  handler totality and per-constraint rejection lemmas; see DESIGN §5.20.)
-/
import Rdm.Basic
namespace Rdm.Props.C20

/-- HTTP status of `decideHandler` as a function of the two things that can go wrong: binding the
    JSON body and the (recovered) panic of `MakeDecision`; a ranking is written only when both succeed. -/
def handle {Resp : Type} (bound : Bool) (decision : Except String Resp) : Nat × Option Resp :=
  if !bound then (400, none)
  else match decision with
    | .error _ => (400, none)
    | .ok r => (200, some r)

/-- the handler always answers, with 200 exactly when it has a ranking to return -/
theorem handle_total {Resp : Type} (bound : Bool) (decision : Except String Resp) :
    ((handle bound decision).1 = 200 ∧ (handle bound decision).2.isSome) ∨
    ((handle bound decision).1 = 400 ∧ (handle bound decision).2 = none) := by
  unfold handle
  cases bound <;> cases decision <;> simp

/-- a rejected request (bind error or validation panic) is never answered with a ranking -/
theorem rejected_never_ranked {Resp : Type} (bound : Bool) (e : String) :
    (handle bound (.error e : Except String Resp)).2 = none := by
  unfold handle; cases bound <;> simp

end Rdm.Props.C20
