/-
  C20 — the HTTP service answers every request and survives it.

  Carried by Lean:
  * the handler's status logic (`handle`: total; a ranking only when binding and decision both succeed);
  * the request-level validation of `MakeDecision` (model `validateRequest`, run against the real code
    with a stub method): every documented request-level constraint violated one at a time is rejected
    (`blank_method_rejected*`, `duplicate_criterion_rejected*`, `bad_range_rejected*`,
    `missing_value_rejected`, `unknown_alternative_rejected`), and `validateRequest_ok_iff` characterises
    the accepted requests exactly (nothing else is rejected, nothing else is accepted);
  * the per-method / per-bias parameter constraints the statement lists, collected here from their
    models: Choquet (C03 `choquetParse_*`), ELECTRE III weights / thresholds / distillation guard,
    satisfaction-level series (C14), split condition and ordering names (C15), fatigue function and
    bounding scaling (C17), concealment scaling and mixing ratio (models of C18), bias names, weights.
  * END TO END (last sections): every request-level violation, an unknown method / bias, unparsed method
    parameters are rejected by the whole `MakeDecision` model (`decideWith`) for every stream, and answered 400
    by `handle`; `decideWith` returns an error or a full ranking, nothing else; invalid props of a bias are
    rejected when the bias fires — and only then (`unfired_bias_props_are_never_validated`, the registered
    finding `lazy-bias-props`).
  Not expressible in Lean (partial): that the OS process survives and keeps answering — decided
  against the real server binary (harness/main/c20.go).
-/
import Rdm.Model.Validate
import Rdm.Lemmas.ValidateH
import Rdm.Lemmas.ValidateHMethods
import Rdm.Props.C03
import Rdm.Props.C14
import Rdm.Props.C15
import Rdm.Props.C17
import Rdm.Props.C01
import Rdm.Props.C05
import Rdm.Lemmas.E2EService
import Rdm.Lemmas.E2EServiceRequest
import Rdm.Lemmas.E2EServiceExamples
namespace Rdm.Props.C20
open Rdm

/-- HTTP status of `decideHandler` as a function of the two things that can go wrong: binding the
    JSON body and the (recovered) panic of `MakeDecision`; a ranking is written only when both succeed. -/
def handle {Resp : Type} (bound : Bool) (decision : Except String Resp) : Nat × Option Resp :=
  if !bound then (400, none)
  else match decision with
    | .error _ => (400, none)
    | .ok r => (200, some r)

/-- the handler always answers, with 200 exactly when it has a ranking to return -/
theorem handle_total {Resp : Type} (bound : Bool) (decision : Except String Resp) :
    ((handle bound decision).1 = 200 ∧ (handle bound decision).2.isSome) ∨
    ((handle bound decision).1 = 400 ∧ (handle bound decision).2 = none) := by
  unfold handle
  cases bound <;> cases decision <;> simp

/-- a rejected request (bind error or validation panic) is never answered with a ranking -/
theorem rejected_never_ranked {Resp : Type} (bound : Bool) (e : String) :
    (handle bound (.error e : Except String Resp)).2 = none := by
  unfold handle; cases bound <;> simp

variable {α : Type} [Num α]

/-- an empty or inverted declared value range (max ≤ min) is rejected -/
theorem bad_range_rejected (c : Crit α) (lo hi : α) (h : hi ≤ lo) (hc : c.range = some (lo, hi))
    (post : List (Crit α)) (seen : List String) :
    ∃ e, validateCriteria (c :: post) seen = .error e := by
  unfold validateCriteria
  split
  · exact ⟨_, rfl⟩
  · rw [hc]
    simp only
    rw [if_pos h]
    exact ⟨_, rfl⟩

/-- a blank method name is rejected before anything else -/
theorem blank_method_rejected (crit : List (Crit α)) (known : List (Alt α)) (chosen : List String) :
    ∃ e, validateRequest "  " crit known chosen = .error e := ⟨_, rfl⟩


/-- … wherever the criterion stands in the list, and at request level -/
theorem bad_range_rejected_anywhere (crit : List (Crit α)) (c : Crit α) (hc : c ∈ crit) (lo hi : α)
    (hr : c.range = some (lo, hi)) (h : hi ≤ lo) (seen : List String) :
    ∃ e, validateCriteria crit seen = .error e := by
  apply valH_error_of_ne_ok
  intro hok
  exact ((valH_validateCriteria_ok_iff crit seen).mp hok).2.2 c hc lo hi hr h

/-! ### request-level constraints, one at a time -/

/-- a blank method name (only white space, whatever the white space) is rejected -/
theorem blank_method_rejected_any (method : String) (hb : isBlank method = true) (crit : List (Crit α))
    (known : List (Alt α)) (chosen : List String) :
    ∃ e, validateRequest method crit known chosen = .error e := by
  apply valH_error_of_ne_ok
  intro hok
  have := ((valH_validateRequest_ok_iff_stages method crit known chosen).mp hok).1
  rw [hb] at this
  cases this

/-- duplicate criterion ids: two entries at different positions with the same id are rejected,
    whatever ids were seen before (the induction-ready form) -/
theorem duplicate_criterion_rejected_seen (crit : List (Crit α)) (seen : List String) (i j : Nat)
    (a b : Crit α) (hij : i < j) (hi : crit[i]? = some a) (hj : crit[j]? = some b) (hid : a.id = b.id) :
    ∃ e, validateCriteria crit seen = .error e :=
  valH_duplicate_rejected crit seen i j a b hij hi hj hid

/-- duplicate criterion ids are rejected by `Criteria.Validate` -/
theorem duplicate_criterion_rejected (crit : List (Crit α)) (i j : Nat) (a b : Crit α) (hij : i < j)
    (hi : crit[i]? = some a) (hj : crit[j]? = some b) (hid : a.id = b.id) :
    ∃ e, validateCriteria crit [] = .error e :=
  valH_duplicate_rejected crit [] i j a b hij hi hj hid

/-- any failure of `Criteria.Validate` is a failure of the request -/
theorem criteria_error_rejects_request (method : String) (crit : List (Crit α)) (known : List (Alt α))
    (chosen : List String) (e : String) (h : validateCriteria crit [] = .error e) :
    ∃ e', validateRequest method crit known chosen = .error e' := by
  apply valH_error_of_ne_ok
  intro hok
  have := ((valH_validateRequest_ok_iff_stages method crit known chosen).mp hok).2.1
  rw [h] at this
  cases this

/-- … and hence a request with duplicate criterion ids is rejected, whatever its other fields -/
theorem duplicate_criterion_rejected_request (method : String) (crit : List (Crit α)) (known : List (Alt α))
    (chosen : List String) (i j : Nat) (a b : Crit α) (hij : i < j)
    (hi : crit[i]? = some a) (hj : crit[j]? = some b) (hid : a.id = b.id) :
    ∃ e, validateRequest method crit known chosen = .error e := by
  obtain ⟨e, he⟩ := duplicate_criterion_rejected crit i j a b hij hi hj hid
  exact criteria_error_rejects_request method crit known chosen e he

/-- a request with an empty or inverted value range on some criterion is rejected -/
theorem bad_range_rejected_request (method : String) (crit : List (Crit α)) (known : List (Alt α))
    (chosen : List String) (c : Crit α) (hc : c ∈ crit) (lo hi : α) (hr : c.range = some (lo, hi))
    (h : hi ≤ lo) : ∃ e, validateRequest method crit known chosen = .error e := by
  obtain ⟨e, he⟩ := bad_range_rejected_anywhere crit c hc lo hi hr h []
  exact criteria_error_rejects_request method crit known chosen e he

/-- a known alternative without a value for some criterion: `validateAlternatives` fails -/
theorem missing_value_rejected_alternatives (crit : List (Crit α)) (known : List (Alt α))
    (a : Alt α) (ha : a ∈ known) (c : Crit α) (hc : c ∈ crit) (hmiss : a.vals.has c.id = false) :
    ∃ e, validateAlternatives known crit = .error e := by
  apply valH_error_of_ne_ok
  intro hok
  have := (valH_validateAlternatives_ok_iff known crit).mp hok a ha c hc
  rw [hmiss] at this
  cases this

/-- missing criterion values: on a request with a method name and valid criteria, a known alternative
    that lacks a value for some criterion makes the request fail -/
theorem missing_value_rejected (method : String) (crit : List (Crit α)) (known : List (Alt α))
    (chosen : List String) (_hm : isBlank method = false) (_hcrit : validateCriteria crit [] = .ok ())
    (a : Alt α) (ha : a ∈ known) (c : Crit α) (hc : c ∈ crit) (hmiss : a.vals.has c.id = false) :
    ∃ e, validateRequest method crit known chosen = .error e := by
  apply valH_error_of_ne_ok
  intro hok
  have := (valH_validateAlternatives_ok_iff known crit).mp
    ((valH_validateRequest_ok_iff_stages method crit known chosen).mp hok).2.2.1 a ha c hc
  rw [hmiss] at this
  cases this

/-- unknown alternatives: a chosen id that no known alternative carries is rejected, whatever the
    other fields of the request -/
theorem unknown_alternative_rejected (method : String) (crit : List (Crit α)) (known : List (Alt α))
    (chosen : List String) (id : String) (hid : id ∈ chosen) (hunk : ∀ a ∈ known, a.id ≠ id) :
    ∃ e, validateRequest method crit known chosen = .error e := by
  apply valH_error_of_ne_ok
  intro hok
  have h4 := ((valH_validateRequest_ok_iff_stages method crit known chosen).mp hok).2.2.2
  obtain ⟨a, ha, haid⟩ := (valH_fetch_unit_ok_iff known id).mp ((valH_forM_ok_iff _ chosen).mp h4 id hid)
  exact hunk a ha haid

/-- `FetchAlternative` itself: an id no known alternative carries is an error -/
theorem fetchAlt_unknown_rejected (known : List (Alt α)) (id : String) (hunk : ∀ a ∈ known, a.id ≠ id) :
    ∃ e, fetchAlt known id = .error e := by
  cases h : fetchAlt known id with
  | error e => exact ⟨e, rfl⟩
  | ok a =>
    obtain ⟨b, hb, hbid⟩ := (valH_fetchAlt_isOk_iff known id).mp ⟨a, h⟩
    exact absurd hbid (hunk b hb)

/-! ### exact characterisation of the accepted requests -/

/-- a loop in `Except` succeeds iff its body succeeds on every element -/
theorem forM_ok_iff {β : Type} (f : β → R Unit) (l : List β) :
    l.forM f = .ok () ↔ ∀ x ∈ l, f x = .ok () := valH_forM_ok_iff f l

/-- `FetchAlternative` returns the first known alternative with the id -/
theorem fetchAlt_ok_iff (known : List (Alt α)) (id : String) (a : Alt α) :
    fetchAlt known id = .ok a ↔ known.find? (fun a => a.id == id) = some a :=
  valH_fetchAlt_ok_iff known id a

/-- `Criteria.Validate` (with the ids seen so far) accepts iff the ids are pairwise different, none was
    seen before, and no declared range has max ≤ min -/
theorem validateCriteria_ok_iff (crit : List (Crit α)) (seen : List String) :
    validateCriteria crit seen = .ok () ↔
      (crit.map (·.id)).Nodup ∧ (∀ c ∈ crit, c.id ∉ seen) ∧
      (∀ c ∈ crit, ∀ lo hi, c.range = some (lo, hi) → ¬ hi ≤ lo) :=
  valH_validateCriteria_ok_iff crit seen

/-- `validateAlternatives` accepts iff every known alternative has a value for every criterion -/
theorem validateAlternatives_ok_iff (known : List (Alt α)) (crit : List (Crit α)) :
    validateAlternatives known crit = .ok () ↔ ∀ a ∈ known, ∀ c ∈ crit, a.vals.has c.id = true :=
  valH_validateAlternatives_ok_iff known crit

/-- the request-level validation of `MakeDecision` accepts **exactly** the requests that satisfy the
    documented request-level constraints: non-blank method, unique criterion ids, every declared range
    with `¬ max ≤ min`, every known alternative valued on every criterion, every chosen id known -/
theorem validateRequest_ok_iff (method : String) (crit : List (Crit α)) (known : List (Alt α))
    (chosen : List String) :
    validateRequest method crit known chosen = .ok () ↔
      isBlank method = false ∧ (crit.map (·.id)).Nodup ∧
      (∀ c ∈ crit, ∀ lo hi, c.range = some (lo, hi) → ¬ hi ≤ lo) ∧
      (∀ a ∈ known, ∀ c ∈ crit, a.vals.has c.id = true) ∧
      (∀ id ∈ chosen, ∃ a ∈ known, a.id = id) := by
  rw [valH_validateRequest_ok_iff_stages, valH_validateCriteria_nil_ok_iff,
    valH_validateAlternatives_ok_iff, valH_forM_ok_iff]
  constructor
  · rintro ⟨h1, ⟨h2, h3⟩, h4, h5⟩
    exact ⟨h1, h2, h3, h4, fun id hid => (valH_fetch_unit_ok_iff known id).mp (h5 id hid)⟩
  · rintro ⟨h1, h2, h3, h4, h5⟩
    exact ⟨h1, ⟨h2, h3⟩, h4, fun id hid => (valH_fetch_unit_ok_iff known id).mpr (h5 id hid)⟩

/-- over the rationals the range clause reads "min < max" -/
theorem validateRequest_ok_iff_rat (method : String) (crit : List (Crit Rat)) (known : List (Alt Rat))
    (chosen : List String) :
    validateRequest method crit known chosen = .ok () ↔
      isBlank method = false ∧ (crit.map (·.id)).Nodup ∧
      (∀ c ∈ crit, ∀ lo hi : Rat, c.range = some (lo, hi) → lo < hi) ∧
      (∀ a ∈ known, ∀ c ∈ crit, a.vals.has c.id = true) ∧
      (∀ id ∈ chosen, ∃ a ∈ known, a.id = id) := by
  rw [validateRequest_ok_iff]
  constructor
  · rintro ⟨h1, h2, h3, h4, h5⟩
    exact ⟨h1, h2, fun c hc lo hi hr => Rat.not_le.mp (h3 c hc lo hi hr), h4, h5⟩
  · rintro ⟨h1, h2, h3, h4, h5⟩
    exact ⟨h1, h2, fun c hc lo hi hr => Rat.not_le.mpr (h3 c hc lo hi hr), h4, h5⟩

/-- every request is either accepted or rejected with a message (the validation is total), and it is
    rejected exactly when one of the documented request-level constraints is violated -/
theorem validateRequest_rejected_iff (method : String) (crit : List (Crit α)) (known : List (Alt α))
    (chosen : List String) :
    (∃ e, validateRequest method crit known chosen = .error e) ↔
      ¬ (isBlank method = false ∧ (crit.map (·.id)).Nodup ∧
        (∀ c ∈ crit, ∀ lo hi, c.range = some (lo, hi) → ¬ hi ≤ lo) ∧
        (∀ a ∈ known, ∀ c ∈ crit, a.vals.has c.id = true) ∧
        (∀ id ∈ chosen, ∃ a ∈ known, a.id = id)) := by
  rw [← validateRequest_ok_iff]
  constructor
  · rintro ⟨e, he⟩ hok
    rw [he] at hok
    cases hok
  · exact valH_error_of_ne_ok _

/-! ### the hypotheses are satisfiable: concrete requests -/

/-- a small valid request passes -/
example : validateRequest (α := Rat) "weightedSum"
    [⟨"c1", "gain", some (0, 1)⟩, ⟨"c2", "cost", none⟩] [⟨"a", [("c1", 1/2), ("c2", 3)]⟩] ["a"] = .ok () := rfl
/-- … and each constraint violated one at a time on it is rejected: blank method -/
example : validateRequest (α := Rat) " \t"
    [⟨"c1", "gain", some (0, 1)⟩, ⟨"c2", "cost", none⟩] [⟨"a", [("c1", 1/2), ("c2", 3)]⟩] ["a"]
    = .error "empty-method" := rfl
/-- duplicate criterion id -/
example : validateRequest (α := Rat) "weightedSum"
    [⟨"c1", "gain", some (0, 1)⟩, ⟨"c1", "cost", none⟩] [⟨"a", [("c1", 1/2), ("c2", 3)]⟩] ["a"]
    = .error "criterion-not-unique:c1" := rfl
/-- empty range (max = min) and inverted range (max < min) -/
example : validateRequest (α := Rat) "weightedSum"
    [⟨"c1", "gain", some (1, 1)⟩, ⟨"c2", "cost", none⟩] [⟨"a", [("c1", 1/2), ("c2", 3)]⟩] ["a"]
    = .error "invalid-range:c1" := rfl
example : validateRequest (α := Rat) "weightedSum"
    [⟨"c1", "gain", some (1, 0)⟩, ⟨"c2", "cost", none⟩] [⟨"a", [("c1", 1/2), ("c2", 3)]⟩] ["a"]
    = .error "invalid-range:c1" := rfl
/-- missing criterion value -/
example : validateRequest (α := Rat) "weightedSum"
    [⟨"c1", "gain", some (0, 1)⟩, ⟨"c2", "cost", none⟩] [⟨"a", [("c1", 1/2)]⟩] ["a"]
    = .error "missing-value:a:c2" := rfl
/-- unknown alternative -/
example : validateRequest (α := Rat) "weightedSum"
    [⟨"c1", "gain", some (0, 1)⟩, ⟨"c2", "cost", none⟩] [⟨"a", [("c1", 1/2), ("c2", 3)]⟩] ["a", "b"]
    = .error "unknown-alternative:b" := rfl
/-- the hypotheses of `duplicate_criterion_rejected` / `missing_value_rejected` /
    `unknown_alternative_rejected` are satisfiable -/
example : ∃ e, validateCriteria (α := Rat) [⟨"c1", "gain", none⟩, ⟨"c2", "cost", none⟩, ⟨"c1", "gain", none⟩] [] = .error e :=
  duplicate_criterion_rejected _ 0 2 ⟨"c1", "gain", none⟩ ⟨"c1", "gain", none⟩ (by decide) rfl rfl rfl
example : ∃ e, validateRequest (α := Rat) "owa" [⟨"c1", "gain", none⟩] [⟨"a", []⟩] [] = .error e :=
  missing_value_rejected "owa" _ _ _ rfl rfl ⟨"a", []⟩ (by simp) ⟨"c1", "gain", none⟩ (by simp) rfl
example : ∃ e, validateRequest (α := Rat) "owa" [] [⟨"a", []⟩] ["b"] = .error e :=
  unknown_alternative_rejected "owa" _ _ _ "b" (by simp) (by simp)


/-! ## per-method and per-bias parameter constraints

  Each theorem below mirrors one `panic` of the per-method validation code (through its model).  Those
  marked "re-export" restate a theorem of another property file with the same hypotheses and
  conclusion, so that the documented constraints of C20 can be read (and are audited) in one
  place; the others are proved from the model definitions in `Lemmas/ValidateHMethods.lean`. -/

/-! ### Choquet integral -/

/-- re-export of `Props.C03.choquetParse_gain_only`: `parse` accepts gain criteria only -/
theorem choquet_gain_only (crits : List (Crit α)) (w r : KMap α)
    (h : choquetParse crits w = .ok r) : ∀ c ∈ crits, c.type = "gain" :=
  Rdm.Props.C03.choquetParse_gain_only crits w r h

/-- re-export of `Props.C03.choquetParse_range`: `parse` accepts only capacities in [0,1] -/
theorem choquet_weights_in_unit_interval (crits : List (Crit Rat)) (w r : KMap Rat)
    (h : choquetParse crits w = .ok r) : ∀ kv ∈ r, 0 ≤ kv.2 ∧ kv.2 ≤ 1 :=
  Rdm.Props.C03.choquetParse_range crits w r h

/-- rejection form: a non-gain criterion makes the Choquet parse fail -/
theorem choquet_non_gain_rejected (crits : List (Crit α)) (w : KMap α) (c : Crit α) (hc : c ∈ crits)
    (hng : c.type ≠ "gain") : ∃ e, choquetParse crits w = .error e :=
  valH_choquet_non_gain_rejected crits w c hc hng

/-- rejection form: a capacity below 0 or above 1 makes the Choquet parse fail -/
theorem choquet_weight_out_of_range_rejected (crits : List (Crit Rat)) (w : KMap Rat) (kv : String × Rat)
    (hkv : kv ∈ w) (hout : kv.2 < 0 ∨ 1 < kv.2) : ∃ e, choquetParse crits w = .error e :=
  valH_choquet_weight_range_rejected crits w kv hkv hout

/-! ### ELECTRE III -/

/-- a non-positive ELECTRE weight is rejected (`validateParameters`) -/
theorem electre_nonpositive_weight_rejected (t : ECrit Rat) (h : t.k ≤ 0) :
    ∃ e, validateParameters t = .error e :=
  valH_electre_weight_rejected t h

/-- a constant indifference threshold that is negative is rejected -/
theorem electre_negative_q_rejected (t : ECrit Rat) (ha : t.q.a = 0) (hb : t.q.b < 0) :
    ∃ e, validateParameters t = .error e :=
  valH_electre_q_rejected t (by rw [Num.beq_rat, ha]; rfl)
    (by rw [Num.beq_rat]; exact decide_eq_false (ne_of_lt hb)) (le_of_lt hb)

/-- non-increasing constant thresholds: a preference threshold `p ≤ q` (with `q > 0`, `p` set) is rejected -/
theorem electre_p_le_q_rejected (t : ECrit Rat) (hq : 0 < t.q.b) (hpa : t.p.a = 0) (hpb : t.p.b ≠ 0)
    (hle : t.p.b ≤ t.q.b) : ∃ e, validateParameters t = .error e :=
  valH_electre_p_le_q_rejected t hq (by rw [Num.beq_rat, hpa]; rfl)
    (by rw [Num.beq_rat]; exact decide_eq_false hpb) hle

/-- non-increasing constant thresholds: a veto threshold `v ≤ p` (with `p > 0`, `v` set) is rejected -/
theorem electre_v_le_p_rejected (t : ECrit Rat) (hp : 0 < t.p.b) (hva : t.v.a = 0) (hvb : t.v.b ≠ 0)
    (hle : t.v.b ≤ t.p.b) : ∃ e, validateParameters t = .error e :=
  valH_electre_v_le_p_rejected t hp (by rw [Num.beq_rat, hva]; rfl)
    (by rw [Num.beq_rat]; exact decide_eq_false hvb) hle

/-- with three constant positive thresholds the ELECTRE validation accepts exactly a positive weight
    and strictly increasing thresholds `q < p < v` -/
theorem electre_constant_thresholds_accepted_iff (t : ECrit Rat) (hqa : t.q.a = 0) (hpa : t.p.a = 0)
    (hva : t.v.a = 0) (hq : 0 < t.q.b) (hp : 0 < t.p.b) (hv : 0 < t.v.b) :
    validateParameters t = .ok () ↔ 0 < t.k ∧ t.q.b < t.p.b ∧ t.p.b < t.v.b :=
  valH_electre_const_ok_iff t hqa hpa hva hq hp hv

/-- the guard of `getDistillationFunc` accepts exactly the linear functions that are non-negative on
    the whole credibility interval -/
theorem distillation_accepted_iff_nonneg (f : LinFun Rat) :
    validDistillation f = true ↔ ∀ x : Rat, 0 ≤ x → x ≤ 1 → 0 ≤ f.a * x + f.b :=
  valH_distillation_ok_iff_nonneg f

/-- a distillation function that is negative at some credibility in [0,1] is refused -/
theorem negative_distillation_rejected (f : LinFun Rat) (x : Rat) (hx0 : 0 ≤ x) (hx1 : x ≤ 1)
    (hneg : f.a * x + f.b < 0) : validDistillation f = false :=
  valH_distillation_negative_somewhere f x hx0 hx1 hneg

/-! ### satisfaction-level series (aspect elimination, satisfaction heuristic) -/

/-- re-export of `Props.C14.invalid_parameters_rejected`: coefficients outside the documented ranges
    are rejected, no level is handed out -/
theorem levels_invalid_parameters_rejected (k : CoefKind) (d : DMP Rat) (c mx mn : Rat)
    (h : coefValid k c mx mn = false) : ∃ e, coefLevels k d c mx mn = .error e :=
  Rdm.Props.C14.invalid_parameters_rejected k d c mx mn h

/-- re-export of `Props.C14.validation_accepts_exactly_documented_ranges` -/
theorem levels_validation_accepts_exactly_documented_ranges (k : CoefKind) (c mx mn : Rat) :
    coefValid k c mx mn = true ↔
      (0 < c ∧ c < 1 ∧ (if k.inc = true then 0 ≤ mn ∧ mn ≤ 1 ∧ 0 ≤ mx ∧ mx ≤ 1
                        else 0 < mn ∧ mn ≤ 1 ∧ 0 < mx ∧ mx ≤ 1)) :=
  Rdm.Props.C14.validation_accepts_exactly_documented_ranges k c mx mn

/-- re-export of `Props.C14.explicit_levels_validated`: explicit thresholds must hold every criterion -/
theorem levels_explicit_thresholds_validated (d : DMP Rat) (ts : List (KMap Rat)) :
    (explicitLevels d ts = .ok ts ↔ ∀ t ∈ ts, ∀ cr ∈ d.crit, t.has cr.id = true) ∧
    (∀ lv, explicitLevels d ts = .ok lv → lv = ts) :=
  Rdm.Props.C14.explicit_levels_validated d ts

/-- an empty or unregistered level-function name is rejected -/
theorem unknown_levels_function_rejected (sources : List LevelSource) (fn : String)
    (hunk : ∀ s ∈ sources, (s.name == fn) = false) : ∃ e, findSource sources fn = .error e :=
  valH_unknown_levels_function_rejected sources fn hunk

/-! ### split condition of criteria omission / preference reversal -/

/-- `validate` accepts exactly `ratio ∈ [0,1]` and `min ≤ max` -/
theorem split_condition_accepted_iff (c : SplitCond Rat) :
    c.validate = .ok () ↔ 0 ≤ c.ratio ∧ c.ratio ≤ 1 ∧ c.min ≤ c.max :=
  valH_split_validate_ok_iff c

/-- an out-of-range split ratio is rejected by criteria omission -/
theorem omission_ratio_out_of_range_rejected (eps : Rat) (c : SplitCond Rat) (name : String)
    (cur : DMP Rat) (d : Draws Rat) (h : c.ratio < 0 ∨ 1 < c.ratio) :
    ∃ e, omissionApply eps c name cur d = .error e :=
  valH_omission_invalid_rejected eps c name cur d (valH_split_ratio_rejected c (by
    rintro ⟨h0, h1⟩
    rcases h with h | h
    · exact absurd h (Rat.not_lt.mpr h0)
    · exact absurd h (Rat.not_lt.mpr h1)))

/-- … and by preference reversal -/
theorem reversal_ratio_out_of_range_rejected (eps : Rat) (c : SplitCond Rat) (name : String)
    (cur : DMP Rat) (d : Draws Rat) (h : c.ratio < 0 ∨ 1 < c.ratio) :
    ∃ e, reversalApply eps c name cur d = .error e :=
  valH_reversal_invalid_rejected eps c name cur d (valH_split_ratio_rejected c (by
    rintro ⟨h0, h1⟩
    rcases h with h | h
    · exact absurd h (Rat.not_lt.mpr h0)
    · exact absurd h (Rat.not_lt.mpr h1)))

/-- `max < min` is rejected by both -/
theorem omission_max_below_min_rejected (eps : α) (c : SplitCond α) (name : String) (cur : DMP α)
    (d : Draws α) (h : c.max < c.min) : ∃ e, omissionApply eps c name cur d = .error e :=
  valH_omission_invalid_rejected eps c name cur d (valH_split_minmax_rejected c h)

theorem reversal_max_below_min_rejected (eps : α) (c : SplitCond α) (name : String) (cur : DMP α)
    (d : Draws α) (h : c.max < c.min) : ∃ e, reversalApply eps c name cur d = .error e :=
  valH_reversal_invalid_rejected eps c name cur d (valH_split_minmax_rejected c h)

/-- re-export of `Props.C15.unknown_ordering_is_rejected` -/
theorem unknown_ordering_rejected_bogus (eps : α) (d : DMP α) (dr : Draws α) :
    ∃ e, orderCriteria eps "bogus" d dr = .error e :=
  Rdm.Props.C15.unknown_ordering_is_rejected eps d dr

/-- … for every non-empty name that is not registered -/
theorem unknown_ordering_rejected (eps : α) (name : String) (d : DMP α) (dr : Draws α)
    (hne : name.isEmpty = false) (hunk : availableOrderings.contains name = false) :
    ∃ e, orderCriteria eps name d dr = .error e :=
  valH_unknown_ordering_rejected eps name d dr hne hunk

/-! ### bounding, fatigue, concealment, mixing -/

/-- `allowedValuesRangeScaling = 0` is rejected by the fatigue bias -/
theorem fatigue_bounding_scaling_zero_rejected (exp : Rat → Rat) (fn : FatigueFn Rat) (b : Bounding Rat)
    (cur : DMP Rat) (d : Draws Rat) (h : b.scaling = 0) :
    ∃ e, fatigueApply exp fn b cur d = .error e :=
  valH_fatigueApply_bounding_zero_rejected exp fn b cur d (by rw [Num.beq_rat, h]; rfl)

/-- re-export of `Props.C17.unknown_function_rejected`: an unknown fatigue function is rejected -/
theorem fatigue_unknown_function_rejected (exp : α → α) (n : String) (b : Bounding α) (cur : DMP α)
    (d : Draws α) : ∃ e, fatigueApply exp (.unknown n) b cur d = .error e :=
  Rdm.Props.C17.unknown_function_rejected exp n b cur d

/-- `newCriterionScaling = 0` is rejected by criteria concealment -/
theorem concealment_scaling_zero_rejected (eps : Rat) (orig cur : DMP Rat) (p : Props Rat)
    (refDraws gen : Draws Rat)
    (h : p.num "newCriterionScaling" (Num.ofConst Facts.defaultConcealmentScaling) = 0) :
    ∃ e, conceal eps orig cur p refDraws gen = .error e :=
  valH_conceal_scaling_zero_rejected eps orig cur p refDraws gen (by rw [Num.beq_rat, h]; rfl)

/-- `allowedValuesRangeScaling = 0` is rejected by criteria concealment -/
theorem concealment_bounding_scaling_zero_rejected (eps : Rat) (orig cur : DMP Rat) (p : Props Rat)
    (refDraws gen : Draws Rat)
    (h : p.num "allowedValuesRangeScaling" (Num.ofConst Facts.defaultBoundingScaling) = 0) :
    ∃ e, conceal eps orig cur p refDraws gen = .error e :=
  valH_conceal_bounding_zero_rejected eps orig cur p refDraws gen (by rw [Num.beq_rat, h]; rfl)

/-- a `mixingRatio` outside [0,1] is rejected by criteria mixing (which acts from two criteria on) -/
theorem mixing_ratio_out_of_range_rejected (eps : Rat) (orig cur : DMP Rat) (p : Props Rat)
    (refDraws gen : Draws Rat) (hn : 2 ≤ cur.crit.length)
    (h : p.num "mixingRatio" (Num.ofConst Facts.defaultMixingRatio) < 0 ∨
         1 < p.num "mixingRatio" (Num.ofConst Facts.defaultMixingRatio)) :
    ∃ e, mixing eps orig cur p refDraws gen = .error e :=
  valH_mixing_ratio_rejected eps orig cur p refDraws gen hn (by
    rintro ⟨h0, h1⟩
    rcases h with h | h
    · exact absurd h (Rat.not_lt.mpr h0)
    · exact absurd h (Rat.not_lt.mpr h1))

/-! ### names and weights -/

/-- an enabled bias whose name is not registered is rejected by `ChooseBiases` -/
theorem unknown_bias_rejected {P : Type} (avail : List String) (reqs : List (BiasReq α P))
    (b : BiasReq α P) (hb : b ∈ reqs) (hen : b.disabled = false) (hunk : avail.contains b.name = false) :
    ∃ e, chooseBiases avail reqs = .error e :=
  valH_unknown_bias_rejected avail reqs b hb hen hunk

/-- a criterion without a weight is rejected by `Weights.Fetch` -/
theorem missing_weight_rejected (m : KMap α) (k : String) (h : m.has k = false) :
    ∃ e, m.fetch k = .error e :=
  valH_missing_weight_rejected m k h

/-! ### satisfiable instances of the per-method constraints -/

example : validateParameters (⟨1, ⟨0, 1⟩, ⟨0, 2⟩, ⟨0, 3⟩⟩ : ECrit Rat) = .ok () := rfl
example : ∃ e, validateParameters (⟨0, ⟨0, 1⟩, ⟨0, 2⟩, ⟨0, 3⟩⟩ : ECrit Rat) = .error e :=
  electre_nonpositive_weight_rejected _ (by decide +kernel)
example : ∃ e, validateParameters (⟨1, ⟨0, 2⟩, ⟨0, 2⟩, ⟨0, 3⟩⟩ : ECrit Rat) = .error e :=
  electre_p_le_q_rejected _ (by decide +kernel) rfl (by decide +kernel) (by decide +kernel)
example : ∃ e, validateParameters (⟨1, ⟨0, 1⟩, ⟨0, 2⟩, ⟨0, 1⟩⟩ : ECrit Rat) = .error e :=
  electre_v_le_p_rejected _ (by decide +kernel) rfl (by decide +kernel) (by decide +kernel)
/-- the function of the registered finding (a = -0.2, b = 0.1): negative at credibility 1 -/
example : validDistillation (⟨-1/5, 1/10⟩ : LinFun Rat) = false :=
  negative_distillation_rejected _ 1 (by decide +kernel) (by decide +kernel) (by decide +kernel)
example : validDistillation (defaultDistillation : LinFun Rat) = true := by decide +kernel
example : (⟨3/2, 0, maxInt64⟩ : SplitCond Rat).validate = .error "ratio-not-a-probability" := by decide +kernel
example : (⟨1/2, 3, 2⟩ : SplitCond Rat).validate = .error "max-lower-than-min" := by decide +kernel
example : (⟨0, false⟩ : Bounding Rat).validate = .error "allowedValuesRangeScaling-cannot-be-0" := rfl
example : ∃ e, chooseBiases (α := Rat) (P := Unit) ["fatigue"] [⟨"nope", false, none, ()⟩] = .error e :=
  unknown_bias_rejected _ _ ⟨"nope", false, none, ()⟩ (by simp) rfl (by decide)

/-! ## END TO END: rejection on whole requests (`decideWith` / `Rdm.decide`)

The theorems above are about `validateRequest`, `ChooseBiases` and the single validation functions.  The ones
below lift them to the model of the whole `MakeDecision` (`decideWith` / `Rdm.decide` of Model/Decide.lean) and
through it to the handler's status logic (`handle`): for every request, every method, every bias list, every
stream function, no bounds.  Helper lemmas: `Rdm/Lemmas/E2EService.lean`, `Rdm/Lemmas/E2EServiceRequest.lean`.

**Totality of the model.**  `decideWith` is a total Lean function into `Except String (Response α)`: there are
no partial functions in the model (the only `partial def` of the project is the S-expression printer of the
driver), so for every request it returns either `.error _` or `.ok resp` — there is no third outcome
(`decideWith_error_or_ranking`).  Recursion that is not structural:
  * `choquetComponents` (Model/Utility.lean) — well-founded recursion on the length of the value list
    (`termination_by`), checked by Lean;
  * fuel: `distillate` / `rank` of ELECTRE III (`rankFuel n = n² + n + 2`; exhaustion would be the error
    "fuel-exhausted") — the fuel suffices for every in-domain distillation function:
    `Props.C05.rank_terminates`, re-exported below as `electre_fuel_suffices`;
  * fuel: `coefSeries` of the satisfaction-level sources (`coefFuel`; exhaustion would be
    "levels-fuel-exhausted") — suffices for every validated parameter set: `Props.C14.fuel_suffices`,
    re-exported below as `levels_fuel_suffices`;
  * fuel: `notUsedNameLoop` (fresh criterion names of concealment / mixing / anchoring) — more candidates than
    existing ids are tried, so a fresh one is found: `notUsedName_fresh` (Lemmas/BiasBNames.lean). -/

section EndToEnd

/-! ### N2(a) what validation rejects is never answered with a ranking -/

/-- a request `prepare` rejects is rejected by `decideWith` with the same message for every exponential, every
    tie order and every stream function: the rejection happens before the first random number -/
theorem never_ranked_of_prepare_error {req : Request α} (h : ∃ e, prepare req = .error e) :
    ∃ e, ∀ (exp : α → α) (o : List (WCrit α) → List (WCrit α)) (g : Int → Draws α),
      decideWith exp o req g = .error e := by
  obtain ⟨e, he⟩ := h
  exact ⟨e, fun _ _ _ => e2es_decideWith_error_of_prepare he⟩

/-- **the requests that get past the part of `MakeDecision` before the first random number, exactly**: those
    that pass `validateRequest` (characterised by `validateRequest_ok_iff`), name a registered method, whose
    method parameters parsed, and whose enabled biases are all registered.  Nothing else is rejected there,
    nothing else is accepted. -/
theorem request_reaches_the_biases_iff (req : Request α) :
    (∃ r, prepare req = .ok r) ↔
      validateRequest req.method req.crit req.known req.chosen = .ok () ∧
      methodNames.contains req.method = true ∧ (∃ mp, req.mp = some mp) ∧
      ∀ b ∈ req.biases, b.disabled = false → availableBiases.contains b.name = true :=
  e2es_prepare_isOk_iff req

/-- **N2(a)**: if `validateRequest` fails, or the method is not registered, or the method parameters did not
    parse, or an enabled bias is not registered, then `decideWith` is `.error _` — one and the same message for
    every exponential, tie order and stream function: such a request is never answered with a ranking -/
theorem decideWith_rejects_what_validation_rejects (req : Request α)
    (h : (∃ e, validateRequest req.method req.crit req.known req.chosen = .error e) ∨
         methodNames.contains req.method = false ∨ req.mp = none ∨
         (∃ b ∈ req.biases, b.disabled = false ∧ availableBiases.contains b.name = false)) :
    ∃ e, ∀ (exp : α → α) (o : List (WCrit α) → List (WCrit α)) (g : Int → Draws α),
      decideWith exp o req g = .error e := by
  apply never_ranked_of_prepare_error
  apply valH_error_of_not_ok
  intro r hr
  obtain ⟨hv, hm, ⟨mp, hmp⟩, hb⟩ := (e2es_prepare_isOk_iff req).mp ⟨r, hr⟩
  rcases h with ⟨e, he⟩ | h | h | ⟨b, hbm, hd, hunk⟩
  · rw [hv] at he; cases he
  · rw [hm] at h; cases h
  · rw [hmp] at h; cases h
  · rw [hb b hbm hd] at hunk; cases hunk

/-- … and the converse: a request `decideWith` rejects on some streams although none of the four holds was
    rejected later — by a bias that fired or by the method (`decideWith` got past `prepare`) -/
theorem rejected_otherwise_means_rejected_later {exp : α → α} {o : List (WCrit α) → List (WCrit α)}
    {req : Request α} {g : Int → Draws α} {e : String} (h : decideWith exp o req g = .error e)
    (hv : validateRequest req.method req.crit req.known req.chosen = .ok ())
    (hm : methodNames.contains req.method = true) (hmp : ∃ mp, req.mp = some mp)
    (hb : ∀ b ∈ req.biases, b.disabled = false → availableBiases.contains b.name = true) :
    ∃ params chosen, prepare req = .ok (params, chosen) ∧
      (processLoop (applyBias exp g) params chosen params (g req.biasSeed) = .error e ∨
       ∃ fin outs, processLoop (applyBias exp g) params chosen params (g req.biasSeed) = .ok (fin, outs) ∧
         evaluateWith o g fin = .error e) := by
  obtain ⟨⟨params, chosen⟩, hprep⟩ := (e2es_prepare_isOk_iff req).mpr ⟨hv, hm, hmp, hb⟩
  refine ⟨params, chosen, hprep, ?_⟩
  unfold decideWith at h
  rw [e2es_pipeline_of_prepare hprep] at h
  cases hl : processLoop (applyBias exp g) params chosen params (g req.biasSeed) with
  | error e' =>
    rw [hl] at h
    cases h
    exact Or.inl rfl
  | ok r =>
    obtain ⟨fin, outs⟩ := r
    rw [hl] at h
    refine Or.inr ⟨fin, outs, rfl, ?_⟩
    cases he : evaluateWith o g fin with
    | error e' =>
      simp only [bind, Except.bind, he] at h
      cases h
      rfl
    | ok res =>
      simp only [bind, Except.bind, he, pure, Except.pure] at h
      cases h

/-- the handler answers such a request with status 400 and no ranking, whatever the seed table -/
theorem rejected_request_is_answered_400 (req : Request α)
    (h : (∃ e, validateRequest req.method req.crit req.known req.chosen = .error e) ∨
         methodNames.contains req.method = false ∨ req.mp = none ∨
         (∃ b ∈ req.biases, b.disabled = false ∧ availableBiases.contains b.name = false))
    (exp : α → α) (seeds : Seeds α) (bound : Bool) :
    handle bound (Rdm.decide exp req seeds) = (400, none) := by
  obtain ⟨e, he⟩ := decideWith_rejects_what_validation_rejects req h
  unfold Rdm.decide
  rw [he]
  cases bound <;> rfl

/-! #### each documented request-level violation, lifted to `decideWith` -/

/-- a blank method name -/
theorem blank_method_never_ranked (req : Request α) (hb : isBlank req.method = true) :
    ∃ e, ∀ (exp : α → α) (o : List (WCrit α) → List (WCrit α)) (g : Int → Draws α),
      decideWith exp o req g = .error e :=
  decideWith_rejects_what_validation_rejects req
    (Or.inl (blank_method_rejected_any req.method hb req.crit req.known req.chosen))

/-- a method name that is not one of the seven registered ones -/
theorem unknown_method_never_ranked (req : Request α) (h : req.method ∉ methodNames) :
    ∃ e, ∀ (exp : α → α) (o : List (WCrit α) → List (WCrit α)) (g : Int → Draws α),
      decideWith exp o req g = .error e :=
  decideWith_rejects_what_validation_rejects req (Or.inr (Or.inl (by simpa using h)))

/-- method parameters that `ParseParams` refused (missing weights, Choquet capacities outside [0,1] or
    non-gain criteria, non-positive ELECTRE weights, non-increasing thresholds, an unaccepted distillation
    function, out-of-range coefficients, unknown level function … — see the per-method theorems above) -/
theorem unparsed_parameters_never_ranked (req : Request α) (h : req.mp = none) :
    ∃ e, ∀ (exp : α → α) (o : List (WCrit α) → List (WCrit α)) (g : Int → Draws α),
      decideWith exp o req g = .error e :=
  decideWith_rejects_what_validation_rejects req (Or.inr (Or.inr (Or.inl h)))

/-- duplicate criterion ids -/
theorem duplicate_criterion_never_ranked (req : Request α) (i j : Nat) (a b : Crit α) (hij : i < j)
    (hi : req.crit[i]? = some a) (hj : req.crit[j]? = some b) (hid : a.id = b.id) :
    ∃ e, ∀ (exp : α → α) (o : List (WCrit α) → List (WCrit α)) (g : Int → Draws α),
      decideWith exp o req g = .error e :=
  decideWith_rejects_what_validation_rejects req
    (Or.inl (duplicate_criterion_rejected_request req.method req.crit req.known req.chosen i j a b hij hi hj hid))

/-- an empty or inverted value range -/
theorem bad_range_never_ranked (req : Request α) (c : Crit α) (hc : c ∈ req.crit) (lo hi : α)
    (hr : c.range = some (lo, hi)) (h : hi ≤ lo) :
    ∃ e, ∀ (exp : α → α) (o : List (WCrit α) → List (WCrit α)) (g : Int → Draws α),
      decideWith exp o req g = .error e :=
  decideWith_rejects_what_validation_rejects req
    (Or.inl (bad_range_rejected_request req.method req.crit req.known req.chosen c hc lo hi hr h))

/-- a known alternative without a value for some criterion (whatever the other fields) -/
theorem missing_value_never_ranked (req : Request α) (a : Alt α) (ha : a ∈ req.known) (c : Crit α)
    (hc : c ∈ req.crit) (hmiss : a.vals.has c.id = false) :
    ∃ e, ∀ (exp : α → α) (o : List (WCrit α) → List (WCrit α)) (g : Int → Draws α),
      decideWith exp o req g = .error e := by
  apply decideWith_rejects_what_validation_rejects req
  refine Or.inl ((validateRequest_rejected_iff _ _ _ _).mpr ?_)
  rintro ⟨_, _, _, h4, _⟩
  rw [h4 a ha c hc] at hmiss
  cases hmiss

/-- an alternative to choose from that is not among the known ones -/
theorem unknown_alternative_never_ranked (req : Request α) (id : String) (hid : id ∈ req.chosen)
    (hunk : ∀ a ∈ req.known, a.id ≠ id) :
    ∃ e, ∀ (exp : α → α) (o : List (WCrit α) → List (WCrit α)) (g : Int → Draws α),
      decideWith exp o req g = .error e :=
  decideWith_rejects_what_validation_rejects req
    (Or.inl (unknown_alternative_rejected req.method req.crit req.known req.chosen id hid hunk))

/-- an enabled bias whose name is not registered -/
theorem unknown_bias_never_ranked (req : Request α) (b : BiasReq α (BProps α)) (hb : b ∈ req.biases)
    (hen : b.disabled = false) (hunk : b.name ∉ availableBiases) :
    ∃ e, ∀ (exp : α → α) (o : List (WCrit α) → List (WCrit α)) (g : Int → Draws α),
      decideWith exp o req g = .error e :=
  decideWith_rejects_what_validation_rejects req
    (Or.inr (Or.inr (Or.inr ⟨b, hb, hen, by simpa using hunk⟩)))

/-! ### N2(b) an error or a ranking — no third outcome -/

/-- **N2(b)**: `decideWith` returns either `.error _` or a response whose `result` ranks exactly the
    alternatives that had to be considered (`choseToMake`, plus the heuristic's current choice when it is not
    among them — `e2eExpected`), one entry each; there is no third outcome.  Domain of the ranking part (as for
    C01): `choseToMake` lists pairwise different alternatives. -/
theorem decideWith_error_or_ranking (hirr : ∀ x : α, ¬ x < x) (exp : α → α)
    (o : List (WCrit α) → List (WCrit α)) (req : Request α) (g : Int → Draws α) (hnd : req.chosen.Nodup) :
    (∃ e, decideWith exp o req g = .error e) ∨
    (∃ resp mp, decideWith exp o req g = .ok resp ∧ req.mp = some mp ∧
      resp.result.length = (e2eExpected req.chosen (e2eCur mp)).length ∧
      (resp.result.map (·.id)).Perm (e2eExpected req.chosen (e2eCur mp)) ∧
      (resp.result.map (·.id)).Nodup) := by
  cases h : decideWith exp o req g with
  | error e => exact Or.inl ⟨e, rfl⟩
  | ok resp =>
    obtain ⟨mp, hmp, hperm, hnodup, _⟩ :=
      Rdm.Props.C01.decideWith_wellformed_spelled_out hirr exp o req g resp h hnd
    refine Or.inr ⟨resp, mp, rfl, hmp, ?_, hperm, hnodup⟩
    have := hperm.length_eq
    simpa using this

/-- … without the domain hypothesis only the dichotomy remains (totality of the model) -/
theorem decideWith_total (exp : α → α) (o : List (WCrit α) → List (WCrit α)) (req : Request α)
    (g : Int → Draws α) :
    (∃ e, decideWith exp o req g = .error e) ∨ (∃ resp, decideWith exp o req g = .ok resp) := by
  cases decideWith exp o req g with
  | error e => exact Or.inl ⟨e, rfl⟩
  | ok resp => exact Or.inr ⟨resp, rfl⟩

/-- the service's answer to a bound request, over the rationals: 400 without a ranking, or 200 with a ranking
    of exactly the alternatives to be considered -/
theorem service_answers_with_400_or_a_full_ranking (exp : Rat → Rat) (req : Request Rat) (seeds : Seeds Rat)
    (hnd : req.chosen.Nodup) :
    handle true (Rdm.decide exp req seeds) = (400, none) ∨
    ∃ resp mp, handle true (Rdm.decide exp req seeds) = (200, some resp) ∧ req.mp = some mp ∧
      (resp.result.map (·.id)).Perm (e2eExpected req.chosen (e2eCur mp)) := by
  rcases decideWith_error_or_ranking (fun _ => Rat.lt_irrefl) exp sortCriteriaDesc req (genOf seeds) hnd with
    ⟨e, he⟩ | ⟨resp, mp, h, hmp, _, hperm, _⟩
  · left; unfold Rdm.decide; rw [he]; rfl
  · right; exact ⟨resp, mp, by unfold Rdm.decide; rw [h]; rfl, hmp, hperm⟩

/-- re-export of `Props.C05.rank_terminates`: the fuel of the ELECTRE III distillation suffices -/
theorem electre_fuel_suffices (m : Matrix Rat) (s : LinFun Rat) (cmp : Int → Int → Bool)
    (hs : Spec.C05.distInDomain s = true) (hsz : m.size ≠ 0)
    (hlen : m.data.length = m.size * m.size) (hrng : ∀ x ∈ m.data, 0 ≤ x ∧ x ≤ 1) :
    ∃ ps, rank m s cmp = .ok ps :=
  Rdm.Props.C05.rank_terminates m s cmp hs hsz hlen hrng

/-- re-export of `Props.C14.fuel_suffices`: the fuel of the satisfaction-level series suffices -/
theorem levels_fuel_suffices (k : CoefKind) (c mx mn : Rat) (hv : coefValid k c mx mn = true) :
    ∃ rs, coefSeries k c mx mn (coefFuel k c mx mn) (coefInitial k mx mn) = Except.ok rs ∧
      rs.length ≤ coefFuel k c mx mn :=
  Rdm.Props.C14.fuel_suffices k c mx mn hv

/-! ### N2(c) the props of a bias are validated when — and only when — it fires -/

/-- the documented constraints on the props of a bias, violated (each constructor is one `panic` of the bias's
    own validation; `undecodable`: `mapstructure` / the typed decoder refused the props) -/
inductive InvalidBiasProps : String → BProps Rat → Prop
  | omission_ratio (c : SplitCond Rat) (ord : String) (s : Int) (h : c.ratio < 0 ∨ 1 < c.ratio) :
      InvalidBiasProps Facts.biasOmission (.split c ord s)
  | omission_max_below_min (c : SplitCond Rat) (ord : String) (s : Int) (h : c.max < c.min) :
      InvalidBiasProps Facts.biasOmission (.split c ord s)
  | omission_unknown_ordering (c : SplitCond Rat) (ord : String) (s : Int) (hne : ord.isEmpty = false)
      (hunk : availableOrderings.contains ord = false) : InvalidBiasProps Facts.biasOmission (.split c ord s)
  | reversal_ratio (c : SplitCond Rat) (ord : String) (s : Int) (h : c.ratio < 0 ∨ 1 < c.ratio) :
      InvalidBiasProps Facts.biasReversal (.split c ord s)
  | reversal_max_below_min (c : SplitCond Rat) (ord : String) (s : Int) (h : c.max < c.min) :
      InvalidBiasProps Facts.biasReversal (.split c ord s)
  | reversal_unknown_ordering (c : SplitCond Rat) (ord : String) (s : Int) (hne : ord.isEmpty = false)
      (hunk : availableOrderings.contains ord = false) : InvalidBiasProps Facts.biasReversal (.split c ord s)
  | fatigue_unknown_function (n : String) (b : Bounding Rat) (s : Int) :
      InvalidBiasProps Facts.biasFatigue (.fatigue (.unknown n) b s)
  | fatigue_bounding_scaling_zero (fn : FatigueFn Rat) (b : Bounding Rat) (s : Int) (h : b.scaling = 0) :
      InvalidBiasProps Facts.biasFatigue (.fatigue fn b s)
  | concealment_scaling_zero (p : Props Rat)
      (h : p.num "newCriterionScaling" (Num.ofConst Facts.defaultConcealmentScaling) = 0) :
      InvalidBiasProps Facts.biasConcealment (.flat p)
  | concealment_bounding_scaling_zero (p : Props Rat)
      (h : p.num "allowedValuesRangeScaling" (Num.ofConst Facts.defaultBoundingScaling) = 0) :
      InvalidBiasProps Facts.biasConcealment (.flat p)
  | undecodable (name : String) : InvalidBiasProps name .bad

/-- invalid props make `Bias.Apply` fail on every state, whatever the streams -/
theorem invalid_props_fail_on_every_state {name : String} {p : BProps Rat} (h : InvalidBiasProps name p)
    (exp : Rat → Rat) (g : Int → Draws Rat) (orig cur : DMP Rat) :
    ∃ e, applyBias exp g name p orig cur = .error e := by
  cases h with
  | omission_ratio c ord s h =>
    rw [decideApplyBias_omission_eq]
    exact valH_bind_error_of _ _ (omission_ratio_out_of_range_rejected _ c ord cur _ h)
  | omission_max_below_min c ord s h =>
    rw [decideApplyBias_omission_eq]
    exact valH_bind_error_of _ _ (omission_max_below_min_rejected _ c ord cur _ h)
  | omission_unknown_ordering c ord s hne hunk =>
    rw [decideApplyBias_omission_eq]
    apply valH_bind_error_of
    unfold omissionApply
    cases c.validate with
    | error e => exact ⟨e, rfl⟩
    | ok u =>
      exact valH_bind_error_of (orderCriteria choquetEpsOf ord cur (g s)) _
        (unknown_ordering_rejected _ ord cur _ hne hunk)
  | reversal_ratio c ord s h =>
    rw [decideApplyBias_reversal_eq]
    exact valH_bind_error_of _ _ (reversal_ratio_out_of_range_rejected _ c ord cur _ h)
  | reversal_max_below_min c ord s h =>
    rw [decideApplyBias_reversal_eq]
    exact valH_bind_error_of _ _ (reversal_max_below_min_rejected _ c ord cur _ h)
  | reversal_unknown_ordering c ord s hne hunk =>
    rw [decideApplyBias_reversal_eq]
    apply valH_bind_error_of
    unfold reversalApply
    cases c.validate with
    | error e => exact ⟨e, rfl⟩
    | ok u =>
      exact valH_bind_error_of (orderCriteria choquetEpsOf ord cur (g s)) _
        (unknown_ordering_rejected _ ord cur _ hne hunk)
  | fatigue_unknown_function n b s =>
    rw [decideApplyBias_fatigue_eq]
    exact valH_bind_error_of _ _ (fatigue_unknown_function_rejected exp n b cur _)
  | fatigue_bounding_scaling_zero fn b s h =>
    rw [decideApplyBias_fatigue_eq]
    exact valH_bind_error_of _ _ (fatigue_bounding_scaling_zero_rejected exp fn b cur _ h)
  | concealment_scaling_zero p h =>
    unfold applyBias
    rw [if_neg (by decide), if_neg (by decide), if_neg (by decide), if_pos (by decide)]
    exact valH_bind_error_of _ _ (concealment_scaling_zero_rejected _ orig cur p _ _ h)
  | concealment_bounding_scaling_zero p h =>
    unfold applyBias
    rw [if_neg (by decide), if_neg (by decide), if_neg (by decide), if_pos (by decide)]
    exact valH_bind_error_of _ _ (concealment_bounding_scaling_zero_rejected _ orig cur p _ _ h)
  | undecodable name =>
    unfold applyBias
    split_ifs <;> exact ⟨_, rfl⟩

/-- **the core of N2(c)**: an enabled entry whose activation draw is below its probability and whose `Apply`
    fails on every state makes `decideWith` fail — whatever the biases before it did (if one of them failed, or
    the request was rejected earlier, the decision failed too; otherwise this entry fires and fails) -/
theorem firing_bias_that_always_fails_rejects_request {exp : α → α} {o : List (WCrit α) → List (WCrit α)}
    {req : Request α} {g : Int → Draws α} {i : Nat} {b : BiasReq α (BProps α)} {u : α}
    (hb : (e2esEnabled req)[i]? = some b) (hu : (g req.biasSeed)[i]? = some u) (hlt : u < e2esProb b)
    (hbad : ∀ orig cur, ∃ e, applyBias exp g b.name b.props orig cur = .error e) :
    ∃ e, decideWith exp o req g = .error e :=
  e2es_decide_error_of_fired_error hb hu hlt hbad

/-- **N2(c)**: invalid props of a bias that FIRES are rejected.  If the `i`-th enabled entry of the request has
    invalid props (omission / reversal: split ratio outside [0,1], max < min, unknown ordering; fatigue: unknown
    function, bounding scale 0; concealment: new-criterion scaling 0, bounding scale 0; undecodable props) and
    its activation draw is below its probability, then the request is not answered with a ranking.  (No
    hypothesis on the earlier biases is needed: when one of them fails the request fails as well.) -/
theorem firing_bias_with_invalid_props_is_rejected {exp : Rat → Rat} {o : List (WCrit Rat) → List (WCrit Rat)}
    {req : Request Rat} {g : Int → Draws Rat} {i : Nat} {b : BiasReq Rat (BProps Rat)} {u : Rat}
    (hb : (e2esEnabled req)[i]? = some b) (hu : (g req.biasSeed)[i]? = some u) (hlt : u < e2esProb b)
    (hinv : InvalidBiasProps b.name b.props) :
    ∃ e, decideWith exp o req g = .error e :=
  firing_bias_that_always_fails_rejects_request hb hu hlt
    (fun orig cur => invalid_props_fail_on_every_state hinv exp g orig cur)

/-- … and the handler answers 400 without a ranking -/
theorem firing_bias_with_invalid_props_is_answered_400 {exp : Rat → Rat} {req : Request Rat} {seeds : Seeds Rat}
    {i : Nat} {b : BiasReq Rat (BProps Rat)} {u : Rat}
    (hb : (e2esEnabled req)[i]? = some b) (hu : (genOf seeds req.biasSeed)[i]? = some u)
    (hlt : u < e2esProb b) (hinv : InvalidBiasProps b.name b.props) (bound : Bool) :
    handle bound (Rdm.decide exp req seeds) = (400, none) := by
  obtain ⟨e, he⟩ := firing_bias_with_invalid_props_is_rejected (o := sortCriteriaDesc) hb hu hlt hinv
  unfold Rdm.decide
  rw [he]
  cases bound <;> rfl

/-- **the state-dependent form** (needed for criteria mixing, whose validation runs only from two current
    criteria on): the request cut after its first `i` enabled entries gets through its biases and reaches the
    state `s` ("the biases before it succeeded"); entry `i` fires; its `Apply` fails on `s` — then `decideWith`
    fails -/
theorem firing_bias_failing_on_its_state_rejects_request {exp : α → α} {o : List (WCrit α) → List (WCrit α)}
    {req : Request α} {g : Int → Draws α} {i : Nat} {b : BiasReq α (BProps α)} {u : α} {s : DMP α}
    {outs : List (BiasOut α (Report α))}
    (hpre : pipeline exp { req with biases := (e2esEnabled req).take i } g = .ok (s, outs))
    (hb : (e2esEnabled req)[i]? = some b) (hu : (g req.biasSeed)[i]? = some u) (hlt : u < e2esProb b)
    (hbad : ∀ orig, ∃ e, applyBias exp g b.name b.props orig s = .error e) :
    ∃ e, decideWith exp o req g = .error e :=
  e2es_decide_error_at hpre hb hu hlt hbad

/-- **N2(c), criteria mixing**: a `mixingRatio` outside [0,1] of a mixing entry that fires on a state with at
    least two criteria is rejected -/
theorem firing_mixing_with_invalid_ratio_is_rejected {exp : Rat → Rat} {o : List (WCrit Rat) → List (WCrit Rat)}
    {req : Request Rat} {g : Int → Draws Rat} {i : Nat} {b : BiasReq Rat (BProps Rat)} {u : Rat} {s : DMP Rat}
    {outs : List (BiasOut Rat (Report Rat))} {p : Props Rat}
    (hpre : pipeline exp { req with biases := (e2esEnabled req).take i } g = .ok (s, outs))
    (hb : (e2esEnabled req)[i]? = some b) (hu : (g req.biasSeed)[i]? = some u) (hlt : u < e2esProb b)
    (hname : b.name = Facts.biasMixing) (hprops : b.props = .flat p) (hn : 2 ≤ s.crit.length)
    (hr : p.num "mixingRatio" (Num.ofConst Facts.defaultMixingRatio) < 0 ∨
          1 < p.num "mixingRatio" (Num.ofConst Facts.defaultMixingRatio)) :
    ∃ e, decideWith exp o req g = .error e := by
  apply firing_bias_failing_on_its_state_rejects_request hpre hb hu hlt
  intro orig
  rw [hname, hprops]
  unfold applyBias
  rw [if_neg (by decide), if_neg (by decide), if_neg (by decide), if_neg (by decide), if_pos (by decide)]
  exact valH_bind_error_of _ _ (mixing_ratio_out_of_range_rejected _ orig s p _ _ hn hr)

/-- **negative result (registered finding `lazy-bias-props`)**: the props of an entry that does NOT fire are
    never validated.  Replace the props of one enabled entry whose activation draw is not below its probability
    by anything — invalid, undecodable — and the outcome of `decideWith` is the same as a whole: the same
    response (a ranking!) or the same error.  So a request whose bias props violate the documented constraints
    IS answered with a ranking whenever that bias happens not to fire (`applyProbability < 1`). -/
theorem unfired_bias_props_are_never_validated (exp : α → α) (o : List (WCrit α) → List (WCrit α))
    (req : Request α) (g : Int → Draws α) (pre post : List (BiasReq α (BProps α))) (b : BiasReq α (BProps α))
    (props' : BProps α) (hreq : req.biases = pre ++ b :: post) (hen : b.disabled = false)
    (hu : ∀ u, (g req.biasSeed)[(pre.filter (!·.disabled)).length]? = some u → ¬ u < e2esProb b) :
    decideWith exp o { req with biases := pre ++ { b with props := props' } :: post } g
      = decideWith exp o req g := by
  rw [e2es_decide_props_irrelevant exp o req g pre post b props' hen hu, ← hreq]

/-- … in particular a probability-0 entry (draws are never negative) may carry any props -/
theorem probability_zero_bias_props_are_never_validated (exp : Rat → Rat)
    (o : List (WCrit Rat) → List (WCrit Rat)) (req : Request Rat) (g : Int → Draws Rat)
    (pre post : List (BiasReq Rat (BProps Rat))) (b : BiasReq Rat (BProps Rat)) (props' : BProps Rat)
    (hreq : req.biases = pre ++ b :: post) (hen : b.disabled = false) (hp : b.prob = some 0)
    (hd : ∀ u ∈ g req.biasSeed, 0 ≤ u) :
    decideWith exp o { req with biases := pre ++ { b with props := props' } :: post } g
      = decideWith exp o req g := by
  apply unfired_bias_props_are_never_validated exp o req g pre post b props' hreq hen
  intro u hu
  have : e2esProb b = 0 := by unfold e2esProb; rw [hp]; rfl
  rw [this]
  exact Rat.not_lt.mpr (hd u (List.mem_of_getElem? hu))

/-- **a second lazily validated constraint**: below two current criteria criteria mixing is a no-op that does
    not look at its `mixingRatio` — an out-of-range ratio is accepted then, even when the bias fires -/
theorem mixing_below_two_criteria_is_never_validated (exp : α → α) (g : Int → Draws α) (p : Props α)
    (orig cur : DMP α) (h : cur.crit.length < 2) :
    applyBias exp g Facts.biasMixing (.flat p) orig cur = .ok (cur, .mixing none) := by
  unfold applyBias
  rw [if_neg (by decide), if_neg (by decide), if_neg (by decide), if_neg (by decide), if_pos (by decide)]
  simp only [mixing, h, if_true, pure, Except.pure, bind, Except.bind]

end EndToEnd

/-! ### the hypotheses are satisfiable: concrete requests (Lemmas/E2EExamples.lean, E2EServiceExamples.lean) -/

section EndToEndExamples

/-- the example request gets past `prepare` (all four conditions of `request_reaches_the_biases_iff` hold) … -/
example : ∃ r, prepare e2eExWs = .ok r :=
  (request_reaches_the_biases_iff e2eExWs).mpr ⟨by decide +kernel, by decide, ⟨_, rfl⟩, by decide⟩

/-- … and each documented violation, one at a time on it, is never answered with a ranking: unknown method, -/
example : ∃ e, ∀ (exp : Rat → Rat) o g, decideWith exp o { e2eExWs with method := "weightedSums" } g = .error e :=
  unknown_method_never_ranked _ (by decide)
/-- blank method, -/
example : ∃ e, ∀ (exp : Rat → Rat) o g, decideWith exp o { e2eExWs with method := " " } g = .error e :=
  blank_method_never_ranked _ rfl
/-- unparsed parameters, -/
example : ∃ e, ∀ (exp : Rat → Rat) o g, decideWith exp o { e2eExWs with mp := none } g = .error e :=
  unparsed_parameters_never_ranked _ rfl
/-- duplicate criterion id, -/
example : ∃ e, ∀ (exp : Rat → Rat) o g,
    decideWith exp o { e2eExWs with crit := [e2eExC0, e2eExC1, e2eExC0] } g = .error e :=
  duplicate_criterion_never_ranked _ 0 2 e2eExC0 e2eExC0 (by decide) rfl rfl rfl
/-- empty value range, -/
example : ∃ e, ∀ (exp : Rat → Rat) o g,
    decideWith exp o { e2eExWs with crit := [e2eExC0, ⟨"c1", "cost", some (1, 1)⟩] } g = .error e :=
  bad_range_never_ranked _ ⟨"c1", "cost", some (1, 1)⟩ (by simp) 1 1 rfl (by decide +kernel)
/-- missing criterion value, -/
example : ∃ e, ∀ (exp : Rat → Rat) o g,
    decideWith exp o { e2eExWs with known := ⟨"e", [("c0", 1)]⟩ :: e2eExKnown } g = .error e :=
  missing_value_never_ranked _ ⟨"e", [("c0", 1)]⟩ (by simp) e2eExC1 (by simp [e2eExWs]) rfl
/-- unknown alternative, -/
example : ∃ e, ∀ (exp : Rat → Rat) o g,
    decideWith exp o { e2eExWs with chosen := ["c", "a", "z"] } g = .error e :=
  unknown_alternative_never_ranked _ "z" (by simp) (by decide)
/-- unknown enabled bias -/
example : ∃ e, ∀ (exp : Rat → Rat) o g,
    decideWith exp o { e2eExWs with biases := [⟨"criteriaOmision", false, none, .bad⟩] } g = .error e :=
  unknown_bias_never_ranked _ ⟨"criteriaOmision", false, none, .bad⟩ (by simp) rfl (by decide)

/-- the handler's answer to the request with the unknown method: 400, no ranking -/
example : handle true (Rdm.decide id { e2eExWs with method := "weightedSums" } e2eExSeeds) = (400, none) :=
  rejected_request_is_answered_400 _ (Or.inr (Or.inl (by decide))) id e2eExSeeds true

/-- N2(b) on the example request: it is answered, with a ranking of the three alternatives of `choseToMake` -/
example : ∃ resp, Rdm.decide id e2eExWs e2eExSeeds = .ok resp ∧ resp.result.length = 3 := by
  rcases decideWith_error_or_ranking (fun _ => Rat.lt_irrefl) id sortCriteriaDesc e2eExWs (genOf e2eExSeeds)
    (by decide) with ⟨e, he⟩ | ⟨resp, mp, h, hmp, hlen, _⟩
  · have : (Rdm.decide id e2eExWs e2eExSeeds).isOk = true := by decide +kernel
    unfold Rdm.decide at this
    rw [he] at this
    cases this
  · cases hmp
    exact ⟨resp, h, hlen⟩

/-- N2(c): the reversal of the example request with split ratio 3/2 and probability 1 — it fires on the draw
    3/4 — is rejected, and answered 400 -/
example : ∃ e, Rdm.decide id (e2esExWsBadReversal 1) e2eExSeeds = .error e :=
  firing_bias_with_invalid_props_is_rejected (i := 1) (b := e2esExBadReversal 1) (u := 3 / 4) rfl
    (by decide +kernel) (by decide +kernel) (.reversal_ratio _ _ _ (Or.inr (by decide +kernel)))

example : handle true (Rdm.decide id (e2esExWsBadReversal 1) e2eExSeeds) = (400, none) :=
  firing_bias_with_invalid_props_is_answered_400 (i := 1) (b := e2esExBadReversal 1) (u := 3 / 4) rfl
    (by decide +kernel) (by decide +kernel) (.reversal_ratio _ _ _ (Or.inr (by decide +kernel))) true

/-- **the finding `lazy-bias-props` on a concrete request**: the same invalid reversal (split ratio 3/2) with
    probability 1/2 does not fire on the draw 3/4, and the request IS answered — with the very response of the
    request whose reversal is valid -/
example : ∃ resp, Rdm.decide id e2eExWs e2eExSeeds = .ok resp ∧
    Rdm.decide id (e2esExWsBadReversal (1 / 2)) e2eExSeeds = .ok resp ∧ resp.result.length = 3 := by
  obtain ⟨resp, h⟩ := e2e_ok_of_isOk (x := Rdm.decide id e2eExWs e2eExSeeds) (by decide +kernel)
  have := unfired_bias_props_are_never_validated id sortCriteriaDesc e2eExWs (genOf e2eExSeeds)
    [e2esExFatigue none] [e2esExDisabled] e2esExReversal (.split ⟨3 / 2, 0, maxInt64⟩ "" 7) rfl rfl
    (by
      intro u hu
      have : (genOf e2eExSeeds e2eExWs.biasSeed)[([e2esExFatigue none].filter (!·.disabled)).length]?
          = some (3 / 4 : Rat) := by decide +kernel
      rw [this] at hu
      cases hu
      decide +kernel)
  refine ⟨resp, h, ?_, ?_⟩
  · unfold Rdm.decide at h ⊢
    rw [← h, ← this]
    rfl
  · obtain ⟨mp, hmp, hperm, _, _⟩ := Rdm.Props.C01.decideWith_wellformed_spelled_out
      (fun _ => Rat.lt_irrefl) id _ _ _ resp h (by decide)
    cases hmp
    have hl := hperm.length_eq
    rw [List.length_map] at hl
    rw [hl]
    decide

/-- N2(c), criteria mixing as first entry on a request with two criteria, `mixingRatio = 3/2`: rejected -/
example : ∃ e, Rdm.decide id
    { e2eExWs with biases := [⟨Facts.biasMixing, false, none, .flat { nums := [("mixingRatio", 3 / 2)] }⟩] }
    e2eExSeeds = .error e := by
  have hk : (match pipeline id { e2eExWs with biases := [] } (genOf e2eExSeeds) with
      | .ok r => decide (2 ≤ r.1.crit.length)
      | .error _ => false) = true := by decide +kernel
  cases hp : pipeline id { e2eExWs with biases := [] } (genOf e2eExSeeds) with
  | error e => rw [hp] at hk; cases hk
  | ok r =>
    rw [hp] at hk
    obtain ⟨s, outs⟩ := r
    exact firing_mixing_with_invalid_ratio_is_rejected (i := 0) (u := 1 / 4)
      (b := ⟨Facts.biasMixing, false, none, .flat { nums := [("mixingRatio", 3 / 2)] }⟩) hp rfl
      (by decide +kernel) (by decide +kernel) rfl rfl (of_decide_eq_true hk) (Or.inr (by decide +kernel))

end EndToEndExamples

end Rdm.Props.C20
