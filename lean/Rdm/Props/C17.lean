/-
  C17 — fatigue blurs every value by at most the fatigue ratio.
  Property theorems only (helper lemmas: Rdm/Lemmas/BiasAFatigue.lean, BiasAFatigueSpec.lean,
  BiasAFatigueCheck.lean).  Model:
  Rdm/Model/BiasesA.lean (`fatigueApply`, `fatigueBlur`), tied to the Go code bit-for-bit by the stage
  `fatigue-apply` of harness/main/c17.go (`exp` is external: the blur stage is fed the ratio the code
  reported; the formula of the ratio is checked with 1e-12 relative tolerance by `check-c17-ratio`).
-/
import Rdm.Lemmas.BiasAFatigue
import Rdm.Lemmas.BiasAFatigueSpec
import Rdm.Lemmas.BiasAFatigueCheck
import Rdm.Spec.C17
import Rdm.Lemmas.E2EBiasesState
import Rdm.Lemmas.E2EBiasesParts
import Rdm.Lemmas.E2EBiasesExample
set_option linter.unusedSectionVars false
open Rdm Rdm.BiasA
namespace Rdm.Props.C17
variable {α : Type} [Num α]

/-! ## the ratio -/

theorem ratio_const (exp : α → α) (v : α) : fatigueRatio exp (.const v) = .ok v := rfl

theorem ratio_expFromZero (exp : α → α) (a m : α) (q : Int) :
    fatigueRatio exp (.expFromZero a m q) = .ok (m * exp (a * Num.ofInt q) - m) := rfl

/-- the only law of `exp` that is needed: `exp 0 = 1` makes the ratio vanish at query 0 / alpha 0 -/
theorem ratio_expFromZero_zero (exp : Rat → Rat) (h : exp 0 = 1) (a m : Rat) (q : Int)
    (hq : a = 0 ∨ q = 0) : fatigueRatio exp (.expFromZero a m q) = .ok 0 := by
  rw [ratio_expFromZero]
  have : a * (Num.ofInt q : Rat) = 0 := by
    rcases hq with rfl | rfl <;> simp
  rw [this, h]; simp

theorem unknown_function_rejected (exp : α → α) (n : String) (b : Bounding α) (cur : DMP α) (d : Draws α) :
    ∃ e, fatigueApply exp (.unknown n) b cur d = .error e := ⟨_, rfl⟩

/-- both generators of `main.go` are the same factory, created from the same seed: both streams are
    the same numbers (regenerated wiring fact) -/
theorem generators_share_the_stream :
    Facts.wiringFatigueGenerators = ["RandomBasedSeedValueGenerator", "RandomBasedSeedValueGenerator"] := by
  decide

/-- `fatigueApply` feeds the same stream to the value and the sign generator -/
theorem apply_uses_one_stream (exp : α → α) (fn : FatigueFn α) (b : Bounding α) (cur : DMP α) (d : Draws α) :
    fatigueApply exp fn b cur d = (fatigueRatio exp fn >>= fun f => fatigueBlur f b cur d d) := rfl

/-! ## the move before bounding -/

/-- `|v' − v| ≤ |f·v|` for a draw in `[0,1)` and either sign -/
theorem move_bounded (f v u s : Rat) (h0 : 0 ≤ u) (h1 : u < 1) :
    Num.abs (preBound f v u s - v) ≤ Num.abs (f * v) := preBound_close f v u s h0 h1

/-- `f = 0` leaves the value unchanged (before bounding) -/
theorem zero_ratio_identity (v u s : Rat) : preBound 0 v u s = v := preBound_zero v u s

/-- the sign takes both directions: up for a sign draw below ½, down from ½ on
    (`Facts.fatigueSignHalf = ½`, read from the code) -/
theorem sign_both_directions (f v u s : Rat) :
    (s < 1 / 2 → preBound f v u s = v + v * u * f) ∧ (1 / 2 ≤ s → preBound f v u s = v - v * u * f) :=
  ⟨preBound_up f v u s, preBound_down f v u s⟩

theorem sign_threshold_is_half : (Num.ofConst Facts.fatigueSignHalf : Rat) = 1 / 2 := sign_half

/-! ## bounding -/

/-- over the rationals `BoundValue` is: raise to 0 when negatives are disallowed, then clip into the
    range scaled about its centre (`[lo + d − d·σ, hi − d + d·σ]`, `d = (hi − lo)/2`) -/
theorem bound_is_documented (b : Bounding Rat) (r : Rat × Rat) (hr : r.1 ≤ r.2) (x : Rat) :
    b.bound r x = Spec.C17.boundSpec b r x :=
  bound_eq_spec b r (fun hs => scaledRange_ordered hr hs) x

/-- with a positive scaling the bounded value lies inside the scaled range -/
theorem bounded_inside_scaled_range (b : Bounding Rat) (r : Rat × Rat) (hs : 0 < b.scaling)
    (hr : r.1 ≤ r.2) (x : Rat) :
    (Spec.C17.scaledRange r b.scaling).1 ≤ b.bound r x ∧ b.bound r x ≤ (Spec.C17.scaledRange r b.scaling).2 :=
  bound_mem b r hs hr x

/-- without range clipping, disallowing negative values yields a non-negative value -/
theorem bounded_non_negative (b : Bounding Rat) (r : Rat × Rat) (hn : b.nonNeg = true)
    (hs : ¬ 0 < b.scaling) (x : Rat) : 0 ≤ b.bound r x := bound_nonneg b r hn hs x

/-- with bounding off the value is handed on as it is -/
theorem bounding_off_identity (b : Bounding α) (r : α × α) (hn : b.nonNeg = false)
    (hs : ¬ Num.zero < b.scaling) (x : α) : b.bound r x = x := bound_off b r hn hs x

/-! ## the whole bias -/

/-- Every criterion value of every known alternative (considered first, then not considered; criteria in
    declared order, each with the range over all current alternatives) moves by at most `|f·v|` before
    bounding, given draws in `[0,1)`; `f = 0` ⇒ the value handed to the bounding is the old one.
    Criteria and method parameters are untouched; the report carries `f` and exactly the alternatives
    handed on. -/
theorem fatigue_blurs_within_ratio {f : Rat} {b : Bounding Rat} {cur res : DMP Rat} {vd sd : Draws Rat}
    {rep : FatigueReport Rat} (h : fatigueBlur f b cur vd sd = .ok (res, rep))
    (hd : ∀ u ∈ vd, 0 ≤ u ∧ u < 1) :
    res.crit = cur.crit ∧ res.mp = cur.mp ∧ rep.f = f ∧ rep.co = res.co ∧ rep.nc = res.nc ∧
    ∃ cr : List (Crit Rat × (Rat × Rat)), cr.map (·.1) = cur.crit ∧
      (∀ c ∈ cr, valuesRange cur.all c.1 = .ok c.2) ∧
      List.Forall₂ (MovedAlt f b cr) cur.co res.co ∧ List.Forall₂ (MovedAlt f b cr) cur.nc res.nc := by
  obtain ⟨_, hc, hm, hf, hco, hnc, cr, hcr, h1, h2⟩ := fatigueBlur_ok h
  have conv : ∀ a a', BlurredAlt f b cr vd sd a a' → MovedAlt f b cr a a' := by
    intro a a' ⟨hid, hx⟩
    refine ⟨hid, hx.imp ?_⟩
    intro c kv ⟨hk, v, u, s, hv, hu, _, hkv⟩
    refine ⟨hk, v, preBound f v u s, hv, by rw [hkv, blurValue_eq], ?_, ?_⟩
    · exact preBound_close f v u s (hd u hu).1 (hd u hu).2
    · intro hf0; subst hf0; exact preBound_zero v u s
  obtain ⟨hcr1, hcr2⟩ := criteriaRanges_ok hcr
  exact ⟨hc, hm, hf, hco, hnc, cr, hcr1, hcr2, h1.imp conv, h2.imp conv⟩

/-- `f = 0` with bounding off leaves all data unchanged: every alternative holds, for every declared
    criterion, exactly its old value -/
theorem zero_ratio_leaves_data_unchanged {b : Bounding Rat} {cur res : DMP Rat} {vd sd : Draws Rat}
    {rep : FatigueReport Rat} (h : fatigueBlur 0 b cur vd sd = .ok (res, rep))
    (hn : b.nonNeg = false) (hs : ¬ 0 < b.scaling) :
    ∀ l l', (l = cur.co ∧ l' = res.co) ∨ (l = cur.nc ∧ l' = res.nc) →
      List.Forall₂ (fun a a' => a'.id = a.id ∧ a'.vals.keys = cur.crit.map (·.id) ∧
        ∀ kv ∈ a'.vals, a.vals.get? kv.1 = some kv.2) l l' := by
  obtain ⟨_, _, _, _, _, _, cr, hcr, h1, h2⟩ := fatigueBlur_ok h
  obtain ⟨hcr1, _⟩ := criteriaRanges_ok hcr
  have conv : ∀ a a', BlurredAlt 0 b cr vd sd a a' →
      a'.id = a.id ∧ a'.vals.keys = cur.crit.map (·.id) ∧ ∀ kv ∈ a'.vals, a.vals.get? kv.1 = some kv.2 := by
    intro a a' ⟨hid, hx⟩
    refine ⟨hid, ?_, ?_⟩
    · rw [← hcr1]
      have : a'.vals.map (·.1) = cr.map (·.1.id) := forall₂_map_map (fun c kv h => h.1) hx
      simpa [KMap.keys, List.map_map, Function.comp_def] using this
    · intro kv hkv
      obtain ⟨c, _, hk, v, u, s, hv, _, _, hval⟩ := forall₂_mem_right hx kv hkv
      rw [hk, hv, hval, blurValue_eq, preBound_zero, bound_off b _ hn hs]
  intro l l' hl
  rcases hl with ⟨rfl, rfl⟩ | ⟨rfl, rfl⟩
  · exact h1.imp conv
  · exact h2.imp conv

/-- as wired in `main.go` (both generators from the same factory and seed) every value is blurred with
    ONE number `u`, used both as the magnitude draw and as the sign draw: the value moves up by `v·u·f`
    when `u < ½` and down by `v·u·f` when `u ≥ ½` -/
theorem one_stream_decides_magnitude_and_sign {f : Rat} {b : Bounding Rat} {cur res : DMP Rat}
    {d : Draws Rat} {rep : FatigueReport Rat} (h : fatigueBlur f b cur d d = .ok (res, rep)) :
    ∃ cr, biasACriteriaRanges cur = .ok cr ∧
      List.Forall₂ (BlurredAltSame f b cr d) cur.co res.co ∧
      List.Forall₂ (BlurredAltSame f b cr d) cur.nc res.nc ∧
      ∀ (range : Rat × Rat) (v u : Rat),
        (u < 1 / 2 → blurValue f b range v u u = b.bound range (v + v * u * f)) ∧
        (1 / 2 ≤ u → blurValue f b range v u u = b.bound range (v - v * u * f)) := by
  obtain ⟨cr, hcr, h1, h2⟩ := fatigueBlur_same h
  refine ⟨cr, hcr, h1, h2, ?_⟩
  intro range v u
  exact ⟨fun hu => by rw [blurValue_eq, preBound_up f v u u hu],
         fun hu => by rw [blurValue_eq, preBound_down f v u u hu]⟩

/-! ## the spec the driver evaluates on the implementation's output, on the model's output -/

/-- the per-value clause of `Spec.C17.check` (`valueOk`: move within `|f·v|`, inside the clipping
    interval, non-negative when configured, identity at `f = 0` without bounding) holds for every value
    the model produces — for every input with an ordered range -/
theorem moved_value_satisfies_spec (f : Rat) (b : Bounding Rat) (r : Rat × Rat) (hr : r.1 ≤ r.2) (v u s : Rat)
    (h0 : 0 ≤ u) (h1 : u < 1) : Spec.C17.valueOk f b r v (blurValue f b r v u s) = true := by
  rw [blurValue_eq]
  exact valueOk_of_moved f b r hr v _ (preBound_close f v u s h0 h1)
    (fun hf => by subst hf; exact preBound_zero v u s)

/-- the frame clause of `Spec.C17.check` (criteria and method parameters untouched) holds on the
    model's output -/
theorem frame_satisfies_spec {f : Rat} {b : Bounding Rat} {cur res : DMP Rat} {vd sd : Draws Rat}
    {rep : FatigueReport Rat} (h : fatigueBlur f b cur vd sd = .ok (res, rep)) :
    Spec.C17.frameOk cur res = true := fatigue_frameOk h

/-- THE WHOLE CHECKER, one statement: `Spec.C17.check` — what the driver op `check-c17` evaluates on the
    implementation's output (`opCheckC17`: `Spec.C17.explain f b cur res rep`, `f` the ratio) — accepts
    the model's output: frame (criteria / method parameters untouched), every value of every considered
    and not-considered alternative (`valueOk` against the declared-or-observed range), and the report
    (`rep.f = f`, report alternatives = alternatives handed on).
    Domain (true for every validated request):
    * `hd`   value draws in `[0,1)` (the generator's contract; the sign stream is unconstrained);
    * `hnd`  criteria ids distinct (`Criteria.Validate`; the spec looks values up by criterion id);
    * `hord` declared ranges ordered (`Criteria.Validate` demands max > min; an observed range is
             ordered by construction).
    No hypothesis on the alternatives: with no known alternative both value clauses are vacuous. -/
theorem fatigue_satisfies_spec {f : Rat} {b : Bounding Rat} {cur res : DMP Rat} {vd sd : Draws Rat}
    {rep : FatigueReport Rat} (h : fatigueBlur f b cur vd sd = .ok (res, rep))
    (hd : ∀ u ∈ vd, 0 ≤ u ∧ u < 1)
    (hnd : (cur.crit.map (·.id)).Nodup)
    (hord : ∀ c ∈ cur.crit, ∀ r, c.range = some r → r.1 ≤ r.2) :
    Spec.C17.check f b cur res rep = true := c17spec_check h hd hnd hord

/-- the same in the form the driver prints: the checker's verdict is `"ok"` -/
theorem fatigue_explain_ok {f : Rat} {b : Bounding Rat} {cur res : DMP Rat} {vd sd : Draws Rat}
    {rep : FatigueReport Rat} (h : fatigueBlur f b cur vd sd = .ok (res, rep))
    (hd : ∀ u ∈ vd, 0 ≤ u ∧ u < 1)
    (hnd : (cur.crit.map (·.id)).Nodup)
    (hord : ∀ c ∈ cur.crit, ∀ r, c.range = some r → r.1 ≤ r.2) :
    Spec.C17.explain f b cur res rep = "ok" := c17spec_explain_ok (c17spec_check h hd hnd hord)

/-- `Fatigue.Apply` as wired (one stream for magnitude and sign): whatever ratio `f` the fatigue
    function yields (any `exp`), the checker fed with that ratio accepts the result -/
theorem fatigueApply_satisfies_spec {exp : Rat → Rat} {fn : FatigueFn Rat} {f : Rat} {b : Bounding Rat}
    {cur res : DMP Rat} {d : Draws Rat} {rep : FatigueReport Rat}
    (h : fatigueApply exp fn b cur d = .ok (res, rep)) (hf : fatigueRatio exp fn = .ok f)
    (hd : ∀ u ∈ d, 0 ≤ u ∧ u < 1)
    (hnd : (cur.crit.map (·.id)).Nodup)
    (hord : ∀ c ∈ cur.crit, ∀ r, c.range = some r → r.1 ≤ r.2) :
    Spec.C17.check f b cur res rep = true ∧ Spec.C17.explain f b cur res rep = "ok" := by
  rw [apply_uses_one_stream, BiasA.bind_ok] at h
  obtain ⟨f', hf', h⟩ := h
  rw [hf] at hf'
  cases hf'
  exact ⟨c17spec_check h hd hnd hord, c17spec_explain_ok (c17spec_check h hd hnd hord)⟩

/-- the hypotheses are satisfiable together (and the conclusion is not vacuous): two criteria (one with a
    declared range, one observed), one considered and one not-considered alternative, bounding on -/
example :
    let cur : DMP Rat :=
      { nc := [{ id := "b", vals := [("c1", 4), ("c2", 1)] }],
        co := [{ id := "a", vals := [("c1", 2), ("c2", 3)] }],
        crit := [{ id := "c1", type := "gain", range := some (0, 10) }, { id := "c2", type := "cost" }],
        mp := .owa [] }
    let b : Bounding Rat := { scaling := 2, nonNeg := true }
    let d : Draws Rat := [1/4, 3/4, 0, 1/2]
    (∃ res rep, fatigueBlur (1/2) b cur d d = .ok (res, rep)) ∧
    (∀ u ∈ d, 0 ≤ u ∧ u < 1) ∧ (cur.crit.map (·.id)).Nodup ∧
    (∀ c ∈ cur.crit, ∀ r, c.range = some r → r.1 ≤ r.2) := by
  intro cur b d
  refine ⟨?_, by decide +kernel, by decide +kernel, by decide +kernel⟩
  have hok : (match fatigueBlur (1/2) b cur d d with | .ok _ => true | .error _ => false) = true := by
    decide +kernel
  cases hx : fatigueBlur (1/2) b cur d d with
  | ok p => exact ⟨p.1, p.2, rfl⟩
  | error e => rw [hx] at hok; cases hok

/-
  Not proved here:
  * anything about `math.Exp` beyond `exp 0 = 1` (`ratio_expFromZero_zero`): the formula of the ratio is
    compared with 1e-12 relative tolerance by `check-c17-ratio` on every generated case;
  * "the sign takes both directions over a run" is a statement about the generator; the model side is
    `sign_both_directions` (which draw gives which direction), the run-level check is the oracle
    `fatigue-sign-both-directions` of harness/main/c17.go.
-/
/-- the constants and names this property depends on were re-read from the working tree on this run
    (none fell back to its pinned value because its declaration could not be located) -/
theorem facts_fresh : (Rdm.Facts.staleFacts.all fun n => !["fatigueSignHalf", "fatigueConst", "fatigueExp", "wiringFatigueGenerators", "defaultBoundingScaling", "biasFatigue"].contains n) = true := by decide

/-! ## END TO END: a fired fatigue inside a whole request

The theorems above are about one `Fatigue.Apply` in isolation.  Below they are lifted to responses of `decideWith`
(Model/Decide.lean): every entry of `resp.biases` that carries a fatigue report — at any position of any bias
list, whatever fired before and after, for all seven methods — is one `fatigueApply` from the state `s` it received
to the state `s'` it handed on (`E2EBFired`, Lemmas/E2EBiases.lean).  The values `v` of the bound `|f·v|`, the
criteria and the ranges the bounding scales are those of the CURRENT state `s` (after every earlier bias), not of
the request; both generators read the stream of the entry's `randomSeed`. -/

section e2e
variable {exp : α → α} {o : List (WCrit α) → List (WCrit α)} {req : Request α} {g : Int → Draws α}
  {resp : Response α} {params s s' : DMP α} {chosen : List (Chosen α (BProps α))} {i : Nat} {name : String}
  {prob : α} {fn : FatigueFn α} {bd : Bounding α} {seed : Int} {rep : FatigueReport α}

/-- **Every fatigue entry of a response that carries a report is one `Fatigue.Apply` on the state it received**:
    the configured function yields the ratio `f`, then `blurCriteriaValues` runs on `s` with the ONE stream of
    the entry's `randomSeed` as magnitude and as sign stream. -/
theorem fired_fatigue_is_one_apply (h : decideWith exp o req g = .ok resp)
    (hi : resp.biases[i]? = some ⟨name, prob, some (.fatigue rep)⟩) :
    ∃ params chosen fn bd seed f s s',
      E2EBFired exp g req resp params chosen i ⟨name, prob, .fatigue fn bd seed⟩ (.fatigue rep) s s' ∧
      name = Facts.biasFatigue ∧ fatigueRatio exp fn = .ok f ∧
      fatigueBlur f bd s (g seed) (g seed) = .ok (s', rep) := by
  obtain ⟨params, chosen, props, s, s', hf⟩ := e2eb_fired h hi
  obtain ⟨hn, fn, bd, seed, f, hp, _, hf1, hf2⟩ := e2eb_fired_fatigue hf
  dsimp only at hn hp
  subst hp
  exact ⟨params, chosen, fn, bd, seed, f, s, s', hf, hn, hf1, hf2⟩

/-- the ratio and the blur of a fired fatigue entry -/
theorem fired_fatigue_blur
    (hf : E2EBFired exp g req resp params chosen i ⟨name, prob, .fatigue fn bd seed⟩ (.fatigue rep) s s') :
    ∃ f, fatigueRatio exp fn = .ok f ∧ fatigueBlur f bd s (g seed) (g seed) = .ok (s', rep) := by
  obtain ⟨_, fn', bd', seed', f, hp, _, hf1, hf2⟩ := e2eb_fired_fatigue hf
  dsimp only at hp
  cases hp
  exact ⟨f, hf1, hf2⟩

/-- frame and report, end to end (any number type): criteria and method parameters are handed on untouched,
    alternative ids and the considered / not-considered split too; the report carries the ratio and exactly
    the alternatives handed on -/
theorem fatigue_frame_e2e
    (hf : E2EBFired exp g req resp params chosen i ⟨name, prob, .fatigue fn bd seed⟩ (.fatigue rep) s s') :
    s'.crit = s.crit ∧ s'.mp = s.mp ∧ fatigueRatio exp fn = .ok rep.f ∧ rep.co = s'.co ∧ rep.nc = s'.nc ∧
      s'.co.map (·.id) = s.co.map (·.id) ∧ s'.nc.map (·.id) = s.nc.map (·.id) := by
  obtain ⟨f, hf1, hf2⟩ := fired_fatigue_blur hf
  obtain ⟨_, hc, hm, hff, hco, hnc, _⟩ := fatigueBlur_ok hf2
  obtain ⟨e1, e2⟩ := decideApplyBias_ids hf.step
  exact ⟨hc, hm, hff ▸ hf1, hco, hnc, e1, e2⟩

end e2e

section e2eRat
variable {exp : Rat → Rat} {o : List (WCrit Rat) → List (WCrit Rat)} {req : Request Rat} {g : Int → Draws Rat}
  {resp : Response Rat} {params s s' : DMP Rat} {chosen : List (Chosen Rat (BProps Rat))} {i : Nat}
  {name : String} {prob : Rat} {fn : FatigueFn Rat} {bd : Bounding Rat} {seed : Int} {rep : FatigueReport Rat}

/-- `fatigue_blurs_within_ratio`, end to end: every criterion value `v` of every known alternative OF THE STATE
    RECEIVED moves by at most `|f·v|` before bounding (draws of the entry's stream in `[0,1)`); `f = 0` hands the
    old value to the bounding; the range each criterion is bounded with is its range over the alternatives of
    the state received; criteria and parameters untouched; the report carries `f` and the alternatives handed on -/
theorem fatigue_blurs_within_ratio_e2e
    (hf : E2EBFired exp g req resp params chosen i ⟨name, prob, .fatigue fn bd seed⟩ (.fatigue rep) s s')
    (hd : ∀ u ∈ g seed, 0 ≤ u ∧ u < 1) :
    ∃ f, fatigueRatio exp fn = .ok f ∧
      s'.crit = s.crit ∧ s'.mp = s.mp ∧ rep.f = f ∧ rep.co = s'.co ∧ rep.nc = s'.nc ∧
      ∃ cr : List (Crit Rat × (Rat × Rat)), cr.map (·.1) = s.crit ∧
        (∀ x ∈ cr, valuesRange s.all x.1 = .ok x.2) ∧
        List.Forall₂ (MovedAlt f bd cr) s.co s'.co ∧ List.Forall₂ (MovedAlt f bd cr) s.nc s'.nc := by
  obtain ⟨f, hf1, hf2⟩ := fired_fatigue_blur hf
  exact ⟨f, hf1, fatigue_blurs_within_ratio hf2 hd⟩

/-- `one_stream_decides_magnitude_and_sign`, end to end: inside a request every value is blurred with ONE number
    `u` of the entry's stream: up by `v·u·f` when `u < ½`, down when `u ≥ ½` -/
theorem one_stream_decides_magnitude_and_sign_e2e
    (hf : E2EBFired exp g req resp params chosen i ⟨name, prob, .fatigue fn bd seed⟩ (.fatigue rep) s s') :
    ∃ f cr, fatigueRatio exp fn = .ok f ∧ biasACriteriaRanges s = .ok cr ∧
      List.Forall₂ (BlurredAltSame f bd cr (g seed)) s.co s'.co ∧
      List.Forall₂ (BlurredAltSame f bd cr (g seed)) s.nc s'.nc := by
  obtain ⟨f, hf1, hf2⟩ := fired_fatigue_blur hf
  obtain ⟨cr, hcr, h1, h2, _⟩ := one_stream_decides_magnitude_and_sign hf2
  exact ⟨f, cr, hf1, hcr, h1, h2⟩

/-- `zero_ratio_leaves_data_unchanged`, end to end: ratio 0 and bounding off ⇒ every alternative handed on holds,
    for every criterion of the state received, exactly the value it held -/
theorem zero_ratio_leaves_data_unchanged_e2e
    (hf : E2EBFired exp g req resp params chosen i ⟨name, prob, .fatigue fn bd seed⟩ (.fatigue rep) s s')
    (h0 : fatigueRatio exp fn = .ok 0) (hn : bd.nonNeg = false) (hs : ¬ 0 < bd.scaling) :
    ∀ l l', (l = s.co ∧ l' = s'.co) ∨ (l = s.nc ∧ l' = s'.nc) →
      List.Forall₂ (fun a a' => a'.id = a.id ∧ a'.vals.keys = s.crit.map (·.id) ∧
        ∀ kv ∈ a'.vals, a.vals.get? kv.1 = some kv.2) l l' := by
  obtain ⟨f, hf1, hf2⟩ := fired_fatigue_blur hf
  rw [h0] at hf1
  cases hf1
  exact zero_ratio_leaves_data_unchanged hf2 hn hs

/-- **`fatigue_satisfies_spec`, end to end: every fired fatigue entry of a response satisfies the fatigue spec
    w.r.t. the state it received.**  `Spec.C17.check` (frame, every value of every considered and not-considered
    alternative against the declared-or-observed range IN `s`, the report) accepts `(f, bounding, s, s', report)`
    with `f` the ratio the configured function yields — whatever biases ran before and after, for all seven
    methods.  Hypotheses: the entry's stream lies in `[0,1)`; declared ranges of the criteria of `s` are ordered
    (true of the request's criteria by `Criteria.Validate`; criteria added by earlier biases carry ranges computed
    by those biases).  The distinctness of the criteria ids of `s` is discharged. -/
theorem fatigue_satisfies_spec_e2e
    (hf : E2EBFired exp g req resp params chosen i ⟨name, prob, .fatigue fn bd seed⟩ (.fatigue rep) s s')
    (hd : ∀ u ∈ g seed, 0 ≤ u ∧ u < 1)
    (hord : ∀ x ∈ s.crit, ∀ r, x.range = some r → r.1 ≤ r.2) :
    ∃ f, fatigueRatio exp fn = .ok f ∧ Spec.C17.check f bd s s' rep = true ∧
      Spec.C17.explain f bd s s' rep = "ok" := by
  obtain ⟨f, hf1, hf2⟩ := fired_fatigue_blur hf
  have hnd := (e2eb_fired_crit_nodup hf).2.1
  exact ⟨f, hf1, fatigue_satisfies_spec hf2 hd hnd hord, fatigue_explain_ok hf2 hd hnd hord⟩

/-- bounding, end to end: with a positive `allowedValuesRangeScaling` every value handed on lies inside the range
    its criterion has OVER THE ALTERNATIVES OF THE STATE RECEIVED (declared, else observed there), scaled about
    its centre — for every criterion of `s` whose range there is ordered -/
theorem fatigue_values_lie_in_the_scaled_range_of_the_state_received
    (hf : E2EBFired exp g req resp params chosen i ⟨name, prob, .fatigue fn bd seed⟩ (.fatigue rep) s s')
    (hd : ∀ u ∈ g seed, 0 ≤ u ∧ u < 1) (hs : 0 < bd.scaling)
    (hord : ∀ x ∈ s.crit, ∀ rg, valuesRange s.all x = .ok rg → rg.1 ≤ rg.2) :
    ∀ a' ∈ s'.co ++ s'.nc, ∀ kv ∈ a'.vals, ∃ x ∈ s.crit, ∃ rg, kv.1 = x.id ∧ valuesRange s.all x = .ok rg ∧
      (Spec.C17.scaledRange rg bd.scaling).1 ≤ kv.2 ∧ kv.2 ≤ (Spec.C17.scaledRange rg bd.scaling).2 := by
  obtain ⟨f, _, _, _, _, _, _, cr, hcr1, hcr2, hco, hnc⟩ := fatigue_blurs_within_ratio_e2e hf hd
  have key : ∀ l l' : List (Alt Rat), List.Forall₂ (MovedAlt f bd cr) l l' → ∀ a' ∈ l', ∀ kv ∈ a'.vals,
      ∃ x ∈ s.crit, ∃ rg, kv.1 = x.id ∧ valuesRange s.all x = .ok rg ∧
        (Spec.C17.scaledRange rg bd.scaling).1 ≤ kv.2 ∧ kv.2 ≤ (Spec.C17.scaledRange rg bd.scaling).2 := by
    intro l l' hfa a' ha' kv hkv
    obtain ⟨a, _, _, hent⟩ := forall₂_mem_right hfa a' ha'
    obtain ⟨c, hc, hk, v, w, _, hval, _⟩ := forall₂_mem_right hent kv hkv
    have hx : c.1 ∈ s.crit := hcr1 ▸ List.mem_map_of_mem hc
    have hrg := hcr2 c hc
    refine ⟨c.1, hx, c.2, hk, hrg, ?_⟩
    rw [hval]
    exact bounded_inside_scaled_range bd c.2 hs (hord c.1 hx c.2 hrg) w
  intro a' ha'
  rcases List.mem_append.mp ha' with h | h
  · exact key _ _ hco a' h
  · exact key _ _ hnc a' h

/-! ### M6(b): a fired fatigue with ratio 0 and an entry that does not fire -/

/-- ratio 0, bounding off, and a state in which every known alternative holds exactly the declared criteria (in
    declared order — what every earlier omission or fatigue leaves; the request itself may list values in any
    order or hold undeclared ones, which `blurCriteriaValues` drops): the state handed on IS the state received -/
theorem zero_ratio_fatigue_hands_on_the_state_received
    (hf : E2EBFired exp g req resp params chosen i ⟨name, prob, .fatigue fn bd seed⟩ (.fatigue rep) s s')
    (h0 : fatigueRatio exp fn = .ok 0) (hn : bd.nonNeg = false) (hs : ¬ 0 < bd.scaling)
    (htidy : ∀ a ∈ s.all, a.vals.keys = s.crit.map (·.id)) : s' = s := by
  have hz := zero_ratio_leaves_data_unchanged_e2e hf h0 hn hs
  obtain ⟨hc, hm, _⟩ := fatigue_frame_e2e hf
  have hnd := (e2eb_fired_crit_nodup hf).2.1
  have key : ∀ l l' : List (Alt Rat), (∀ a ∈ l, a ∈ s.all) →
      List.Forall₂ (fun a a' => a'.id = a.id ∧ a'.vals.keys = s.crit.map (·.id) ∧
        ∀ kv ∈ a'.vals, a.vals.get? kv.1 = some kv.2) l l' → l' = l := by
    intro l l' hsub hfa
    induction hfa with
    | nil => rfl
    | @cons a a' l l' hab _ ih =>
      have hk := htidy a (hsub a List.mem_cons_self)
      have hv : a'.vals = a.vals := e2eb_kmap_eq (hab.2.1.trans hk.symm) (hk ▸ hnd) hab.2.2
      have : a' = a := by
        cases a; cases a'
        simp only at hv hab
        rw [hv, hab.1]
      rw [this, ih fun x hx => hsub x (List.mem_cons_of_mem _ hx)]
  have hco := key s.co s'.co (fun a ha => List.mem_append_left _ ha) (hz _ _ (Or.inl ⟨rfl, rfl⟩))
  have hnc := key s.nc s'.nc (fun a ha => List.mem_append_right _ ha) (hz _ _ (Or.inr ⟨rfl, rfl⟩))
  cases s; cases s'
  simp only at hc hm hco hnc
  rw [hc, hm, hco, hnc]

/-- **… and such an entry is indistinguishable, in everything the method sees and in every other entry of the
    response, from an entry that did not fire**: the same biases, run from the request's state on an activation
    stream that differs from the request's only at position `i` — there with any draw `u'` that does not fire
    (`u' ≥ probability`) — produce the same final state `resp.final` and the same `biases` list except that entry
    `i` carries no report; the method then returns the same ranking. -/
theorem zero_ratio_fatigue_is_indistinguishable_from_not_firing (h : decideWith exp o req g = .ok resp)
    (hf : E2EBFired exp g req resp params chosen i ⟨name, prob, .fatigue fn bd seed⟩ (.fatigue rep) s s')
    (h0 : fatigueRatio exp fn = .ok 0) (hn : bd.nonNeg = false) (hs : ¬ 0 < bd.scaling)
    (htidy : ∀ a ∈ s.all, a.vals.keys = s.crit.map (·.id)) {u' : Rat} (hu' : ¬ u' < prob) :
    processLoop (applyBias exp g) params chosen params ((g req.biasSeed).set i u') =
        .ok (resp.final, resp.biases.set i ⟨name, prob, none⟩) ∧
      evaluateWith o g resp.final = .ok resp.result := by
  have e := zero_ratio_fatigue_hands_on_the_state_received hf h0 hn hs htidy
  have hpost := hf.after
  rw [e] at hpost
  obtain ⟨u, hu, _⟩ := hf.drawn
  have hd : i < (g req.biasSeed).length := by
    rw [List.getElem?_eq_some_iff] at hu
    exact hu.1
  have ho : i < resp.biases.length := by
    have := hf.out
    rw [List.getElem?_eq_some_iff] at this
    exact this.1
  exact ⟨e2eb_loop_erase hf.entry hd ho hf.before hpost hu', (e2e_decideWith_ok h).2⟩

/-! ### the hypotheses are satisfiable: requests in which the fatigue is the second fired bias -/

/-- an omission fires, an entry does not fire, then the fatigue (ratio ⅛) fires; the hypotheses of
    `fatigue_satisfies_spec_e2e` hold and the spec accepts the entry -/
example : ∃ resp name prob rep n0 p0 r0 f bd s s',
    Rdm.decide id (e2ebExReq [e2ebExOmission, e2ebExSkipped, e2ebExFatigue]) e2ebExSeeds = .ok resp ∧
    resp.biases[2]? = some ⟨name, prob, some (.fatigue rep)⟩ ∧ resp.biases[0]? = some ⟨n0, p0, some r0⟩ ∧
    Spec.C17.check f bd s s' rep = true := by
  obtain ⟨resp, name, prob, rp, hr, h2, hk, n0, p0, r0, h0⟩ := e2eb_firedWith
    (r := Rdm.decide id (e2ebExReq [e2ebExOmission, e2ebExSkipped, e2ebExFatigue]) e2ebExSeeds)
    (j := 0) (i := 2) (k := e2ebIsFatigue) (by decide +kernel)
  cases rp with
  | fatigue rep =>
    obtain ⟨params, chosen, fn, bd, seed, f, s, s', hf, _, _, _⟩ := fired_fatigue_is_one_apply hr h2
    have hs := e2eb_received_sat hf (k := fun s =>
      decide (∀ x ∈ s.crit, ∀ r, x.range = some r → r.1 ≤ r.2)) (by decide +kernel)
    simp only [decide_eq_true_eq] at hs
    obtain ⟨f', _, hchk, _⟩ := fatigue_satisfies_spec_e2e hf (e2eb_exSeeds_unit seed) hs
    exact ⟨resp, name, prob, rep, n0, p0, r0, f', bd, s, s', hr, h2, h0, hchk⟩
  | _ => cases hk

/-- an omission fires, an entry does not fire, then a fatigue with ratio 0 and bounding off fires on the tidy
    state the omission handed on (which is not the request's state): every hypothesis of
    `zero_ratio_fatigue_is_indistinguishable_from_not_firing` holds; the entry has the default probability 1, so
    the statement is instantiated with the non-firing draw `u' = 1` -/
example : ∃ resp name prob rep n0 p0 r0 params chosen s,
    Rdm.decide id (e2ebExReq [e2ebExOmission, e2ebExSkipped, e2ebExFatigue0]) e2ebExSeeds = .ok resp ∧
    resp.biases[2]? = some ⟨name, prob, some (.fatigue rep)⟩ ∧ resp.biases[0]? = some ⟨n0, p0, some r0⟩ ∧
    s ≠ params ∧
    processLoop (applyBias id (genOf e2ebExSeeds)) params chosen params ((genOf e2ebExSeeds 5).set 2 1) =
      .ok (resp.final, resp.biases.set 2 ⟨name, prob, none⟩) := by
  obtain ⟨resp, name, prob, rp, hr, h2, hk, n0, p0, r0, h0⟩ := e2eb_firedWith
    (r := Rdm.decide id (e2ebExReq [e2ebExOmission, e2ebExSkipped, e2ebExFatigue0]) e2ebExSeeds)
    (j := 0) (i := 2) (k := e2ebIsFatigue) (by decide +kernel)
  cases rp with
  | fatigue rep =>
    obtain ⟨params, chosen, fn, bd, seed, f, s, s', hf, _, _, _⟩ := fired_fatigue_is_one_apply hr h2
    have hb := e2eb_fired_chosenAt hf
    have hb' : e2ebChosenAt (e2ebExReq [e2ebExOmission, e2ebExSkipped, e2ebExFatigue0]) 2 =
        some ⟨Facts.biasFatigue, 1, .fatigue (.const 0) ⟨-1, false⟩ 3⟩ := rfl
    rw [hb'] at hb
    simp only [Option.some.injEq, Chosen.mk.injEq, BProps.fatigue.injEq] at hb
    obtain ⟨rfl, rfl, rfl, rfl, rfl⟩ := hb
    have hs := e2eb_received_sat hf (k := fun s =>
      decide (∀ a ∈ s.all, a.vals.keys = s.crit.map (·.id)) && decide (s.crit.length = 1)) (by decide +kernel)
    simp only [Bool.and_eq_true, decide_eq_true_eq] at hs
    have hne : s ≠ params := by
      intro e
      have hp := hf.prepared
      have hp' : prepare (e2ebExReq [e2ebExOmission, e2ebExSkipped, e2ebExFatigue0]) =
          .ok (⟨[⟨"d", [("c0", 0), ("c1", 4)]⟩], [⟨"b", [("c0", 3), ("c1", 1)]⟩, ⟨"a", [("c0", 1), ("c1", 2)]⟩],
            [e2eExC0, e2eExC1], .ws [⟨e2eExC0, 1⟩, ⟨e2eExC1, 2⟩]⟩,
           [⟨Facts.biasOmission, 1, e2ebExOmission.props⟩, ⟨Facts.biasReversal, 1 / 4, e2ebExSkipped.props⟩,
            ⟨Facts.biasFatigue, 1, e2ebExFatigue0.props⟩]) := rfl
      rw [hp'] at hp
      cases hp
      rw [e] at hs
      exact absurd hs.2 (by decide)
    have := zero_ratio_fatigue_is_indistinguishable_from_not_firing (u' := 1) hr hf rfl rfl (by decide +kernel) hs.1
      (by decide +kernel)
    exact ⟨resp, _, _, rep, n0, p0, r0, params, chosen, s, hr, h2, h0, hne, this.1⟩
  | _ => cases hk

end e2eRat

end Rdm.Props.C17
