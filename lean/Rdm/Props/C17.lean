/- C17 — property theorems (stub; filled in by the owning work package). -/
import Rdm.Basic
namespace Rdm.Props.C17
end Rdm.Props.C17
