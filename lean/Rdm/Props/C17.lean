/-
  C17 — fatigue blurs every value by at most the fatigue ratio.
  Property theorems only (helper lemmas: Rdm/Lemmas/BiasAFatigue.lean, BiasAFatigueSpec.lean,
  BiasAFatigueCheck.lean).  Model:
  Rdm/Model/BiasesA.lean (`fatigueApply`, `fatigueBlur`), tied to the Go code bit-for-bit by the stage
  `fatigue-apply` of harness/main/c17.go (`exp` is external: the blur stage is fed the ratio the code
  reported; the formula of the ratio is checked with 1e-12 relative tolerance by `check-c17-ratio`).
-/
import Rdm.Lemmas.BiasAFatigue
import Rdm.Lemmas.BiasAFatigueSpec
import Rdm.Lemmas.BiasAFatigueCheck
import Rdm.Spec.C17
set_option linter.unusedSectionVars false
open Rdm Rdm.BiasA
namespace Rdm.Props.C17
variable {α : Type} [Num α]

/-! ## the ratio -/

theorem ratio_const (exp : α → α) (v : α) : fatigueRatio exp (.const v) = .ok v := rfl

theorem ratio_expFromZero (exp : α → α) (a m : α) (q : Int) :
    fatigueRatio exp (.expFromZero a m q) = .ok (m * exp (a * Num.ofInt q) - m) := rfl

/-- the only law of `exp` that is needed: `exp 0 = 1` makes the ratio vanish at query 0 / alpha 0 -/
theorem ratio_expFromZero_zero (exp : Rat → Rat) (h : exp 0 = 1) (a m : Rat) (q : Int)
    (hq : a = 0 ∨ q = 0) : fatigueRatio exp (.expFromZero a m q) = .ok 0 := by
  rw [ratio_expFromZero]
  have : a * (Num.ofInt q : Rat) = 0 := by
    rcases hq with rfl | rfl <;> simp
  rw [this, h]; simp

theorem unknown_function_rejected (exp : α → α) (n : String) (b : Bounding α) (cur : DMP α) (d : Draws α) :
    ∃ e, fatigueApply exp (.unknown n) b cur d = .error e := ⟨_, rfl⟩

/-- both generators of `main.go` are the same factory, created from the same seed: both streams are
    the same numbers (regenerated wiring fact) -/
theorem generators_share_the_stream :
    Facts.wiringFatigueGenerators = ["RandomBasedSeedValueGenerator", "RandomBasedSeedValueGenerator"] := by
  decide

/-- `fatigueApply` feeds the same stream to the value and the sign generator -/
theorem apply_uses_one_stream (exp : α → α) (fn : FatigueFn α) (b : Bounding α) (cur : DMP α) (d : Draws α) :
    fatigueApply exp fn b cur d = (fatigueRatio exp fn >>= fun f => fatigueBlur f b cur d d) := rfl

/-! ## the move before bounding -/

/-- `|v' − v| ≤ |f·v|` for a draw in `[0,1)` and either sign -/
theorem move_bounded (f v u s : Rat) (h0 : 0 ≤ u) (h1 : u < 1) :
    Num.abs (preBound f v u s - v) ≤ Num.abs (f * v) := preBound_close f v u s h0 h1

/-- `f = 0` leaves the value unchanged (before bounding) -/
theorem zero_ratio_identity (v u s : Rat) : preBound 0 v u s = v := preBound_zero v u s

/-- the sign takes both directions: up for a sign draw below ½, down from ½ on
    (`Facts.fatigueSignHalf = ½`, read from the code) -/
theorem sign_both_directions (f v u s : Rat) :
    (s < 1 / 2 → preBound f v u s = v + v * u * f) ∧ (1 / 2 ≤ s → preBound f v u s = v - v * u * f) :=
  ⟨preBound_up f v u s, preBound_down f v u s⟩

theorem sign_threshold_is_half : (Num.ofConst Facts.fatigueSignHalf : Rat) = 1 / 2 := sign_half

/-! ## bounding -/

/-- over the rationals `BoundValue` is: raise to 0 when negatives are disallowed, then clip into the
    range scaled about its centre (`[lo + d − d·σ, hi − d + d·σ]`, `d = (hi − lo)/2`) -/
theorem bound_is_documented (b : Bounding Rat) (r : Rat × Rat) (hr : r.1 ≤ r.2) (x : Rat) :
    b.bound r x = Spec.C17.boundSpec b r x :=
  bound_eq_spec b r (fun hs => scaledRange_ordered hr hs) x

/-- with a positive scaling the bounded value lies inside the scaled range -/
theorem bounded_inside_scaled_range (b : Bounding Rat) (r : Rat × Rat) (hs : 0 < b.scaling)
    (hr : r.1 ≤ r.2) (x : Rat) :
    (Spec.C17.scaledRange r b.scaling).1 ≤ b.bound r x ∧ b.bound r x ≤ (Spec.C17.scaledRange r b.scaling).2 :=
  bound_mem b r hs hr x

/-- without range clipping, disallowing negative values yields a non-negative value -/
theorem bounded_non_negative (b : Bounding Rat) (r : Rat × Rat) (hn : b.nonNeg = true)
    (hs : ¬ 0 < b.scaling) (x : Rat) : 0 ≤ b.bound r x := bound_nonneg b r hn hs x

/-- with bounding off the value is handed on as it is -/
theorem bounding_off_identity (b : Bounding α) (r : α × α) (hn : b.nonNeg = false)
    (hs : ¬ Num.zero < b.scaling) (x : α) : b.bound r x = x := bound_off b r hn hs x

/-! ## the whole bias -/

/-- Every criterion value of every known alternative (considered first, then not considered; criteria in
    declared order, each with the range over all current alternatives) moves by at most `|f·v|` before
    bounding, given draws in `[0,1)`; `f = 0` ⇒ the value handed to the bounding is the old one.
    Criteria and method parameters are untouched; the report carries `f` and exactly the alternatives
    handed on. -/
theorem fatigue_blurs_within_ratio {f : Rat} {b : Bounding Rat} {cur res : DMP Rat} {vd sd : Draws Rat}
    {rep : FatigueReport Rat} (h : fatigueBlur f b cur vd sd = .ok (res, rep))
    (hd : ∀ u ∈ vd, 0 ≤ u ∧ u < 1) :
    res.crit = cur.crit ∧ res.mp = cur.mp ∧ rep.f = f ∧ rep.co = res.co ∧ rep.nc = res.nc ∧
    ∃ cr : List (Crit Rat × (Rat × Rat)), cr.map (·.1) = cur.crit ∧
      (∀ c ∈ cr, valuesRange cur.all c.1 = .ok c.2) ∧
      List.Forall₂ (MovedAlt f b cr) cur.co res.co ∧ List.Forall₂ (MovedAlt f b cr) cur.nc res.nc := by
  obtain ⟨_, hc, hm, hf, hco, hnc, cr, hcr, h1, h2⟩ := fatigueBlur_ok h
  have conv : ∀ a a', BlurredAlt f b cr vd sd a a' → MovedAlt f b cr a a' := by
    intro a a' ⟨hid, hx⟩
    refine ⟨hid, hx.imp ?_⟩
    intro c kv ⟨hk, v, u, s, hv, hu, _, hkv⟩
    refine ⟨hk, v, preBound f v u s, hv, by rw [hkv, blurValue_eq], ?_, ?_⟩
    · exact preBound_close f v u s (hd u hu).1 (hd u hu).2
    · intro hf0; subst hf0; exact preBound_zero v u s
  obtain ⟨hcr1, hcr2⟩ := criteriaRanges_ok hcr
  exact ⟨hc, hm, hf, hco, hnc, cr, hcr1, hcr2, h1.imp conv, h2.imp conv⟩

/-- `f = 0` with bounding off leaves all data unchanged: every alternative holds, for every declared
    criterion, exactly its old value -/
theorem zero_ratio_leaves_data_unchanged {b : Bounding Rat} {cur res : DMP Rat} {vd sd : Draws Rat}
    {rep : FatigueReport Rat} (h : fatigueBlur 0 b cur vd sd = .ok (res, rep))
    (hn : b.nonNeg = false) (hs : ¬ 0 < b.scaling) :
    ∀ l l', (l = cur.co ∧ l' = res.co) ∨ (l = cur.nc ∧ l' = res.nc) →
      List.Forall₂ (fun a a' => a'.id = a.id ∧ a'.vals.keys = cur.crit.map (·.id) ∧
        ∀ kv ∈ a'.vals, a.vals.get? kv.1 = some kv.2) l l' := by
  obtain ⟨_, _, _, _, _, _, cr, hcr, h1, h2⟩ := fatigueBlur_ok h
  obtain ⟨hcr1, _⟩ := criteriaRanges_ok hcr
  have conv : ∀ a a', BlurredAlt 0 b cr vd sd a a' →
      a'.id = a.id ∧ a'.vals.keys = cur.crit.map (·.id) ∧ ∀ kv ∈ a'.vals, a.vals.get? kv.1 = some kv.2 := by
    intro a a' ⟨hid, hx⟩
    refine ⟨hid, ?_, ?_⟩
    · rw [← hcr1]
      have : a'.vals.map (·.1) = cr.map (·.1.id) := forall₂_map_map (fun c kv h => h.1) hx
      simpa [KMap.keys, List.map_map, Function.comp_def] using this
    · intro kv hkv
      obtain ⟨c, _, hk, v, u, s, hv, _, _, hval⟩ := forall₂_mem_right hx kv hkv
      rw [hk, hv, hval, blurValue_eq, preBound_zero, bound_off b _ hn hs]
  intro l l' hl
  rcases hl with ⟨rfl, rfl⟩ | ⟨rfl, rfl⟩
  · exact h1.imp conv
  · exact h2.imp conv

/-- as wired in `main.go` (both generators from the same factory and seed) every value is blurred with
    ONE number `u`, used both as the magnitude draw and as the sign draw: the value moves up by `v·u·f`
    when `u < ½` and down by `v·u·f` when `u ≥ ½` -/
theorem one_stream_decides_magnitude_and_sign {f : Rat} {b : Bounding Rat} {cur res : DMP Rat}
    {d : Draws Rat} {rep : FatigueReport Rat} (h : fatigueBlur f b cur d d = .ok (res, rep)) :
    ∃ cr, biasACriteriaRanges cur = .ok cr ∧
      List.Forall₂ (BlurredAltSame f b cr d) cur.co res.co ∧
      List.Forall₂ (BlurredAltSame f b cr d) cur.nc res.nc ∧
      ∀ (range : Rat × Rat) (v u : Rat),
        (u < 1 / 2 → blurValue f b range v u u = b.bound range (v + v * u * f)) ∧
        (1 / 2 ≤ u → blurValue f b range v u u = b.bound range (v - v * u * f)) := by
  obtain ⟨cr, hcr, h1, h2⟩ := fatigueBlur_same h
  refine ⟨cr, hcr, h1, h2, ?_⟩
  intro range v u
  exact ⟨fun hu => by rw [blurValue_eq, preBound_up f v u u hu],
         fun hu => by rw [blurValue_eq, preBound_down f v u u hu]⟩

/-! ## the spec the driver evaluates on the implementation's output, on the model's output -/

/-- the per-value clause of `Spec.C17.check` (`valueOk`: move within `|f·v|`, inside the clipping
    interval, non-negative when configured, identity at `f = 0` without bounding) holds for every value
    the model produces — for every input with an ordered range -/
theorem moved_value_satisfies_spec (f : Rat) (b : Bounding Rat) (r : Rat × Rat) (hr : r.1 ≤ r.2) (v u s : Rat)
    (h0 : 0 ≤ u) (h1 : u < 1) : Spec.C17.valueOk f b r v (blurValue f b r v u s) = true := by
  rw [blurValue_eq]
  exact valueOk_of_moved f b r hr v _ (preBound_close f v u s h0 h1)
    (fun hf => by subst hf; exact preBound_zero v u s)

/-- the frame clause of `Spec.C17.check` (criteria and method parameters untouched) holds on the
    model's output -/
theorem frame_satisfies_spec {f : Rat} {b : Bounding Rat} {cur res : DMP Rat} {vd sd : Draws Rat}
    {rep : FatigueReport Rat} (h : fatigueBlur f b cur vd sd = .ok (res, rep)) :
    Spec.C17.frameOk cur res = true := fatigue_frameOk h

/-- THE WHOLE CHECKER, one statement: `Spec.C17.check` — what the driver op `check-c17` evaluates on the
    implementation's output (`opCheckC17`: `Spec.C17.explain f b cur res rep`, `f` the ratio) — accepts
    the model's output: frame (criteria / method parameters untouched), every value of every considered
    and not-considered alternative (`valueOk` against the declared-or-observed range), and the report
    (`rep.f = f`, report alternatives = alternatives handed on).
    Domain (true for every validated request):
    * `hd`   value draws in `[0,1)` (the generator's contract; the sign stream is unconstrained);
    * `hnd`  criteria ids distinct (`Criteria.Validate`; the spec looks values up by criterion id);
    * `hord` declared ranges ordered (`Criteria.Validate` demands max > min; an observed range is
             ordered by construction).
    No hypothesis on the alternatives: with no known alternative both value clauses are vacuous. -/
theorem fatigue_satisfies_spec {f : Rat} {b : Bounding Rat} {cur res : DMP Rat} {vd sd : Draws Rat}
    {rep : FatigueReport Rat} (h : fatigueBlur f b cur vd sd = .ok (res, rep))
    (hd : ∀ u ∈ vd, 0 ≤ u ∧ u < 1)
    (hnd : (cur.crit.map (·.id)).Nodup)
    (hord : ∀ c ∈ cur.crit, ∀ r, c.range = some r → r.1 ≤ r.2) :
    Spec.C17.check f b cur res rep = true := c17spec_check h hd hnd hord

/-- the same in the form the driver prints: the checker's verdict is `"ok"` -/
theorem fatigue_explain_ok {f : Rat} {b : Bounding Rat} {cur res : DMP Rat} {vd sd : Draws Rat}
    {rep : FatigueReport Rat} (h : fatigueBlur f b cur vd sd = .ok (res, rep))
    (hd : ∀ u ∈ vd, 0 ≤ u ∧ u < 1)
    (hnd : (cur.crit.map (·.id)).Nodup)
    (hord : ∀ c ∈ cur.crit, ∀ r, c.range = some r → r.1 ≤ r.2) :
    Spec.C17.explain f b cur res rep = "ok" := c17spec_explain_ok (c17spec_check h hd hnd hord)

/-- `Fatigue.Apply` as wired (one stream for magnitude and sign): whatever ratio `f` the fatigue
    function yields (any `exp`), the checker fed with that ratio accepts the result -/
theorem fatigueApply_satisfies_spec {exp : Rat → Rat} {fn : FatigueFn Rat} {f : Rat} {b : Bounding Rat}
    {cur res : DMP Rat} {d : Draws Rat} {rep : FatigueReport Rat}
    (h : fatigueApply exp fn b cur d = .ok (res, rep)) (hf : fatigueRatio exp fn = .ok f)
    (hd : ∀ u ∈ d, 0 ≤ u ∧ u < 1)
    (hnd : (cur.crit.map (·.id)).Nodup)
    (hord : ∀ c ∈ cur.crit, ∀ r, c.range = some r → r.1 ≤ r.2) :
    Spec.C17.check f b cur res rep = true ∧ Spec.C17.explain f b cur res rep = "ok" := by
  rw [apply_uses_one_stream, BiasA.bind_ok] at h
  obtain ⟨f', hf', h⟩ := h
  rw [hf] at hf'
  cases hf'
  exact ⟨c17spec_check h hd hnd hord, c17spec_explain_ok (c17spec_check h hd hnd hord)⟩

/-- the hypotheses are satisfiable together (and the conclusion is not vacuous): two criteria (one with a
    declared range, one observed), one considered and one not-considered alternative, bounding on -/
example :
    let cur : DMP Rat :=
      { nc := [{ id := "b", vals := [("c1", 4), ("c2", 1)] }],
        co := [{ id := "a", vals := [("c1", 2), ("c2", 3)] }],
        crit := [{ id := "c1", type := "gain", range := some (0, 10) }, { id := "c2", type := "cost" }],
        mp := .owa [] }
    let b : Bounding Rat := { scaling := 2, nonNeg := true }
    let d : Draws Rat := [1/4, 3/4, 0, 1/2]
    (∃ res rep, fatigueBlur (1/2) b cur d d = .ok (res, rep)) ∧
    (∀ u ∈ d, 0 ≤ u ∧ u < 1) ∧ (cur.crit.map (·.id)).Nodup ∧
    (∀ c ∈ cur.crit, ∀ r, c.range = some r → r.1 ≤ r.2) := by
  intro cur b d
  refine ⟨?_, by decide +kernel, by decide +kernel, by decide +kernel⟩
  have hok : (match fatigueBlur (1/2) b cur d d with | .ok _ => true | .error _ => false) = true := by
    decide +kernel
  cases hx : fatigueBlur (1/2) b cur d d with
  | ok p => exact ⟨p.1, p.2, rfl⟩
  | error e => rw [hx] at hok; cases hok

/-
  Not proved here:
  * anything about `math.Exp` beyond `exp 0 = 1` (`ratio_expFromZero_zero`): the formula of the ratio is
    compared with 1e-12 relative tolerance by `check-c17-ratio` on every generated case;
  * "the sign takes both directions over a run" is a statement about the generator; the model side is
    `sign_both_directions` (which draw gives which direction), the run-level check is the oracle
    `fatigue-sign-both-directions` of harness/main/c17.go.
-/
/-- the constants and names this property depends on were re-read from the working tree on this run
    (none fell back to its pinned value because its declaration could not be located) -/
theorem facts_fresh : (Rdm.Facts.staleFacts.all fun n => !["fatigueSignHalf", "fatigueConst", "fatigueExp", "wiringFatigueGenerators", "defaultBoundingScaling", "biasFatigue"].contains n) = true := by decide

end Rdm.Props.C17
