/-
  C02 — decisions are repeatable: the request (with its seeds) determines the response.

  (a) The model is a function of the request and of the seeded streams it is handed — there is no
      other input (clock, global generator, scheduler, history); see the signatures in Rdm/Model.
  (b) Map-iteration order: every `for … range <map>` of the code is listed below (regenerated from the
      source by a typed analysis on every run) and classified; the obligation is that the list has not
      changed.  For each class the order-independence argument is a lemma about the model function
      that ranges over the corresponding association list.
  (c) lib/ uses no clock, no global random source, no goroutines, no channels.
  Partial by nature: the bytes of a fresh process and the Go runtime's map order cannot be expressed in
  the model; they are covered by (b)+(c) plus the differential repetition in harness/main/c02.go.
-/
import Rdm.Generated.Sites
import Rdm.Model.Listener
namespace Rdm.Props.C02
open Rdm

/-- The map-range sites of the code, by class.
    * per-key: the loop body reads/writes only the entry of its own key (map → map copy, per-key
      accumulation in slice order, per-key lookup); any visiting order gives the same map.
    * sorted-before-use: the collected entries are sorted by a total order (or grouped into
      order-insensitive tie groups) before anything depends on their order.
    * message-only: the order only shows in the wording of an error message (C02 allows that). -/
def perKeySites : List String := [
  "lib/logic/biases/anchoring/anchoring.go:matchScalingWithBounding",
  "lib/logic/biases/anchoring/ideal-reference-alternative-evaluator.go:extractCriteriaValues",
  "lib/logic/biases/anchoring/ideal-reference-alternative-evaluator.go:prepareCriteriaWithCoefficients",
  "lib/logic/biases/anchoring/inline-anchoring-applier.go:InlineAnchoringApplier.ApplyAnchoring",
  "lib/logic/biases/anchoring/inline-anchoring-applier.go:arithmeticAverage",
  "lib/logic/biases/anchoring/inline-anchoring-applier.go:arithmeticAverage",
  "lib/logic/biases/criteria-mixing/criteria-mixing.go:criteriaToMix.mix",
  "lib/logic/preference-func/choquet/choquet-integral_parsing.go:prepareWeights",
  "lib/logic/preference-func/choquet/choquet-integral_parsing.go:remapWeights",
  "lib/logic/preference-func/electreIII/electre_III-bias-listener.go:ElectreIIIBiasLIstener.Merge",
  "lib/logic/preference-func/electreIII/electre_III-bias-listener.go:ElectreIIIBiasLIstener.Merge",
  "lib/logic/preference-func/electreIII/electre_III-bias-listener.go:ElectreIIIBiasLIstener.RankCriteriaAscending",
  "lib/model/alternative.go:AlternativeWithCriteria.WithCriterion",
  "lib/model/bias-listener.go:PrepareCumulatedWeightsMap",
  "lib/model/weights.go:Weights.Copy",
  "lib/model/weights.go:Weights.Merge",
  "lib/model/weights.go:Weights.Merge"]

def sortedBeforeUseSites : List String := [
  "lib/logic/limited-rationality/satisfaction-levels/satisfaction-levels-update.go:SatisfactionLevelsUpdateListeners.Fetch",
  "lib/logic/preference-func/choquet/choquet-integral.go:prepareCriteriaInAscendingOrder",
  "lib/logic/preference-func/owa/owa.go:sortAlternativeCriteriaWeights",
  "lib/model/weights.go:Weights.AsKeyValue"]

def messageOnlySites : List String := [
  "lib/model/bias.go:ChooseBiases"]

def classifiedSites : List String := perKeySites ++ sortedBeforeUseSites ++ messageOnlySites

/-- every map-range statement in the working tree is one of the classified sites and vice versa
    (same number of statements, so a second loop added to a listed function is noticed too) -/
theorem map_range_sites_classified :
    (Sites.mapRangeSites.all fun s => classifiedSites.contains s) = true ∧
    (classifiedSites.all fun s => Sites.mapRangeSites.contains s) = true ∧
    Sites.mapRangeSites.length = classifiedSites.length := by
  decide

/-- no wall-clock, no global random source, no goroutines or channels anywhere in the library -/
theorem no_ambient_nondeterminism :
    Sites.clockUses = [] ∧ Sites.globalRandUses = [] ∧ Sites.goStatements = [] ∧ Sites.channelOps = [] := by
  decide

end Rdm.Props.C02
