/- C02 — property theorems (stub; filled in by the owning work package). -/
import Rdm.Basic
namespace Rdm.Props.C02
end Rdm.Props.C02
