/-
  C02 — decisions are repeatable: the request (with its seeds) determines the response.

  (a) The model is a function of the request and of the seeded streams it is handed — there is no
      other input (clock, global generator, scheduler, history); see the signatures in Rdm/Model.
  (b) Map-iteration order: every `for … range <map>` of the code is listed below (regenerated from the
      source by a typed analysis on every run) and classified; the obligation is that the list has not
      changed.  For each class the order-independence argument is a theorem about the model function
      that ranges over the corresponding association list: a Go map is a `KMap β = List (String × β)` in
      the model, so "the Go result does not depend on Go's map iteration order" is "the model function
      gives the same result for every permutation of the association list (with distinct keys)".
      These are the `…_map_order` theorems below (helper lemmas: Rdm/Lemmas/MapOrder*.lean); the table at
      the end of the file says which site is covered by which theorem.
  (c) lib/ uses no clock, no global random source, no goroutines, no channels.
  Partial by nature: the bytes of a fresh process and the Go runtime's map order cannot be expressed in
  the model; they are covered by (b)+(c) plus the differential repetition in harness/main/c02.go.
-/
import Rdm.Generated.Sites
import Rdm.Generated.Facts
import Rdm.Model.Listener
import Rdm.Lemmas.UtilityOwa
import Rdm.Lemmas.MapOrderBasic
import Rdm.Lemmas.MapOrderLoops
import Rdm.Lemmas.MapOrderChoquet
import Rdm.Lemmas.MapOrderParse
import Rdm.Lemmas.MapOrderListener
import Rdm.Lemmas.MapOrderAnchoring
import Rdm.Props.C07
import Rdm.Lemmas.E2EServiceBatch
import Rdm.Lemmas.E2EExamples
namespace Rdm.Props.C02
open Rdm

/-- The map-range sites of the code, by class.
    * per-key: the loop body reads/writes only the entry of its own key (map → map copy, per-key
      accumulation in slice order, per-key lookup); any visiting order gives the same map.
    * sorted-before-use: the collected entries are sorted by a total order (or grouped into
      order-insensitive tie groups) before anything depends on their order.
    * message-only: the order only shows in the wording of an error message (C02 allows that). -/
def perKeySites : List String := [
  "lib/logic/biases/anchoring/anchoring.go:matchScalingWithBounding",
  "lib/logic/biases/anchoring/ideal-reference-alternative-evaluator.go:extractCriteriaValues",
  "lib/logic/biases/anchoring/ideal-reference-alternative-evaluator.go:prepareCriteriaWithCoefficients",
  "lib/logic/biases/anchoring/inline-anchoring-applier.go:InlineAnchoringApplier.ApplyAnchoring",
  "lib/logic/biases/anchoring/inline-anchoring-applier.go:arithmeticAverage",
  "lib/logic/biases/anchoring/inline-anchoring-applier.go:arithmeticAverage",
  "lib/logic/biases/criteria-mixing/criteria-mixing.go:criteriaToMix.mix",
  "lib/logic/preference-func/choquet/choquet-integral_parsing.go:prepareWeights",
  "lib/logic/preference-func/choquet/choquet-integral_parsing.go:remapWeights",
  "lib/logic/preference-func/electreIII/electre_III-bias-listener.go:ElectreIIIBiasLIstener.Merge",
  "lib/logic/preference-func/electreIII/electre_III-bias-listener.go:ElectreIIIBiasLIstener.Merge",
  "lib/logic/preference-func/electreIII/electre_III-bias-listener.go:ElectreIIIBiasLIstener.RankCriteriaAscending",
  "lib/model/alternative.go:AlternativeWithCriteria.WithCriterion",
  "lib/model/bias-listener.go:PrepareCumulatedWeightsMap",
  "lib/model/weights.go:Weights.Copy",
  "lib/model/weights.go:Weights.Merge",
  "lib/model/weights.go:Weights.Merge"]

def sortedBeforeUseSites : List String := [
  "lib/logic/limited-rationality/satisfaction-levels/satisfaction-levels-update.go:SatisfactionLevelsUpdateListeners.Fetch",
  "lib/logic/preference-func/choquet/choquet-integral.go:prepareCriteriaInAscendingOrder",
  "lib/logic/preference-func/owa/owa.go:sortAlternativeCriteriaWeights",
  "lib/model/weights.go:Weights.AsKeyValue"]

def messageOnlySites : List String := [
  "lib/model/bias.go:ChooseBiases"]

def classifiedSites : List String := perKeySites ++ sortedBeforeUseSites ++ messageOnlySites

/-- Every `for … range <map>` statement of the working tree is, structurally, of a kind whose result
    cannot depend on the visiting order: *per-key* (the body only defines locals, writes map entries
    selected through the loop key, or panics — no accumulation into outer variables, no append, no early
    exit), *sorted-before-use* (the body only fills a slice that is handed to package `sort` afterwards) or
    *message-only* (the enclosing block ends in a panic).  The classification is recomputed from the typed
    syntax tree on every run (tools/sites), so moving a loop into a helper or renaming a function keeps the
    obligation, while an order-dependent loop (sum in map order, first match, unsorted collection) breaks it.
    The lists above document which site is covered by which order-independence theorem below. -/
theorem map_range_sites_classified : Sites.mapRangeUnclassified = [] := by decide

/-- no wall-clock, no global random source, no goroutines or channels anywhere in the library -/
theorem no_ambient_nondeterminism :
    Sites.clockUses = [] ∧ Sites.globalRandUses = [] ∧ Sites.goStatements = [] ∧ Sites.channelOps = [] := by
  decide

/-! ## (b) map-order independence of the model functions

  Vocabulary (definitions in Rdm/Lemmas/MapOrderBasic.lean and MapOrderListener.lean):
  * "two listings of the same Go map": `m₁.Perm m₂` and `(m₁.map Prod.fst).Nodup` (distinct keys; a
    permutation of a list with distinct keys has distinct keys too).  `KMap.SameMap m₁ m₂` is the conjunction.
  * `KMap.LookupEq m₁ m₂ := ∀ k, m₁.get? k = m₂.get? k` — the two lists are the same map.
  * `Alt.SameMap a a'`: same id, value maps are two listings of the same map.
  * `MParams.SameMaps`, `Addition.SameMaps`, `DMP.SameMaps`: same constructor, equal slices and scalars, maps are
    two listings of the same map (thresholds: position by position).
  * `R.Agree rel r₁ r₂`: both results are errors (the message may differ — C02: "rejected again, possibly
    with differently worded details"), or both are values related by `rel`; spelled out by `agree_spelled_out`.
-/

/-- what `R.Agree` says -/
theorem agree_spelled_out {γ δ : Type} (rel : γ → δ → Prop) (r₁ : R γ) (r₂ : R δ) :
    R.Agree rel r₁ r₂ ↔
      (∃ a b, r₁ = .ok a ∧ r₂ = .ok b ∧ rel a b) ∨ (∃ e e', r₁ = .error e ∧ r₂ = .error e') := by
  cases r₁ <;> cases r₂ <;> simp [R.Agree]

/-! ### 1. lookups (the basic tool; every `m[k]`, `Weights.Fetch`, `CriterionRawValue`, `CriterionValue`) -/

/-- Go's `v, ok := m[k]` gives the same answer for every listing of the map.  Basic tool of all per-key
    sites; directly: the lookups inside `Weights.Merge`, `WithCriterion`, `PrepareCumulatedWeightsMap`. -/
theorem lookup_perm {β : Type} {m₁ m₂ : KMap β} (h : m₁.Perm m₂) (hk : (m₁.map Prod.fst).Nodup) (k : String) :
    m₁.get? k = m₂.get? k :=
  lookup_perm_eq h hk k

/-- `_, ok := m[k]` -/
theorem has_perm {β : Type} {m₁ m₂ : KMap β} (h : m₁.Perm m₂) (hk : (m₁.map Prod.fst).Nodup) (k : String) :
    m₁.has k = m₂.has k :=
  (KMap.LookupEq.of_perm h hk).has k

/-- `Weights.Fetch` (value or the same panic) -/
theorem fetch_perm {α : Type} {m₁ m₂ : KMap α} (h : m₁.Perm m₂) (hk : (m₁.map Prod.fst).Nodup) (k : String) :
    KMap.fetch m₁ k = KMap.fetch m₂ k :=
  (KMap.LookupEq.of_perm h hk).fetch k

/-- `AlternativeWithCriteria.CriterionRawValue` -/
theorem raw_perm {α : Type} {a a' : Alt α} (hid : a.id = a'.id) (h : a.vals.Perm a'.vals)
    (hk : (a.vals.map Prod.fst).Nodup) (c : Crit α) : a.raw c = a'.raw c :=
  Alt.SameMap.raw ⟨hid, h, hk⟩ c

/-- `AlternativeWithCriteria.CriterionValue` -/
theorem signed_perm {α : Type} [Num α] {a a' : Alt α} (hid : a.id = a'.id) (h : a.vals.Perm a'.vals)
    (hk : (a.vals.map Prod.fst).Nodup) (c : Crit α) : a.signed c = a'.signed c :=
  Alt.SameMap.signed ⟨hid, h, hk⟩ c

/-- the canonical listing (ascending by key) is the same for every listing of a map.  Covers
    `lib/model/weights.go:Weights.AsKeyValue` (collect in map order, then sort by name — a total order on
    distinct keys), the key listing of `SatisfactionLevelsUpdateListeners.Fetch` (collected, then sorted, and only
    used in a panic message), and the way the harness prints every Go map. -/
theorem sorted_map_order {β : Type} {m₁ m₂ : KMap β} (h : m₁.Perm m₂) (hk : (m₁.map Prod.fst).Nodup) :
    m₁.sorted = m₂.sorted :=
  KMap.sorted_perm_eq h hk

/-! ### 2. OWA -/

/-- `lib/logic/preference-func/owa/owa.go:sortAlternativeCriteriaWeights` (sorted-before-use): the values are
    collected from the alternative's map in map order and sorted (`sort.Float64s`) before they are zipped with
    the sorted weights; the OWA value is the same for every listing of the value map (and every order of the
    weighted criteria).  Distinct keys are not even needed.  Re-export of `Props.C03.owa_perm_invariant`. -/
theorem owa_map_order (a a' : Alt Rat) (wc wc' : List (WCrit Rat)) (hv : a.vals.Perm a'.vals)
    (hw : wc.Perm wc') : owa a wc = owa a' wc' :=
  owa_perm_eq a a' wc wc' hv hw

/-! ### 3. Choquet integral -/

/-- the tie tolerance of the code is not negative (needed below: a tie group contains its own head) -/
theorem choquetEps_nonneg : (0 : Rat) ≤ Num.ofConst Facts.choquetEps := by decide

/-- `computeTotalWeight` on two ascending slices with the same entries (tied values possibly in another order):
    the same list of components (criteria of the remaining set — sorted —, value added), or the same error.
    The engine of the next theorem, also used by the Choquet listener's `decomposeWeights`. -/
theorem choquetComponents_map_order (eps : Rat) (heps : 0 ≤ eps) {w w' : KMap Rat}
    (hw : w.Perm w') (hwk : (w.map Prod.fst).Nodup) {l l' : List (String × Rat)} (hl : l.Perm l')
    (hs : l.Pairwise (fun x y => x.2 ≤ y.2)) (hs' : l'.Pairwise (fun x y => x.2 ≤ y.2)) (prev : Rat) :
    choquetComponents eps w l prev = choquetComponents eps w' l' prev :=
  choquetComponents_perm eps heps (KMap.LookupEq.of_perm hw hwk) _ l l' (le_refl _) hl hs hs' prev

/-- `lib/logic/preference-func/choquet/choquet-integral.go:prepareCriteriaInAscendingOrder` (sorted-before-use)
    together with `computeTotalWeight` and `criterionKey`: the entries are collected in map order and sorted by
    value with a *stable* sort, so entries with equal values stay in map order — but a tie group swallows all
    of them, the remaining criteria are looked up under a canonical (sorted) key, and the group boundaries carry
    the same values.  Hence the Choquet value (or the "missing capacity" error, including its message) is the
    same for every listing of the alternative's value map and of the capacity table.  Full statement: ties,
    near-ties within `eps`, missing capacities all included; the only hypothesis on `eps` is `0 ≤ eps`
    (`choquetEps_nonneg`; for a negative `eps` the claim is false, see `choquet_negative_eps_counterexample`).
    Distinct keys of the value map are not needed. -/
theorem choquetValue_map_order (eps : Rat) (heps : 0 ≤ eps) {a a' : Alt Rat} (ha : a.vals.Perm a'.vals)
    {w w' : KMap Rat} (hw : w.Perm w') (hwk : (w.map Prod.fst).Nodup) :
    choquetValue eps a w = choquetValue eps a' w' :=
  choquetValue_perm eps heps ha (KMap.LookupEq.of_perm hw hwk)

/-- `decomposeWeights` of the Choquet listener (per criterion, the sum of the components it takes part in, in
    the order of the alternatives): identical for every listing of the value maps and of the capacity table -/
theorem choquetDecompose_map_order (eps : Rat) (heps : 0 ≤ eps) (cs : List (Crit Rat)) {co co' : List (Alt Rat)}
    (h : List.Forall₂ (fun a a' : Alt Rat => a.vals.Perm a'.vals) co co')
    {w w' : KMap Rat} (hw : w.Perm w') (hwk : (w.map Prod.fst).Nodup) :
    choquetDecompose eps cs co w = choquetDecompose eps cs co' w' :=
  choquetDecompose_perm eps heps cs h (KMap.LookupEq.of_perm hw hwk)

/-- the instance the service runs: the extracted tolerance -/
theorem choquetValue_map_order_code {a a' : Alt Rat} (ha : a.vals.Perm a'.vals)
    {w w' : KMap Rat} (hw : w.Perm w') (hwk : (w.map Prod.fst).Nodup) :
    choquetValue (Num.ofConst Facts.choquetEps) a w = choquetValue (Num.ofConst Facts.choquetEps) a' w' :=
  choquetValue_map_order _ choquetEps_nonneg ha hw hwk

/-! ### 4. Choquet capacity parser -/

/-- `lib/logic/preference-func/choquet/choquet-integral_parsing.go:remapWeights` and `:prepareWeights` (per-key):
    `parse` accepts every listing of the raw capacity table or none (a clash of canonical keys, a missing
    subset, an unknown criterion, an out-of-range value are found in any order — only the message may name
    another entry), and the accepted tables are listings of the same map: a permutation of each other, distinct
    keys, hence equal lookups (next theorem).  Generic in the number type. -/
theorem choquetParse_map_order {α : Type} [Num α] (crits : List (Crit α)) {w₁ w₂ : KMap α} (h : w₁.Perm w₂) :
    R.Agree (fun r r' : KMap α => r.Perm r' ∧ (r.map Prod.fst).Nodup)
      (choquetParse crits w₁) (choquetParse crits w₂) :=
  choquetParse_perm_agree crits h

/-- … in terms of lookups -/
theorem choquetParse_map_order_lookups {α : Type} [Num α] (crits : List (Crit α)) {w₁ w₂ : KMap α}
    (h : w₁.Perm w₂) :
    R.Agree (fun r r' : KMap α => ∀ k, r.get? k = r'.get? k) (choquetParse crits w₁) (choquetParse crits w₂) :=
  (choquetParse_perm_agree crits h).mono (fun _ _ hr => KMap.LookupEq.of_perm hr.1 hr.2)

/-! ### 5. PrepareCumulatedWeightsMap -/

/-- `lib/model/bias-listener.go:PrepareCumulatedWeightsMap` (per-key): when every considered alternative's value
    map is listed in another order, the cumulated weights have the same lookups for every key (and the verdict
    is the same when the mapper can fail): per key, the accumulation happens in the order of the alternatives
    (a slice), never in the order of a map.  `mapper` is an arbitrary function of (key, value); generic in the
    number type — no law of `+` is used, so float non-associativity cannot hide anything. -/
theorem cumulated_map_order {α : Type} [Num α] (cs : List (Crit α)) (mapper : String → α → R α)
    {co co' : List (Alt α)}
    (h : List.Forall₂ (fun a a' : Alt α => a.vals.Perm a'.vals ∧ (a.vals.map Prod.fst).Nodup) co co') :
    R.Agree (fun w w' : KMap α => ∀ k, w.get? k = w'.get? k)
      (cumulated cs co mapper) (cumulated cs co' mapper) :=
  cumulated_perm cs mapper h

/-! ### 6. SortByWeights / RankCriteriaAscending -/

/-- `Criteria.SortByWeights` (mechanism "stable sort over the declared criteria order"): it walks the criteria
    slice and looks the weights up, so every listing of the weights map gives the same result (same error). -/
theorem sortByWeights_map_order {α : Type} [Num α] (cs : List (Crit α)) {w₁ w₂ : KMap α} (h : w₁.Perm w₂)
    (hk : (w₁.map Prod.fst).Nodup) : sortByWeights cs w₁ = sortByWeights cs w₂ :=
  sortByWeights_lookupEq (KMap.LookupEq.of_perm h hk) cs

/-- `RankCriteriaAscending` of all seven listeners, in particular
    `lib/logic/preference-func/electreIII/electre_III-bias-listener.go:ElectreIIIBiasLIstener.RankCriteriaAscending`
    (per-key copy `weights[c] = criterion.K`, then `SortByWeights`), majority / aspect elimination (weights map →
    `SortByWeights`), weighted sum / OWA / satisfaction (`PrepareCumulatedWeightsMap` → `SortByWeights`) and
    Choquet (`decomposeWeights` over `computeTotalWeight`): same verdict and the same ranking for every listing
    of every map of the working state. -/
theorem rankAsc_map_order (eps : Rat) (heps : 0 ≤ eps) {d d' : DMP Rat} (h : DMP.SameMaps d d') :
    R.Agree (· = ·) (rankAsc eps d) (rankAsc eps d') :=
  rankAsc_sameMaps eps heps h

/-- the three weights-map cases spelled out with plain hypotheses (majority heuristic) -/
theorem rankAsc_map_order_majority (eps : Rat) (nc co : List (Alt Rat)) (crit : List (Crit Rat)) {w w' : KMap Rat}
    (h : w.Perm w') (hk : (w.map Prod.fst).Nodup) (cur : String) (seed : Int) (rnd : Bool) (dr : String) :
    rankAsc eps ⟨nc, co, crit, .majority w cur seed rnd dr⟩ = rankAsc eps ⟨nc, co, crit, .majority w' cur seed rnd dr⟩ :=
  sortByWeights_lookupEq (KMap.LookupEq.of_perm h hk) crit

/-- (aspect elimination) -/
theorem rankAsc_map_order_aspect (eps : Rat) (nc co : List (Alt Rat)) (crit : List (Crit Rat)) {w w' : KMap Rat}
    (h : w.Perm w') (hk : (w.map Prod.fst).Nodup) (fn : String) (lv : Levels Rat) (seed : Int) (rnd : Bool) :
    rankAsc eps ⟨nc, co, crit, .aspect fn lv seed w rnd⟩ = rankAsc eps ⟨nc, co, crit, .aspect fn lv seed w' rnd⟩ :=
  sortByWeights_lookupEq (KMap.LookupEq.of_perm h hk) crit

/-- (ELECTRE III: `ElectreIIIBiasLIstener.RankCriteriaAscending`) -/
theorem rankAsc_map_order_electre (eps : Rat) (nc co : List (Alt Rat)) (crit : List (Crit Rat))
    {ec ec' : KMap (ECrit Rat)} (h : ec.Perm ec') (hk : (ec.map Prod.fst).Nodup) (dist : LinFun Rat) :
    rankAsc eps ⟨nc, co, crit, .electre ec dist⟩ = rankAsc eps ⟨nc, co, crit, .electre ec' dist⟩ :=
  sortByWeights_lookupEq (electreWeights_sameMap ⟨h, hk⟩).lookupEq crit

/-! ### 7. Weights.Merge / Copy / PreserveOnly, listener Merge and OnCriteriaRemoved -/

/-- `lib/model/weights.go:Weights.Merge` (both loops), the two loops of
    `lib/logic/preference-func/electreIII/electre_III-bias-listener.go:ElectreIIIBiasLIstener.Merge` (β = `ECrit`),
    `lib/model/alternative.go:AlternativeWithCriteria.WithCriterion` (`other` = the one new entry) and
    `lib/model/weights.go:Weights.Copy` (`other` = empty): for every listing of the two maps the verdict — and
    here even the message — is the same, and the union is a listing of the same map (a permutation with
    distinct keys, hence equal lookups). -/
theorem mergeDisjoint_map_order {β : Type} {m₁ m₂ o₁ o₂ : KMap β} (hm : m₁.Perm m₂)
    (hmk : (m₁.map Prod.fst).Nodup) (ho : o₁.Perm o₂) (hok : (o₁.map Prod.fst).Nodup) :
    (∀ e, KMap.mergeDisjoint m₁ o₁ = .error e ↔ KMap.mergeDisjoint m₂ o₂ = .error e) ∧
    (∀ r₁, KMap.mergeDisjoint m₁ o₁ = .ok r₁ → ∃ r₂, KMap.mergeDisjoint m₂ o₂ = .ok r₂ ∧
      r₁.Perm r₂ ∧ (r₁.map Prod.fst).Nodup ∧ ∀ k, r₁.get? k = r₂.get? k) := by
  obtain ⟨herr, hok'⟩ := mergeDisjoint_perm hm hmk ho
  refine ⟨herr, fun r₁ h₁ => ?_⟩
  obtain ⟨r₂, h₂, hp⟩ := hok' r₁ h₁
  have hnd := (mergeDisjoint_ok_distinct h₁ hmk hok).2
  exact ⟨r₂, h₂, hp, hnd, KMap.LookupEq.of_perm hp hnd⟩

/-- `Weights.Copy` proper: merging the empty map in is the identity (so a copy is invisible in the model) -/
theorem copy_is_identity {β : Type} (m : KMap β) : KMap.mergeDisjoint m [] = .ok m := by
  simp [KMap.mergeDisjoint, pure, Except.pure]

/-- `Weights.PreserveOnly` walks the criteria slice and fetches: same result, same panic, for every listing -/
theorem preserveOnly_map_order {α : Type} {m₁ m₂ : KMap α} (h : m₁.Perm m₂) (hk : (m₁.map Prod.fst).Nodup)
    (crits : List (Crit α)) : KMap.preserveOnly m₁ crits = KMap.preserveOnly m₂ crits :=
  preserveOnly_lookupEq (KMap.LookupEq.of_perm h hk) crits

/-- `Merge(params, addition)` of all seven listeners (uses `Weights.Merge`; ELECTRE: the two loops of
    `ElectreIIIBiasLIstener.Merge`): same verdict, and the merged parameters again differ only in the listing
    order of their maps. -/
theorem mergeParams_map_order {α : Type} [Num α] {mp mp' : MParams α} {add add' : Addition α}
    (h : MParams.SameMaps mp mp') (ha : Addition.SameMaps add add') :
    R.Agree MParams.SameMaps (mergeParams mp add) (mergeParams mp' add') :=
  mergeParams_sameMaps h ha

/-- `OnCriteriaRemoved` of all seven listeners (`PreserveOnly`, per-key fetches): identical result -/
theorem onRemoved_map_order {α : Type} [Num α] {mp mp' : MParams α} (h : MParams.SameMaps mp mp')
    (left : List (Crit α)) : onRemoved mp left = onRemoved mp' left :=
  onRemoved_sameMaps h left

/-- `OnCriterionAdded` of all seven listeners only looks keys up (reference weight, capacities of the subsets
    without the new criterion, thresholds): identical result and identical consumption of the random draws -/
theorem onAdded_map_order {α : Type} [Num α] {mp mp' : MParams α} (h : MParams.SameMaps mp mp')
    (crit ref : Crit α) (d : Draws α) : onAdded mp crit ref d = onAdded mp' crit ref d :=
  onAdded_sameMaps h crit ref d

/-! ### 8. CriteriaValuesRange -/

/-- `CriteriaValuesRange` looks the criterion up in every alternative (slice order): identical for every
    listing of the alternatives' value maps.  (Used by the anchoring / criteria-bounding code.) -/
theorem valuesRange_map_order {α : Type} [Num α] {alts alts' : List (Alt α)}
    (h : List.Forall₂ (fun a a' : Alt α => a.id = a'.id ∧ a.vals.Perm a'.vals ∧ (a.vals.map Prod.fst).Nodup)
      alts alts') (c : Crit α) : valuesRange alts c = valuesRange alts' c :=
  valuesRange_sameMaps (forall₂_imp (fun _ _ hab => ⟨hab.1, hab.2.1, hab.2.2⟩) h) c

/-! ### the hypotheses are satisfiable; the `0 ≤ eps` hypothesis is needed -/

def exW : KMap Rat := [("x,y", 1), ("y", 1/2)]
def exA : Alt Rat := ⟨"a", [("x", 1), ("y", 1)]⟩
def exA' : Alt Rat := ⟨"a", [("y", 1), ("x", 1)]⟩

/-- a tie listed in both orders: covered by `choquetValue_map_order` -/
example : choquetValue (1 / 100000) exA exW = choquetValue (1 / 100000) exA' exW :=
  choquetValue_map_order _ (by norm_num) (by decide) (List.Perm.refl _) (by decide)

example : sortByWeights ([] : List (Crit Rat)) [("a", 1), ("b", 2)] = sortByWeights [] [("b", 2), ("a", 1)] :=
  sortByWeights_map_order _ (by decide) (by decide)

/-- a working state and a re-listing of all its maps -/
example : DMP.SameMaps
    (⟨[], [exA], [⟨"x", "gain", none⟩, ⟨"y", "gain", none⟩], .majority [("x", 1), ("y", 2)] "" 0 false ""⟩ : DMP Rat)
    ⟨[], [exA'], [⟨"x", "gain", none⟩, ⟨"y", "gain", none⟩], .majority [("y", 2), ("x", 1)] "" 0 false ""⟩ :=
  ⟨.nil, .cons ⟨rfl, by decide, by decide⟩ .nil, rfl, ⟨by decide, by decide⟩, rfl, rfl, rfl, rfl⟩

example : List.Forall₂ (fun a a' : Alt Rat => a.vals.Perm a'.vals ∧ (a.vals.map Prod.fst).Nodup) [exA, exA'] [exA', exA] :=
  .cons ⟨by decide, by decide⟩ (.cons ⟨by decide, by decide⟩ .nil)

/-- with a negative tolerance no value is "equal" to itself, the tie groups degenerate and the order of tied
    entries becomes visible: the two listings of the same alternative give an accepted and a rejected result -/
theorem choquet_negative_eps_counterexample :
    exA.vals.Perm exA'.vals ∧ (exA.vals.map Prod.fst).Nodup ∧
    (choquetValue (-1) exA exW).isOk = true ∧ (choquetValue (-1) exA' exW).isOk = false := by
  have hA : ascendingVals exA = [("x", 1), ("y", 1)] := List.mergeSort_of_pairwise (by simp [exA])
  have hA' : ascendingVals exA' = [("y", 1), ("x", 1)] := List.mergeSort_of_pairwise (by simp [exA'])
  have hne : floatsAreEqual (1 : Rat) 1 (-1) = false := by simp [floatsAreEqual]
  have kxy : criterionKey ["x", "y"] = "x,y" := by decide
  have kyx : criterionKey ["y", "x"] = "x,y" := by decide
  have kx : criterionKey ["x"] = "x" := by decide
  have ky : criterionKey ["y"] = "y" := by decide
  refine ⟨by decide, by decide, ?_, ?_⟩
  · unfold choquetValue
    rw [hA, choquetComponents]
    simp only [dropGroup, hne, Bool.false_eq_true, if_false]
    rw [choquetComponents]
    simp only [dropGroup]
    rw [choquetComponents]
    simp [unionWeight, kxy, ky, exW, KMap.get?, List.lookup, bind, Except.bind, pure, Except.pure,
      Except.isOk, Except.toBool]
  · unfold choquetValue
    rw [hA', choquetComponents]
    simp only [dropGroup, hne, Bool.false_eq_true, if_false]
    rw [choquetComponents]
    simp only [dropGroup]
    rw [choquetComponents]
    simp [unionWeight, kyx, kx, exW, KMap.get?, List.lookup, bind, Except.bind, pure, Except.pure,
      Except.isOk, Except.toBool, throw, throwThe, MonadExceptOf.throw]

/-- the extracted constants used above are current -/
theorem facts_fresh : (Facts.staleFacts.all fun n => !["choquetEps"].contains n) = true := by decide

/-
  ## site → theorem

  per-key sites
    choquet-integral_parsing.go:remapWeights ................ choquetParse_map_order (+ _lookups)
    choquet-integral_parsing.go:prepareWeights .............. choquetParse_map_order
    electre_III-bias-listener.go:Merge (loop 1, copy) ....... mergeDisjoint_map_order (β = ECrit), mergeParams_map_order
    electre_III-bias-listener.go:Merge (loop 2, add) ........ mergeDisjoint_map_order (β = ECrit), mergeParams_map_order
    electre_III-bias-listener.go:RankCriteriaAscending ...... rankAsc_map_order_electre, rankAsc_map_order
    model/alternative.go:WithCriterion ...................... mergeDisjoint_map_order (other = [(name, value)]), lookup_perm
    model/bias-listener.go:PrepareCumulatedWeightsMap ....... cumulated_map_order (used by rankAsc_map_order: ws/owa/satisf)
    model/weights.go:Weights.Copy ........................... copy_is_identity, mergeDisjoint_map_order (other = [])
    model/weights.go:Weights.Merge (loop 1, copy) ........... mergeDisjoint_map_order, mergeParams_map_order
    model/weights.go:Weights.Merge (loop 2, add) ............ mergeDisjoint_map_order, mergeParams_map_order
    anchoring/anchoring.go:matchScalingWithBounding ......... per-key pairing of each scale with the one bounding (the model passes
                                                             `b` and `sc` separately: nothing to order); inlineLoop_map_order consumes it
    anchoring/ideal-reference-…:extractCriteriaValues ....... findBest_map_order (model `findBest`: final `best.map`)
    anchoring/ideal-reference-…:prepareCriteriaWithCoefficients  findBest_map_order (model `findBest`: `best0` from the first alternative's map)
    anchoring/inline-anchoring-applier.go:ApplyAnchoring .... inlineLoop_map_order, inlineOne_map_order (model `inlineStep`/`inlineOne`)
    anchoring/inline-anchoring-applier.go:arithmeticAverage ×2  avgInner_map_order, arithmeticAverage_map_order (model `arithmeticAverage`)
    criteria-mixing/criteria-mixing.go:criteriaToMix.mix .... mixValues_map_order (+ _lookups) (model `mixValues`)

  sorted-before-use sites
    choquet/choquet-integral.go:prepareCriteriaInAscendingOrder  choquetValue_map_order (full: ties and near-ties),
                                                             choquetComponents_map_order, rankAsc_map_order (choquet)
    owa/owa.go:sortAlternativeCriteriaWeights ............... owa_map_order
    model/weights.go:Weights.AsKeyValue ..................... sorted_map_order (only used in panic messages)
    satisfaction-levels-update.go:…Listeners.Fetch .......... sorted_map_order (key listing of a panic message; the
                                                             lookup itself is lookup_perm); model: `aspectFns`/`satisfFns`
                                                             are slices

  message-only site
    model/bias.go:ChooseBiases .............................. model `chooseBiases` takes the registry as a slice and
                                                             puts only the unknown name into the message; verdict
                                                             compared by the differential repetition

  also proved, not tied to a range statement: sortByWeights_map_order, preserveOnly_map_order, onRemoved_map_order,
  onAdded_map_order, valuesRange_map_order, choquetDecompose_map_order, fetch/raw/signed/has_perm (consumers that
  only look keys up).
-/

/-! ## the map loops of criteria mixing and inline anchoring (sites formerly covered by repetition only) -/

section AnchoringAndMixing
variable {α : Type} [Num α]
open Rdm.MapOrderAnch

/-- **criteria mixing, `criteriaToMix.mix`** (`for a, c1Value := range c1Values`): for every listing of the two
    rescaled-value maps the loop fails or succeeds alike, and on success yields a listing of the same map -/
theorem mixValues_map_order (ρ : α) {v1 v1' v2 v2' : KMap α} (h1 : v1.Perm v1') (h2 : v2.Perm v2')
    (hk2 : (v2.map Prod.fst).Nodup) :
    R.Agree List.Perm (mixValues ρ v1 v2) (mixValues ρ v1' v2') :=
  MapOrderAnch.mixValues_map_order ρ h1 h2 hk2

/-- … so every lookup `mixingCore` makes in the result (`res.get? a.id`) is the same -/
theorem mixValues_map_order_lookups (ρ : α) {v1 v1' v2 v2' : KMap α} (h1 : v1.Perm v1') (h2 : v2.Perm v2')
    (hk2 : (v2.map Prod.fst).Nodup) {r r' : KMap α}
    (hr : mixValues ρ v1 v2 = .ok r) (hr' : mixValues ρ v1' v2' = .ok r')
    (hkr : (r.map Prod.fst).Nodup) : KMap.LookupEq r r' :=
  MapOrderAnch.mixValues_map_order_lookups ρ h1 h2 hk2 hr hr' hkr

/-- **inline anchoring, loop over `boundingsWithScales`**: new values and applied differences have the same
    lookups, and the verdict is the same, for every listing of the scales map -/
theorem inlineLoop_map_order (b : Bounding α) (avg old : KMap α) {sc sc' : KMap (Scale α)}
    (h : sc.Perm sc') (hk : (sc.map Prod.fst).Nodup) (s : KMap α × KMap α) :
    R.Agree PairEq (sc.foldlM (inlineStep b avg old) s) (sc'.foldlM (inlineStep b avg old) s) :=
  MapOrderAnch.inlineLoop_map_order b avg old h hk s s (PairEq.refl s)

/-- **inline anchoring, per-alternative body** (`arithmeticAverage` + the loop above) -/
theorem inlineOne_map_order (b : Bounding α) {sc sc' : KMap (Scale α)} (h : sc.Perm sc')
    (hk : (sc.map Prod.fst).Nodup) (p : AltDiffs α) :
    R.Agree OneEq (inlineOne b sc p) (inlineOne b sc' p) :=
  MapOrderAnch.inlineOne_map_order b h hk p

/-- **`arithmeticAverage`, inner loop** (`for c, v := range a.Coefficients { sum[c] += v }`) -/
theorem avgInner_map_order {m m' : KMap α} (h : m.Perm m') (hk : (m.map Prod.fst).Nodup) (w : KMap α) :
    R.Agree KMap.LookupEq (m.foldlM avgStep w) (m'.foldlM avgStep w) :=
  MapOrderAnch.avgInner_map_order h hk w w (KMap.LookupEq.refl w)

/-- **`arithmeticAverage`**: same averaged coefficients (as lookups) and same verdict, whatever the listing of
    each reference point's coefficient map (the points themselves are a slice: their order is the request's) -/
theorem arithmeticAverage_map_order (points points' : List (String × KMap α))
    (hl : points.length = points'.length)
    (hz : ∀ p ∈ points.zip points', p.1.2.Perm p.2.2 ∧ (p.1.2.map Prod.fst).Nodup) :
    R.Agree KMap.LookupEq (arithmeticAverage points) (arithmeticAverage points') :=
  MapOrderAnch.arithmeticAverage_map_order points points' hl hz

/-- **ideal / nadir reference alternative** (`prepareCriteriaWithCoefficients` ranges over the first anchoring
    alternative's value map, `extractCriteriaValues` over the resulting map): same reference values (as lookups)
    and same verdict for every listing of that map -/
theorem findBest_map_order (pred : Crit α → α × α → α × α → Bool) (name : String) (a0 a0' : Alt α) (k0 : α)
    (rest : List (Alt α × α)) (crits : List (Crit α)) (h : a0.vals.Perm a0'.vals)
    (hk : (a0.vals.map Prod.fst).Nodup) :
    R.Agree AltEq (findBest pred name ((a0, k0) :: rest) crits) (findBest pred name ((a0', k0) :: rest) crits) :=
  MapOrderAnch.findBest_map_order pred name a0 a0' k0 rest crits h hk

/-- the hypotheses are satisfiable and the conclusion is not vacuous: two listings of a two-key map -/
example : R.Agree List.Perm (mixValues (1/4 : Rat) [("a", 1), ("b", 2)] [("a", 3), ("b", 5)])
    (mixValues (1/4 : Rat) [("b", 2), ("a", 1)] [("b", 5), ("a", 3)]) :=
  mixValues_map_order _ (List.Perm.swap _ _ _) (List.Perm.swap _ _ _) (by decide)
example : (mixValues (1/4 : Rat) [("a", 1), ("b", 2)] [("a", 3), ("b", 5)]).toOption.isSome = true := by
  decide +kernel

/-- non-vacuity of `arithmeticAverage_map_order`: two reference points whose coefficient maps are listed in opposite
    orders; the average exists and has the same lookups as with the second point's map listed the other way round -/
example : R.Agree KMap.LookupEq
    (arithmeticAverage [("r", [("a", (1 : Rat)), ("b", 2)]), ("s", [("b", 4), ("a", 3)])])
    (arithmeticAverage [("r", [("b", (2 : Rat)), ("a", 1)]), ("s", [("a", 3), ("b", 4)])]) :=
  arithmeticAverage_map_order _ _ rfl (by
    intro p hp
    simp only [List.zip_cons_cons, List.zip_nil_right, List.mem_cons, List.not_mem_nil, or_false] at hp
    rcases hp with rfl | rfl
    · exact ⟨List.Perm.swap _ _ _, by decide⟩
    · exact ⟨List.Perm.swap _ _ _, by decide⟩)
example : (arithmeticAverage [("r", [("a", (1 : Rat)), ("b", 2)]), ("s", [("b", 4), ("a", 3)])]).toOption.isSome = true := by
  decide +kernel

end AnchoringAndMixing

/-! ## END TO END: the whole response is a function of the request and of the seeds it names

`Props.C07.decideWith_reads_only_request_seeds` / `decide_reads_only_request_seeds` already state C02a for whole
responses: two seed tables that give the same stream for every seed the request names (`Request.seeds`:
`biasApplyRandomSeed`, every bias's `randomSeed` / `newCriterionRandomSeed` / anchoring `randomSeed + i`, the
method's `randomSeed`) give the same outcome — the same response or the same rejection.  They are not repeated
here; below are the two corollaries in the words of the property: the response is computed from the request and
the streams of the named seeds ALONE (the table restricted to them), and it does not depend on the requests
handled before (the model's handler `Rdm.decide exp · seeds` has no state to carry from one request to the
next; that the real registries are never written is `Props.C10`). -/

section EndToEnd
variable {α : Type} [Num α]

/-- **the response is a function of the request and of the named seeds**: throw everything else of the seed
    table away — keep, for each seed the request names, the stream the table gives it — and `MakeDecision`
    returns the same outcome (response or rejection).  With `Request.seeds` spelled out by
    `named_seeds_spelled_out`. -/
theorem decide_is_a_function_of_request_and_named_seeds (exp : α → α) (req : Request α) (s : Seeds α) :
    Rdm.decide exp req s = Rdm.decide exp req (e2esRestrict s req.seeds) :=
  Rdm.Props.C07.decide_reads_only_request_seeds exp req s _
    (fun k hk => (e2es_genOf_restrict s req.seeds k hk).symm)

/-- … hence two tables with the same restriction give the same outcome: accepted with the identical response,
    or rejected again -/
theorem same_named_streams_same_verdict_and_response (exp : α → α) (req : Request α) (s₁ s₂ : Seeds α)
    (h : ∀ k ∈ req.seeds, genOf s₁ k = genOf s₂ k) :
    (∃ resp, Rdm.decide exp req s₁ = .ok resp ∧ Rdm.decide exp req s₂ = .ok resp) ∨
    (∃ e, Rdm.decide exp req s₁ = .error e ∧ Rdm.decide exp req s₂ = .error e) := by
  rw [Rdm.Props.C07.decide_reads_only_request_seeds exp req s₁ s₂ h]
  cases Rdm.decide exp req s₂ with
  | error e => exact Or.inr ⟨e, rfl, rfl⟩
  | ok resp => exact Or.inl ⟨resp, rfl, rfl⟩

/-- the seeds a request names -/
theorem named_seeds_spelled_out (req : Request α) :
    req.seeds = req.biasSeed :: (req.biases.flatMap fun b => b.props.seeds) ++
      (match req.mp with
       | some mp => mp.seed.toList
       | none => []) := rfl

/-- **after any other requests**: in the model of the service handling a batch one request after the other,
    the answer to a request is the answer it gets alone, whatever was handled before and after it -/
theorem response_does_not_depend_on_the_history (exp : α → α) (seeds : Seeds α)
    (before after : List (Nat × Request α)) (t : Nat) (req : Request α) :
    e2esHandleAll exp seeds (before ++ (t, req) :: after) =
      e2esHandleAll exp seeds before ++ (t, Rdm.decide exp req seeds) :: e2esHandleAll exp seeds after ∧
    e2esHandleAll exp seeds [(t, req)] = [(t, Rdm.decide exp req seeds)] := by
  refine ⟨?_, rfl⟩
  rw [e2es_handleAll_append]
  rfl

/-- **the same request again**: two submissions of the same request in one batch (anywhere) get the same answer -/
theorem same_request_again_same_response (exp : α → α) (seeds : Seeds α) (batch : List (Nat × Request α))
    (t₁ t₂ : Nat) (req : Request α) (r₁ r₂ : R (Response α))
    (h₁ : (t₁, r₁) ∈ e2esHandleAll exp seeds batch) (h₂ : (t₂, r₂) ∈ e2esHandleAll exp seeds batch)
    (hu₁ : ∀ q, (t₁, q) ∈ batch → q = req) (hu₂ : ∀ q, (t₂, q) ∈ batch → q = req) : r₁ = r₂ := by
  obtain ⟨q₁, hq₁, rfl⟩ := (e2es_handleAll_mem _ _ _ _ _).mp h₁
  obtain ⟨q₂, hq₂, rfl⟩ := (e2es_handleAll_mem _ _ _ _ _).mp h₂
  rw [hu₁ q₁ hq₁, hu₂ q₂ hq₂]

/-- the hypotheses are satisfiable: the example request names the seeds 5 (activation), 3 (fatigue), 7
    (reversal); a table with other entries and other streams elsewhere gives the same answer -/
example : e2eExWs.seeds = [5, 3, 7] := by decide +kernel
example : ∃ resp, Rdm.decide id e2eExWs e2eExSeeds = .ok resp ∧
    Rdm.decide id e2eExWs ((99, [1 / 3]) :: e2eExSeeds ++ [(5, []), (100, [1])]) = .ok resp := by
  obtain ⟨resp, h⟩ := e2e_ok_of_isOk (x := Rdm.decide id e2eExWs e2eExSeeds) (by decide +kernel)
  rcases same_named_streams_same_verdict_and_response id e2eExWs e2eExSeeds
      ((99, [1 / 3]) :: e2eExSeeds ++ [(5, []), (100, [1])]) (by decide +kernel) with
    ⟨r, h1, h2⟩ | ⟨e, h1, _⟩
  · rw [h] at h1; cases h1; exact ⟨resp, h, h2⟩
  · rw [h] at h1; cases h1
example : Rdm.decide id e2eExWs e2eExSeeds = Rdm.decide id e2eExWs (e2esRestrict e2eExSeeds [5, 3, 7]) :=
  decide_is_a_function_of_request_and_named_seeds id e2eExWs e2eExSeeds

end EndToEnd

end Rdm.Props.C02
