/- C01 — property theorems (stub; filled in by the owning work package). -/
import Rdm.Basic
namespace Rdm.Props.C01
end Rdm.Props.C01
