/-
  C01 — every decision is a complete, well-formed ranking.
-/
import Rdm.Model.Links
import Rdm.Model.Ranking
import Rdm.Spec.C01
namespace Rdm.Props.C01
open Rdm

/-- the utility ranking has exactly the input's ids (as a multiset), for every number type -/
theorem ranking_ids_perm {α : Type} [Num α] (l : List (Scored α)) :
    ((ranking l).map (·.id)).Perm (l.map (·.id)) := by
  unfold ranking
  simp only [List.map_map]
  have h := List.mergeSort_perm (l.map fun s => ({ s with v := round8 s.v } : Scored α)) rankLe
  have h2 := h.map (fun s : Scored α => s.id)
  simpa [Function.comp_def] using h2

end Rdm.Props.C01
