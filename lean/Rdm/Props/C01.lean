/-
  C01 — every decision is a complete, well-formed ranking.
  One group of theorems per link constructor (`ranking`, `sequentialRanking`, `majorityRanking`,
  `evaluateRanking`), each over arbitrary inputs of that constructor: the ids of the result are the
  expected ids, every link names a ranked alternative, no entry links to itself, no link is repeated —
  stated through the executable checker `Spec.C01.check` that the driver evaluates on Go's output.
  All theorems are generic in the payload / number type; no arithmetic is used.
  Helper lemmas: `Rdm/Lemmas/{LinksSpec,RankingBasic,RankingWellformed,LinksConstructors}.lean`.
-/
import Rdm.Model.Links
import Rdm.Model.Ranking
import Rdm.Spec.C01
import Rdm.Lemmas.LinksSpec
import Rdm.Lemmas.LinksSpecIff
import Rdm.Lemmas.RankingBasic
import Rdm.Lemmas.RankingWellformed
import Rdm.Lemmas.LinksConstructors
import Rdm.Lemmas.NumRat
namespace Rdm.Props.C01
open Rdm

/-! ### the checker -/

/-- `Spec.C01.check` (evaluated by the driver on Go's output) accepts exactly the rankings the property
    describes: one entry per expected alternative and no other, every link names a ranked alternative,
    no self-link, no repeated link -/
theorem check_iff_wellformed (expected : List String) (out : List (String × List String)) :
    Spec.C01.check expected out = true ↔
      (out.map (·.1)).Perm expected ∧ (out.map (·.1)).Nodup ∧
      ∀ e ∈ out, (∀ x ∈ e.2, x ∈ out.map (·.1)) ∧ e.1 ∉ e.2 ∧ e.2.Nodup :=
  Spec.C01.check_iff expected out

/-! ### utility ranking (`AlternativeResults.Ranking`) -/

/-- the utility ranking has exactly the input's ids (as a multiset), for every number type -/
theorem ranking_ids_perm {α : Type} [Num α] (l : List (Scored α)) :
    ((ranking l).map (·.id)).Perm (l.map (·.id)) := by
  rw [ranking_eq, entriesOf_ids]
  exact sorted_ids_perm l

/-- the three link clauses for the utility ranking, for every number type whose `<` is irreflexive
    (true of `Float` — `x < x` is false also for NaN — and of `Rat`): with distinct input ids every link
    names an entry of the result, no entry links to itself, no link occurs twice -/
theorem ranking_links_wellformed {α : Type} [Num α] (hirr : ∀ x : α, ¬ x < x) (l : List (Scored α))
    (hnd : (l.map (·.id)).Nodup) :
    ∀ e ∈ ranking l, (∀ x ∈ e.links, x ∈ (ranking l).map (·.id)) ∧ e.id ∉ e.links ∧ e.links.Nodup := by
  rw [ranking_eq]
  exact entriesOf_wellformed hirr _ ((sorted_ids_perm l).nodup_iff.mpr hnd)

/-- C01 for the utility methods: the checker accepts `ranking l` against the input ids -/
theorem ranking_wellformed {α : Type} [Num α] (hirr : ∀ x : α, ¬ x < x) (l : List (Scored α))
    (hnd : (l.map (·.id)).Nodup) :
    Spec.C01.check (l.map (·.id)) ((ranking l).map fun e => (e.id, e.links)) = true := by
  have hids : ((ranking l).map fun e => (e.id, e.links)).map (·.1) = (ranking l).map (·.id) := by
    simp [Function.comp_def]
  apply Spec.C01.check_of_wellformed
  · rw [hids]; exact ranking_ids_perm l
  · rw [hids]; exact (ranking_ids_perm l).nodup_iff.mpr hnd
  · intro e he
    obtain ⟨r, hr, rfl⟩ := List.mem_map.mp he
    rw [hids]
    exact ranking_links_wellformed hirr l hnd r hr

/-- … in particular over the rationals, without side condition on the number type -/
theorem ranking_wellformed_rat (l : List (Scored Rat)) (hnd : (l.map (·.id)).Nodup) :
    Spec.C01.check (l.map (·.id)) ((ranking l).map fun e => (e.id, e.links)) = true :=
  ranking_wellformed (fun _ => Rat.lt_irrefl) l hnd

example : Spec.C01.check ["a", "b", "c", "d"]
    ((ranking [⟨"a", (1 : Rat)⟩, ⟨"b", 2⟩, ⟨"c", 1⟩, ⟨"d", 0⟩]).map fun e => (e.id, e.links)) = true :=
  ranking_wellformed_rat _ (by decide)

/-! ### sequential ranking (`PrepareSequentialRanking`: aspect elimination, satisfaction) -/

/-- ids (and payloads) are preserved in order -/
theorem sequential_ids {β : Type} (l : List (String × β)) :
    (sequentialRanking l).map (·.id) = l.map (·.1) ∧ (sequentialRanking l).map (·.ev) = l.map (·.2) :=
  ⟨sequentialRanking_ids l, sequentialRanking_evs l⟩

/-- entry `i` links exactly to entry `i+1` (the last entry links to nothing) -/
theorem sequential_links {β : Type} (l : List (String × β)) (i : Nat) (h : i < (sequentialRanking l).length) :
    ((sequentialRanking l)[i]).links = ((l.map (·.1)).drop (i + 1)).take 1 :=
  sequentialRanking_links l i h

/-- C01 for the two threshold heuristics: with distinct ids the checker accepts the chain -/
theorem sequential_wellformed {β : Type} (l : List (String × β)) (hnd : (l.map (·.1)).Nodup) :
    Spec.C01.check (l.map (·.1)) ((sequentialRanking l).map fun e => (e.id, e.links)) = true := by
  have hids : ((sequentialRanking l).map fun e => (e.id, e.links)).map (·.1) = l.map (·.1) := by
    rw [← sequentialRanking_ids l]; simp [Function.comp_def]
  apply Spec.C01.check_of_wellformed
  · rw [hids]
  · rw [hids]; exact hnd
  · intro e he
    obtain ⟨r, hr, rfl⟩ := List.mem_map.mp he
    rw [hids]
    exact sequentialRanking_wellformed l hnd r hr

example : Spec.C01.check ["x", "y", "z"]
    ((sequentialRanking [("x", 1), ("y", 2), ("z", 3)]).map fun e => (e.id, e.links)) = true :=
  sequential_wellformed _ (by decide)

/-! ### majority heuristic (`prepareRanking`) -/

/-- ids: the drop-out groups flattened, in reverse (the last group dropped is the best) -/
theorem majority_ids {β : Type} (gs : List (List (String × β))) :
    (majorityRanking gs).map (·.id) = (gs.flatten.map (·.1)).reverse :=
  majorityRanking_ids gs

/-- links: the ranking is the reversal of the per-group blocks, group `k` being built against the ids of
    group `k-1` (nothing for the first), and inside a block built against `worse` entry `i` links to
    `worse ++ (its peers = the group's ids without position i)` -/
theorem majority_links {β : Type} (gs : List (List (String × β))) :
    majorityRanking gs
      = ((List.zipWith groupEntries ([] :: gs.map (·.map (·.1))) gs).flatten).reverse ∧
    ∀ (worse : List String) (g : List (String × β)) (i : Nat) (h : i < (groupEntries worse g).length),
      (groupEntries worse g)[i] =
        ⟨(g[i]'(by simpa [groupEntries] using h)).1, (g[i]'(by simpa [groupEntries] using h)).2,
          worse ++ (g.map (·.1)).eraseIdx i⟩ :=
  ⟨by rw [majorityRanking, majorityEntries_eq], groupEntries_getElem⟩

/-- C01 for the majority heuristic: when every alternative is recorded in exactly one group, the checker
    accepts the ranking (any tie-group shape, including a 3-way group followed by a 2-way group) -/
theorem majority_wellformed {β : Type} (gs : List (List (String × β))) (hnd : (gs.flatten.map (·.1)).Nodup) :
    Spec.C01.check (gs.flatten.map (·.1)) ((majorityRanking gs).map fun e => (e.id, e.links)) = true := by
  have hids : ((majorityRanking gs).map fun e => (e.id, e.links)).map (·.1) = (majorityRanking gs).map (·.id) := by
    simp [Function.comp_def]
  apply Spec.C01.check_of_wellformed
  · rw [hids, majorityRanking_ids]; exact List.reverse_perm _
  · rw [hids, majorityRanking_ids]; exact (List.reverse_perm _).nodup_iff.mpr hnd
  · intro e he
    obtain ⟨r, hr, rfl⟩ := List.mem_map.mp he
    rw [hids]
    exact majorityRanking_wellformed gs hnd r hr

example : Spec.C01.check ["a", "b", "c", "d", "e"]
    ((majorityRanking [[("a", 0), ("b", 0), ("c", 0)], [("d", 1), ("e", 1)]]).map fun e => (e.id, e.links)) = true :=
  majority_wellformed _ (by decide)

/-! ### ELECTRE III (`EvaluateRanking`) -/

/-- ids are preserved in order when the three lists have equal length -/
theorem electre_ids (asc desc : List Int) (ids : List String)
    (ha : asc.length = ids.length) (hd : desc.length = ids.length) :
    (evaluateRanking asc desc ids).map (·.id) = ids :=
  evaluateRanking_ids asc desc ids ha hd

/-- for distinct ids: `b` is linked from `a` iff `b ≠ a` and `a` is not behind `b` in either distillation -/
theorem electre_links (asc desc : List Int) (ids : List String)
    (ha : asc.length = ids.length) (hd : desc.length = ids.length) (hnd : ids.Nodup)
    (i j : Nat) (hi : i < ids.length) (hj : j < ids.length) :
    ids[j] ∈ ((evaluateRanking asc desc ids)[i]'(by rw [evaluateRanking_length _ _ _ ha hd]; exact hi)).links ↔
      j ≠ i ∧ asc[i] ≤ asc[j] ∧ desc[i] ≤ desc[j] :=
  evaluateRanking_mem_links_nodup asc desc ids ha hd hnd i j hi hj

/-- C01 for ELECTRE III: with distinct ids and index vectors of the right length the checker accepts -/
theorem electre_wellformed (asc desc : List Int) (ids : List String)
    (ha : asc.length = ids.length) (hd : desc.length = ids.length) (hnd : ids.Nodup) :
    Spec.C01.check ids ((evaluateRanking asc desc ids).map fun e => (e.id, e.links)) = true := by
  have hids : ((evaluateRanking asc desc ids).map fun e => (e.id, e.links)).map (·.1) = ids := by
    simpa [Function.comp_def] using evaluateRanking_ids asc desc ids ha hd
  apply Spec.C01.check_of_wellformed
  · rw [hids]
  · rw [hids]; exact hnd
  · intro e he
    obtain ⟨r, hr, rfl⟩ := List.mem_map.mp he
    rw [hids]
    exact evaluateRanking_wellformed asc desc ids ha hd hnd r hr

example : Spec.C01.check ["a", "b", "c"]
    ((evaluateRanking [0, 1, 1] [1, 0, 1] ["a", "b", "c"]).map fun e => (e.id, e.links)) = true :=
  electre_wellformed _ _ _ rfl rfl (by decide)

end Rdm.Props.C01
