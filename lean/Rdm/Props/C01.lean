/-
  C01 — every decision is a complete, well-formed ranking.
  One group of theorems per link constructor (`ranking`, `sequentialRanking`, `majorityRanking`,
  `evaluateRanking`), each over arbitrary inputs of that constructor: the ids of the result are the
  expected ids, every link names a ranked alternative, no entry links to itself, no link is repeated —
  stated through the executable checker `Spec.C01.check` that the driver evaluates on Go's output.
  All theorems are generic in the payload / number type; no arithmetic is used.
  Helper lemmas: `Rdm/Lemmas/{LinksSpec,RankingBasic,RankingWellformed,LinksConstructors}.lean`.
-/
import Rdm.Model.Links
import Rdm.Model.Ranking
import Rdm.Spec.C01
import Rdm.Lemmas.LinksSpec
import Rdm.Lemmas.LinksSpecIff
import Rdm.Lemmas.RankingBasic
import Rdm.Lemmas.RankingWellformed
import Rdm.Lemmas.LinksConstructors
import Rdm.Lemmas.NumRat
import Rdm.Lemmas.E2EDecide
import Rdm.Lemmas.E2EWellformed
import Rdm.Lemmas.E2EExamples
namespace Rdm.Props.C01
open Rdm

/-! ### the checker -/

/-- `Spec.C01.check` (evaluated by the driver on Go's output) accepts exactly the rankings the property
    describes: one entry per expected alternative and no other, every link names a ranked alternative,
    no self-link, no repeated link -/
theorem check_iff_wellformed (expected : List String) (out : List (String × List String)) :
    Spec.C01.check expected out = true ↔
      (out.map (·.1)).Perm expected ∧ (out.map (·.1)).Nodup ∧
      ∀ e ∈ out, (∀ x ∈ e.2, x ∈ out.map (·.1)) ∧ e.1 ∉ e.2 ∧ e.2.Nodup :=
  Spec.C01.check_iff expected out

/-! ### utility ranking (`AlternativeResults.Ranking`) -/

/-- the utility ranking has exactly the input's ids (as a multiset), for every number type -/
theorem ranking_ids_perm {α : Type} [Num α] (l : List (Scored α)) :
    ((ranking l).map (·.id)).Perm (l.map (·.id)) := by
  rw [ranking_eq, entriesOf_ids]
  exact sorted_ids_perm l

/-- the three link clauses for the utility ranking, for every number type whose `<` is irreflexive
    (true of `Float` — `x < x` is false also for NaN — and of `Rat`): with distinct input ids every link
    names an entry of the result, no entry links to itself, no link occurs twice -/
theorem ranking_links_wellformed {α : Type} [Num α] (hirr : ∀ x : α, ¬ x < x) (l : List (Scored α))
    (hnd : (l.map (·.id)).Nodup) :
    ∀ e ∈ ranking l, (∀ x ∈ e.links, x ∈ (ranking l).map (·.id)) ∧ e.id ∉ e.links ∧ e.links.Nodup := by
  rw [ranking_eq]
  exact entriesOf_wellformed hirr _ ((sorted_ids_perm l).nodup_iff.mpr hnd)

/-- C01 for the utility methods: the checker accepts `ranking l` against the input ids -/
theorem ranking_wellformed {α : Type} [Num α] (hirr : ∀ x : α, ¬ x < x) (l : List (Scored α))
    (hnd : (l.map (·.id)).Nodup) :
    Spec.C01.check (l.map (·.id)) ((ranking l).map fun e => (e.id, e.links)) = true := by
  have hids : ((ranking l).map fun e => (e.id, e.links)).map (·.1) = (ranking l).map (·.id) := by
    simp [Function.comp_def]
  apply Spec.C01.check_of_wellformed
  · rw [hids]; exact ranking_ids_perm l
  · rw [hids]; exact (ranking_ids_perm l).nodup_iff.mpr hnd
  · intro e he
    obtain ⟨r, hr, rfl⟩ := List.mem_map.mp he
    rw [hids]
    exact ranking_links_wellformed hirr l hnd r hr

/-- … in particular over the rationals, without side condition on the number type -/
theorem ranking_wellformed_rat (l : List (Scored Rat)) (hnd : (l.map (·.id)).Nodup) :
    Spec.C01.check (l.map (·.id)) ((ranking l).map fun e => (e.id, e.links)) = true :=
  ranking_wellformed (fun _ => Rat.lt_irrefl) l hnd

example : Spec.C01.check ["a", "b", "c", "d"]
    ((ranking [⟨"a", (1 : Rat)⟩, ⟨"b", 2⟩, ⟨"c", 1⟩, ⟨"d", 0⟩]).map fun e => (e.id, e.links)) = true :=
  ranking_wellformed_rat _ (by decide)

/-! ### sequential ranking (`PrepareSequentialRanking`: aspect elimination, satisfaction) -/

/-- ids (and payloads) are preserved in order -/
theorem sequential_ids {β : Type} (l : List (String × β)) :
    (sequentialRanking l).map (·.id) = l.map (·.1) ∧ (sequentialRanking l).map (·.ev) = l.map (·.2) :=
  ⟨sequentialRanking_ids l, sequentialRanking_evs l⟩

/-- entry `i` links exactly to entry `i+1` (the last entry links to nothing) -/
theorem sequential_links {β : Type} (l : List (String × β)) (i : Nat) (h : i < (sequentialRanking l).length) :
    ((sequentialRanking l)[i]).links = ((l.map (·.1)).drop (i + 1)).take 1 :=
  sequentialRanking_links l i h

/-- C01 for the two threshold heuristics: with distinct ids the checker accepts the chain -/
theorem sequential_wellformed {β : Type} (l : List (String × β)) (hnd : (l.map (·.1)).Nodup) :
    Spec.C01.check (l.map (·.1)) ((sequentialRanking l).map fun e => (e.id, e.links)) = true := by
  have hids : ((sequentialRanking l).map fun e => (e.id, e.links)).map (·.1) = l.map (·.1) := by
    rw [← sequentialRanking_ids l]; simp [Function.comp_def]
  apply Spec.C01.check_of_wellformed
  · rw [hids]
  · rw [hids]; exact hnd
  · intro e he
    obtain ⟨r, hr, rfl⟩ := List.mem_map.mp he
    rw [hids]
    exact sequentialRanking_wellformed l hnd r hr

example : Spec.C01.check ["x", "y", "z"]
    ((sequentialRanking [("x", 1), ("y", 2), ("z", 3)]).map fun e => (e.id, e.links)) = true :=
  sequential_wellformed _ (by decide)

/-! ### majority heuristic (`prepareRanking`) -/

/-- ids: the drop-out groups flattened, in reverse (the last group dropped is the best) -/
theorem majority_ids {β : Type} (gs : List (List (String × β))) :
    (majorityRanking gs).map (·.id) = (gs.flatten.map (·.1)).reverse :=
  majorityRanking_ids gs

/-- links: the ranking is the reversal of the per-group blocks, group `k` being built against the ids of
    group `k-1` (nothing for the first), and inside a block built against `worse` entry `i` links to
    `worse ++ (its peers = the group's ids without position i)` -/
theorem majority_links {β : Type} (gs : List (List (String × β))) :
    majorityRanking gs
      = ((List.zipWith groupEntries ([] :: gs.map (·.map (·.1))) gs).flatten).reverse ∧
    ∀ (worse : List String) (g : List (String × β)) (i : Nat) (h : i < (groupEntries worse g).length),
      (groupEntries worse g)[i] =
        ⟨(g[i]'(by simpa [groupEntries] using h)).1, (g[i]'(by simpa [groupEntries] using h)).2,
          worse ++ (g.map (·.1)).eraseIdx i⟩ :=
  ⟨by rw [majorityRanking, majorityEntries_eq], groupEntries_getElem⟩

/-- C01 for the majority heuristic: when every alternative is recorded in exactly one group, the checker
    accepts the ranking (any tie-group shape, including a 3-way group followed by a 2-way group) -/
theorem majority_wellformed {β : Type} (gs : List (List (String × β))) (hnd : (gs.flatten.map (·.1)).Nodup) :
    Spec.C01.check (gs.flatten.map (·.1)) ((majorityRanking gs).map fun e => (e.id, e.links)) = true := by
  have hids : ((majorityRanking gs).map fun e => (e.id, e.links)).map (·.1) = (majorityRanking gs).map (·.id) := by
    simp [Function.comp_def]
  apply Spec.C01.check_of_wellformed
  · rw [hids, majorityRanking_ids]; exact List.reverse_perm _
  · rw [hids, majorityRanking_ids]; exact (List.reverse_perm _).nodup_iff.mpr hnd
  · intro e he
    obtain ⟨r, hr, rfl⟩ := List.mem_map.mp he
    rw [hids]
    exact majorityRanking_wellformed gs hnd r hr

example : Spec.C01.check ["a", "b", "c", "d", "e"]
    ((majorityRanking [[("a", 0), ("b", 0), ("c", 0)], [("d", 1), ("e", 1)]]).map fun e => (e.id, e.links)) = true :=
  majority_wellformed _ (by decide)

/-! ### ELECTRE III (`EvaluateRanking`) -/

/-- ids are preserved in order when the three lists have equal length -/
theorem electre_ids (asc desc : List Int) (ids : List String)
    (ha : asc.length = ids.length) (hd : desc.length = ids.length) :
    (evaluateRanking asc desc ids).map (·.id) = ids :=
  evaluateRanking_ids asc desc ids ha hd

/-- for distinct ids: `b` is linked from `a` iff `b ≠ a` and `a` is not behind `b` in either distillation -/
theorem electre_links (asc desc : List Int) (ids : List String)
    (ha : asc.length = ids.length) (hd : desc.length = ids.length) (hnd : ids.Nodup)
    (i j : Nat) (hi : i < ids.length) (hj : j < ids.length) :
    ids[j] ∈ ((evaluateRanking asc desc ids)[i]'(by rw [evaluateRanking_length _ _ _ ha hd]; exact hi)).links ↔
      j ≠ i ∧ asc[i] ≤ asc[j] ∧ desc[i] ≤ desc[j] :=
  evaluateRanking_mem_links_nodup asc desc ids ha hd hnd i j hi hj

/-- C01 for ELECTRE III: with distinct ids and index vectors of the right length the checker accepts -/
theorem electre_wellformed (asc desc : List Int) (ids : List String)
    (ha : asc.length = ids.length) (hd : desc.length = ids.length) (hnd : ids.Nodup) :
    Spec.C01.check ids ((evaluateRanking asc desc ids).map fun e => (e.id, e.links)) = true := by
  have hids : ((evaluateRanking asc desc ids).map fun e => (e.id, e.links)).map (·.1) = ids := by
    simpa [Function.comp_def] using evaluateRanking_ids asc desc ids ha hd
  apply Spec.C01.check_of_wellformed
  · rw [hids]
  · rw [hids]; exact hnd
  · intro e he
    obtain ⟨r, hr, rfl⟩ := List.mem_map.mp he
    rw [hids]
    exact evaluateRanking_wellformed asc desc ids ha hd hnd r hr

example : Spec.C01.check ["a", "b", "c"]
    ((evaluateRanking [0, 1, 1] [1, 0, 1] ["a", "b", "c"]).map fun e => (e.id, e.links)) = true :=
  electre_wellformed _ _ _ rfl rfl (by decide)

/-! ## END TO END: the whole `MakeDecision` (model `decideWith` / `Rdm.decide` of Model/Decide.lean)

The theorems above are per link constructor.  The ones below lift them to the whole request: validation,
`prepareParams`, `ChooseBiases`, any sequence of the six biases with any stream function, then `Evaluate` of
any of the seven methods.  Helper lemmas: `Rdm/Lemmas/E2EDecide.lean` (inversion of `decideWith`, the frame
of `pipeline`: considered ids = `choseToMake`, the method and its current choice are never changed by a
bias) and `Rdm/Lemmas/E2EWellformed.lean` (one lemma per method on top of the lemmas behind C05, C11–C13).

**Domain.**  `req.chosen.Nodup`: `choseToMake` names pairwise different alternatives.  The service does NOT
reject a `choseToMake` with a repeated id (`validateRequest` only checks that every id is known), and with a
repeated id the result has two entries for it — so distinctness is the domain of the property (its quantifier
text: "choseToMake listing ≥ 1 distinct known alternatives"), not something an accepted request guarantees.
Nothing is assumed about `knownAlternatives` (ids there may repeat: the first match is fetched).

**What has to be ranked** (`e2eExpected req.chosen cur`): `choseToMake`, plus the heuristic's `currentChoice`
when one is given and it is not in `choseToMake` (majority, satisfaction: `GetAlternativesSearchOrder` looks
it up among ALL known alternatives and puts it first) — exactly the `expected` list of `Spec.C01.check`.

**No hypothesis on `aspOrder`** is needed: aspect elimination ranks every considered alternative exactly once
whatever the examination order of the criteria is (it does not even have to be a permutation). -/

/-- **C01, end to end, every number type with an irreflexive `<`** (`Float` — also for NaN — and `Rat`; only
    `positionInRanking` of the three utility methods needs it): if the model of `MakeDecision` answers, for
    whatever request, bias list, stream function `g`, exponential and aspect-elimination tie order, and
    `choseToMake` lists distinct alternatives, then the checker the driver runs on Go's output accepts the
    response: every alternative the decision maker had to choose from appears exactly once and no other, links
    only name such alternatives, no self link, no duplicate link. -/
theorem decideWith_wellformed {α : Type} [Num α] (hirr : ∀ x : α, ¬ x < x) (exp : α → α)
    (aspOrder : List (WCrit α) → List (WCrit α)) (req : Request α) (g : Int → Draws α) (resp : Response α)
    (h : decideWith exp aspOrder req g = .ok resp) (hnd : req.chosen.Nodup) :
    ∃ mp, req.mp = some mp ∧
      Spec.C01.check (e2eExpected req.chosen (e2eCur mp)) (resp.result.map fun e => (e.id, e.links)) = true := by
  obtain ⟨mp, hmp, hwf⟩ := e2e_decideWith_wellformed hirr h hnd
  exact ⟨mp, hmp, hwf.check (e2eExpected_nodup _ _ hnd)⟩

/-- … the same spelled out with `List` notions (through `check_iff_wellformed`) -/
theorem decideWith_wellformed_spelled_out {α : Type} [Num α] (hirr : ∀ x : α, ¬ x < x) (exp : α → α)
    (aspOrder : List (WCrit α) → List (WCrit α)) (req : Request α) (g : Int → Draws α) (resp : Response α)
    (h : decideWith exp aspOrder req g = .ok resp) (hnd : req.chosen.Nodup) :
    ∃ mp, req.mp = some mp ∧
      (resp.result.map (·.id)).Perm (e2eExpected req.chosen (e2eCur mp)) ∧ (resp.result.map (·.id)).Nodup ∧
      ∀ e ∈ resp.result, (∀ x ∈ e.links, x ∈ resp.result.map (·.id)) ∧ e.id ∉ e.links ∧ e.links.Nodup := by
  obtain ⟨mp, hmp, hwf⟩ := e2e_decideWith_wellformed hirr h hnd
  exact ⟨mp, hmp, hwf.1, hwf.1.nodup_iff.mpr (e2eExpected_nodup _ _ hnd), hwf.2⟩

/-- **C01 for `Rdm.decide` over the rationals** (`MakeDecision` with the registered generators read from a seed
    table and the descending-weight examination order): no side condition besides the domain -/
theorem decide_wellformed (exp : Rat → Rat) (req : Request Rat) (seeds : Seeds Rat) (resp : Response Rat)
    (h : Rdm.decide exp req seeds = .ok resp) (hnd : req.chosen.Nodup) :
    ∃ mp, req.mp = some mp ∧
      Spec.C01.check (e2eExpected req.chosen (e2eCur mp)) (resp.result.map fun e => (e.id, e.links)) = true :=
  decideWith_wellformed (fun _ => Rat.lt_irrefl) exp _ req _ resp h hnd

/-- what has to be ranked is `choseToMake` itself for the five methods without a current choice (the three
    utility methods, electreIII, aspect elimination), when none is given, and when it is one of `choseToMake` -/
theorem expected_is_choseToMake {α : Type} (chosen : List String) (mp : MParams α) :
    ((∀ w cur s r d, mp ≠ .majority w cur s r d) ∧ (∀ f l s cur r, mp ≠ .satisf f l s cur r) →
      e2eExpected chosen (e2eCur mp) = chosen) ∧
    (e2eCur mp = "" → e2eExpected chosen (e2eCur mp) = chosen) ∧
    (e2eCur mp ∈ chosen → e2eExpected chosen (e2eCur mp) = chosen) ∧
    (e2eCur mp ≠ "" → e2eCur mp ∉ chosen → e2eExpected chosen (e2eCur mp) = e2eCur mp :: chosen) := by
  refine ⟨?_, fun h => by rw [h]; rfl, e2eExpected_of_mem _ _, e2eExpected_of_not_mem _ _⟩
  rintro ⟨h1, h2⟩
  cases mp with
  | majority w cur s r d => exact absurd rfl (h1 w cur s r d)
  | satisf f l s cur r => exact absurd rfl (h2 f l s cur r)
  | _ => rfl

/-- **C01 in the form "`result` ranks exactly `choseToMake`"**: whenever the request's parameters carry no
    current choice outside `choseToMake` — always the case for weightedSum, owa, choquetIntegral, electreIII
    and aspect elimination -/
theorem decideWith_ranks_choseToMake {α : Type} [Num α] (hirr : ∀ x : α, ¬ x < x) (exp : α → α)
    (aspOrder : List (WCrit α) → List (WCrit α)) (req : Request α) (g : Int → Draws α) (resp : Response α)
    (h : decideWith exp aspOrder req g = .ok resp) (hnd : req.chosen.Nodup)
    (hcur : ∀ mp, req.mp = some mp → e2eCur mp = "" ∨ e2eCur mp ∈ req.chosen) :
    Spec.C01.check req.chosen (resp.result.map fun e => (e.id, e.links)) = true := by
  obtain ⟨mp, hmp, hc⟩ := decideWith_wellformed hirr exp aspOrder req g resp h hnd
  rcases hcur mp hmp with h0 | hm
  · rwa [((expected_is_choseToMake req.chosen mp).2.1 h0)] at hc
  · rwa [((expected_is_choseToMake req.chosen mp).2.2.1 hm)] at hc

/-- **frame of the whole decision (what the theorems above rest on)**: whatever biases ran, the state that
    reached `Evaluate` (`resp.final`) has the considered / not-considered split `prepareParams` built from the
    request — considered ids = `choseToMake`, not-considered ids = the known alternatives not named, both in
    order —, its parameters are those of the same method with the same current choice (`e2eTag`), and the
    response's `biases` lists exactly the enabled entries of the request, in request order, names echoed and
    probabilities with the default filled in — all of them registered biases (an unknown enabled name is
    rejected). -/
theorem decideWith_frame {α : Type} [Num α] (exp : α → α) (aspOrder : List (WCrit α) → List (WCrit α))
    (req : Request α) (g : Int → Draws α) (resp : Response α)
    (h : decideWith exp aspOrder req g = .ok resp) :
    ∃ mp params, req.mp = some mp ∧ prepareParams req mp = .ok params ∧
      resp.final.co.map (·.id) = params.co.map (·.id) ∧ resp.final.nc.map (·.id) = params.nc.map (·.id) ∧
      resp.final.co.map (·.id) = req.chosen ∧
      resp.final.nc.map (·.id) = (req.known.filter fun a => !req.chosen.contains a.id).map (·.id) ∧
      e2eTag resp.final.mp = e2eTag mp ∧
      resp.biases.map (fun o => (o.name, o.prob)) =
        (req.biases.filter (!·.disabled)).map
          (fun b => (b.name, b.prob.getD (Num.ofConst Facts.defaultApplyProbability))) ∧
      ∀ b ∈ req.biases, b.disabled = false → b.name ∈ availableBiases := by
  obtain ⟨hp, _⟩ := e2e_decideWith_ok h
  obtain ⟨mp, params, hmp, hpp, _, htag, hco, hnc, hb, hav⟩ := e2e_pipeline_frame hp
  obtain ⟨hpco, _, hpnc, _⟩ := e2e_prepareParams_ok hpp
  refine ⟨mp, params, hmp, hpp, by rw [hco, hpco], by rw [hnc, hpnc], hco, hnc, htag, hb, ?_⟩
  intro b hb' hd
  simpa using hav b hb' hd

/-- … and it knows exactly the alternatives of the request when their ids (and `choseToMake`) are distinct -/
theorem decideWith_keeps_known_alternatives {α : Type} [Num α] (exp : α → α)
    (aspOrder : List (WCrit α) → List (WCrit α)) (req : Request α) (g : Int → Draws α) (resp : Response α)
    (h : decideWith exp aspOrder req g = .ok resp) (hk : (req.known.map (·.id)).Nodup)
    (hnd : req.chosen.Nodup) : (resp.final.all.map (·.id)).Perm (req.known.map (·.id)) :=
  e2e_pipeline_all_ids (e2e_decideWith_ok h).1 hk hnd

/-- the hypotheses are satisfiable, utility method: a weighted-sum request over four known alternatives, three
    of them to choose from (two tied), with a fatigue that fires (it rewrites every value), a preference
    reversal that does not (probability 1/2, draw 3/4) and a disabled entry — the model answers and the checker
    accepts the answer against `choseToMake` -/
example : ∃ resp, Rdm.decide id e2eExWs e2eExSeeds = .ok resp ∧
    Spec.C01.check ["c", "a", "b"] (resp.result.map fun e => (e.id, e.links)) = true := by
  obtain ⟨resp, h⟩ := e2e_ok_of_isOk (x := Rdm.decide id e2eExWs e2eExSeeds) (by decide +kernel)
  exact ⟨resp, h, decideWith_ranks_choseToMake (fun _ => Rat.lt_irrefl) _ _ _ _ _ h (by decide)
    (fun mp hmp => by cases hmp; exact Or.inl rfl)⟩

/-- … and a heuristic whose current choice `"d"` is known but NOT in `choseToMake`: the majority heuristic
    (draws allowed, fatigue fired before) ranks four alternatives, `"d"` and the three of `choseToMake` -/
example : ∃ resp, Rdm.decide id e2eExMaj e2eExSeeds = .ok resp ∧
    Spec.C01.check ["d", "c", "a", "b"] (resp.result.map fun e => (e.id, e.links)) = true := by
  obtain ⟨resp, h⟩ := e2e_ok_of_isOk (x := Rdm.decide id e2eExMaj e2eExSeeds) (by decide +kernel)
  obtain ⟨mp, hmp, hc⟩ := decide_wellformed _ _ _ _ h (by decide)
  cases hmp
  exact ⟨resp, h, hc⟩

/-- the frame on the same request: the response lists the fatigue and the reversal (not the disabled entry),
    probabilities 1 (default) and 1/2 -/
example : ∃ resp, Rdm.decide id e2eExWs e2eExSeeds = .ok resp ∧
    resp.final.co.map (·.id) = ["c", "a", "b"] ∧ resp.final.nc.map (·.id) = ["d"] ∧
    resp.biases.map (fun o => (o.name, o.prob)) = [(Facts.biasFatigue, 1), (Facts.biasReversal, 1 / 2)] := by
  obtain ⟨resp, h⟩ := e2e_ok_of_isOk (x := Rdm.decide id e2eExWs e2eExSeeds) (by decide +kernel)
  obtain ⟨mp, params, _, _, _, _, hco, hnc, _, hb, _⟩ := decideWith_frame _ _ _ _ _ h
  refine ⟨resp, h, hco, ?_, ?_⟩
  · rw [hnc]; decide
  · rw [hb]; decide +kernel

end Rdm.Props.C01
