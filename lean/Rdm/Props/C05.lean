/- C05 — property theorems (stub; filled in by the owning work package). -/
import Rdm.Basic
namespace Rdm.Props.C05
end Rdm.Props.C05
