/-
  C05 — ELECTRE III indices follow the method's definition.  Property theorems only; helper lemmas are in
  Rdm/Lemmas/Electre*.lean.  Arithmetic statements are over `Rat` (the model is generic in the number type;
  the `Float` instance is the one tied bit-for-bit to the Go code), structural ones are generic.

  Guard used throughout (`Spec.C05.critInDomain`, the decidable form of the property's quantifier text):
  constant thresholds with `0 ≤ q < p < v`, each may be absent, veto only with a preference threshold, `k > 0`.
-/
import Rdm.Lemmas.ElectreCred
import Rdm.Lemmas.ElectreTermination
import Rdm.Lemmas.ElectreRefine
import Rdm.Lemmas.ElectreSliceFlat
import Mathlib.Tactic.NormNum
import Rdm.Lemmas.E2EMethods
import Rdm.Lemmas.E2EMethodsElectre
import Rdm.Lemmas.E2EMethodsExamples
namespace Rdm.Props.C05
open Rdm

/-! ### per-criterion concordance / discordance -/

/-- "an alternative that is not worse on a criterion is fully concordant on it": `C = 1`, `D = 0`
    (any number type, any thresholds) -/
theorem not_worse_fully_concordant {α : Type} [Num α] (c1 c2 mult : α) (t : ECrit α) (h : c2 ≤ c1) :
    (calcElectreResult c1 c2 mult t).c = Num.one ∧ (calcElectreResult c1 c2 mult t).d = Num.zero :=
  crit_not_worse c1 c2 mult t h

/-- under the threshold guard the per-criterion concordance and discordance are in [0,1] -/
theorem crit_in_unit_interval (c1 c2 mult : Rat) (t : ECrit Rat) (h : Spec.C05.critInDomain t = true) :
    (0 ≤ (calcElectreResult c1 c2 mult t).c ∧ (calcElectreResult c1 c2 mult t).c ≤ 1) ∧
    (0 ≤ (calcElectreResult c1 c2 mult t).d ∧ (calcElectreResult c1 c2 mult t).d ≤ 1) := by
  obtain ⟨r1, r2, r3, r4⟩ := crit_range c1 c2 mult t (critInDomain_guard t h).1
  exact ⟨⟨r1, r2⟩, ⟨r3, r4⟩⟩

/-- the per-criterion clause of the checker that the driver evaluates on Go's output holds for the model -/
theorem crit_spec_holds (c1 c2 mult : Rat) (t : ECrit Rat) (h : Spec.C05.critInDomain t = true) :
    Spec.C05.critOk c1 c2 (calcElectreResult c1 c2 mult t) = true :=
  critOk_calc c1 c2 mult t h

/-- closed form under the guard: `C` and `D` depend on the signed difference `g(b) − g(a)` only, through the
    textbook piecewise-linear functions (absent threshold = 0) -/
theorem crit_closed_form (c1 c2 mult : Rat) (t : ECrit Rat) (h : Spec.C05.critInDomain t = true) :
    (calcElectreResult c1 c2 mult t).c = cOfDiff t.q.b t.p.b (c2 - c1) ∧
    (calcElectreResult c1 c2 mult t).d = dOfDiff t.p.b t.v.b (c2 - c1) :=
  calc_closed_form c1 c2 mult t (critInDomain_guard t h).1

/-! ### weighted concordance and credibility -/

/-- total concordance is in [0,1] for positive weights (the divisor `Σk` is positive) -/
theorem totalC_in_unit_interval (rs : List (ESingle Rat)) (hne : rs ≠ []) (hk : ∀ r ∈ rs, 0 < r.k)
    (hc : ∀ r ∈ rs, 0 ≤ r.res.c ∧ r.res.c ≤ 1) :
    0 < weightSum rs ∧ 0 ≤ calculateTotalC rs ∧ calculateTotalC rs ≤ 1 :=
  ⟨weightSum_pos rs hne hk, totalC_range rs hne hk hc⟩

/-- credibility is in [0, C] ⊆ [0,1] (every divisor `1 − C` that is used is positive) -/
theorem credibility_in_unit_interval (C : Rat) (hC0 : 0 ≤ C) (hC1 : C ≤ 1) (rs : List (ESingle Rat))
    (hd : ∀ r ∈ rs, 0 ≤ r.res.d ∧ r.res.d ≤ 1) :
    0 ≤ calculateCredibility C rs ∧ calculateCredibility C rs ≤ C :=
  credibility_range C hC0 hC1 rs hd

/-- every entry of the credibility matrix is in [0,1] and the diagonal is 1 -/
theorem credibility_matrix_in_unit_interval (alts : List (Alt Rat)) (crits : List (Crit Rat)) (hne : crits ≠ [])
    (ec : KMap (ECrit Rat))
    (hg : ∀ c ∈ crits, ∀ t, ec.get? c.id = some t → Spec.C05.critInDomain t = true)
    (m : Matrix Rat) (h : credibilityMatrix alts crits ec = .ok m) :
    m.size = alts.length ∧
    ∀ i j, i < alts.length → j < alts.length → (0 ≤ m.at i j ∧ m.at i j ≤ 1) ∧ (i = j → m.at i j = 1) := by
  have hg' : GuardAll crits ec := fun c hc t ht => critInDomain_guard t (hg c hc t ht)
  refine ⟨credibilityMatrix_size alts crits ec m h, fun i j hi hj => ⟨credibilityMatrix_range alts crits hne ec hg' m h i j hi hj, ?_⟩⟩
  rintro rfl
  exact credibilityMatrix_diag alts crits ec m h i hi

/-! ### `betterThanOrSameAs` -/

/-- the links clause of the checker holds for `evaluateRanking` -/
theorem links_spec_holds (asc desc : List Int) (ids : List String)
    (ha : asc.length = ids.length) (hd : desc.length = ids.length) :
    Spec.C05.linksOk (evaluateRanking asc desc ids) = true :=
  linksOk_evaluateRanking asc desc ids ha hd

/-- entry i carries the two indices of alternative i, and lists b exactly when b is another alternative j
    with asc i ≤ asc j and desc i ≤ desc j -/
theorem links_characterisation (asc desc : List Int) (ids : List String)
    (ha : asc.length = ids.length) (hd : desc.length = ids.length) (i : Nat) (hi : i < ids.length) :
    ((evaluateRanking asc desc ids)[i]'(by rw [el_evaluateRanking_length _ _ _ ha hd]; exact hi)).id = ids[i] ∧
    ((evaluateRanking asc desc ids)[i]'(by rw [el_evaluateRanking_length _ _ _ ha hd]; exact hi)).ev = (asc[i], desc[i]) ∧
    ∀ b, b ∈ ((evaluateRanking asc desc ids)[i]'(by rw [el_evaluateRanking_length _ _ _ ha hd]; exact hi)).links ↔
      ∃ (j : Nat) (hj : j < ids.length), j ≠ i ∧ ids[j] = b ∧ asc[i] ≤ asc[j] ∧ desc[i] ≤ desc[j] :=
  el_evaluateRanking_getElem asc desc ids ha hd i hi

/-- with distinct ids nobody lists itself and no link is repeated -/
theorem links_wellformed (asc desc : List Int) (ids : List String)
    (ha : asc.length = ids.length) (hd : desc.length = ids.length) (hn : ids.Nodup) :
    ∀ e ∈ evaluateRanking asc desc ids, e.id ∉ e.links ∧ e.links.Nodup :=
  fun e he => ⟨evaluateRanking_never_self asc desc ids ha hd hn e he, evaluateRanking_links_nodup asc desc ids ha hd hn e he⟩

/-! ### matrix re-indexing -/

/-- `(sub M I)[i,j] = M[I i, I j]` -/
theorem sub_index_map {α : Type} [Num α] (m : Matrix α) (I : List Nat) (i j : Nat) (hi : i < I.length) (hj : j < I.length) :
    (m.sub I).at i j = m.at I[i] I[j] := sub_at m I i j hi hj

/-- `Slice`: `(slice M I)[i,j] = M[I' i, I' j]` with `I'` the ascending sort of `I` (proper sub-list case;
    `slice M I = M` when `|I| = size`) -/
theorem slice_index_map {α : Type} [Num α] (m : Matrix α) (idx : List Nat) (h : idx.length ≠ m.size) (i j : Nat)
    (hi : i < idx.length) (hj : j < idx.length) :
    (m.slice idx).size = idx.length ∧
    (m.slice idx).at i j = m.at ((Matrix.sortIdx idx)[i]'(by rw [sortIdx_length]; exact hi))
      ((Matrix.sortIdx idx)[j]'(by rw [sortIdx_length]; exact hj)) :=
  ⟨slice_size m idx, slice_at m idx h i j hi hj⟩

/-- `Without`: `(without M I)[i,j] = M[K i, K j]` with `K` the ascending list of the indices not in `I` -/
theorem without_index_map {α : Type} [Num α] (m : Matrix α) (idx : List Nat) (h : idx.length ≠ m.size) (i j : Nat)
    (hi : i < (m.keep idx).length) (hj : j < (m.keep idx).length) :
    (m.without idx).at i j = m.at (m.keep idx)[i] (m.keep idx)[j] := without_at m idx h i j hi hj

/-- the flat-array arithmetic of `Matrix.Slice` (row ranges appended, columns filtered by `i % Size`), modelled
    literally as `sliceFlat`, computes the index-map sub-matrix `slice` that `distillate` uses — for distinct
    in-range indices on a square matrix, any number type -/
theorem slice_flat_array_is_index_map {α : Type} [Num α] (m : Matrix α) (h : m.data.length = m.size * m.size)
    (idx : List Nat) (hn : idx.Nodup) (hr : ∀ i ∈ idx, i < m.size) : m.sliceFlat idx = m.slice idx :=
  sliceFlat_eq_slice m h idx hn hr

/-- likewise `Matrix.Without` (row ranges cut out from the back, columns filtered by `i % Size`), modelled
    literally as `withoutFlat`, computes the sub-matrix on the complement of the indices -/
theorem without_flat_array_is_index_map {α : Type} [Num α] (m : Matrix α) (h : m.data.length = m.size * m.size)
    (idx : List Nat) (hn : idx.Nodup) (hr : ∀ i ∈ idx, i < m.size) : m.withoutFlat idx = m.without idx :=
  withoutFlat_eq_without m h idx hn hr

/-! ### distillation -/

/-- `rank` (hence `RankAscending`) returns one class number per alternative -/
theorem rank_length {α : Type} [Num α] (m : Matrix α) (s : LinFun α) (cmp : Int → Int → Bool) (ps : List Int)
    (h : rank m s cmp = .ok ps) : ps.length = m.size := Rdm.rank_length m s cmp ps h

/-- `RankDescending` returns one class number per alternative -/
theorem rankDescending_length {α : Type} [Num α] (m : Matrix α) (s : LinFun α) (ps : List Int)
    (h : rankDescending m s = .ok ps) : ps.length = m.size := by
  unfold rankDescending at h
  simp only [bind, Except.bind] at h
  split at h
  · cases h
  · rename_i r hr
    split at h
    · cases h
    · simp only [pure, Except.pure, Except.ok.injEq] at h
      subst h
      simp [Rdm.rank_length m s _ r hr]

/-- the class numbers returned by `rank` are exactly `1, …, 1 + k`: numbering starts at 1, is consecutive, and
    every class is non-empty (any number type, any distillation function, whenever the model returns) -/
theorem rank_classes_consecutive {α : Type} [Num α] (m : Matrix α) (s : LinFun α) (cmp : Int → Int → Bool)
    (ps : List Int) (h : rank m s cmp = .ok ps) : ∃ k : Nat, ∀ x, x ∈ ps ↔ 1 ≤ x ∧ x ≤ 1 + k :=
  rank_classes m s cmp ps h

/-- … so the "consecutive from 1" clause of the checker holds for `RankAscending` -/
theorem ascending_consecutive_from_1 {α : Type} [Num α] (m : Matrix α) (s : LinFun α) (ps : List Int)
    (h : rankAscending m s = .ok ps) : Spec.C05.consecutiveFrom1 ps = true :=
  rankAscending_consecutive m s ps h

/-- … and, after the reversal of the numbering, for `RankDescending` -/
theorem descending_consecutive_from_1 {α : Type} [Num α] (m : Matrix α) (s : LinFun α) (ps : List Int)
    (h : rankDescending m s = .ok ps) : Spec.C05.consecutiveFrom1 ps = true :=
  rankDescending_consecutive m s ps h

/-- **termination / fuel sufficiency**: for every non-empty square matrix with entries in [0,1] and every
    in-domain distillation function (`s ≥ 0` on [0,1]; the slope is irrelevant here) the fuel `n² + n + 2`
    suffices and no other error occurs — `rank` returns a vector.  (For a function that is negative somewhere on
    [0,1] the Go code can recurse forever; such functions are rejected by `getDistillationFunc`.) -/
theorem rank_terminates (m : Matrix Rat) (s : LinFun Rat) (cmp : Int → Int → Bool)
    (hs : Spec.C05.distInDomain s = true) (hsz : m.size ≠ 0)
    (hlen : m.data.length = m.size * m.size) (hrng : ∀ x ∈ m.data, 0 ≤ x ∧ x ≤ 1) :
    ∃ ps, rank m s cmp = .ok ps :=
  rank_total m s cmp (distInDomain_nonneg s hs) hsz hlen hrng

/-- both distillations of an in-domain problem succeed, with one class number per alternative, consecutive from 1 -/
theorem distillations_total (m : Matrix Rat) (s : LinFun Rat)
    (hs : Spec.C05.distInDomain s = true) (hsz : m.size ≠ 0)
    (hlen : m.data.length = m.size * m.size) (hrng : ∀ x ∈ m.data, 0 ≤ x ∧ x ≤ 1) :
    ∃ asc desc, rankAscending m s = .ok asc ∧ rankDescending m s = .ok desc ∧
      asc.length = m.size ∧ desc.length = m.size ∧
      Spec.C05.consecutiveFrom1 asc = true ∧ Spec.C05.consecutiveFrom1 desc = true := by
  obtain ⟨asc, ha⟩ := rank_total m s cmpGreater (distInDomain_nonneg s hs) hsz hlen hrng
  obtain ⟨r, hr⟩ := rank_total m s cmpLower (distInDomain_nonneg s hs) hsz hlen hrng
  have hrl := Rdm.rank_length m s _ r hr
  have hd : ∃ desc, rankDescending m s = .ok desc := by
    unfold rankDescending
    simp only [hr, bind, Except.bind]
    cases r with
    | nil => simp at hrl; exact absurd hrl.symm hsz
    | cons v rest => exact ⟨_, rfl⟩
  obtain ⟨desc, hd⟩ := hd
  exact ⟨asc, desc, ha, hd, Rdm.rank_length m s _ asc ha, rankDescending_length m s desc hd,
    rankAscending_consecutive m s asc ha, rankDescending_consecutive m s desc hd⟩

/-! ### refinement to the declarative distillation -/

/-- **refinement**: the class numbers returned by `RankAscending` of the model are those of the declarative
    distillation of `Spec.C05` (index sets of original alternative numbers; cut level `max{σ < λ − s(λ)}`,
    outranking, qualification, best set, narrowing, class removal, numbering from 1).  The re-indexing of the
    code (`Slice`, `Without`, sequential write-back, flat `i / Size`, `i % Size` scans) is invisible.
    Holds for every square matrix and every distillation function, whenever the model returns. -/
theorem rank_ascending_refines_spec (m : Matrix Rat) (s : LinFun Rat) (hlen : m.data.length = m.size * m.size)
    (asc : List Int) (h : rankAscending m s = .ok asc) : Spec.C05.specAscending m s = some asc :=
  rankAscending_refines m s hlen asc h

/-- … and those of `RankDescending` are the classes of the min-qualification distillation with the numbering
    reversed -/
theorem rank_descending_refines_spec (m : Matrix Rat) (s : LinFun Rat) (hlen : m.data.length = m.size * m.size)
    (desc : List Int) (h : rankDescending m s = .ok desc) : Spec.C05.specDescending m s = some desc :=
  rankDescending_refines m s hlen desc h

/-- in-domain summary: for a non-empty square matrix with entries in [0,1] and an in-domain distillation
    function both distillations of the model succeed and equal the declarative ones -/
theorem distillations_equal_spec (m : Matrix Rat) (s : LinFun Rat)
    (hs : Spec.C05.distInDomain s = true) (hsz : m.size ≠ 0)
    (hlen : m.data.length = m.size * m.size) (hrng : ∀ x ∈ m.data, 0 ≤ x ∧ x ≤ 1) :
    ∃ asc desc, rankAscending m s = .ok asc ∧ rankDescending m s = .ok desc ∧
      Spec.C05.specAscending m s = some asc ∧ Spec.C05.specDescending m s = some desc := by
  obtain ⟨asc, desc, ha, hd, _⟩ := distillations_total m s hs hsz hlen hrng
  exact ⟨asc, desc, ha, hd, rankAscending_refines m s hlen asc ha, rankDescending_refines m s hlen desc hd⟩

/-- the default distillation function of the code (constants regenerated from distilation.go on every run)
    is in the domain: non-negative on [0,1] with non-positive slope -/
theorem default_distillation_in_domain : Spec.C05.distInDomain (defaultDistillation : LinFun Rat) = true := by
  simp [Spec.C05.distInDomain, defaultDistillation, Facts.defaultDistillationA, Facts.defaultDistillationB]
  norm_num

/-! ### the hypotheses are satisfiable -/

example : Spec.C05.critInDomain (⟨2, ⟨0, 1/2⟩, ⟨0, 1⟩, ⟨0, 3⟩⟩ : ECrit Rat) = true := by
  simp [Spec.C05.critInDomain]; norm_num
example : Spec.C05.critInDomain (⟨1, ⟨0, 0⟩, ⟨0, 0⟩, ⟨0, 0⟩⟩ : ECrit Rat) = true := by decide
example : Spec.C05.distInDomain (⟨0, 0⟩ : LinFun Rat) = true := by simp [Spec.C05.distInDomain]
example : ∃ ps, rank (⟨2, [1, 1/2, 1/4, 1]⟩ : Matrix Rat) defaultDistillation cmpGreater = .ok ps :=
  rank_terminates _ _ _ default_distillation_in_domain (by simp) (by simp) (by
    intro x hx
    simp only [List.mem_cons, List.not_mem_nil, or_false] at hx
    rcases hx with rfl | rfl | rfl | rfl <;> norm_num)

/-! ## end to end: whole requests (`decideWith` / `Rdm.decide`, Model/Decide.lean)

  Whatever biases ran before — every request, every bias list, every stream function, no bounds —, the answer
  of `electreIII` is the method's defined answer on the state that reached it (`resp.final`).
  `e2emElectreEntries resp.result` reads the response back as the list `ElectreIII` returned (what the C05
  checkers are evaluated on).  Helper lemmas: Rdm/Lemmas/E2EMethods*.lean. -/

/-- **the parameters in force**: no bias exchanges the method or touches the distillation function — the
    request's parsed parameters are ELECTRE parameters with distillation function `dist` iff the parameters
    that reach `Evaluate` are (the per-criterion thresholds and weights `ec` are what the biases left of them) -/
theorem decideWith_electre_parameters {α : Type} [Num α] (exp : α → α) (aspOrder : List (WCrit α) → List (WCrit α))
    (req : Request α) (g : Int → Draws α) (resp : Response α) (h : decideWith exp aspOrder req g = .ok resp)
    (dist : LinFun α) :
    (∃ ec₀, req.mp = some (.electre ec₀ dist)) ↔ (∃ ec, resp.final.mp = .electre ec dist) := by
  constructor
  · rintro ⟨ec₀, hmp⟩
    obtain ⟨ec, _, hfin, _⟩ := e2em_decideWith_electre h hmp
    exact ⟨ec, hfin⟩
  · rintro ⟨ec, hfin⟩
    exact (e2em_decideWith_electre_of_final h hfin).1

/-- **L1, the response IS `ElectreIII` of the final state** (any number type): if the parameters that reach
    `Evaluate` are `.electre ec dist`, then `ElectreIII` answered on the considered alternatives and criteria of
    the final state, and `result` is that answer, entry by entry (`evaluation` = the pair of indices) -/
theorem decideWith_electre_result_is_electreIII {α : Type} [Num α] (exp : α → α)
    (aspOrder : List (WCrit α) → List (WCrit α)) (req : Request α) (g : Int → Draws α) (resp : Response α)
    (ec : KMap (ECrit α)) (dist : LinFun α) (h : decideWith exp aspOrder req g = .ok resp)
    (hfin : resp.final.mp = .electre ec dist) :
    ∃ r, electreIII resp.final.co resp.final.crit ec dist = .ok r ∧
      resp.result = r.map (Linked.mapEv fun p => .electre p.1 p.2) ∧ e2emElectreEntries resp.result = r := by
  obtain ⟨_, r, hr, hres⟩ := e2em_decideWith_electre_of_final h hfin
  exact ⟨r, hr, hres, by rw [hres, e2emElectreEntries_map]⟩

/-- **L1, the indices follow the method's definition end to end** (over `Rat`): for a request whose parsed
    parameters are ELECTRE parameters with distillation function `dist`, if `MakeDecision` answers then — with
    `ec` the ELECTRE criteria the biases left — the credibility matrix `m` of the considered alternatives of
    the FINAL state exists, is square with one row per alternative of `choseToMake`; both distillations of `m`
    answered with one class number per alternative; these class numbers are those of the declarative
    distillations of `Spec.C05` (refinement theorem), consecutive from 1; and the response is `EvaluateRanking`
    of them over `choseToMake` — entry i carries (asc i, desc i) — so that the links clause of the checker
    holds.  No domain restriction: this holds whenever the model answers. -/
theorem decideWith_electre_follows_definition (exp : Rat → Rat)
    (aspOrder : List (WCrit Rat) → List (WCrit Rat)) (req : Request Rat) (g : Int → Draws Rat)
    (resp : Response Rat) (ec₀ : KMap (ECrit Rat)) (dist : LinFun Rat)
    (h : decideWith exp aspOrder req g = .ok resp) (hmp : req.mp = some (.electre ec₀ dist)) :
    ∃ ec m asc desc,
      resp.final.mp = .electre ec dist ∧
      credibilityMatrix resp.final.co resp.final.crit ec = .ok m ∧
      m.size = req.chosen.length ∧ m.data.length = m.size * m.size ∧
      rankAscending m dist = .ok asc ∧ rankDescending m dist = .ok desc ∧
      asc.length = req.chosen.length ∧ desc.length = req.chosen.length ∧
      Spec.C05.specAscending m dist = some asc ∧ Spec.C05.specDescending m dist = some desc ∧
      Spec.C05.consecutiveFrom1 asc = true ∧ Spec.C05.consecutiveFrom1 desc = true ∧
      e2emElectreEntries resp.result = evaluateRanking asc desc req.chosen ∧
      Spec.C05.linksOk (e2emElectreEntries resp.result) = true := by
  obtain ⟨ec, r, hfin, hr, hres⟩ := e2em_decideWith_electre h hmp
  obtain ⟨hco, hlen⟩ := e2em_decideWith_co h
  obtain ⟨m, asc, desc, hm, hasc, hdesc, hrk, hsz, hsq, hal, hdl⟩ := e2em_electreIII_ok hr
  rw [hco] at hrk
  rw [hlen] at hsz hal hdl
  have hent : e2emElectreEntries resp.result = evaluateRanking asc desc req.chosen := by
    rw [hres, e2emElectreEntries_map, hrk]
  refine ⟨ec, m, asc, desc, hfin, hm, hsz, hsq, hasc, hdesc, hal, hdl,
    rankAscending_refines m dist hsq asc hasc, rankDescending_refines m dist hsq desc hdesc,
    rankAscending_consecutive m dist asc hasc, rankDescending_consecutive m dist desc hdesc, hent, ?_⟩
  rw [hent]
  exact linksOk_evaluateRanking asc desc req.chosen hal hdl

/-- … spelled out per entry: entry i of the response is alternative `choseToMake[i]` with the two class
    numbers of position i, and it lists b exactly when b is another entry j with asc i ≤ asc j and
    desc i ≤ desc j (`links_characterisation` on the response) -/
theorem decideWith_electre_entries (exp : Rat → Rat) (aspOrder : List (WCrit Rat) → List (WCrit Rat))
    (req : Request Rat) (g : Int → Draws Rat) (resp : Response Rat) (ec₀ : KMap (ECrit Rat)) (dist : LinFun Rat)
    (h : decideWith exp aspOrder req g = .ok resp) (hmp : req.mp = some (.electre ec₀ dist)) :
    ∃ asc desc : List Int, ∃ (ha : asc.length = req.chosen.length) (hd : desc.length = req.chosen.length),
      (e2emElectreEntries resp.result).length = req.chosen.length ∧
      ∀ (i : Nat) (hi : i < req.chosen.length) (hi' : i < (e2emElectreEntries resp.result).length),
        (e2emElectreEntries resp.result)[i].id = req.chosen[i] ∧
        (e2emElectreEntries resp.result)[i].ev = (asc[i], desc[i]) ∧
        ∀ b, b ∈ (e2emElectreEntries resp.result)[i].links ↔
          ∃ (j : Nat) (hj : j < req.chosen.length), j ≠ i ∧ req.chosen[j] = b ∧ asc[i] ≤ asc[j] ∧ desc[i] ≤ desc[j] := by
  obtain ⟨_, _, asc, desc, _, _, _, _, _, _, hal, hdl, _, _, _, _, hent, _⟩ :=
    decideWith_electre_follows_definition exp aspOrder req g resp ec₀ dist h hmp
  refine ⟨asc, desc, hal, hdl, by rw [hent]; exact el_evaluateRanking_length _ _ _ hal hdl, ?_⟩
  intro i hi hi'
  have := el_evaluateRanking_getElem asc desc req.chosen hal hdl i hi
  simp only [hent]
  exact this

/-- **in the domain of the property** the credibilities behind the response are in [0,1] with diagonal 1: if
    every criterion of the FINAL state has in-domain thresholds in the final ELECTRE criteria -/
theorem decideWith_electre_credibilities_in_unit_interval (exp : Rat → Rat)
    (aspOrder : List (WCrit Rat) → List (WCrit Rat)) (req : Request Rat) (g : Int → Draws Rat)
    (resp : Response Rat) (ec : KMap (ECrit Rat)) (dist : LinFun Rat)
    (h : decideWith exp aspOrder req g = .ok resp) (hfin : resp.final.mp = .electre ec dist)
    (hne : resp.final.crit ≠ [])
    (hg : ∀ c ∈ resp.final.crit, ∀ t, ec.get? c.id = some t → Spec.C05.critInDomain t = true) :
    ∃ m, credibilityMatrix resp.final.co resp.final.crit ec = .ok m ∧ m.size = req.chosen.length ∧
      ∀ i j, i < req.chosen.length → j < req.chosen.length →
        (0 ≤ m.at i j ∧ m.at i j ≤ 1) ∧ (i = j → m.at i j = 1) := by
  obtain ⟨r, hr, _⟩ := decideWith_electre_result_is_electreIII exp aspOrder req g resp ec dist h hfin
  obtain ⟨m, _, _, hm, _⟩ := e2em_electreIII_ok hr
  obtain ⟨_, hlen⟩ := e2em_decideWith_co h
  obtain ⟨hsz, hall⟩ := credibility_matrix_in_unit_interval resp.final.co resp.final.crit hne ec hg m hm
  rw [hlen] at hsz hall
  exact ⟨m, hm, hsz, hall⟩

/-- **C05 for `Rdm.decide`** (`MakeDecision` with the registered generators read from a seed table) -/
theorem decide_electre_follows_definition (exp : Rat → Rat) (req : Request Rat) (seeds : Seeds Rat)
    (resp : Response Rat) (ec₀ : KMap (ECrit Rat)) (dist : LinFun Rat)
    (h : Rdm.decide exp req seeds = .ok resp) (hmp : req.mp = some (.electre ec₀ dist)) :
    ∃ ec m asc desc,
      resp.final.mp = .electre ec dist ∧
      credibilityMatrix resp.final.co resp.final.crit ec = .ok m ∧
      m.size = req.chosen.length ∧ m.data.length = m.size * m.size ∧
      rankAscending m dist = .ok asc ∧ rankDescending m dist = .ok desc ∧
      asc.length = req.chosen.length ∧ desc.length = req.chosen.length ∧
      Spec.C05.specAscending m dist = some asc ∧ Spec.C05.specDescending m dist = some desc ∧
      Spec.C05.consecutiveFrom1 asc = true ∧ Spec.C05.consecutiveFrom1 desc = true ∧
      e2emElectreEntries resp.result = evaluateRanking asc desc req.chosen ∧
      Spec.C05.linksOk (e2emElectreEntries resp.result) = true :=
  decideWith_electre_follows_definition exp _ req _ resp ec₀ dist h hmp

/-- the hypotheses are satisfiable: an ELECTRE III request (default distillation function, in-domain thresholds)
    over four known alternatives, three of them to choose from, with a fatigue that fires and rewrites every
    value, a preference reversal that does not fire and a disabled entry — the model answers, and the answer
    is the ranking `EvaluateRanking` builds from the declarative distillations of the final state's matrix -/
example : ∃ resp ec m asc desc, Rdm.decide id e2emExElectre e2eExSeeds = .ok resp ∧
    resp.final.mp = .electre ec defaultDistillation ∧
    credibilityMatrix resp.final.co resp.final.crit ec = .ok m ∧
    Spec.C05.specAscending m defaultDistillation = some asc ∧
    Spec.C05.specDescending m defaultDistillation = some desc ∧
    e2emElectreEntries resp.result = evaluateRanking asc desc ["c", "a", "b"] := by
  obtain ⟨resp, h⟩ := e2e_ok_of_isOk (x := Rdm.decide id e2emExElectre e2eExSeeds) (by decide +kernel)
  obtain ⟨ec, m, asc, desc, hfin, hm, _, _, _, _, _, _, ha, hd, _, _, hent, _⟩ :=
    decide_electre_follows_definition id _ _ resp _ _ h rfl
  exact ⟨resp, ec, m, asc, desc, h, hfin, hm, ha, hd, hent⟩

/-- … and the final criteria of that request are still in the domain (the biases that ran do not touch the
    ELECTRE criteria), so the credibilities are in [0,1] -/
example : (match Rdm.decide id e2emExElectre e2eExSeeds with
    | .ok resp => (match resp.final.mp with
        | .electre ec _ => e2emGuardB resp.final.crit ec && !resp.final.crit.isEmpty
        | _ => false)
    | .error _ => false) = true := by decide +kernel

/-- the constants and names this property depends on were re-read from the working tree on this run
    (none fell back to its pinned value because its declaration could not be located) -/
theorem facts_fresh : (Rdm.Facts.staleFacts.all fun n => !["defaultDistillationA", "defaultDistillationB", "methodElectre", "paramElectreCriteria", "paramElectreDistillation"].contains n) = true := by decide

end Rdm.Props.C05
