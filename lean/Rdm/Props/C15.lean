/- C15 — property theorems (stub; filled in by the owning work package). -/
import Rdm.Basic
namespace Rdm.Props.C15
end Rdm.Props.C15
