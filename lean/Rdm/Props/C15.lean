/-
  C15 — criteria omission removes exactly the requested share, weakest first.
  Property theorems only (helper lemmas: Rdm/Lemmas/BiasA*.lean).  The model is
  Rdm/Model/Ordering.lean + Rdm/Model/BiasesA.lean, tied to the Go code bit-for-bit by the stages
  `split`, `order`, `omission-apply` of harness/main/c15.go.
  Reduced-problem equivalence: Lemmas/BiasARestrict.lean (the restricted state), BiasAReducedParse.lean
  (`ParseParams` of the seven methods, the reduced request, the seven commuting squares),
  BiasAReducedDecision.lean (`evaluate`, the lift to the decision).  Spec tie: BiasAOmissionSpec.lean.
  Choquet importance: BiasAChoquetImportance.lean.
-/
import Rdm.Lemmas.BiasAOmission
import Rdm.Lemmas.BiasAReduced
import Rdm.Lemmas.BiasARoulette
import Rdm.Lemmas.BiasACumulated
import Rdm.Lemmas.BiasARestrict
import Rdm.Lemmas.BiasAReducedParse
import Rdm.Lemmas.BiasAReducedDecision
import Rdm.Lemmas.BiasAOmissionSpec
import Rdm.Lemmas.BiasAChoquetImportance
import Rdm.Spec.C15
import Rdm.Lemmas.E2EBiasesState
import Rdm.Lemmas.E2EBiasesParts
import Rdm.Lemmas.E2EBiasesExample
set_option linter.unusedSectionVars false
open Rdm Rdm.BiasA
namespace Rdm.Props.C15
variable {α : Type} [Num α]

/-! ## count rule -/

/-- the pivot is `⌊n·ratio⌋` clamped to `[min, max]` (definition of the model, over the rationals) -/
theorem pivot_formula (c : SplitCond Rat) (n : Nat) :
    c.pivot n = clampInt (Rat.floor (((n : Int) : Rat) * c.ratio)) c.min c.max := rfl

/-- after validation the pivot lies in `[min, max]`, and equals `⌊n·ratio⌋` whenever that lies inside -/
theorem pivot_clamped {c : SplitCond α} (h : c.validate = .ok ()) (n : Nat) :
    c.min ≤ c.pivot n ∧ c.pivot n ≤ c.max :=
  clampInt_mem (validate_ok h).2.2

theorem pivot_unclamped {c : SplitCond α} {n : Nat}
    (h1 : c.min ≤ Num.floorInt (Num.ofNat n * c.ratio)) (h2 : Num.floorInt (Num.ofNat n * c.ratio) ≤ c.max) :
    c.pivot n = Num.floorInt (Num.ofNat n * c.ratio) :=
  clampInt_of_mem h1 h2

/-- with the default clamps (`min = 0`, `max = MaxInt64`) and `ratio ∈ [0,1]` the pivot is `⌊n·ratio⌋ ∈ [0, n]` -/
theorem pivot_default (ratio : Rat) (n : Nat) (h0 : 0 ≤ ratio) (h1 : ratio ≤ 1)
    (hn : (n : Int) ≤ maxInt64) :
    let c : SplitCond Rat := ⟨ratio, 0, maxInt64⟩
    c.pivot n = Rat.floor ((n : Rat) * ratio) ∧ 0 ≤ c.pivot n ∧ c.pivot n ≤ n := by
  intro c
  have hx0 : (0 : Rat) ≤ (n : Rat) * ratio := mul_nonneg (by exact_mod_cast Nat.zero_le n) h0
  have hxn : (n : Rat) * ratio ≤ n := by
    have : (0 : Rat) ≤ (n : Rat) := by exact_mod_cast Nat.zero_le n
    nlinarith
  have hf0 : 0 ≤ Rat.floor ((n : Rat) * ratio) := Rat.le_floor_iff.2 (by simpa using hx0)
  have hfn : Rat.floor ((n : Rat) * ratio) ≤ n := by
    have h1 := (Rat.floor_le ((n : Rat) * ratio)).trans hxn
    have h2 : ((Rat.floor ((n : Rat) * ratio) : Int) : Rat) ≤ ((n : Int) : Rat) := by simpa using h1
    exact_mod_cast h2
  have hp : c.pivot n = Rat.floor ((n : Rat) * ratio) := by
    have e : c.pivot n = clampInt (Rat.floor (((n : Int) : Rat) * ratio)) 0 maxInt64 := rfl
    rw [e]
    have : (((n : Int) : Rat)) = (n : Rat) := by simp
    rw [this]
    apply clampInt_of_mem hf0
    exact le_trans hfn hn
  exact ⟨hp, hp ▸ hf0, hp ▸ hfn⟩


/-- the number of omitted criteria produced by the model's split satisfies the count clause of the
    spec the driver evaluates on the implementation's output -/
theorem split_countOk {β : Type} {c : SplitCond Rat} {l a b : List β} (hv : c.validate = .ok ())
    (h : c.split l = .ok (a, b)) : Spec.C15.countOk c l.length a.length = true :=
  Rdm.BiasA.split_countOk hv h

/-! ## partition: omitted = first k of the ordering, kept = the rest -/

/-- `SplitCriteriaByOrdering` is `take`/`drop` at the pivot: `omitted ++ kept = ordering`,
    `|omitted| = pivot`, and the pivot lies in `[0, n]` (otherwise the code panics) -/
theorem split_take_drop {β : Type} {c : SplitCond α} {l a b : List β} (h : c.split l = .ok (a, b)) :
    a ++ b = l ∧ (a.length : Int) = c.pivot l.length ∧
      a = l.take (c.pivot l.length).toNat ∧ b = l.drop (c.pivot l.length).toNat :=
  ⟨split_append h, split_length h, (split_ok h).2.2.1, (split_ok h).2.2.2⟩

/-- every one of the five ordering resolvers (and the default) returns a permutation of the current
    criteria — for the two by-probability resolvers including the fallback branch of the roulette -/
theorem ordering_is_permutation {eps : α} {name : String} {d : DMP α} {dr : Draws α}
    {r : List (Crit α)} (h : orderCriteria eps name d dr = .ok r) : r.Perm d.crit :=
  orderCriteria_perm h

/-- the omission bias: omitted and kept criteria partition the current criteria (omitted ⊆ declared,
    disjoint from kept when the ids are distinct, union = all); `|omitted|` is the clamped pivot,
    which lies in `[min, max]` -/
theorem omission_partition {eps : α} {c : SplitCond α} {name : String} {cur res : DMP α}
    {d : Draws α} {omitted : List (Crit α)}
    (h : omissionApply eps c name cur d = .ok (res, omitted)) :
    (omitted ++ res.crit).Perm cur.crit ∧ (omitted.length : Int) = c.pivot cur.crit.length ∧
      c.min ≤ c.pivot cur.crit.length ∧ c.pivot cur.crit.length ≤ c.max ∧
      ∃ ordered, orderCriteria eps name cur d = .ok ordered ∧ omitted ++ res.crit = ordered := by
  obtain ⟨hv, ordered, ho, hc⟩ := omissionApply_ok h
  obtain ⟨hs, _, _, _⟩ := omitCriteria_ok hc
  have hp := orderCriteria_perm ho
  have happ := split_append hs
  have hl := split_length hs
  rw [hp.length_eq] at hl
  exact ⟨happ ▸ hp, hl, (pivot_clamped hv _).1, (pivot_clamped hv _).2, ordered, ho, happ⟩

/-- omitted and kept are disjoint when the criteria ids are distinct (`Criteria.Validate`) -/
theorem omission_disjoint {eps : α} {c : SplitCond α} {name : String} {cur res : DMP α}
    {d : Draws α} {omitted : List (Crit α)}
    (h : omissionApply eps c name cur d = .ok (res, omitted))
    (hnd : (cur.crit.map (·.id)).Nodup) : ∀ o ∈ omitted, ∀ k ∈ res.crit, o.id ≠ k.id := by
  have hp := (omission_partition h).1
  have hnd' : ((omitted ++ res.crit).map (·.id)).Nodup := (hp.map _).nodup_iff.2 hnd
  rw [List.map_append, List.nodup_append] at hnd'
  intro o ho k hk e
  exact hnd'.2.2 _ (List.mem_map_of_mem ho) _ (List.mem_map_of_mem hk) e

/-- on the model's output the count clause of the spec holds (the clause the driver evaluates on the
    implementation's output) -/
theorem omission_countOk {eps : Rat} {c : SplitCond Rat} {name : String} {cur res : DMP Rat}
    {d : Draws Rat} {omitted : List (Crit Rat)}
    (h : omissionApply eps c name cur d = .ok (res, omitted)) :
    Spec.C15.countOk c cur.crit.length omitted.length = true := by
  obtain ⟨hv, ordered, ho, hc⟩ := omissionApply_ok h
  obtain ⟨hs, _, _, _⟩ := omitCriteria_ok hc
  have := split_countOk hv hs
  rwa [(orderCriteria_perm ho).length_eq] at this

/-! ## every remaining structure is restricted to the kept criteria -/

/-- every alternative (considered and not considered, same ids, same order) holds exactly the kept
    criteria, with unchanged values; the method parameters are the listener's `OnCriteriaRemoved` -/
theorem omission_restricts {eps : α} {c : SplitCond α} {name : String} {cur res : DMP α}
    {d : Draws α} {omitted : List (Crit α)}
    (h : omissionApply eps c name cur d = .ok (res, omitted)) :
    List.Forall₂ (RestrictedTo res.crit) cur.co res.co ∧
      List.Forall₂ (RestrictedTo res.crit) cur.nc res.nc ∧
      onRemoved cur.mp res.crit = .ok res.mp := by
  obtain ⟨_, ordered, _, hc⟩ := omissionApply_ok h
  obtain ⟨_, hmp, hco, hnc⟩ := omitCriteria_ok hc
  exact ⟨preserveCriteria_ok hco, preserveCriteria_ok hnc, hmp⟩

/-! ## weakest first -/

/-- `SortByWeights` returns a permutation of the criteria, ascending by weight, each entry carrying
    the weight the map holds for it -/
theorem sortByWeights_sorted_perm {cs : List (Crit Rat)} {w : KMap Rat} {r : List (WCrit Rat)}
    (h : sortByWeights cs w = .ok r) :
    (r.map (·.crit)).Perm cs ∧ r.Pairwise (fun a b => a.w ≤ b.w) ∧
      ∀ x ∈ r, w.get? x.crit.id = some x.w :=
  ⟨sortByWeights_perm h, sortByWeights_sorted h, sortByWeights_weight h⟩

/-- the importance the ordering uses is the listener's: the ranking is `SortByWeights` of the
    method's importance map (weights for majority / aspect elimination, `k` for ELECTRE III, the
    cumulated maps for weighted sum, OWA, satisfaction, the decomposition for Choquet) -/
theorem ranking_uses_importance_map {eps : α} {d : DMP α} {r : List (WCrit α)}
    (h : rankAsc eps d = .ok r) :
    ∃ w, importanceMap eps d = .ok w ∧ sortByWeights d.crit w = .ok r ∧
      ∀ x ∈ r, w.get? x.crit.id = some x.w := by
  rw [rankAsc_eq_sort, BiasA.bind_ok] at h
  obtain ⟨w, hw, hs⟩ := h
  exact ⟨w, hw, hs, sortByWeights_weight hs⟩

theorem importance_majority (eps : α) (d : DMP α) {w cur seed rnd dr} (h : d.mp = .majority w cur seed rnd dr) :
    importanceMap eps d = .ok w := by unfold importanceMap; rw [h]; rfl
theorem importance_aspect (eps : α) (d : DMP α) {fn lv seed w rnd} (h : d.mp = .aspect fn lv seed w rnd) :
    importanceMap eps d = .ok w := by unfold importanceMap; rw [h]; rfl
theorem importance_electre (eps : α) (d : DMP α) {ec dist} (h : d.mp = .electre ec dist) :
    importanceMap eps d = .ok (ec.map fun p => (p.1, p.2.k)) := by unfold importanceMap; rw [h]; rfl

/-- OWA: the importance of a criterion is the sum of its values over the considered alternatives -/
theorem importance_owa (eps : α) (d : DMP α) {wc} (h : d.mp = .owa wc) (hnd : ∀ a ∈ d.co, a.vals.keys.Nodup) :
    ∃ w, importanceMap eps d = .ok w ∧ ∀ c ∈ d.crit, w.get? c.id = some (sumOver d.co c.id id) := by
  unfold importanceMap; rw [h]
  exact cumulated_sum (g := fun _ v => v) (fun _ _ _ _ => rfl) hnd

/-- satisfaction heuristic: the same sum -/
theorem importance_satisfaction (eps : α) (d : DMP α) {fn lv seed cur rnd} (h : d.mp = .satisf fn lv seed cur rnd)
    (hnd : ∀ a ∈ d.co, a.vals.keys.Nodup) :
    ∃ w, importanceMap eps d = .ok w ∧ ∀ c ∈ d.crit, w.get? c.id = some (sumOver d.co c.id id) := by
  unfold importanceMap; rw [h]
  exact cumulated_sum (g := fun _ v => v) (fun _ _ _ _ => rfl) hnd

/-- weighted sum: the importance of a criterion is the sum over the considered alternatives of
    `weight × value` (every value key of a considered alternative must have a weight, else the code panics) -/
theorem importance_weightedSum (eps : α) (d : DMP α) {wc : List (WCrit α)} (h : d.mp = .ws wc)
    (hnd : ∀ a ∈ d.co, a.vals.keys.Nodup) (wt : String → α)
    (hw : ∀ a ∈ d.co, ∀ kv ∈ a.vals, ∃ x, findWCrit wc kv.1 = .ok x ∧ x.w = wt kv.1) :
    ∃ w, importanceMap eps d = .ok w ∧
      ∀ c ∈ d.crit, w.get? c.id = some (sumOver d.co c.id fun v => wt c.id * v) := by
  unfold importanceMap; rw [h]
  refine cumulated_sum (g := fun k v => wt k * v) ?_ hnd
  intro a ha kv hkv
  obtain ⟨x, hx, hxw⟩ := hw a ha kv hkv
  simp only [hx, ← hxw]
  rfl

/-- Choquet: the importance of a criterion is its decomposed capacity contribution — the sum, over the
    considered alternatives (in order) and over the components `(remaining criteria, valueAdded)` of the
    alternative's Choquet integral (`computeTotalWeight`, in order), of the `valueAdded` of the components
    whose remaining set contains the criterion.  (`importanceMap` fails exactly when a considered
    alternative holds an undeclared criterion or a capacity is missing: `chq_decompose_ok_iff`.) -/
theorem importance_choquet (eps : α) (d : DMP α) {w : KMap α} {cs : List (Crit α)} (h : d.mp = .choquet w cs)
    (hk : ∀ a ∈ d.co, a.vals.keys.Nodup) {acc : KMap α} (hok : importanceMap eps d = .ok acc) :
    ∃ compss, List.Forall₂ (fun a comps =>
        choquetComponents eps w (ascendingVals a) Num.zero = .ok comps) d.co compss ∧
      ∀ c ∈ d.crit, acc.get? c.id = some (chq_importance c.id compss) :=
  chq_importance_choquet eps d h hk hok

/-- the closed formula as a plain double sum (over the rationals) -/
theorem importance_choquet_formula (id : String) (compss : List (List (List String × Rat))) :
    chq_importance id compss =
      (compss.map fun comps => ((comps.filter fun comp => comp.1.contains id).map (·.2)).sum).sum :=
  chq_importance_rat id compss

/-- … and it is total on coherent states: considered alternatives hold declared criteria only (distinct
    keys) and every capacity the integral looks up is present -/
theorem importance_choquet_total (eps : α) (d : DMP α) {w : KMap α} {cs : List (Crit α)}
    (h : d.mp = .choquet w cs) (hk : ∀ a ∈ d.co, a.vals.keys.Nodup)
    (hkeys : ∀ a ∈ d.co, ∀ k ∈ a.vals.keys, ∃ c ∈ d.crit, c.id = k)
    (hcap : ∀ a ∈ d.co, ∃ comps, choquetComponents eps w (ascendingVals a) Num.zero = .ok comps) :
    ∃ acc compss, importanceMap eps d = .ok acc ∧
      List.Forall₂ (fun a comps =>
        choquetComponents eps w (ascendingVals a) Num.zero = .ok comps) d.co compss ∧
      ∀ c ∈ d.crit, acc.get? c.id = some (chq_importance c.id compss) :=
  chq_importance_choquet_total eps d h hk hkeys hcap

/-- with ordering `weakest` (also the default) no kept criterion is less important than an omitted
    one: the listener's ascending ranking splits into the omitted prefix and the kept suffix -/
theorem weakest_omits_least_important {eps : Rat} {c : SplitCond Rat} {cur res : DMP Rat}
    {d : Draws Rat} {omitted : List (Crit Rat)}
    (h : omissionApply eps c Facts.orderingWeakest cur d = .ok (res, omitted)) :
    ∃ ro rk, rankAsc eps cur = .ok (ro ++ rk) ∧ omitted = ro.map (·.crit) ∧
      res.crit = rk.map (·.crit) ∧ ∀ o ∈ ro, ∀ k ∈ rk, o.w ≤ k.w := by
  obtain ⟨_, ordered, ho, hc⟩ := omissionApply_ok h
  obtain ⟨hs, _, _, _⟩ := omitCriteria_ok hc
  rw [orderCriteria_weakest] at ho
  cases hr : rankAsc eps cur with
  | error e => rw [hr] at ho; cases ho
  | ok ranked =>
    rw [hr] at ho
    have : ordered = ranked.map (·.crit) := by cases ho; rfl
    subst this
    obtain ⟨ra, rb, hsr, h1, h2⟩ := split_of_map (α := Rat) (β := WCrit Rat) (γ := Crit Rat) (fun x => x.crit) (c := c) (l := ranked) hs
    refine ⟨ra, rb, ?_, h1, h2, pairwise_split (R := fun a b : WCrit Rat => a.w ≤ b.w) (rankAsc_sorted hr) hsr⟩
    rw [split_append hsr]

theorem default_is_weakest {eps : α} {c : SplitCond α} {cur : DMP α} {d : Draws α} :
    omissionApply eps c "" cur d = omissionApply eps c Facts.orderingWeakest cur d := by
  unfold omissionApply; rw [orderCriteria_default]

/-- `strongest` is the exact reverse of `weakest` -/
theorem strongest_is_reverse_weakest (eps : α) (d : DMP α) (dr dr' : Draws α) :
    orderCriteria eps Facts.orderingStrongest d dr =
      (orderCriteria eps Facts.orderingWeakest d dr').map List.reverse := by
  rw [orderCriteria_strongest, orderCriteria_weakest]
  cases rankAsc eps d <;> rfl

/-- hence with `strongest` no omitted criterion is less important than a kept one -/
theorem strongest_omits_most_important {eps : Rat} {c : SplitCond Rat} {cur res : DMP Rat}
    {d : Draws Rat} {omitted : List (Crit Rat)}
    (h : omissionApply eps c Facts.orderingStrongest cur d = .ok (res, omitted)) :
    ∃ ro rk, (rankAsc eps cur).map List.reverse = .ok (ro ++ rk) ∧ omitted = ro.map (·.crit) ∧
      res.crit = rk.map (·.crit) ∧ ∀ o ∈ ro, ∀ k ∈ rk, k.w ≤ o.w := by
  obtain ⟨_, ordered, ho, hc⟩ := omissionApply_ok h
  obtain ⟨hs, _, _, _⟩ := omitCriteria_ok hc
  rw [orderCriteria_strongest] at ho
  cases hr : rankAsc eps cur with
  | error e => rw [hr] at ho; cases ho
  | ok ranked =>
    rw [hr] at ho
    have : ordered = (ranked.reverse).map (·.crit) := by cases ho; simp [List.map_reverse]
    subst this
    obtain ⟨ra, rb, hsr, h1, h2⟩ := split_of_map (α := Rat) (β := WCrit Rat) (γ := Crit Rat) (fun x => x.crit) (c := c) (l := ranked.reverse) hs
    have hsorted : ranked.reverse.Pairwise (fun a b => b.w ≤ a.w) :=
      List.pairwise_reverse.2 (rankAsc_sorted hr)
    refine ⟨ra, rb, ?_, h1, h2, pairwise_split (R := fun a b : WCrit Rat => b.w ≤ a.w) hsorted hsr⟩
    rw [split_append hsr]; rfl

/-! ## the random orderings -/

/-- `strongestByProbability` is the exact reverse of `weakestByProbability` on the same seed -/
theorem strongestByProbability_is_reverse (eps : α) (d : DMP α) (dr : Draws α) :
    orderCriteria eps Facts.orderingStrongestByProbability d dr =
      (orderCriteria eps Facts.orderingWeakestByProbability d dr).map List.reverse :=
  sbp_is_reverse_wbp eps d dr

/-- an unknown ordering name is rejected -/
theorem unknown_ordering_is_rejected (eps : α) (d : DMP α) (dr : Draws α) :
    ∃ e, orderCriteria eps "bogus" d dr = .error e := unknown_ordering_rejected eps d dr

/-- one round of the roulette: the picked criterion `c` is the first whose running sum reaches
    `u·total`, i.e. `cum(before c) < u·total ≤ cum(before c) + w̃_c` (an interval of length `w̃_c/total`
    for `u`), and it is removed from the pool -/
theorem byProbability_pick {l : List (WCrit α)} {rw : α} {c : WCrit α} {rest : List (WCrit α)}
    (h : rouletteScan l Num.zero rw = some (c, rest)) :
    ∃ pre post, l = pre ++ c :: post ∧ rest = pre ++ post ∧ rw ≤ cumW Num.zero pre + c.w ∧
      ∀ i, i < pre.length → ¬ rw ≤ cumW Num.zero (pre.take (i + 1)) :=
  rouletteScan_spec h

/-- the fallback branch (take the last entry) is reached only when even the whole pool stays below
    `u·total` — floating-point slack in the decremented `total`, or a generator outside `[0,1)` -/
theorem byProbability_fallback_condition {l : List (WCrit α)} {rw : α}
    (h : rouletteScan l Num.zero rw = none) :
    ∀ i, i < l.length → ¬ rw ≤ cumW Num.zero (l.take (i + 1)) :=
  rouletteScan_none h

/-- the shares: `w̃ = m'/(w + dif)` with `m' > 0` and positive denominators, so a strictly less
    important criterion owns a strictly larger share — `weakestByProbability` puts it first on a strictly
    larger set of draws (`strongestByProbability` last) -/
theorem byProbability_shares {ranked : List (WCrit Rat)} (hs : ranked.Pairwise (fun a b => a.w ≤ b.w)) :
    ∃ m' dif : Rat, 0 < m' ∧ (∀ s ∈ ranked, 0 < s.w + dif) ∧
      (rouletteWeights ranked).1 = ranked.map (fun s => ({ s with w := m' / (s.w + dif) } : WCrit Rat)) ∧
      ∀ a ∈ ranked, ∀ b ∈ ranked, a.w < b.w → m' / (b.w + dif) < m' / (a.w + dif) := by
  obtain ⟨m', dif, hm, hpos, hw⟩ := rouletteWeights_spec hs
  exact ⟨m', dif, hm, hpos, hw, fun a ha b _ hab => roulette_share_antitone hm (hpos a ha) hab⟩

/-! ## the decision equals the one for the request with the omitted criteria deleted

Three layers (all inputs, all seven methods):

1. **the state handed on** is `restrictState cur kept` — a closed expression that deletes the omitted
   criteria from the criteria list, from every alternative's values and from every per-criterion structure
   of the method parameters (`omission_hands_on_restricted_state`);
2. **the parameters**: seven commuting squares `OnCriteriaRemoved ∘ ParseParams = ParseParams ∘ restrict`
   (`reduced_problem_weightedSum`, `_owa`, `_choquet`, `_electre`, `_majority`, `_aspectElimination`,
   `_satisfaction`), where `ParseParams` of each method is `parseParams` and the reduced request is
   `restrictRaw kept raw` (Lemmas/BiasAReducedParse.lean);
3. **the decision**: `evaluate (state after omission) = evaluate (state MakeDecision builds from the reduced
   request)` (`omission_equals_reduced_problem`), quantified over the method.

`ParseParams` (`parseParams`) and `Evaluate` (`evaluate`) are assembled in the Lemmas files from the model
functions of the other properties (`zipWithWeights`, `sortWCrits`, `choquetParse`, `validateParameters`,
`weightedSum`, `owa`, `choquetValue`, `ranking`, `electreIII`, `majorityEvaluate`, `aspectEvaluate`,
`satisfactionEvaluate`), each of which is tied to the Go code by its own property's correspondence stages;
the assembled whole is checked on the real code by the metamorphic oracle `omission-reduced-problem`
(harness/main/c15.go). -/

/-- the state criteria omission hands on is the current state with the omitted criteria deleted: criteria =
    the kept ones; every known alternative (same ids, same order, considered / not considered as before)
    holds the kept values only; the method parameters hold the kept criteria's entries only
    (`restrictParams`: weighted criteria, capacities of subsets of the kept criteria, ELECTRE entries,
    weights, explicit threshold levels level by level; coefficient levels, seeds, flags, current choice,
    distillation function untouched).  Generic in the number type. -/
theorem omission_hands_on_restricted_state {eps : α} {c : SplitCond α} {name : String} {cur res : DMP α}
    {d : Draws α} {omitted : List (Crit α)} (h : omissionApply eps c name cur d = .ok (res, omitted)) :
    res = restrictState cur res.crit := omissionApply_eq_restrictState h

/-- the listeners' `OnCriteriaRemoved`, when it succeeds, is `restrictParams` -/
theorem listener_removal_is_restriction {mp mp' : MParams α} {kept : List (Crit α)}
    (h : onRemoved mp kept = .ok mp') : mp' = restrictParams mp kept := onRemoved_eq_restrict h

/-- a restricted table holds, for every kept criterion, what the full table holds; and exactly the kept
    ids when every kept criterion has an entry -/
theorem restricted_table_lookup {β : Type} (m : KMap β) (kept : List (Crit α)) :
    (∀ k ∈ kept, (restrictMap m kept).get? k.id = m.get? k.id) ∧
      ((∀ k ∈ kept, (m.get? k.id).isSome) → (restrictMap m kept).keys = kept.map (·.id)) :=
  ⟨fun _ hk => restrictMap_get? m kept hk, restrictMap_keys m kept⟩

/-- weighted sum: `OnCriteriaRemoved` on the parsed parameters of the full request gives exactly the
    parsed parameters of the request that declares only the kept criteria (same weights on them;
    superfluous weight entries of either request are ignored) -/
theorem reduced_problem_weightedSum {all kept : List (Crit α)} {w w' : KMap α} {wc : List (WCrit α)}
    (hz : zipWithWeights all w = .ok wc) (hnd : (all.map (·.id)).Nodup)
    (hsub : ∀ k ∈ kept, k ∈ all) (hw : ∀ k ∈ kept, w'.get? k.id = w.get? k.id) :
    onRemoved (.ws wc) kept = (zipWithWeights kept w').map MParams.ws :=
  ws_reduced_commutes hz hnd hsub hw

/-- … and the utility of an alternative is the same whether it is the bias's restriction or the reduced
    request's alternative (any alternative with the same id and the same values on the weighted criteria) -/
theorem reduced_problem_weightedSum_value {a1 a2 : Alt α} {wc : List (WCrit α)} (hid : a1.id = a2.id)
    (h : ∀ c ∈ wc, a1.vals.get? c.crit.id = a2.vals.get? c.crit.id) :
    weightedSum a1 wc = weightedSum a2 wc := weightedSum_congr hid h

/-- OWA: the parameters after omission are the kept criteria with the reduced request's weights, and
    `OWA` values every alternative as under the (weight-sorted) parameters the reduced request parses to -/
theorem reduced_problem_owa {all kept : List (Crit Rat)} {w w' : KMap Rat} {z : List (WCrit Rat)}
    (hz : zipWithWeights all w = .ok z) (hnd : (all.map (·.id)).Nodup)
    (hsub : ∀ k ∈ kept, k ∈ all) (hw : ∀ k ∈ kept, w'.get? k.id = w.get? k.id)
    {mp : MParams Rat} (h : onRemoved (.owa (sortWCrits z)) kept = .ok mp) :
    ∃ zk, zipWithWeights kept w' = .ok zk ∧ mp = .owa zk ∧
      ∀ a : Alt Rat, owa a zk = owa a (sortWCrits zk) :=
  owa_reduced_commutes hz hnd hsub hw h

/-- majority heuristic: after omission the weights map holds exactly the kept criteria with the reduced
    request's weights; current choice, seed, ordering flag and draw resolution are untouched -/
theorem reduced_problem_majority {kept : List (Crit α)} {w w' : KMap α} {cur : String} {seed : Int}
    {rnd : Bool} {dr : String} {mp : MParams α}
    (h : onRemoved (.majority w cur seed rnd dr) kept = .ok mp)
    (hw : ∀ k ∈ kept, w'.get? k.id = w.get? k.id) :
    ∃ wk, mp = .majority wk cur seed rnd dr ∧ wk.keys = kept.map (·.id) ∧
      ∀ k ∈ kept, wk.get? k.id = w'.get? k.id :=
  majority_reduced_commutes h hw

/-- Choquet: `OnCriteriaRemoved` keeps exactly the capacities of the non-empty subsets of the kept criteria,
    under their canonical keys; the reduced request (the capacity entries naming kept criteria only) is
    accepted by `parse`, and its parsed table agrees with the kept capacities on every subset of the kept
    criteria — the only keys the integral of an alternative over the kept criteria reads
    (`reduced_problem_choquet_value`).  `KeysSplit kept`: canonical keys split into the criteria they were
    built from (ids without commas; `String.splitOn` is opaque to the kernel, hence a hypothesis). -/
theorem reduced_problem_choquet {all kept : List (Crit α)} {w : KMap α} {mp mp' : MParams α}
    (hp : parseParams all (.choquet w) = .ok mp) (hnd : (all.map (·.id)).Nodup)
    (hsub : ∀ k ∈ kept, k ∈ all) (hkn : (kept.map (·.id)).Nodup) (hkey : KeysSplit kept)
    (hr : onRemoved mp kept = .ok mp') :
    ∃ r r', mp = .choquet r all ∧ mp' = .choquet (restrictCapacities r kept) kept ∧
      (restrictCapacities r kept).keys = (powerSet (kept.map (·.id))).map criterionKey ∧
      parseParams kept (restrictRaw kept (.choquet w)) = .ok (.choquet r' kept) ∧
      ∀ s ∈ powerSet (kept.map (·.id)),
        (restrictCapacities r kept).get? (criterionKey s) = r'.get? (criterionKey s) :=
  choquet_square hp hnd hsub hkn hkey hr

/-- … and two capacity tables that agree on the subsets of the kept criteria give every alternative over the
    kept criteria the same Choquet integral -/
theorem reduced_problem_choquet_value (eps : α) {kept : List (Crit α)} {w w' : KMap α}
    (hkn : (kept.map (·.id)).Nodup)
    (hw : ∀ s ∈ powerSet (kept.map (·.id)), w.get? (criterionKey s) = w'.get? (criterionKey s))
    {a : Alt α} (ha : a.vals.keys = kept.map (·.id)) :
    choquetValue eps a w = choquetValue eps a w' := choquetValue_congr_kept eps hkn hw ha

/-- ELECTRE III: the restricted `electreCriteria` table (valid, because the entries were valid in the full
    request), the same distillation function — exactly what the reduced request parses to -/
theorem reduced_problem_electre {all kept : List (Crit α)} {ec : KMap (ECrit α)} {dist : Option (LinFun α)}
    {mp mp' : MParams α} (hp : parseParams all (.electre ec dist) = .ok mp) (hsub : ∀ k ∈ kept, k ∈ all)
    (hr : onRemoved mp kept = .ok mp') :
    parseParams kept (restrictRaw kept (.electre ec dist)) = .ok mp' := electre_square hp hsub hr

/-- … and entries of undeclared criteria are never read by the credibility matrix: a reduced request that
    keeps the omitted criteria's entries is ranked the same -/
theorem reduced_problem_electre_value {alts : List (Alt α)} {crits : List (Crit α)} {ec ec' : KMap (ECrit α)}
    (dist : LinFun α) (h : ∀ c ∈ crits, ec.get? c.id = ec'.get? c.id) :
    electreIII alts crits ec dist = electreIII alts crits ec' dist := electreIII_congr dist h

/-- aspect elimination: weights restricted, explicit threshold levels restricted level by level,
    coefficient levels unchanged — exactly the reduced request's parameters -/
theorem reduced_problem_aspectElimination {all kept : List (Crit α)} {fn : String} {lv : Levels α}
    {seed : Int} {w : KMap α} {rnd : Bool} {mp mp' : MParams α}
    (hp : parseParams all (.aspect fn lv seed w rnd) = .ok mp) (hr : onRemoved mp kept = .ok mp') :
    mp' = .aspect fn (restrictLevels lv kept) seed (restrictMap w kept) rnd ∧
      parseParams kept (restrictRaw kept (.aspect fn lv seed w rnd)) = .ok mp' := by
  refine ⟨?_, aspect_square hp hr⟩
  rw [parseParams_aspect] at hp; cases hp
  exact onRemoved_eq_restrict hr

/-- satisfaction: explicit threshold levels restricted level by level, coefficient levels unchanged; function
    name, seed, current choice and ordering flag untouched — exactly the reduced request's parameters -/
theorem reduced_problem_satisfaction {all kept : List (Crit α)} {fn : String} {lv : Levels α} {seed : Int}
    {cur : String} {rnd : Bool} {mp mp' : MParams α}
    (hp : parseParams all (.satisf fn lv seed cur rnd) = .ok mp) (hr : onRemoved mp kept = .ok mp') :
    mp' = .satisf fn (restrictLevels lv kept) seed cur rnd ∧
      parseParams kept (restrictRaw kept (.satisf fn lv seed cur rnd)) = .ok mp' := by
  refine ⟨?_, satisf_square hp hr⟩
  rw [parseParams_satisf] at hp; cases hp
  exact onRemoved_eq_restrict hr

/-- restriction of the levels, spelled out: coefficient levels unchanged, explicit thresholds per level -/
theorem restricted_levels (kept : List (Crit α)) :
    (∀ c mx mn : α, restrictLevels (.coef c mx mn) kept = .coef c mx mn) ∧
      ∀ ts : List (KMap α), restrictLevels (.thresholds ts) kept = .thresholds (ts.map fun t => restrictMap t kept) :=
  ⟨fun _ _ _ => rfl, fun _ => rfl⟩

/-- all seven squares in one statement: `OnCriteriaRemoved ∘ ParseParams = ParseParams ∘ restrict`, where
    "=" is `ParamsMatch` (equality; for OWA up to the weight sort OWA performs anyway; for Choquet up to
    capacity entries the integral never reads) -/
theorem reduced_problem_parameters {all kept : List (Crit Rat)} {raw : RawParams Rat} {mp mp' : MParams Rat}
    (hp : parseParams all raw = .ok mp) (hnd : (all.map (·.id)).Nodup) (hsub : ∀ k ∈ kept, k ∈ all)
    (hkn : (kept.map (·.id)).Nodup) (hkey : ∀ w, raw = .choquet w → KeysSplit kept)
    (hr : onRemoved mp kept = .ok mp') :
    ∃ mp'', parseParams kept (restrictRaw kept raw) = .ok mp'' ∧ ParamsMatch kept mp' mp'' :=
  reduced_params_commute hp hnd hsub hkn hkey hr

/-- **the decision after criteria omission equals the decision for the request with the omitted criteria
    deleted** — for every method (`raw` ranges over the seven methods' parameters), every ordering, ratio,
    clamps and seed.

    Full request: criteria `all` (distinct ids), alternatives `nc`/`co`, raw method parameters `raw`;
    `requestState` is the state `MakeDecision` builds from it (`ParseParams`).  The bias keeps `res.crit`.
    Reduced request: the kept criteria in the order the bias leaves them, every alternative with the kept
    values only, the raw parameters restricted to the kept criteria.  Then: the reduced request is accepted,
    its state has the same criteria and alternatives as the state the bias hands on, its parameters match,
    and `Evaluate` returns the same ranking on both, for every stream `ds` of the heuristic's generator.

    For aspect elimination `evaluate` is the model for pairwise distinct weights (the caveat of the property:
    ties between weights are broken by the seeded generator); for Choquet `KeysSplit` (ids without commas). -/
theorem omission_equals_reduced_problem {eps : Rat} {c : SplitCond Rat} {name : String}
    {all : List (Crit Rat)} {nc co : List (Alt Rat)} {raw : RawParams Rat} {cur res : DMP Rat}
    {d : Draws Rat} {omitted : List (Crit Rat)}
    (hreq : requestState nc co all raw = .ok cur)
    (h : omissionApply eps c name cur d = .ok (res, omitted))
    (hnd : (all.map (·.id)).Nodup) (hkey : ∀ w, raw = .choquet w → KeysSplit res.crit) :
    ∃ reduced, requestState (nc.map (restrictAlt res.crit)) (co.map (restrictAlt res.crit)) res.crit
        (restrictRaw res.crit raw) = .ok reduced ∧
      reduced.crit = res.crit ∧ reduced.co = res.co ∧ reduced.nc = res.nc ∧
      ParamsMatch res.crit res.mp reduced.mp ∧
      ∀ ds, BiasA.evaluate eps res ds = BiasA.evaluate eps reduced ds :=
  omission_decision_eq_reduced hreq h hnd hkey

/-- the lift on its own: matching parameters give the same decision on a state over the kept criteria -/
theorem matching_parameters_same_decision {eps : Rat} {kept : List (Crit Rat)} {nc co : List (Alt Rat)}
    {mp' mp'' : MParams Rat} (hm : ParamsMatch kept mp' mp'') (hkn : (kept.map (·.id)).Nodup)
    (hco : ∀ a ∈ co, a.vals.keys = kept.map (·.id)) (ds : Draws Rat) :
    BiasA.evaluate eps ⟨nc, co, kept, mp'⟩ ds = BiasA.evaluate eps ⟨nc, co, kept, mp''⟩ ds :=
  evaluate_paramsMatch hm hkn hco ds

/-! ## the spec the driver evaluates on the implementation's output, on the model's output -/

/-- `Spec.C15.check` (count, partition, restriction of considered and not considered alternatives,
    importance per method for `weakest` / default / `strongest`) accepts the model's output — the statement
    the driver op `check-c15` evaluates on the Go code's output, with `ranked` the listener's ranking of the
    state before the bias.  Where the spec grants a float tolerance (`ia ≤ ib + tol·(ma+mb)`) the exact model
    satisfies it with slack 0.
    Hypotheses: criteria ids distinct; value keys of considered alternatives distinct; for weighted sum the
    parameter list has an entry for every declared criterion (with no considered alternative the listener
    never consults it, the spec does). -/
theorem omission_satisfies_spec {eps : Rat} {c : SplitCond Rat} {name : String} {cur res : DMP Rat}
    {d : Draws Rat} {omitted : List (Crit Rat)} {ranked : List (WCrit Rat)}
    (h : omissionApply eps c name cur d = .ok (res, omitted)) (hr : rankAsc eps cur = .ok ranked)
    (hnd : (cur.crit.map (·.id)).Nodup) (hco : ∀ a ∈ cur.co, a.vals.keys.Nodup)
    (hws : ∀ wc, cur.mp = .ws wc → ∀ c ∈ cur.crit, ∃ x ∈ wc, x.crit.id = c.id) :
    Spec.C15.check name c cur res omitted ranked = true := c15spec_check h hr hnd hco hws

/-- the same in the form the driver prints -/
theorem omission_explain_ok {eps : Rat} {c : SplitCond Rat} {name : String} {cur res : DMP Rat}
    {d : Draws Rat} {omitted : List (Crit Rat)} {ranked : List (WCrit Rat)}
    (h : omissionApply eps c name cur d = .ok (res, omitted)) (hr : rankAsc eps cur = .ok ranked)
    (hnd : (cur.crit.map (·.id)).Nodup) (hco : ∀ a ∈ cur.co, a.vals.keys.Nodup)
    (hws : ∀ wc, cur.mp = .ws wc → ∀ c ∈ cur.crit, ∃ x ∈ wc, x.crit.id = c.id) :
    Spec.C15.explain name c cur res omitted ranked = "ok" := c15spec_explain_ok h hr hnd hco hws

/-! ## satisfiability of the hypotheses -/

example : (⟨1/2, 0, maxInt64⟩ : SplitCond Rat).validate = .ok () := by decide +kernel
example : (⟨1/2, 0, maxInt64⟩ : SplitCond Rat).split [1, 2, 3, 4, 5] = .ok ([1, 2], [3, 4, 5]) := by decide +kernel
example : (⟨1, 0, 2⟩ : SplitCond Rat).split [1, 2, 3] = .ok ([1, 2], [3]) := by decide +kernel

/- the hypotheses of `omission_equals_reduced_problem` are satisfiable and the conclusion is not vacuous:
    a two-criteria majority request, ordering `random`, half of the criteria omitted -/
example :
    let all : List (Crit Rat) := [{ id := "c1", type := "gain" }, { id := "c2", type := "cost" }]
    let co : List (Alt Rat) := [{ id := "a", vals := [("c1", 2), ("c2", 3)] }, { id := "b", vals := [("c1", 1), ("c2", 5)] }]
    let raw : RawParams Rat := .majority [("c1", 1), ("c2", 2)] "" 0 false ""
    let c : SplitCond Rat := ⟨1/2, 0, maxInt64⟩
    ∃ cur res omitted, requestState [] co all raw = .ok cur ∧
      omissionApply 0 c Facts.orderingRandom cur [1/4] = .ok (res, omitted) ∧
      (all.map (·.id)).Nodup ∧ (∀ w, raw = .choquet w → KeysSplit res.crit) ∧
      omitted.length = 1 ∧ res.crit.length = 1 := by
  intro all co raw c
  have hok : (match omissionApply 0 c Facts.orderingRandom ⟨[], co, all, .majority [("c1", 1), ("c2", 2)] "" 0 false ""⟩ [1/4] with
      | .ok p => p.2.length == 1 && p.1.crit.length == 1 | .error _ => false) = true := by
    decide +kernel
  cases hx : omissionApply 0 c Facts.orderingRandom ⟨[], co, all, .majority [("c1", 1), ("c2", 2)] "" 0 false ""⟩ [1/4] with
  | error e => rw [hx] at hok; cases hok
  | ok p =>
    rw [hx] at hok
    simp only [Bool.and_eq_true, beq_iff_eq] at hok
    exact ⟨_, p.1, p.2, rfl, hx, by decide, (fun w hw => by change RawParams.majority _ _ _ _ _ = _ at hw; cases hw), hok.1, hok.2⟩

/-
  Not proved here:
  * `ParseParams` (`parseParams`) and `Evaluate` (`evaluate`) used in the reduced-problem equivalence are
    assembled in Lemmas/BiasAReducedParse.lean / BiasAReducedDecision.lean from the per-method model
    functions; there is no single correspondence stage for the assembled functions (the per-method pieces
    are tied by the stages of C03, C05, C11–C13; the whole by the metamorphic oracle
    `omission-reduced-problem`).  A `Model/` definition of `MakeDecision`'s parse/evaluate dispatch would
    turn this into a stage (proposed in the report).
  * Choquet: the string fact `KeysSplit` (canonical keys split into their criteria) is a hypothesis —
    `String.splitOn` / `String.intercalate` have no usable lemmas and do not reduce in the kernel.
  * aspect elimination with tied weights: outside the claimed equivalence (ties are broken by the generator;
    `evaluate` uses the distinct-weights model `aspectEvaluate`).
  * the frequency statement for the by-probability orderings is proved as the per-round interval
    (`byProbability_pick`) with strictly antitone shares (`byProbability_shares`), not as a probability.
-/
/-- the constants and names this property depends on were re-read from the working tree on this run
    (none fell back to its pinned value because its declaration could not be located) -/
theorem facts_fresh : (Rdm.Facts.staleFacts.all fun n => !["orderingWeakest", "orderingStrongest", "orderingRandom", "orderingWeakestByProbability", "orderingStrongestByProbability", "wiringOrderings", "biasOmission", "choquetEps"].contains n) = true := by decide

/-! ## END TO END: a fired criteria omission inside a whole request

The theorems above are about one `CriteriaOmission.Apply` in isolation.  Below they are lifted to responses
of `decideWith` (the model of `MakeDecision`, Model/Decide.lean): **every** entry of `resp.biases` that carries an
omission report — at any position of any bias list, whatever biases fired before and after it, for all seven
methods — is one `omissionApply` from the state `s` the entry received to the state `s'` it handed on, where
`s` and `s'` are tied to the response by `E2EBFired` (Lemmas/E2EBiases.lean): `s` is what the model's loop over the
biases before the entry produces from the request's state (= the state handed on by the previous fired bias, or
the request's state: `e2eb_fired_prev`, `e2eb_fired_first`), `s'` is what the loop over the biases after it
starts from (and ends in `resp.final`, the state the method evaluates).  Every clause is then about the pair
`(s, s')`.  The criteria ids of `s` are distinct because the request's are and no bias breaks that
(`e2eb_fired_crit_nodup`), so that hypothesis of the isolated theorems disappears. -/

section e2e
variable {exp : α → α} {o : List (WCrit α) → List (WCrit α)} {req : Request α} {g : Int → Draws α}
  {resp : Response α} {params s s' : DMP α} {chosen : List (Chosen α (BProps α))} {i : Nat} {name : String}
  {prob : α} {c : SplitCond α} {ord : String} {seed : Int} {om : List (Crit α)}

/-- **Every omission entry of a response that carries a report is one `CriteriaOmission.Apply` on the state it
    received** (`E2EBFired`: that state `s`, the state `s'` handed on, and how both are tied to the response).
    The entry's name is `criteriaOmission`, its props are a split condition `c`, an ordering `ord` and a
    `randomSeed`, and the ordering resolver read the stream of that seed. -/
theorem fired_omission_is_one_apply (h : decideWith exp o req g = .ok resp)
    (hi : resp.biases[i]? = some ⟨name, prob, some (.omission om)⟩) :
    ∃ params chosen c ord seed s s',
      E2EBFired exp g req resp params chosen i ⟨name, prob, .split c ord seed⟩ (.omission om) s s' ∧
      name = Facts.biasOmission ∧ omissionApply choquetEpsOf c ord s (g seed) = .ok (s', om) := by
  obtain ⟨params, chosen, props, s, s', hf⟩ := e2eb_fired h hi
  obtain ⟨hn, c, ord, seed, hp, ha⟩ := e2eb_fired_omission hf
  dsimp only at hn hp
  subst hp
  exact ⟨params, chosen, c, ord, seed, s, s', hf, hn, ha⟩

/-- the `Apply` call of a fired omission entry -/
theorem fired_omission_apply
    (hf : E2EBFired exp g req resp params chosen i ⟨name, prob, .split c ord seed⟩ (.omission om) s s') :
    omissionApply choquetEpsOf c ord s (g seed) = .ok (s', om) := by
  obtain ⟨_, c', ord', seed', hp, ha⟩ := e2eb_fired_omission hf
  dsimp only at hp
  cases hp
  exact ha

/-- `omission_partition`, end to end: the reported omitted criteria and the criteria handed on partition the
    criteria RECEIVED (`om ++ s'.crit` is the ordering of the criteria of `s`, cut at the pivot); the number of
    omitted criteria is the clamped pivot `⌊n·ratio⌋` of the number `n` of criteria of `s` -/
theorem omission_partition_e2e
    (hf : E2EBFired exp g req resp params chosen i ⟨name, prob, .split c ord seed⟩ (.omission om) s s') :
    (om ++ s'.crit).Perm s.crit ∧ (om.length : Int) = c.pivot s.crit.length ∧
      c.min ≤ c.pivot s.crit.length ∧ c.pivot s.crit.length ≤ c.max ∧
      ∃ ordered, orderCriteria choquetEpsOf ord s (g seed) = .ok ordered ∧ om ++ s'.crit = ordered :=
  omission_partition (fired_omission_apply hf)

/-- `omission_disjoint`, end to end, without hypothesis: no reported omitted criterion is handed on -/
theorem omission_disjoint_e2e
    (hf : E2EBFired exp g req resp params chosen i ⟨name, prob, .split c ord seed⟩ (.omission om) s s') :
    ∀ x ∈ om, ∀ k ∈ s'.crit, x.id ≠ k.id :=
  omission_disjoint (fired_omission_apply hf) (e2eb_fired_crit_nodup hf).2.1

/-- the omitted criteria are criteria of the REQUEST or criteria an earlier bias reported as added — never
    anything else: they are criteria of `s`, and the criteria ids of `s` together with what the earlier biases
    omitted are the request's ids together with what the earlier biases added -/
theorem omitted_are_received_criteria
    (hf : E2EBFired exp g req resp params chosen i ⟨name, prob, .split c ord seed⟩ (.omission om) s s') :
    (∀ x ∈ om, x ∈ s.crit) ∧
      (outsOmitted (resp.biases.take i) ++ s.crit.map (·.id)).Perm
        (params.crit.map (·.id) ++ outsAdded (resp.biases.take i)) :=
  ⟨fun _ hx => (omission_partition_e2e hf).1.subset (List.mem_append_left _ hx),
   decideLoop_crit _ _ _ _ _ hf.before⟩

/-- `omission_restricts` / `omission_hands_on_restricted_state`, end to end: the state handed on is the state
    received with the omitted criteria deleted — criteria, every known alternative (same ids, same order,
    considered / not considered as before, kept values untouched), and the method parameters
    (`OnCriteriaRemoved` = `restrictParams`) -/
theorem omission_hands_on_restricted_state_e2e
    (hf : E2EBFired exp g req resp params chosen i ⟨name, prob, .split c ord seed⟩ (.omission om) s s') :
    s' = restrictState s s'.crit ∧
      List.Forall₂ (RestrictedTo s'.crit) s.co s'.co ∧ List.Forall₂ (RestrictedTo s'.crit) s.nc s'.nc ∧
      onRemoved s.mp s'.crit = .ok s'.mp :=
  ⟨omission_hands_on_restricted_state (fired_omission_apply hf), omission_restricts (fired_omission_apply hf)⟩

/-- … so when no later bias fires, the method evaluates the received state with the omitted criteria deleted -/
theorem last_fired_omission_decides_on_the_restricted_state (h : decideWith exp o req g = .ok resp)
    (hf : E2EBFired exp g req resp params chosen i ⟨name, prob, .split c ord seed⟩ (.omission om) s s')
    (hlast : ∀ j, i < j → ∀ x, resp.biases[j]? = some x → x.report = none) :
    resp.final = restrictState s resp.final.crit ∧
      evaluateWith o g (restrictState s resp.final.crit) = .ok resp.result := by
  have e := e2eb_fired_last hf hlast
  have hr := (omission_hands_on_restricted_state_e2e hf).1
  rw [← e] at hr
  exact ⟨hr, hr ▸ (e2e_decideWith_ok h).2⟩

end e2e

section e2eRat
variable {exp : Rat → Rat} {o : List (WCrit Rat) → List (WCrit Rat)} {req : Request Rat} {g : Int → Draws Rat}
  {resp : Response Rat} {params s s' : DMP Rat} {chosen : List (Chosen Rat (BProps Rat))} {i : Nat}
  {name : String} {prob : Rat} {c : SplitCond Rat} {ord : String} {seed : Int} {om : List (Crit Rat)}

/-- `omission_countOk`, end to end: the count clause of the spec, on the number of criteria RECEIVED -/
theorem omission_countOk_e2e
    (hf : E2EBFired exp g req resp params chosen i ⟨name, prob, .split c ord seed⟩ (.omission om) s s') :
    Spec.C15.countOk c s.crit.length om.length = true := omission_countOk (fired_omission_apply hf)

/-- weakest first, end to end: with ordering `weakest` no criterion handed on is less important — under the
    listener's ranking of the state RECEIVED — than an omitted one -/
theorem weakest_omits_least_important_e2e
    (hf : E2EBFired exp g req resp params chosen i ⟨name, prob, .split c Facts.orderingWeakest seed⟩
      (.omission om) s s') :
    ∃ ro rk, rankAsc choquetEpsOf s = .ok (ro ++ rk) ∧ om = ro.map (·.crit) ∧
      s'.crit = rk.map (·.crit) ∧ ∀ x ∈ ro, ∀ k ∈ rk, x.w ≤ k.w :=
  weakest_omits_least_important (fired_omission_apply hf)

/-- … and with `strongest` no omitted criterion is less important than one handed on -/
theorem strongest_omits_most_important_e2e
    (hf : E2EBFired exp g req resp params chosen i ⟨name, prob, .split c Facts.orderingStrongest seed⟩
      (.omission om) s s') :
    ∃ ro rk, (rankAsc choquetEpsOf s).map List.reverse = .ok (ro ++ rk) ∧ om = ro.map (·.crit) ∧
      s'.crit = rk.map (·.crit) ∧ ∀ x ∈ ro, ∀ k ∈ rk, k.w ≤ x.w :=
  strongest_omits_most_important (fired_omission_apply hf)

/-- **`omission_satisfies_spec`, end to end: every fired omission entry of a response satisfies the omission
    spec w.r.t. the state it received.**  `Spec.C15.check` (count, partition, restriction of considered and
    not-considered alternatives, importance for `weakest` / default / `strongest`) accepts
    `(s, s', reported omitted criteria)` with `ranked` the listener's ranking of `s` — whatever biases ran
    before and after, for all seven methods.
    Hypotheses about `s` that remain (the distinctness of the criteria ids is discharged): the value keys of
    its considered alternatives are distinct (Go maps); for weighted sum the parameter list has an entry for
    every criterion of `s`. -/
theorem omission_satisfies_spec_e2e {ranked : List (WCrit Rat)}
    (hf : E2EBFired exp g req resp params chosen i ⟨name, prob, .split c ord seed⟩ (.omission om) s s')
    (hr : rankAsc choquetEpsOf s = .ok ranked) (hco : ∀ a ∈ s.co, a.vals.keys.Nodup)
    (hws : ∀ wc, s.mp = .ws wc → ∀ x ∈ s.crit, ∃ y ∈ wc, y.crit.id = x.id) :
    Spec.C15.check ord c s s' om ranked = true ∧ Spec.C15.explain ord c s s' om ranked = "ok" :=
  ⟨omission_satisfies_spec (fired_omission_apply hf) hr (e2eb_fired_crit_nodup hf).2.1 hco hws,
   omission_explain_ok (fired_omission_apply hf) hr (e2eb_fired_crit_nodup hf).2.1 hco hws⟩

end e2eRat

/-! ### M6(a): responses in which only omissions fire -/

/-- **only omissions fire ⇒ the final criteria are the request's criteria minus the union of the reported
    omitted criteria.**  Precisely: the reported omitted criteria (all fired entries, in order) followed by the
    criteria the method evaluates are a permutation of the request's criteria; a criterion is evaluated iff it is
    a request criterion whose id no entry reports; and (unless nothing fired) every known alternative the method
    sees is the request's alternative at the same position restricted to the final criteria.
    NOT claimed — false for the model and the code: that the final criteria keep the request's order.  Each
    omission hands on the tail of ITS ordering of the criteria it received (`omission_partition_e2e`), so the
    final order is that of the last fired omission's ordering (see the example below the theorem). -/
theorem only_omissions_final_criteria {exp : α → α} {o : List (WCrit α) → List (WCrit α)} {req : Request α}
    {g : Int → Draws α} {resp : Response α} (h : decideWith exp o req g = .ok resp)
    (hall : E2EBOnlyOmissions resp.biases) :
    (e2ebOmitted resp.biases ++ resp.final.crit).Perm req.crit ∧
    (∀ x, x ∈ resp.final.crit ↔ x ∈ req.crit ∧ x.id ∉ (e2ebOmitted resp.biases).map (·.id)) ∧
    ∃ params chosen, prepare req = .ok (params, chosen) ∧
      (resp.final = params ∨ (resp.final.co = params.co.map (restrictAlt resp.final.crit) ∧
                               resp.final.nc = params.nc.map (restrictAlt resp.final.crit))) := by
  obtain ⟨params, chosen, hprep, hrun, _⟩ := e2eb_decide_run h
  obtain ⟨hperm, halts⟩ := e2eb_loop_only_omissions chosen _ _ _ _ hrun hall
  obtain ⟨hv, mp, _, hpp, _⟩ := decidePrepare_ok hprep
  obtain ⟨_, _, _, hcr, _⟩ := e2e_prepareParams_ok hpp
  rw [hcr] at hperm
  have hnd : (req.crit.map (·.id)).Nodup := by
    unfold validateRequest at hv
    dsimp only at hv
    split at hv
    · simp [throw, throwThe, MonadExceptOf.throw, bind, Except.bind] at hv
    · obtain ⟨_, hvc, _⟩ := BiasA.bind_ok.mp hv
      exact (decideValidateCriteria_nodup _ _ hvc).1
  refine ⟨hperm, ?_, params, chosen, hprep, halts⟩
  have hnd' : ((e2ebOmitted resp.biases ++ resp.final.crit).map (·.id)).Nodup :=
    (hperm.map _).nodup_iff.mpr hnd
  rw [List.map_append, List.nodup_append] at hnd'
  intro x
  constructor
  · intro hx
    refine ⟨hperm.subset (List.mem_append_right _ hx), ?_⟩
    intro hmem
    exact hnd'.2.2 _ hmem _ (List.mem_map_of_mem hx) rfl
  · rintro ⟨hx, hnot⟩
    rcases List.mem_append.mp (hperm.symm.subset hx) with hx' | hx'
    · exact absurd (List.mem_map_of_mem hx') hnot
    · exact hx'

/-- the hypotheses are satisfiable: two omissions fire (an entry between them does not), nothing else -/
example : ∃ resp, Rdm.decide id (e2ebExReq [e2ebExOmission, e2ebExSkipped, e2ebExOmission]) e2ebExSeeds = .ok resp ∧
    E2EBOnlyOmissions resp.biases ∧ (e2ebOmitted resp.biases).length = 1 := by
  have hb : (match Rdm.decide id (e2ebExReq [e2ebExOmission, e2ebExSkipped, e2ebExOmission]) e2ebExSeeds with
      | .ok r => e2ebOnlyOmissionsB r.biases && decide ((e2ebOmitted r.biases).length = 1)
      | .error _ => false) = true := by decide +kernel
  cases hx : Rdm.decide id (e2ebExReq [e2ebExOmission, e2ebExSkipped, e2ebExOmission]) e2ebExSeeds with
  | error e => rw [hx] at hb; cases hb
  | ok r =>
    rw [hx] at hb
    simp only [Bool.and_eq_true, decide_eq_true_eq] at hb
    exact ⟨r, rfl, e2eb_onlyOmissions_of_B hb.1, hb.2⟩

/-- the order is NOT preserved: criteria `c0, c1, c2`, one omission with the shuffled ordering `c1, c2, c0` and
    ratio ½ omits `c1`; the method evaluates `c2, c0` — the request's criteria minus the omitted one, in the
    ordering's order, not the request's -/
example : (match Rdm.decide id (e2ebExReq3 [e2ebExOmission]) e2ebExSeeds with
    | .ok r => r.final.crit.map (·.id) == ["c2", "c0"] &&
        (r.biases.all fun x => match x.report with | some (.omission _) => true | _ => false)
    | .error _ => false) = true := by decide +kernel

/-! ### the hypotheses are satisfiable: a request in which the omission is the second fired bias -/

/-- fatigue fires, an entry does not fire, then the omission fires: the response exists and its third entry
    carries an omission report -/
example : ∃ resp name prob om n0 p0 r0,
    Rdm.decide id (e2ebExReq [e2ebExFatigue, e2ebExSkipped, e2ebExOmission]) e2ebExSeeds = .ok resp ∧
    resp.biases[2]? = some ⟨name, prob, some (.omission om)⟩ ∧ resp.biases[0]? = some ⟨n0, p0, some r0⟩ := by
  obtain ⟨resp, name, prob, rep, hr, h2, hk, n0, p0, r0, h0⟩ := e2eb_firedWith
    (r := Rdm.decide id (e2ebExReq [e2ebExFatigue, e2ebExSkipped, e2ebExOmission]) e2ebExSeeds)
    (j := 0) (i := 2) (k := e2ebIsOmission) (by decide +kernel)
  cases rep with
  | omission om => exact ⟨resp, name, prob, om, n0, p0, r0, hr, h2, h0⟩
  | _ => cases hk

/-- … and on it every hypothesis of `omission_satisfies_spec_e2e` holds of the state the omission received (the
    state the fatigue handed on), so the spec accepts the entry -/
example : ∃ resp name prob om c ord s s' ranked,
    Rdm.decide id (e2ebExReq [e2ebExFatigue, e2ebExSkipped, e2ebExOmission]) e2ebExSeeds = .ok resp ∧
    resp.biases[2]? = some ⟨name, prob, some (.omission om)⟩ ∧ s ≠ s' ∧
    Spec.C15.check ord c s s' om ranked = true := by
  obtain ⟨resp, name, prob, rep, hr, h2, hk, _⟩ := e2eb_firedWith
    (r := Rdm.decide id (e2ebExReq [e2ebExFatigue, e2ebExSkipped, e2ebExOmission]) e2ebExSeeds)
    (j := 0) (i := 2) (k := e2ebIsOmission) (by decide +kernel)
  cases rep with
  | omission om =>
    obtain ⟨params, chosen, c, ord, seed, s, s', hf, _, ha⟩ := fired_omission_is_one_apply hr h2
    have hs := e2eb_received_sat hf (k := fun s =>
      (rankAsc choquetEpsOf s).isOk && decide (∀ a ∈ s.co, a.vals.keys.Nodup) &&
      (match s.mp with
       | .ws wc => decide (∀ x ∈ s.crit, ∃ y ∈ wc, y.crit.id = x.id)
       | _ => true) && decide (s.crit.length = 2)) (by decide +kernel)
    simp only [Bool.and_eq_true, decide_eq_true_eq] at hs
    obtain ⟨⟨⟨hrank, hco⟩, hws⟩, hlen⟩ := hs
    obtain ⟨ranked, hrank⟩ := e2e_ok_of_isOk hrank
    have hws' : ∀ wc, s.mp = .ws wc → ∀ x ∈ s.crit, ∃ y ∈ wc, y.crit.id = x.id := by
      intro wc hwc
      rw [hwc] at hws
      simpa using hws
    have hne : s ≠ s' := by
      intro e
      have hp := (omission_partition_e2e hf).1.length_eq
      have hc := omission_countOk_e2e hf
      rw [← e, List.length_append, hlen] at hp
      have hom : om.length = 0 := by omega
      rw [hlen, hom] at hc
      obtain ⟨_, c', ord', seed', hpr, _⟩ := e2eb_fired_omission hf
      have hch : chosen[2]? = some ⟨name, prob, .split c ord seed⟩ := hf.entry
      have hprep := hf.prepared
      have : chosen = [⟨Facts.biasFatigue, 1, (e2ebExFatigue).props⟩, ⟨Facts.biasReversal, 1 / 4, e2ebExSkipped.props⟩,
          ⟨Facts.biasOmission, 1, e2ebExOmission.props⟩] := by
        have : prepare (e2ebExReq [e2ebExFatigue, e2ebExSkipped, e2ebExOmission]) =
            .ok (⟨[⟨"d", [("c0", 0), ("c1", 4)]⟩], [⟨"b", [("c0", 3), ("c1", 1)]⟩, ⟨"a", [("c0", 1), ("c1", 2)]⟩],
              [e2eExC0, e2eExC1], .ws [⟨e2eExC0, 1⟩, ⟨e2eExC1, 2⟩]⟩,
             [⟨Facts.biasFatigue, 1, (e2ebExFatigue).props⟩, ⟨Facts.biasReversal, 1 / 4, e2ebExSkipped.props⟩,
              ⟨Facts.biasOmission, 1, e2ebExOmission.props⟩]) := rfl
        rw [this] at hprep
        cases hprep
        rfl
      subst this
      simp only [List.getElem?_cons_succ, List.getElem?_cons_zero, Option.some.injEq] at hch
      have hc' : c = ⟨1 / 2, 0, maxInt64⟩ := by
        have := congrArg Chosen.props hch
        simp only [e2ebExOmission, BProps.split.injEq] at this
        exact this.1.symm
      subst hc'
      revert hc
      decide +kernel
    exact ⟨resp, name, prob, om, c, ord, s, s', ranked, hr, h2, hne,
      (omission_satisfies_spec_e2e hf hrank hco hws').1⟩
  | _ => cases hk

end Rdm.Props.C15
