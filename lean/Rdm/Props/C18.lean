/-
  C18 — concealed and mixed criteria are well-formed additions.
  Property theorems only (helper lemmas live in Rdm/Lemmas/BiasB*.lean).

  Model: Rdm/Model/{RefCriterion,BiasesB}.lean, tied bit-for-bit to the Go code by the stages `refcrit`,
  `conceal-apply`, `mixing-apply` of `bin/check C18`; the decidable statement Rdm/Spec/C18.lean is evaluated
  on the implementation's own output by the driver.
-/
import Rdm.Lemmas.BiasBConceal
import Rdm.Lemmas.BiasBRef
import Rdm.Lemmas.BiasBNames
import Rdm.Lemmas.BiasBRat
import Rdm.Lemmas.BiasBWeight
import Rdm.Lemmas.BiasBParams
import Rdm.Spec.C18
import Rdm.Lemmas.E2EBiasesState
import Rdm.Lemmas.E2EBiasesParts
import Rdm.Lemmas.E2EBiasesExample
import Mathlib.Tactic.NormNum
namespace Rdm.Props.C18
open Rdm

/-! ### bridges: constants of the property statement = constants extracted from the code -/

theorem gain_is_gain : Facts.critGain = "gain" := rfl
theorem default_mixing_ratio_is_half : (Num.ofConst Facts.defaultMixingRatio : Rat) = 1 / 2 := by
  simp only [Num.ofConst_rat, Facts.defaultMixingRatio]; norm_num
theorem default_concealment_scaling_is_one : (Num.ofConst Facts.defaultConcealmentScaling : Rat) = 1 := by
  simp only [Num.ofConst_rat, Facts.defaultConcealmentScaling]; norm_num
theorem default_bounding_is_off : (Num.ofConst Facts.defaultBoundingScaling : Rat) = -1 := by
  simp only [Num.ofConst_rat, Facts.defaultBoundingScaling]; norm_num
theorem default_reference_type_is_importance_ratio : refFactoryIds.head? = some "importanceRatio" := rfl

/-! ### concealment (any number type) -/

/-- A successful concealment appends exactly one criterion: it is a gain criterion, carries the
    generated name, and that name is the id of no current criterion. -/
theorem conceal_appends_one_gain_criterion {α : Type} [Num α] {eps : α} {orig cur : DMP α} {p : Props α}
    {rd g : Draws α} {res : DMP α} {rep : ConcealReport α}
    (h : conceal eps orig cur p rd g = .ok (res, rep)) :
    (∃ c : Crit α, res.crit = cur.crit ++ [c] ∧ c.id = rep.id ∧ c.type = "gain" ∧ c.range = some rep.range) ∧
    rep.id = notUsedName (cur.crit.map (·.id)) "__concealedCriterion__" ∧
    ∀ x ∈ cur.crit, x.id ≠ rep.id := by
  obtain ⟨h1, h2, h3, h4, _⟩ := conceal_ok h
  refine ⟨⟨_, h3, rfl, by rw [h2]; rfl, rfl⟩, h1, ?_⟩
  intro x hx e
  have := h4 x hx
  simp [e] at this

/-- Frame: the considered / not-considered split is unchanged, and every resulting alternative is a
    current alternative with exactly one value appended — the reported value for the new criterion —
    so every old value is untouched; one value is reported per known alternative. -/
theorem conceal_gives_every_alternative_a_value_and_keeps_the_rest {α : Type} [Num α] {eps : α}
    {orig cur : DMP α} {p : Props α} {rd g : Draws α} {res : DMP α} {rep : ConcealReport α}
    (h : conceal eps orig cur p rd g = .ok (res, rep)) :
    res.co.map (·.id) = cur.co.map (·.id) ∧ res.nc.map (·.id) = cur.nc.map (·.id) ∧
    rep.values.length = (cur.co ++ cur.nc).length ∧
    ∀ a' ∈ res.co ++ res.nc, ∃ a ∈ cur.co ++ cur.nc, ∃ v,
      a'.id = a.id ∧ a'.vals = a.vals ++ [(rep.id, v)] ∧ a.vals.has rep.id = false ∧ (a.id, v) ∈ rep.values := by
  obtain ⟨_, _, _, _, h5, h6, h7, h8, _⟩ := conceal_ok h
  refine ⟨h5, h6, h8, ?_⟩
  intro a' ha'
  obtain ⟨a, ha, v, e1, e2, e3, e4⟩ := h7 a' ha'
  exact ⟨a, ha, v, by simpa using e1, e2, e3, e4⟩

/-- Naming, unconditionally: whatever ids exist (foreign ids with the prefix, gaps left by omitted
    concealed criteria, …) the generated name is the id of no criterion, and it carries the prefix.
    `Criteria.NotUsedName` starts at the number of prefixed ids and keeps counting while the candidate is
    in use; the candidates are pairwise different, so at most `ids.length` of them can be taken. -/
theorem concealed_name_is_fresh (ids : List String) :
    notUsedName ids "__concealedCriterion__" ∉ ids ∧
    (notUsedName ids "__concealedCriterion__").startsWith "__concealedCriterion__" = true :=
  ⟨notUsedName_fresh ids _, notUsedName_prefixed ids _⟩

/-- … more precisely it is the first free numbered name `base`, `base1`, `base2`, … from the number `n` of
    prefixed ids on (at most `n + ids.length`): every earlier candidate is in use. -/
theorem concealed_name_is_the_first_free_numbered_name (ids : List String) :
    ∃ k, (ids.filter fun i => i.startsWith "__concealedCriterion__").length ≤ k ∧
      k ≤ (ids.filter fun i => i.startsWith "__concealedCriterion__").length + ids.length ∧
      notUsedName ids "__concealedCriterion__" = numberedName "__concealedCriterion__" k ∧
      numberedName "__concealedCriterion__" k ∉ ids ∧
      ∀ j, (ids.filter fun i => i.startsWith "__concealedCriterion__").length ≤ j → j < k →
        numberedName "__concealedCriterion__" j ∈ ids :=
  notUsedName_spec ids _

/-- Naming under the consecutive-numbering invariant: while the ids carrying the concealed prefix are
    exactly the first `k` generated names (no foreign id has the prefix, earlier concealed criteria are
    numbered consecutively), the next generated name is the `k`-th numbered name, is new, and appending it
    keeps the invariant. -/
theorem concealed_name_is_fresh_under_the_naming_invariant {ids : List String} {k : Nat}
    (hinv : NamingInvariant ids "__concealedCriterion__" k) :
    notUsedName ids "__concealedCriterion__" = numberedName "__concealedCriterion__" k ∧
    notUsedName ids "__concealedCriterion__" ∉ ids ∧
    NamingInvariant (ids ++ [notUsedName ids "__concealedCriterion__"]) "__concealedCriterion__" (k + 1) :=
  ⟨(notUsedName_under_invariant hinv).1, (notUsedName_under_invariant hinv).2, namingInvariant_step hinv⟩

example : NamingInvariant ["c0", "c1"] "__concealedCriterion__" 0 := by simp [NamingInvariant]
example : NamingInvariant ["c0", "__concealedCriterion__", "c1", "__concealedCriterion__1"] "__concealedCriterion__" 2 := by
  simp [NamingInvariant, List.range, List.range.loop, numberedName]
  rfl

/-- A concealment never fails because of the name — for every current state, with no hypothesis on the
    earlier biases: the id the concealed criterion gets is the id of no current criterion, so
    `Criteria.Add` accepts the criterion, and `WithCriterion` accepts the value for every alternative
    whose value keys are criteria ids (a coherent state).  Whether `conceal` succeeds or fails is thus
    decided by the other steps (props, reference criterion, listener, `Merge`) only. -/
theorem conceal_name_never_collides {α : Type} [Num α] (cur : DMP α) :
    (∀ x ∈ cur.crit, x.id ≠ notUsedName (cur.crit.map (·.id)) "__concealedCriterion__") ∧
    (∀ c : Crit α, c.id = notUsedName (cur.crit.map (·.id)) "__concealedCriterion__" →
      critsAdd cur.crit c = .ok (cur.crit ++ [c])) ∧
    (∀ (a : Alt α) (v : α), (∀ kv ∈ a.vals, kv.1 ∈ cur.crit.map (·.id)) →
      a.withCrit (notUsedName (cur.crit.map (·.id)) "__concealedCriterion__") v =
        .ok { a with vals := a.vals ++ [(notUsedName (cur.crit.map (·.id)) "__concealedCriterion__", v)] }) := by
  have hfresh := notUsedName_fresh (cur.crit.map (·.id)) "__concealedCriterion__"
  have h1 : ∀ x ∈ cur.crit, x.id ≠ notUsedName (cur.crit.map (·.id)) "__concealedCriterion__" := by
    intro x hx e
    exact hfresh (e ▸ List.mem_map_of_mem hx)
  refine ⟨h1, ?_, ?_⟩
  · intro c hc
    unfold critsAdd
    rw [if_neg]
    · rfl
    · simp only [List.any_eq_true, beq_iff_eq, not_exists, not_and]
      intro x hx e
      exact h1 x hx (e.trans hc)
  · intro a v hkeys
    unfold Alt.withCrit
    rw [if_neg]
    · rfl
    · intro hhas
      unfold KMap.has at hhas
      rw [Option.isSome_iff_exists] at hhas
      obtain ⟨w, hw⟩ := hhas
      exact hfresh (hkeys _ (lookup_mem hw))

/-- The state that collided before the fix (conceal, conceal, omit the first concealed criterion,
    conceal — the only id left with the prefix is `__concealedCriterion__1`): the generated name is now
    `__concealedCriterion__2`. -/
theorem conceal_after_conceal_conceal_omit_gets_the_next_free_name {ids : List String}
    (hids : (ids.filter fun i => i.startsWith "__concealedCriterion__") = ["__concealedCriterion__" ++ "1"]) :
    notUsedName ids "__concealedCriterion__" = "__concealedCriterion__2" := by
  rw [notUsedName_skips_used_name hids]; rfl

example : ((["c0", "__concealedCriterion__1"]).filter fun i => i.startsWith "__concealedCriterion__")
    = ["__concealedCriterion__" ++ "1"] := by simp

/-! ### concealment (exact arithmetic) -/

/-- Every concealed value lies in the new criterion's range (the reference range scaled about its
    centre) when no bounding is configured, for draws in [0,1) and an ordered range. -/
theorem concealed_values_lie_in_the_scaled_range {eps : Rat} {orig cur : DMP Rat} {p : Props Rat}
    {rd g : Draws Rat} {res : DMP Rat} {rep : ConcealReport Rat}
    (h : conceal eps orig cur p rd g = .ok (res, rep))
    (hg : ∀ u ∈ g, 0 ≤ u ∧ u < 1) (hr : rep.range.1 ≤ rep.range.2)
    (hoff : ∀ b, boundingOfProps p = .ok b → ¬ (0 : Rat) < b.scaling ∧ b.nonNeg = false) :
    ∀ iv ∈ rep.values, rep.range.1 ≤ iv.2 ∧ iv.2 ≤ rep.range.2 := by
  obtain ⟨_, _, _, _, _, _, _, _, b, hb, hv⟩ := conceal_ok h
  intro iv hiv
  obtain ⟨u, hu, e⟩ := hv iv hiv
  obtain ⟨hs, hn⟩ := hoff b hb
  rw [e]
  exact concealValue_in_range b rep.range.1 rep.range.2 u hs hn hr (hg u hu).1 (hg u hu).2

/-- With a positive `allowedValuesRangeScaling` every concealed value lies in the allowed range (the new
    criterion's range scaled about its centre by that factor). -/
theorem concealed_values_lie_in_the_bounded_range {eps : Rat} {orig cur : DMP Rat} {p : Props Rat}
    {rd g : Draws Rat} {res : DMP Rat} {rep : ConcealReport Rat}
    (h : conceal eps orig cur p rd g = .ok (res, rep)) :
    ∃ b, boundingOfProps p = .ok b ∧
      ((0 : Rat) < b.scaling → (allowedRange b rep.range).1 ≤ (allowedRange b rep.range).2 →
        ∀ iv ∈ rep.values, (allowedRange b rep.range).1 ≤ iv.2 ∧ iv.2 ≤ (allowedRange b rep.range).2) := by
  obtain ⟨_, _, _, _, _, _, _, _, b, hb, hv⟩ := conceal_ok h
  refine ⟨b, hb, ?_⟩
  intro hs hr iv hiv
  obtain ⟨u, _, e⟩ := hv iv hiv
  rw [e]
  exact bound_in_allowed b rep.range _ hs hr

/-- The range of the concealed criterion stays ordered for a non-negative `newCriterionScaling`. -/
theorem scaled_range_is_ordered (r : Rat × Rat) (s : Rat) (hr : r.1 ≤ r.2) (hs : 0 ≤ s) :
    (scaleEqually r s).1 ≤ (scaleEqually r s).2 := scaleEqually_ordered r s hr hs

/-- Weight-based methods (weighted sum, OWA, ELECTRE III, majority, aspect elimination): the parameters
    a listener returns for the new criterion satisfy the weight clause of the spec — the new weight is
    `u · w_ref` for the drawn `u ∈ [0,1)`: in `[0, w_ref)` for a positive reference weight. -/
theorem added_weight_is_a_seeded_fraction_of_the_reference_weight {mp : MParams Rat} {crit ref : Crit Rat}
    {u : Rat} {d d' : Draws Rat} {add : Addition Rat}
    (h : onAdded mp crit ref (u :: d) = .ok (add, d'))
    (hw : (Spec.C18.weightOf mp ref.id).isSome) (hu0 : 0 ≤ u) (hu1 : u < 1) :
    Spec.C18.weightClause mp add ref.id crit.id = true := onAdded_weightClause h hw hu0 hu1

/-- Parameters extended consistently, for every method whose `Merge` accepts an addition (weighted sum,
    ELECTRE III, majority, aspect elimination, satisfaction): after `Merge(params, OnCriterionAdded(..))` the
    parameters satisfy the clause `paramsExtended` of the spec — every old entry untouched, exactly one entry
    for the new criterion (weight / ELECTRE entry / one threshold per level).  `OnCriterionAdded` may be
    evaluated on other parameters of the same method than `Merge` (concealment passes `original`'s).
    Hypotheses: the Go maps involved have unique keys (always true of a Go map).
    Not covered because false for the code: OWA (`owa_merge_rejects_every_addition`) and Choquet (`Merge`
    collides on the re-emitted capacities) reject every addition — known findings owa-merge / choquet-merge,
    which the model reproduces. -/
theorem parameters_are_extended_for_the_new_criterion :
    (∀ {wc wc0 : List (WCrit Rat)} {crit ref : Crit Rat} {d d' : Draws Rat} {add : Addition Rat} {mp' : MParams Rat},
      onAdded (.ws wc0) crit ref d = .ok (add, d') → mergeParams (.ws wc) add = .ok mp' →
      Spec.C18.paramsExtended (.ws wc) mp' [crit.id] = true) ∧
    (∀ {ec ec0 : KMap (ECrit Rat)} {dist dist0 : LinFun Rat} {crit ref : Crit Rat} {d d' : Draws Rat}
      {add : Addition Rat} {mp' : MParams Rat},
      (ec.map (·.1)).Nodup →
      onAdded (.electre ec0 dist0) crit ref d = .ok (add, d') →
      mergeParams (.electre ec dist) add = .ok mp' →
      Spec.C18.paramsExtended (.electre ec dist) mp' [crit.id] = true) ∧
    (∀ {w w0 : KMap Rat} {cur cur0 : String} {seed seed0 : Int} {rnd rnd0 : Bool} {dr dr0 : String}
      {crit ref : Crit Rat} {d d' : Draws Rat} {add : Addition Rat} {mp' : MParams Rat},
      (w.map (·.1)).Nodup →
      onAdded (.majority w0 cur0 seed0 rnd0 dr0) crit ref d = .ok (add, d') →
      mergeParams (.majority w cur seed rnd dr) add = .ok mp' →
      Spec.C18.paramsExtended (.majority w cur seed rnd dr) mp' [crit.id] = true) ∧
    (∀ {fn fn0 : String} {lv lv0 : Levels Rat} {seed seed0 : Int} {w w0 : KMap Rat} {rnd rnd0 : Bool}
      {crit ref : Crit Rat} {d d' : Draws Rat} {add : Addition Rat} {mp' : MParams Rat},
      (w.map (·.1)).Nodup → (∀ ts, lv = .thresholds ts → ∀ t ∈ ts, (t.map (·.1)).Nodup) →
      onAdded (.aspect fn0 lv0 seed0 w0 rnd0) crit ref d = .ok (add, d') →
      mergeParams (.aspect fn lv seed w rnd) add = .ok mp' →
      Spec.C18.paramsExtended (.aspect fn lv seed w rnd) mp' [crit.id] = true) ∧
    (∀ {fn fn0 : String} {lv lv0 : Levels Rat} {seed seed0 : Int} {cur cur0 : String} {rnd rnd0 : Bool}
      {crit ref : Crit Rat} {d d' : Draws Rat} {add : Addition Rat} {mp' : MParams Rat},
      (∀ ts, lv = .thresholds ts → ∀ t ∈ ts, (t.map (·.1)).Nodup) →
      onAdded (.satisf fn0 lv0 seed0 cur0 rnd0) crit ref d = .ok (add, d') →
      mergeParams (.satisf fn lv seed cur rnd) add = .ok mp' →
      Spec.C18.paramsExtended (.satisf fn lv seed cur rnd) mp' [crit.id] = true) :=
  ⟨fun h1 h2 => ws_parameters_extended h1 h2, fun hnd h1 h2 => electre_parameters_extended hnd h1 h2,
   fun hnd h1 h2 => majority_parameters_extended hnd h1 h2,
   fun hnd hndl h1 h2 => aspect_parameters_extended hnd hndl h1 h2,
   fun hndl h1 h2 => satisf_parameters_extended hndl h1 h2⟩

/-- the hypotheses are satisfiable: a satisfaction heuristic with two threshold levels accepts an addition -/
example : ∃ mp', mergeParams (.satisf "thresholds" (.thresholds [[("c0", (1 : Rat))], [("c0", 2)]]) 0 "" false)
    (.satisf (.thresholds [[("n", (5 : Rat))], [("n", 6)]])) = .ok mp' := ⟨_, rfl⟩

/-- OWA: `Merge` rejects every addition (the model reproduces the Go panic). -/
theorem owa_merge_rejects_every_addition {α : Type} [Num α] (wc : List (WCrit α)) (add : Addition α) :
    ∃ e, mergeParams (.owa wc) add = .error e := by
  cases add <;> exact ⟨_, rfl⟩

theorem fraction_bounds (u w : Rat) (hu0 : 0 ≤ u) (hu1 : u < 1) (hw : 0 < w) : 0 ≤ u * w ∧ u * w < w :=
  fraction_of_positive u w hu0 hu1 hw

/-! ### mixing -/

/-- Fewer than two current criteria: mixing returns the current state unchanged and reports nothing. -/
theorem mixing_is_a_noop_below_two_criteria {α : Type} [Num α] (eps : α) (orig cur : DMP α) (p : Props α)
    (rd g : Draws α) (hlen : cur.crit.length < 2) : mixing eps orig cur p rd g = .ok (cur, none) :=
  mixing_noop hlen

/-- The index arithmetic of `selectCriteriaToMix` (`i₁ = ⌊u₁·n⌋`, `off = ⌊u₂·(n−2)⌋ + 1`,
    `i₂ = (i₁ + off) mod n`): two different in-range indices for `n ≥ 2` and draws in [0,1). -/
theorem mixing_selects_two_distinct_in_range_indices (n : Nat) (u1 u2 : Rat) (hn : 2 ≤ n)
    (h10 : 0 ≤ u1) (h11 : u1 < 1) (h20 : 0 ≤ u2) (h21 : u2 < 1) :
    0 ≤ (mixIndices n u1 u2).1 ∧ (mixIndices n u1 u2).1 < n ∧
    0 ≤ (mixIndices n u1 u2).2 ∧ (mixIndices n u1 u2).2 < n ∧
    (mixIndices n u1 u2).1 ≠ (mixIndices n u1 u2).2 := mixIndices_distinct n u1 u2 hn h10 h11 h20 h21

/-- A mixed value `ρ·c₁ + (1−ρ)·c₂` lies between the two rescaled components for `ρ ∈ [0,1]`. -/
theorem mixed_value_lies_between_the_components (ρ x y : Rat) (h0 : 0 ≤ ρ) (h1 : ρ ≤ 1) :
    min x y ≤ mixValue ρ x y ∧ mixValue ρ x y ≤ max x y := mixValue_between ρ x y h0 h1

/-- A rescaled component lies in `[0, T]` when the criterion's (non-degenerate) range contains the
    value; cost criteria are inverted (`(max − v)·T/(max − min)`). -/
theorem rescaled_component_lies_in_target (c : Crit Rat) (lo hi t v : Rat) (hlt : lo < hi) (ht : 0 ≤ t)
    (hv0 : lo ≤ v) (hv1 : v ≤ hi) :
    0 ≤ scaleValue c (lo, hi) (getScaleRatio (0, t) (lo, hi)) (0, t) v ∧
    scaleValue c (lo, hi) (getScaleRatio (0, t) (lo, hi)) (0, t) v ≤ t :=
  scaleValue_in_target c lo hi t v hlt ht hv0 hv1

/-- A successful mixing of a state with at least two criteria appends exactly one gain criterion named
    `__c₁+c₂__` after the two criteria picked from `original` by the index arithmetic, with an id that no
    current criterion has; the split is unchanged; every mixed value is `ρ·c₁ + (1−ρ)·c₂` of the two
    reported components.  The resulting alternatives are alternatives of **`original`** with the new
    value appended: existing values are untouched only relative to `original` (for the first bias of a
    sequence `original = current`; otherwise this is the C07/C18 defect the check reports). -/
theorem mixing_appends_one_gain_criterion {α : Type} [Num α] {eps : α} {orig cur : DMP α} {p : Props α}
    {rd g : Draws α} {res : DMP α} {rep : Option (MixReport α)} (hlen : 2 ≤ cur.crit.length)
    (h : mixing eps orig cur p rd g = .ok (res, rep)) :
    ∃ r : MixReport α, rep = some r ∧
      (∃ c : Crit α, res.crit = cur.crit ++ [c] ∧ c.id = r.new.id ∧ c.type = "gain") ∧
      (∃ c1 ∈ orig.crit, ∃ c2 ∈ orig.crit, r.c1.id = c1.id ∧ r.c2.id = c2.id ∧
          r.new.id = "__" ++ c1.id ++ "+" ++ c2.id ++ "__") ∧
      (∀ x ∈ cur.crit, x.id ≠ r.new.id) ∧
      res.co.map (·.id) = cur.co.map (·.id) ∧ res.nc.map (·.id) = cur.nc.map (·.id) ∧
      (∀ a' ∈ res.co ++ res.nc, ∃ a ∈ orig.co ++ orig.nc, ∃ v,
          a'.id = a.id ∧ a'.vals = a.vals ++ [(r.new.id, v)] ∧ a.vals.has r.new.id = false) ∧
      (∀ am ∈ r.new.values, ∃ x y, (am.1, x) ∈ r.c1.values ∧ r.c2.values.get? am.1 = some y ∧
          am.2 = mixValue (p.num "mixingRatio" (Num.ofConst Facts.defaultMixingRatio)) x y) := by
  unfold mixing at h
  rw [if_neg (by omega)] at h
  dsimp only at h
  split at h
  · simp [throw, throwThe, MonadExceptOf.throw] at h
  · obtain ⟨d1, _, h⟩ := bind_eq_ok.mp h
    obtain ⟨d2, _, h⟩ := bind_eq_ok.mp h
    split at h
    · simp [throw, throwThe, MonadExceptOf.throw] at h
    · obtain ⟨r, hr, ⟨c1, c2, hc1, hc2, e1, _, e2, _, e3⟩, ht, ⟨target, hcr⟩, hf, hco, hnc, hal, hmx⟩ := mixingCore_ok h
      refine ⟨r, hr, ⟨_, hcr, rfl, by rw [ht]; rfl⟩,
        ⟨c1, List.mem_of_getElem? hc1, c2, List.mem_of_getElem? hc2, e1, e2, e3⟩, ?_, hco, hnc, ?_, hmx⟩
      · intro x hx e
        have := hf x hx
        simp [e] at this
      · intro a' ha'
        obtain ⟨a, ha, v, i1, i2, i3⟩ := hal a' ha'
        exact ⟨a, ha, v, by simpa using i1, i2, i3⟩

/-! ### reference criterion -/

/-- Whatever the strategy (`importanceRatio`, `randomUniform`, `randomWeighted`) and its parameters, the
    reference criterion is one of the ranked — i.e. existing — criteria. -/
theorem reference_criterion_is_an_existing_criterion {α : Type} [Num α] {p : Props α}
    {ranked : List (WCrit α)} {d : Draws α} {c : Crit α} (h : refCriterion p ranked d = .ok c) :
    c ∈ ranked.map (·.crit) := refCriterion_mem h

theorem eqCrit_refl (c : Crit Rat) : Spec.C18.eqCrit c c = true := eqCritQ_refl c

/-- The checker the driver evaluates on the implementation's output (`check-c18-refcrit`) accepts the
    model's reference criterion for every ranking, strategy, parameters and random stream. -/
theorem spec_accepts_the_models_reference_criterion {p : Props Rat} {ranked : List (WCrit Rat)}
    {d : Draws Rat} {c : Crit Rat} (h : refCriterion p ranked d = .ok c) :
    Spec.C18.refCritOk ranked c = true := by
  have hm := refCriterion_mem h
  rw [List.mem_map] at hm
  obtain ⟨w, hw, rfl⟩ := hm
  unfold Spec.C18.refCritOk
  rw [List.any_eq_true]
  exact ⟨w, hw, eqCrit_refl _⟩

/-- `FindCriterionInRange` answers on every non-empty ranking, with a member of it. -/
theorem find_criterion_in_range_returns_a_member {α : Type} [Num α] (ranked : List (WCrit α)) (e : α)
    (hne : ranked ≠ []) : ∃ w ∈ ranked, findCriterionInRange ranked e = .ok w.crit := by
  obtain ⟨c, hc⟩ := findCriterionInRange_total e hne
  obtain ⟨w, hw, rfl⟩ := findCriterionInRange_mem hc
  exact ⟨w, hw, hc⟩

/-- The uniform strategy's index `⌊u·n⌋` is a valid index for `u ∈ [0,1)`. -/
theorem uniform_index_is_in_range (u : Rat) (n : Nat) (hn : 0 < n) (hu0 : 0 ≤ u) (hu1 : u < 1) :
    0 ≤ (Num.floorInt (u * Num.ofNat n) : Int) ∧ (Num.floorInt (u * Num.ofNat n) : Int) < n := by
  have := floor_mul_bounds u (Int.ofNat n) hu0 hu1 (by simpa using hn)
  simpa [Num.ofNat] using this

/-- the constants and names this property's models depend on were re-read from the working tree on this run
    (none fell back to its pinned value because its declaration could not be located) -/
theorem facts_fresh : (Rdm.Facts.staleFacts.all fun n => !["concealedBaseName", "critGain", "defaultMixingRatio",
    "defaultConcealmentScaling", "defaultBoundingScaling", "refImportanceRatio", "refRandomUniform",
    "refRandomWeighted", "wiringRefCriterionFactories", "choquetEps", "roundPrecision"].contains n) = true := by
  decide

/-! ## END TO END: a fired concealment / mixing inside a whole request

The theorems above are about one `Apply` with two states `orig` / `cur` as free parameters.  Inside a request
`processBiases` passes `original` = the state `prepare` built from the request (`params`) to EVERY bias and
`current` = the state handed on by the previous fired bias (`s`).  Below, every entry of `resp.biases` that
carries a concealment / mixing report is tied to ONE `conceal` / `mixing` call with `orig := params`, `cur := s`
(`E2EBFired`, Lemmas/E2EBiases.lean), and the clauses are restated for the pair `(s, s')`.

**Which input comes from where — exactly what the model (and the code) does:**
* concealment reads from `params` (ORIGINAL): the ranking from which the reference criterion is picked, the
  reference criterion's value range (over the original alternatives) — hence the new criterion's range and all
  concealed values —, and the method parameters `OnCriterionAdded` computes the new weight from; from `s`
  (CURRENT): the unused id, the alternatives that receive the value, the lists that are updated, the parameters the
  addition is merged into, the criteria list that is extended (`concealment_reads_e2e`);
* mixing reads from `params` (ORIGINAL): the two criteria (indices computed from the ORIGINAL number of criteria),
  the ranking, the reference criterion, the target range, both rescaled components, and the ALTERNATIVES THE NEW
  VALUE IS APPENDED TO; from `s` (CURRENT): only the guard (`< 2` criteria: no-op), the parameters the listener
  is asked on and merges into, the ids of the considered / not-considered lists (whose members are replaced by
  the alternatives built from `params`), the criteria list that is extended (`mixing_reads_e2e`).
These are the registered findings `conceal-after-state-change-reference` and `mixing-after-state-change`: the
clauses that speak about EXISTING criteria / values hold relative to `s` only where the source is `s`; where it
is `params` they hold relative to `params`, and relative to `s` only when `s` agrees with `params` on that input —
those are named `…_partial`, with the full (false in general) statement in the doc comment. -/

section e2e
variable {α : Type} [Num α] {exp : α → α} {o : List (WCrit α) → List (WCrit α)} {req : Request α}
  {g : Int → Draws α} {resp : Response α} {params s s' : DMP α} {chosen : List (Chosen α (BProps α))} {i : Nat}
  {name : String} {prob : α} {q : Props α}

/-! ### concealment -/

/-- **Every concealment entry of a response that carries a report is one `CriteriaConcealment.Apply` with
    `original` = the request's state and `current` = the state the entry received.**  The reference criterion is
    drawn from the stream of `newCriterionRandomSeed`, values and listener from that of `randomSeed`. -/
theorem fired_concealment_is_one_apply {r : ConcealReport α} (h : decideWith exp o req g = .ok resp)
    (hi : resp.biases[i]? = some ⟨name, prob, some (.conceal r)⟩) :
    ∃ params chosen q s s',
      E2EBFired exp g req resp params chosen i ⟨name, prob, .flat q⟩ (.conceal r) s s' ∧
      name = Facts.biasConcealment ∧
      conceal choquetEpsOf params s q (g (q.seed "newCriterionRandomSeed")) (g (q.seed "randomSeed")) = .ok (s', r) := by
  obtain ⟨params, chosen, props, s, s', hf⟩ := e2eb_fired h hi
  obtain ⟨hn, q, hp, ha⟩ := e2eb_fired_conceal hf
  dsimp only at hn hp
  subst hp
  exact ⟨params, chosen, q, s, s', hf, hn, ha⟩

theorem fired_concealment_apply {r : ConcealReport α}
    (hf : E2EBFired exp g req resp params chosen i ⟨name, prob, .flat q⟩ (.conceal r) s s') :
    conceal choquetEpsOf params s q (g (q.seed "newCriterionRandomSeed")) (g (q.seed "randomSeed")) = .ok (s', r) := by
  obtain ⟨_, q', hp, ha⟩ := e2eb_fired_conceal hf
  dsimp only at hp
  cases hp
  exact ha

/-- **what a fired concealment reads from the request's state and what from the state it received** (the literal
    decomposition of the model, `e2eb_conceal_sources`) -/
theorem concealment_reads_e2e {r : ConcealReport α}
    (hf : E2EBFired exp g req resp params chosen i ⟨name, prob, .flat q⟩ (.conceal r) s s') :
    ∃ (ranked : List (WCrit α)) (ref : Crit α) (rg : α × α) (b : Bounding α) (alts : List (Alt α))
      (g' g'' : Draws α),
      -- from the REQUEST's state
      rankAsc choquetEpsOf params = .ok ranked ∧
      refCriterion q ranked (g (q.seed "newCriterionRandomSeed")) = .ok ref ∧
      valuesRange params.all ref = .ok rg ∧
      r.range = scaleEqually rg (q.num "newCriterionScaling" (Num.ofConst Facts.defaultConcealmentScaling)) ∧
      onAdded params.mp ⟨r.id, r.type, some r.range⟩ ref g' = .ok (r.addition, g'') ∧
      -- from the state RECEIVED
      r.id = notUsedName (s.crit.map (·.id)) Facts.concealedBaseName ∧ r.type = Facts.critGain ∧
      boundingOfProps q = .ok b ∧
      assignConcealed b r.range r.id (sortAltsById s.all) (g (q.seed "randomSeed")) = .ok (alts, r.values, g') ∧
      updateAlts s.nc alts = .ok s'.nc ∧ updateAlts s.co alts = .ok s'.co ∧
      mergeParams s.mp r.addition = .ok s'.mp ∧
      critsAdd s.crit ⟨r.id, r.type, some r.range⟩ = .ok s'.crit :=
  e2eb_conceal_sources (fired_concealment_apply hf)

/-- `conceal_appends_one_gain_criterion`, end to end: exactly one criterion is appended to the criteria RECEIVED;
    it is a gain criterion with the generated name, which is the id of no criterion received -/
theorem conceal_appends_one_gain_criterion_e2e {r : ConcealReport α}
    (hf : E2EBFired exp g req resp params chosen i ⟨name, prob, .flat q⟩ (.conceal r) s s') :
    (∃ c : Crit α, s'.crit = s.crit ++ [c] ∧ c.id = r.id ∧ c.type = "gain" ∧ c.range = some r.range) ∧
    r.id = notUsedName (s.crit.map (·.id)) "__concealedCriterion__" ∧
    ∀ x ∈ s.crit, x.id ≠ r.id :=
  conceal_appends_one_gain_criterion (fired_concealment_apply hf)

/-- `conceal_gives_every_alternative_a_value_and_keeps_the_rest`, end to end: the considered / not-considered
    split is the one received; every alternative handed on is an alternative RECEIVED with exactly one value
    appended — the reported one — so every value an earlier bias left is untouched; one value per known
    alternative is reported -/
theorem conceal_gives_every_alternative_a_value_and_keeps_the_rest_e2e {r : ConcealReport α}
    (hf : E2EBFired exp g req resp params chosen i ⟨name, prob, .flat q⟩ (.conceal r) s s') :
    s'.co.map (·.id) = s.co.map (·.id) ∧ s'.nc.map (·.id) = s.nc.map (·.id) ∧
    r.values.length = (s.co ++ s.nc).length ∧
    ∀ a' ∈ s'.co ++ s'.nc, ∃ a ∈ s.co ++ s.nc, ∃ v,
      a'.id = a.id ∧ a'.vals = a.vals ++ [(r.id, v)] ∧ a.vals.has r.id = false ∧ (a.id, v) ∈ r.values :=
  conceal_gives_every_alternative_a_value_and_keeps_the_rest (fired_concealment_apply hf)

/-- the reference criterion of a fired concealment is a criterion of the REQUEST (it is picked from the ranking
    of the request's state), whatever the earlier biases did to the criteria -/
theorem conceal_reference_criterion_is_a_request_criterion {r : ConcealReport α}
    (hf : E2EBFired exp g req resp params chosen i ⟨name, prob, .flat q⟩ (.conceal r) s s') :
    ∃ ranked ref, rankAsc choquetEpsOf params = .ok ranked ∧
      refCriterion q ranked (g (q.seed "newCriterionRandomSeed")) = .ok ref ∧ ref ∈ params.crit := by
  obtain ⟨ranked, ref, _, _, _, _, _, hrank, href, _⟩ := concealment_reads_e2e hf
  exact ⟨ranked, ref, hrank, href,
    (BiasA.rankAsc_perm hrank).subset (reference_criterion_is_an_existing_criterion href)⟩

/-- PARTIAL.  Full statement (the property's "the reference criterion is always one of the existing criteria",
    for a concealment at any position): `ref ∈ s.crit`.  That is FALSE in general — the reference criterion is
    picked among the REQUEST's criteria, so after an omission it may be a criterion that no longer exists
    (registered finding `conceal-after-state-change-reference`).  Proved: it holds when the criteria received are
    still the request's (in particular for the first state-changing bias, `s = params`). -/
theorem conceal_reference_criterion_is_an_existing_criterion_partial {r : ConcealReport α}
    (hf : E2EBFired exp g req resp params chosen i ⟨name, prob, .flat q⟩ (.conceal r) s s')
    (hsame : s.crit = params.crit) :
    ∃ ranked ref, rankAsc choquetEpsOf params = .ok ranked ∧
      refCriterion q ranked (g (q.seed "newCriterionRandomSeed")) = .ok ref ∧ ref ∈ s.crit := by
  obtain ⟨ranked, ref, h1, h2, h3⟩ := conceal_reference_criterion_is_a_request_criterion hf
  exact ⟨ranked, ref, h1, h2, hsame ▸ h3⟩

/-- PARTIAL.  Full statement (the property's "concealed values lie in the reference criterion's value range
    scaled …", for a concealment at any position): the reported range is the reference criterion's range over the
    alternatives RECEIVED, scaled.  FALSE in general — the range is taken over the request's alternatives, so value
    changes of earlier biases (fatigue, reversal, anchoring) are ignored (same registered finding; what holds in
    general is `concealment_reads_e2e`).  Proved: it holds when the entry received the request's state. -/
theorem concealed_range_is_the_scaled_reference_range_partial {r : ConcealReport α}
    (hf : E2EBFired exp g req resp params chosen i ⟨name, prob, .flat q⟩ (.conceal r) s s')
    (hfirst : s = params) :
    ∃ ranked ref rg, rankAsc choquetEpsOf s = .ok ranked ∧
      refCriterion q ranked (g (q.seed "newCriterionRandomSeed")) = .ok ref ∧ ref ∈ s.crit ∧
      valuesRange s.all ref = .ok rg ∧
      r.range = scaleEqually rg (q.num "newCriterionScaling" (Num.ofConst Facts.defaultConcealmentScaling)) := by
  obtain ⟨ranked, ref, rg, _, _, _, _, hrank, href, hrg, hrange, _⟩ := concealment_reads_e2e hf
  subst hfirst
  exact ⟨ranked, ref, rg, hrank, href,
    (BiasA.rankAsc_perm hrank).subset (reference_criterion_is_an_existing_criterion href), hrg, hrange⟩

/-! ### mixing -/

/-- **Every mixing entry of a response that carries a report is one `CriteriaMixing.Apply` with `original` = the
    request's state and `current` = the state the entry received.** -/
theorem fired_mixing_is_one_apply {r : Option (MixReport α)} (h : decideWith exp o req g = .ok resp)
    (hi : resp.biases[i]? = some ⟨name, prob, some (.mixing r)⟩) :
    ∃ params chosen q s s',
      E2EBFired exp g req resp params chosen i ⟨name, prob, .flat q⟩ (.mixing r) s s' ∧
      name = Facts.biasMixing ∧
      mixing choquetEpsOf params s q (g (q.seed "newCriterionRandomSeed")) (g (q.seed "randomSeed")) = .ok (s', r) := by
  obtain ⟨params, chosen, props, s, s', hf⟩ := e2eb_fired h hi
  obtain ⟨hn, q, hp, ha⟩ := e2eb_fired_mixing hf
  dsimp only at hn hp
  subst hp
  exact ⟨params, chosen, q, s, s', hf, hn, ha⟩

theorem fired_mixing_apply {r : Option (MixReport α)}
    (hf : E2EBFired exp g req resp params chosen i ⟨name, prob, .flat q⟩ (.mixing r) s s') :
    mixing choquetEpsOf params s q (g (q.seed "newCriterionRandomSeed")) (g (q.seed "randomSeed")) = .ok (s', r) := by
  obtain ⟨_, q', hp, ha⟩ := e2eb_fired_mixing hf
  dsimp only at hp
  cases hp
  exact ha

/-- `mixing_is_a_noop_below_two_criteria`, end to end: with fewer than two criteria RECEIVED (however many the
    request declared) the entry hands on the state it received and reports nothing -/
theorem mixing_is_a_noop_below_two_criteria_e2e {r : Option (MixReport α)}
    (hf : E2EBFired exp g req resp params chosen i ⟨name, prob, .flat q⟩ (.mixing r) s s')
    (hlen : s.crit.length < 2) : s' = s ∧ r = none := by
  have h := fired_mixing_apply hf
  rw [mixing_is_a_noop_below_two_criteria _ _ _ _ _ _ hlen] at h
  simp only [Except.ok.injEq, Prod.mk.injEq] at h
  exact ⟨h.1.symm, h.2.symm⟩

/-- **what a fired mixing (two or more criteria received) reads from the request's state and what from the state
    it received** (`e2eb_mixingCore_sources`); `u1`, `u2` are the first two numbers of the `randomSeed` stream -/
theorem mixing_reads_e2e {r : Option (MixReport α)}
    (hf : E2EBFired exp g req resp params chosen i ⟨name, prob, .flat q⟩ (.mixing r) s s')
    (hlen : 2 ≤ s.crit.length) :
    ∃ (ρ u1 u2 : α) (gl : Draws α) (mr : MixReport α) (c1 c2 ref : Crit α) (kind : RefKind)
      (ranked : List (WCrit α)) (target : α × α) (newAlts : List (Alt α)) (g' : Draws α),
      r = some mr ∧ ρ = q.num "mixingRatio" (Num.ofConst Facts.defaultMixingRatio) ∧
      g (q.seed "randomSeed") = u1 :: u2 :: gl ∧
      -- from the REQUEST's state
      critAt params.crit (mixIndices params.crit.length u1 u2).1 = .ok c1 ∧
      critAt params.crit (mixIndices params.crit.length u1 u2).2 = .ok c2 ∧
      refForParams q = .ok kind ∧ rankAsc choquetEpsOf params = .ok ranked ∧
      refProvide kind q ranked (g (q.seed "newCriterionRandomSeed")) = .ok ref ∧
      groundZeroRange params.all ref = .ok target ∧
      rescaleCriterion c1 params.all target = .ok mr.c1.values ∧
      rescaleCriterion c2 params.all target = .ok mr.c2.values ∧
      mixValues ρ mr.c1.values mr.c2.values = .ok mr.new.values ∧
      mr.c1.id = c1.id ∧ mr.c2.id = c2.id ∧ mr.new.id = "__" ++ c1.id ++ "+" ++ c2.id ++ "__" ∧
      params.all.mapM (fun a => a.withCrit mr.new.id ((mr.new.values.get? a.id).getD Num.zero)) = .ok newAlts ∧
      -- from the state RECEIVED
      onAdded s.mp ⟨mr.new.id, Facts.critGain, some target⟩ ref gl = .ok (mr.addition, g') ∧
      mergeParams s.mp mr.addition = .ok s'.mp ∧
      updateAlts s.nc newAlts = .ok s'.nc ∧ updateAlts s.co newAlts = .ok s'.co ∧
      critsAdd s.crit ⟨mr.new.id, Facts.critGain, some target⟩ = .ok s'.crit := by
  have h := fired_mixing_apply hf
  unfold mixing at h
  rw [if_neg (by omega)] at h
  dsimp only at h
  split at h
  · simp [throw, throwThe, MonadExceptOf.throw] at h
  · obtain ⟨d1, hd1, h⟩ := bind_eq_ok.mp h
    obtain ⟨d2, hd2, h⟩ := bind_eq_ok.mp h
    split at h
    · simp [throw, throwThe, MonadExceptOf.throw] at h
    · have hg : g (q.seed "randomSeed") = d1.1 :: d2.1 :: d2.2 := by
        cases hgs : g (q.seed "randomSeed") with
        | nil => rw [hgs] at hd1; simp [draw, throw, throwThe, MonadExceptOf.throw] at hd1
        | cons x xs =>
          rw [hgs] at hd1
          simp only [draw, pure, Except.pure, Except.ok.injEq] at hd1
          subst hd1
          cases xs with
          | nil => simp [draw, throw, throwThe, MonadExceptOf.throw] at hd2
          | cons y ys =>
            simp only [draw, pure, Except.pure, Except.ok.injEq] at hd2
            subst hd2
            rfl
      obtain ⟨mr, c1, c2, ref, kind, ranked, target, newAlts, g', hr, rest⟩ := e2eb_mixingCore_sources h
      exact ⟨_, d1.1, d2.1, d2.2, mr, c1, c2, ref, kind, ranked, target, newAlts, g', hr, rfl, hg, rest⟩

/-- `mixing_appends_one_gain_criterion`, end to end — the full statement of the isolated theorem, with its two
    states instantiated: one gain criterion `__c₁+c₂__` is appended to the criteria RECEIVED, with an id none of them
    has; `c₁`, `c₂` are criteria of the REQUEST; the split is the one received; every mixed value is
    `ρ·c₁ + (1−ρ)·c₂` of the reported components; and every alternative handed on is an alternative OF THE REQUEST'S
    STATE (`params`) with the new value appended — not an alternative received. -/
theorem mixing_appends_one_gain_criterion_e2e {r : Option (MixReport α)}
    (hf : E2EBFired exp g req resp params chosen i ⟨name, prob, .flat q⟩ (.mixing r) s s')
    (hlen : 2 ≤ s.crit.length) :
    ∃ mr : MixReport α, r = some mr ∧
      (∃ c : Crit α, s'.crit = s.crit ++ [c] ∧ c.id = mr.new.id ∧ c.type = "gain") ∧
      (∃ c1 ∈ params.crit, ∃ c2 ∈ params.crit, mr.c1.id = c1.id ∧ mr.c2.id = c2.id ∧
          mr.new.id = "__" ++ c1.id ++ "+" ++ c2.id ++ "__") ∧
      (∀ x ∈ s.crit, x.id ≠ mr.new.id) ∧
      s'.co.map (·.id) = s.co.map (·.id) ∧ s'.nc.map (·.id) = s.nc.map (·.id) ∧
      (∀ a' ∈ s'.co ++ s'.nc, ∃ a ∈ params.co ++ params.nc, ∃ v,
          a'.id = a.id ∧ a'.vals = a.vals ++ [(mr.new.id, v)] ∧ a.vals.has mr.new.id = false) ∧
      (∀ am ∈ mr.new.values, ∃ x y, (am.1, x) ∈ mr.c1.values ∧ mr.c2.values.get? am.1 = some y ∧
          am.2 = mixValue (q.num "mixingRatio" (Num.ofConst Facts.defaultMixingRatio)) x y) :=
  mixing_appends_one_gain_criterion hlen (fired_mixing_apply hf)

/-- PARTIAL.  Full statement (the property's "leave all existing values untouched", for a mixing at any
    position): every alternative handed on is an alternative RECEIVED with exactly the mixed value appended.  That
    is FALSE in general — the alternatives are rebuilt from the request's state, so value changes of earlier biases
    are lost and criteria added or omitted earlier disappear / reappear in the values (registered finding
    `mixing-after-state-change`; `mixing_appends_one_gain_criterion_e2e` says what holds instead).  Proved: it
    holds when the entry received the request's state (no earlier bias fired, or none changed the state). -/
theorem mixing_keeps_existing_values_partial {r : Option (MixReport α)}
    (hf : E2EBFired exp g req resp params chosen i ⟨name, prob, .flat q⟩ (.mixing r) s s')
    (hlen : 2 ≤ s.crit.length) (hfirst : s = params) :
    ∃ mr : MixReport α, r = some mr ∧
      ∀ a' ∈ s'.co ++ s'.nc, ∃ a ∈ s.co ++ s.nc, ∃ v,
        a'.id = a.id ∧ a'.vals = a.vals ++ [(mr.new.id, v)] ∧ a.vals.has mr.new.id = false := by
  obtain ⟨mr, hr, _, _, _, _, _, hal, _⟩ := mixing_appends_one_gain_criterion_e2e hf hlen
  exact ⟨mr, hr, hfirst ▸ hal⟩

/-- PARTIAL.  Full statement: the two mixed criteria and the reference criterion are criteria RECEIVED.  False in
    general (they are taken from the request's criteria: an omitted criterion may be mixed — same finding).
    Proved: they are criteria of the request; and criteria received when the criteria received are the request's. -/
theorem mixing_mixes_existing_criteria_partial {r : Option (MixReport α)}
    (hf : E2EBFired exp g req resp params chosen i ⟨name, prob, .flat q⟩ (.mixing r) s s')
    (hlen : 2 ≤ s.crit.length) :
    ∃ mr c1 c2 ref, r = some mr ∧ mr.c1.id = c1.id ∧ mr.c2.id = c2.id ∧
      c1 ∈ params.crit ∧ c2 ∈ params.crit ∧ ref ∈ params.crit ∧
      (s.crit = params.crit → c1 ∈ s.crit ∧ c2 ∈ s.crit ∧ ref ∈ s.crit) := by
  obtain ⟨_, u1, u2, _, mr, c1, c2, ref, kind, ranked, _, _, _, hr, _, _, hc1, hc2, hkind, hrank, href, _, _, _, _,
    e1, e2, _⟩ := mixing_reads_e2e hf hlen
  have hmem : ∀ {idx : Int} {c : Crit α}, critAt params.crit idx = .ok c → c ∈ params.crit := by
    intro idx c h
    unfold critAt at h
    split at h
    · simp [throw, throwThe, MonadExceptOf.throw] at h
    · split at h
      · rename_i x hx
        simp only [pure, Except.pure, Except.ok.injEq] at h
        subst h
        exact List.mem_of_getElem? hx
      · simp [throw, throwThe, MonadExceptOf.throw] at h
  have hrefc : refCriterion q ranked (g (q.seed "newCriterionRandomSeed")) = .ok ref := by
    unfold refCriterion
    rw [hkind]
    exact href
  have hrefm : ref ∈ params.crit :=
    (BiasA.rankAsc_perm hrank).subset (reference_criterion_is_an_existing_criterion hrefc)
  exact ⟨mr, c1, c2, ref, hr, e1, e2, hmem hc1, hmem hc2, hrefm,
    fun hsame => ⟨hsame ▸ hmem hc1, hsame ▸ hmem hc2, hsame ▸ hrefm⟩⟩

end e2e

/-! ### exact arithmetic, end to end -/

section e2eRat
variable {exp : Rat → Rat} {o : List (WCrit Rat) → List (WCrit Rat)} {req : Request Rat} {g : Int → Draws Rat}
  {resp : Response Rat} {params s s' : DMP Rat} {chosen : List (Chosen Rat (BProps Rat))} {i : Nat}
  {name : String} {prob : Rat} {q : Props Rat}

/-- `concealed_values_lie_in_the_scaled_range`, end to end: every concealed value lies in the reported range of the
    new criterion — the range of the reference criterion OVER THE REQUEST'S ALTERNATIVES, scaled — when no bounding
    is configured, the `randomSeed` stream lies in `[0,1)` and the range is ordered -/
theorem concealed_values_lie_in_the_scaled_range_e2e {r : ConcealReport Rat}
    (hf : E2EBFired exp g req resp params chosen i ⟨name, prob, .flat q⟩ (.conceal r) s s')
    (hg : ∀ u ∈ g (q.seed "randomSeed"), 0 ≤ u ∧ u < 1) (hr : r.range.1 ≤ r.range.2)
    (hoff : ∀ b, boundingOfProps q = .ok b → ¬ (0 : Rat) < b.scaling ∧ b.nonNeg = false) :
    ∀ iv ∈ r.values, r.range.1 ≤ iv.2 ∧ iv.2 ≤ r.range.2 :=
  concealed_values_lie_in_the_scaled_range (fired_concealment_apply hf) hg hr hoff

/-- `concealed_values_lie_in_the_bounded_range`, end to end -/
theorem concealed_values_lie_in_the_bounded_range_e2e {r : ConcealReport Rat}
    (hf : E2EBFired exp g req resp params chosen i ⟨name, prob, .flat q⟩ (.conceal r) s s') :
    ∃ b, boundingOfProps q = .ok b ∧
      ((0 : Rat) < b.scaling → (allowedRange b r.range).1 ≤ (allowedRange b r.range).2 →
        ∀ iv ∈ r.values, (allowedRange b r.range).1 ≤ iv.2 ∧ iv.2 ≤ (allowedRange b r.range).2) :=
  concealed_values_lie_in_the_bounded_range (fired_concealment_apply hf)

/-- the parameter clause between two states of the same method: `OnCriterionAdded` asked on `mp0`, the addition
    merged into `mp` (same method) ⇒ `paramsExtended mp mp' [new id]`, for the five methods whose `Merge`
    accepts an addition (Go maps have unique keys: hypotheses) -/
theorem parameters_are_extended_between_states {mp0 mp mp' : MParams Rat} (ht : e2eTag mp0 = e2eTag mp)
    {crit ref : Crit Rat} {d d' : Draws Rat} {add : Addition Rat}
    (h1 : onAdded mp0 crit ref d = .ok (add, d')) (h2 : mergeParams mp add = .ok mp') :
    (∀ wc, mp = .ws wc → Spec.C18.paramsExtended mp mp' [crit.id] = true) ∧
    (∀ ec dist, mp = .electre ec dist → (ec.map (·.1)).Nodup → Spec.C18.paramsExtended mp mp' [crit.id] = true) ∧
    (∀ w cur seed rnd dr, mp = .majority w cur seed rnd dr → (w.map (·.1)).Nodup →
      Spec.C18.paramsExtended mp mp' [crit.id] = true) ∧
    (∀ fn lv seed w rnd, mp = .aspect fn lv seed w rnd → (w.map (·.1)).Nodup →
      (∀ ts, lv = .thresholds ts → ∀ t ∈ ts, (t.map (·.1)).Nodup) →
      Spec.C18.paramsExtended mp mp' [crit.id] = true) ∧
    (∀ fn lv seed cur rnd, mp = .satisf fn lv seed cur rnd →
      (∀ ts, lv = .thresholds ts → ∀ t ∈ ts, (t.map (·.1)).Nodup) →
      Spec.C18.paramsExtended mp mp' [crit.id] = true) := by
  obtain ⟨p1, p2, p3, p4, p5⟩ := parameters_are_extended_for_the_new_criterion
  refine ⟨?_, ?_, ?_, ?_, ?_⟩
  · intro wc hmp
    obtain ⟨wc0, h0⟩ := e2eb_same_method_ws ht hmp
    subst hmp h0
    exact p1 h1 h2
  · intro ec dist hmp hnd
    obtain ⟨ec0, dist0, h0⟩ := e2eb_same_method_electre ht hmp
    subst hmp h0
    exact p2 hnd h1 h2
  · intro w cur seed rnd dr hmp hnd
    obtain ⟨w0, cur0, seed0, rnd0, dr0, h0⟩ := e2eb_same_method_majority ht hmp
    subst hmp h0
    exact p3 hnd h1 h2
  · intro fn lv seed w rnd hmp hnd hndl
    obtain ⟨fn0, lv0, seed0, w0, rnd0, h0⟩ := e2eb_same_method_aspect ht hmp
    subst hmp h0
    exact p4 hnd hndl h1 h2
  · intro fn lv seed cur rnd hmp hndl
    obtain ⟨fn0, lv0, seed0, cur0, rnd0, h0⟩ := e2eb_same_method_satisf ht hmp
    subst hmp h0
    exact p5 hndl h1 h2

/-- `parameters_are_extended_for_the_new_criterion`, end to end, concealment: the parameters handed on extend the
    parameters RECEIVED by exactly one entry for the concealed criterion, every entry received untouched — although
    the new entry was computed by `OnCriterionAdded` on the REQUEST's parameters (weighted sum, ELECTRE III,
    majority, aspect elimination, satisfaction; OWA and Choquet reject every addition: registered findings) -/
theorem concealment_extends_the_parameters_received {r : ConcealReport Rat}
    (hf : E2EBFired exp g req resp params chosen i ⟨name, prob, .flat q⟩ (.conceal r) s s') :
    (∀ wc, s.mp = .ws wc → Spec.C18.paramsExtended s.mp s'.mp [r.id] = true) ∧
    (∀ ec dist, s.mp = .electre ec dist → (ec.map (·.1)).Nodup → Spec.C18.paramsExtended s.mp s'.mp [r.id] = true) ∧
    (∀ w cur seed rnd dr, s.mp = .majority w cur seed rnd dr → (w.map (·.1)).Nodup →
      Spec.C18.paramsExtended s.mp s'.mp [r.id] = true) ∧
    (∀ fn lv seed w rnd, s.mp = .aspect fn lv seed w rnd → (w.map (·.1)).Nodup →
      (∀ ts, lv = .thresholds ts → ∀ t ∈ ts, (t.map (·.1)).Nodup) →
      Spec.C18.paramsExtended s.mp s'.mp [r.id] = true) ∧
    (∀ fn lv seed cur rnd, s.mp = .satisf fn lv seed cur rnd →
      (∀ ts, lv = .thresholds ts → ∀ t ∈ ts, (t.map (·.1)).Nodup) →
      Spec.C18.paramsExtended s.mp s'.mp [r.id] = true) := by
  obtain ⟨_, ref, _, _, _, g', g'', _, _, _, _, hadd, _, _, _, _, _, _, hm, _⟩ := concealment_reads_e2e hf
  obtain ⟨mp, hmp, _, _, _, _, ht, _⟩ := e2eb_fired_frame hf
  obtain ⟨_, mp', hmp', hpp, _⟩ := decidePrepare_ok hf.prepared
  have hpm : params.mp = mp := by
    rw [hmp] at hmp'
    cases hmp'
    exact (e2e_prepareParams_ok hpp).2.2.2.2
  have := parameters_are_extended_between_states (mp0 := params.mp) (mp := s.mp) (by rw [ht, hpm]) hadd hm
  exact this

/-- the new weight of a concealed criterion is a seeded fraction of the weight the reference criterion has IN THE
    REQUEST's parameters (not in the parameters received): for `u` the listener's draw in `[0,1)` -/
theorem concealed_weight_is_a_fraction_of_the_request_reference_weight {r : ConcealReport Rat}
    (hf : E2EBFired exp g req resp params chosen i ⟨name, prob, .flat q⟩ (.conceal r) s s') :
    ∃ (ref : Crit Rat) (g' g'' : Draws Rat),
      onAdded params.mp ⟨r.id, r.type, some r.range⟩ ref g' = .ok (r.addition, g'') ∧
      ∀ u d, g' = u :: d → (Spec.C18.weightOf params.mp ref.id).isSome → 0 ≤ u → u < 1 →
        Spec.C18.weightClause params.mp r.addition ref.id r.id = true := by
  obtain ⟨_, ref, _, _, _, g', g'', _, _, _, _, hadd, _⟩ := concealment_reads_e2e hf
  refine ⟨ref, g', g'', hadd, ?_⟩
  intro u d hg hw h0 h1
  rw [hg] at hadd
  exact added_weight_is_a_seeded_fraction_of_the_reference_weight hadd hw h0 h1

/-- `parameters_are_extended_for_the_new_criterion`, end to end, mixing (two or more criteria received): both the
    listener's question and the merge use the parameters RECEIVED -/
theorem mixing_extends_the_parameters_received {r : Option (MixReport Rat)}
    (hf : E2EBFired exp g req resp params chosen i ⟨name, prob, .flat q⟩ (.mixing r) s s')
    (hlen : 2 ≤ s.crit.length) :
    ∃ mr, r = some mr ∧
    (∀ wc, s.mp = .ws wc → Spec.C18.paramsExtended s.mp s'.mp [mr.new.id] = true) ∧
    (∀ ec dist, s.mp = .electre ec dist → (ec.map (·.1)).Nodup →
      Spec.C18.paramsExtended s.mp s'.mp [mr.new.id] = true) ∧
    (∀ w cur seed rnd dr, s.mp = .majority w cur seed rnd dr → (w.map (·.1)).Nodup →
      Spec.C18.paramsExtended s.mp s'.mp [mr.new.id] = true) ∧
    (∀ fn lv seed w rnd, s.mp = .aspect fn lv seed w rnd → (w.map (·.1)).Nodup →
      (∀ ts, lv = .thresholds ts → ∀ t ∈ ts, (t.map (·.1)).Nodup) →
      Spec.C18.paramsExtended s.mp s'.mp [mr.new.id] = true) ∧
    (∀ fn lv seed cur rnd, s.mp = .satisf fn lv seed cur rnd →
      (∀ ts, lv = .thresholds ts → ∀ t ∈ ts, (t.map (·.1)).Nodup) →
      Spec.C18.paramsExtended s.mp s'.mp [mr.new.id] = true) := by
  obtain ⟨_, _, _, _, mr, _, _, ref, _, _, target, _, g', hr, _, _, _, _, _, _, _, _, _, _, _, _, _, _, _, hadd, hm,
    _⟩ := mixing_reads_e2e hf hlen
  exact ⟨mr, hr, parameters_are_extended_between_states (mp0 := s.mp) (mp := s.mp) rfl hadd hm⟩

end e2eRat

/-! ### the hypotheses are satisfiable: requests in which the concealment / mixing is the second fired bias

`List.mergeSort` (ranking of the criteria, sorting of the alternatives by id) reduces in the kernel only on
singletons, hence the one-criterion one-alternative requests `e2ebExReq1…` (Lemmas/E2EBiasesExample.lean). -/

/-- fatigue fires, an entry does not fire, then the concealment fires on the state the fatigue handed on (which is
    not the request's state); the hypotheses of `concealed_values_lie_in_the_scaled_range_e2e` hold -/
example : ∃ resp name prob r n0 p0 r0 params chosen q s s',
    Rdm.decide id (e2ebExReq1 [e2ebExFatigue, e2ebExSkipped, e2ebExConceal]) e2ebExSeeds = .ok resp ∧
    resp.biases[2]? = some ⟨name, prob, some (.conceal r)⟩ ∧ resp.biases[0]? = some ⟨n0, p0, some r0⟩ ∧
    E2EBFired id (genOf e2ebExSeeds) (e2ebExReq1 [e2ebExFatigue, e2ebExSkipped, e2ebExConceal]) resp params chosen 2
      ⟨name, prob, .flat q⟩ (.conceal r) s s' ∧
    s ≠ params ∧ (∀ iv ∈ r.values, r.range.1 ≤ iv.2 ∧ iv.2 ≤ r.range.2) := by
  obtain ⟨resp, name, prob, rp, hr, h2, hk, n0, p0, r0, h0⟩ := e2eb_firedWith
    (r := Rdm.decide id (e2ebExReq1 [e2ebExFatigue, e2ebExSkipped, e2ebExConceal]) e2ebExSeeds)
    (j := 0) (i := 2) (k := fun r => match r with | .conceal c => decide (c.range.1 ≤ c.range.2) | _ => false)
    (by decide +kernel)
  cases rp with
  | conceal r =>
    simp only [decide_eq_true_eq] at hk
    obtain ⟨params, chosen, q, s, s', hf, _, _⟩ := fired_concealment_is_one_apply hr h2
    have hb := e2eb_fired_chosenAt hf
    have hb' : e2ebChosenAt (e2ebExReq1 [e2ebExFatigue, e2ebExSkipped, e2ebExConceal]) 2 =
        some ⟨Facts.biasConcealment, 1, .flat {}⟩ := rfl
    rw [hb'] at hb
    simp only [Option.some.injEq, Chosen.mk.injEq, BProps.flat.injEq] at hb
    obtain ⟨rfl, rfl, rfl⟩ := hb
    have hne : s ≠ params := by
      intro e
      have hs := e2eb_received_sat hf (k := fun s =>
        decide (s.co.map (·.vals) = [[("c0", 33 / 32)]])) (by decide +kernel)
      simp only [decide_eq_true_eq] at hs
      have hp := hf.prepared
      have hp' : prepare (e2ebExReq1 [e2ebExFatigue, e2ebExSkipped, e2ebExConceal]) =
          .ok (⟨[], [⟨"a", [("c0", 1)]⟩], [e2eExC0], .ws [⟨e2eExC0, 1⟩]⟩,
           [⟨Facts.biasFatigue, 1, e2ebExFatigue.props⟩, ⟨Facts.biasReversal, 1 / 4, e2ebExSkipped.props⟩,
            ⟨Facts.biasConcealment, 1, e2ebExConceal.props⟩]) := rfl
      rw [hp'] at hp
      cases hp
      rw [e] at hs
      revert hs
      decide +kernel
    have hoff : ∀ b, boundingOfProps ({} : Props Rat) = .ok b → ¬ (0 : Rat) < b.scaling ∧ b.nonNeg = false := by
      intro b hb
      unfold boundingOfProps at hb
      dsimp only at hb
      split at hb
      · simp [throw, throwThe, MonadExceptOf.throw] at hb
      · simp only [pure, Except.pure, Except.ok.injEq] at hb
        subst hb
        exact ⟨by decide +kernel, by decide +kernel⟩
    exact ⟨resp, _, _, r, n0, p0, r0, params, chosen, _, s, s', hr, h2, h0, hf, hne,
      concealed_values_lie_in_the_scaled_range_e2e hf (e2eb_exSeeds_unit _) hk hoff⟩
  | _ => cases hk

/-- a concealment fires (one criterion becomes two), an entry does not fire, then the mixing fires with two
    criteria received: the hypotheses of `mixing_reads_e2e` / `mixing_appends_one_gain_criterion_e2e` hold.  The
    request declares ONE criterion, so the mixing mixes `c0` with itself (`__c0+c0__`) and hands on the request's
    alternative without the concealed value — the registered finding, visible in the theorem's conclusion. -/
example : ∃ resp name prob mr n0 p0 r0 params chosen q s s',
    Rdm.decide id (e2ebExReq1Maj [e2ebExConceal, e2ebExSkipped, e2ebExMixing]) e2ebExSeeds = .ok resp ∧
    resp.biases[2]? = some ⟨name, prob, some (.mixing (some mr))⟩ ∧ resp.biases[0]? = some ⟨n0, p0, some r0⟩ ∧
    E2EBFired id (genOf e2ebExSeeds) (e2ebExReq1Maj [e2ebExConceal, e2ebExSkipped, e2ebExMixing]) resp params chosen 2
      ⟨name, prob, .flat q⟩ (.mixing (some mr)) s s' ∧
    2 ≤ s.crit.length ∧ params.crit.length = 1 ∧ mr.new.id = "__c0+c0__" := by
  obtain ⟨resp, name, prob, rp, hr, h2, hk, n0, p0, r0, h0⟩ := e2eb_firedWith
    (r := Rdm.decide id (e2ebExReq1Maj [e2ebExConceal, e2ebExSkipped, e2ebExMixing]) e2ebExSeeds)
    (j := 0) (i := 2) (k := fun r => match r with | .mixing (some m) => m.new.id == "__c0+c0__" | _ => false)
    (by decide +kernel)
  cases rp with
  | mixing om =>
    cases om with
    | none => cases hk
    | some mr =>
      obtain ⟨params, chosen, q, s, s', hf, _, _⟩ := fired_mixing_is_one_apply hr h2
      have hs := e2eb_received_sat hf (k := fun s => decide (2 ≤ s.crit.length)) (by decide +kernel)
      simp only [decide_eq_true_eq] at hs
      have hp := hf.prepared
      have hp' : prepare (e2ebExReq1Maj [e2ebExConceal, e2ebExSkipped, e2ebExMixing]) =
          .ok (⟨[], [⟨"a", [("c0", 1)]⟩], [e2eExC0], .majority [("c0", 1)] "" 11 false ""⟩,
           [⟨Facts.biasConcealment, 1, e2ebExConceal.props⟩, ⟨Facts.biasReversal, 1 / 4, e2ebExSkipped.props⟩,
            ⟨Facts.biasMixing, 1, e2ebExMixing.props⟩]) := rfl
      rw [hp'] at hp
      cases hp
      exact ⟨resp, _, _, mr, n0, p0, r0, _, _, q, s, s', hr, h2, h0, hf, hs, rfl, by simpa using hk⟩
  | _ => cases hk

/-- the hypothesis `s = params` of the `…_partial` theorems holds of the first fired entry of every response -/
example {α : Type} [Num α] {exp : α → α} {g : Int → Draws α} {req : Request α} {resp : Response α}
    {params s s' : DMP α} {chosen : List (Chosen α (BProps α))} {i : Nat} {b : Chosen α (BProps α)}
    {rep : Report α} (hf : E2EBFired exp g req resp params chosen i b rep s s')
    (hnone : ∀ j < i, ∀ x, resp.biases[j]? = some x → x.report = none) : s = params :=
  e2eb_fired_first hf hnone

end Rdm.Props.C18
