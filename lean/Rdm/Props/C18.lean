/-
  C18 — concealed and mixed criteria are well-formed additions.
  Property theorems only (helper lemmas live in Rdm/Lemmas/BiasB*.lean).

  Model: Rdm/Model/{RefCriterion,BiasesB}.lean, tied bit-for-bit to the Go code by the stages `refcrit`,
  `conceal-apply`, `mixing-apply` of `bin/check C18`; the decidable statement Rdm/Spec/C18.lean is evaluated
  on the implementation's own output by the driver.
-/
import Rdm.Lemmas.BiasBConceal
import Rdm.Lemmas.BiasBRef
import Rdm.Lemmas.BiasBNames
import Rdm.Lemmas.BiasBRat
import Rdm.Lemmas.BiasBWeight
import Rdm.Lemmas.BiasBParams
import Rdm.Spec.C18
import Mathlib.Tactic.NormNum
namespace Rdm.Props.C18
open Rdm

/-! ### bridges: constants of the property statement = constants extracted from the code -/

theorem gain_is_gain : Facts.critGain = "gain" := rfl
theorem default_mixing_ratio_is_half : (Num.ofConst Facts.defaultMixingRatio : Rat) = 1 / 2 := by
  simp only [Num.ofConst_rat, Facts.defaultMixingRatio]; norm_num
theorem default_concealment_scaling_is_one : (Num.ofConst Facts.defaultConcealmentScaling : Rat) = 1 := by
  simp only [Num.ofConst_rat, Facts.defaultConcealmentScaling]; norm_num
theorem default_bounding_is_off : (Num.ofConst Facts.defaultBoundingScaling : Rat) = -1 := by
  simp only [Num.ofConst_rat, Facts.defaultBoundingScaling]; norm_num
theorem default_reference_type_is_importance_ratio : refFactoryIds.head? = some "importanceRatio" := rfl

/-! ### concealment (any number type) -/

/-- A successful concealment appends exactly one criterion: it is a gain criterion, carries the
    generated name, and that name is the id of no current criterion. -/
theorem conceal_appends_one_gain_criterion {α : Type} [Num α] {eps : α} {orig cur : DMP α} {p : Props α}
    {rd g : Draws α} {res : DMP α} {rep : ConcealReport α}
    (h : conceal eps orig cur p rd g = .ok (res, rep)) :
    (∃ c : Crit α, res.crit = cur.crit ++ [c] ∧ c.id = rep.id ∧ c.type = "gain" ∧ c.range = some rep.range) ∧
    rep.id = notUsedName (cur.crit.map (·.id)) "__concealedCriterion__" ∧
    ∀ x ∈ cur.crit, x.id ≠ rep.id := by
  obtain ⟨h1, h2, h3, h4, _⟩ := conceal_ok h
  refine ⟨⟨_, h3, rfl, by rw [h2]; rfl, rfl⟩, h1, ?_⟩
  intro x hx e
  have := h4 x hx
  simp [e] at this

/-- Frame: the considered / not-considered split is unchanged, and every resulting alternative is a
    current alternative with exactly one value appended — the reported value for the new criterion —
    so every old value is untouched; one value is reported per known alternative. -/
theorem conceal_gives_every_alternative_a_value_and_keeps_the_rest {α : Type} [Num α] {eps : α}
    {orig cur : DMP α} {p : Props α} {rd g : Draws α} {res : DMP α} {rep : ConcealReport α}
    (h : conceal eps orig cur p rd g = .ok (res, rep)) :
    res.co.map (·.id) = cur.co.map (·.id) ∧ res.nc.map (·.id) = cur.nc.map (·.id) ∧
    rep.values.length = (cur.co ++ cur.nc).length ∧
    ∀ a' ∈ res.co ++ res.nc, ∃ a ∈ cur.co ++ cur.nc, ∃ v,
      a'.id = a.id ∧ a'.vals = a.vals ++ [(rep.id, v)] ∧ a.vals.has rep.id = false ∧ (a.id, v) ∈ rep.values := by
  obtain ⟨_, _, _, _, h5, h6, h7, h8, _⟩ := conceal_ok h
  refine ⟨h5, h6, h8, ?_⟩
  intro a' ha'
  obtain ⟨a, ha, v, e1, e2, e3, e4⟩ := h7 a' ha'
  exact ⟨a, ha, v, by simpa using e1, e2, e3, e4⟩

/-- Naming, unconditionally: whatever ids exist (foreign ids with the prefix, gaps left by omitted
    concealed criteria, …) the generated name is the id of no criterion, and it carries the prefix.
    `Criteria.NotUsedName` starts at the number of prefixed ids and keeps counting while the candidate is
    in use; the candidates are pairwise different, so at most `ids.length` of them can be taken. -/
theorem concealed_name_is_fresh (ids : List String) :
    notUsedName ids "__concealedCriterion__" ∉ ids ∧
    (notUsedName ids "__concealedCriterion__").startsWith "__concealedCriterion__" = true :=
  ⟨notUsedName_fresh ids _, notUsedName_prefixed ids _⟩

/-- … more precisely it is the first free numbered name `base`, `base1`, `base2`, … from the number `n` of
    prefixed ids on (at most `n + ids.length`): every earlier candidate is in use. -/
theorem concealed_name_is_the_first_free_numbered_name (ids : List String) :
    ∃ k, (ids.filter fun i => i.startsWith "__concealedCriterion__").length ≤ k ∧
      k ≤ (ids.filter fun i => i.startsWith "__concealedCriterion__").length + ids.length ∧
      notUsedName ids "__concealedCriterion__" = numberedName "__concealedCriterion__" k ∧
      numberedName "__concealedCriterion__" k ∉ ids ∧
      ∀ j, (ids.filter fun i => i.startsWith "__concealedCriterion__").length ≤ j → j < k →
        numberedName "__concealedCriterion__" j ∈ ids :=
  notUsedName_spec ids _

/-- Naming under the consecutive-numbering invariant: while the ids carrying the concealed prefix are
    exactly the first `k` generated names (no foreign id has the prefix, earlier concealed criteria are
    numbered consecutively), the next generated name is the `k`-th numbered name, is new, and appending it
    keeps the invariant. -/
theorem concealed_name_is_fresh_under_the_naming_invariant {ids : List String} {k : Nat}
    (hinv : NamingInvariant ids "__concealedCriterion__" k) :
    notUsedName ids "__concealedCriterion__" = numberedName "__concealedCriterion__" k ∧
    notUsedName ids "__concealedCriterion__" ∉ ids ∧
    NamingInvariant (ids ++ [notUsedName ids "__concealedCriterion__"]) "__concealedCriterion__" (k + 1) :=
  ⟨(notUsedName_under_invariant hinv).1, (notUsedName_under_invariant hinv).2, namingInvariant_step hinv⟩

example : NamingInvariant ["c0", "c1"] "__concealedCriterion__" 0 := by simp [NamingInvariant]
example : NamingInvariant ["c0", "__concealedCriterion__", "c1", "__concealedCriterion__1"] "__concealedCriterion__" 2 := by
  simp [NamingInvariant, List.range, List.range.loop, numberedName]
  rfl

/-- A concealment never fails because of the name — for every current state, with no hypothesis on the
    earlier biases: the id the concealed criterion gets is the id of no current criterion, so
    `Criteria.Add` accepts the criterion, and `WithCriterion` accepts the value for every alternative
    whose value keys are criteria ids (a coherent state).  Whether `conceal` succeeds or fails is thus
    decided by the other steps (props, reference criterion, listener, `Merge`) only. -/
theorem conceal_name_never_collides {α : Type} [Num α] (cur : DMP α) :
    (∀ x ∈ cur.crit, x.id ≠ notUsedName (cur.crit.map (·.id)) "__concealedCriterion__") ∧
    (∀ c : Crit α, c.id = notUsedName (cur.crit.map (·.id)) "__concealedCriterion__" →
      critsAdd cur.crit c = .ok (cur.crit ++ [c])) ∧
    (∀ (a : Alt α) (v : α), (∀ kv ∈ a.vals, kv.1 ∈ cur.crit.map (·.id)) →
      a.withCrit (notUsedName (cur.crit.map (·.id)) "__concealedCriterion__") v =
        .ok { a with vals := a.vals ++ [(notUsedName (cur.crit.map (·.id)) "__concealedCriterion__", v)] }) := by
  have hfresh := notUsedName_fresh (cur.crit.map (·.id)) "__concealedCriterion__"
  have h1 : ∀ x ∈ cur.crit, x.id ≠ notUsedName (cur.crit.map (·.id)) "__concealedCriterion__" := by
    intro x hx e
    exact hfresh (e ▸ List.mem_map_of_mem hx)
  refine ⟨h1, ?_, ?_⟩
  · intro c hc
    unfold critsAdd
    rw [if_neg]
    · rfl
    · simp only [List.any_eq_true, beq_iff_eq, not_exists, not_and]
      intro x hx e
      exact h1 x hx (e.trans hc)
  · intro a v hkeys
    unfold Alt.withCrit
    rw [if_neg]
    · rfl
    · intro hhas
      unfold KMap.has at hhas
      rw [Option.isSome_iff_exists] at hhas
      obtain ⟨w, hw⟩ := hhas
      exact hfresh (hkeys _ (lookup_mem hw))

/-- The state that collided before the fix (conceal, conceal, omit the first concealed criterion,
    conceal — the only id left with the prefix is `__concealedCriterion__1`): the generated name is now
    `__concealedCriterion__2`. -/
theorem conceal_after_conceal_conceal_omit_gets_the_next_free_name {ids : List String}
    (hids : (ids.filter fun i => i.startsWith "__concealedCriterion__") = ["__concealedCriterion__" ++ "1"]) :
    notUsedName ids "__concealedCriterion__" = "__concealedCriterion__2" := by
  rw [notUsedName_skips_used_name hids]; rfl

example : ((["c0", "__concealedCriterion__1"]).filter fun i => i.startsWith "__concealedCriterion__")
    = ["__concealedCriterion__" ++ "1"] := by simp

/-! ### concealment (exact arithmetic) -/

/-- Every concealed value lies in the new criterion's range (the reference range scaled about its
    centre) when no bounding is configured, for draws in [0,1) and an ordered range. -/
theorem concealed_values_lie_in_the_scaled_range {eps : Rat} {orig cur : DMP Rat} {p : Props Rat}
    {rd g : Draws Rat} {res : DMP Rat} {rep : ConcealReport Rat}
    (h : conceal eps orig cur p rd g = .ok (res, rep))
    (hg : ∀ u ∈ g, 0 ≤ u ∧ u < 1) (hr : rep.range.1 ≤ rep.range.2)
    (hoff : ∀ b, boundingOfProps p = .ok b → ¬ (0 : Rat) < b.scaling ∧ b.nonNeg = false) :
    ∀ iv ∈ rep.values, rep.range.1 ≤ iv.2 ∧ iv.2 ≤ rep.range.2 := by
  obtain ⟨_, _, _, _, _, _, _, _, b, hb, hv⟩ := conceal_ok h
  intro iv hiv
  obtain ⟨u, hu, e⟩ := hv iv hiv
  obtain ⟨hs, hn⟩ := hoff b hb
  rw [e]
  exact concealValue_in_range b rep.range.1 rep.range.2 u hs hn hr (hg u hu).1 (hg u hu).2

/-- With a positive `allowedValuesRangeScaling` every concealed value lies in the allowed range (the new
    criterion's range scaled about its centre by that factor). -/
theorem concealed_values_lie_in_the_bounded_range {eps : Rat} {orig cur : DMP Rat} {p : Props Rat}
    {rd g : Draws Rat} {res : DMP Rat} {rep : ConcealReport Rat}
    (h : conceal eps orig cur p rd g = .ok (res, rep)) :
    ∃ b, boundingOfProps p = .ok b ∧
      ((0 : Rat) < b.scaling → (allowedRange b rep.range).1 ≤ (allowedRange b rep.range).2 →
        ∀ iv ∈ rep.values, (allowedRange b rep.range).1 ≤ iv.2 ∧ iv.2 ≤ (allowedRange b rep.range).2) := by
  obtain ⟨_, _, _, _, _, _, _, _, b, hb, hv⟩ := conceal_ok h
  refine ⟨b, hb, ?_⟩
  intro hs hr iv hiv
  obtain ⟨u, _, e⟩ := hv iv hiv
  rw [e]
  exact bound_in_allowed b rep.range _ hs hr

/-- The range of the concealed criterion stays ordered for a non-negative `newCriterionScaling`. -/
theorem scaled_range_is_ordered (r : Rat × Rat) (s : Rat) (hr : r.1 ≤ r.2) (hs : 0 ≤ s) :
    (scaleEqually r s).1 ≤ (scaleEqually r s).2 := scaleEqually_ordered r s hr hs

/-- Weight-based methods (weighted sum, OWA, ELECTRE III, majority, aspect elimination): the parameters
    a listener returns for the new criterion satisfy the weight clause of the spec — the new weight is
    `u · w_ref` for the drawn `u ∈ [0,1)`: in `[0, w_ref)` for a positive reference weight. -/
theorem added_weight_is_a_seeded_fraction_of_the_reference_weight {mp : MParams Rat} {crit ref : Crit Rat}
    {u : Rat} {d d' : Draws Rat} {add : Addition Rat}
    (h : onAdded mp crit ref (u :: d) = .ok (add, d'))
    (hw : (Spec.C18.weightOf mp ref.id).isSome) (hu0 : 0 ≤ u) (hu1 : u < 1) :
    Spec.C18.weightClause mp add ref.id crit.id = true := onAdded_weightClause h hw hu0 hu1

/-- Parameters extended consistently, for every method whose `Merge` accepts an addition (weighted sum,
    ELECTRE III, majority, aspect elimination, satisfaction): after `Merge(params, OnCriterionAdded(..))` the
    parameters satisfy the clause `paramsExtended` of the spec — every old entry untouched, exactly one entry
    for the new criterion (weight / ELECTRE entry / one threshold per level).  `OnCriterionAdded` may be
    evaluated on other parameters of the same method than `Merge` (concealment passes `original`'s).
    Hypotheses: the Go maps involved have unique keys (always true of a Go map).
    Not covered because false for the code: OWA (`owa_merge_rejects_every_addition`) and Choquet (`Merge`
    collides on the re-emitted capacities) reject every addition — known findings owa-merge / choquet-merge,
    which the model reproduces. -/
theorem parameters_are_extended_for_the_new_criterion :
    (∀ {wc wc0 : List (WCrit Rat)} {crit ref : Crit Rat} {d d' : Draws Rat} {add : Addition Rat} {mp' : MParams Rat},
      onAdded (.ws wc0) crit ref d = .ok (add, d') → mergeParams (.ws wc) add = .ok mp' →
      Spec.C18.paramsExtended (.ws wc) mp' [crit.id] = true) ∧
    (∀ {ec ec0 : KMap (ECrit Rat)} {dist dist0 : LinFun Rat} {crit ref : Crit Rat} {d d' : Draws Rat}
      {add : Addition Rat} {mp' : MParams Rat},
      (ec.map (·.1)).Nodup →
      onAdded (.electre ec0 dist0) crit ref d = .ok (add, d') →
      mergeParams (.electre ec dist) add = .ok mp' →
      Spec.C18.paramsExtended (.electre ec dist) mp' [crit.id] = true) ∧
    (∀ {w w0 : KMap Rat} {cur cur0 : String} {seed seed0 : Int} {rnd rnd0 : Bool} {dr dr0 : String}
      {crit ref : Crit Rat} {d d' : Draws Rat} {add : Addition Rat} {mp' : MParams Rat},
      (w.map (·.1)).Nodup →
      onAdded (.majority w0 cur0 seed0 rnd0 dr0) crit ref d = .ok (add, d') →
      mergeParams (.majority w cur seed rnd dr) add = .ok mp' →
      Spec.C18.paramsExtended (.majority w cur seed rnd dr) mp' [crit.id] = true) ∧
    (∀ {fn fn0 : String} {lv lv0 : Levels Rat} {seed seed0 : Int} {w w0 : KMap Rat} {rnd rnd0 : Bool}
      {crit ref : Crit Rat} {d d' : Draws Rat} {add : Addition Rat} {mp' : MParams Rat},
      (w.map (·.1)).Nodup → (∀ ts, lv = .thresholds ts → ∀ t ∈ ts, (t.map (·.1)).Nodup) →
      onAdded (.aspect fn0 lv0 seed0 w0 rnd0) crit ref d = .ok (add, d') →
      mergeParams (.aspect fn lv seed w rnd) add = .ok mp' →
      Spec.C18.paramsExtended (.aspect fn lv seed w rnd) mp' [crit.id] = true) ∧
    (∀ {fn fn0 : String} {lv lv0 : Levels Rat} {seed seed0 : Int} {cur cur0 : String} {rnd rnd0 : Bool}
      {crit ref : Crit Rat} {d d' : Draws Rat} {add : Addition Rat} {mp' : MParams Rat},
      (∀ ts, lv = .thresholds ts → ∀ t ∈ ts, (t.map (·.1)).Nodup) →
      onAdded (.satisf fn0 lv0 seed0 cur0 rnd0) crit ref d = .ok (add, d') →
      mergeParams (.satisf fn lv seed cur rnd) add = .ok mp' →
      Spec.C18.paramsExtended (.satisf fn lv seed cur rnd) mp' [crit.id] = true) :=
  ⟨fun h1 h2 => ws_parameters_extended h1 h2, fun hnd h1 h2 => electre_parameters_extended hnd h1 h2,
   fun hnd h1 h2 => majority_parameters_extended hnd h1 h2,
   fun hnd hndl h1 h2 => aspect_parameters_extended hnd hndl h1 h2,
   fun hndl h1 h2 => satisf_parameters_extended hndl h1 h2⟩

/-- the hypotheses are satisfiable: a satisfaction heuristic with two threshold levels accepts an addition -/
example : ∃ mp', mergeParams (.satisf "thresholds" (.thresholds [[("c0", (1 : Rat))], [("c0", 2)]]) 0 "" false)
    (.satisf (.thresholds [[("n", (5 : Rat))], [("n", 6)]])) = .ok mp' := ⟨_, rfl⟩

/-- OWA: `Merge` rejects every addition (the model reproduces the Go panic). -/
theorem owa_merge_rejects_every_addition {α : Type} [Num α] (wc : List (WCrit α)) (add : Addition α) :
    ∃ e, mergeParams (.owa wc) add = .error e := by
  cases add <;> exact ⟨_, rfl⟩

theorem fraction_bounds (u w : Rat) (hu0 : 0 ≤ u) (hu1 : u < 1) (hw : 0 < w) : 0 ≤ u * w ∧ u * w < w :=
  fraction_of_positive u w hu0 hu1 hw

/-! ### mixing -/

/-- Fewer than two current criteria: mixing returns the current state unchanged and reports nothing. -/
theorem mixing_is_a_noop_below_two_criteria {α : Type} [Num α] (eps : α) (orig cur : DMP α) (p : Props α)
    (rd g : Draws α) (hlen : cur.crit.length < 2) : mixing eps orig cur p rd g = .ok (cur, none) :=
  mixing_noop hlen

/-- The index arithmetic of `selectCriteriaToMix` (`i₁ = ⌊u₁·n⌋`, `off = ⌊u₂·(n−2)⌋ + 1`,
    `i₂ = (i₁ + off) mod n`): two different in-range indices for `n ≥ 2` and draws in [0,1). -/
theorem mixing_selects_two_distinct_in_range_indices (n : Nat) (u1 u2 : Rat) (hn : 2 ≤ n)
    (h10 : 0 ≤ u1) (h11 : u1 < 1) (h20 : 0 ≤ u2) (h21 : u2 < 1) :
    0 ≤ (mixIndices n u1 u2).1 ∧ (mixIndices n u1 u2).1 < n ∧
    0 ≤ (mixIndices n u1 u2).2 ∧ (mixIndices n u1 u2).2 < n ∧
    (mixIndices n u1 u2).1 ≠ (mixIndices n u1 u2).2 := mixIndices_distinct n u1 u2 hn h10 h11 h20 h21

/-- A mixed value `ρ·c₁ + (1−ρ)·c₂` lies between the two rescaled components for `ρ ∈ [0,1]`. -/
theorem mixed_value_lies_between_the_components (ρ x y : Rat) (h0 : 0 ≤ ρ) (h1 : ρ ≤ 1) :
    min x y ≤ mixValue ρ x y ∧ mixValue ρ x y ≤ max x y := mixValue_between ρ x y h0 h1

/-- A rescaled component lies in `[0, T]` when the criterion's (non-degenerate) range contains the
    value; cost criteria are inverted (`(max − v)·T/(max − min)`). -/
theorem rescaled_component_lies_in_target (c : Crit Rat) (lo hi t v : Rat) (hlt : lo < hi) (ht : 0 ≤ t)
    (hv0 : lo ≤ v) (hv1 : v ≤ hi) :
    0 ≤ scaleValue c (lo, hi) (getScaleRatio (0, t) (lo, hi)) (0, t) v ∧
    scaleValue c (lo, hi) (getScaleRatio (0, t) (lo, hi)) (0, t) v ≤ t :=
  scaleValue_in_target c lo hi t v hlt ht hv0 hv1

/-- A successful mixing of a state with at least two criteria appends exactly one gain criterion named
    `__c₁+c₂__` after the two criteria picked from `original` by the index arithmetic, with an id that no
    current criterion has; the split is unchanged; every mixed value is `ρ·c₁ + (1−ρ)·c₂` of the two
    reported components.  The resulting alternatives are alternatives of **`original`** with the new
    value appended: existing values are untouched only relative to `original` (for the first bias of a
    sequence `original = current`; otherwise this is the C07/C18 defect the check reports). -/
theorem mixing_appends_one_gain_criterion {α : Type} [Num α] {eps : α} {orig cur : DMP α} {p : Props α}
    {rd g : Draws α} {res : DMP α} {rep : Option (MixReport α)} (hlen : 2 ≤ cur.crit.length)
    (h : mixing eps orig cur p rd g = .ok (res, rep)) :
    ∃ r : MixReport α, rep = some r ∧
      (∃ c : Crit α, res.crit = cur.crit ++ [c] ∧ c.id = r.new.id ∧ c.type = "gain") ∧
      (∃ c1 ∈ orig.crit, ∃ c2 ∈ orig.crit, r.c1.id = c1.id ∧ r.c2.id = c2.id ∧
          r.new.id = "__" ++ c1.id ++ "+" ++ c2.id ++ "__") ∧
      (∀ x ∈ cur.crit, x.id ≠ r.new.id) ∧
      res.co.map (·.id) = cur.co.map (·.id) ∧ res.nc.map (·.id) = cur.nc.map (·.id) ∧
      (∀ a' ∈ res.co ++ res.nc, ∃ a ∈ orig.co ++ orig.nc, ∃ v,
          a'.id = a.id ∧ a'.vals = a.vals ++ [(r.new.id, v)] ∧ a.vals.has r.new.id = false) ∧
      (∀ am ∈ r.new.values, ∃ x y, (am.1, x) ∈ r.c1.values ∧ r.c2.values.get? am.1 = some y ∧
          am.2 = mixValue (p.num "mixingRatio" (Num.ofConst Facts.defaultMixingRatio)) x y) := by
  unfold mixing at h
  rw [if_neg (by omega)] at h
  dsimp only at h
  split at h
  · simp [throw, throwThe, MonadExceptOf.throw] at h
  · obtain ⟨d1, _, h⟩ := bind_eq_ok.mp h
    obtain ⟨d2, _, h⟩ := bind_eq_ok.mp h
    split at h
    · simp [throw, throwThe, MonadExceptOf.throw] at h
    · obtain ⟨r, hr, ⟨c1, c2, hc1, hc2, e1, _, e2, _, e3⟩, ht, ⟨target, hcr⟩, hf, hco, hnc, hal, hmx⟩ := mixingCore_ok h
      refine ⟨r, hr, ⟨_, hcr, rfl, by rw [ht]; rfl⟩,
        ⟨c1, List.mem_of_getElem? hc1, c2, List.mem_of_getElem? hc2, e1, e2, e3⟩, ?_, hco, hnc, ?_, hmx⟩
      · intro x hx e
        have := hf x hx
        simp [e] at this
      · intro a' ha'
        obtain ⟨a, ha, v, i1, i2, i3⟩ := hal a' ha'
        exact ⟨a, ha, v, by simpa using i1, i2, i3⟩

/-! ### reference criterion -/

/-- Whatever the strategy (`importanceRatio`, `randomUniform`, `randomWeighted`) and its parameters, the
    reference criterion is one of the ranked — i.e. existing — criteria. -/
theorem reference_criterion_is_an_existing_criterion {α : Type} [Num α] {p : Props α}
    {ranked : List (WCrit α)} {d : Draws α} {c : Crit α} (h : refCriterion p ranked d = .ok c) :
    c ∈ ranked.map (·.crit) := refCriterion_mem h

theorem eqCrit_refl (c : Crit Rat) : Spec.C18.eqCrit c c = true := eqCritQ_refl c

/-- The checker the driver evaluates on the implementation's output (`check-c18-refcrit`) accepts the
    model's reference criterion for every ranking, strategy, parameters and random stream. -/
theorem spec_accepts_the_models_reference_criterion {p : Props Rat} {ranked : List (WCrit Rat)}
    {d : Draws Rat} {c : Crit Rat} (h : refCriterion p ranked d = .ok c) :
    Spec.C18.refCritOk ranked c = true := by
  have hm := refCriterion_mem h
  rw [List.mem_map] at hm
  obtain ⟨w, hw, rfl⟩ := hm
  unfold Spec.C18.refCritOk
  rw [List.any_eq_true]
  exact ⟨w, hw, eqCrit_refl _⟩

/-- `FindCriterionInRange` answers on every non-empty ranking, with a member of it. -/
theorem find_criterion_in_range_returns_a_member {α : Type} [Num α] (ranked : List (WCrit α)) (e : α)
    (hne : ranked ≠ []) : ∃ w ∈ ranked, findCriterionInRange ranked e = .ok w.crit := by
  obtain ⟨c, hc⟩ := findCriterionInRange_total e hne
  obtain ⟨w, hw, rfl⟩ := findCriterionInRange_mem hc
  exact ⟨w, hw, hc⟩

/-- The uniform strategy's index `⌊u·n⌋` is a valid index for `u ∈ [0,1)`. -/
theorem uniform_index_is_in_range (u : Rat) (n : Nat) (hn : 0 < n) (hu0 : 0 ≤ u) (hu1 : u < 1) :
    0 ≤ (Num.floorInt (u * Num.ofNat n) : Int) ∧ (Num.floorInt (u * Num.ofNat n) : Int) < n := by
  have := floor_mul_bounds u (Int.ofNat n) hu0 hu1 (by simpa using hn)
  simpa [Num.ofNat] using this

/-- the constants and names this property's models depend on were re-read from the working tree on this run
    (none fell back to its pinned value because its declaration could not be located) -/
theorem facts_fresh : (Rdm.Facts.staleFacts.all fun n => !["concealedBaseName", "critGain", "defaultMixingRatio",
    "defaultConcealmentScaling", "defaultBoundingScaling", "refImportanceRatio", "refRandomUniform",
    "refRandomWeighted", "wiringRefCriterionFactories", "choquetEps", "roundPrecision"].contains n) = true := by
  decide

end Rdm.Props.C18
