/- C18 — property theorems (stub; filled in by the owning work package). -/
import Rdm.Basic
namespace Rdm.Props.C18
end Rdm.Props.C18
