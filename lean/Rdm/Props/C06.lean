/-
  C06 — ELECTRE III respects dominance, equality and listing order.  Property theorems only (over `Rat`);
  helper lemmas are in Rdm/Lemmas/Electre*.lean.  The float statement "times a power of two" is checked
  metamorphically on the real code (harness c06.go); the theorem here is for every factor `c ≠ 0`.
-/
import Rdm.Lemmas.ElectreCred
import Rdm.Lemmas.ElectreDominance
import Rdm.Lemmas.ElectrePermutation
import Mathlib.Tactic.NormNum
namespace Rdm.Props.C06
open Rdm

/-- the guard of the property for every criterion in use -/
def Guard (crits : List (Crit Rat)) (ec : KMap (ECrit Rat)) : Prop :=
  ∀ c ∈ crits, ∀ t, ec.get? c.id = some t → Spec.C05.critInDomain t = true

theorem guardAll_of_guard {crits : List (Crit Rat)} {ec : KMap (ECrit Rat)} (hg : Guard crits ec) : GuardAll crits ec :=
  fun c hc t ht => critInDomain_guard t (hg c hc t ht)

/-! ### monotonicity (dominance) -/

/-- per criterion: concordance does not decrease and discordance does not increase when `a` gets better
    (signed value `c1 ≤ c1'`) -/
theorem partial_monotone_in_a (c1 c1' c2 mult mult' : Rat) (t : ECrit Rat) (h : Spec.C05.critInDomain t = true)
    (hle : c1 ≤ c1') :
    (calcElectreResult c1 c2 mult t).c ≤ (calcElectreResult c1' c2 mult' t).c ∧
    (calcElectreResult c1' c2 mult' t).d ≤ (calcElectreResult c1 c2 mult t).d :=
  (calc_betterRes t (critInDomain_guard t h).1 c1 c2 c1' c2 mult mult' (by linarith)).2

/-- per criterion: concordance does not increase and discordance does not decrease when `b` gets better -/
theorem partial_monotone_in_b (c1 c2 c2' mult mult' : Rat) (t : ECrit Rat) (h : Spec.C05.critInDomain t = true)
    (hle : c2 ≤ c2') :
    (calcElectreResult c1 c2' mult' t).c ≤ (calcElectreResult c1 c2 mult t).c ∧
    (calcElectreResult c1 c2 mult t).d ≤ (calcElectreResult c1 c2' mult' t).d :=
  (calc_betterRes t (critInDomain_guard t h).1 c1 c2' c1 c2 mult' mult (by linarith)).2

/-- total concordance is monotone in every per-criterion concordance (same positive weights) -/
theorem totalC_monotone (rs rs' : List (ESingle Rat))
    (h : List.Forall₂ (fun r r' : ESingle Rat => r.k = r'.k ∧ r.res.c ≤ r'.res.c) rs rs')
    (hk : ∀ r ∈ rs, 0 < r.k) : calculateTotalC rs ≤ calculateTotalC rs' :=
  totalC_mono rs rs' h hk

/-- credibility is monotone: larger concordance and smaller discordances give a larger credibility -/
theorem credibility_monotone (C C' : Rat) (hC0 : 0 ≤ C) (hCC : C ≤ C') (hC1 : C' ≤ 1)
    (rs rs' : List (ESingle Rat)) (h : List.Forall₂ BetterRes rs rs')
    (hd : ∀ r ∈ rs, r.res.d ≤ 1) (hd' : ∀ r ∈ rs', 0 ≤ r.res.d) :
    calculateCredibility C rs ≤ calculateCredibility C' rs' :=
  calculateCredibility_mono C C' hC0 hCC hC1 rs rs' h hd hd'

/-- dominance on the credibility matrix: if alternative `i'` is at least as good as `i` on every criterion then
    σ(i', i) = 1 and for every third alternative x: σ(i, x) ≤ σ(i', x) and σ(x, i') ≤ σ(x, i) -/
theorem credibility_matrix_dominance (alts : List (Alt Rat)) (crits : List (Crit Rat)) (hne : crits ≠ [])
    (ec : KMap (ECrit Rat)) (hg : Guard crits ec) (m : Matrix Rat)
    (h : credibilityMatrix alts crits ec = .ok m) (i i' : Nat) (hi : i < alts.length) (hi' : i' < alts.length)
    (hdom : Dominates crits alts[i'] alts[i]) :
    (i ≠ i' → m.at i' i = 1) ∧
    ∀ x, (hx : x < alts.length) → x ≠ i → x ≠ i' → m.at i x ≤ m.at i' x ∧ m.at x i' ≤ m.at x i :=
  credibilityMatrix_dominance alts crits hne ec (guardAll_of_guard hg) m h i i' hi hi' hdom

/-- identical alternatives (each at least as good as the other) have the same credibilities towards and from
    every third alternative, and σ = 1 between them -/
theorem credibility_matrix_identical (alts : List (Alt Rat)) (crits : List (Crit Rat)) (hne : crits ≠ [])
    (ec : KMap (ECrit Rat)) (hg : Guard crits ec) (m : Matrix Rat)
    (h : credibilityMatrix alts crits ec = .ok m) (i i' : Nat) (hi : i < alts.length) (hi' : i' < alts.length)
    (h1 : Dominates crits alts[i'] alts[i]) (h2 : Dominates crits alts[i] alts[i']) (hii : i ≠ i') :
    m.at i' i = 1 ∧ m.at i i' = 1 ∧
    ∀ x, (hx : x < alts.length) → x ≠ i → x ≠ i' → m.at i x = m.at i' x ∧ m.at x i' = m.at x i := by
  obtain ⟨a1, a2⟩ := credibilityMatrix_dominance alts crits hne ec (guardAll_of_guard hg) m h i i' hi hi' h1
  obtain ⟨b1, b2⟩ := credibilityMatrix_dominance alts crits hne ec (guardAll_of_guard hg) m h i' i hi' hi h2
  refine ⟨a1 hii, b1 (Ne.symm hii), fun x hx hxi hxi' => ?_⟩
  obtain ⟨p1, p2⟩ := a2 x hx hxi hxi'
  obtain ⟨q1, q2⟩ := b2 x hx hxi' hxi
  exact ⟨le_antisymm p1 q1, le_antisymm p2 q2⟩

/-- dominance for the declarative distillations of any credibility matrix: if `a` dominates `b` on `σ_m`
    (`DomSigma`: σ(a,x) ≥ σ(b,x), σ(x,a) ≤ σ(x,b) for every third x, σ(b,a) ≤ σ(a,b), `s ≥ 0` at σ(b,a), `s`
    non-increasing) then `asc a ≤ asc b` and `desc a ≤ desc b` -/
theorem dominance_spec_level (m : Matrix Rat) (s : LinFun Rat) (a b : Nat)
    (h : DomSigma (Spec.C05.sigmaOf m) s m.size a b) (ha : a < m.size) (hb : b < m.size) :
    (∀ asc, Spec.C05.specAscending m s = some asc → asc.getD a 0 ≤ asc.getD b 0) ∧
    (∀ desc, Spec.C05.specDescending m s = some desc → desc.getD a 0 ≤ desc.getD b 0) :=
  dom_spec_indices m h ha hb

/-- **dominance, end to end on the model**: if alternative `ia` is at least as good as alternative `ib` on every
    criterion (signed values), then in the answer of `ElectreIII` `ascendingIndex(ia) ≤ ascendingIndex(ib)`,
    `descendingIndex(ia) ≤ descendingIndex(ib)` and `ia` lists `ib` in `betterThanOrSameAs`.
    Domain: constant thresholds `0 ≤ q < p < v`, `k > 0`, in-domain distillation function. -/
theorem electreIII_respects_dominance (alts : List (Alt Rat)) (crits : List (Crit Rat)) (hne : crits ≠ [])
    (ec : KMap (ECrit Rat)) (hg : Guard crits ec) (dist : LinFun Rat) (hs : Spec.C05.distInDomain dist = true)
    (ia ib : Nat) (hia : ia < alts.length) (hib : ib < alts.length) (hab : ia ≠ ib)
    (hdom : Dominates crits alts[ia] alts[ib])
    (out : List (Linked (Int × Int))) (h : electreIII alts crits ec dist = .ok out) :
    ∃ (h1 : ia < out.length) (h2 : ib < out.length),
      out[ia].ev.1 ≤ out[ib].ev.1 ∧ out[ia].ev.2 ≤ out[ib].ev.2 ∧ alts[ib].id ∈ out[ia].links :=
  electreIII_dominance alts crits hne ec (guardAll_of_guard hg) dist hs ia ib hia hib hab hdom out h

/-- **identical alternatives**: two alternatives that are at least as good as each other on every criterion (in
    particular alternatives with identical criteria values) receive identical indices and list each other -/
theorem electreIII_identical_alternatives (alts : List (Alt Rat)) (crits : List (Crit Rat)) (hne : crits ≠ [])
    (ec : KMap (ECrit Rat)) (hg : Guard crits ec) (dist : LinFun Rat) (hs : Spec.C05.distInDomain dist = true)
    (ia ib : Nat) (hia : ia < alts.length) (hib : ib < alts.length) (hab : ia ≠ ib)
    (h1 : Dominates crits alts[ia] alts[ib]) (h2 : Dominates crits alts[ib] alts[ia])
    (out : List (Linked (Int × Int))) (h : electreIII alts crits ec dist = .ok out) :
    ∃ (ha : ia < out.length) (hb : ib < out.length),
      out[ia].ev = out[ib].ev ∧ alts[ib].id ∈ out[ia].links ∧ alts[ia].id ∈ out[ib].links := by
  obtain ⟨a1, a2, p1, p2, p3⟩ := electreIII_dominance alts crits hne ec (guardAll_of_guard hg) dist hs ia ib hia hib hab h1 out h
  obtain ⟨_, _, q1, q2, q3⟩ := electreIII_dominance alts crits hne ec (guardAll_of_guard hg) dist hs ib ia hib hia
    (Ne.symm hab) h2 out h
  exact ⟨a1, a2, Prod.ext (le_antisymm p1 q1) (le_antisymm p2 q2), p3, q3⟩

/-! ### listing order -/

/-- the declarative distillation does not depend on the order in which the current set is listed: a permuted
    list of alternatives gets the same class numbers -/
theorem distillation_order_independent (σ : Nat → Nat → Rat) (s : LinFun Rat) (pm : Bool) (fN fo : Nat)
    (A A' : List Nat) (h : A.Perm A') (k : Int) (asg : List (Nat × Int))
    (hd : Spec.C05.distill σ s pm fN fo A k = some asg) :
    ∃ asg', Spec.C05.distill σ s pm fN fo A' k = some asg' ∧ ∀ x, asg'.lookup x = asg.lookup x :=
  distill_perm pm fN fo h k asg hd

/-- equivariance of both distillations of the model: if `m'` is `m` with the alternatives listed in the order
    `π` (a permutation of `0..n-1`), then alternative `i` of `m'` has the indices of alternative `π i` of `m` -/
theorem rank_permutation_equivariant (m m' : Matrix Rat) (s : LinFun Rat) (π : Nat → Nat) (hπ : IsPerm m.size π)
    (hsz : m'.size = m.size) (hm : ∀ i j, i < m.size → j < m.size → m'.at i j = m.at (π i) (π j))
    (hlen : m.data.length = m.size * m.size) (hlen' : m'.data.length = m'.size * m'.size)
    (asc asc' desc desc' : List Int)
    (ha : rankAscending m s = .ok asc) (ha' : rankAscending m' s = .ok asc')
    (hd : rankDescending m s = .ok desc) (hd' : rankDescending m' s = .ok desc') :
    ∀ i, i < m.size → asc'.getD i 0 = asc.getD (π i) 0 ∧ desc'.getD i 0 = desc.getD (π i) 0 :=
  fun i hi => ⟨rank_equivariant m m' π hπ hsz hm hlen hlen' true asc asc' ha ha' i hi,
    rankDescending_equivariant m m' π hπ hsz hm hlen hlen' desc desc' hd hd' i hi⟩

/-- **listing order, end to end on the model**: if `alts'` lists the alternatives of `alts` in another order
    (`alts'[i] = alts[π i]`), the answer of `ElectreIII` carries the same pair of indices for every alternative.
    (With `links_characterisation` of C05 the `betterThanOrSameAs` sets then agree as well, being determined
    by the indices.)  No domain restriction is needed. -/
theorem electreIII_permutation_equivariant (alts alts' : List (Alt Rat)) (crits : List (Crit Rat))
    (ec : KMap (ECrit Rat)) (dist : LinFun Rat) (π : Nat → Nat) (hπ : IsPerm alts.length π)
    (hl : alts'.length = alts.length)
    (ha : ∀ i (hi : i < alts.length), alts'[i]'(by rw [hl]; exact hi) = alts[π i]'(hπ.lt i hi))
    (out out' : List (Linked (Int × Int)))
    (h : electreIII alts crits ec dist = .ok out) (h' : electreIII alts' crits ec dist = .ok out') :
    out.length = alts.length ∧ out'.length = alts.length ∧
    ∀ i (_ : i < alts.length) (h1 : i < out'.length) (h2 : π i < out.length), out'[i].ev = out[π i].ev :=
  electreIII_equivariant alts alts' crits ec dist π hπ hl ha out out' h h'

/-! ### scaling of the weights -/

/-- multiplying every weight `k` by the same `c ≠ 0` leaves total concordance and credibility unchanged -/
theorem weights_scaling_sigma (c : Rat) (hc : c ≠ 0) (a1 a2 : Alt Rat) (crits : List (Crit Rat)) (ec : KMap (ECrit Rat)) :
    electreCredibility a1 a2 crits (scaleWeights c ec) = electreCredibility a1 a2 crits ec :=
  electreCredibility_scale c hc a1 a2 crits ec

/-- … hence the whole answer of `ElectreIII` (both indices and all links) is unchanged -/
theorem weights_scaling_electreIII (c : Rat) (hc : c ≠ 0) (alts : List (Alt Rat)) (crits : List (Crit Rat))
    (ec : KMap (ECrit Rat)) (dist : LinFun Rat) :
    electreIII alts crits (scaleWeights c ec) dist = electreIII alts crits ec dist :=
  electreIII_scale c hc alts crits ec dist

/-! ### the hypotheses are satisfiable -/

example : Guard [⟨"c", "gain", none⟩] [("c", ⟨2, ⟨0, 1/2⟩, ⟨0, 1⟩, ⟨0, 3⟩⟩)] := by
  intro c hc t ht
  simp only [List.mem_singleton] at hc
  subst hc
  simp only [KMap.get?, List.lookup, beq_self_eq_true, Option.some.injEq] at ht
  subst ht
  simp [Spec.C05.critInDomain]; norm_num

example : IsPerm 3 (fun i => if i = 0 then 1 else if i = 1 then 0 else i) := by
  refine ⟨fun i j h => ?_, by decide⟩
  split_ifs at h <;> omega

example : Dominates [⟨"c", "cost", none⟩] ⟨"a", [("c", (1 : Rat))]⟩ ⟨"b", [("c", (2 : Rat))]⟩ := by
  intro c hc x y hx hy
  simp only [List.mem_singleton] at hc
  subst hc
  simp [Alt.signed, Alt.raw, KMap.get?, List.lookup, Crit.mult, bind, Except.bind, pure, Except.pure] at hx hy
  subst hx; subst hy
  norm_num

/-- the constants and names this property depends on were re-read from the working tree on this run
    (none fell back to its pinned value because its declaration could not be located) -/
theorem facts_fresh : (Rdm.Facts.staleFacts.all fun n => !["defaultDistillationA", "defaultDistillationB", "methodElectre"].contains n) = true := by decide

end Rdm.Props.C06
