/- C06 — property theorems (stub; filled in by the owning work package). -/
import Rdm.Basic
namespace Rdm.Props.C06
end Rdm.Props.C06
